/-
C20  Key latches exclude overlapping requests without deadlock.

Model: NoKVModel/Conc/Latch.lean (one micro-step per `sync.Mutex.Lock` / `Unlock` of a stripe).
All theorems quantify over every reachable state of every schedule, any number of requests, any
key sets (duplicates, empty keys), any stripe count > 0 and **any hash function** (so any
collisions).  Helper lemmas: Conc/LatchLemmas.lean, Conc/LatchOrder.lean.
-/
import NoKVModel.Conc.LatchOrder
import NoKVModel.Conc.LatchSeq

namespace NoKV.Props.C20
open NoKV NoKV.Conc NoKV.Conc.Latch

/-- a request holds its latches from the return of `Acquire` to the start of `Release` -/
def Holds (s : St) (tid : Nat) (t : Thr) : Prop := s.thr tid = some t ∧ t.phase = .holding

/-- **Mutual exclusion on stripes and on latched keys** (holds for the as-is code as well: it
does not depend on the empty-key skip).  Two distinct holders have disjoint stripe sets; hence
two requests that share a key which `Acquire` latches (every non-empty key; the empty key too
unless it is skipped) never hold at the same time. -/
theorem C20_mutex_latched (c : LatchCfg) (hc : c.LockGood) (hash : Bytes → Nat) (s : St)
    (hr : Reachable (sys c hash) s) (i j : Nat) (ti tj : Thr) (hij : i ≠ j)
    (hi : Holds s i ti) (hj : Holds s j tj) :
    (∀ x ∈ ti.slots, x ∉ tj.slots) ∧
    (∀ k, k ∈ ti.keys → k ∈ tj.keys → c.skipsEmptyKeys = true ∧ k = []) := by
  have hinv := Inv.reachable hc.2.2 hash s hr
  have hk := KeysInv.reachable c hash s hr
  have hdisj : ∀ x ∈ ti.slots, x ∉ tj.slots := by
    intro x hx hx'
    have h1 := hinv.gotOwn i ti hi.1 x (hinv.holdAll i ti hi.1 hi.2 x hx)
    have h2 := hinv.gotOwn j tj hj.1 x (hinv.holdAll j tj hj.1 hj.2 x hx')
    rw [h1] at h2
    exact hij (Option.some.inj h2)
  refine ⟨hdisj, ?_⟩
  intro k hki hkj
  apply Classical.byContradiction
  intro hne
  have e1 := hk i ti hi.1 (Or.inr hi.2)
  have e2 := hk j tj hj.1 (Or.inr hj.2)
  have m1 : hash k % s.n ∈ ti.slots := e1 ▸ indices_mem c s.n hash ti.keys k hki hne
  have m2 : hash k % s.n ∈ tj.slots := e2 ▸ indices_mem c s.n hash tj.keys k hkj hne
  exact hdisj _ m1 m2

/-- **Mutual exclusion, full statement**: two requests whose key sets share *any* key (the empty
key included) never hold their latches at the same time. -/
theorem C20_mutex (c : LatchCfg) (hc : c.Good) (hash : Bytes → Nat) (s : St)
    (hr : Reachable (sys c hash) s) (i j : Nat) (ti tj : Thr) (hij : i ≠ j)
    (hi : Holds s i ti) (hj : Holds s j tj) :
    ∀ k, k ∈ ti.keys → k ∉ tj.keys := by
  intro k hki hkj
  have := (C20_mutex_latched c ⟨hc.1, hc.2.1, hc.2.2.2⟩ hash s hr i j ti tj hij hi hj).2 k hki hkj
  rw [hc.2.2.1] at this
  cases this.1

/-- **Acquire locks each needed stripe exactly once, in ascending order** — for every stripe
count `n > 0`, every hash function (any collisions) and every key list (duplicates, keys colliding on
one stripe, empty keys).  (a) The stripe list Acquire computes is strictly ascending (so no stripe
occurs twice: a request never blocks on itself), lies below `n`, and contains exactly the stripes
`hash k % n` of the keys it latches.  (b) In every reachable state a request that is acquiring or
holding has locked, in this order, a prefix of that list and still has to lock the rest; a holder
has locked all of it. -/
theorem C20_acquire_exactly_once (c : LatchCfg) (hc : c.LockGood) (hash : Bytes → Nat) :
    (∀ n keys, 0 < n →
      (indices c n hash keys).Pairwise (· < ·) ∧
      (∀ a ∈ indices c n hash keys, a < n) ∧
      (∀ a, a ∈ indices c n hash keys ↔
        ∃ k ∈ keys, ¬ (c.skipsEmptyKeys = true ∧ k = []) ∧ hash k % n = a)) ∧
    (∀ s, Reachable (sys c hash) s → ∀ tid t, s.thr tid = some t →
      (t.phase = .acquiring ∨ t.phase = .holding) →
      t.got.reverse ++ t.todo = indices c s.n hash t.keys ∧ (t.phase = .holding → t.todo = [])) := by
  refine ⟨?_, ?_⟩
  · intro n keys hn
    refine ⟨indices_strict c hc.1 hc.2.1 n hash keys, indices_lt c n hn hash keys, ?_⟩
    intro a
    constructor
    · exact indices_sound c n hash keys a
    · rintro ⟨k, hk, hne, rfl⟩
      exact indices_mem c n hash keys k hk hne
  · intro s hr tid t ht hph
    have h1 := SeqInv.reachable c hash s hr tid t ht hph
    have h2 := KeysInv.reachable c hash s hr tid t ht hph
    rw [← h2]
    exact h1

/-- **No deadlock**: in every reachable state in which some request has not finished, some
request can take a step (ordered acquisition: the waiter for the largest wanted stripe is never
blocked by another waiter). -/
theorem C20_no_deadlock (c : LatchCfg) (hc : c.LockGood) (hash : Bytes → Nat) (s : St)
    (hr : Reachable (sys c hash) s)
    (hun : ∃ tid t, s.thr tid = some t ∧ t.phase ≠ .done) :
    ∃ tid s', Latch.step c hash s (.run tid) = some s' := by
  obtain ⟨hinv, hord⟩ := Ord.reachable hc hash s hr
  obtain ⟨tid, t, ht, hnd⟩ := hun
  have : ∃ tid' t', s.thr tid' = some t' ∧ (stepThr c s tid' t').isSome = true := by
    by_cases hp : t.phase = .acquiring
    · cases htd : t.todo with
      | nil => exact absurd htd ((hord tid t ht).acqTodo hp)
      | cons i rest => exact enabled_chain c s hinv hord (s.n - i) tid t i rest ht hp htd (Nat.le_refl _)
    · exact ⟨tid, t, ht, enabled_of_not_acquiring c s tid t hp hnd⟩
  obtain ⟨tid', t', ht', hen⟩ := this
  obtain ⟨s', hs'⟩ := Option.isSome_iff_exists.mp hen
  exact ⟨tid', s', by simp [Latch.step, ht', hs']⟩

/-- **An acquisition proceeds as soon as the stripe it waits for is free**, and a request that
holds or releases is never blocked: the only disabled step is `Lock` on a stripe owned by
another request. -/
theorem C20_blocked_only_by_holder (c : LatchCfg) (hc : c.LockGood) (hash : Bytes → Nat) (s : St)
    (hr : Reachable (sys c hash) s) (tid : Nat) (t : Thr) (ht : s.thr tid = some t)
    (hnd : t.phase ≠ .done) (hblocked : Latch.step c hash s (.run tid) = none) :
    ∃ i rest u tu, t.phase = .acquiring ∧ t.todo = i :: rest ∧ s.owner i = some u ∧ u ≠ tid ∧
      s.thr u = some tu ∧ i ∈ tu.got ∧ tu.phase ≠ .done := by
  obtain ⟨hinv, hord⟩ := Ord.reachable hc hash s hr
  simp only [Latch.step, ht] at hblocked
  by_cases hp : t.phase = .acquiring
  · cases htd : t.todo with
    | nil => exact absurd htd ((hord tid t ht).acqTodo hp)
    | cons i rest =>
      cases hown : s.owner i with
      | none => simp [stepThr, hp, htd, hown] at hblocked
      | some u =>
        obtain ⟨tu, htu, hig⟩ := hinv.ownThr i u hown
        refine ⟨i, rest, u, tu, hp, rfl, hown, ?_, htu, hig, ?_⟩
        · intro e; subst e
          rw [ht] at htu; cases htu
          have := (hord u t ht).gotLtTodo i hig i (by simp [htd])
          omega
        · intro hd
          have := (hinv.relEmpty u tu htu (Or.inr hd)).1
          rw [this] at hig; cases hig
  · have := enabled_of_not_acquiring c s tid t hp hnd
    rw [hblocked] at this; cases this

/-- **Releasing twice is harmless**: the second `Release` of a guard changes no stripe and does
not crash (`sync: unlock of unlocked mutex`). -/
theorem C20_double_release (c : LatchCfg) (hc : c.releaseClears = true) (hash : Bytes → Nat) (s : St)
    (hr : Reachable (sys c hash) s) (tid : Nat) (t : Thr) (ht : s.thr tid = some t)
    (hp : t.phase = .released) :
    ∃ s', Latch.step c hash s (.run tid) = some s' ∧ s'.owner = s.owner ∧ s'.crashed = false ∧
      ∃ t', s'.thr tid = some t' ∧ t'.phase = .done := by
  have hinv := Inv.reachable hc hash s hr
  have hsl := (hinv.relEmpty tid t ht (Or.inl hp)).2
  refine ⟨{ s with thr := upd s.thr tid (some { t with phase := .done }) }, ?_, rfl, hinv.notCrashed,
    { t with phase := .done }, by simp, rfl⟩
  simp [Latch.step, ht, stepThr, hp, hsl]

/-! ### as-is: empty keys are skipped (finding `latch-empty-key-not-latched`) -/

theorem C20_fails_asis_emptykey (c : LatchCfg)
    (hc : c = { LatchCfg.good with skipsEmptyKeys := true }) :
    ∃ s, Reachable (sys c (fun k => k.headD 0)) s ∧
      ∃ ti tj, Holds s 0 ti ∧ Holds s 1 tj ∧ ([] : Bytes) ∈ ti.keys ∧ ([] : Bytes) ∈ tj.keys := by
  subst hc
  let c0 : LatchCfg := { LatchCfg.good with skipsEmptyKeys := true }
  let hash : Bytes → Nat := fun k => k.headD 0
  have hinit : Reachable (sys c0 hash) (initSt 2) := .init ⟨2, by decide, rfl⟩
  refine ⟨run (sys c0 hash) (initSt 2) [.spawn 0 [[]], .spawn 1 [[]]],
    run_reachable _ _ hinit _, spawnThr [[]] [], spawnThr [[]] [], ?_, ?_, ?_, ?_⟩
  · exact ⟨by decide, by decide⟩
  · exact ⟨by decide, by decide⟩
  · decide
  · decide

/-! ### non-vacuity -/

/-- 128 stripes, a duplicated key and two distinct keys colliding on stripe 64, plus stripe 3:
the stripe list is [3, 64] — stripe 64 once -/
example : indices LatchCfg.good 128 (fun k => k.headD 0) [[64, 97], [3, 97], [64, 97], [64, 98]] = [3, 64] := by
  decide

example : LatchCfg.good.Good := by decide

/-- under the good configuration two requests sharing stripe 1 are serialized: request 1 cannot
take stripe 1 while request 0 holds it, and gets it after the release -/
example :
    let S := sys LatchCfg.good (fun k => k.headD 0)
    let s1 := run S (initSt 2) [.spawn 0 [[1], [0]], .spawn 1 [[1]], .run 0, .run 0, .run 1]
    let s2 := run S s1 [.run 0, .run 0, .run 0, .run 1]
    (s1.thr 0).map (·.phase) = some .holding ∧ (s1.thr 1).map (·.phase) = some .acquiring ∧
    (s2.thr 0).map (·.phase) = some .released ∧ (s2.thr 1).map (·.phase) = some .holding := by
  decide

end NoKV.Props.C20

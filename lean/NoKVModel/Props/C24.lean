/-
C24  Splits and merges keep regions a partition with increasing epochs.

Statement conventions.  `CInv rs` = ids unique and non-zero, every range proper, ranges
pairwise disjoint (`rangesOverlap`-style, which for proper ranges is "share no key":
`overlapG_iff`), states in {running, removing, tombstone}.  `covers rs k` = some live
region contains key `k`.  "Cover exactly the key space they covered before" is
`∀ k, covers rs' k ↔ covers rs k`; a stand-alone removal shrinks it by exactly the removed
range.  The child's end key is supplied by the caller of `SplitRegion`; the code does not
check it, so `child.end_ = parent.end_` is a hypothesis (`hend`), as is freshness of the
child id.
-/
import NoKVModel.Region.CatalogSteps
import NoKVModel.Region.PersistLemmas

namespace NoKV.Props.C24
open NoKV NoKV.Region NoKV.Bytes

/-- **Split.** -/
theorem C24_split (c : CatCfg) (hc : c.SplitGood ∧ c.TransGood) (rs rs' : Catalog) (hI : CInv rs)
    (parentId : Nat) (child p : Meta)
    (h : split c rs parentId child = some rs')
    (hp : find rs parentId = some p)
    (hfresh : ∀ m ∈ rs, m.id ≠ child.id) (hend : child.end_ = p.end_) :
    CInv rs' ∧ (∀ k, covers rs' k ↔ covers rs k) ∧
    (∃ p' ∈ rs', p'.id = parentId ∧ p'.epoch.ver = p.epoch.ver + 1 ∧ p'.epoch.conf = p.epoch.conf) := by
  obtain ⟨⟨hso, heo, hbump⟩, ht⟩ := hc
  obtain ⟨hpm, hpid⟩ := find_some hp
  unfold split at h
  by_cases hz : parentId = 0 ∨ child.id = 0 ∨ child.start = []
  · rw [if_pos hz] at h; cases h
  rw [if_neg hz, hp] at h
  simp only at h
  simp only [not_or] at hz
  obtain ⟨_, hc0, hcs⟩ := hz
  by_cases he : p.end_ ≠ [] ∧ bcmp c.splitEndOp child.start p.end_ = true
  · rw [if_pos he] at h; cases h
  rw [if_neg he] at h
  by_cases hs : bcmp c.splitStartOp child.start p.start = true
  · rw [if_pos hs] at h; cases h
  rw [if_neg hs] at h
  -- the order facts
  rw [hso, bcmp_le] at hs
  rw [heo, bcmp_ge] at he
  have hlt1 : Bytes.lt p.start child.start = true := by
    simpa [Bytes.le] using hs
  have hlt2 : p.end_ = [] ∨ Bytes.lt child.start p.end_ = true := by
    by_cases hpe : p.end_ = []
    · exact Or.inl hpe
    · right
      have : Bytes.le p.end_ child.start = false := by
        cases hh : Bytes.le p.end_ child.start
        · rfl
        · exact absurd ⟨hpe, hh⟩ he
      simpa [Bytes.le] using this
  -- parent update
  obtain ⟨f1, f2, f3, f4, f5, _⟩ := bumpVer_fields c.splitBumpsVersion { p with end_ := child.start }
  simp only at f1 f2 f3 f4 f5
  generalize hp' : bumpVer c.splitBumpsVersion { p with end_ := child.start } = p' at h f1 f2 f3 f4 f5
  have hpst := hI.states p hpm
  have hp0 := hI.nonzero p hpm
  have hu1 : update c rs p' = some (put rs p') :=
    update_same_state c rs hI.nodup p p' hpm f1 f4 (by rw [f1]; exact hp0) (by rw [f4]; omega)
  rw [hu1] at h
  simp only at h
  have hI1 : CInv (put rs p') := by
    apply cinv_put hI
    · unfold proper; rw [f2, f3]; exact Or.inr hlt1
    · rw [f1]; exact hp0
    · rw [f4]; exact hpst
    · intro o ho hne
      rw [f1] at hne
      have := hI.disj p hpm o ho (fun e => hne e.symm)
      rw [overlapG_false_iff] at this ⊢
      rw [f2, f3]
      rcases this with ⟨a, b⟩ | ⟨a, b⟩
      · left
        refine ⟨hcs, ?_⟩
        rcases hlt2 with e | e
        · exact absurd e a
        · exact le_trans (le_of_lt e) b
      · exact Or.inr ⟨a, b⟩
  -- child insert
  have hfresh1 : ∀ m ∈ put rs p', m.id ≠ child.id := by
    intro m hm
    rcases mem_put.mp hm with e | e
    · rw [e, f1]; exact hfresh p hpm
    · exact hfresh m e.1
  have hu2 : update c (put rs p') { child with state := 1 } = some (put (put rs p') { child with state := 1 }) := by
    unfold update
    have hn : ({ child with state := 1 } : Meta).state ≠ 0 := by simp
    rw [if_neg (by simpa using hc0), normState_of_ne hn]
    have : curState (put rs p') ({ child with state := 1 } : Meta).id = 0 := curState_of_fresh hfresh1
    rw [this]
    have hv : validTrans c 0 1 = true := by rw [validTrans_iff c ht]; exact Or.inr (Or.inl ⟨rfl, rfl⟩)
    simp only [hv, if_true]
  rw [hu2] at h
  simp only [Option.some.injEq] at h
  subst h
  refine ⟨?_, ?_, ?_⟩
  · apply cinv_put hI1
    · unfold proper
      simp only [hend]
      rcases hlt2 with e | e
      · exact Or.inl e
      · exact Or.inr e
    · simpa using hc0
    · simp
    · intro o ho hne
      simp only at hne
      rw [overlapG_false_iff]
      simp only [hend]
      rcases mem_put.mp ho with e | e
      · -- against the shrunk parent
        right; rw [e, f3]; exact ⟨hcs, le_refl _⟩
      · have hop : o.id ≠ p.id := by rw [← f1]; exact e.2
        have := hI.disj p hpm o e.1 (fun x => hop x.symm)
        rw [overlapG_false_iff] at this
        rcases this with ⟨a, b⟩ | ⟨a, b⟩
        · exact Or.inl ⟨a, b⟩
        · exact Or.inr ⟨a, le_trans b (le_of_lt hlt1)⟩
  · intro k
    have hsplit := contains_split p p' { child with state := 1 } k f2 f3 hend hcs hlt1 hlt2
    have hp'c : p'.id ≠ ({ child with state := 1 } : Meta).id := by
      simp only; rw [f1]; exact hfresh p hpm
    unfold covers
    constructor
    · rintro ⟨r, hr, hk⟩
      rcases mem_put.mp hr with e | e
      · subst e; exact ⟨p, hpm, hsplit.mp (Or.inr hk)⟩
      · rcases mem_put.mp e.1 with e2 | e2
        · subst e2; exact ⟨p, hpm, hsplit.mp (Or.inl hk)⟩
        · exact ⟨r, e2.1, hk⟩
    · rintro ⟨r, hr, hk⟩
      by_cases hrp : r.id = p.id
      · have : r = p := uniq_of_nodup hI.nodup r hr p hpm hrp
        subst this
        rcases hsplit.mpr hk with h1 | h1
        · exact ⟨p', mem_put.mpr (Or.inr ⟨mem_put.mpr (Or.inl rfl), hp'c⟩), h1⟩
        · exact ⟨_, mem_put.mpr (Or.inl rfl), h1⟩
      · exact ⟨r, mem_put.mpr (Or.inr ⟨mem_put.mpr (Or.inr ⟨hr, by rw [f1]; exact hrp⟩), hfresh r hr⟩), hk⟩
  · refine ⟨p', mem_put.mpr (Or.inr ⟨mem_put.mpr (Or.inl rfl), ?_⟩), by rw [f1, hpid], ?_, f5⟩
    · simp only; rw [f1]; exact hfresh p hpm
    · rw [← hp', hbump, bumpVer_ver]

/-- **Merge** (adjacent rule).  Whatever the pair, the catalog stays a partition of the same
key space; a merge that reports success removed the source and bumped the target's version. -/
theorem C24_merge (c : CatCfg) (hc : c.MergeGood ∧ c.TransGood) (rs : Catalog) (hI : CInv rs)
    (tid sid : Nat) :
    CInv (merge c rs tid sid).1 ∧ (∀ k, covers (merge c rs tid sid).1 k ↔ covers rs k) ∧
    ((merge c rs tid sid).2 = true →
      ∃ t ∈ rs, t.id = tid ∧ (∀ x ∈ (merge c rs tid sid).1, x.id ≠ sid) ∧
        ∃ t' ∈ (merge c rs tid sid).1, t'.id = tid ∧ t'.epoch.ver = t.epoch.ver + 1 ∧
          t'.epoch.conf = t.epoch.conf) := by
  obtain ⟨⟨hrule, hbump⟩, ht⟩ := hc
  unfold merge
  cases hft : find rs tid with
  | none => exact ⟨hI, fun _ => Iff.rfl, fun h => by cases h⟩
  | some t =>
    cases hfs : find rs sid with
    | none => exact ⟨hI, fun _ => Iff.rfl, fun h => by cases h⟩
    | some s =>
      obtain ⟨htm, htid⟩ := find_some hft
      obtain ⟨hsm, hsid⟩ := find_some hfs
      simp only [hrule]
      by_cases hsame : t.id = s.id
      · rw [if_pos hsame]; exact ⟨hI, fun _ => Iff.rfl, fun h => by cases h⟩
      rw [if_neg hsame]
      obtain ⟨f1, f2, f3, f4, f5, _⟩ := bumpVer_fields c.mergeBumpsVersion t
      have fv : (bumpVer c.mergeBumpsVersion t).epoch.ver = t.epoch.ver + 1 := by rw [hbump, bumpVer_ver]
      generalize bumpVer c.mergeBumpsVersion t = tb at f1 f2 f3 f4 f5 fv
      have hpt := hI.proper t htm
      have hps := hI.proper s hsm
      have hts := hI.disj t htm s hsm hsame
      by_cases hr : t.end_ ≠ [] ∧ s.start = t.end_
      · -- right neighbour
        rw [if_pos hr]
        obtain ⟨hte, hadj⟩ := hr
        have htl : Bytes.lt t.start t.end_ = true := by
          rcases hpt with h | h
          · exact absurd h hte
          · exact h
        have hspec := finishMerge_spec c ht hI (t' := { tb with end_ := s.end_ }) htm hsm hsame f1 f4
          (by
            unfold proper; simp only [f2]
            rcases hps with h | h
            · exact Or.inl h
            · right; rw [hadj] at h; exact lt_trans htl h)
          (by
            intro o ho h1 h2
            rw [overlapG_false_iff]; simp only [f2]
            have d1 := hI.disj t htm o ho (fun e => h1 e.symm)
            have d2 := hI.disj s hsm o ho (fun e => h2 e.symm)
            rw [overlapG_false_iff] at d1 d2
            rcases d2 with ⟨a, b⟩ | ⟨a, b⟩
            · exact Or.inl ⟨a, b⟩
            · rcases d1 with ⟨a', b'⟩ | ⟨a', b'⟩
              · -- o starts at/after t.end = s.start but ends at/before s.start: o would be improper
                exfalso
                have hpo := hI.proper o ho
                rcases hpo with e | e
                · exact a e
                · rw [hadj] at b
                  have := lt_of_lt_of_le e (le_trans b b')
                  simp [lt_irrefl] at this
              · exact Or.inr ⟨a', b'⟩)
          (by
            intro k
            exact contains_merge t s { tb with end_ := s.end_ } k f2 rfl hte hadj hpt hps)
        obtain ⟨h1, h2, h3, h4, h5⟩ := hspec
        refine ⟨h2, h3, fun _ => ⟨t, htm, htid, ?_, { tb with end_ := s.end_ }, h4, ?_, fv, f5⟩⟩
        · rw [← hsid]; exact h5
        · simp only; rw [f1, htid]
      · rw [if_neg hr]
        by_cases hl : s.end_ ≠ [] ∧ s.end_ = t.start
        · -- left neighbour
          rw [if_pos hl]
          obtain ⟨hse, hadj⟩ := hl
          have hsl : Bytes.lt s.start s.end_ = true := by
            rcases hps with h | h
            · exact absurd h hse
            · exact h
          have hspec := finishMerge_spec c ht hI (t' := { tb with start := s.start }) htm hsm hsame f1 f4
            (by
              unfold proper; simp only [f3]
              rcases hpt with h | h
              · exact Or.inl h
              · right; rw [← hadj] at h; exact lt_trans hsl h)
            (by
              intro o ho h1 h2
              rw [overlapG_false_iff]; simp only [f3]
              have d1 := hI.disj t htm o ho (fun e => h1 e.symm)
              have d2 := hI.disj s hsm o ho (fun e => h2 e.symm)
              rw [overlapG_false_iff] at d1 d2
              rcases d1 with ⟨a, b⟩ | ⟨a, b⟩
              · exact Or.inl ⟨a, b⟩
              · rcases d2 with ⟨a', b'⟩ | ⟨a', b'⟩
                · exfalso
                  have hpo := hI.proper o ho
                  rcases hpo with e | e
                  · exact a e
                  · rw [← hadj] at b
                    have := lt_of_lt_of_le e (le_trans b b')
                    simp [lt_irrefl] at this
                · exact Or.inr ⟨a', b'⟩)
            (by
              intro k
              have := contains_merge s t { tb with start := s.start } k rfl f3 hse hadj.symm hps hpt
              rw [this]; exact Or.comm)
          obtain ⟨h1, h2, h3, h4, h5⟩ := hspec
          refine ⟨h2, h3, fun _ => ⟨t, htm, htid, ?_, { tb with start := s.start }, h4, ?_, fv, f5⟩⟩
          · rw [← hsid]; exact h5
          · simp only; rw [f1, htid]
        · rw [if_neg hl]; exact ⟨hI, fun _ => Iff.rfl, fun h => by cases h⟩

/-- **Removal** shrinks the covered key space by exactly the removed region's range. -/
theorem C24_remove (c : CatCfg) (ht : c.TransGood) (rs : Catalog) (hI : CInv rs) (s : Meta) (hs : s ∈ rs) :
    ∃ rs', removeRegion c rs s.id = some rs' ∧ CInv rs' ∧
      ∀ k, covers rs' k ↔ (covers rs k ∧ ¬ contains s k) := by
  obtain ⟨rs2, h1, h2, h3⟩ := removeRegion_spec c ht hI hs
  refine ⟨rs2, h1, h2, ?_⟩
  intro k
  unfold covers
  constructor
  · rintro ⟨r, hr, hk⟩
    obtain ⟨hr1, hr2⟩ := (h3 r).mp hr
    refine ⟨⟨r, hr1, hk⟩, ?_⟩
    intro hsk
    have := hI.disj r hr1 s hs hr2
    have hov := (overlapG_iff r s (hI.proper r hr1) (hI.proper s hs)).mpr ⟨k, hk, hsk⟩
    rw [this] at hov; cases hov
  · rintro ⟨⟨r, hr, hk⟩, hns⟩
    refine ⟨r, (h3 r).mpr ⟨hr, ?_⟩, hk⟩
    intro e
    have : r = s := uniq_of_nodup hI.nodup r hr s hs e
    subst this; exact hns hk

/-- **State only moves forward** (new < running < removing < tombstone). -/
theorem C24_state (c : CatCfg) (ht : c.TransGood) (cur next : Nat) (h : validTrans c cur next = true) :
    cur ≤ next := by
  rw [validTrans_iff c ht] at h
  omega

/-- A state update is refused unless it moves forward; an accepted one installs that state. -/
theorem C24_setState_forward (c : CatCfg) (ht : c.TransGood) (rs rs' : Catalog) (hI : CInv rs)
    (id st : Nat) (h : setState c rs id st = some rs') :
    ∃ m ∈ rs, m.id = id ∧ m.state ≤ (if st = 0 then 1 else st) := by
  unfold setState at h
  by_cases h0 : id = 0
  · rw [if_pos h0] at h; cases h
  rw [if_neg h0] at h
  cases hf : find rs id with
  | none => rw [hf] at h; cases h
  | some m =>
    rw [hf] at h
    simp only at h
    obtain ⟨hm, hid⟩ := find_some hf
    refine ⟨m, hm, hid, ?_⟩
    unfold update at h
    simp only at h
    rw [if_neg (by rw [hid]; exact h0)] at h
    have hcur : curState rs m.id = m.state := curState_of_mem hI.nodup hm
    simp only [hcur] at h
    by_cases hv : validTrans c m.state (normState { m with state := st }).state = true
    · have := C24_state c ht _ _ hv
      unfold normState at this
      simp only at this
      by_cases hst : st = 0
      · simp only [hst, if_true] at this ⊢; exact this
      · simp only [hst, if_false] at this ⊢; exact this
    · rw [if_neg hv] at h; cases h

/-- A state change never touches ranges: partition and coverage are unchanged. -/
theorem C24_setState (c : CatCfg) (ht : c.TransGood) (rs rs' : Catalog) (hI : CInv rs) (id st : Nat)
    (h : setState c rs id st = some rs') :
    CInv rs' ∧ (∀ k, covers rs' k ↔ covers rs k) := by
  unfold setState at h
  by_cases h0 : id = 0
  · rw [if_pos h0] at h; cases h
  rw [if_neg h0] at h
  cases hf : find rs id with
  | none => rw [hf] at h; cases h
  | some m =>
    rw [hf] at h
    simp only at h
    obtain ⟨hm, hid⟩ := find_some hf
    unfold update at h
    simp only at h
    rw [if_neg (by rw [hid]; exact h0)] at h
    by_cases hv : validTrans c (curState rs m.id) (normState { m with state := st }).state = true
    · rw [if_pos hv] at h
      simp only [Option.some.injEq] at h
      subst h
      have hfields : (normState { m with state := st }).id = m.id ∧
          (normState { m with state := st }).start = m.start ∧
          (normState { m with state := st }).end_ = m.end_ ∧
          (1 ≤ (normState { m with state := st }).state) := by
        unfold normState
        by_cases hs : ({ m with state := st } : Meta).state = 0
        · rw [if_pos hs]; simp
        · rw [if_neg hs]; simp only at hs; exact ⟨rfl, rfl, rfl, by simp only; omega⟩
      obtain ⟨g1, g2, g3, g4⟩ := hfields
      generalize normState { m with state := st } = m' at g1 g2 g3 g4 hv
      refine ⟨?_, ?_⟩
      · refine ⟨?_, ?_, ?_, ?_, ?_⟩
        · unfold put
          apply List.Pairwise.cons
          · intro y hy
            rw [List.mem_filter] at hy
            exact fun e => (by simpa using hy.2 : y.id ≠ m'.id) e.symm
          · exact List.Pairwise.filter _ hI.nodup
        · intro a ha
          rcases mem_put.mp ha with e | e
          · subst e; exact proper_congr g2 g3 (hI.proper m hm)
          · exact hI.proper a e.1
        · intro a ha b hb hab
          rcases mem_put.mp ha with e1 | e1 <;> rcases mem_put.mp hb with e2 | e2
          · subst e1; subst e2; exact absurd rfl hab
          · subst e1
            rw [overlapG_congr_left b g2 g3]
            exact hI.disj m hm b e2.1 (by rw [← g1]; exact fun e => e2.2 e.symm)
          · subst e2
            rw [overlapG_comm, overlapG_congr_left a g2 g3]
            exact hI.disj m hm a e1.1 (by rw [← g1]; exact fun e => e1.2 e.symm)
          · exact hI.disj a e1.1 b e2.1 hab
        · intro a ha
          rcases mem_put.mp ha with e | e
          · subst e
            refine ⟨g4, ?_⟩
            have hcur : curState rs m.id = m.state := curState_of_mem hI.nodup hm
            rw [hcur, validTrans_iff c ht] at hv
            have hms := hI.states m hm
            omega
          · exact hI.states a e.1
        · intro a ha
          rcases mem_put.mp ha with e | e
          · subst e; rw [g1]; exact hI.nonzero m hm
          · exact hI.nonzero a e.1
      · intro k
        rw [covers_put]
        unfold covers
        constructor
        · rintro (hk | ⟨r, hr, _, hk⟩)
          · exact ⟨m, hm, (contains_congr k g2 g3).mp hk⟩
          · exact ⟨r, hr, hk⟩
        · rintro ⟨r, hr, hk⟩
          by_cases hrm : r.id = m.id
          · have : r = m := uniq_of_nodup hI.nodup r hr m hm hrm
            subst this
            exact Or.inl ((contains_congr k g2 g3).mpr hk)
          · exact Or.inr ⟨r, hr, by rw [g1]; exact hrm, hk⟩
    · rw [if_neg hv] at h; cases h

/-- what `SplitRegion` trusts its caller on, for one operation against the current catalog -/
def WFOp (rs : Catalog) : COp → Prop
  | .split p ch => ∀ pm, find rs p = some pm → (ch.end_ = pm.end_ ∧ ∀ m ∈ rs, m.id ≠ ch.id)
  | _ => True

def WFSeq (c : CatCfg) : Catalog → List COp → Prop
  | _, [] => True
  | rs, op :: ops => WFOp rs op ∧ WFSeq c (capply c rs op) ops

def NoRemove : COp → Prop
  | .remove _ => False
  | _ => True

theorem split_some_find (c : CatCfg) (rs rs' : Catalog) (p : Nat) (ch : Meta)
    (h : split c rs p ch = some rs') : ∃ pm, find rs p = some pm := by
  unfold split at h
  by_cases hz : p = 0 ∨ ch.id = 0 ∨ ch.start = []
  · rw [if_pos hz] at h; cases h
  rw [if_neg hz] at h
  cases hf : find rs p with
  | none => rw [hf] at h; cases h
  | some pm => exact ⟨pm, rfl⟩

theorem capply_split (c : CatCfg) (rs : Catalog) (p : Nat) (ch : Meta) :
    capply c rs (.split p ch) = (split c rs p ch).getD rs := by
  show (ofOpt rs (split c rs p ch)).1 = _
  cases split c rs p ch <;> rfl

theorem capply_remove (c : CatCfg) (rs : Catalog) (id : Nat) :
    capply c rs (.remove id) = (removeRegion c rs id).getD rs := by
  show (ofOpt rs (removeRegion c rs id)).1 = _
  cases removeRegion c rs id <;> rfl

theorem capply_setState (c : CatCfg) (rs : Catalog) (id st : Nat) :
    capply c rs (.setState id st) = (setState c rs id st).getD rs := by
  show (ofOpt rs (setState c rs id st)).1 = _
  cases setState c rs id st <;> rfl

theorem capply_merge (c : CatCfg) (rs : Catalog) (t s : Nat) :
    capply c rs (.merge t s) = (merge c rs t s).1 := rfl

theorem capply_spec (c : CatCfg) (hc : c.Good) (rs : Catalog) (hI : CInv rs) (op : COp) (hw : WFOp rs op) :
    CInv (capply c rs op) ∧ (NoRemove op → ∀ k, covers (capply c rs op) k ↔ covers rs k) := by
  obtain ⟨hs, hm, ht⟩ := hc
  cases op with
  | split p ch =>
    rw [capply_split]
    cases hsp : split c rs p ch with
    | none => exact ⟨hI, fun _ _ => Iff.rfl⟩
    | some rs' =>
      simp only [Option.getD_some]
      obtain ⟨pm, hpm⟩ := split_some_find c rs rs' p ch hsp
      obtain ⟨hend, hfresh⟩ := hw pm hpm
      obtain ⟨a, b, _⟩ := C24_split c ⟨hs, ht⟩ rs rs' hI p ch pm hsp hpm hfresh hend
      exact ⟨a, fun _ => b⟩
  | merge t s =>
    rw [capply_merge]
    obtain ⟨a, b, _⟩ := C24_merge c ⟨hm, ht⟩ rs hI t s
    exact ⟨a, fun _ => b⟩
  | remove id =>
    rw [capply_remove]
    refine ⟨?_, fun h => absurd h (by simp [NoRemove])⟩
    cases hr : removeRegion c rs id with
    | none => exact hI
    | some rs' =>
      -- the region exists (otherwise removeRegion fails)
      have : ∃ s ∈ rs, s.id = id := by
        unfold removeRegion at hr
        by_cases h0 : id = 0
        · rw [if_pos h0] at hr; cases hr
        rw [if_neg h0] at hr
        cases hf : find rs id with
        | none => rw [hf] at hr; cases hr
        | some s => exact ⟨s, (find_some hf).1, (find_some hf).2⟩
      obtain ⟨s, hsm, hsid⟩ := this
      obtain ⟨rs2, h1, h2, _⟩ := removeRegion_spec c ht hI hsm
      rw [hsid, hr] at h1
      cases h1
      simpa using h2
  | setState id st =>
    rw [capply_setState]
    cases hst : setState c rs id st with
    | none => exact ⟨hI, fun _ _ => Iff.rfl⟩
    | some rs' =>
      simp only [Option.getD_some]
      obtain ⟨a, b⟩ := C24_setState c ht rs rs' hI id st hst
      exact ⟨a, fun _ => b⟩

/-- **Partition under every history.**  From any partition, after any sequence of splits,
merges, removals and state changes (splits well-formed as described above), the live regions
are pairwise disjoint with unique ids and proper ranges; and as long as no stand-alone removal
occurs they cover exactly the key space they covered at the start. -/
theorem C24_partition (c : CatCfg) (hc : c.Good) (ops : List COp) (rs : Catalog) (hI : CInv rs)
    (hwf : WFSeq c rs ops) :
    CInv (ops.foldl (capply c) rs) ∧
    ((∀ op ∈ ops, NoRemove op) → ∀ k, covers (ops.foldl (capply c) rs) k ↔ covers rs k) := by
  induction ops generalizing rs with
  | nil => exact ⟨hI, fun _ _ => Iff.rfl⟩
  | cons op ops ih =>
    obtain ⟨hw, hrest⟩ := hwf
    obtain ⟨h1, h2⟩ := capply_spec c hc rs hI op hw
    obtain ⟨h3, h4⟩ := ih (capply c rs op) h1 hrest
    refine ⟨h3, ?_⟩
    intro hnr k
    rw [List.foldl_cons, h4 (fun o ho => hnr o (List.mem_cons_of_mem _ ho)) k]
    exact h2 (hnr op List.mem_cons_self) k

/-- the invariant is what the statement says: no key lies in two live regions -/
theorem C24_disjoint_semantic (rs : Catalog) (hI : CInv rs) (a b : Meta) (ha : a ∈ rs) (hb : b ∈ rs)
    (hne : a ≠ b) : ¬ ∃ k, contains a k ∧ contains b k := by
  intro hex
  have hid : a.id ≠ b.id := fun e => hne (uniq_of_nodup hI.nodup a ha b hb e)
  have := (overlapG_iff a b (hI.proper a ha) (hI.proper b hb)).mpr hex
  rw [hI.disj a ha b hb hid] at this; cases this

/-! ### "the catalog reloads identically after a restart"

`Region/Persist.lean`: the store keeps the catalog in memory and as region edits in the
manifest; every mutation is one of the primitive persisted writes `POp.upd` / `POp.del`, whose
manifest append may fail (`ok = false`); the manifest may be rewritten as a snapshot at any
time; a restart loads the replayed manifest.  `Eqv a b` = the same region under every id. -/

theorem pstep_inv (pc : PCfg) (hc : pc.Good) (s : PS) (h : Eqv (replay s.log) s.mem) (op : POp) :
    Eqv (replay (pstep pc s op).log) (pstep pc s op).mem := by
  obtain ⟨h1, h2⟩ := hc
  cases op with
  | upd m ok =>
    cases ok
    · simpa [pstep, h1] using h
    · simp only [pstep, h1, if_true]
      rw [replay_append]; exact eqv_put h m
  | del i ok =>
    cases ok
    · simpa [pstep, h1] using h
    · simp only [pstep, h1, if_true]
      rw [replay_append]; exact eqv_del h i
  | rewrite =>
    intro id
    simp only [pstep, snapshot, h2, if_true]
    rw [replay_snapshot_all]; exact h id
  | reopen => exact eqv_refl _

theorem prun_inv (pc : PCfg) (hc : pc.Good) (ops : List POp) (s : PS) (h : Eqv (replay s.log) s.mem) :
    Eqv (replay (ops.foldl (pstep pc) s).log) (ops.foldl (pstep pc) s).mem := by
  induction ops generalizing s with
  | nil => exact h
  | cons op ops ih => exact ih _ (pstep_inv pc hc s h op)

/-- **Reload.**  After any history of persisted catalog writes — successful or failing manifest
appends, manifest rewrites and restarts, in any order and number — what a restart would load
(the replay of the manifest) is the in-memory catalog, id by id. -/
theorem C24_reload (pc : PCfg) (hc : pc.Good) (ops : List POp) :
    Eqv (replay (prun pc ops).log) (prun pc ops).mem :=
  prun_inv pc hc ops PS.init (eqv_refl _)

/-- a restart at any point leaves the catalog as it was -/
theorem C24_restart_identity (pc : PCfg) (hc : pc.Good) (ops : List POp) :
    Eqv (pstep pc (prun pc ops) .reopen).mem (prun pc ops).mem :=
  C24_reload pc hc ops

/-- a catalog write whose manifest append fails changes nothing, in memory or on disk -/
theorem C24_failed_append (pc : PCfg) (hc : pc.Good) (s : PS) (m : Meta) (i : Nat) :
    pstep pc s (.upd m false) = s ∧ pstep pc s (.del i false) = s := by
  obtain ⟨h1, _⟩ := hc
  simp [pstep, h1]

/-- `rs'` is `rs` after some region edits -/
def Reach (rs rs' : Catalog) : Prop := ∃ es : List REdit, rs' = es.foldl replayEdit rs

theorem Reach.refl (rs : Catalog) : Reach rs rs := ⟨[], rfl⟩

theorem Reach.trans {a b c : Catalog} (h1 : Reach a b) (h2 : Reach b c) : Reach a c := by
  obtain ⟨e1, rfl⟩ := h1
  obtain ⟨e2, rfl⟩ := h2
  exact ⟨e1 ++ e2, by rw [List.foldl_append]⟩

theorem Reach.put (rs : Catalog) (m : Meta) : Reach rs (put rs m) := ⟨[.upd m], rfl⟩

theorem Reach.del (rs : Catalog) (i : Nat) : Reach rs (del rs i) := ⟨[.delete i], rfl⟩

theorem update_reach (c : CatCfg) (rs rs' : Catalog) (m : Meta) (h : update c rs m = some rs') : Reach rs rs' := by
  unfold update at h
  split at h
  · cases h
  · split at h
    · cases h; exact Reach.put rs _
    · cases h

theorem removeRegion_reach (c : CatCfg) (rs rs' : Catalog) (i : Nat) (h : removeRegion c rs i = some rs') :
    Reach rs rs' := by
  unfold removeRegion at h
  split at h
  · cases h
  · split at h
    · cases h
    · rename_i m _
      by_cases hs : m.state ≠ 3
      · rw [if_pos hs] at h
        cases hu : update c rs { m with state := 3 } with
        | none => rw [hu] at h; simp at h
        | some r1 =>
          rw [hu] at h
          simp only [Option.map_some, Option.some.injEq] at h
          subst h
          exact (update_reach c rs r1 _ hu).trans (Reach.del r1 i)
      · rw [if_neg hs] at h
        simp only [Option.map_some, Option.some.injEq] at h
        subst h; exact Reach.del rs i

theorem split_reach (c : CatCfg) (rs rs' : Catalog) (p : Nat) (ch : Meta) (h : split c rs p ch = some rs') :
    Reach rs rs' := by
  unfold split at h
  split at h
  · cases h
  · split at h
    · cases h
    · rename_i pm _
      split at h
      · cases h
      · split at h
        · cases h
        · simp only at h
          cases hu1 : update c rs (bumpVer c.splitBumpsVersion { pm with end_ := ch.start }) with
          | none => rw [hu1] at h; simp at h
          | some rs1 =>
            rw [hu1] at h
            simp only at h
            cases hu2 : update c rs1 { ch with state := 1 } with
            | none => rw [hu2] at h; simp at h
            | some rs2 =>
              rw [hu2] at h
              simp only [Option.some.injEq] at h
              subst h
              exact (update_reach c rs rs1 _ hu1).trans (update_reach c rs1 rs2 _ hu2)

theorem finishMerge_reach (c : CatCfg) (rs : Catalog) (t' : Meta) (sid : Nat) :
    Reach rs (finishMerge c rs t' sid).1 := by
  unfold finishMerge
  split
  · exact Reach.refl rs
  · rename_i rs1 hu
    split
    · exact update_reach c rs rs1 _ hu
    · rename_i rs2 hr
      exact (update_reach c rs rs1 _ hu).trans (removeRegion_reach c rs1 rs2 sid hr)

theorem merge_reach (c : CatCfg) (rs : Catalog) (t s : Nat) : Reach rs (merge c rs t s).1 := by
  unfold merge
  split
  · split
    · exact finishMerge_reach c rs _ _
    · split
      · exact Reach.refl rs
      · split
        · exact finishMerge_reach c rs _ _
        · split
          · exact finishMerge_reach c rs _ _
          · exact Reach.refl rs
  · exact Reach.refl rs

/-- every admin operation of the catalog model (`cstep`: split, merge, removal, state change,
including the ones that fail half-way) changes the catalog only through region edits — the
primitive writes `C24_reload` quantifies over -/
theorem C24_ops_are_edits (c : CatCfg) (rs : Catalog) (op : COp) : Reach rs (capply c rs op) := by
  cases op with
  | split p ch =>
    show Reach rs (ofOpt rs (Region.split c rs p ch)).1
    cases h : Region.split c rs p ch with
    | none => exact Reach.refl rs
    | some r => exact split_reach c rs r p ch h
  | merge t s => exact merge_reach c rs t s
  | remove i =>
    show Reach rs (ofOpt rs (removeRegion c rs i)).1
    cases h : removeRegion c rs i with
    | none => exact Reach.refl rs
    | some r => exact removeRegion_reach c rs r i h
  | setState i st =>
    show Reach rs (ofOpt rs (setState c rs i st)).1
    cases h : setState c rs i st with
    | none => exact Reach.refl rs
    | some r =>
      unfold setState at h
      split at h
      · cases h
      · split at h
        · cases h
        · exact update_reach c rs r _ h

/-- hence: for any history of admin operations starting from a catalog the manifest agrees
with, some sequence of logged edits makes the manifest replay to the resulting catalog -/
theorem C24_history_reloads (c : CatCfg) (ops : List COp) (rs : Catalog) (log : List REdit)
    (h : Eqv (replay log) rs) :
    ∃ es : List REdit, Eqv (replay (log ++ es)) (ops.foldl (capply c) rs) := by
  induction ops generalizing rs log with
  | nil => exact ⟨[], by simpa using h⟩
  | cons op ops ih =>
    obtain ⟨e1, he1⟩ := C24_ops_are_edits c rs op
    have h1 : Eqv (replay (log ++ e1)) (capply c rs op) := by
      rw [replay_append_list, he1]; exact eqv_foldl h e1
    obtain ⟨e2, he2⟩ := ih (capply c rs op) (log ++ e1) h1
    exact ⟨e1 ++ e2, by rw [← List.append_assoc]; exact he2⟩

def wTomb : Meta := { id := 1, start := [0x61], end_ := [0x6d], epoch := ⟨1, 1⟩, state := 3 }

/-- (seeded change C24-m1r2) memory written before the manifest append: a failed append leaves a
region in memory that a restart does not bring back -/
theorem C24_fails_persist_after (pc : PCfg) (hc : pc.persistFirst = false) :
    find (prun pc [.upd wTomb false]).mem 1 = some wTomb ∧
    find (replay (prun pc [.upd wTomb false]).log) 1 = none := by
  cases pc with
  | mk a b => simp only at hc; subst hc; cases b <;> decide

/-- (seeded change C24-m2r2) a snapshot that leaves tombstoned regions out: after a rewrite and
a restart the region is gone -/
theorem C24_fails_snapshot_filter (pc : PCfg) (hc : pc.persistFirst = true ∧ pc.snapshotAll = false) :
    find (prun pc [.upd wTomb true, .rewrite]).mem 1 = some wTomb ∧
    find (replay (prun pc [.upd wTomb true, .rewrite]).log) 1 = none := by
  cases pc with
  | mk a b => obtain ⟨h1, h2⟩ := hc; simp only at h1 h2; subst h1; subst h2; decide

/-- non-vacuity: a history with a failed append, a rewrite and a restart; the region survives -/
example : find (prun PCfg.good [.upd wTomb true, .upd { wTomb with id := 2 } false, .rewrite, .reopen]).mem 1 = some wTomb ∧
    find (prun PCfg.good [.upd wTomb true, .upd { wTomb with id := 2 } false, .rewrite, .reopen]).mem 2 = none := by decide

/-! ### as-is: `handleMergeCommand` only ever extends the end key (finding `merge-extend-end-only`) -/

def wAsis : CatCfg := { CatCfg.good with mergeRule := .extendEndOnly }

def wLeft : Catalog :=
  [ { id := 1, start := [0x61], end_ := [0x6d], epoch := ⟨1, 1⟩ },     -- [a, m)
    { id := 2, start := [0x6d], end_ := [0x7a], epoch := ⟨1, 1⟩ } ]    -- [m, z)

/-- Merging the left neighbour [a,m) into [m,z) reports success and loses [a,m): key "b" was
covered before and is not afterwards. -/
theorem C24_fails_asis_left (c : CatCfg) (hc : c = wAsis) :
    (merge c wLeft 2 1).2 = true ∧ covers wLeft [0x62] ∧ ¬ covers (merge c wLeft 2 1).1 [0x62] := by
  subst hc; decide

def wUnbounded : Catalog :=
  [ { id := 1, start := [0x61], end_ := [0x6d], epoch := ⟨1, 1⟩ },     -- [a, m)
    { id := 2, start := [0x6d], end_ := [], epoch := ⟨1, 1⟩ } ]        -- [m, +inf)

/-- Merging [a,m) into the unbounded [m,+inf) shrinks the target to the empty range [m,m). -/
theorem C24_fails_asis_unbounded (c : CatCfg) (hc : c = wAsis) :
    (merge c wUnbounded 2 1).2 = true ∧ covers wUnbounded [0x78] ∧
    ¬ covers (merge c wUnbounded 2 1).1 [0x78] := by
  subst hc; decide

/-- What the as-is rule does get right: merging the *right* neighbour of a bounded target. -/
theorem C24_partial_right (c : CatCfg) (hc : c = wAsis) :
    (merge c wLeft 1 2).2 = true ∧ ∀ k ∈ [[0x61], [0x6c], [0x6d], [0x79], [0x7a], []],
      (covers (merge c wLeft 1 2).1 k ↔ covers wLeft k) := by
  subst hc; decide

/-! ### non-vacuity -/

example : CatCfg.good.Good := by decide

example : (split CatCfg.good wLeft 1 { id := 3, start := [0x63], end_ := [0x6d], epoch := ⟨1, 1⟩ }).isSome = true ∧
    (merge CatCfg.good wLeft 2 1).2 = true ∧ (merge CatCfg.good wLeft 1 2).2 = true := by decide

end NoKV.Props.C24

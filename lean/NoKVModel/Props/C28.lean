/-
C28  Client two-phase commit is atomic across regions.

"A multi-region mutation submitted through the client either becomes fully visible at its commit
version or, if it fails before its primary key commits, never becomes visible once its locks are
resolved.  This holds across region leader changes and client retries."

Model: `NoKVModel/Client/Perc.lean` (region stores: the Percolator handlers of percolator/txn.go)
and `NoKVModel/Client/TwoPC.lean` (the client of raftstore/client/client.go as a step machine;
environment steps = network delivers / drops / loses the reply of / answers NotLeader to / re-
delivers an RPC, the client is restarted with the same versions, any resolver runs
CheckTxnStatus on the primary with any current ts and ResolveLock with what it learned, and ANY
OTHER transaction of any other client sends any write-path request — Prewrite, Commit,
BatchRollback, ResolveLock, CheckTxnStatus — on any key at any point: `Op.other`).

Several clients: the theorems are stated for an arbitrary transaction T against an environment
that is *every* possible behaviour of all other clients (their requests are not even required to
follow the protocol; a multi-key request is the sequence of its per-key parts).  The one thing
asked of the environment is what a timestamp oracle guarantees: another transaction's start and
commit timestamps are not T's (`Op.Distinct`).  Hence the statements hold for every transaction
of every client of a system in which each client runs the protocol of `TwoPC.lean`.

The theorems quantify over every transaction (any number of keys and regions, any primary, any
order of the regions), every initial store without traces of the transaction, and every finite
sequence of such steps — i.e. every reachable state; no bound.

Only property theorems, non-vacuity examples, `…_partial` and `…_fails_asis…` live here; helper
lemmas are in `NoKVModel/Client/{Key,Store,Handler,Sys}Lemmas.lean`.
-/
import NoKVModel.Client.SysLemmas
import NoKVModel.Client.PartialLemmas

namespace NoKV.Props.C28
open NoKV NoKV.Client

/-- the primary key carries the transaction's commit record -/
def PrimaryCommitted (t : Txn) (s : Store) : Prop := HasC t.start (s t.primary)

/-- the primary key carries the transaction's rollback record -/
def PrimaryRolledBack (t : Txn) (s : Store) : Prop := HasR t.start (s t.primary)

/-- no read of key `k`, at any version, is served from a commit record of the transaction -/
def Invisible (c : PercCfg) (t : Txn) (s : Store) (k : Nat) : Prop :=
  ∀ v w, readVisible c (s k).writes v = some w → w.startTs = t.start → w.kind = .rollback

/-- **Atomicity (headline).**  Under the good configuration (the primary key is committed alone
and first, a failed commit stops the client, `Commit` refuses a rolled-back transaction), in
*every* reachable state:

* if the primary key carries the commit record, then every key of the transaction whose read at
  the commit version is not blocked by a lock returns exactly the transaction's write (the put
  value, or not-found for a delete) — "fully visible at its commit version once its locks are
  resolved";
* if the primary key does not carry the commit record — the client failed, was dropped, lost a
  reply, exhausted its NotLeader retries or simply has not got there — no read of any key of the
  transaction at any version is served from a commit record of the transaction. -/
theorem C28_atomic (c : ClientCfg) (hc : c.Good) (t : Txn) (wf : TxnWF t) (s0 : Store) (fr : Fresh t s0)
    (ops : List Op) (hd : ∀ op ∈ ops, op.Distinct t) :
    (PrimaryCommitted t (run c t (Sys.init c t s0) ops).store →
      ∀ m ∈ t.muts, lockBlocks ((run c t (Sys.init c t s0) ops).store m.key) t.cv = false →
        get c.perc ((run c t (Sys.init c t s0) ops).store m.key) t.cv = expected m) ∧
    (¬ PrimaryCommitted t (run c t (Sys.init c t s0) ops).store →
      ∀ m ∈ t.muts, Invisible c.perc t (run c t (Sys.init c t s0) ops).store m.key) := by
  have inv := (SInv.run_inv hc wf ops hd (SInv.init (c := c) hc wf fr)).1
  generalize (run c t (Sys.init c t s0) ops) = y at inv ⊢
  constructor
  · intro hP m hm hnb
    have hk := inv.g.k m hm
    have hC : HasC t.start (y.store m.key) := by
      rcases inv.g.d hP m hm with ⟨l, hl, hts⟩ | hC
      · exfalso
        simp only [lockBlocks, hl, decide_eq_false_iff_not] at hnb
        exact hnb (by rw [hts]; exact Nat.le_of_lt wf.lt)
      · exact hC
    exact get_of_committed c.perc (wf.ok hm) hk hC hnb
  · intro hP m hm v w hr hs
    by_cases hk : w.kind = .rollback
    · exact hk
    · exfalso
      have hC : HasC t.start (y.store m.key) := ⟨w, mem_readable (readRec_some hr).1, hs, hk⟩
      by_cases hp : m.key = t.primary
      · exact hP (by unfold PrimaryCommitted; rw [← hp]; exact hC)
      · exact hP (inv.g.c m hm hp hC)

/-- **Finality.**  Once the primary key carries the rollback record (a resolver found the lock
expired or missing), no later step — client retry with the same versions, duplicate delivery of
any earlier RPC, further resolver activity — makes any key of the transaction visible. -/
theorem C28_final (c : ClientCfg) (hc : c.Good) (t : Txn) (wf : TxnWF t) (s0 : Store) (fr : Fresh t s0)
    (ops later : List Op) (hd : ∀ op ∈ ops ++ later, op.Distinct t)
    (hrb : PrimaryRolledBack t (run c t (Sys.init c t s0) ops).store) :
    ∀ m ∈ t.muts, Invisible c.perc t (run c t (Sys.init c t s0) (ops ++ later)).store m.key := by
  have hd1 : ∀ op ∈ ops, op.Distinct t := fun o ho => hd o (List.mem_append_left _ ho)
  have hd2 : ∀ op ∈ later, op.Distinct t := fun o ho => hd o (List.mem_append_right _ ho)
  have inv1 := (SInv.run_inv hc wf ops hd1 (SInv.init (c := c) hc wf fr)).1
  have h2 := SInv.run_inv hc wf later hd2 inv1
  have hrun : run c t (Sys.init c t s0) (ops ++ later) = run c t (run c t (Sys.init c t s0) ops) later := by
    simp [run, List.foldl_append]
  have hR : HasR t.start ((run c t (Sys.init c t s0) (ops ++ later)).store t.primary) := by
    rw [hrun]; exact (h2.2 t.primary wf.primIsKey).r hrb
  have hnc : ¬ PrimaryCommitted t (run c t (Sys.init c t s0) (ops ++ later)).store := by
    intro hC
    have inv := (SInv.run_inv hc wf (ops ++ later) hd (SInv.init (c := c) hc wf fr)).1
    exact inv.g.not_C_R_prim wf ⟨hC, hR⟩
  exact (C28_atomic c hc t wf s0 fr (ops ++ later) hd).2 hnc

/-- **Readers at any timestamp (headline).**  In every reachable state and for every read
version `v`:

* `v` below the commit version: no key of the transaction is ever served from its commit record;
* `v` at or above the commit version and the primary committed: on EVERY key of the transaction
  a reader that is not blocked by a lock at `v` is served the transaction's commit record or a
  record committed later by someone else — never an older one, so no reader sees the
  transaction's write on one key and misses it on another once the locks in its way are resolved;
* the primary not committed: `C28_atomic` — no key is served from a commit record of the
  transaction at any version.

Together with `C28_atomic`: the transaction's writes are visible on all of its keys or on none,
and which of the two is decided by the primary key alone. -/
theorem C28_readers_any_ts (c : ClientCfg) (hc : c.Good) (t : Txn) (wf : TxnWF t) (s0 : Store) (fr : Fresh t s0)
    (ops : List Op) (hd : ∀ op ∈ ops, op.Distinct t) :
    (∀ m ∈ t.muts, ∀ v, v < t.cv → ∀ w,
        readVisible c.perc ((run c t (Sys.init c t s0) ops).store m.key).writes v = some w →
        w.startTs = t.start → w.kind = .rollback) ∧
    (PrimaryCommitted t (run c t (Sys.init c t s0) ops).store →
      ∀ m ∈ t.muts, ∀ v, t.cv ≤ v → lockBlocks ((run c t (Sys.init c t s0) ops).store m.key) v = false →
        ∃ w, readVisible c.perc ((run c t (Sys.init c t s0) ops).store m.key).writes v = some w ∧
          (w = ⟨t.cv, t.start, m.kind⟩ ∨ t.cv < w.commitTs)) := by
  have inv := (SInv.run_inv hc wf ops hd (SInv.init (c := c) hc wf fr)).1
  generalize (run c t (Sys.init c t s0) ops) = y at inv ⊢
  constructor
  · intro m hm v hv w hr hs
    exact read_lt_invisible c.perc (inv.g.k m hm) hv hr hs
  · intro hP m hm v hv hnb
    have hC : HasC t.start (y.store m.key) := by
      rcases inv.g.d hP m hm with ⟨l, hl, hts⟩ | hC
      · exfalso
        simp only [lockBlocks, hl, decide_eq_false_iff_not] at hnb
        exact hnb (by rw [hts]; exact Nat.le_trans (Nat.le_of_lt wf.lt) hv)
      · exact hC
    exact read_ge_of_committed c.perc (wf.ok hm) (inv.g.k m hm) hC hv

/-! ### the as-is client: witnesses (also replayed on the real client: corpus/C28/finding-*.ops) -/

/-- keys 0 (secondary, listed first) and 1 (primary) in region 1, key 2 in region 2 -/
def wGrouped : Txn :=
  { primary := 1, start := 10, cv := 12, ttl := 20,
    muts := [⟨0, .put, 100⟩, ⟨1, .put, 101⟩, ⟨2, .put, 102⟩],
    region := fun k => if k = 2 then 2 else 1, preOrder := [2], comOrder := [2] }

/-- both prewrites; a reader's CheckTxnStatus at ts 15 pushes the primary's min-commit-ts past the
commit version 12; the region-grouped commit RPC commits key 0 and then fails on the primary; the
lock expires, the transaction is rolled back and its locks are resolved -/
def wGroupedOps : List Op :=
  [.deliver, .deliver, .check 15, .deliver, .check 1000, .resolve [0, 1], .resolve [2]]

/-- With the region-grouped first commit RPC (pinned tree) atomicity fails: the primary is rolled
back, every lock is resolved, and key 0 is visible at the commit version while keys 1 and 2 are
not. -/
theorem C28_fails_asis_grouped (c : ClientCfg) (hc : c.commitOrder = .regionGrouped) :
    PrimaryRolledBack wGrouped (run c wGrouped (Sys.init c wGrouped Store.empty) wGroupedOps).store ∧
    get c.perc ((run c wGrouped (Sys.init c wGrouped Store.empty) wGroupedOps).store 0) 12 = .val 100 ∧
    get c.perc ((run c wGrouped (Sys.init c wGrouped Store.empty) wGroupedOps).store 1) 12 = .notFound ∧
    get c.perc ((run c wGrouped (Sys.init c wGrouped Store.empty) wGroupedOps).store 2) 12 = .notFound := by
  obtain ⟨o, b1, ⟨b2, b3, b4⟩⟩ := c
  simp only at hc
  subst hc
  refine ⟨⟨⟨10, 10, .rollback⟩, ?_, rfl, rfl⟩, ?_⟩
  · cases b1 <;> cases b2 <;> cases b3 <;> cases b4 <;> decide
  · cases b1 <;> cases b2 <;> cases b3 <;> cases b4 <;> decide

/-- primary key 0 in region 1, key 1 in region 2 -/
def wCAR : Txn :=
  { primary := 0, start := 10, cv := 12, ttl := 5,
    muts := [⟨0, .put, 100⟩, ⟨1, .put, 101⟩],
    region := fun k => if k = 1 then 2 else 1, preOrder := [2], comOrder := [2] }

/-- both prewrites; the primary lock expires and a resolver rolls it back (key 1 not resolved
yet); the slow client commits: `Commit` answers OK on the rolled-back primary, the client goes on
and commits key 1 -/
def wCAROps : List Op :=
  [.deliver, .deliver, .check 15, .deliver, .deliver, .check 1000, .resolve [0], .resolve [1]]

/-- With `Commit` accepting any record with the start ts as "already committed" (pinned tree: the
C18 defect), the client is told its primary committed after it was rolled back, and commits the
secondary: key 1 is visible at the commit version, the primary never is. -/
theorem C28_fails_asis_commit_after_rollback (c : ClientCfg) (hc : c.perc.commitNoLockRejectsRollback = false) :
    PrimaryRolledBack wCAR (run c wCAR (Sys.init c wCAR Store.empty) wCAROps).store ∧
    get c.perc ((run c wCAR (Sys.init c wCAR Store.empty) wCAROps).store 0) 12 = .notFound ∧
    get c.perc ((run c wCAR (Sys.init c wCAR Store.empty) wCAROps).store 1) 12 = .val 101 := by
  obtain ⟨o, b1, ⟨b2, b3, b4⟩⟩ := c
  simp only at hc
  subst hc
  refine ⟨⟨⟨10, 10, .rollback⟩, ?_, rfl, rfl⟩, ?_⟩
  · cases o <;> cases b1 <;> cases b3 <;> cases b4 <;> decide
  · cases o <;> cases b1 <;> cases b3 <;> cases b4 <;> decide

/-! ### what holds for every configuration -/

/- FULL-STRENGTH STATEMENT the property demands (proved above for `ClientCfg.Good`, which is what
the extractor reads off the repaired tree, as `C28_atomic` + `C28_readers_any_ts` + `C28_final`):

  for EVERY transaction T over any key set spread over any regions, with any primary;
  for any interleaving with the requests of other clients' transactions (`Op.other`: any
    Prewrite / Commit / BatchRollback / ResolveLock / CheckTxnStatus on any key at any point);
  for any failure / retry / region-error point in prewrite, primary commit, secondary commits and
    resolve (drop, lost reply, NotLeader, duplicate delivery, client restart with the same
    versions, resolvers acting on the primary's status at any moment):
  T's writes become visible on ALL of its keys or on NONE, the primary key alone decides which;
  a reader at any timestamp, once no lock is in its way, never observes a strict subset; and an
  aborted transaction never becomes visible later.

WHAT THE LEMMA BELOW LACKS with respect to it: it holds for every configuration (also for the
region-grouped / commit-after-rollback shapes of the pinned tree, where the full statement is
false: `C28_fails_asis_*`), and therefore only speaks about each key in isolation — at most one
record of T per key, commit record at exactly the commit version with the mutation's kind, never
both commit and rollback, a committed key reads as T's write.  It says nothing about the
agreement BETWEEN keys (secondary committed ⇒ primary committed, secondary rolled back ⇒ primary
rolled back, primary committed ⇒ every key locked-or-committed): that agreement is `GInv`
(`StoreLemmas.lean`), provable only under `ClientCfg.Good`.  It is kept as a lemma: the per-key
half of the invariant, valid on any tree. -/

/-- **Per-key part, every configuration.** -/
theorem C28_partial_per_key (c : ClientCfg) (_hc : True) (t : Txn) (wf : TxnWF t) (s0 : Store) (fr : Fresh t s0)
    (ops : List Op) (hd : ∀ op ∈ ops, op.Distinct t) :
    ∀ m ∈ t.muts,
      (∀ w ∈ ((run c t (Sys.init c t s0) ops).store m.key).writes, w.startTs = t.start →
          w = ⟨t.start, t.start, .rollback⟩ ∨ w = ⟨t.cv, t.start, m.kind⟩) ∧
      ¬ (HasC t.start ((run c t (Sys.init c t s0) ops).store m.key) ∧
         HasR t.start ((run c t (Sys.init c t s0) ops).store m.key)) ∧
      (HasC t.start ((run c t (Sys.init c t s0) ops).store m.key) →
        lockBlocks ((run c t (Sys.init c t s0) ops).store m.key) t.cv = false →
        get c.perc ((run c t (Sys.init c t s0) ops).store m.key) t.cv = expected m) := by
  have init : PInv t (Sys.init c t s0) := by
    refine ⟨fun m hm => ⟨fr.uniq m hm, ?_, ?_, ?_, ?_⟩, by intro cv h; simp [Sys.init] at h, rfl, rfl, ?_⟩
    rotate_left 4
    · intro r hrm
      simp only [Sys.init] at hrm
      cases hnx : (program c t)[0]? with
      | none => rw [hnx] at hrm; cases hrm
      | some r' =>
        rw [hnx] at hrm
        simp only [Option.toList, List.mem_singleton] at hrm
        subst hrm
        exact rpcOwn_of_program (c := c) wf rfl rfl (List.mem_of_getElem? hnx)
    · intro w hw hs; exact absurd hs (fr.norec m hm w hw)
    · intro w1 h1 _ _ s1 _; exact absurd s1 (fr.norec m hm w1 h1)
    · intro l hl hts; exact absurd ⟨l, hl, hts⟩ (fr.nolock m hm)
    · intro hc; exact absurd hc (not_C_of_noRec (fr.norec m hm))
  have inv := PInv.run_inv (c := c) wf ops hd init
  intro m hm
  have hk := inv.k m hm
  exact ⟨hk.recs, not_C_and_R hk, fun hC hnb => get_of_committed c.perc (wf.ok hm) hk hC hnb⟩

/-! ### non-vacuity -/

example : ClientCfg.good.Good := by decide

/-- the good client on the first witness: the primary's commit fails first, nothing is visible -/
example :
    let y := run ClientCfg.good wGrouped (Sys.init ClientCfg.good wGrouped Store.empty) wGroupedOps
    get ClientCfg.good.perc (y.store 0) 12 = .notFound ∧ get ClientCfg.good.perc (y.store 1) 12 = .notFound ∧
      get ClientCfg.good.perc (y.store 2) 12 = .notFound := by
  decide

/-- the good client, fault-free run with a lost reply and a duplicate: everything is visible -/
example :
    let y := run ClientCfg.good wGrouped (Sys.init ClientCfg.good wGrouped Store.empty)
      [.deliver, .notLeader, .deliver, .deliver, .redeliver 0, .deliver, .lose, .check 50, .resolve [2]]
    PrimaryCommitted wGrouped y.store ∧
    get ClientCfg.good.perc (y.store 0) 12 = .val 100 ∧ get ClientCfg.good.perc (y.store 1) 12 = .val 101 ∧
    get ClientCfg.good.perc (y.store 2) 12 = .val 102 := by
  refine ⟨⟨⟨12, 10, .put⟩, ?_, rfl, by decide⟩, ?_⟩ <;> decide

/-- two clients: another transaction (start 16, commit 17) runs into our lock on key 2 (refused),
waits for us to finish, then overwrites key 2.  Readers at 12 see all of ours, readers at 20 see
ours on keys 0, 1 and the later write on key 2; nobody sees a strict subset. -/
def twoClients : List Op :=
  [.deliver, .deliver, .deliver, .other (.prewrite ⟨2, .put, 902⟩ 16 0), .other (.check 2 16 30),
   .deliver, .deliver, .other (.prewrite ⟨2, .put, 902⟩ 16 0), .other (.commit 2 16 17)]

example : ∀ op ∈ twoClients, op.Distinct wGrouped := by decide

example :
    let y := run ClientCfg.good wGrouped (Sys.init ClientCfg.good wGrouped Store.empty) twoClients
    get ClientCfg.good.perc (y.store 0) 12 = .val 100 ∧ get ClientCfg.good.perc (y.store 1) 12 = .val 101 ∧
    get ClientCfg.good.perc (y.store 2) 12 = .val 102 ∧
    get ClientCfg.good.perc (y.store 0) 20 = .val 100 ∧ get ClientCfg.good.perc (y.store 2) 20 = .val 902 := by
  decide

end NoKV.Props.C28

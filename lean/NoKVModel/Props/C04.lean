/-
C04  Transaction commit is atomic with strictly increasing commit versions.

Statement (properties.jsonl): if Commit returns nil, all of the transaction's writes become
visible together at a single commit version greater than every previously committed version; if
Commit (or CommitWith's callback) reports an error (conflict, too-big, throttled, closed), none
of its writes ever become visible.

Model: NoKVModel/Mvcc/Model.lean (`commitTxn`, `newCommitTs`, `applyCommit`, `setTxnKey`,
`sendTooBig`); every API call is one atomic step, `CommitWith` is the same step (the harness awaits
the callback).  The theorems below hold for *every* configuration unless they take a hypothesis
about it; "reachable" = any sequence of begin/get/set/delete/commit/discard/close/versions calls
of any number of transactions from a fresh database with any limits.
-/
import NoKVModel.Mvcc.Lemmas

namespace NoKV.Props.C04
open NoKV NoKV.Mvcc

/-- **Atomic commit (headline).**  In every reachable state, a `commit` that answers `ok` for a
transaction with pending writes appends exactly that transaction's entries, all at the one
version `v = nextTs`, which is greater than every version in the store and every earlier commit
version; any other answer (`conflict`, `toobig`, `blocked`, `discarded`, …) leaves the store
exactly as it was. -/
theorem C04_atomic (c : MvccCfg) (hc : c.SeedGood) (fp : Key → Nat) (s : St) (hs : Reach c fp s) (id : Nat) :
    ((step c fp s (.commit id)).2 = .ok →
      ∃ t, Live s id t ∧
        ((t.writes = [] ∧ (step c fp s (.commit id)).1.store = s.store) ∨
         ((step c fp s (.commit id)).1.store = entriesOf t.writes s.nextTs ++ s.store ∧
          (step c fp s (.commit id)).1.nextTs = s.nextTs + 1 ∧
          (∀ e ∈ s.store, e.ts < s.nextTs) ∧ (∀ cm ∈ s.log, cm.ts < s.nextTs)))) ∧
    ((step c fp s (.commit id)).2 ≠ .ok → (step c fp s (.commit id)).1.store = s.store) := by
  have hA := Reach_InvA hc hs
  simp only [step]
  cases hg : getTxn s id with
  | none => simp
  | some t =>
    simp only
    by_cases hd : t.discarded = true
    · simp [commitTxn, hd]
    · have hd' : t.discarded = false := by simpa using hd
      by_cases hw : t.writes = []
      · simp only [commitTxn, hd, hw, if_true, if_false, Bool.false_eq_true]
        refine ⟨fun _ => ⟨t, ⟨hg, hd'⟩, Or.inl ⟨hw, by simp⟩⟩, fun h => absurd rfl h⟩
      · rcases commitTxn_cases c s id t false hd' hw with ⟨_, hs1, ho⟩ | ⟨ho, hs1⟩ | ⟨ho, _, _, hs1⟩
        · rw [ho, hs1]; simp
        · rw [hs1]
          refine ⟨fun h => ?_, fun _ => by simp⟩
          rcases ho with ho | ho | ho <;> rw [ho] at h <;> cases h
        · rw [hs1, ho]
          refine ⟨fun _ => ⟨t, ⟨hg, hd'⟩, Or.inr ⟨by simp, by simp, hA.storeLt, hA.logLt⟩⟩, fun h => absurd rfl h⟩

/-- lookup in `entries ++ store` at a bound at or above the entries' common version -/
theorem bestOf_entries (w : List (Key × Option Val)) (v : Nat) (st : List Entry) (hst : ∀ e ∈ st, e.ts < v)
    (k : Key) (x : Option Val) (hx : lookupW w k = some x) (ts : Nat) (hts : v ≤ ts) :
    readAt (entriesOf w v ++ st) k ts = x := by
  induction w with
  | nil => simp [lookupW] at hx
  | cons p ps ih =>
    have hall : ∀ b, bestOf (entriesOf ps v ++ st) k ts = some b → b.ts ≤ v := by
      intro b hb
      obtain ⟨hm, _⟩ := bestOf_some hb
      rcases List.mem_append.mp hm with hm | hm
      · exact Nat.le_of_eq (mem_entriesOf.mp hm).1
      · exact Nat.le_of_lt (hst b hm)
    by_cases hk : p.1 = k
    · have hx' : x = p.2 := by
        simp only [lookupW, List.find?_cons, hk, decide_true] at hx
        simpa using hx.symm
      subst hx'
      unfold readAt
      simp only [entriesOf, List.map_cons, List.cons_append, bestOf, hk, hts, and_self, if_true]
      cases hb : bestOf (List.map (fun p => ({ key := p.1, ts := v, val := p.2 } : Entry)) ps ++ st) k ts with
      | none => rfl
      | some b =>
        have := hall b hb
        have hnlt : ¬ v < b.ts := by omega
        simp only [hnlt, if_false]
    · have hx' : lookupW ps k = some x := by
        simp only [lookupW, List.find?_cons, hk, decide_false] at hx
        exact hx
      have := ih hx'
      unfold readAt at this ⊢
      simp only [entriesOf, List.map_cons, List.cons_append, bestOf, hk, false_and, if_false]
      exact this

/-- **All together or not at all, as later readers see it.**  After a successful commit at
version `v`: a read at any timestamp `≥ v` (until a later commit) returns the transaction's write
for every key it wrote; a read at any timestamp `< v` returns what it returned before, for every
key.  No reader can therefore see part of the transaction. -/
theorem C04_visible_together (c : MvccCfg) (hc : c.SeedGood) (fp : Key → Nat) (s : St) (hs : Reach c fp s) (id : Nat) (t : Txn)
    (hl : Live s id t) (hw : t.writes ≠ []) (hok : (step c fp s (.commit id)).2 = .ok) :
    (∀ k x, lookupW t.writes k = some x → ∀ ts, s.nextTs ≤ ts →
        readAt (step c fp s (.commit id)).1.store k ts = x) ∧
    (∀ k ts, ts < s.nextTs → readAt (step c fp s (.commit id)).1.store k ts = readAt s.store k ts) := by
  obtain ⟨hok1, _⟩ := C04_atomic c hc fp s hs id
  obtain ⟨t', hl', hcase⟩ := hok1 hok
  have htt : t' = t := by
    have h1 := hl'.1; have h2 := hl.1
    rw [h1] at h2; exact Option.some.inj h2
  subst htt
  rcases hcase with ⟨h, _⟩ | ⟨hst, _, hlt, _⟩
  · exact absurd h hw
  · rw [hst]
    refine ⟨fun k x hx ts hts => bestOf_entries t'.writes s.nextTs s.store hlt k x hx ts hts, ?_⟩
    intro k ts hts
    apply readAt_append_newer
    intro e he
    have := (mem_entriesOf.mp he).1
    omega

/-- **Strictly increasing versions; nothing of a failed commit is ever in the store.**  In every
reachable state the successful commits (ghost log, newest first) carry strictly decreasing
versions down the list, all below `nextTs`, and an entry is in the store iff it is a write of
one of those successful commits at that commit's version. -/
theorem C04_versions_increasing (c : MvccCfg) (hc : c.SeedGood) (fp : Key → Nat) (s : St) (hs : Reach c fp s) :
    s.log.Pairwise (fun newer older => older.ts < newer.ts) ∧
    (∀ cm ∈ s.log, cm.ts < s.nextTs) ∧
    (∀ e, e ∈ s.store ↔ ∃ cm ∈ s.log, e.ts = cm.ts ∧ (e.key, e.val) ∈ cm.writes) :=
  ⟨(Reach_InvA hc hs).logSorted, (Reach_InvA hc hs).logLt, (Reach_InvA hc hs).storeLog⟩

/-- **Versions keep increasing across a reopen.**  `Close` + `Open` keeps the store and the
successful-commit log, drops every transaction handle, and seeds the new oracle so that the next
commit version (`nextTs`) is above every version in the store and every earlier commit version
(reachable states include any number of reopens, so `C04_atomic` and `C04_versions_increasing`
span them). -/
theorem C04_reopen (c : MvccCfg) (hc : c.SeedGood) (fp : Key → Nat) (s : St) (hs : Reach c fp s) :
    (step c fp s .reopen).1.store = s.store ∧ (step c fp s .reopen).1.log = s.log ∧
    (∀ e ∈ s.store, e.ts < (step c fp s .reopen).1.nextTs) ∧
    (∀ cm ∈ s.log, cm.ts < (step c fp s .reopen).1.nextTs) ∧
    (∀ id, getTxn (step c fp s .reopen).1 id = none) := by
  have hA := InvA_step c hc fp s .reopen (Reach_InvA hc hs)
  refine ⟨rfl, rfl, hA.storeLt, hA.logLt, ?_⟩
  intro id; simp [step, reopenDB, getTxn]

theorem ge_nat (a b : Nat) : CmpOp.nat .ge a b = true ↔ b ≤ a := by
  simp [CmpOp.nat, CmpOp.eval]

/-- **Size limits at `Set`/`Delete`.**  With the `>=` tests of `Txn.checkSize`: a write to a live
update transaction is refused with `toobig` exactly when the entry count (which starts at 1)
would reach `MaxBatchCount` or the estimated size would reach `MaxBatchSize`; a refused write
changes nothing at all. -/
theorem C04_set_limit (c : MvccCfg) (hc : c.SizeGood) (fp : Key → Nat) (s : St) (id : Nat) (t : Txn)
    (hl : Live s id t) (hu : t.update = true) (k : Key) (v : Option Val) :
    ((step c fp s (.set id k v)).2 = .toobig ↔
      (s.maxCount ≤ t.count + 1 ∨ s.maxSize ≤ t.size + estimate k.length (vlen v) (s.thr + 10))) ∧
    ((step c fp s (.set id k v)).2 = .toobig → (step c fp s (.set id k v)).1 = s) ∧
    ((step c fp s (.set id k v)).2 = .toobig ∨ (step c fp s (.set id k v)).2 = .ok) := by
  obtain ⟨h1, h2, _, _⟩ := hc
  obtain ⟨hg, hd⟩ := hl
  simp only [step, hg, hu, hd, setTxnKey, h1, h2, Bool.not_true, Bool.false_eq_true, if_false]
  by_cases hb : (CmpOp.nat .ge (t.count + 1) s.maxCount || CmpOp.nat .ge (t.size + estimate k.length (vlen v) (s.thr + 10)) s.maxSize) = true
  · simp only [hb, if_true]
    simp only [Bool.or_eq_true, ge_nat] at hb
    refine ⟨?_, ?_, ?_⟩
    · constructor
      · intro _; exact hb
      · intro _; simp
    · intro _; simp
    · simp
  · simp only [hb]
    simp only [Bool.or_eq_true, ge_nat] at hb
    refine ⟨?_, ?_, ?_⟩
    · constructor
      · intro h; simp at h
      · intro h; exact absurd h hb
    · intro h; simp at h
    · simp

/-- **Size limits at commit.**  A commit that answers `ok` carried fewer than `MaxBatchCount`
entries and less than `MaxBatchSize` estimated bytes (internal keys: +12 bytes each) — the test
of `sendToWriteCh`, which runs before the request is queued. -/
theorem C04_commit_limit (c : MvccCfg) (hc : c.SizeGood) (fp : Key → Nat) (s : St) (id : Nat) (t : Txn)
    (hl : Live s id t) (hw : t.writes ≠ []) (hok : (step c fp s (.commit id)).2 = .ok) :
    t.writes.length < s.maxCount ∧
    (t.writes.map (fun p => estimate (p.1.length + 12) (vlen p.2) s.thr)).sum < s.maxSize := by
  obtain ⟨_, _, h3, h4⟩ := hc
  obtain ⟨hg, hd⟩ := hl
  simp only [step, hg, commitTxn, hd, hw, if_false, Bool.false_eq_true] at hok
  split at hok
  · cases hok
  · split at hok
    · cases hok
    · rename_i hbig
      simp only [sendTooBig, h3, h4, Bool.or_eq_true, ge_nat] at hbig
      have := newCommitTs_limits c s t
      rw [this.1, this.2.1, this.2.2] at hbig
      omega

-- non-vacuity: a reachable state with two commits, and a refused write
example : ((run MvccCfg.good (fun k => k.length) (init 64 1000 100)
    [.begin 1 true, .set 1 [1] (some [7]), .commit 1, .reopen, .begin 2 true, .set 2 [1] (some [8]), .set 2 [2] none, .commit 2]).log.map (·.ts))
    = [2, 1] := by decide
example : (step MvccCfg.good (fun k => k.length) (run MvccCfg.good (fun k => k.length) (init 3 1000 100)
    [.begin 1 true, .set 1 [1] (some [7])]) (.set 1 [2] (some [7]))).2 = .toobig := by decide

end NoKV.Props.C04

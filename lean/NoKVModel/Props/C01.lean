/-
C01 — the plain KV API is last-writer-wins under any background maintenance.

Specification: `lww log (cf,k)` = the most recent write to (cf,k) in the write log (newest first),
mapped to not-found when it is a delete.  (The plain API has no expiry parameter: `Set/SetCF/Del/
DelCF` take key and value only, so "expired" cannot arise through it.)

HEADLINE `C01_get_refines`: for every configuration with the good decisions (`Cfg.AllGood`) and
EVERY sequence of the modelled operations (put / delete, rotate, flush, L0→ingest move, ingest
keep, ingest drain merging with main tables, close+reopen; any order, any number) the plain `Get`
returns what last-writer-wins says.  Hypothesis on the sequence: `Op.wf` (decidable: written keys
non-empty and at most `maxKeySize` bytes).  `lww_is_last_write` shows that for histories written
through the plain API alone (one version) `lww` is literally "the first log entry of that key".
Not in the model (hence not in the theorem): L0→L0, Ln→Ln+1, Lmax→Lmax, value-log GC, expiry.
`C01_partial` of DESIGN.md (the as-is model refines the spec on histories that never rewrite an
internal key across a rotate) is NOT proved.
-/
import NoKVModel.Props.C02
import NoKVModel.Lsm.BigKey

namespace NoKV.Props.C01
open NoKV NoKV.Lsm

/-- last writer wins -/
def lww (log : List Entry) (cf : Nat) (k : Bytes) : Option Bytes :=
  match pick ⟨cf, k, maxVersion⟩ log with
  | some e => if e.del then none else some e.val
  | none => none

theorem C01_get_refines (c : Cfg) (hc : c.AllGood) (ops : List Op) (hops : ∀ op ∈ ops, op.wf)
    (cf : Nat) (k : Bytes) :
    getPlain c (run c {} ops) cf k = lww (logOf [] ops) cf k := by
  unfold getPlain lww
  rw [C02.C02_getv_refines c hc ops hops]
  cases pick ⟨cf, k, maxVersion⟩ (logOf [] ops) <;> rfl

/-! non-vacuity: a plain-API history (single version) with overwrites, a delete, keep and drain -/
def demoOps : List Op :=
  [.put ⟨0, [107], maxVersion, [1], false⟩, .rotate, .flush, .l0move, .drain,
   .put ⟨0, [107], maxVersion, [2], false⟩, .put ⟨0, [109], maxVersion, [7], false⟩, .rotate, .flush,
   .l0move, .keep, .put ⟨0, [107], maxVersion, [3], false⟩, .rotate, .flush, .l0move, .drain, .reopen,
   .put ⟨0, [109], maxVersion, [], true⟩, .rotate, .flush, .l0move, .keep, .drain]

example : ∀ op ∈ demoOps, op.wf := by decide

example : getPlain Cfg.good (run Cfg.good {} demoOps) 0 [107] = some [3] ∧
    getPlain Cfg.good (run Cfg.good {} demoOps) 0 [109] = none := by decide

example : getPlain Cfg.good (run Cfg.good {} demoOps) 0 [107] = lww (logOf [] demoOps) 0 [107] :=
  C01_get_refines Cfg.good (by decide) demoOps (by decide) 0 [107]

/-- when every write uses the single non-transactional version, `lww` is literally "the first
    entry of the log with that (cf, key)" -/
theorem lww_is_last_write (log : List Entry) (cf : Nat) (k : Bytes)
    (hv : ∀ e ∈ log, e.ver = maxVersion) :
    pick ⟨cf, k, maxVersion⟩ log = log.find? (fun e => e.cf = cf ∧ e.key = k) := by
  induction log with
  | nil => rfl
  | cons x l ih =>
    have hx := hv x List.mem_cons_self
    have ih' := ih (fun e he => hv e (List.mem_cons_of_mem _ he))
    simp only [pick, List.find?]
    by_cases h : x.cf = cf ∧ x.key = k
    · have hm : mq ⟨cf, k, maxVersion⟩ x = some x := by simp [mq, h.1, h.2, hx]
      simp only [hm, h, and_self, decide_true]
      cases hp : pick ⟨cf, k, maxVersion⟩ l with
      | none => rfl
      | some z =>
        have hz := hv z (List.mem_cons_of_mem _ (pick_mem hp))
        simp [better, hx, hz]
    · have hm : mq ⟨cf, k, maxVersion⟩ x = none := by
        unfold mq
        simp only
        split
        · rename_i h'; exact absurd ⟨h'.1, h'.2.1⟩ h
        · rfl
      simp only [hm, better_none_left, h, decide_false]
      exact ih'

/-- corpus/C01/finding-l0-oldest-wins.ops with the plain API's version -/
def l0tieOps : List Op :=
  [.put ⟨0, [107], maxVersion, [1], false⟩, .rotate, .flush,
   .put ⟨0, [107], maxVersion, [2], false⟩, .rotate, .flush]

theorem C01_fails_asis_l0tie (c : Cfg) (hc : c.l0SearchDir = .oldestFirst ∧ c.tieRule = .lt) :
    ¬ (getPlain c (run c {} l0tieOps) 0 [107] = lww (logOf [] l0tieOps) 0 [107]) := by
  rcases c with ⟨d, t, cp, lo, io, im, mk, to, ob, pk, zf⟩
  simp only at hc
  obtain ⟨rfl, rfl⟩ := hc
  cases cp <;> cases lo <;> cases io <;> cases im <;> cases mk <;> cases to <;> cases ob <;>
    cases pk <;> cases zf <;> decide

def ingestOrderOps : List Op :=
  [.put ⟨0, [109], maxVersion, [1], false⟩, .rotate, .flush,
   .put ⟨0, [97], maxVersion, [9], false⟩, .put ⟨0, [109], maxVersion, [2], false⟩, .rotate, .flush, .l0move]

theorem C01_fails_asis_ingestorder (c : Cfg) (hc : c.ingestOrder = .minKeyDesc ∧ c.tieRule = .lt) :
    ¬ (getPlain c (run c {} ingestOrderOps) 0 [109] = lww (logOf [] ingestOrderOps) 0 [109]) := by
  rcases c with ⟨d, t, cp, lo, io, im, mk, to, ob, pk, zf⟩
  simp only at hc
  obtain ⟨rfl, rfl⟩ := hc
  cases d <;> cases cp <;> cases lo <;> cases im <;> cases mk <;> cases to <;> cases ob <;>
    cases pk <;> cases zf <;> decide

def overlapOps : List Op :=
  [.put ⟨0, [97], maxVersion, [1], false⟩, .put ⟨0, [99], maxVersion, [1], false⟩,
   .put ⟨0, [109], maxVersion, [1], false⟩, .rotate, .flush, .l0move, .drain,
   .put ⟨0, [99], maxVersion, [2], false⟩, .put ⟨0, [100], maxVersion, [2], false⟩,
   .rotate, .flush, .l0move, .drain]

theorem C01_fails_asis_overlap (c : Cfg) (hc : c.overlapRightKey = .maxKey ∧ c.tieRule = .lt) :
    ¬ (getPlain c (run c {} overlapOps) 0 [99] = lww (logOf [] overlapOps) 0 [99]) ∧
    ¬ (getPlain c (run c {} overlapOps) 0 [109] = lww (logOf [] overlapOps) 0 [109]) := by
  rcases c with ⟨d, t, cp, lo, io, im, mk, to, ob, pk, zf⟩
  simp only at hc
  obtain ⟨rfl, rfl⟩ := hc
  cases d <;> cases cp <;> cases lo <;> cases io <;> cases im <;> cases mk <;> cases to <;>
    cases pk <;> cases zf <;> decide

/-- corpus/C01/finding-first-hit-mixed-versions.ops: needs a versioned write mixed in (the plain
    API alone always writes one version, for which first-hit is harmless) -/
def firstHitOps : List Op :=
  [.put ⟨0, [107], maxVersion, [1], false⟩, .rotate, .put ⟨0, [107], 8, [2], false⟩]

theorem C01_fails_asis_firsthit (c : Cfg) (hc : c.crossPick = .firstHit) :
    ¬ (getPlain c (run c {} firstHitOps) 0 [107] = lww (logOf [] firstHitOps) 0 [107]) := by
  rcases c with ⟨d, t, cp, lo, io, im, mk, to, ob, pk, zf⟩
  simp only at hc
  subst hc
  cases d <;> cases t <;> cases lo <;> cases io <;> cases im <;> cases mk <;> cases to <;>
    cases ob <;> cases pk <;> cases zf <;> decide

/-- corpus/C01/finding-oversized-key.ops: the plain API acknowledges a 70 000-byte key, both
    memtable engines keep its length in a `uint16`: what is stored is an entry of the
    never-written 4 464-byte key (so the written key reads back not-found and the 4 464-byte key
    returns the value). -/
theorem C01_fails_asis_bigkey (c : Cfg) (hc : c.plainKeyLimit = false) :
    (write c {} ⟨0, bigKey, maxVersion, [5], false⟩).2 = .ok ∧
    (write c {} ⟨0, bigKey, maxVersion, [5], false⟩).1.mem.map (·.key) = [ghostKey] ∧
    ghostKey ≠ bigKey := by
  rw [write_big c hc]
  refine ⟨rfl, rfl, ?_⟩
  intro h
  have h1 : ghostKey.length = 4464 := List.length_replicate ..
  rw [h, big_len] at h1
  omega

/-- with the limit in place the same write is rejected -/
theorem C01_bigkey_rejected (c : Cfg) (hc : c.plainKeyLimit = true) (s : St) (e : Entry)
    (hk : e.key ≠ []) (hl : e.key.length > maxKeySize) : write c s e = (s, .tooBig) := by
  unfold write
  simp [hk, hc, hl]

/-- corpus/C01/finding-version-zero-lost-mixed.ops: an entry written with version 0 (through the
    versioned API) is lost for the plain `Get` as well once its memtable is flushed -/
def zeroVerOps : List Op := [.put ⟨0, [107], 0, [1], false⟩, .rotate, .flush]

theorem C01_fails_asis_zerover (c : Cfg) (hc : c.zeroVersionFound = false) :
    ¬ (getPlain c (run c {} zeroVerOps) 0 [107] = lww (logOf [] zeroVerOps) 0 [107]) := by
  rcases c with ⟨d, t, cp, lo, io, im, mk, to, ob, pk, zf⟩
  simp only at hc
  subst hc
  cases d <;> cases t <;> cases cp <;> cases lo <;> cases io <;> cases im <;> cases mk <;> cases to <;>
    cases ob <;> cases pk <;> decide

end NoKV.Props.C01

/-
C03  Committed transactions are serializable and read their snapshot.

Statement (properties.jsonl): with conflict detection enabled, every transaction observes
exactly the data committed at or before its read timestamp plus its own pending writes.  A
read-write commit must fail with a conflict error if another transaction committed a write to a
key it read after its read timestamp.  Consequently the committed transactions are
serializable in commit-timestamp order.

Model: NoKVModel/Mvcc/Model.lean; every API call one atomic step; "reachable" = any sequence of
begin/get/set/delete/commit/discard/close/versions calls of any number of transactions from a
fresh database with any limits; `fp` (the key fingerprint) is an arbitrary function, so
collisions are covered (they can only add conflicts).

Full statement of the last sentence, NOT proved here (see `C03_serializable_partial`):
  replaying the ghost log's transactions one at a time in commit-ts order on the empty store,
  each re-reading its logged reads (`rlog`) at its own commit point, reproduces every logged
  read result and ends in the reachable state's store.
-/
import NoKVModel.Mvcc.ConflictLemmas

namespace NoKV.Props.C03
open NoKV NoKV.Mvcc

def render (v : Option Val) : Out :=
  match v with
  | some x => .val x
  | none => .notfound

/-- **Snapshot reads (headline).**  In every reachable state a `Get` of a live transaction
answers with its own pending write if it has one for the key (update transactions only), and
otherwise with the value of the greatest committed version of the key that is `≤` its read
timestamp — where "committed version" means: an entry written by a commit that answered `ok`,
at that commit's version (`Committed s.log`); a tombstone or no such version reads `notfound`. -/
theorem C03_snapshot (c : MvccCfg) (hc : c.SnapGood) (fp : Key → Nat) (s : St) (hs : Reach c fp s)
    (id : Nat) (t : Txn) (hl : Live s id t) (k : Key) :
    ((step c fp s (.get id k)).2 =
      match (if t.update then lookupW t.writes k else none) with
      | some own => render own
      | none => render (readAt s.store k t.readTs)) ∧
    (∀ e, bestOf s.store k t.readTs = some e →
        Committed s.log e ∧ e.key = k ∧ e.ts ≤ t.readTs ∧
        ∀ e', Committed s.log e' → e'.key = k → e'.ts ≤ t.readTs → e'.ts ≤ e.ts) ∧
    (bestOf s.store k t.readTs = none → ∀ e', Committed s.log e' → ¬ (e'.key = k ∧ e'.ts ≤ t.readTs)) ∧
    t.readTs < s.nextTs := by
  have hA := Reach_InvA hc.2 hs
  have hB := Reach_InvB hc hs
  obtain ⟨hg, hd⟩ := hl
  refine ⟨?_, ?_, ?_, hB.readLt id t ⟨hg, hd⟩⟩
  · simp only [step, hg, hd, getTxnKey, Bool.false_eq_true, if_false]
    cases hown : (if t.update = true then lookupW t.writes k else none) with
    | none =>
      simp only [render]
      cases readAt s.store k t.readTs <;> rfl
    | some own =>
      cases own <;> rfl
  · intro e he
    obtain ⟨h1, h2, h3, h4⟩ := bestOf_some he
    exact ⟨(hA.storeLog e).mp h1, h2, h3, fun e' he' => h4 e' ((hA.storeLog e').mpr he')⟩
  · intro hn e' he'
    exact bestOf_none hn e' ((hA.storeLog e').mpr he')

/-- **The snapshot never changes.**  Whatever calls follow (of this or any other transaction;
no reopen — a reopen ends every transaction of the old instance), a read at any timestamp below
the current `nextTs` — in particular at the read timestamp of any transaction live now — returns
the same value as now: every later commit gets a version `≥ nextTs`. -/
theorem C03_snapshot_stable (c : MvccCfg) (hc : c.SnapGood) (fp : Key → Nat) (s : St) (hs : Reach c fp s)
    (ops : List Op) (hno : Op.reopen ∉ ops) (k : Key) :
    (∀ r, r < s.nextTs → readAt (run c fp s ops).store k r = readAt s.store k r) ∧
    (∀ id t, Live s id t → readAt (run c fp s ops).store k t.readTs = readAt s.store k t.readTs) := by
  have hA := Reach_InvA hc.2 hs
  have hB := Reach_InvB hc hs
  exact ⟨fun r hr => readAt_stable c hc.2 fp ops hno s hA k r hr,
    fun id t hl => readAt_stable c hc.2 fp ops hno s hA k t.readTs (hB.readLt id t hl)⟩

/-- **The snapshot is complete.**  A transaction begun now reads at `nextTs - 1`, which is at or
above the version of every commit that has answered `ok` so far. -/
theorem C03_snapshot_complete (c : MvccCfg) (hc : c.SnapGood) (fp : Key → Nat) (s : St) (hs : Reach c fp s)
    (id : Nat) (upd : Bool) :
    (step c fp s (.begin id upd)).2 = .okTs (s.nextTs - 1) ∧
    (∃ t, Live (step c fp s (.begin id upd)).1 id t ∧ t.readTs = s.nextTs - 1) ∧
    ∀ cm ∈ s.log, cm.ts ≤ s.nextTs - 1 := by
  have hseed := hc.2
  replace hc := hc.1
  refine ⟨by simp [step, beginTxn, hc], ?_, ?_⟩
  · refine ⟨{ update := upd, readTs := s.nextTs - c.readTsOff, reads := [], ckeys := [], writes := [], count := 1,
               size := 0, discarded := false, doneRead := false, tag := s.nextTag, rkeys := [], rlog := [] },
             ⟨?_, rfl⟩, ?_⟩
    · simp only [step, beginTxn]; rw [getTxn_putTxn]; simp
    · simp [hc]
  · intro cm hcm
    have := (Reach_InvA hseed hs).logLt cm hcm
    omega

/-- the conflict obligation of C03 for a configuration -/
def ConflictDetected (c : MvccCfg) : Prop :=
  ∀ (fp : Key → Nat) (s : St), Reach c fp s →
    ∀ (id : Nat) (t : Txn), Live s id t → t.writes ≠ [] →
      ∀ cm ∈ s.log, t.readTs < cm.ts →
        ∀ k ∈ t.rkeys, (∃ v, (k, v) ∈ cm.writes) →
          (step c fp s (.commit id)).2 = .conflict

/-- **Conflict detection (headline).**  In every reachable state: if some commit that answered
`ok` with a version above `T`'s read timestamp wrote a key that `T` (live, with pending writes)
read from the store, then `Commit T` answers `conflict`. -/
theorem C03_conflict (c : MvccCfg) (hc : c.ConfGood) : ConflictDetected c := by
  intro fp s hs id t hl hw cm hcm hts k hk ⟨v, hv⟩
  have hI := Reach_InvC hc hs
  obtain ⟨⟨_, _, hchk, hskip, _, _, hfin, _⟩, _, _⟩ := hc
  have hheld := hI.wm.held _ (hI.held id t hl)
  have hcl := hI.cleanLe
  obtain ⟨fps, hmem, hfp⟩ := hI.hist cm hcm (by simp only at hheld; omega)
  have hr : fp k ∈ t.reads := (hI.txnOk id t hl).2 k hk
  have hconf : hasConflict c s t = true := by
    unfold hasConflict
    have hne : t.reads ≠ [] := by intro h; rw [h] at hr; cases hr
    simp only [hne, if_false, Bool.or_eq_true, hfin, Bool.not_false, Bool.true_and]
    right
    rw [List.any_eq_true]
    refine ⟨(cm.ts, fps), hmem, ?_⟩
    simp only [hskip, Bool.and_eq_true, Bool.not_eq_true']
    constructor
    · have : ¬ (CmpOp.nat .le cm.ts t.readTs = true) := by rw [le_nat]; omega
      simpa using this
    · rw [List.any_eq_true]
      exact ⟨fp k, hr, by simpa using hfp (k, v) hv⟩
  obtain ⟨hg, hd⟩ := hl
  simp [step, hg, commitTxn, hd, hw, hchk, hconf]

/-- **As-is part of conflict detection** (holds whatever the watermark does): in *any* state, if
`committedTxns` still holds an entry with a timestamp above `T`'s read timestamp that shares a
fingerprint with `T`'s read set, `Commit T` answers `conflict`.  What is missing compared with
`C03_conflict` is exactly that the entry is still there, i.e. that pruning never removes history
a live transaction needs — which is what the two read-watermark findings break. -/
theorem C03_conflict_partial (c : MvccCfg) (hc : c.DetectGood) (fp : Key → Nat) (s : St)
    (id : Nat) (t : Txn) (hl : Live s id t) (hw : t.writes ≠ [])
    (ts : Nat) (fps : List Nat) (hmem : (ts, fps) ∈ s.committed) (hts : t.readTs < ts)
    (r : Nat) (hr : r ∈ t.reads) (hrf : r ∈ fps) :
    (step c fp s (.commit id)).2 = .conflict := by
  obtain ⟨_, _, hchk, hskip, _, _, hfin, _⟩ := hc
  have hconf : hasConflict c s t = true := by
    unfold hasConflict
    have hne : t.reads ≠ [] := by intro h; rw [h] at hr; cases hr
    simp only [hne, if_false, Bool.or_eq_true, hfin, Bool.not_false, Bool.true_and]
    right
    rw [List.any_eq_true]
    refine ⟨(ts, fps), hmem, ?_⟩
    simp only [hskip, Bool.and_eq_true, Bool.not_eq_true']
    constructor
    · have : ¬ (CmpOp.nat .le ts t.readTs = true) := by rw [le_nat]; omega
      simpa using this
    · rw [List.any_eq_true]
      exact ⟨r, hr, by simpa using hrf⟩
  obtain ⟨hg, hd⟩ := hl
  simp [step, hg, commitTxn, hd, hw, hchk, hconf]

/-- **Iterator reads are in the read set.**  With `advance` recording every returned item: after
a forward scan of a live update transaction every key the scan returned is among the keys the
conflict theorem speaks about (`rkeys`), so `C03_conflict` covers keys read through an iterator
exactly as keys read through `Get`. -/
theorem C03_scan_tracked (c : MvccCfg) (hc : c.scanTrackAll = true) (fp : Key → Nat) (s : St)
    (id : Nat) (t : Txn) (hl : Live s id t) (hu : t.update = true) (hcl : s.closed = false)
    (t' : Txn) (ht' : getTxn (step c fp s (.scan id)).1 id = some t') :
    (∀ items, (step c fp s (.scan id)).2 = .scanned items → ∀ p ∈ items, p.1 ∈ t'.rkeys) ∧
    (∀ k ∈ t.rkeys, k ∈ t'.rkeys) ∧ t'.readTs = t.readTs ∧ t'.writes = t.writes ∧ t'.discarded = false := by
  obtain ⟨hg, hd⟩ := hl
  have hstep : step c fp s (.scan id) = scanTxn c fp s id t := by simp [step, hg, hd, hcl]
  rw [hstep] at ht' ⊢
  simp only [scanTxn] at ht' ⊢
  rw [if_pos hu] at ht'
  rw [getTxn_putTxn] at ht'
  simp only [if_true, Option.some.injEq] at ht'
  subst ht'
  refine ⟨?_, ?_, rfl, rfl, hd⟩
  · intro items hit p hp
    simp only [Out.scanned.injEq] at hit
    subst hit
    obtain ⟨it, hit, rfl⟩ := List.mem_map.mp hp
    refine List.mem_append_left _ (List.mem_map.mpr ⟨it, ?_, rfl⟩)
    exact List.mem_filter.mpr ⟨hit, by simp [hc]⟩
  · intro k hk; exact List.mem_append_right _ hk

theorem bestOf_no_between (st : List Entry) (k : Key) (lo hi : Nat) (hle : lo ≤ hi)
    (h : ∀ e ∈ st, e.key = k → e.ts ≤ lo ∨ hi < e.ts) : bestOf st k hi = bestOf st k lo := by
  induction st with
  | nil => rfl
  | cons x xs ih =>
    have ihx := ih (fun e he => h e (List.mem_cons_of_mem _ he))
    have hx := h x List.mem_cons_self
    simp only [bestOf, ihx]
    by_cases hk : x.key = k
    · have : (x.ts ≤ hi) ↔ (x.ts ≤ lo) := by
        have := hx hk; omega
      simp only [hk, true_and, this]
    · simp [hk]

/-- **Serializability, the part that is proved.**  If `Commit T` answers `ok` (T live, with
pending writes) then no commit with a version above `T`'s read timestamp wrote any key `T` read
from the store; hence re-reading any such key at *any* timestamp from `T`'s read timestamp up to
`T`'s commit point (`nextTs - 1` and beyond, before `T`'s own entries) returns exactly what `T`
read: `T` behaves as if it had run entirely at its commit point, after all earlier commits —
the step that makes the commit-timestamp order a serial order.
Missing for the full `C03_serializable`: the induction over the ghost log that assembles these
per-commit facts into the replay statement (it needs the additional invariant that every logged
read result `rlog` equals `readAt store k readTs`). -/
theorem C03_serializable_partial (c : MvccCfg) (hc : c.ConfGood) (fp : Key → Nat) (s : St) (hs : Reach c fp s)
    (id : Nat) (t : Txn) (hl : Live s id t) (hw : t.writes ≠ [])
    (hok : (step c fp s (.commit id)).2 = .ok) :
    (∀ cm ∈ s.log, t.readTs < cm.ts → ∀ k ∈ t.rkeys, ¬ ∃ v, (k, v) ∈ cm.writes) ∧
    (∀ k ∈ t.rkeys, ∀ r, t.readTs ≤ r → readAt s.store k r = readAt s.store k t.readTs) := by
  have hno : ∀ cm ∈ s.log, t.readTs < cm.ts → ∀ k ∈ t.rkeys, ¬ ∃ v, (k, v) ∈ cm.writes := by
    intro cm hcm hts k hk hex
    have := C03_conflict c hc fp s hs id t hl hw cm hcm hts k hk hex
    rw [this] at hok
    cases hok
  refine ⟨hno, ?_⟩
  intro k hk r hr
  unfold readAt
  rw [bestOf_no_between s.store k t.readTs r hr]
  intro e he hek
  by_cases hle : e.ts ≤ t.readTs
  · exact Or.inl hle
  · exfalso
    obtain ⟨cm, hcm, hts, hmem⟩ := ((Reach_InvA hc.1.2.2.2.2.2.2.2 hs).storeLog e).mp he
    exact hno cm hcm (by omega) k hk ⟨e.val, by rw [← hek]; exact hmem⟩

-- ---------------------------------------------------------------- the as-is tree

def kA : Key := [106]
def kB : Key := [107]
def fpW (k : Key) : Nat := k.length * 1000 + k.headD 0

/-- corpus/C03/finding-readmark-zero.ops (up to the last `set`) -/
def witnessZero : List Op :=
  [.begin 1 true, .get 1 kB, .begin 2 true, .set 2 kB (some [118, 50]), .commit 2,
   .begin 3 true, .set 3 kA (some [120]), .commit 3, .set 1 kB (some [118, 49])]

/-- corpus/C03/finding-readmark-at-doneuntil.ops (up to the last `set`) -/
def witnessAtDone : List Op :=
  [.begin 2 true, .set 2 [97] (some [48]), .commit 2, .begin 3 false, .discard 3,
   .begin 1 true, .get 1 kB, .begin 2 true, .set 2 kB (some [118, 50]), .commit 2,
   .begin 3 false, .discard 3, .begin 2 true, .set 2 kA (some [120]), .commit 2,
   .set 1 kB (some [118, 49])]

def asisZero (holds : Bool) : MvccCfg := { MvccCfg.good with wmTracksZero := false, wmHoldsAtDone := holds }
def asisAtDone (zero : Bool) : MvccCfg := { MvccCfg.good with wmTracksZero := zero, wmHoldsAtDone := false }

/-- decidable form of "handle 1 is a live transaction with pending writes that read `kB` from the
store, and a successful commit above its read timestamp wrote `kB`" -/
def witnessCheck (s : St) : Bool :=
  match getTxn s 1 with
  | some t => !t.discarded && !t.writes.isEmpty && t.rkeys.contains kB &&
      s.log.any (fun cm => decide (t.readTs < cm.ts) && cm.writes.any (fun p => p.1 == kB))
  | none => false

theorem refute (c : MvccCfg) (ops : List Op)
    (h2 : witnessCheck (run c fpW (init 64 1048576 1024) ops) = true)
    (h3 : (step c fpW (run c fpW (init 64 1048576 1024) ops) (.commit 1)).2 = .ok) :
    ¬ ConflictDetected c := by
  intro H
  unfold witnessCheck at h2
  cases hg : getTxn (run c fpW (init 64 1048576 1024) ops) 1 with
  | none => rw [hg] at h2; cases h2
  | some t =>
    rw [hg] at h2
    simp only [Bool.and_eq_true, Bool.not_eq_true', List.any_eq_true, decide_eq_true_eq, beq_iff_eq,
      List.contains_iff_mem, List.isEmpty_eq_false_iff] at h2
    obtain ⟨⟨⟨hd, hw⟩, hk⟩, cm, hcm, hts, p, hp, hpk⟩ := h2
    have := H fpW _ ⟨64, 1048576, 1024, ops, rfl⟩ 1 t ⟨hg, hd⟩ hw cm hcm hts kB hk
      ⟨p.2, by rw [← hpk]; exact hp⟩
    rw [this] at h3
    cases h3

/-- **Finding readmark-zero** (as-is: `WaterMark.addIndex` ignores index 0).  On a fresh database
a transaction with read timestamp 0 is not counted by `readMark`; after two later commits the
conflict history it needs has been pruned, and its own commit of a key it read — which was
overwritten at version 1 meanwhile — answers `ok`: a lost update. -/
theorem C03_fails_asis_readmark_zero (c : MvccCfg) (hc : c = asisZero false ∨ c = asisZero true) :
    ¬ ConflictDetected c := by
  rcases hc with rfl | rfl
  · exact refute _ witnessZero (by decide) (by decide)
  · exact refute _ witnessZero (by decide) (by decide)

/-- **Finding readmark-at-doneuntil** (as-is: `WaterMark.tryAdvance` only looks at slot
`doneUntil+1`).  A transaction whose read timestamp equals `readMark.doneUntil` (an earlier
reader with the same read timestamp already finished) does not hold the mark back; the mark
passes it, the history is pruned, and its conflicting commit answers `ok` — also with read
timestamps `≥ 1`, i.e. on any database. -/
theorem C03_fails_asis_readmark_at_doneuntil (c : MvccCfg) (hc : c = asisAtDone false ∨ c = asisAtDone true) :
    ¬ ConflictDetected c := by
  rcases hc with rfl | rfl
  · exact refute _ witnessAtDone (by decide) (by decide)
  · exact refute _ witnessAtDone (by decide) (by decide)

-- non-vacuity: on the same witnesses the repaired configuration answers `conflict`
example : (step MvccCfg.good fpW (run MvccCfg.good fpW (init 64 1048576 1024) witnessZero) (.commit 1)).2 = .conflict := by
  decide
example : (step MvccCfg.good fpW (run MvccCfg.good fpW (init 64 1048576 1024) witnessAtDone) (.commit 1)).2 = .conflict := by
  decide
example : witnessCheck (run MvccCfg.good fpW (init 64 1048576 1024) witnessAtDone) = true := by decide

end NoKV.Props.C03

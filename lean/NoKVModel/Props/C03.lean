/-
C03  Committed transactions are serializable and read their snapshot.

Statement (properties.jsonl): with conflict detection enabled, every transaction observes
exactly the data committed at or before its read timestamp plus its own pending writes.  A
read-write commit must fail with a conflict error if another transaction committed a write to a
key it read after its read timestamp.  Consequently the committed transactions are
serializable in commit-timestamp order.

Model: NoKVModel/Mvcc/Model.lean; every API call one atomic step; "reachable" = any sequence of
begin/get/set/delete/commit/discard/close/versions calls of any number of transactions from a
fresh database with any limits; `fp` (the key fingerprint) is an arbitrary function, so
collisions are covered (they can only add conflicts).

The last sentence is `C03_serializable` below: a serial execution of the committed transactions
in commit-timestamp order on the abstract map `Key → Option Val` in which every committed
transaction's reads return what they returned in the real history.
-/
import NoKVModel.Mvcc.SerialLemmas

namespace NoKV.Props.C03
open NoKV NoKV.Mvcc

def render (v : Option Val) : Out :=
  match v with
  | some x => .val x
  | none => .notfound

/-- **Snapshot reads (headline).**  In every reachable state a `Get` of a live transaction
answers with its own pending write if it has one for the key (update transactions only), and
otherwise with the value of the greatest committed version of the key that is `≤` its read
timestamp — where "committed version" means: an entry written by a commit that answered `ok`,
at that commit's version (`Committed s.log`); a tombstone or no such version reads `notfound`. -/
theorem C03_snapshot (c : MvccCfg) (hc : c.SnapGood) (fp : Key → Nat) (s : St) (hs : Reach c fp s)
    (id : Nat) (t : Txn) (hl : Live s id t) (k : Key) :
    ((step c fp s (.get id k)).2 =
      match (if t.update then lookupW t.writes k else none) with
      | some own => render own
      | none => render (readAt s.store k t.readTs)) ∧
    (∀ e, bestOf s.store k t.readTs = some e →
        Committed s.log e ∧ e.key = k ∧ e.ts ≤ t.readTs ∧
        ∀ e', Committed s.log e' → e'.key = k → e'.ts ≤ t.readTs → e'.ts ≤ e.ts) ∧
    (bestOf s.store k t.readTs = none → ∀ e', Committed s.log e' → ¬ (e'.key = k ∧ e'.ts ≤ t.readTs)) ∧
    t.readTs < s.nextTs := by
  have hA := Reach_InvA hc.2 hs
  have hB := Reach_InvB hc hs
  obtain ⟨hg, hd⟩ := hl
  refine ⟨?_, ?_, ?_, hB.readLt id t ⟨hg, hd⟩⟩
  · simp only [step, hg, hd, getTxnKey, Bool.false_eq_true, if_false]
    cases hown : (if t.update = true then lookupW t.writes k else none) with
    | none =>
      simp only [render]
      cases readAt s.store k t.readTs <;> rfl
    | some own =>
      cases own <;> rfl
  · intro e he
    obtain ⟨h1, h2, h3, h4⟩ := bestOf_some he
    exact ⟨(hA.storeLog e).mp h1, h2, h3, fun e' he' => h4 e' ((hA.storeLog e').mpr he')⟩
  · intro hn e' he'
    exact bestOf_none hn e' ((hA.storeLog e').mpr he')

/-- **The snapshot never changes.**  Whatever calls follow (of this or any other transaction;
no reopen — a reopen ends every transaction of the old instance), a read at any timestamp below
the current `nextTs` — in particular at the read timestamp of any transaction live now — returns
the same value as now: every later commit gets a version `≥ nextTs`. -/
theorem C03_snapshot_stable (c : MvccCfg) (hc : c.SnapGood) (fp : Key → Nat) (s : St) (hs : Reach c fp s)
    (ops : List Op) (hno : Op.reopen ∉ ops) (k : Key) :
    (∀ r, r < s.nextTs → readAt (run c fp s ops).store k r = readAt s.store k r) ∧
    (∀ id t, Live s id t → readAt (run c fp s ops).store k t.readTs = readAt s.store k t.readTs) := by
  have hA := Reach_InvA hc.2 hs
  have hB := Reach_InvB hc hs
  exact ⟨fun r hr => readAt_stable c hc.2 fp ops hno s hA k r hr,
    fun id t hl => readAt_stable c hc.2 fp ops hno s hA k t.readTs (hB.readLt id t hl)⟩

/-- **The snapshot is complete.**  A transaction begun now reads at `nextTs - 1`, which is at or
above the version of every commit that has answered `ok` so far. -/
theorem C03_snapshot_complete (c : MvccCfg) (hc : c.SnapGood) (fp : Key → Nat) (s : St) (hs : Reach c fp s)
    (id : Nat) (upd : Bool) :
    (step c fp s (.begin id upd)).2 = .okTs (s.nextTs - 1) ∧
    (∃ t, Live (step c fp s (.begin id upd)).1 id t ∧ t.readTs = s.nextTs - 1) ∧
    ∀ cm ∈ s.log, cm.ts ≤ s.nextTs - 1 := by
  have hseed := hc.2
  replace hc := hc.1
  refine ⟨by simp [step, beginTxn, hc], ?_, ?_⟩
  · refine ⟨{ update := upd, readTs := s.nextTs - c.readTsOff, reads := [], ckeys := [], writes := [], count := 1,
               size := 0, discarded := false, doneRead := false, tag := s.nextTag, rkeys := [], rlog := [],
               scanned := false, slog := [] },
             ⟨?_, rfl⟩, ?_⟩
    · simp only [step, beginTxn]; rw [getTxn_putTxn]; simp
    · simp [hc]
  · intro cm hcm
    have := (Reach_InvA hseed hs).logLt cm hcm
    omega

/-- the conflict obligation of C03 for a configuration -/
def ConflictDetected (c : MvccCfg) : Prop :=
  ∀ (fp : Key → Nat) (s : St), Reach c fp s →
    ∀ (id : Nat) (t : Txn), Live s id t → t.writes ≠ [] →
      ∀ cm ∈ s.log, t.readTs < cm.ts →
        ∀ k ∈ t.rkeys, (∃ v, (k, v) ∈ cm.writes) →
          (step c fp s (.commit id)).2 = .conflict

/-- **Conflict detection (headline).**  In every reachable state: if some commit that answered
`ok` with a version above `T`'s read timestamp wrote a key that `T` (live, with pending writes)
read from the store, then `Commit T` answers `conflict`. -/
theorem C03_conflict (c : MvccCfg) (hc : c.ConfGood) : ConflictDetected c := by
  intro fp s hs id t hl hw cm hcm hts k hk ⟨v, hv⟩
  have hconf := hasConflict_of_overwrite c hc fp s (Reach_InvC hc hs) id t hl cm hcm hts k hk v hv
  have hchk : c.checksConflict = true := hc.1.2.2.1
  obtain ⟨hg, hd⟩ := hl
  simp [step, hg, commitTxn, hd, hw, hchk, hconf]

/-
(formerly `C03_conflict_partial`)
Full-strength statement the property demands: `C03_conflict` above — in every REACHABLE state, a
commit in the ghost log above `T`'s read timestamp that wrote a key `T` read forces `Commit T` to
answer `conflict`.  That is proved, for the configuration whose read watermark holds the mark
(`ConfGood`; the tree has it since d7ef6bd).
What this lemma lacks compared with it: it assumes that the matching `committedTxns` entry is
still present (it does not show that pruning keeps it) and it speaks about fingerprints, not
keys.  It is kept as a lemma — not as a claim about the property — because it holds in ANY state
and for ANY watermark behaviour, i.e. it is the part of conflict detection that survives a
regression of the two `wm.*` facts.
-/
/-- In *any* state: if `committedTxns` holds an entry with a timestamp above `T`'s read timestamp
that shares a fingerprint with `T`'s read set, `Commit T` answers `conflict`. -/
theorem C03_conflict_of_kept_history (c : MvccCfg) (hc : c.DetectGood) (fp : Key → Nat) (s : St)
    (id : Nat) (t : Txn) (hl : Live s id t) (hw : t.writes ≠ [])
    (ts : Nat) (fps : List Nat) (hmem : (ts, fps) ∈ s.committed) (hts : t.readTs < ts)
    (r : Nat) (hr : r ∈ t.reads) (hrf : r ∈ fps) :
    (step c fp s (.commit id)).2 = .conflict := by
  obtain ⟨_, _, hchk, hskip, _, _, hfin, _⟩ := hc
  have hconf : hasConflict c s t = true := by
    unfold hasConflict
    split
    · rfl
    have hne : t.reads ≠ [] := by intro h; rw [h] at hr; cases hr
    simp only [hne, if_false, Bool.or_eq_true, hfin, Bool.not_false, Bool.true_and]
    right
    rw [List.any_eq_true]
    refine ⟨(ts, fps), hmem, ?_⟩
    simp only [hskip, Bool.and_eq_true, Bool.not_eq_true']
    constructor
    · have : ¬ (CmpOp.nat .le ts t.readTs = true) := by rw [le_nat]; omega
      simpa using this
    · rw [List.any_eq_true]
      exact ⟨r, hr, by simpa using hrf⟩
  obtain ⟨hg, hd⟩ := hl
  simp [step, hg, commitTxn, hd, hw, hchk, hconf]

/-- **Iterator reads are in the read set.**  With `advance` recording every returned item: after
a forward scan of a live update transaction every key the scan returned is among the keys the
conflict theorem speaks about (`rkeys`), so `C03_conflict` covers keys read through an iterator
exactly as keys read through `Get`. -/
theorem C03_scan_tracked (c : MvccCfg) (hc : c.scanTrackAll = true) (fp : Key → Nat) (s : St)
    (id : Nat) (t : Txn) (hl : Live s id t) (hu : t.update = true) (hcl : s.closed = false)
    (t' : Txn) (ht' : getTxn (step c fp s (.scan id)).1 id = some t') :
    (∀ items, (step c fp s (.scan id)).2 = .scanned items → ∀ p ∈ items, p.1 ∈ t'.rkeys) ∧
    (∀ k ∈ t.rkeys, k ∈ t'.rkeys) ∧ t'.readTs = t.readTs ∧ t'.writes = t.writes ∧ t'.discarded = false := by
  obtain ⟨hg, hd⟩ := hl
  have hstep : step c fp s (.scan id) = scanTxn c fp s id t := by simp [step, hg, hd, hcl]
  rw [hstep] at ht' ⊢
  simp only [scanTxn] at ht' ⊢
  rw [if_pos hu] at ht'
  rw [getTxn_putTxn] at ht'
  simp only [if_true, Option.some.injEq] at ht'
  subst ht'
  refine ⟨?_, ?_, rfl, rfl, hd⟩
  · intro items hit p hp
    simp only [Out.scanned.injEq] at hit
    subst hit
    obtain ⟨it, hit, rfl⟩ := List.mem_map.mp hp
    refine List.mem_append_left _ (List.mem_map.mpr ⟨it, ?_, rfl⟩)
    exact List.mem_filter.mpr ⟨hit, by simp [hc]⟩
  · intro k hk; exact List.mem_append_right _ hk

/-- **The versioned store refines the abstract map.**  In every reachable state, reading key `k`
at any timestamp `r` returns exactly what the abstract map `Key → Option Val` holds after the
committed transactions with version `≤ r`, applied in commit order (`amapOf` of the filtered
log).  With `C03_snapshot` this says what every transaction — read-only ones included — sees:
the abstract state at the serial point "after all commits up to its read timestamp". -/
theorem C03_store_refines_map (c : MvccCfg) (hc : c.SeedGood) (fp : Key → Nat) (s : St) (hs : Reach c fp s)
    (k : Key) (r : Nat) :
    readAt s.store k r = amapOf (s.log.filter (fun cm => decide (cm.ts ≤ r))) k := by
  rw [Reach_InvS hs]
  exact readAt_flatLog s.log (Reach_InvA hc hs).logSorted k r

/-
(formerly `C03_serializable_partial`)
Full-strength statement the property demands: `C03_serializable` below.  The old partial theorem
proved, for ONE commit that answers `ok`, that nothing the transaction read was overwritten
above its read timestamp and that re-reading its keys up to its commit point gives the same
values.  It lacked (a) the link between the logged read results and the store (invariant `InvR`:
every logged read equals `readAt store k readTs`), (b) the refinement of the store to the
abstract map (`C03_store_refines_map`), and (c) the induction over the whole history that turns
the per-commit facts into one serial execution.  All three are now proved
(NoKVModel/Mvcc/SerialLemmas.lean: `InvR_step`, `readAt_flatLog`, `InvSer_step`, `Reach_InvSer`);
the per-commit fact is the commit case of `InvSer_step` and is no longer stated separately.
-/
/-
`C03_serializable` below is a PARTIAL statement of the property's last sentence (kind `partial` in
props/C03.json): its notion of "read" is the point reads and the items an iterator RETURNED.  The
property's quantifier includes `iterate`, and an iterator also observes that keys are ABSENT.
Full-strength statement: `C03_serializable_range` further down — the same serial execution in
which every committed transaction additionally re-runs each of its scans on the abstract map and
must get the same item list (`SerialR`, `scansOk`: for every key not shadowed by the transaction's
own pending writes, returned or absent).  What `C03_serializable` lacks is exactly that: it says
nothing about keys a scan saw absent.  The full statement needs the iterator to record the
scanned range and a conflict rule for ranges (`txnit.tracksRange = true`); the tree does neither
(open finding `scan-phantom-write-skew`, `C03_fails_asis_phantom`).
-/
/-- **Serializability in commit-timestamp order (headline).**  For every history — any number of
transactions, any interleaving of begin / get / scan / set / delete / commit / commitwith /
discard / close / reopen, any limits, any fingerprint function — let `txns` be the transactions
whose commit answered `ok` with pending writes, in commit order (`s.log.reverse`).  Then:

1. their commit versions strictly increase along `txns`;
2. `Serial ∅ txns (amapOf s.log)`: executing them ONE AT A TIME in that order on the abstract map
   `Key → Option Val`, starting from the empty map — each transaction first re-reads every key it
   read from the store in the real history and gets exactly the value it got there, then applies
   all its writes — is possible and ends in the abstract map `amapOf s.log`;
3. that final abstract map is what the real store holds: a read of any key at any timestamp at or
   above the last commit version returns it;
4. no committed transaction had a key it read overwritten by a transaction that committed in
   `(its read timestamp, its commit timestamp)`;
5. and it never will: a live transaction with pending writes one of whose logged reads was
   overwritten by a commit above its read timestamp gets `conflict` from `Commit`. -/
theorem C03_serializable (c : MvccCfg) (hc : c.ConfGood) (fp : Key → Nat) (s : St) (hs : Reach c fp s) :
    s.log.reverse.Pairwise (fun earlier later => earlier.ts < later.ts) ∧
    Serial (fun _ => none) s.log.reverse (amapOf s.log) ∧
    (∀ k r, (∀ cm ∈ s.log, cm.ts ≤ r) → readAt s.store k r = amapOf s.log k) ∧
    NoOverwrite s.log ∧
    (∀ id t, Live s id t → t.writes ≠ [] →
      (∃ cm ∈ s.log, t.readTs < cm.ts ∧ ∃ p ∈ t.rlog, lookupW cm.writes p.1 ≠ none) →
      (step c fp s (.commit id)).2 = .conflict) := by
  have hseed : c.SeedGood := hc.1.2.2.2.2.2.2.2
  have hA := Reach_InvA hseed hs
  have hSer := Reach_InvSer hc hs
  refine ⟨?_, Serial_of_SerialOK s.log hSer.serial, ?_, hSer.noOver, ?_⟩
  · rw [List.pairwise_reverse]; exact hA.logSorted
  · intro k r hr
    rw [C03_store_refines_map c hseed fp s hs k r, filter_all hr]
  · intro id t hl hw ⟨cm, hcm, hts, p, hp, hne⟩
    have hR := Reach_InvR ⟨hc.1.1, hseed⟩ hs
    cases hx : lookupW cm.writes p.1 with
    | none => exact absurd hx hne
    | some v =>
      exact C03_conflict c hc fp s hs id t hl hw cm hcm hts p.1 (hR id t hl p hp).2 ⟨v, lookupW_mem hx⟩

/-- **Serializability with range reads (full statement).**  For the configuration in which scans
track their range (`scanTracksRange`: a transaction that scanned conflicts with every commit above
its read timestamp — the model variant of a range-conflict rule for unbounded scans; the tree has
no such code): for every history, the committed transactions in commit order form a serial
execution on the abstract map in which each transaction's point reads AND each of its scans
return exactly what they returned in the real history — `scansOk`: for every key the scan asked
the store about (every key outside the transaction's own pending writes), returned or absent,
the logged item list agrees with the abstract map at the transaction's commit point — and that
execution ends in the abstract map the store holds. -/
theorem C03_serializable_range (c : MvccCfg) (hc : c.ConfGood ∧ c.RangeGood) (fp : Key → Nat) (s : St)
    (hs : Reach c fp s) :
    s.log.reverse.Pairwise (fun earlier later => earlier.ts < later.ts) ∧
    SerialR (fun _ => none) s.log.reverse (amapOf s.log) ∧
    (∀ k r, (∀ cm ∈ s.log, cm.ts ≤ r) → readAt s.store k r = amapOf s.log k) := by
  obtain ⟨h1, _, h3, _, _⟩ := C03_serializable c hc.1 fp s hs
  exact ⟨h1, SerialR_of_OKs s.log (Reach_InvSer hc.1 hs).serial (Reach_ScanOKs hc.1 hc.2 hs), h3⟩

-- ---------------------------------------------------------------- the as-is tree

def kA : Key := [106]
def kB : Key := [107]
def fpW (k : Key) : Nat := k.length * 1000 + k.headD 0

/-- corpus/C03/finding-readmark-zero.ops (up to the last `set`) -/
def witnessZero : List Op :=
  [.begin 1 true, .get 1 kB, .begin 2 true, .set 2 kB (some [118, 50]), .commit 2,
   .begin 3 true, .set 3 kA (some [120]), .commit 3, .set 1 kB (some [118, 49])]

/-- corpus/C03/finding-readmark-at-doneuntil.ops (up to the last `set`) -/
def witnessAtDone : List Op :=
  [.begin 2 true, .set 2 [97] (some [48]), .commit 2, .begin 3 false, .discard 3,
   .begin 1 true, .get 1 kB, .begin 2 true, .set 2 kB (some [118, 50]), .commit 2,
   .begin 3 false, .discard 3, .begin 2 true, .set 2 kA (some [120]), .commit 2,
   .set 1 kB (some [118, 49])]

def asisZero (holds : Bool) : MvccCfg := { MvccCfg.tree with wmTracksZero := false, wmHoldsAtDone := holds }
def asisAtDone (zero : Bool) : MvccCfg := { MvccCfg.tree with wmTracksZero := zero, wmHoldsAtDone := false }

/-- decidable form of "handle 1 is a live transaction with pending writes that read `kB` from the
store, and a successful commit above its read timestamp wrote `kB`" -/
def witnessCheck (s : St) : Bool :=
  match getTxn s 1 with
  | some t => !t.discarded && !t.writes.isEmpty && t.rkeys.contains kB &&
      s.log.any (fun cm => decide (t.readTs < cm.ts) && cm.writes.any (fun p => p.1 == kB))
  | none => false

theorem refute (c : MvccCfg) (ops : List Op)
    (h2 : witnessCheck (run c fpW (init 64 1048576 1024) ops) = true)
    (h3 : (step c fpW (run c fpW (init 64 1048576 1024) ops) (.commit 1)).2 = .ok) :
    ¬ ConflictDetected c := by
  intro H
  unfold witnessCheck at h2
  cases hg : getTxn (run c fpW (init 64 1048576 1024) ops) 1 with
  | none => rw [hg] at h2; cases h2
  | some t =>
    rw [hg] at h2
    simp only [Bool.and_eq_true, Bool.not_eq_true', List.any_eq_true, decide_eq_true_eq, beq_iff_eq,
      List.contains_iff_mem, List.isEmpty_eq_false_iff] at h2
    obtain ⟨⟨⟨hd, hw⟩, hk⟩, cm, hcm, hts, p, hp, hpk⟩ := h2
    have := H fpW _ ⟨64, 1048576, 1024, ops, rfl⟩ 1 t ⟨hg, hd⟩ hw cm hcm hts kB hk
      ⟨p.2, by rw [← hpk]; exact hp⟩
    rw [this] at h3
    cases h3

/-- **Finding readmark-zero** (as-is: `WaterMark.addIndex` ignores index 0).  On a fresh database
a transaction with read timestamp 0 is not counted by `readMark`; after two later commits the
conflict history it needs has been pruned, and its own commit of a key it read — which was
overwritten at version 1 meanwhile — answers `ok`: a lost update. -/
theorem C03_fails_asis_readmark_zero (c : MvccCfg) (hc : c = asisZero false ∨ c = asisZero true) :
    ¬ ConflictDetected c := by
  rcases hc with rfl | rfl
  · exact refute _ witnessZero (by decide) (by decide)
  · exact refute _ witnessZero (by decide) (by decide)

/-- **Finding readmark-at-doneuntil** (as-is: `WaterMark.tryAdvance` only looks at slot
`doneUntil+1`).  A transaction whose read timestamp equals `readMark.doneUntil` (an earlier
reader with the same read timestamp already finished) does not hold the mark back; the mark
passes it, the history is pruned, and its conflicting commit answers `ok` — also with read
timestamps `≥ 1`, i.e. on any database. -/
theorem C03_fails_asis_readmark_at_doneuntil (c : MvccCfg) (hc : c = asisAtDone false ∨ c = asisAtDone true) :
    ¬ ConflictDetected c := by
  rcases hc with rfl | rfl
  · exact refute _ witnessAtDone (by decide) (by decide)
  · exact refute _ witnessAtDone (by decide) (by decide)

-- non-vacuity: on the same witnesses the repaired configuration answers `conflict`
example : (step MvccCfg.good fpW (run MvccCfg.good fpW (init 64 1048576 1024) witnessZero) (.commit 1)).2 = .conflict := by
  decide
example : (step MvccCfg.good fpW (run MvccCfg.good fpW (init 64 1048576 1024) witnessAtDone) (.commit 1)).2 = .conflict := by
  decide
example : witnessCheck (run MvccCfg.good fpW (init 64 1048576 1024) witnessAtDone) = true := by decide

-- non-vacuity of `C03_serializable`: a reachable history with three committed transactions, two of
-- which logged reads (one through `get`, one through a scan), and one aborted with `conflict`
def serialDemo : List Op :=
  [.begin 1 true, .set 1 kA (some [1]), .commit 1,
   .begin 2 true, .begin 3 true, .get 2 kA, .get 3 kA, .set 2 kA (some [2]), .set 3 kB (some [3]),
   .commit 2, .commit 3,
   .begin 4 true, .scan 4, .set 4 kB none, .commit 4]
example : (run MvccCfg.good fpW (init 64 1048576 1024) serialDemo).log.map (fun cm => cm.ts) = [3, 2, 1] := by decide
example : (run MvccCfg.good fpW (init 64 1048576 1024) serialDemo).log.map (fun cm => cm.readTs) = [2, 1, 0] := by decide
example : (run MvccCfg.good fpW (init 64 1048576 1024) serialDemo).log.map (fun cm => cm.rlog.map (·.1)) = [[kA], [kA], []] := by
  decide
example : (step MvccCfg.good fpW (run MvccCfg.good fpW (init 64 1048576 1024) (serialDemo.take 10)) (.commit 3)).2 = .conflict := by
  decide
-- `Serial` is not trivially true: a log whose second transaction read `kA = none` after the first wrote it
example (m' : AMap) : ¬ Serial (fun _ => none)
    [{ ts := 1, readTs := 0, writes := [(kA, some [1])], rlog := [], slog := [] },
     { ts := 2, readTs := 0, writes := [(kB, some [2])], rlog := [(kA, none)], slog := [] }] m' := by
  rintro ⟨_, h2, _⟩
  have := h2 (kA, none) List.mem_cons_self
  revert this
  decide
-- and on the pre-fix configuration the lost-update witness ends in a log that is NOT serial
example : ¬ SerialOK (run (asisZero false) fpW (init 64 1048576 1024) (witnessZero ++ [.commit 1])).log := by
  intro h
  have h1 : readsOk _ _ := (show SerialOK (_ :: _) from h).1
  have := h1 (kB, none) (by decide)
  revert this
  decide

/-- corpus/C03/finding-scan-phantom-write-skew.ops (up to the two commits) -/
def witnessPhantom : List Op :=
  [.begin 1 true, .begin 2 true, .scan 1, .scan 2, .set 1 [97] (some [49]), .set 2 [98] (some [50]),
   .commit 1, .commit 2]

/-- decidable form of: the log holds exactly two transactions, and each of them scanned and saw
nothing for a key the other one wrote -/
def phantomCheck (log : List Commit) : Bool :=
  match log with
  | [b, a] => sawNothingOf a b && sawNothingOf b a
  | _ => false

/-- **Finding scan-phantom-write-skew** (tree as it is: `TxnIterator.advance` fingerprints returned
items only, nothing records the scanned range).  Two update transactions scan the empty key
space, then each writes a different key; BOTH commits answer `ok`, and the two committed
transactions have no serial order at all in which their scans return what they returned
(in either order the second one's scan would have returned the first one's key): write skew
through a phantom. -/
theorem C03_fails_asis_phantom (c : MvccCfg) (hc : c = MvccCfg.tree) :
    (step c fpW (run c fpW (init 64 1048576 1024) (witnessPhantom.take 6)) (.commit 1)).2 = .ok ∧
    (step c fpW (run c fpW (init 64 1048576 1024) (witnessPhantom.take 7)) (.commit 2)).2 = .ok ∧
    ∃ a b, (run c fpW (init 64 1048576 1024) witnessPhantom).log = [b, a] ∧
      (∀ m', ¬ SerialR (fun _ => none) [a, b] m') ∧ (∀ m', ¬ SerialR (fun _ => none) [b, a] m') := by
  subst hc
  refine ⟨by decide, by decide, ?_⟩
  have hchk : phantomCheck (run MvccCfg.tree fpW (init 64 1048576 1024) witnessPhantom).log = true := by decide
  generalize (run MvccCfg.tree fpW (init 64 1048576 1024) witnessPhantom).log = log at hchk
  match log, hchk with
  | [b, a], hchk =>
    simp only [phantomCheck, Bool.and_eq_true] at hchk
    exact ⟨a, b, rfl, fun m' => not_after b a hchk.2 m', fun m' => not_after a b hchk.1 m'⟩

-- non-vacuity: in the range-tracking variant the second commit of the same witness answers `conflict`,
-- and a scan followed by no interfering commit still commits
example : (step MvccCfg.good fpW (run MvccCfg.good fpW (init 64 1048576 1024) (witnessPhantom.take 7)) (.commit 2)).2 = .conflict := by
  decide
example : (step MvccCfg.good fpW (run MvccCfg.good fpW (init 64 1048576 1024) (witnessPhantom.take 6)) (.commit 1)).2 = .ok := by
  decide
example : ((run MvccCfg.good fpW (init 64 1048576 1024) serialDemo).log.map (fun cm => cm.slog.length)) = [1, 0, 0] := by
  decide

end NoKV.Props.C03

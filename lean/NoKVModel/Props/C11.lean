/-
C11 — Once reopened, contents change only through new client writes.

Here: the value-log part of the property (value-log GC and reopen/reconcile on a recovered state).
Flush, compaction and WAL GC act on the LSM, which this model keeps abstract (C01/C02, C36).

A recovered state is ANY state satisfying the invariant `WF` (every pointer the map holds is readable
and designates a record of its own key and version).  Such a state may contain value-log records that
no pointer references — bytes of a write whose commit never reached the WAL (`Op.orphan`): the liveness
test of GC has to reject them.

  * `C11_maintenance_stable`   (headline, liveness = pointer equality): any number of GC runs of any
    files from any such state leave every read unchanged;
  * `C11_recovered_states_wf`: every state reachable through writes, interrupted writes and GC runs is
    such a state (as-is and repaired comparison);
  * `C11_reopen_stable_partial`, `C11_maintenance_with_reopen_partial`: reopen steps included, under
    the hypothesis `Tracked` (reconcileManifest keeps the file of every pointer the map holds) at each
    reopen.  MISSING for the full statement: the proof that `Tracked` holds in every reachable state
    (the manifest bookkeeping of updateHead / LogValueLogDelete); the correspondence compares the file
    list and the manifest status with the model after every reopen instead.
  * `C11_fails_asis_unacked`: as-is (`Fid >`, `Offset >`) a never-acknowledged value is brought to
    life by GC and survives the next reopen (corpus/C11/finding-gc-resurrects-unacked.ops).
-/
import NoKVModel.Vlog.ReopenLemmas
import NoKVModel.Props.C08

namespace NoKV.Props.C11
open NoKV NoKV.Vlog

/-- maintenance on the value log -/
inductive Maint where
  | gc (b f : Nat)
  | reopen
  deriving Repr

def Maint.apply (c : VCfg) (s : St) : Maint → St
  | .gc b f => (Vlog.gc c s b f).1
  | .reopen => Vlog.reopen s

def runM (c : VCfg) (s : St) (m : List Maint) : St := m.foldl (Maint.apply c) s

/-- GC-only schedules: for every recovered state `r` (unreferenced records included) and every
    sequence of GC runs of any files, `contents (run m r) = contents r` -/
theorem C11_maintenance_stable (c : VCfg) (hc : c.LiveEq) (r : St) (hr : WF r) (m : List (Nat × Nat)) (k : Bytes) (v : Nat) :
    readKV (C08.gcAll c r m) k v = readKV r k v :=
  (C08.C08_gc_sequence_preserves c hc r hr m).1 k v

/-- every state reachable by writes, interrupted writes (unreferenced bytes) and GC runs satisfies `WF` -/
theorem C11_recovered_states_wf (c : VCfg) (hc : c.LiveSeq) (P : Params) (ops : List Op) : WF (run c (St.init P) ops) :=
  C08.C08_pointers_readable c hc P ops

/-- PARTIAL: one reopen, assuming reconcile keeps the files the map points into -/
theorem C11_reopen_stable_partial (c : VCfg) (_hc : c.Any) (s : St) (hs : WF s) (ht : Tracked s) :
    (∀ k v, readKV (reopen s) k v = readKV s k v) ∧ WF (reopen s) ∧ Tracked (reopen s) :=
  ⟨fun k v => read_reopen ht k v, wf_reopen hs ht, tracked_reopen ht⟩

/-- `Tracked` holds whenever the schedule reaches a reopen -/
def TrackedAt (c : VCfg) : St → List Maint → Prop
  | _, [] => True
  | s, .reopen :: rest => Tracked s ∧ TrackedAt c (Vlog.reopen s) rest
  | s, .gc b f :: rest => TrackedAt c (Vlog.gc c s b f).1 rest

/-- PARTIAL: any schedule of GC runs and reopens, assuming `Tracked` at each reopen -/
theorem C11_maintenance_with_reopen_partial (c : VCfg) (hc : c.LiveEq) (r : St) (hr : WF r) (m : List Maint)
    (ht : TrackedAt c r m) : (∀ k v, readKV (runM c r m) k v = readKV r k v) ∧ WF (runM c r m) := by
  induction m generalizing r with
  | nil => exact ⟨fun _ _ => rfl, hr⟩
  | cons x xs ih =>
    cases x with
    | gc b f =>
      obtain ⟨h1, h2⟩ := C08.C08_gc_preserves c hc r hr b f
      obtain ⟨h3, h4⟩ := ih (Vlog.gc c r b f).1 h2 ht
      exact ⟨fun k v => by simp only [runM, List.foldl_cons, Maint.apply] at h3 ⊢; rw [h3 k v, h1 k v], h4⟩
    | reopen =>
      obtain ⟨ht1, ht2⟩ := ht
      obtain ⟨h3, h4⟩ := ih (Vlog.reopen r) (wf_reopen hr ht1) ht2
      exact ⟨fun k v => by simp only [runM, List.foldl_cons, Maint.apply] at h3 ⊢; rw [h3 k v, read_reopen ht1 k v], h4⟩

/-! ### as-is: witness -/

/-- set 01 = 01010101 (acknowledged); a second write of 01 = 02020202 reaches the value log only
    (process crash before applyRequests); reopen; one more write rotates the value log -/
def crashWitness (c : VCfg) : St :=
  let s1 := put c (St.init ⟨4, 90, 1⟩) [1] maxU64 [1, 1, 1, 1] false 0
  let s2 := reopen (orphan c s1 [1] maxU64 [2, 2, 2, 2] 0)
  put c s2 [3] maxU64 [3, 3, 3, 3] false 0

theorem C11_fails_asis_unacked (c : VCfg) (hc : c.LiveGt ∧ c.WritePath) :
    readKV (crashWitness c) [1] maxU64 = .val [1, 1, 1, 1] ∧
    readKV (gc c (crashWitness c) 0 0).1 [1] maxU64 = .val [2, 2, 2, 2] ∧
    readKV (reopen (gc c (crashWitness c) 0 0).1) [1] maxU64 = .val [2, 2, 2, 2] := by
  obtain ⟨⟨h1, h2, h3, h6⟩, h4, h5⟩ := hc
  cases c with
  | mk t r f o b p ml =>
    simp only at h1 h2 h3 h4 h5 h6
    subst h1 h2 h3 h4 h5 h6
    cases p <;> decide

end NoKV.Props.C11

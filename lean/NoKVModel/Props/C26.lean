/-
C26  PD routes every key to the unique region containing it.

Only property theorems, their non-vacuity examples, and the `…_fails_asis` / `…_partial`
theorems live here; helper lemmas are in `Region/PDLemmas.lean`.
Every theorem takes the configuration `c` (facts extracted from `pd/core/cluster.go`) and a
decidable hypothesis about it first, so `Generated/Status_C26.lean` can instantiate it at
`currentCfg` with `by decide`.
-/
import NoKVModel.Region.PDLemmas

namespace NoKV.Props.C26
open NoKV NoKV.Region

/-- lexicographic staleness on (version, conf-version) -/
def staleSpec (inc cur : Epoch) : Prop :=
  inc.ver < cur.ver ∨ (inc.ver = cur.ver ∧ inc.conf < cur.conf)

/-- **Acceptance rule.**  On any catalog state reached by any heartbeat/removal history, a
heartbeat is accepted iff its id is non-zero, its range is proper, it is not epoch-stale
against the entry with its id, and its range shares no key with any other known region. -/
theorem C26_accept_iff (c : PDCfg) (hc : c.Good) (ops : List Op) (m : Meta) :
    (upsert c (run c ops) m).2 = .ok ↔
      (m.id ≠ 0 ∧ proper m ∧
       (∀ cur ∈ run c ops, cur.id = m.id → ¬ staleSpec m.epoch cur.epoch) ∧
       (∀ o ∈ run c ops, o.id ≠ m.id → ¬ ∃ k, contains m k ∧ contains o k)) := by
  obtain ⟨hops, hrej⟩ := hc
  have hP : AllProper (run c ops) := proper_foldl c ops (Or.inl hrej) (by intro a ha; simp at ha)
  obtain ⟨hv, hcf, _, _⟩ := hops
  constructor
  · intro h
    obtain ⟨h0, hinv, hst, hov, _⟩ := upsert_ok_shape c _ m h
    have hpm : proper m := by
      apply proper_of_not_inverted
      cases hi : inverted m
      · rfl
      · exact absurd ⟨hrej, hi⟩ hinv
    refine ⟨h0, hpm, ?_, ?_⟩
    · intro cur hcur hid hs
      unfold staleHit at hst
      rw [List.any_eq_false] at hst
      have := hst cur hcur
      simp only [hid, decide_true, Bool.true_and, isStale, hv, hcf, CmpOp.nat, CmpOp.eval] at this
      rcases hs with hs | ⟨hs1, hs2⟩
      · simp [hs] at this
      · simp [hs1, hs2] at this
    · intro o ho hne hex
      unfold overlapHit at hov
      rw [List.any_eq_false] at hov
      have := hov o ho
      rw [overlap_good c ⟨hv, hcf, ‹_›, ‹_›⟩] at this
      have hov2 := (overlapG_iff m o hpm (hP o ho)).mpr hex
      simp [hne, hov2] at this
  · rintro ⟨h0, hpm, hst, hov⟩
    unfold upsert
    have h1 : ¬ (c.rejectsInverted = true ∧ inverted m = true) := by
      rintro ⟨_, hi⟩
      unfold inverted at hi
      rcases hpm with hpm | hpm
      · simp [hpm] at hi
      · simp [Bytes.le, hpm] at hi
    have h2 : staleHit c (run c ops) m = false := by
      unfold staleHit
      rw [List.any_eq_false]
      intro cur hcur
      by_cases hid : cur.id = m.id
      · have := hst cur hcur hid
        unfold staleSpec at this
        simp only [hid, decide_true, Bool.true_and, isStale, hv, hcf, CmpOp.nat, CmpOp.eval]
        simp only [not_or, not_and] at this
        obtain ⟨t1, t2⟩ := this
        simp only [Bool.not_eq_true, Bool.or_eq_false_iff, decide_eq_false_iff_not,
          Bool.and_eq_false_imp, beq_iff_eq]
        exact ⟨t1, t2⟩
      · simp [hid]
    have h3 : overlapHit c (run c ops) m = false := by
      unfold overlapHit
      rw [List.any_eq_false]
      intro o ho
      by_cases hne : o.id = m.id
      · simp [hne]
      · have := hov o ho hne
        rw [overlap_good c ⟨hv, hcf, ‹_›, ‹_›⟩]
        have hn : overlapG m o ≠ true := fun h => this ((overlapG_iff m o hpm (hP o ho)).mp h)
        simp [hne, hn]
    rw [if_neg h0, if_neg h1, h2, h3]
    simp

/-- **Catalog invariant.**  After any history: ids are unique and non-zero, every range is
proper, and no key lies in two known regions. -/
theorem C26_invariant (c : PDCfg) (hc : c.Good) (ops : List Op) :
    (∀ a ∈ run c ops, ∀ b ∈ run c ops, a.id = b.id → a = b) ∧
    (∀ a ∈ run c ops, a.id ≠ 0 ∧ proper a) ∧
    (∀ a ∈ run c ops, ∀ b ∈ run c ops, a ≠ b → ¬ ∃ k, contains a k ∧ contains b k) := by
  obtain ⟨hops, hrej⟩ := hc
  have hI := inv_run c hops ops
  have hP : AllProper (run c ops) := proper_foldl c ops (Or.inl hrej) (by intro a ha; simp at ha)
  refine ⟨hI.uniq, fun a ha => ⟨hI.nonzero a ha, hP a ha⟩, ?_⟩
  intro a ha b hb hne ⟨k, hka, hkb⟩
  exact hne (contains_unique _ hI hP k a b ha hb hka hkb)

/-- **Route lookup.**  After any history, a lookup returns exactly the known region whose
range contains the key, and nothing if no region does. -/
theorem C26_lookup (c : PDCfg) (hc : c.Good) (ops : List Op) (key : Bytes) :
    (∀ m, lookup c (run c ops) key = some m ↔ (m ∈ run c ops ∧ contains m key)) ∧
    (lookup c (run c ops) key = none ↔ ∀ m ∈ run c ops, ¬ contains m key) := by
  obtain ⟨hops, hrej⟩ := hc
  have hI := inv_run c hops ops
  have hP : AllProper (run c ops) := proper_foldl c ops (Or.inl hrej) (by intro a ha; simp at ha)
  have h1 : ∀ m, lookup c (run c ops) key = some m ↔ (m ∈ run c ops ∧ contains m key) := by
    intro m
    constructor
    · exact lookup_sound c hops _ key m
    · rintro ⟨hm, hk⟩; exact lookup_complete c hops _ hI hP key m hm hk
  refine ⟨h1, ?_⟩
  constructor
  · intro hnone m hm hk
    have := (h1 m).mpr ⟨hm, hk⟩
    rw [hnone] at this; exact absurd this (by simp)
  · intro hall
    cases hl : lookup c (run c ops) key with
    | none => rfl
    | some e =>
      obtain ⟨he, hk⟩ := (h1 e).mp hl
      exact absurd hk (hall e he)

/-- The executable spec used by the correspondence check (`specLookup`) agrees with the
set-theoretic statement above: it has at most one element and `lookup` returns its head. -/
theorem C26_lookup_eq_spec (c : PDCfg) (hc : c.Good) (ops : List Op) (key : Bytes) :
    lookup c (run c ops) key = (specLookup (run c ops) key).head? ∧
    (specLookup (run c ops) key).length ≤ 1 := by
  obtain ⟨hops, hrej⟩ := hc
  have hI := inv_run c hops ops
  have hP : AllProper (run c ops) := proper_foldl c ops (Or.inl hrej) (by intro a ha; simp at ha)
  have hmem : ∀ m, m ∈ specLookup (run c ops) key ↔ (m ∈ run c ops ∧ contains m key) := by
    intro m; simp [specLookup, List.mem_filter]
  have hlen : (specLookup (run c ops) key).length ≤ 1 := by
    match hs : specLookup (run c ops) key with
    | [] => simp
    | [_] => simp
    | a :: b :: rest =>
      exfalso
      have ha : a ∈ specLookup (run c ops) key := by rw [hs]; simp
      have hb : b ∈ specLookup (run c ops) key := by rw [hs]; simp
      obtain ⟨ha1, ha2⟩ := (hmem a).mp ha
      obtain ⟨hb1, hb2⟩ := (hmem b).mp hb
      have hab := contains_unique _ hI hP key a b ha1 hb1 ha2 hb2
      -- a filtered sublist of a list with unique ids cannot repeat an element
      have hnd : (specLookup (run c ops) key).Pairwise (fun x y => x.id ≠ y.id) := by
        unfold specLookup
        apply List.Pairwise.filter
        exact hI.nodup
      rw [hs] at hnd
      have := (List.pairwise_cons.mp hnd).1 b (by simp)
      exact this (by rw [hab])
  refine ⟨?_, hlen⟩
  match hs : specLookup (run c ops) key with
  | [] =>
    simp only [List.head?_nil]
    cases hl : lookup c (run c ops) key with
    | none => rfl
    | some e =>
      have := lookup_sound c hops _ key e hl
      have : e ∈ specLookup (run c ops) key := (hmem e).mpr this
      rw [hs] at this; simp at this
  | a :: _ =>
    simp only [List.head?_cons]
    have ha : a ∈ specLookup (run c ops) key := by rw [hs]; simp
    obtain ⟨ha1, ha2⟩ := (hmem a).mp ha
    exact lookup_complete c hops _ hI hP key a ha1 ha2

/-- **Reload.**  A restart (load the persisted regions, re-upsert them in id order, as
`cmd/nokv/pd.go` does) rebuilds exactly the catalog — whatever the history, and whether or not
inverted ranges are rejected. -/
theorem C26_reload (c : PDCfg) (hc : c.OpsGood) (ops : List Op) :
    ∀ x, x ∈ restart c (run c ops) ↔ x ∈ run c ops :=
  restart_mem c hc _ (inv_run c hc ops)
    (fun hr => proper_foldl c ops (Or.inl hr) (by intro a ha; simp at ha))

/-! ### as-is: inverted ranges are accepted (finding `pd-inverted-range`) -/

/-- What still holds when inverted ranges are *not* rejected: uniqueness and pairwise
`rangesOverlap`-disjointness always; lookups are sound; and lookups are complete on every
history that never sends an inverted range. -/
theorem C26_partial (c : PDCfg) (hc : c.OpsGood) (ops : List Op) (key : Bytes) :
    (∀ m, lookup c (run c ops) key = some m → (m ∈ run c ops ∧ contains m key)) ∧
    ((∀ op ∈ ops, OpProper op) →
      ∀ m ∈ run c ops, contains m key → lookup c (run c ops) key = some m) := by
  have hI := inv_run c hc ops
  refine ⟨fun m => lookup_sound c hc _ key m, ?_⟩
  intro hops m hm hk
  have hP : AllProper (run c ops) := proper_foldl c ops (Or.inr hops) (by intro a ha; simp at ha)
  exact lookup_complete c hc _ hI hP key m hm hk

def witnessOps : List Op :=
  [ .hb { id := 1, start := [0x63], end_ := [0x7a], epoch := ⟨1, 1⟩ },      -- [c, z)
    .hb { id := 2, start := [0x6d], end_ := [0x62], epoch := ⟨1, 1⟩ } ]      -- [m, b)  inverted

/-- With `rejectsInverted = false` (the pinned tree), an accepted inverted range hides the
region that contains the key: region 1 = [c,z) contains "n", the lookup answers not-found. -/
theorem C26_fails_asis_inverted (c : PDCfg) (hc : c = { PDCfg.good with rejectsInverted := false }) :
    ∃ m ∈ run c witnessOps, contains m [0x6e] ∧ lookup c (run c witnessOps) [0x6e] = none := by
  subst hc
  refine ⟨{ id := 1, start := [0x63], end_ := [0x7a], epoch := ⟨1, 1⟩ }, ?_, ?_, ?_⟩ <;> decide

/-! ### non-vacuity -/

example : PDCfg.good.Good := by decide

/-- a non-trivial reachable catalog under the good configuration, with a successful lookup -/
example :
    (run PDCfg.good
      [ .hb { id := 1, start := [], end_ := [0x6d], epoch := ⟨1, 1⟩ },
        .hb { id := 2, start := [0x6d], end_ := [], epoch := ⟨1, 1⟩ },
        .hb { id := 3, start := [0x61], end_ := [0x7a], epoch := ⟨1, 1⟩ },   -- rejected: overlap
        .rm 7 ]).length = 2
    ∧ (lookup PDCfg.good
        (run PDCfg.good
          [ .hb { id := 1, start := [], end_ := [0x6d], epoch := ⟨1, 1⟩ },
            .hb { id := 2, start := [0x6d], end_ := [], epoch := ⟨1, 1⟩ } ]) [0x6e]).map (·.id) = some 2 := by
  decide

end NoKV.Props.C26

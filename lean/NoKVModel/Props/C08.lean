/-
C08 — Value-log separation and GC never change or lose a live value.

Model: NoKVModel/Vlog/Model.lean (value log = files of records with byte offsets, LSM = abstract
versioned map holding inline values or pointers).  Helper lemmas: Vlog/FileLemmas.lean, Vlog/GcLemmas.lean.

Sequential statement (GC runs between client calls):
  * `C08_read_roundtrip`, `C08_delete_reads_tombstone`, `C08_write_frame`: a write reads back byte for
    byte for every value size, bucket count, file size and rotation pattern, and disturbs no other read;
  * `C08_pointers_readable`: in every state reachable by any sequence of writes, deletes, GC runs of any
    file and interrupted writes, every pointer the map holds is readable and designates a record of its
    own key and version (holds for the as-is and for the repaired liveness comparison);
  * `C08_gc_preserves`, `C08_gc_sequence_preserves`: with liveness = pointer equality, one GC run — and
    any number of GC runs — of ANY file from ANY well-formed state leaves every read unchanged.
As-is (`Fid >`, `Offset >`): `C08_gc_fails_asis_unacked` — a record the map does not reference (left by
an interrupted write) that lies behind the referenced one is re-inserted and replaces the live value.
Concurrent window: `C08_gc_concurrent_fails_asis` (a client overwrite between the liveness test and
the re-insert is shadowed by the stale value: same internal key) and `C08_gc_concurrent_partial`
(reads are unchanged when the interleaved writes use (key, version) pairs no re-inserted record has,
i.e. transactional keys whose every write has a fresh version).

NOT covered by a theorem here (stated so that the level note can say it): the as-is comparison on
crash-free histories (no unreferenced record behind a referenced one) is only exercised by the
correspondence; reopen is treated in C11.
-/
import NoKVModel.Vlog.ReopenLemmas

namespace NoKV.Props.C08
open NoKV NoKV.Vlog

/-- `read (write v) = v` for every state (any number of buckets, files, rotations), every key, version,
    value size (inline or out of line) and every threshold / rotation operator. -/
theorem C08_read_roundtrip (c : VCfg) (_hc : c.Any) (s : St) (k : Bytes) (ver : Nat) (val : Bytes) (h : Nat) :
    readKV (put c s k ver val false h) k ver = .val val :=
  read_put c s k ver val h

theorem C08_delete_reads_tombstone (c : VCfg) (_hc : c.Any) (s : St) (k : Bytes) (ver : Nat) (val : Bytes) (h : Nat) :
    readKV (put c s k ver val true h) k ver = .tomb :=
  read_del c s k ver val h

/-- a write (with whatever appends and rotations it causes) changes no read of another key, nor of
    the same key below the written version -/
theorem C08_write_frame (c : VCfg) (_hc : c.Any) (s : St) (hs : WF s) (k : Bytes) (ver : Nat) (val : Bytes) (del : Bool)
    (h : Nat) (k' : Bytes) (v' : Nat) (hne : ¬ (k = k' ∧ ver ≤ v')) :
    readKV (put c s k ver val del h) k' v' = readKV s k' v' :=
  read_put_frame c hs k ver val del h k' v' hne

theorem wf_init (P : Params) : WF (St.init P) := by
  intro k w p ⟨e, he, _⟩
  simp [St.init, exact] at he

theorem wf_apply {c : VCfg} (hc : c.LiveSeq) {s : St} (h : WF s) (op : Op) : WF (op.apply c s) := by
  cases op with
  | put k ver val del hh => exact wf_put c h k ver val del hh
  | orphan k ver val hh => exact wf_orphan c h k ver val hh
  | gc b f => exact wf_gc hc h b f

theorem wf_run {c : VCfg} (hc : c.LiveSeq) {s : St} (h : WF s) (ops : List Op) : WF (run c s ops) := by
  induction ops generalizing s with
  | nil => exact h
  | cons op rest ih => exact ih (wf_apply hc h op)

/-- never "makes a live value unreadable": after ANY sequence of writes, deletes, interrupted writes and
    GC runs of any file, every pointer held by the map reads a record of its own key and version.
    Holds for the as-is comparison and for the repaired one. -/
theorem C08_pointers_readable (c : VCfg) (hc : c.LiveSeq) (P : Params) (ops : List Op) :
    WF (run c (St.init P) ops) :=
  wf_run hc (wf_init P) ops

/-- one GC run of any file, from any well-formed state (unreferenced records included), with
    liveness = pointer equality: every read unchanged, invariant kept -/
theorem C08_gc_preserves (c : VCfg) (hc : c.LiveEq) (s : St) (hs : WF s) (b f : Nat) :
    (∀ k v, readKV (gc c s b f).1 k v = readKV s k v) ∧ WF (gc c s b f).1 :=
  ⟨fun k v => read_gc hc hs b f k v, wf_gc ⟨Or.inl ⟨hc.1, hc.2.1⟩, hc.2.2.1, hc.2.2.2⟩ hs b f⟩

def gcAll (c : VCfg) (s : St) (l : List (Nat × Nat)) : St := l.foldl (fun s x => (gc c s x.1 x.2).1) s

/-- GC "whenever and however often it runs": any number of runs, any files, any order -/
theorem C08_gc_sequence_preserves (c : VCfg) (hc : c.LiveEq) (s : St) (hs : WF s) (l : List (Nat × Nat)) :
    (∀ k v, readKV (gcAll c s l) k v = readKV s k v) ∧ WF (gcAll c s l) := by
  induction l generalizing s with
  | nil => exact ⟨fun _ _ => rfl, hs⟩
  | cons x xs ih =>
    obtain ⟨h1, h2⟩ := C08_gc_preserves c hc s hs x.1 x.2
    obtain ⟨h3, h4⟩ := ih (gc c s x.1 x.2).1 h2
    exact ⟨fun k v => by simp only [gcAll, List.foldl_cons] at h3 ⊢; rw [h3 k v, h1 k v], h4⟩

/-- reachable states + any GC schedule: reads after the GC runs = reads before -/
theorem C08_gc_anytime (c : VCfg) (hc : c.LiveEq) (P : Params) (ops : List Op) (l : List (Nat × Nat)) (k : Bytes) (v : Nat) :
    readKV (gcAll c (run c (St.init P) ops) l) k v = readKV (run c (St.init P) ops) k v :=
  (C08_gc_sequence_preserves c hc _ (wf_run ⟨Or.inl ⟨hc.1, hc.2.1⟩, hc.2.2.1, hc.2.2.2⟩ (wf_init P) ops) l).1 k v

/-! ### the as-is comparison: witness (corpus/C08/finding-gc-resurrects-unacked.ops) -/

def unackedWitness (c : VCfg) : St :=
  run c (St.init ⟨4, 90, 1⟩)
    [.put [1] maxU64 [1, 1, 1, 1] false 0, .orphan [1] maxU64 [2, 2, 2, 2] 0, .put [3] maxU64 [3, 3, 3, 3] false 0]

/-- as-is (`Fid >`, `Offset >`): GC of file 0 replaces the acknowledged value 01010101 of key 01 by the
    never-acknowledged 02020202 -/
theorem C08_gc_fails_asis_unacked (c : VCfg) (hc : c.LiveGt ∧ c.WritePath) :
    readKV (unackedWitness c) [1] maxU64 = .val [1, 1, 1, 1] ∧
    readKV (gc c (unackedWitness c) 0 0).1 [1] maxU64 = .val [2, 2, 2, 2] := by
  obtain ⟨⟨h1, h2, h3, h6⟩, h4, h5⟩ := hc
  cases c with
  | mk t r f o b p ml =>
    simp only at h1 h2 h3 h4 h5 h6
    subst h1 h2 h3 h4 h5 h6
    cases p <;> decide

/-! ### the miss branch made live (seeded shape): witness (corpus/C08/ghost-orphan.ops) -/

def ghostWitness (c : VCfg) : St :=
  run c (St.init ⟨4, 90, 1⟩)
    [.put [1] maxU64 [1, 1, 1, 1] false 0, .orphan [7] maxU64 [2, 2, 2, 2] 0, .put [3] maxU64 [3, 3, 3, 3] false 0]

/-- if a scanned record whose key the map does not hold at all counts as live, GC turns "not found"
    into a never-acknowledged value -/
theorem C08_gc_fails_miss_live (c : VCfg) (hc : c.MissLive ∧ c.WritePath) :
    readKV (ghostWitness c) [7] maxU64 = .notfound ∧
    readKV (gc c (ghostWitness c) 0 0).1 [7] maxU64 = .val [2, 2, 2, 2] := by
  obtain ⟨⟨h1, h2, h3, h6⟩, h4, h5⟩ := hc
  cases c with
  | mk t r f o b p ml =>
    simp only at h1 h2 h3 h4 h5 h6
    subst h1 h2 h3 h4 h5 h6
    cases p <;> decide

/-! ### the concurrent window -/

def concWitness (c : VCfg) : St :=
  run c (St.init ⟨4, 90, 1⟩)
    [.put [1] maxU64 [1, 1, 1, 1] false 0, .put [3] maxU64 [3, 3, 3, 3] false 0,
     .put [3] maxU64 [4, 4, 4, 4] false 0, .put [3] maxU64 [5, 5, 5, 5] false 0]

/-- a client overwrite of key 01 (acknowledged, value 09090909) lands between rewrite's liveness test
    and its re-insert; the re-insert uses the same internal key (same version for non-transactional
    keys), lands later and wins: the read returns the overwritten value.  Holds for the as-is and for
    the repaired comparison (corpus/C08/finding-gc-concurrent-overwrite.ops). -/
theorem C08_gc_concurrent_fails_asis (c : VCfg) (hc : c.LiveSeq ∧ c.WritePath) :
    readKV (run c (concWitness c) [.put [1] maxU64 [9, 9, 9, 9] false 0]) [1] maxU64 = .val [9, 9, 9, 9] ∧
    readKV (gcInterleaved c (concWitness c) 0 0 [.put [1] maxU64 [9, 9, 9, 9] false 0]) [1] maxU64 = .val [1, 1, 1, 1] := by
  obtain ⟨⟨hops, h3, h6⟩, h4, h5⟩ := hc
  cases c with
  | mk t r f o b p ml =>
    simp only at hops h3 h4 h5 h6
    subst h3 h4 h5 h6
    rcases hops with ⟨h1, h2⟩ | ⟨h1, h2⟩ <;> subst h1 h2 <;> cases p <;> decide

/-- PARTIAL (the full property fails, see above): when the client calls that land between rewrite's
    liveness tests and its re-inserts are writes under (key, version) pairs that no re-inserted record
    has — transactional keys, whose every write carries a fresh commit version — or interrupted writes,
    the re-inserts change no read and keep every pointer readable.
    Missing for the full property: non-transactional keys reuse one version, so an overwrite in the
    window IS shadowed (`C08_gc_concurrent_fails_asis`). -/
theorem C08_gc_concurrent_partial (c : VCfg) (hc : c.LiveEq) (s : St) (hs : WF s) (b f : Nat) (mid : List Op)
    (hfresh : ∀ op, op ∈ mid → Fresh (gcLive c s b f) op) :
    (∀ k v, readKV (gcInterleaved c s b f mid) k v = readKV (run c s mid) k v) ∧ WF (gcInterleaved c s b f mid) := by
  have hseq : c.LiveSeq := ⟨Or.inl ⟨hc.1, hc.2.1⟩, hc.2.2.1, hc.2.2.2⟩
  have hwf : WF (run c s mid) := wf_run hseq hs mid
  have hl := livePre_run (c := c) mid hfresh (fun r hr => livePre_of_selected hc hs hr)
  have hr := reinsert_spec c (run c s mid) b f (gcLive c s b f)
  exact ⟨fun k v => read_reinserted hwf hr hl k v, wf_reinserted hwf hr⟩

end NoKV.Props.C08

/-
C06  Iterators return exactly the live snapshot in order, honouring options.

Only property theorems, non-vacuity examples, `…_partial` and `…_fails_asis_…` theorems live here;
helper lemmas are in `NoKVModel/Iter/*Lemmas.lean`, `DbMachine.lean`, `DbHeadline.lean`, `TxnStream.lean`,
`TxnMachine.lean`, `TxnHeadline.lean`.

Model: `NoKVModel/Iter/Model.lean` (iterator stack as written, flags in `IterCfg`);
specification: `NoKVModel/Iter/Spec.lean` (`snapshotOf`, `specTxnList`, `specDbList`, `runSpec`:
defined from the property statement over the abstract snapshot, no cursor mechanics).

What is proved for EVERY well-formed source set, option record and cursor-operation sequence
(good configuration; the defects of the unchanged tree are hypotheses on flags, each with its
negation on a corpus witness):
  * `C06_merge_first_wins`, `C06_merge_strictly_sorted` — the merge-iterator tree over sorted,
    internally duplicate-free sources is the sorted union with first-source-wins, in both directions;
  * `C06_concat_seek` — `ConcatIterator.Seek` over the disjoint tables of a level = `dropWhile` of the
    concatenation (both directions);
  * `C06_db_iter` — HEADLINE for `DB.NewIterator` (memtables, level-0 tables and the concat iterator
    of a deeper level);
  * `C06_txn_iter` — HEADLINE for `Txn.NewIterator` / `Txn.NewKeyIterator`: every transaction
    (read timestamp, pending writes incl. deletes and expired entries), every option record
    (forward/reverse, lower/upper bound, prefix or exact key, since-ts, one version per key or all
    versions) and every sequence of `Rewind` / `Seek k` / `Next`;
  * `C06_fails_asis_…` negations, one per defect found on the pinned tree, on the corpus witnesses
    (`txnit-reverse-oldest-version` is still open: `revGroup = newest` is a hypothesis of
    `C06_txn_iter`, no such code exists yet).
-/
import NoKVModel.Iter.DbHeadline
import NoKVModel.Iter.TxnHeadline

namespace NoKV.Props.C06
open NoKV NoKV.Iter

/-- close a goal about a concrete witness for every value of the flags the hypothesis leaves open -/
macro "witness_cases" c:ident hc:ident : tactic => `(tactic| (
  obtain ⟨adv, imm, pc, lks, rg, rst, dsd, sft, o1, o2, o3, o4, o5, o6, o7, o8, o9, o10, o11, o12, o13⟩ := $c
  simp only [IterCfg.OpsGood, IterCfg.ConcatGood] at $hc:ident
  obtain ⟨h0, ⟨h1, h2, h3, h4, h5, h6, h7, h8, h9, h10, h11⟩, hadv, h12, h13⟩ := $hc
  subst h1 h2 h3 h4 h5 h6 h7 h8 h9 h10 h11 hadv h12 h13
  cases imm <;> cases pc <;> cases lks <;> cases rg <;> cases rst <;> cases dsd <;> cases sft <;>
    first | (exact absurd h0 (by decide)) | decide))

/-! ### merge iterators -/

/-- **Merge lemma.**  For sources that are `compareKeys`-sorted (hence internally duplicate-free),
listed from most to least recent, the tree of merge iterators yields exactly the snapshot —
the sorted union in which every internal key carries the entry of the FIRST source holding it —
forwards, and its reverse when every child iterates in reverse. -/
theorem C06_merge_first_wins (c : IterCfg) (hc : c.MergeGood) (srcs : List (List Ent))
    (hs : ∀ s ∈ srcs, List.Pairwise (fun a b => ikLt a b = true) s) :
    mergeTree c.eqKeyAdvances false srcs = snapshotOf srcs ∧
    mergeTree c.eqKeyAdvances true (srcs.map List.reverse) = (snapshotOf srcs).reverse := by
  unfold IterCfg.MergeGood at hc
  rw [hc]
  have hs' : AllSorted (dirLt false) srcs := by
    intro s h; rw [dirLt_false]; exact hs s h
  exact ⟨mergeTree_eq_snapshot srcs hs', mergeTree_rev_eq_snapshot srcs hs'⟩

/-- the merged stream is strictly increasing in `compareKeys` (user key ascending, version
descending): strictly monotone key order, every internal key at most once -/
theorem C06_merge_strictly_sorted (c : IterCfg) (hc : c.MergeGood) (srcs : List (List Ent))
    (hs : ∀ s ∈ srcs, List.Pairwise (fun a b => ikLt a b = true) s) :
    List.Pairwise (fun a b => ikLt a b = true) (mergeTree c.eqKeyAdvances false srcs) := by
  rw [(C06_merge_first_wins c hc srcs hs).1]
  have := sorted_snapshotOf srcs
  rwa [dirLt_false] at this

/-- **Concat lemma.**  Over the tables of a level — ascending, pairwise disjoint, non-empty, with
non-empty blocks — `ConcatIterator.Seek` (pick the first table whose largest key is `>=` the target,
resp. the last whose smallest key is `<=` it, then seek inside that table) yields exactly the
concatenation of the tables from the first entry `>=` the target on (forward), resp. the reversed
concatenation from the last entry `<=` the target on (reverse): no table is skipped, none is cut. -/
theorem C06_concat_seek (c : IterCfg) (hc : c.ConcatGood ∧ c.sstSeekFallsThrough = true)
    (ts : List (List (List Ent))) (h : LevelOK ts) (t : Ent) :
    concatSeek c false t ts = ts.flatten.flatten.dropWhile (fun e => ikLt e t) ∧
    concatSeek c true t ts = ts.flatten.flatten.reverse.dropWhile (fun e => ikLt t e) :=
  ⟨concatSeek_fwd c hc.1 hc.2 t ts h, concatSeek_rev c hc.1 t ts h⟩

/-! ### DB iterator -/

/-- **C06 for `DB.NewIterator` (headline).**  Good configuration; every well-formed LSM state
(every memtable / table `compareKeys`-sorted, blocks non-empty, versions below 2⁶⁴), either
direction, any lower/upper bound, and EVERY sequence of `Rewind` / `Seek k` / `Next`: after each
operation the iterator's current item (or invalidity) is the one of the specification's cursor
over `specDbList` — the live entries of the snapshot inside the bounds in `compareKeys` order
(reversed for a reverse iterator), `Seek k` = first item with key `≥ k` (`≤ k` in reverse). -/
theorem C06_db_iter (c : IterCfg) (hc : c.DbGood) (db : DB) (hwf : db.WF) (asc : Bool) (lower upper : Bytes)
    (ops : List CurOp) :
    runDb c (newDbIt c db asc lower upper) ops = specDbRun db asc lower upper ops := by
  apply runDb_eq c hc db hwf asc lower upper ops
  exact ⟨rfl, rfl, rfl, rfl, by simp [DbInv, newDbIt, Sorted]⟩

/-! ### transaction iterator -/

/-- **C06 for `Txn.NewIterator` / `Txn.NewKeyIterator` (headline).**  Good configuration; every
well-formed LSM state (memtables ⊕ level-0 tables ⊕ level, any contents), every transaction
(`update` or read-only, any list of pending writes — sets, deletes, expired entries — overlaid at
the read timestamp), every option record `o` (direction, `[lower, upper)`, prefix / exact key,
since-ts, one version per key or all versions) and EVERY sequence of `Rewind` / `Seek k` / `Next`
in any order and number: after each call the iterator's current item (or invalidity) is the one of
the specification's cursor over `specTxnList` — the entries of the transaction's snapshot
(`txnSnapshot`: pending writes first, then the sources by recency, first source wins per internal
key) that are visible (`version ≤ read ts`, `> since-ts`, inside the bounds, matching the prefix),
one per user key at its newest visible version unless all versions are asked for, live (neither
deleted nor expired — a dead newest version hides the key), in `compareKeys` order (reversed for a
reverse iterator); `Seek k` = first item with key `≥ k` (`≤ k` in reverse), an empty `k` = `Rewind`.

`KeysOK`: user keys are non-empty — `Txn.modify`, `DB.Set`, `SetVersionedEntry`, `lsm.Set` reject an
empty key (checked on the real code through the harness); `advance` compares `len(lastKey) > 0`,
so an empty user key would not be de-duplicated. -/
theorem C06_txn_iter (c : IterCfg) (hc : c.TxnGood) (db : DB) (hwf : db.WF) (upd : Bool) (pend : List Write)
    (hk : KeysOK db pend) (o : Opts) (ops : List CurOp) :
    runTxn c (newTxnIt c db upd pend o) ops = specTxnRun db upd pend o ops := by
  apply runTxn_eq c hc db hwf upd pend hk o ops
  exact ⟨rfl, rfl, rfl, rfl, by simp [newTxnIt, Sorted, G, gF, gR]⟩

/-! ### non-vacuity -/

example : IterCfg.good.DbGood ∧ IterCfg.good.TxnGood ∧ IterCfg.good.MergeGood := by decide

/-- a well-formed state with two versions of a key in two sources, a tombstone and a prefix pair -/
def dbExample : DB :=
  { mem := [⟨[0x70], 3, [], true, false⟩, ⟨[0x70, 0x71], 2, [0x76], false, false⟩],
    imms := [[⟨[0x70], 1, [0x76, 0x31], false, false⟩]],
    l0 := [[[⟨[0x61], 1, [0x76], false, false⟩], [⟨[0x70], 1, [0x6f, 0x6c, 0x64], false, false⟩]]],
    lvl := [[[⟨[0x00], 1, [0x30], false, false⟩]], [[⟨[0x7a], 1, [0x7a], false, false⟩], [⟨[0x7a, 0x7a], 1, [0x7a], false, false⟩]]],
    nextTs := 4 }

example : dbExample.WF :=
  ⟨by decide, by decide, by decide, ⟨by decide, by decide⟩, by decide⟩

example : runDb IterCfg.good (newDbIt IterCfg.good dbExample true [] []) [.seek [0x61], .next, .next, .seek [0x79], .next] =
    [some ⟨[0x61], 1, [0x76], false, false⟩, some ⟨[0x70], 1, [0x76, 0x31], false, false⟩,
     some ⟨[0x70, 0x71], 2, [0x76], false, false⟩, some ⟨[0x7a], 1, [0x7a], false, false⟩,
     some ⟨[0x7a, 0x7a], 1, [0x7a], false, false⟩] := by
  decide

/-- pending writes of the iterating transaction: overwrite `pq`, delete `a`, add `b` -/
def pendExample : List Write :=
  [⟨[0x70, 0x71], [0x6e, 0x65, 0x77], false, false⟩, ⟨[0x61], [], true, false⟩, ⟨[0x62], [0x62], false, false⟩]

def opsExample : List CurOp :=
  [.seek [0x61], .next, .next, .rewind, .next, .seek [0x7a, 0x61], .next, .next, .seek [0x71], .next]

example : KeysOK dbExample pendExample := by unfold KeysOK; decide

/-- forward, mixing `Seek` / `Next` / `Rewind`: the pending delete hides `a`, the committed tombstone
`p@3` hides `p@1`, the pending write of `pq` replaces `pq@2`, `Seek` beyond the last key and `Next`
past the end are invalid -/
example : runTxn IterCfg.good (newTxnIt IterCfg.good dbExample true pendExample {}) opsExample =
    [some ⟨[0x62], 3, [0x62], false, false⟩, some ⟨[0x70, 0x71], 3, [0x6e, 0x65, 0x77], false, false⟩,
     some ⟨[0x7a], 1, [0x7a], false, false⟩, some ⟨[0x00], 1, [0x30], false, false⟩, some ⟨[0x62], 3, [0x62], false, false⟩,
     some ⟨[0x7a, 0x7a], 1, [0x7a], false, false⟩, none, none, some ⟨[0x7a], 1, [0x7a], false, false⟩,
     some ⟨[0x7a, 0x7a], 1, [0x7a], false, false⟩] := by
  decide

/-- reverse with an upper bound, same calls -/
example : runTxn IterCfg.good (newTxnIt IterCfg.good dbExample true pendExample { reverse := true, upper := [0x7a, 0x7a] })
      opsExample =
    [some ⟨[0x00], 1, [0x30], false, false⟩, none, none, some ⟨[0x7a], 1, [0x7a], false, false⟩,
     some ⟨[0x70, 0x71], 3, [0x6e, 0x65, 0x77], false, false⟩, some ⟨[0x7a], 1, [0x7a], false, false⟩,
     some ⟨[0x70, 0x71], 3, [0x6e, 0x65, 0x77], false, false⟩, some ⟨[0x62], 3, [0x62], false, false⟩,
     some ⟨[0x70, 0x71], 3, [0x6e, 0x65, 0x77], false, false⟩, some ⟨[0x62], 3, [0x62], false, false⟩] := by
  decide

/-! ### the unchanged tree violates the property: negations on the corpus witnesses -/

def dbTomb : DB := (({} : DB).commit [⟨[0x61], [0x76, 0x31], false, false⟩, ⟨[0x70], [0x76, 0x31], false, false⟩]).commit
  [⟨[0x61], [], true, false⟩]

/-- corpus/C06/finding-txnit-tombstone-resurrects.ops: key `a` deleted at version 2; a forward
scan at read timestamp 2 yields `a` at version 1. -/
theorem C06_fails_asis_tombstone (c : IterCfg)
    (hc : c.lastKeyOnSkip = false ∧ c.OpsGood ∧ c.eqKeyAdvances = .right ∧ c.ConcatGood) :
    runTxn c (newTxnIt c dbTomb false [] {}) [.rewind, .next] ≠ specTxnRun dbTomb false [] {} [.rewind, .next] := by
  witness_cases c hc

def dbRev : DB := (({} : DB).commit [⟨[0x70], [0x76, 0x31], false, false⟩]).commit [⟨[0x70], [0x76, 0x32], false, false⟩]

/-- corpus/C06/finding-txnit-reverse-oldest.ops: a reverse scan yields version 1 of `p`, the
newest visible version is 2. -/
theorem C06_fails_asis_reverse_oldest (c : IterCfg)
    (hc : c.revGroup = .firstSeen ∧ c.OpsGood ∧ c.eqKeyAdvances = .right ∧ c.ConcatGood) :
    runTxn c (newTxnIt c dbRev false [] { reverse := true }) [.rewind, .next] ≠
      specTxnRun dbRev false [] { reverse := true } [.rewind, .next] := by
  witness_cases c hc

def dbPend : DB := ({} : DB).commit [⟨[0x70], [0x76, 0x31], false, false⟩]
def pendW : List Write := [⟨[0x70], [0x76, 0x39], false, false⟩, ⟨[0x70, 0x71], [0x76, 0x38], false, false⟩]

/-- corpus/C06/finding-pending-bytes-order.ops: pending writes `p`, `pq` sorted by `bytes.Compare`
on internal keys: `pq` precedes `p`; the scan is out of order and yields `p` twice. -/
theorem C06_fails_asis_pending_order (c : IterCfg)
    (hc : c.pendingCmp = .rawBytes ∧ c.OpsGood ∧ c.eqKeyAdvances = .right ∧ c.ConcatGood) :
    runTxn c (newTxnIt c dbPend true pendW {}) [.rewind, .next, .next] ≠
      specTxnRun dbPend true pendW {} [.rewind, .next, .next] := by
  witness_cases c hc

def dbImm : DB := (((({} : DB).plain ⟨[0x61], [0x76, 0x31], false, false⟩).rotate).plain ⟨[0x61], [0x76, 0x32], false, false⟩).rotate

/-- corpus/C06/finding-imm-oldest-first.ops: the same internal key in two immutable memtables:
the DB iterator yields the older value. -/
theorem C06_fails_asis_imm_order (c : IterCfg)
    (hc : c.immOrder = .oldestFirst ∧ c.OpsGood ∧ c.eqKeyAdvances = .right ∧ c.ConcatGood) :
    runDb c (newDbIt c dbImm true [] []) [.rewind, .next] ≠ specDbRun dbImm true [] [] [.rewind, .next] := by
  witness_cases c hc

def dbDel : DB := ((({} : DB).plain ⟨[0x61], [0x76, 0x31], false, false⟩).plain ⟨[0x62], [0x76, 0x32], false, false⟩).plain
  ⟨[0x61], [], true, false⟩

/-- corpus/C06/finding-dbit-yields-tombstones.ops: `DB.Del(a)` then a DB scan yields `a`. -/
theorem C06_fails_asis_db_tombstone (c : IterCfg)
    (hc : c.dbSkipsDeleted = false ∧ c.OpsGood ∧ c.eqKeyAdvances = .right ∧ c.ConcatGood) :
    runDb c (newDbIt c dbDel true [] []) [.rewind, .next] ≠ specDbRun dbDel true [] [] [.rewind, .next] := by
  witness_cases c hc

def dbSeek : DB := (({} : DB).commit [⟨[0x61], [0x76, 0x31], false, false⟩]).commit [⟨[0x62], [0x76, 0x32], false, false⟩]

/-- corpus/C06/finding-dbit-reverse-seek-skips-target.ops: reverse `Seek(b)` lands on `a`. -/
theorem C06_fails_asis_db_reverse_seek (c : IterCfg)
    (hc : c.dbRevSeekTs = .max ∧ c.OpsGood ∧ c.eqKeyAdvances = .right ∧ c.ConcatGood) :
    runDb c (newDbIt c dbSeek false [] []) [.seek [0x62], .next] ≠ specDbRun dbSeek false [] [] [.seek [0x62], .next] := by
  witness_cases c hc

/-- `kNN` ↦ 500 × `NN` (the 1000-byte values of the block-gap witness) -/
def gapWrite (i : Nat) : Write :=
  let d1 := 0x30 + i / 10
  let d2 := 0x30 + i % 10
  ⟨[0x6b, d1, d2], (List.replicate 500 [d1, d2]).flatten, false, false⟩

def dbGap : DB :=
  ((((((({} : DB).commit ([0, 2, 4, 6, 8].map gapWrite)).commit ([10, 12, 14, 16, 18].map gapWrite)).commit
    ([20, 22, 24, 26, 28].map gapWrite)).commit ([30, 32, 34, 36, 38].map gapWrite)).rotate).flush 1048576)

set_option maxRecDepth 20000 in
/-- corpus/C06/finding-sst-seek-block-gap.ops: `k16` is the first entry of the second block of the
flushed table; `Seek(k16)` at read timestamp 4 (its version is 2) and `Seek(k15)` end invalid. -/
theorem C06_fails_asis_sst_block_gap (c : IterCfg)
    (hc : c.sstSeekFallsThrough = false ∧ c.OpsGood ∧ c.eqKeyAdvances = .right ∧ c.ConcatGood) :
    runTxn c (newTxnIt c dbGap false [] {}) [.seek [0x6b, 0x31, 0x36], .seek [0x6b, 0x31, 0x35]] ≠
      specTxnRun dbGap false [] {} [.seek [0x6b, 0x31, 0x36], .seek [0x6b, 0x31, 0x35]] := by
  witness_cases c hc

end NoKV.Props.C06

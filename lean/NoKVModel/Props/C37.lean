/-
C37  Operations and Close always finish.

Model: `NoKVModel/Queue/Model.lean`; helper lemmas `Queue/Lemmas.lean`, `Queue/Live.lean`.
Liveness is stated in its safety form.  Sleep/poll loops of the code (`sendToWriteCh` under
throttle, `acquireSpace`, `acquireItem`, `req.Wait`, `commitWG.Wait`) are guarded steps: a
thread in such a loop has a step exactly when the loop's exit condition holds.  Then

* `C37_no_stuck`: in every reachable state in which some call has not returned or a `Close`
  is in progress, some step of the system itself is enabled — unless the L0 throttle is on and
  `Close` has not been called (the one legitimate wait on the environment);
* `C37_measure` / `C37_bounded`: every step of the system itself strictly decreases the
  natural-number measure `mu`; so from any state at most `mu s` such steps can happen before
  everything has returned — once the environment stops issuing calls and has released the
  throttle or called `Close`.
Assumed and not proved: the Go scheduler eventually runs every goroutine that has an enabled
step (fairness), timers fire, and wall-clock bounds.
-/
import NoKVModel.Queue.Live
import NoKVModel.Queue.Handshake
import NoKVModel.Queue.Closer
import NoKVModel.Queue.AllCfg
import NoKVModel.Queue.Readable
import NoKVModel.Queue.PackLoop
import NoKVModel.Queue.CompactModel

namespace NoKV.Props.C37
open NoKV NoKV.Queue

/-- **C37 (headline): no stuck state**, all schedules, any number of clients, ring capacity > 0. -/
theorem C37_no_stuck (c : AllCfg) (hc : c.q.Struct) (p : Params) (hcap : 0 < p.cap) (s : St)
    (h : Reachable c.q p s) (hpend : Pending s) :
    (∃ a : Act, a.internal = true ∧ (step c.q p s a).isSome = true) ∨
      (s.throttle = true ∧ s.clPc = 0) :=
  no_stuck c.q hc p hcap s h hpend

/-- **C37 (headline): the measure** strictly decreases with every step of a client, the worker
or `Close` (the environment's `call`, `thrOn`, `thrOff` are the only other steps). -/
theorem C37_measure (c : AllCfg) (_hc : c.q.Struct) (p : Params) (s s' : St) (a : Act)
    (hint : a.internal = true) (hs : step c.q p s a = some s') : mu s' < mu s :=
  mu_step c.q p s s' a hint hs

/-- Consequently at most `mu s` system steps can follow `s` without the environment. -/
theorem C37_bounded (c : AllCfg) (hc : c.q.Struct) (p : Params) (acts : List Act) (s s' : St)
    (hint : ∀ a ∈ acts, a.internal = true) (hr : run c.q p s acts = some s') :
    acts.length + mu s' ≤ mu s := by
  induction acts generalizing s with
  | nil => simp [run] at hr; subst hr; simp
  | cons a as ih =>
    simp only [run] at hr
    cases hs : step c.q p s a with
    | none => simp [hs] at hr
    | some s1 =>
      simp only [hs] at hr
      have h1 := C37_measure c hc p s s1 a (hint a (by simp)) hs
      have h2 := ih s1 (fun b hb => hint b (by simp [hb])) hr
      simp only [List.length_cons]
      omega

/-- **Close returns only after the in-flight writes**: once `commitWG.Wait` has returned
(Close step ≥ 2) the worker has exited, nothing is queued, batched or un-acked, and every
client still inside `req.Wait` already has its ack. -/
theorem C37_close_waits (c : AllCfg) (_hc : c.q.Struct) (p : Params) (s : St) (h : Reachable c.q p s)
    (h2 : 2 ≤ s.clPc) :
    s.wph = .done ∧ s.queue = [] ∧ s.batch = [] ∧ s.applied = [] ∧
      ∀ (t : Nat) (cl : Client), s.clients[t]? = some cl → cl.pc = .wait → cl.acked = true := by
  obtain ⟨_, iw⟩ := inv_reachable h
  have hw := iw.k h2
  obtain ⟨hq, hb, ha, _⟩ := iw.w5 hw
  refine ⟨hw, hq, hb, ha, ?_⟩
  intro t cl ht hp
  cases hak : cl.acked with
  | true => rfl
  | false =>
    have := iw.fw t cl ht hp hak
    simp [hq, hb, ha] at this

/-- **After Close** (repaired write path): a call issued after `Close` returned is never
enqueued and returns one of the error classes (`notfound` only for the as-is `Get`). -/
theorem C37_after_close (c : AllCfg) (hc : c.q.GoodLive) (p : Params) (s : St) (h : Reachable c.q p s) :
    (∀ r ∈ s.pcRets, r = .blocked ∨ r = .hot ∨ r = .toobig ∨ r = .emptykey ∨ r = .closedErr ∨ r = .notfound) ∧
    (∀ (t : Nat) (cl : Client), s.clients[t]? = some cl → cl.postClose = true → cl.pc ≠ .wait) := by
  obtain ⟨_, iw⟩ := inv_reachable h
  exact ⟨iw.pr hc.2.1, iw.pw⟩

/-- **After Close returns nothing is left unanswered and nothing is applied any more**
(full statement; good write path).  In every reachable state in which `Close` has returned:
the worker has exited; queue, batch and applied-not-acked list are empty; every client still
inside `req.Wait` already has its ack (no request is left unanswered); every call issued after
`Close` returned got an error class and was never enqueued; and in EVERY continuation — any
further calls, client steps, throttle toggles, in any interleaving and of any length — the
store is never changed again, the pipeline stays empty and the worker stays exited. -/
theorem C37_after_close_full (c : AllCfg) (hc : c.q.GoodLive) (p : Params) (s : St)
    (h : Reachable c.q p s) (h4 : s.clPc = 4) :
    (s.wph = .done ∧ s.queue = [] ∧ s.batch = [] ∧ s.applied = []) ∧
    (∀ (t : Nat) (cl : Client), s.clients[t]? = some cl → cl.pc = .wait → cl.acked = true) ∧
    (∀ r ∈ s.pcRets, r = .blocked ∨ r = .hot ∨ r = .toobig ∨ r = .emptykey ∨ r = .closedErr ∨ r = .notfound) ∧
    (∀ (t : Nat) (cl : Client), s.clients[t]? = some cl → cl.postClose = true → cl.pc ≠ .wait) ∧
    (∀ (acts : List Act) (s' : St), run c.q p s acts = some s' →
      s'.store = s.store ∧ s'.wph = .done ∧ s'.queue = [] ∧ s'.batch = [] ∧ s'.applied = [] ∧
      s'.clPc = 4 ∧
      (∀ (t : Nat) (cl : Client), s'.clients[t]? = some cl → cl.pc = .wait → cl.acked = true) ∧
      (∀ r ∈ s'.pcRets, r = .blocked ∨ r = .hot ∨ r = .toobig ∨ r = .emptykey ∨ r = .closedErr ∨ r = .notfound)) := by
  obtain ⟨hw, hq, hb, ha, hwait⟩ := C37_close_waits c hc.1 p s h (by omega)
  obtain ⟨hpr, hpw⟩ := C37_after_close c hc p s h
  refine ⟨⟨hw, hq, hb, ha⟩, hwait, hpr, hpw, ?_⟩
  intro acts s' hr
  obtain ⟨b1, b2, b3, b4, b5, b6⟩ := run_after_exit c.q p acts s s' hr hw hq (by omega)
  have hreach : Reachable c.q p s' := by
    obtain ⟨n, acts0, hr0⟩ := h
    exact ⟨n, acts0 ++ acts, by rw [run_append, hr0]; simpa using hr⟩
  have hcp := (inv_reachable hreach).2.cp
  have h4' : s'.clPc = 4 := by omega
  obtain ⟨_, _, _, _, hwait'⟩ := C37_close_waits c hc.1 p s' hreach (by omega)
  exact ⟨b2, b1, b3, by rw [b4, hb], by rw [b5, ha], h4', hwait', (C37_after_close c hc p s' hreach).1⟩

/-
Full-strength statement the property demands: `C37_after_close_full` above (no request left
unanswered, nothing applied afterwards, every later call answered with an error class).
`C37_after_close_partial` below was the active obligation while `write-after-close-panics`
was open: from the structural facts alone it says that a call issued after `Close` returned
never reaches the queue and that nothing is pending once `Close` has returned.  What it
lacks: that such a call RETURNS AN ERROR (as-is it panicked), that waiting clients have their
ack, and that the state stays frozen in every continuation.  Superseded (kind `lemma`).
-/
/-- Lemma (superseded partial): post-Close calls are never enqueued; nothing pending at return. -/
theorem C37_after_close_partial (c : AllCfg) (_hc : c.q.Struct) (p : Params) (s : St)
    (h : Reachable c.q p s) :
    (∀ (t : Nat) (cl : Client), s.clients[t]? = some cl → cl.postClose = true → cl.pc ≠ .wait) ∧
    (s.clPc = 4 → s.wph = .done ∧ s.queue = [] ∧ s.batch = [] ∧ s.applied = []) := by
  obtain ⟨_, iw⟩ := inv_reachable h
  refine ⟨iw.pw, ?_⟩
  intro h4
  have hw := iw.k (by omega)
  obtain ⟨hq, hb, ha, _⟩ := iw.w5 hw
  exact ⟨hw, hq, hb, ha⟩

/-! ### the as-is tree -/

def k : Key := [0x6b]
def v : Val := [0x76]

def writeAfterClose : List Act :=
  [.close, .wexit, .close, .close, .close,
   .call 0 (.set k v), .cstep 0, .cstep 0, .cstep 0, .cstep 0]

/-- As-is (`enqFailKeepsRef = false`): `Set` after `Close` returned does not return an error:
the enqueue failure path releases the entry twice and the call panics. -/
theorem C37_fails_asis_write_after_close (c : AllCfg)
    (hc : c.q = { QCfg.good with enqFailKeepsRef := false } ∨
          c.q = { QCfg.good with enqFailKeepsRef := false, getClosed := .notfound }) :
    ∃ s, Reachable c.q {} s ∧ s.pcRets = [.panic] := by
  have h : (run c.q {} (St.init 1) writeAfterClose).map (·.pcRets) = some [.panic] := by
    generalize c.q = q at hc
    rcases hc with rfl | rfl <;> decide
  cases hr : run c.q {} (St.init 1) writeAfterClose with
  | none => simp [hr] at h
  | some s =>
    simp [hr] at h
    exact ⟨s, ⟨1, writeAfterClose, hr⟩, h⟩

def pipelineFailure : List Act :=
  [.call 0 (.set k v), .cstep 0, .cstep 0, .cstep 0, .cstep 0, .wpop, .wfail, .wack, .cstep 0]

/-- As-is (`waitErrKeepsRef = false`): a write whose request the commit pipeline fails does not
return the error, it panics (second release of the entry in `setEntry`). -/
theorem C37_fails_asis_wait_error_panics (c : AllCfg)
    (hc : c.q = { QCfg.good with waitErrKeepsRef := false }) :
    ∃ s, Reachable c.q {} s ∧ s.hist = [.call 0 (.set k v), .ret 0 .panic] := by
  have h : (run c.q {} (St.init 1) pipelineFailure).map (·.hist) =
      some [.call 0 (.set k v), .ret 0 .panic] := by
    rw [hc]; decide
  cases hr : run c.q {} (St.init 1) pipelineFailure with
  | none => simp [hr] at h
  | some s =>
    simp [hr] at h
    exact ⟨s, ⟨1, pipelineFailure, hr⟩, h⟩

/-! ### the close / worker-exit handshake at single-operation granularity
(`Queue/HandshakeModel.lean`: every atomic load/store/channel operation of
`enqueueCommitRequest`, `acquireItem`, `pop`, `commitQueue.close` is one step) -/

/-- **Worker exit is safe** when `acquireItem` loads `inflight` before `queueLen`: in every
reachable state of every schedule of any number of enqueuers, an exited worker leaves an empty
ring, the queue is closed, and no enqueuer is past its first closed test — so nothing is or
will be pushed that nobody pops, which is what `Queue/Model.lean`'s atomic enqueue and
`wexit` guard assume. -/
theorem C37_worker_exit_safe (c : AllCfg) (hc : c.h.exitOrder = .inflightFirst) (s : HSt)
    (h : HReachable c.h s) (hx : s.wpc = .exited) :
    s.ring = [] ∧ s.closed = true ∧
      ∀ (t : Nat) (pc : EPc), s.pcs[t]? = some pc → pc.active = false := by
  have hi := hinv_reachable hc h
  obtain ⟨hcl, hin⟩ := hi.h (Or.inr hx)
  exact ⟨hi.x hx, hcl, hin⟩

/-- client 0 pushes; `close`; the worker loads `queueLen` (0); the client does `queueLen++`,
releases its token and does `inflight--`; the worker loads `inflight` (0) and exits. -/
def lostRequest : List HAct :=
  [.start 0, .enq 0, .enq 0, .enq 0, .enq 0, .enq 0, .close, .close, .close,
   .work, .work, .work, .enq 0, .enq 0, .enq 0, .work]

/-- As-is (`queueLen` loaded first): the worker exits while request 0 sits in the ring; its
client is inside `req.Wait()` for ever and `Close` returns without it. -/
theorem C37_fails_asis_exit_order (c : AllCfg) (hc : c.h.exitOrder = .queueLenFirst) :
    ∃ s, HReachable c.h s ∧ s.wpc = .exited ∧ s.ring = [0] ∧ s.pcs[0]? = some .idle := by
  have hh : c.h = { exitOrder := .queueLenFirst } := by
    cases hcfg : c.h with
    | mk eo => simp [hcfg] at hc; simp [hc]
  have h : (hrun c.h (HSt.init0 1 2) lostRequest).map (fun s => (s.wpc, s.ring, s.pcs[0]?)) =
      some (.exited, [0], some .idle) := by
    rw [hh]; decide
  cases hr : hrun c.h (HSt.init0 1 2) lostRequest with
  | none => simp [hr] at h
  | some s =>
    simp [hr] at h
    exact ⟨s, ⟨1, 2, lostRequest, hr⟩, h.1, h.2.1, h.2.2⟩

/-! ### `lsm.Get` entering the Closer wait group while `lsm.Close` waits on it
(`Queue/CloserModel.lean`) -/

/-- **Close's wait does not panic** when `Get` joins the wait group only under a guard shared
with `closed := true`: no reachable state of any schedule of any number of readers has the
waiter panicked. -/
theorem C37_close_wait_safe (c : AllCfg) (hc : c.w.getGuard = true) (s : WSt)
    (h : WReachable c.w s) : s.waiter ≠ .panicked :=
  (winv_reachable hc h).c

/-- As-is (bare `closer.Add(1)` in `lsm.Get`): a Get in flight when `Close` starts waiting, a
second Get entering right after the first one's `Done` woke the waiter: `WaitGroup.Wait`
panics inside `lsm.Close` — `DB.Close` does not return (it panics half-way: the WAL stays
open, the directory lock is kept, `isClosed` is never set). -/
theorem C37_fails_asis_close_wait_panics (c : AllCfg) (hc : c.w.getGuard = false) :
    ∃ s, WReachable c.w s ∧ s.waiter = .panicked := by
  have hh : c.w = { getGuard := false } := by
    cases hcfg : c.w with
    | mk g => simp [hcfg] at hc; simp [hc]
  have h : (wrun c.w (WSt.init 2) wgRace).map (·.waiter) = some .panicked := by
    rw [hh]; decide
  cases hr : wrun c.w (WSt.init 2) wgRace with
  | none => simp [hr] at h
  | some s =>
    simp [hr] at h
    exact ⟨s, ⟨2, wgRace, hr⟩, h⟩

/-! ### a failed maintenance step leaves no reservation behind (`Queue/CompactModel.lean`) -/

/-- **No reservation is left behind, so the throttle is released.**  When `doCompact` arms its
deferred `compactState.Delete` before anything that can fail: in every reachable state of the
reservation/throttle machine (any sequence of flushes, planned compactions, successful and
FAILED moves) nothing is reserved unless a compaction is running; hence whenever L0 is not
empty and no compaction is running, a healthy cycle (plan + move of any `k ≥ 1` tables) is
enabled and strictly decreases the number of L0 tables, and the throttle is off once
`l0 ≤ limit`: the write throttle is released after at most `l0` healthy cycles — however many
failures came before. -/
theorem C37_failed_compaction_releases (c : AllCfg) (hc : c.k.releaseOnFail = true) (limit : Nat)
    (hlim : 0 < limit) (s : KSt) (h : KReachable c.k limit s) :
    (s.moving = false → s.reserved = false) ∧
    (s.moving = false → 0 < s.l0 → ∀ k, 1 ≤ k → k ≤ s.l0 →
      ∃ s', krun c.k limit s [.cstart, .cok k] = some s' ∧ s'.l0 = s.l0 - k ∧ s'.l0 < s.l0 ∧
        s'.reserved = false ∧ s'.moving = false ∧ (s'.l0 ≤ limit → s'.thr = false)) :=
  ⟨kinv_reachable c.k hc limit s h,
   fun hm hl k hk1 hk2 => healthy_cycle_progress c.k hc limit s hlim h hm hl k hk1 hk2⟩

/-! ### the packing loop of `lsm.SetBatch` (`Queue/PackModel.lean`): the commit worker
returns from applying a request -/

/-- **The packing loop terminates**: with `used+est > avail` as the fit test,
`walSize+est > MemTableSize` as the rotation guard and an oversize entry admitted alone into
an empty memtable, every entry (any size, any fill level) is written after at most one
rotation — the two tests never disagree ("does not fit" and "do not rotate"). -/
theorem C37_pack_terminates (c : AllCfg) (hc : c.p.Good) (m wal est : Nat) (hm : 0 < m)
    (he : 0 < est) : packDone c.p m wal est = true :=
  pack_good c.p hc m wal est hm he

/-- **The packing loop terminates for every input** (full statement).  `mOpt` is
`Options.MemTableSize` (ANY value, 0 included: `effSize` is the budget `NewLSM` derives),
`ests` are the size estimates of the entries of one `SetBatch` call (any number, any sizes —
also larger than the budget; `0 < e` is not a restriction, `EstimateEncodeSize` adds 52 to the
key and value lengths), `act j` is whatever the WAL accounts for entry `j` (any function), `s` any
starting state (any fill level, any index).  From `s` the loop reaches `done` after finitely
many passes, none of which spins; `done` means that every entry has been written.  Termination
is by the measure `2·(n − i) + [wal ≠ 0]` (`pstep_progress`), not by fuel. -/
theorem C37_pack_loop_terminates (c : AllCfg) (hc : c.p.GoodSize) (mOpt : Nat)
    (ests : List Nat) (hpos : ∀ e ∈ ests, 0 < e) (act : Nat → Nat) (s : PSt) :
    PackTerminates c.p (effSize c.p mOpt) ests act s ∧
    (∀ s0, pstep c.p (effSize c.p mOpt) ests act s0 ≠ .spin) ∧
    (∀ s0 s1, pstep c.p (effSize c.p mOpt) ests act s0 = .next s1 →
      pmu ests.length s1 < pmu ests.length s0) ∧
    (∀ s0, pstep c.p (effSize c.p mOpt) ests act s0 = .done ↔ ests.length ≤ s0.i) :=
  have hm := effSize_pos c.p hc.2 mOpt
  ⟨pack_loop_terminates c.p hc.1 _ hm ests hpos act s,
   fun s0 => (pstep_progress c.p hc.1 _ hm ests hpos act s0).1,
   fun s0 s1 => (pstep_progress c.p hc.1 _ hm ests hpos act s0).2 s1,
   fun s0 => pstep_done_iff c.p _ ests act s0⟩

/-
Full-strength statement the property demands: `C37_pack_loop_terminates` above (whole loop,
every batch, every entry size, every fill level; measure-based).  `C37_pack_terminates` is its
one-entry instance ("written after at most one rotation").  `C37_pack_terminates_partial`
below was the active obligation while `oversize-entry-rotates-forever` was open: operators
only, one entry, and the hypothesis `est ≤ MemTableSize`.  What it lacks: entries larger than
MemTableSize (the real code was run there: it rotated for ever — that became the finding and
the repair `lsm.oversizeAlone`), batches of more than one entry, and `MemTableSize = 0` (the
hypothesis `0 < m`; the real code was run there too: the first write hangs — finding
`memtable-size-zero-rotates-forever`, flag `lsm.sizeDefaulted`).  Superseded (kind `lemma`).
-/
/-- Lemma (superseded partial): one entry with `est ≤ MemTableSize`, operators only. -/
theorem C37_pack_terminates_partial (c : AllCfg) (hc : c.p.OpsGood) (m wal est : Nat)
    (hm : 0 < m) (he : 0 < est) (hsz : est ≤ m) : packDone c.p m wal est = true :=
  pack_ops_good c.p hc m wal est hm he hsz

/-- As-is (`oversizeAlone = false`): an entry one byte larger than MemTableSize meets an empty
memtable, is found not to fit, the memtable is rotated — and the next empty memtable is in
exactly the same state: the commit worker rotates for ever, every write and `Close` hang. -/
theorem C37_fails_asis_oversize_entry (c : AllCfg)
    (hc : c.p.fitOp = .gt ∧ c.p.guardOp = .gt ∧ c.p.oversizeAlone = false) :
    packFirst c.p 65536 0 65537 = .rotated ∧ packDone c.p 65536 0 65537 = false := by
  obtain ⟨h1, h2, h3⟩ := hc
  simp [packDone, packFirst, h1, h2, h3, CmpOp.nat, CmpOp.eval]

/-- As-is (`sizeDefaulted = false`): with `Options.MemTableSize = 0` (an `Options` value not
built by `NewDefaultOptions`) no entry can ever fit: the very first write makes the commit
worker rotate empty memtables for ever (same state again, the measure does not decrease). -/
theorem C37_fails_asis_zero_memtable (c : AllCfg)
    (hc : c.p.guardOp = .gt ∧ c.p.sizeDefaulted = false) :
    effSize c.p 0 = 0 ∧ pstep c.p (effSize c.p 0) [60] (fun _ => 0) ⟨0, 0⟩ = .next ⟨0, 0⟩ := by
  obtain ⟨h2, h4⟩ := hc
  simp [effSize, pstep, h2, h4, CmpOp.nat, CmpOp.eval]

/-! ### non-vacuity -/

/-- the flag matters: four flushes raise the throttle (limit 2), the move fails; with the
release armed late the reservation stays, no L0 compaction can be planned any more and the
throttle stays on; with it armed before the move the next cycle releases the throttle -/
example :
    ((krun { releaseOnFail := false } 2 {} [.flush, .flush, .flush, .flush, .cstart, .cfail]).map
      fun s => (s.thr, s.reserved, kstep { releaseOnFail := false } 2 s .cstart)) = some (true, true, none) ∧
    ((krun KCfg.good 2 {} [.flush, .flush, .flush, .flush, .cstart, .cfail, .cstart, .cok 1, .cstart, .cok 1]).map
      fun s => (s.thr, s.reserved, s.l0)) = some (false, false, 2) := by decide

/-- iterate `pstep` (examples only; the theorems do not use fuel) -/
def piter (c : PCfg) (m : Nat) (ests : List Nat) (act : Nat → Nat) : Nat → PSt → List PSt
  | 0, _ => []
  | n + 1, s => match pstep c m ests act s with
    | .next s' => s' :: piter c m ests act n s'
    | _ => []

/-- a batch of five entries into a 64 KiB memtable already holding 1031 bytes: a slice of two,
a rotation, an oversize entry alone, a rotation, the last two — then `done` -/
example : piter PCfg.good 65536 [100, 30000, 50000, 70000, 60000, 5000] (fun j => [90, 29990, 49990, 69990, 59990, 4990].getD j 0) 10 ⟨0, 1031⟩ =
    [⟨2, 31111⟩, ⟨2, 0⟩, ⟨3, 49990⟩, ⟨3, 0⟩, ⟨4, 69990⟩, ⟨4, 0⟩, ⟨6, 64980⟩] ∧
    pstep PCfg.good 65536 [100, 30000, 50000, 70000, 60000, 5000] (fun _ => 0) ⟨6, 64980⟩ = .done := by
  decide

/-- without the oversize rule the 70000-byte entry makes the loop rotate for ever (the measure
does not decrease: same state again) -/
example : pstep { PCfg.good with oversizeAlone := false } 65536 [70000] (fun _ => 0) ⟨0, 0⟩ = .next ⟨0, 0⟩ := by
  decide

/-- the operators matter: with `>=` as the fit test an entry that fills the memtable exactly
neither fits nor rotates -/
example : packFirst { PCfg.good with fitOp := .ge } 65536 1031 64505 = .spin ∧
    packFirst PCfg.good 65536 1031 64505 = .written ∧
    packFirst PCfg.good 65536 1031 64506 = .rotated ∧
    packFirst PCfg.good 65536 0 65537 = .written := by decide

/-- guarded: the second `Add` is refused, the schedule without it ends with Close returned -/
example : wstep CCfg.good { (WSt.init 2) with closed := true } (.radd 1) = none ∧
    ((wrun CCfg.good (WSt.init 2) [.radd 0, .cstart, .cwait, .rdone 0, .cresume]).map (·.waiter)) =
      some .returned := by decide

/-- the same schedule with the repaired order: the worker goes round again and pops 0 -/
example : ((hrun HCfg.good (HSt.init0 1 2) (lostRequest ++ [.work])).map
    fun s => (s.wpc, s.ring, s.popped)) = some (.w0, [], [0]) := by decide


example : QCfg.good.GoodLive := by decide

/-- good configuration: same schedule, the call returns `blocked` -/
example : (run QCfg.good {} (St.init 1) writeAfterClose).map (·.pcRets) = some [.blocked] := by decide

/-- a throttled writer is released by `Close` (throttle loop sees the closed queue), the
measure goes 8 + 4 → 0 -/
example :
    ((run QCfg.good {} (St.init 1)
      [.thrOn, .call 0 (.set k v), .cstep 0]).map fun s => (mu s, (step QCfg.good {} s (.cstep 0)).isSome)) =
      some (12, false) ∧
    ((run QCfg.good {} (St.init 1)
      [.thrOn, .call 0 (.set k v), .cstep 0, .close, .cstep 0, .wexit, .close, .close, .close]).map
        fun s => (mu s, s.hist)) =
      some (0, [.call 0 (.set k v), .ret 0 .blocked]) := by decide

end NoKV.Props.C37

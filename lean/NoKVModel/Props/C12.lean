/-
C12  Clean close and reopen preserve contents and timestamp monotonicity.

Model: `NoKVModel/Disk/Model.lean` (E-Disk).  A stored record is (key, version, writing batch,
inline value or value-log pointer); expiry and the other metadata bytes travel inside the record
(the WAL / SST codecs are C13/C16/C35; here a record is atomic).  `reopen` = the steps of
`DB.Close` (commit queue and flush queue drained, manifest closed, WAL flushed, synced, closed)
followed by `recover` (the model of `Open`).  Compaction is not part of E-Disk: tables are the
flushed memtables (what `MaxVersion` sees through `levelManager.maxVersion`).
-/
import NoKVModel.Disk.TsLemmas

namespace NoKV.Props.C12
open NoKV NoKV.Disk

def s0 (sync : Bool) : St := { sync := sync }

theorem run_snoc (c : Cfg) (s : St) (ops : List Op) (op : Op) : run c s (ops ++ [op]) = runOp c (run c s ops) op := by
  simp [run, List.foldl_append]

/-- **Reopen is the identity on contents.**  After any history — commits with any rotation /
spill decisions, flushes, earlier crashes and reopens, with or without SyncWrites — a clean close
followed by reopen yields exactly the records the database held: every key, every version, same
values / pointers, same order.  By induction this holds for any number of repetitions (the history
`ops` may itself end in reopens). -/
theorem C12_reopen_id (c : Cfg) (hc : c.closeFlushesWal = true ∧ c.flushOrder = .sstManifestRemove)
    (sync : Bool) (ops : List Op) :
    written (run c (s0 sync) (ops ++ [.reopen])) = written (run c (s0 sync) ops) := by
  obtain ⟨hcl, hf⟩ := hc
  rw [run_snoc]
  generalize hs : run c (s0 sync) ops = s
  have hI : SegsOK s.segs := by
    rw [← hs]
    refine reach_inv c (fun s => SegsOK s.segs) SegPre ?_ ?_ ?_ (s0 sync) ?_ ops
    · intro s st hi hp; exact segsOK_step s st hi hp
    · intro s op _; exact opSteps_goodSeg c hf s op
    · intro s _; exact segsOK_recover c s
    · exact ⟨rfl, rfl, Nat.le_refl _⟩
  simp only [runOp, finish, opSteps, closeSteps, hcl, if_true]
  rw [written_recover]
  -- the state after the close steps: the WAL buffer has been flushed
  have hsegs : (execAll s ([Step.nop "close:manifest"] ++ [Step.wSync] ++ [Step.nop "sync:wal", Step.nop "close:wal", Step.closeDb])).segs
      = modLast (fun sg => { sg with durable := sg.recs.length }) s.segs := by
    simp [execAll, exec]
  have hok : SegsOK (modLast (fun sg => { sg with durable := sg.recs.length }) s.segs) :=
    segsOK_step s .wSync hI trivial
  rw [recLog_eq _ (by rw [hsegs]; exact hok)]
  simp only [written, hsegs]
  have e1 : allRecs (modLast (fun sg => { sg with durable := sg.recs.length }) s.segs) = allRecs s.segs :=
    allRecs_modLast_dur _ _
  have e2 : durLen (modLast (fun sg => { sg with durable := sg.recs.length }) s.segs) = (allRecs s.segs).length := by
    unfold durLen; rw [e1, pend_modLast_flush]; rfl
  unfold allRecs at e1 e2
  rw [e2, e1]
  exact List.take_length

/-- **Timestamp monotonicity.**  In every reachable state — in particular right after any reopen
or crash recovery — the oracle's next commit timestamp is larger than every stored version. -/
theorem C12_ts_monotone (c : Cfg)
    (hc : c.seedMem = true ∧ c.seedTables = true ∧ c.seedPlusOne = true ∧ c.seedGe = true) (sync : Bool) (ops : List Op) :
    ∀ r ∈ written (run c (s0 sync) ops), r.ver < (run c (s0 sync) ops).nextTs := by
  have hI : TsInv (run c (s0 sync) ops) := by
    refine reach_inv c TsInv (fun _ _ => True) ?_ ?_ ?_ (s0 sync) ?_ ops
    · intro s st hi _; exact tsInv_step s st hi
    · intro s op _; exact goodRun_of_forall _ _ _ (fun _ _ _ => trivial)
    · intro s _; exact tsInv_recover c hc s
    · exact ⟨fun r hr => by simp [s0, allRecs] at hr, Nat.lt_succ_self 0⟩
  exact hI.1

/-- the version a commit writes is the oracle's next timestamp at the time it is accepted … -/
theorem C12_commit_version (s : St) (bid : Nat) (es : List Ent) :
    (exec s (.accept bid es)).curVer = s.nextTs ∧ (exec s (.accept bid es)).nextTs = s.nextTs + 1 := ⟨rfl, rfl⟩

/-- … and every record it appends carries that version -/
theorem C12_append_version (s : St) (e : Ent) (fin : Bool) (hne : s.segs ≠ []) :
    ∃ r, written (exec s (.wAppend e fin)) = written s ++ [r] ∧ r.ver = s.curVer := by
  refine ⟨_, allRecs_modLast_append _ _ hne, rfl⟩

/-- an oracle seeded with the maximum itself (instead of maximum + 1) would hand out a stored version again -/
theorem C12_fails_seedNoPlus (c : Cfg) (hc : c.seedPlusOne = false) :
    ¬ ∀ r ∈ written (run { Cfg.good with seedPlusOne := c.seedPlusOne } (s0 true) [.commit 1 [(⟨1, false, 0⟩, {})] false, .reopen]),
        r.ver < (run { Cfg.good with seedPlusOne := c.seedPlusOne } (s0 true) [.commit 1 [(⟨1, false, 0⟩, {})] false, .reopen]).nextTs := by
  rw [hc]; decide

/-- with `committed > nextTxnTs` instead of `>=` a database holding exactly one committed
transaction (version 1) reopens with the oracle still at 1: the next commit reuses version 1 -/
theorem C12_fails_seedGt (c : Cfg) (hc : c.seedGe = false) :
    ¬ ∀ r ∈ written (run { Cfg.good with seedGe := c.seedGe } (s0 true) [.commit 1 [(⟨1, false, 0⟩, {})] false, .reopen]),
        r.ver < (run { Cfg.good with seedGe := c.seedGe } (s0 true) [.commit 1 [(⟨1, false, 0⟩, {})] false, .reopen]).nextTs := by
  rw [hc]; decide

/-! ### non-vacuity -/

/-- three versions of one key across a flush and two reopens; contents unchanged, next timestamp 4 -/
def demoOps : List Op :=
  [ .commit 1 [(⟨1, false, 0⟩, {}), (⟨2, true, 0⟩, {})] false, .commit 2 [(⟨1, false, 0⟩, { mrot := true })] false, .flush,
    .reopen, .commit 3 [(⟨1, true, 0⟩, { vrot := true })] false, .reopen ]

example : (written (run Cfg.asis (s0 false) demoOps)).map (fun r => (r.key, r.ver)) = [(1, 1), (2, 1), (1, 2), (1, 3)] := by decide
example : (run Cfg.asis (s0 false) demoOps).nextTs = 4 := by decide

end NoKV.Props.C12

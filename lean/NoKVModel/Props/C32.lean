/-
C32  The watermark never passes an unfinished index.

Model: NoKVModel/Conc/Watermark.lean (one micro-step per atomic load / add / CAS / mutex section
of Begin, Done, tryAdvance, WaitForMark; the values a thread has loaded are thread-local).
All theorems quantify over every reachable state of every schedule with any number of threads and
indices.  Helper lemmas: Conc/WatermarkLemmas.lean, Conc/WatermarkContract.lean.

What is NOT proved here (and why):
 * The statement "for ANY interleaving of begin calls the mark never reaches a begun, unfinished
   index" is false of this lock-free design even with the repaired order: `tryAdvance` loads the
   count of `next` and CASes later; a `Begin(next)` with `doneUntil < next <= lastIndex` may
   increment in between (`C32_fails_general`, a theorem about the model; it is not recorded as a
   finding because the tree has no yield point between that load and the CAS to replay it).
   The positive theorem is therefore stated under the usage contract of `oracle.newCommitTs`
   (Begin calls serialized, every index above lastIndex): `C32_never_passes_serialized`.
 * The sliding window (`ensureWindow`, `rebuildWindowLocked`) is modelled for WHOLE calls only
   (Conc/WatermarkWindow.lean): `C32_window_refines` proves that with the extracted window rules
   any sequence of Begin / Done / BeginMany / DoneMany calls keeps, across every rebuild, the
   pending count of every index at or above the mark equal to #Begin − #Done and moves the mark
   exactly as the window-free semantics does.  It is `…_partial` in two respects, both stated at
   the theorem: the window-free whole-call semantics `aCall` is tied to the micro-step model only
   by the driver's run-time comparison, not by a theorem; and a rebuild that runs concurrently
   with an `Add` on the old window (the window-copy race) is not modelled at all.
   BeginMany in the micro-step model = `count i …` followed by `publish last` (no contract theorem:
   the oracle only calls Begin).
-/
import NoKVModel.Conc.WatermarkContract
import NoKVModel.Conc.WatermarkWindowLemmas

/-
Which theorem needs which fact value:
  C32_monotone, C32_wait              every value of countsFirst / tracksZero / holdsAtDone
  C32_never_passes_serialized         countsFirst = true; any tracksZero, any holdsAtDone (the extra
                                      load of slot(doneUntil) only adds a way to return; under the
                                      contract every index <= doneUntil is finished, so it never fires)
  C32_fails_asis_order                countsFirst = false; any tracksZero, any holdsAtDone
  C32_fails_general                   countsFirst = true; any tracksZero, any holdsAtDone
-/
namespace NoKV.Props.C32
open NoKV.Conc NoKV.Conc.WM

/-- index `j` has begun and not finished: fewer `Done(j)` decrements than `Begin(j)` calls that
executed their first micro-step -/
def Unfinished (s : St) (j : Nat) : Prop := s.nDoneDec j < s.nBegun j

/-- **Monotone.**  No step of any thread ever decreases `doneUntil` (any configuration, with or
without the usage contract). -/
theorem C32_monotone (c : WMCfg) (_hc : True) (contract : Bool) (s s' : St) (a : Act)
    (_hr : Reachable (sys c contract) s) (hs : step c contract s a = some s') :
    s.doneUntil ≤ s'.doneUntil :=
  step_mono c contract s s' a hs

/-- **Never passes, contract version.**  With count-then-publish and the usage contract (Begin
calls serialized, each index above lastIndex — exactly how `oracle.newCommitTs` uses `txnMark`),
in every reachable state no index at or below `doneUntil` is begun and unfinished; and the mark
never exceeds the last published index. -/
theorem C32_never_passes_serialized (c : WMCfg) (hc : c.Good) (s : St)
    (hr : Reachable (sys c true) s) :
    (∀ j, j ≤ s.doneUntil → ¬ Unfinished s j) ∧ s.doneUntil ≤ s.lastIndex := by
  have hn := N.reachable hc s hr
  refine ⟨?_, hn.le⟩
  intro j hj hu
  unfold Unfinished at hu
  rw [hn.begunEq j] at hu
  have := hn.m j hj
  omega

/-- **Wait.**  `WaitForMark(i)` returns only in states with `doneUntil >= i` (any configuration,
with or without the contract); by `C32_never_passes_serialized` every begun index up to `i` has
then finished. -/
theorem C32_wait (c : WMCfg) (_hc : True) (contract : Bool) (s : St)
    (hr : Reachable (sys c contract) s) (tid : Nat) (t : Thr) (ht : s.thr tid = some t)
    (hret : t.returned = true) : t.kind.idx ≤ s.doneUntil :=
  ((W.reachable c contract s hr) tid t ht).returnedLe hret

/-! ### the sliding window (whole calls) -/

open NoKV.Conc.WMW in
/-- **Window refinement (sequential), partial.**  For the good window rules (growth counts the slot
of the index itself, the copy scans the whole old window, the new base is doneUntil) and every value
of the other facts: after ANY sequence of whole calls
 * doneUntil and lastIndex are those of the window-free semantics `runA`;
 * the window always starts at or below the mark;
 * for every index j >= doneUntil the pending count the window holds (0 if j is outside the window)
   is exactly (#`+1` on j) − (#`-1` on j): no rebuild loses or invents a count;
and in the window-free semantics a call that ends in tryAdvance leaves the mark where it cannot
move further (`C32_mark_settled`).
Partial because: (1) `aCall` = "the micro-step model run to completion without interleaving" is
compared at run time by the driver, not proved; (2) calls that interleave with a rebuild are outside
this model. -/
theorem C32_window_refines_partial (wc : WinCfg) (hc : wc.Good) (cs : List Call) :
    (runW wc cs).doneUntil = (runA wc.wm cs).du ∧ (runW wc cs).lastIndex = (runA wc.wm cs).li ∧
    (runW wc cs).base ≤ (runW wc cs).doneUntil ∧
    (∀ j, (runW wc cs).doneUntil ≤ j →
      cntOf (runW wc cs) j = ((runA wc.wm cs).nBegin j : Int) - ((runA wc.wm cs).nDone j : Int)) := by
  have h := Rel.run hc cs
  refine ⟨h.du.symm, h.li.symm, h.baseLe, ?_⟩
  intro j hj
  rw [← h.cnt j hj]
  exact CountsOk.run wc.wm cs j

open NoKV.Conc.WMW in
/-- after a Begin (count-first order), a non-ignored Done, or a non-empty BeginMany the mark is
settled: it is at lastIndex, or the next index is pending, or (holdsAtDone) the index at the mark is -/
theorem C32_mark_settled (c : WMCfg) (hc : c.Good) (a : ASt) :
    (∀ i, Settled c (aCall c a (.begin i))) ∧
    (∀ i, ¬ (i = 0 ∧ c.tracksZero = false) → Settled c (aCall c a (.done i))) ∧
    (∀ is l, is.getLast? = some l → Settled c (aCall c a (.beginMany is))) := by
  have hcf : c.countsFirst = true := hc
  refine ⟨?_, ?_, ?_⟩
  · intro i
    simp only [aCall, hcf, if_true]
    exact aTry_settled c _
  · intro i hi
    simp only [aCall, aAddIndex, hi, if_false]
    exact aTry_settled c _
  · intro is l hl
    simp only [aCall, hl, hcf, if_true]
    exact aTry_settled c _

/-! ### publish-then-count order (finding `watermark-publish-before-count`, fixed by 0630bbc) -/

/-- Contract respected.  Begin(1) completes; Begin(2) publishes lastIndex = 2 and is preempted
before its `+1`; Done(1) decrements and its tryAdvance moves the mark over 1 and then over 2,
whose slot still reads 0.  (Actions of finished threads are not enabled and are skipped by `run`,
so the same schedule serves every value of the other two facts.) -/
def witness : List Act :=
  [Act.begin 0 1] ++ List.replicate 12 (Act.run 0) ++   -- Begin(1) runs to completion
  [Act.begin 1 2, Act.run 1] ++                          -- Begin(2): setLast 2 … preempted
  [Act.done 2 1] ++ List.replicate 24 (Act.run 2)        -- Done(1): slot(1) := 0; CAS 0→1; CAS 1→2

theorem C32_fails_asis_order (c : WMCfg) (hc : c.countsFirst = false) :
    ∃ s, Reachable (sys c true) s ∧ s.doneUntil = 2 ∧ Unfinished s 2 := by
  obtain ⟨a, b, d⟩ := c
  simp only at hc
  subst hc
  refine ⟨run (sys ⟨false, b, d⟩ true) initSt witness, run_reachable _ _ (.init rfl) _, ?_, ?_⟩
  · cases b <;> cases d <;> decide
  · unfold Unfinished
    cases b <;> cases d <;> decide

/-- Without the contract the repaired order does not help (model-level theorem, see the header):
Begin(3)'s tryAdvance has loaded slot(1) = 0; Begin(1) — an index below lastIndex — increments;
the CAS moves the mark over the begun, unfinished index 1. -/
theorem C32_fails_general (c : WMCfg) (hc : c.Good) :
    ∃ s, Reachable (sys c false) s ∧ s.doneUntil = 1 ∧ Unfinished s 1 := by
  obtain ⟨a, b, d⟩ := c
  simp only [WMCfg.Good] at hc
  subst hc
  -- add 3; advance (d=0 >= L=0: 2 steps); setLast 3; endBegin; advance: start, d=0, [slot(0)], slot(1)=0 → about to CAS
  refine ⟨run (sys ⟨true, b, d⟩ false) initSt
    ([Act.begin 0 3] ++ List.replicate (if d then 9 else 8) (Act.run 0) ++
      [Act.begin 1 1, Act.run 1,                            -- Begin(1): slot(1) := 1
       Act.run 0]),                                         -- CAS 0→1
    run_reachable _ _ (.init rfl) _, ?_, ?_⟩
  · cases b <;> cases d <;> decide
  · unfold Unfinished
    cases b <;> cases d <;> decide

/-! ### non-vacuity -/

example : WMCfg.good.Good := by decide

/-- under the good order the as-is schedule leaves the mark at 1: Begin(2) has counted before it
published, so Done(1)'s tryAdvance never sees index 2 with an empty slot -/
example : (run (sys WMCfg.good true) initSt witness).doneUntil = 1 := by
  decide

/-- `holdsAtDone`: an index equal to the mark that is begun again holds the mark (outside the
contract: this is how `oracle.readMark` is used) -/
example :
    (run (sys WMCfg.good false) initSt
      ([Act.begin 0 1] ++ List.replicate 12 (Act.run 0) ++ [Act.done 1 1] ++ List.replicate 12 (Act.run 1) ++
       [Act.begin 2 1] ++ List.replicate 12 (Act.run 2) ++      -- doneUntil = 1; Begin(1) again
       [Act.begin 3 2] ++ List.replicate 12 (Act.run 3) ++ [Act.done 4 2] ++ List.replicate 12 (Act.run 4))).doneUntil = 1 ∧
    (run (sys { WMCfg.good with holdsAtDone := false } false) initSt
      ([Act.begin 0 1] ++ List.replicate 12 (Act.run 0) ++ [Act.done 1 1] ++ List.replicate 12 (Act.run 1) ++
       [Act.begin 2 1] ++ List.replicate 12 (Act.run 2) ++
       [Act.begin 3 2] ++ List.replicate 12 (Act.run 3) ++ [Act.done 4 2] ++ List.replicate 12 (Act.run 4))).doneUntil = 2 := by
  decide

/-- the window model in action: a pending index exactly one window length ahead survives the
rebuild and holds the mark (the boundary a `needed := index - newBase` growth rule gets wrong) -/
example :
    let w := NoKV.Conc.WMW.runW NoKV.Conc.WMW.WinCfg.good [.beginMany [3, 65536]]
    w.size = 131072 ∧ w.base = 0 ∧ NoKV.Conc.WMW.cntOf w 65536 = 1 ∧ NoKV.Conc.WMW.cntOf w 3 = 1 ∧ w.doneUntil = 2 := by
  decide

end NoKV.Props.C32

/-
C30  Concurrent Redis clients never lose updates.

"With several concurrent clients, the final value of a counter equals its initial value plus the
deltas of all INCR-family commands that replied successfully.  Of several concurrent SET NX
commands on an absent key, at most one replies OK."  — embedded and raft-backed deployments.

Model: `NoKVModel/Client/Redis.lean` (each command = begin/snapshot-read step + commit step; any
number of clients, any command lists, any schedule).  `okSum` / `nxOk` are the ghost counters of
OK replies.  Helper lemmas: `NoKVModel/Client/RedisLemmas.lean`.

Assumed, not proved here: a transaction that starts sees every commit with a smaller timestamp
(embedded: the watermark contract of C05/C32; raft: Percolator snapshot reads, C17) and the
conflict history is not pruned above a live reader (C03/C05); a raft-backed command's two-phase
commit is one atomic step (single-key transaction; C28 for the multi-key case).
-/
import NoKVModel.Client.RedisLemmas

namespace NoKV.Props.C30
open NoKV NoKV.Client

/-- **Embedded deployment (headline).**  With conflict detection reaching `NoKV.Open`
(`DetectConflicts = true`) and every read of `Txn.Get` recorded in the read set: for every initial value, every number of clients with any command
lists and every interleaving of their steps, in every reachable state the counter equals its
initial value plus the sum of the deltas of the INCR-family commands that replied OK, and at
most one SET NX on the initially absent key has replied OK. -/
theorem C30_embedded (c : RedisCfg) (hc : c.detectConflicts = true ∧ c.trackGet = true) (v : Int) (progs : List (List Cmd))
    (sched : List Nat) :
    (rrun c .embedded (RState.start v progs) sched).ctr = v + (rrun c .embedded (RState.start v progs) sched).okSum ∧
    (rrun c .embedded (RState.start v progs) sched).nxOk ≤ 1 := by
  have inv := RInv.run (c := c) (m := .embedded) (by simp [RedisCfg.detects, hc.1, hc.2]) sched (RInv.start v progs)
  have h0 := rrun_init0 c .embedded sched (RState.start v progs)
  refine ⟨?_, inv.nxo⟩
  rw [inv.sum, h0]; rfl

/-- **Raft-backed deployment (headline for the repaired shape).**  When the write is validated
against the timestamp the value was read at, the same statement holds for the raft backend. -/
theorem C30_raft (c : RedisCfg) (hc : c.raftConflictFromReadTs = true) (v : Int) (progs : List (List Cmd))
    (sched : List Nat) :
    (rrun c .raft (RState.start v progs) sched).ctr = v + (rrun c .raft (RState.start v progs) sched).okSum ∧
    (rrun c .raft (RState.start v progs) sched).nxOk ≤ 1 := by
  have inv := RInv.run (c := c) (m := .raft) hc sched (RInv.start v progs)
  have h0 := rrun_init0 c .raft sched (RState.start v progs)
  refine ⟨?_, inv.nxo⟩
  rw [inv.sum, h0]; rfl

/-! ### the pinned tree -/

/-- two clients, one `INCR` each; schedule: both begin (snapshot 0), then both commit -/
def lostIncr : List (List Cmd) := [[.incr 1], [.incr 1]]
def lostSched : List Nat := [0, 1, 0, 1]
def twoSetNX : List (List Cmd) := [[.setnx 1], [.setnx 2]]

/-- Embedded, `DetectConflicts = false` (what `cmd/nokv-redis/main.go` passes to `NoKV.Open`):
both INCRs reply OK (sum of deltas 2) and the counter ends at 1; both SET NX reply OK. -/
theorem C30_fails_asis_embedded (c : RedisCfg) (hc : c.detectConflicts = false) :
    (rrun c .embedded (RState.start 0 lostIncr) lostSched).okSum = 2 ∧
    (rrun c .embedded (RState.start 0 lostIncr) lostSched).ctr = 1 ∧
    (rrun c .embedded (RState.start 0 twoSetNX) lostSched).nxOk = 2 := by
  obtain ⟨a, b, t⟩ := c
  simp only at hc
  subst hc
  cases b <;> cases t <;> decide

/-- Raft backend, as-is (value read at t1, prewrite at a fresh start ts > t1, commit = start+1):
client 0 reads at 1, client 1 reads at 2, client 0 writes (start 3, commit 4), client 1 writes
(start 5, commit 6; no write has commit ts ≥ 5): both reply OK, the counter ends at 1. -/
theorem C30_fails_asis_raft (c : RedisCfg) (hc : c.raftConflictFromReadTs = false) :
    (rrun c .raft (RState.start 0 lostIncr) lostSched).okSum = 2 ∧
    (rrun c .raft (RState.start 0 lostIncr) lostSched).ctr = 1 ∧
    (rrun c .raft (RState.start 0 twoSetNX) lostSched).nxOk = 2 := by
  obtain ⟨a, b, t⟩ := c
  simp only at hc
  subst hc
  cases a <;> cases t <;> decide

/-! ### non-vacuity -/

/-- with detection on, the same schedule makes the second INCR fail (it is not counted) -/
example :
    (rrun RedisCfg.good .embedded (RState.start 0 lostIncr) lostSched).okSum = 1 ∧
    (rrun RedisCfg.good .embedded (RState.start 0 lostIncr) lostSched).ctr = 1 ∧
    (rrun RedisCfg.good .embedded (RState.start 0 twoSetNX) lostSched).nxOk = 1 := by decide

/-- a longer run where every command succeeds -/
example :
    (rrun RedisCfg.good .embedded (RState.start 10 [[.incr 5, .incr (-2)], [.incr 7], [.setnx 9]])
      [0, 0, 1, 1, 2, 2, 0, 0]).ctr = 20 := by decide

end NoKV.Props.C30

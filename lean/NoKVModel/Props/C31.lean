/-
C31  The RESP parser is total and allocation-bounded.

Only property theorems, their non-vacuity examples and the `…_fails_asis` theorems live here;
helper lemmas are in `Redis/RespLemmas.lean`.  Every theorem takes the configuration `c` (facts
extracted from `cmd/nokv-redis/server.go:parseRESP`) and a decidable hypothesis about it first,
so `Generated/Status_C31.lean` can instantiate it at the extracted configuration with `by decide`.

The parser model (`Redis.parse`, `Redis.parseConn`) is a total function on byte lists by
construction; what Go can do beyond returning — the `makeslice` panic and the runtime's fatal
out-of-memory — are explicit outcomes (`panic`, `oom`), and every modelled `make` is counted in
`alloc`.
-/
import NoKVModel.Redis.RespLemmas

namespace NoKV.Props.C31
open NoKV NoKV.Redis

/-- **Totality without panic.**  Whatever bytes a client sends, the connection loop ends with an
ordinary parse error (a clean EOF included): never with a panic, never with the process out of
memory. -/
theorem C31_total (c : PCfg) (hc : c.Good) (b : Bytes) :
    ∃ e, (parseConn c b).fin = .err e := by
  have := (parseAll_bound c hc (b.length + 1) b).1
  unfold parseConn
  cases h : (parseAll c (b.length + 1) b).fin with
  | err e => exact ⟨e, rfl⟩
  | panic => exact absurd h this.1
  | oom => exact absurd h this.2

/-- **Allocation bound.**  Everything the parser allocates while it consumes a byte stream `b`
(all frames, up to and including the failing one) is at most 100 bytes per byte received plus
one pre-allocated argument array (`arrCap` slice headers) and one first bulk buffer (`bulkChunk`). -/
theorem C31_alloc_bound (c : PCfg) (hc : c.Good) (b : Bytes) :
    (parseConn c b).alloc ≤ 100 * b.length + sliceHdr * c.arrCap + c.bulkChunk :=
  (parseAll_bound c hc (b.length + 1) b).2

/-- The same for one call of `parseRESP`, and a frame that parses successfully costs at most 100
bytes per byte it consumed (no additive constant). -/
theorem C31_alloc_bound_frame (c : PCfg) (hc : c.Good) (b : Bytes) :
    (parse c b).alloc ≤ 100 * b.length + sliceHdr * c.arrCap + c.bulkChunk ∧
    (∀ args rest, (parse c b).out = .ok args rest → (parse c b).alloc ≤ 100 * (b.length - rest.length)) := by
  obtain ⟨_, h2, h3⟩ := parse_bound c hc b
  refine ⟨h2, ?_⟩
  intro args rest h
  have := h3 args rest h
  omega

/-- **Well-formed arrays.**  The RESP array encoding of any argument list (lengths within Go's
`int`), followed by anything, parses into exactly those arguments and leaves exactly the rest. -/
theorem C31_wellformed (c : PCfg) (hc : c.Good) (args : List Bytes) (rest : Bytes)
    (hn : args.length ≤ int64Max) (hlen : ∀ a ∈ args, a.length ≤ int64Max) :
    (parse c (encodeArray args ++ rest)).out = .ok (args.map some) rest :=
  parse_encodeArray c hc args rest hn hlen

/-- **Pipelines.**  Any number of commands sent back to back parse into exactly those commands, in
order, and the stream ends cleanly.  The parse is a function of the bytes alone: the model has no
notion of the pieces in which a connection delivers them, so nothing about segmentation or
buffering can influence the result (for the real code that independence is what the chunked
correspondence runs and the fact `resp.bulkCopy` check). -/
theorem C31_pipeline (c : PCfg) (hc : c.Good) (cmds : List (List Bytes))
    (h : ∀ a ∈ cmds, a.length ≤ int64Max ∧ ∀ x ∈ a, x.length ≤ int64Max) :
    (parseConn c (encodeStream cmds)).frames = cmds.map (fun a => a.map some) ∧
    (parseConn c (encodeStream cmds)).fin = .err .eof := by
  have := encodeStream_length cmds
  exact parseAll_encodeStream c hc cmds _ (by omega) h

/-- **Inline commands.**  Words free of white space (and of non-ASCII bytes), separated by single
spaces and terminated by CR LF, parse into exactly those words. -/
theorem C31_inline (c : PCfg) (_hc : c.Good) (ws : List Bytes) (rest : Bytes)
    (hws : ∀ w ∈ ws, plainWord w) (hne : ws ≠ []) (hstar : (joinSp ws).head? ≠ some 42) :
    (parse c (joinSp ws ++ crlf ++ rest)).out = .ok (ws.map some) rest :=
  parse_inline c ws rest hws hne hstar

/-! ### the as-is code: allocation sized by declared lengths -/

/-- `*100000000\r\n` (14 bytes) -/
def witnessArrayBig : Bytes := [42, 49, 48, 48, 48, 48, 48, 48, 48, 48, 13, 10]
/-- `*9223372036854775807\r\n` (22 bytes) -/
def witnessArrayPanic : Bytes :=
  [42, 57, 50, 50, 51, 51, 55, 50, 48, 51, 54, 56, 53, 52, 55, 55, 53, 56, 48, 55, 13, 10]
/-- `*1\r\n$1000000000\r\n` -/
def witnessBulkBig : Bytes := [42, 49, 13, 10, 36, 49, 48, 48, 48, 48, 48, 48, 48, 48, 48, 13, 10]
/-- `*1\r\n$9223372036854775807\r\n` -/
def witnessBulkPanic : Bytes :=
  [42, 49, 13, 10, 36, 57, 50, 50, 51, 51, 55, 50, 48, 51, 54, 56, 53, 52, 55, 55, 53, 56, 48, 55, 13, 10]

/-- With `make([][]byte, 0, n)` (the pinned tree) twelve bytes make the parser allocate 2.4 GB,
far beyond the bound of `C31_alloc_bound`, and twenty-two bytes make it panic. -/
theorem C31_fails_asis_array_prealloc (c : PCfg) (hc : c.arrPreallocCapped = false) :
    (parseConn c witnessArrayBig).alloc = 2400000011 ∧
    memBig (parseConn c witnessArrayBig).alloc witnessArrayBig.length = true ∧
    (parseConn c witnessArrayPanic).fin = .panic := by
  refine ⟨?_, ?_, ?_⟩ <;>
    simp [parseConn, parseAll, parse, witnessArrayBig, witnessArrayPanic, readLine, splitLF, atoi, digitsVal, hc,
      elems, maxAlloc, memLimit, sliceHdr, int64Max, memBig]

/-- With `make([]byte, l)` (the pinned tree) a declared bulk length of 10^9 allocates 1 GB although
no payload byte arrived, and a declared length of 2^63-1 panics. -/
theorem C31_fails_asis_bulk_prealloc (c : PCfg) (hc : c.bulkChunked = false) :
    1000000000 ≤ (parseConn c witnessBulkBig).alloc ∧
    memBig (parseConn c witnessBulkBig).alloc witnessBulkBig.length = true ∧
    (parseConn c witnessBulkPanic).fin = .panic := by
  have ha : (parseConn c witnessBulkBig).alloc =
      3 + (if c.arrPreallocCapped then 24 * min 1 c.arrCap else 24) + (12 + 1000000000) := by
    cases hcap : c.arrPreallocCapped <;>
      simp [parseConn, parseAll, parse, witnessBulkBig, readLine, splitLF, atoi, digitsVal, hc, hcap,
        elems, readBulk, readFull_nil, maxAlloc, memLimit, sliceHdr, int64Max]
  refine ⟨by omega, ?_, ?_⟩
  · have : witnessBulkBig.length = 17 := rfl
    simp only [memBig, this, decide_eq_true_eq]
    omega
  · cases hcap : c.arrPreallocCapped <;>
      simp [parseConn, parseAll, parse, witnessBulkPanic, readLine, splitLF, atoi, digitsVal, hc, hcap,
        elems, readBulk, maxAlloc, memLimit, sliceHdr, int64Max]

/-! ### non-vacuity -/

example : PCfg.good.Good := by decide

/-- the good configuration on the as-is witnesses: small allocation, ordinary end -/
example : (parseConn PCfg.good witnessArrayBig).alloc ≤ 100 * 12 + 24 * 1024 + 65536 ∧
    (parseConn PCfg.good witnessArrayPanic).fin = .err .eof ∧
    (parseConn PCfg.good witnessBulkPanic).fin = .err .eof := by decide

/-- `*2 $4 ECHO $2 hi` then inline `PING a`: two frames, clean end -/
example : (parseConn PCfg.good (encodeArray [[69, 67, 72, 79], [104, 105]] ++ [80, 73, 78, 71, 32, 97, 13, 10])).frames
    = [[some [69, 67, 72, 79], some [104, 105]], [some [80, 73, 78, 71], some [97]]] := by decide

end NoKV.Props.C31

/-
C19  Locks live exactly from prewrite until commit or rollback; CheckTxnStatus rolls back only an
expired primary lock; a commit below the lock's minimum commit timestamp is refused.

Only property theorems, their non-vacuity examples and `…_fails_asis` theorems live here.
The lifetime theorems are stated at the abstract versioned store (lock CF = one lock per key).
"Regardless of flushes and compactions": the lock and the tombstone that removes it live under one
internal key `(CFLock, key, MaxUint64)`; where the two records sit is modelled in `Perc/Phys.lean`
on top of the LSM model, `C19_lock_survives_maintenance` lifts C02's theorem to `GetLock`,
and the two `…_fails_asis_lsm_…` theorems show what the LSM read path of the tree as found does
to a removed lock (the C19 face of the C01/C02 findings `lsm-l0-oldest-wins`,
`lsm-ingest-minkey-order`).

ATOMICITY — assumption `HandlersAtomic`.  Every theorem here (and in C17, C18) composes the request
handlers as atomic steps: `apply c s req` is one transition.  That is justified BECAUSE each handler
(`Prewrite`, `Commit`, `BatchRollback`, `ResolveLock`, `CheckTxnStatus`) takes the latches of the
keys it names before its first read of the lock / write column and holds them until it returns, so
two handlers touching a common key never overlap.  A handler that reads the lock before
`latches.Acquire` and acts on that value afterwards (e.g. `CheckTxnStatus` re-writing, for its
min-commit push, a lock that a `Commit` removed in between) is outside the model: no history of
atomic steps produces a lock after the transaction's successful commit (`C19_lock_released`).
The assumption is not a Lean hypothesis (the model has no finer steps to state it in); it is tied
to the source by the extracted fact `latch.readsBeforeAcquire` (expected `none`, part of C19's
configuration in props/C19.json) and exercised by the harness's `race` op.

The configuration is `Phys.C19Cfg` (Percolator decisions + LSM decisions); the theorems about the
Percolator layer alone take its `perc` part (coercion).
-/
import NoKVModel.Perc.Outcome
import NoKVModel.Perc.Phys
import NoKVModel.Props.C02

namespace NoKV.Props.C19
open NoKV NoKV.Perc

/-- **The lock stays.**  After any history, if key `k` carries a lock of transaction `l.ts`, then
after any further history none of whose requests is a commit / rollback / resolve / check-status
*of that transaction*, `k` still carries a lock of that transaction: prewrites of others bounce,
rollbacks, resolves and status checks of other transactions do not touch it. -/
theorem C19_lock_kept (c : PercCfg) (hc : c.OwnerGood) (reqs₁ reqs₂ : List Req)
    (hwf₁ : ∀ r ∈ reqs₁, r.WF) (hwf₂ : ∀ r ∈ reqs₂, r.WF) (k : Bytes) (l : Lock)
    (hl : (run c Store.empty reqs₁ k).lock = some l) (hother : ∀ r ∈ reqs₂, ¬ r.ends l.ts) :
    ∃ l', (run c (run c Store.empty reqs₁) reqs₂ k).lock = some l' ∧ l'.ts = l.ts := by
  obtain ⟨hcf, ho⟩ := hc
  have hinv : Inv (run c Store.empty reqs₁) := Inv.run hcf reqs₁ _ hwf₁ Inv.empty
  generalize run c Store.empty reqs₁ = s at *
  have h0 : ∀ k', AtKey k (Held l.ts) k' (s k') := fun k' => ⟨hinv k', fun h => by subst h; exact ⟨l, hl, rfl⟩⟩
  clear hl hinv
  induction reqs₂ generalizing s with
  | nil => exact (h0 k).2 rfl
  | cons r rs ih =>
    simp only [run, List.foldl_cons]
    exact ih (fun r' hr' => hwf₂ r' (List.mem_cons_of_mem _ hr')) (fun r' hr' => hother r' (List.mem_cons_of_mem _ hr'))
      (apply c s r)
      (held_apply c hcf ho l.ts k s r (hwf₂ r List.mem_cons_self) (hother r List.mem_cons_self) h0)

/-- **Released for good.**  After any history, a `Commit` (resp. `BatchRollback`) of transaction
`st` that reports success leaves no lock of `st` on any of its keys, and whatever requests
follow — prewrites of `st` included — no lock of `st` ever shows up on that key again. -/
theorem C19_lock_released (c : PercCfg) (hc : c.ConflictGood) (reqs₁ reqs₂ : List Req)
    (hwf₁ : ∀ r ∈ reqs₁, r.WF) (hwf₂ : ∀ r ∈ reqs₂, r.WF) (st : Nat) (keys : List Bytes) (k : Bytes) (hk : k ∈ keys) :
    (∀ ct, st < ct → (commit c st ct (run c Store.empty reqs₁) keys).2 = none →
      ∀ l, (run c (commit c st ct (run c Store.empty reqs₁) keys).1 reqs₂ k).lock = some l → l.ts ≠ st) ∧
    ((batchRollback c st (run c Store.empty reqs₁) keys).2 = none →
      ∀ l, (run c (batchRollback c st (run c Store.empty reqs₁) keys).1 reqs₂ k).lock = some l → l.ts ≠ st) := by
  have hinv : Inv (run c Store.empty reqs₁) := Inv.run hc reqs₁ _ hwf₁ Inv.empty
  generalize run c Store.empty reqs₁ = s at *
  constructor
  · intro ct hlt hok l hl
    have hg := commit_ok_gone c hc st ct hlt k keys s hinv hk hok
    have hinv' : Inv (commit c st ct s keys).1 := Inv.apply hc (.commit st ct keys) hlt hinv
    have h2 := run_stable (Gone.stable hc k st) reqs₂ _ hwf₂ (fun k' => ⟨hinv' k', fun h => by subst h; exact hg⟩)
    exact ((h2 k).2 rfl).1 l hl
  · intro hok l hl
    have hg := rollback_ok_gone c hc st k keys s hinv hk hok
    have hinv' : Inv (batchRollback c st s keys).1 := Inv.apply hc (.rollback st keys) trivial hinv
    have h2 := run_stable (Gone.stable hc k st) reqs₂ _ hwf₂ (fun k' => ⟨hinv' k', fun h => by subst h; exact hg⟩)
    exact ((h2 k).2 rfl).1 l hl

/-- **TTL rule.**  With the overflow guard, a lock is expired exactly when its TTL is non-zero and
`current ≥ start + ttl` in unbounded arithmetic; and `CheckTxnStatus` answers "TTL-expire
rollback" exactly for a primary lock of the named transaction that is expired in that sense. -/
theorem C19_ttl (c : PercCfg) (hc : c.TtlGood) (l : Lock) (cur : Nat) (hcur : cur < two64) :
    (isExpired c l cur = true ↔ (l.ttl ≠ 0 ∧ l.ts + l.ttl ≤ cur)) ∧
    (∀ (q : CsReq) (ks : KS), q.cur = cur → ks.lock = some l →
      ((checkTxnStatusK c q ks).2.action = 1 ↔ (l.ts = q.lockTs ∧ l.ttl ≠ 0 ∧ l.ts + l.ttl ≤ cur))) := by
  obtain ⟨hop, hg⟩ := hc
  have hexp : isExpired c l cur = true ↔ (l.ttl ≠ 0 ∧ l.ts + l.ttl ≤ cur) := by
    simp only [isExpired, hg, hop, ge_nat, if_true]
    by_cases h0 : l.ttl = 0
    · simp [h0]
    · by_cases hlt : l.ts + l.ttl < two64
      · simp only [h0, hlt, if_false, if_true]
        constructor
        · intro h; simp at h; exact ⟨h0, by omega⟩
        · intro ⟨_, h⟩; simp; omega
      · simp only [h0, hlt, if_false]
        constructor
        · intro h; cases h
        · intro ⟨_, h⟩; omega
  refine ⟨hexp, ?_⟩
  intro q ks hq hl
  subst hq
  by_cases hts : l.ts = q.lockTs
  · by_cases he : isExpired c l q.cur = true
    · have h1 : (checkTxnStatusK c q ks).2.action = 1 := by simp [checkTxnStatusK, hl, hts, he]
      exact ⟨fun _ => ⟨hts, hexp.mp he⟩, fun _ => h1⟩
    · have he' : isExpired c l q.cur = false := by simpa using he
      have h1 : (checkTxnStatusK c q ks).2.action ≠ 1 := by
        simp only [checkTxnStatusK, hl, hts, he', ne_eq, not_true_eq_false, if_false, Bool.false_eq_true]
        split <;> simp
      exact ⟨fun h => absurd h h1, fun ⟨_, h⟩ => absurd (hexp.mpr h) he⟩
  · have h1 : (checkTxnStatusK c q ks).2.action ≠ 1 := by simp [checkTxnStatusK, hl, hts]
    exact ⟨fun h => absurd h h1, fun ⟨h, _⟩ => absurd h hts⟩

/-- The tree as found (no guard): the comparison is against `(start + ttl) mod 2^64`. -/
theorem C19_ttl_asis (c : PercCfg) (hc : c.TtlAsis) (l : Lock) (cur : Nat) :
    isExpired c l cur = true ↔ (l.ttl ≠ 0 ∧ (l.ts + l.ttl) % two64 ≤ cur) := by
  obtain ⟨hop, hg⟩ := hc
  simp only [isExpired, hg, hop, ge_nat]
  by_cases h0 : l.ttl = 0
  · simp [h0]
  · simp only [h0, if_false, Bool.false_eq_true]
    constructor
    · intro h; simp at h; exact ⟨h0, by omega⟩
    · intro ⟨_, h⟩; simp; omega

/-- **Min-commit rule.**  `commitKey` refuses a commit exactly when the commit ts is below the
lock's minimum commit ts (then nothing changes); `CheckTxnStatus` with a caller start ts above it
raises the minimum to `caller + 1`, so a commit at or below the caller's start ts is refused. -/
theorem C19_min_commit (c : PercCfg) (hc : c.MinCommitGood) (key : Bytes) (l : Lock) (ct : Nat) (ks : KS) :
    (ct < l.minCommit → commitK c key l ct ks = (ks, some (.expired key ct l.minCommit))) ∧
    (l.minCommit ≤ ct → ∀ a b d, (commitK c key l ct ks).2 ≠ some (.expired a b d)) ∧
    (∀ (q : CsReq), ks.lock = some l → l.ts = q.lockTs → isExpired c l q.cur = false →
      0 < q.caller → q.caller + 1 < two64 → l.minCommit < q.caller + 1 →
      (checkTxnStatusK c q ks).1.lock = some { l with minCommit := q.caller + 1 }) := by
  have hop : c.minCommitOp = .gt := hc
  refine ⟨?_, ?_, ?_⟩
  · intro h
    simp [commitK, hop, gt_nat, h]
  · intro h a b d
    have hn : ¬ ct < l.minCommit := by omega
    simp only [commitK, hop, gt_nat, hn, decide_false, Bool.false_eq_true, if_false]
    cases byStart l.ts ks.writes with
    | none => simp
    | some w =>
      simp only
      split
      · simp
      · split <;> simp
  · intro q hl hts he hc0 hlt hmin
    have hmod : (q.caller + 1) % two64 = q.caller + 1 := Nat.mod_eq_of_lt hlt
    simp [checkTxnStatusK, hl, hts, he, hc0, hmod, hmin]

/-! ### the tree as found -/

def kc : Bytes := [0x63]

/-- transaction 40 prewrites `c`; transaction 35 (which never held anything on `c`) is rolled back on `c` -/
def wForeign : List Req := [.prewrite ⟨40, kc, 100, 0⟩ [⟨.put, kc, [4]⟩], .rollback 35 [kc]]

/-- `rollbackKey` deletes whatever lock the key carries: the rollback of transaction 35 removes
the lock of transaction 40, although no request of transaction 40 was made. -/
theorem C19_fails_asis_foreign_rollback (c : PercCfg) (hc : c.AllOps ∧ c.rollbackChecksOwner = false) :
    (∃ l, (run c Store.empty (wForeign.take 1) kc).lock = some l ∧ l.ts = 40) ∧
    (∀ r ∈ wForeign.drop 1, ¬ r.ends 40) ∧
    (run c Store.empty wForeign kc).lock = none := by
  obtain ⟨hops, hflag⟩ := hc
  rw [PercCfg.eq_ofFlags c hops, hflag]
  generalize c.getSkipsRollback = b1
  generalize c.getSkipsLock = b2
  generalize c.scanSkipsRollback = b3
  generalize c.scanSkipsLock = b4
  generalize c.scanSeesLockOnlyKeys = b5
  generalize c.commitChecksRollback = b6
  generalize c.ttlOverflowGuard = b7
  generalize c.prewriteKeepsOwnLock = b8
  refine ⟨⟨⟨kc, 40, 100, .put, 0⟩, ?_, rfl⟩, ?_, ?_⟩
  · cases b1 <;> cases b2 <;> cases b3 <;> cases b4 <;> cases b5 <;> cases b6 <;> cases b7 <;> cases b8 <;> decide
  · intro r hr
    simp only [wForeign, List.drop_succ_cons, List.drop_zero, List.mem_singleton] at hr
    subst hr
    simp [Req.ends]
  · cases b1 <;> cases b2 <;> cases b3 <;> cases b4 <;> cases b5 <;> cases b6 <;> cases b7 <;> cases b8 <;> decide

/-- `lock.Ts + lock.TTL` wraps: a lock of transaction 60 with TTL `2^64 - 1` ("never expires")
counts as expired at current ts 61, although `60 + ttl ≤ 61` is false. -/
theorem C19_fails_asis_ttl_wrap (c : PercCfg) (hc : c.TtlAsis) :
    isExpired c ⟨kc, 60, two64 - 1, .put, 0⟩ 61 = true ∧ ¬ (60 + (two64 - 1) ≤ 61) := by
  refine ⟨(C19_ttl_asis c hc _ 61).mpr ?_, by decide⟩
  decide

/-! ### regardless of flushes and compactions -/

open NoKV.Perc.Phys in
/-- **GetLock answers the most recent lock-CF write of the key** — the lock last set or the
tombstone of its removal — wherever memtable rotations, flushes, L0→ingest moves, ingest merges
(`keep`), ingest drains and reopens have put the two records, for every good LSM configuration.
Hence a lock removed by commit / rollback (its tombstone is the most recent write) does not
reappear, whatever maintenance happens in between.

This is `C02_getv_refines` (all modelled LSM operations) read at the lock column's internal key
`(CFLock, key, MaxUint64)`.  Of `Cfg.AllGood`, the version-0 decision (`zeroVersionFound`) cannot
matter here — the lock column's only version is `MaxUint64` — and neither can `crossPick` (one
version per key); they are hypotheses only because the lifted theorem has them. -/
theorem C19_lock_survives_maintenance (c : C19Cfg) (hc : c.lsm.AllGood) (ops : List Lsm.Op)
    (hops : ∀ op ∈ ops, op.wf) (k : Bytes) :
    lockOf c.lsm (Lsm.run c.lsm {} ops) k =
      (match Lsm.pick ⟨cfLock, k, Lsm.maxVersion⟩ (Lsm.logOf [] ops) with
       | some e => if e.del then none else decLock e.val
       | none => none) := by
  unfold lockOf
  rw [NoKV.Props.C02.C02_getv_refines c.lsm hc ops hops]
  cases Lsm.pick ⟨cfLock, k, Lsm.maxVersion⟩ (Lsm.logOf [] ops) <;> rfl

/-- the lock transaction 40 sets on `c` -/
def lock40 : Lock := ⟨kc, 40, 100, .put, 0⟩

open NoKV.Perc.Phys in
/-- the lock of transaction 40 is flushed to one L0 table, the tombstone of its removal to a second -/
def wL0 : List Lsm.Op :=
  [.put (lockEntry kc lock40), .rotate, .flush, .put (lockTomb kc), .rotate, .flush]

open NoKV.Perc.Phys in
/-- `searchL0SST` visits the L0 tables oldest first and `table.Search` keeps the first hit on equal
versions: once the lock and its tombstone sit in two L0 tables, `GetLock` answers the lock again
(finding `lsm-l0-oldest-wins`, here for the lock column). -/
theorem C19_fails_asis_lsm_l0_oldest_wins (c : C19Cfg)
    (hc : c.lsm.l0SearchDir = .oldestFirst ∧ c.lsm.tieRule = .lt) :
    lockOf c.lsm (Lsm.run c.lsm {} wL0) kc = some lock40 ∧
    Lsm.pick ⟨cfLock, kc, Lsm.maxVersion⟩ (Lsm.logOf [] wL0) = some (lockTomb kc) := by
  obtain ⟨pc, lc⟩ := c
  dsimp only at hc ⊢
  clear pc
  rcases lc with ⟨d, t, cp, lo, io, im, mk, to, ob, pk, zf⟩
  simp only at hc
  obtain ⟨rfl, rfl⟩ := hc
  cases cp <;> cases lo <;> cases io <;> cases im <;> cases mk <;> cases to <;> cases ob <;>
    cases pk <;> cases zf <;> decide

open NoKV.Perc.Phys in
/-- the lock of 40 (with its default-CF entry) goes to the ingest buffer; the tombstone follows in
a later table that also holds a smaller key (`a`), i.e. has a smaller min key -/
def wIngest : List Lsm.Op :=
  [.put (defEntry kc 40 (some [4])), .put (lockEntry kc lock40), .rotate, .flush, .l0move,
   .put (wEntry kc ⟨45, 40, .put⟩), .put (lockTomb kc),
   .put (defEntry [0x61] 50 (some [5])), .put (lockEntry [0x61] ⟨[0x61], 50, 100, .put, 0⟩),
   .rotate, .flush, .l0move]

open NoKV.Perc.Phys in
/-- The ingest buffer is searched in descending min-key order, not newest first: the older table
(greater min key) is met first and wins the tie — the removed lock is back (finding
`lsm-ingest-minkey-order`, here for the lock column). -/
theorem C19_fails_asis_lsm_ingest_minkey (c : C19Cfg)
    (hc : c.lsm.ingestOrder = .minKeyDesc ∧ c.lsm.tieRule = .lt) :
    lockOf c.lsm (Lsm.run c.lsm {} wIngest) kc = some lock40 ∧
    Lsm.pick ⟨cfLock, kc, Lsm.maxVersion⟩ (Lsm.logOf [] wIngest) = some (lockTomb kc) := by
  obtain ⟨pc, lc⟩ := c
  dsimp only at hc ⊢
  clear pc
  rcases lc with ⟨d, t, cp, lo, io, im, mk, to, ob, pk, zf⟩
  simp only at hc
  obtain ⟨rfl, rfl⟩ := hc
  cases d <;> cases cp <;> cases lo <;> cases im <;> cases mk <;> cases to <;> cases ob <;>
    cases pk <;> cases zf <;> decide

/-! ### non-vacuity -/

open NoKV.Perc.Phys in
/-- the same two placements produced by the request handlers themselves (prewrite, rollback /
commit of transaction 40 with the maintenance steps in between): under the LSM decisions of the
tree as found the lock is back, under the good ones it stays removed -/
example :
    let asis : Lsm.Cfg := { Lsm.Cfg.good with l0SearchDir := .oldestFirst, ingestOrder := .minKeyDesc, crossPick := .firstHit, zeroVersionFound := false }
    let pw40 : POp := .req (.prewrite ⟨40, kc, 100, 0⟩ [⟨.put, kc, [4]⟩])
    let h1 : List POp := [pw40, .rotate, .flush, .req (.rollback 40 [kc]), .rotate, .flush]
    let h2 : List POp := [pw40, .rotate, .flush, .l0move, .req (.commit 40 45 [kc]),
      .req (.prewrite ⟨50, [0x61], 100, 0⟩ [⟨.put, [0x61], [5]⟩]), .rotate, .flush, .l0move]
    (lockOf asis (prun PercCfg.good asis {} h1) kc).map (·.ts) = some 40 ∧
    (lockOf asis (prun PercCfg.good asis {} h2) kc).map (·.ts) = some 40 ∧
    lockOf Lsm.Cfg.good (prun PercCfg.good Lsm.Cfg.good {} h1) kc = none ∧
    lockOf Lsm.Cfg.good (prun PercCfg.good Lsm.Cfg.good {} h2) kc = none := by
  decide

example : PercCfg.good.OwnerGood ∧ PercCfg.good.TtlGood ∧ PercCfg.good.MinCommitGood := by decide
example : PercCfg.asis.TtlAsis := by decide

/-- under the good configuration the foreign rollback leaves the lock of transaction 40 in place,
and the never-expiring lock is not expired -/
example : ((run PercCfg.good Store.empty wForeign kc).lock.map (·.ts)) = some 40
    ∧ isExpired PercCfg.good ⟨kc, 60, two64 - 1, .put, 0⟩ 61 = false := by
  decide

end NoKV.Props.C19

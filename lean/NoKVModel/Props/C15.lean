/-
C15  Manifest reload equals in-memory state across rewrites and crashes.

Statement (properties.jsonl): for any sequence of metadata edits (table add/delete, WAL
checkpoint, value-log head/delete/update, raft pointer / raft truncate, region update/delete)
the state reloaded from disk equals the in-memory state, including after any number of
automatic rewrites; a crash at any point during an edit or a rewrite leaves a directory that
opens to the state after some prefix of the edits, a prefix that includes every edit that had
returned success.

Model: `NoKVModel/Manifest/Model.lean` (Version, apply, snapshot, codec round trip, record
lengths), `NoKVModel/Manifest/Disk.lean` (directory, procedures as lists of atomic file steps,
crash images between steps and inside appends, recovery).  `≈` is `canon · = canon ·`: equality
up to the order of the files inside a level (an absent and an empty level are the same thing in
the model); nothing else is normalised.

Quantifiers: every list of API calls (`LogEdits` batches with arbitrary field values, `Rewrite`),
every rewrite threshold `thr`, both `SetSync` settings, every crash image (`Run.allImages`:
before every file-system call, inside every append at every torn shape, and the final state) —
theorems `C15_reload_eq`, `C15_crash_prefix(_open)`, process-crash model, bound "call returned".
Full strength (`C15_crash_rounds`, model in `NoKVModel/Manifest/Sync.lean`): additionally any loss
of bytes written since the last fsync of the live manifest at every crash point, bound
"acknowledged as durable", and any number of crash/recovery rounds (`Reach`).

Only property theorems live here; lemmas are in `NoKVModel/Manifest/*Lemmas.lean`.
-/
import NoKVModel.Manifest.SyncRounds

namespace NoKV.Props.C15
open NoKV NoKV.Manifest

/-- **Snapshot faithfulness.**  For every version reachable by any edit list, replaying the
snapshot a rewrite writes (through the codec round trip) gives back that version, files in
canonical order. -/
theorem C15_snapshot_faithful (c : MCfg) (hc : c.GoodSnap) (es : List Edit) :
    replay c (snapshotEdits c (applyAll c Version.empty es)) = canon (applyAll c Version.empty es) :=
  snapshot_faithful c hc.1 hc.2 (WF_applyAll c hc.2 es WF_empty)

/-- **Reload = memory.**  After any call list, for any threshold: the manager holds
`apply* edits`, and both recovery paths (Verify;Open and bare Open) load a version equal to it up
to per-level file order — whatever number of rewrites happened on the way. -/
theorem C15_reload_eq (c : MCfg) (hc : c.Good) (thr : Nat) (syncWrites : Bool) (cs : List Call) :
    let r := runCalls c thr syncWrites cs
    r.edits = allEdits cs ∧
    r.mgr.v = applyAll c Version.empty (allEdits cs) ∧
    ∃ v, recoverDB c r.disk = some v ∧ recoverOpen c r.disk = some v ∧
      canon v = canon (applyAll c Version.empty (allEdits cs)) := by
  intro r
  have hI := Inv_run (hyps_good c hc) thr syncWrites cs (fun _ _ _ _ => trivial) (Inv_init (hyps_good c hc))
  have he : r.edits = allEdits cs := run_edits c thr syncWrites cs
  obtain ⟨f, hp, hcl, hcan⟩ := hI.pts
  refine ⟨he, he ▸ hI.mem, replay c f.recs, recoverDB_points_clean c hp hcl, recoverOpen_points_clean c hp hcl, he ▸ hcan⟩

/-- **Crash ⇒ acknowledged prefix.**  Every crash image — before any file-system call of any
append or rewrite (CURRENT.tmp write, rename, old-file removal included), inside any append at
any torn shape, or the final state — recovers (Verify; Open) to `apply* (take j edits)` for some
`j` at least the number of edits whose call had returned. -/
theorem C15_crash_prefix (c : MCfg) (hc : c.Good) (thr : Nat) (syncWrites : Bool) (cs : List Call) :
    ∀ im ∈ (runCalls c thr syncWrites cs).allImages,
      ∃ j, im.acked ≤ j ∧ j ≤ (allEdits cs).length ∧
        ∃ v, recoverDB c im.disk = some v ∧
          canon v = canon (applyAll c Version.empty ((allEdits cs).take j)) := by
  have h := crash_all (hyps_good c hc) thr syncWrites cs (fun _ _ _ _ => trivial)
  rw [run_edits] at h
  exact h

/-- … and the same for the bare `manifest.Open` entry point (pd/storage/local.go), which needs
`Open` to truncate a torn tail itself. -/
theorem C15_crash_prefix_open (c : MCfg) (hc : c.GoodOpen) (thr : Nat) (syncWrites : Bool) (cs : List Call) :
    ∀ im ∈ (runCalls c thr syncWrites cs).allImages,
      ∃ j, im.acked ≤ j ∧ j ≤ (allEdits cs).length ∧
        ∃ v, recoverOpen c im.disk = some v ∧
          canon v = canon (applyAll c Version.empty ((allEdits cs).take j)) := by
  intro im him
  rw [recoverOpen_eq_recoverDB c hc.2]
  exact C15_crash_prefix c hc.1 thr syncWrites cs im him

/-! ## full strength: loss of unsynced bytes, any number of crash/recovery rounds -/

/-- **Crash rounds (the full statement of C15).**  Take ANY run reachable by any number of rounds
— a round is any list of `LogEdits` batches (arbitrary field values) and `Rewrite` calls with any
threshold, then a crash, then `Verify; Open` and the next round on the recovered directory.  At
ANY crash point of the current round (before any file-system call of any append or of any step
of the rewrite protocol: snapshot writes, its fsync, CURRENT.tmp write/fsync, rename, old-file
removal; or the quiescent state) and for ANY loss of bytes written to the live manifest since its
last fsync (every record boundary at or after the synced point and every torn shape of the next
record; the last variant is "nothing lost"):

* recovery succeeds;
* the recovered state is the state after the first `j` edits of the acknowledged list, where `j`
  is at least the number of edits acknowledged as durable — and at least the number of edits
  whose call had returned if nothing was lost (a process crash);
* the run that continues from the recovered directory, with the recovered prefix as its
  acknowledged list, is again reachable — so the same statement holds for its crash points, for
  the round after that, and so on (`Reach` is the induction over rounds);
* and the manager of every reachable run holds the state of its acknowledged list.

`syncWrites = true` (with `SetSync(false)` nothing is acknowledged as durable and a snapshot may
be switched to before it is on disk). -/
theorem C15_crash_rounds (c : MCfg) (hc : c.GoodLoss) (thr : Nat) (x : XRun) (hx : Reach c thr true x) :
    canon x.mgr.v = canon (applyAll c Version.empty x.edits) ∧
    ∀ cd ∈ x.allCands, ∀ d' ∈ lossVariants cd.disk cd.sync,
      ∃ x' j, x.recoverFrom c cd d' = some x' ∧ Reach c thr true x' ∧
        cd.durable ≤ j ∧ j ≤ x.edits.length ∧ (d' = cd.disk → cd.acked ≤ j) ∧
        x'.edits = x.edits.take j ∧ recoverDB c d' = some x'.mgr.v ∧
        canon x'.mgr.v = canon (applyAll c Version.empty (x.edits.take j)) := by
  have hI := XInv_reach c hc thr hx
  refine ⟨hI.hv, ?_⟩
  intro cd hcd d' hd'
  obtain ⟨x', j, h1, h2, h3, h4, h5, h6, h7, _⟩ := recover_ok c hc hI hcd hd'
  exact ⟨x', j, h1, Reach.crash hx hcd hd' h1, h2, h3, h5, h4, h6, h7⟩

/-- **What "acknowledged as durable" counts.**  In every reachable run the durable count is the
number of edits the fsynced prefix of the live manifest stands for, all of them acknowledged; and
no acknowledged edit is missing from the live manifest (`durable ≤ acknowledged = in the file`). -/
theorem C15_durable_meaning (c : MCfg) (hc : c.GoodLoss) (thr : Nat) (x : XRun) (hx : Reach c thr true x) :
    x.durable ≤ (x.sync.get x.mgr.cur).2 ∧ (x.sync.get x.mgr.cur).2 ≤ x.edits.length ∧
    ∃ f, x.disk.current = some x.mgr.cur ∧ x.disk.file? x.mgr.cur = some f ∧ f.tail = .clean ∧
      (x.sync.get x.mgr.cur).2 + (f.recs.length - (x.sync.get x.mgr.cur).1) = x.edits.length := by
  obtain ⟨f, h1, h2, h3, h4, h5, h6, h7, h8, h9, h10⟩ := (XInv_reach c hc thr hx).fin
  exact ⟨h9, by omega, f, h1, h3, h4, by omega⟩

/-- edits outside the three as-is defects: no raft/region edit with a nil payload, no
`EditUpdateValueLog` that is invalid *and* carries a non-zero offset -/
abbrev Benign := NoKV.Manifest.Benign

/-
SUPERSEDED (kept as a lemma-kind theorem).  Full-strength statement the property demands:
  for EVERY sequence of manifest edits, rewrites (snapshot + CURRENT switch) and crash points — any
  byte prefix of the bytes written since the last sync, at any step of the rewrite protocol,
  repeated any number of times — the reloaded state equals the state after some prefix of the
  acknowledged edits that includes every edit acknowledged as durable, and a reload followed by
  further edits and another crash satisfies this again.
That is `C15_crash_rounds` above (with `C15_reload_eq` for the crash-free reload).  What
`C15_reload_crash_partial` below lacks, exactly:
  (a) edits: it quantifies only over call lists whose edits are `Benign` — it excludes raft/region
      edits with a nil payload and invalid `EditUpdateValueLog`s with a non-zero offset (it was the
      theorem for the tree *before* the three repairs; on the repaired tree `Good` holds and the
      headline theorems quantify over all edits);
  (b) crash model: process crash only (every completed file-system call is kept; torn shapes only
      inside the append in flight) — no loss of bytes written since the last fsync, hence no
      notion of "acknowledged as durable" (its lower bound is "call returned");
  (c) rounds: one crash at the end of one run; nothing about the directory after recovery;
  (d) the bare-`Open` entry point on torn tails.
-/
/-- **As-is (pre-repair), partial.**  With the step order, truncation rules and apply rules of the as-is
tree — *without* the three repairs — reload = memory and crash ⇒ acknowledged prefix hold for
every call list whose edits are `Benign`.  Missing from the full statement: exactly the edits
excluded by `Benign` (findings snapshot-invalid-vlog-offset, nil-raft/region-roundtrip) and the
bare-`Open` entry point on torn tails (finding open-torn-tail). -/
theorem C15_reload_crash_partial (c : MCfg) (hc : c.GoodAsIs) (thr : Nat) (syncWrites : Bool) (cs : List Call)
    (hb : ∀ e ∈ allEdits cs, Benign e) :
    (let r := runCalls c thr syncWrites cs
     r.mgr.v = applyAll c Version.empty (allEdits cs) ∧
     ∃ v, recoverDB c r.disk = some v ∧ recoverOpen c r.disk = some v ∧
       canon v = canon (applyAll c Version.empty (allEdits cs))) ∧
    ∀ im ∈ (runCalls c thr syncWrites cs).allImages,
      ∃ j, im.acked ≤ j ∧ j ≤ (allEdits cs).length ∧
        ∃ v, recoverDB c im.disk = some v ∧
          canon v = canon (applyAll c Version.empty ((allEdits cs).take j)) := by
  have hcs : ∀ cl ∈ cs, ∀ e ∈ cl.edits, NoKV.Manifest.Benign e := by
    intro cl hcl e he
    exact hb e (List.mem_flatMap.mpr ⟨cl, hcl, he⟩)
  have H := hyps_asis c hc
  constructor
  · intro r
    have hI := Inv_run H thr syncWrites cs hcs (Inv_init H)
    have he : r.edits = allEdits cs := run_edits c thr syncWrites cs
    obtain ⟨f, hp, hcl, hcan⟩ := hI.pts
    exact ⟨he ▸ hI.mem, replay c f.recs, recoverDB_points_clean c hp hcl, recoverOpen_points_clean c hp hcl, he ▸ hcan⟩
  · have h := crash_all H thr syncWrites cs hcs
    rw [run_edits] at h
    exact h

/-! ## the as-is defects, on concrete witnesses -/

/-- every flag except the ones named has its good value -/
def restGood (c : MCfg) : Prop :=
  c.vlogDelZeroesOffset = true ∧ c.headForcesValid = true ∧ c.delFileFirstOnly = true ∧
  c.currentAfterSnapshot = true ∧ c.removeOldAfterCurrent = true ∧ c.currentViaRename = true ∧
  c.syncOnAppend = true ∧ c.rewriteAtGE = true ∧
  c.verifyTruncPartLen = true ∧ c.verifyTruncLenOnly = true ∧ c.verifyTruncPartPayload = true

instance restGood.dec (c : MCfg) : Decidable (restGood c) := by unfold restGood; exact inferInstance

def witnessInvalidOffset : List Call := [.log [.vlogUpd (some ⟨1, 2, 77, false⟩)], .rewrite]

/-- **Finding snapshot-invalid-vlog-offset.**  `writeSnapshot` writes an invalid value-log entry
as `EditDeleteValueLog`, whose apply rule zeroes the offset: after `LogValueLogUpdate{1,2,77,invalid}`
and one rewrite the reloaded entry has offset 0, the in-memory entry 77. -/
theorem C15_fails_asis_invalid_vlog_offset (c : MCfg) (hc : c.snapInvalidAsUpdate = false ∧ restGood c) :
    let r := runCalls c 0 true witnessInvalidOffset
    ∃ v, recoverDB c r.disk = some v ∧ canon v ≠ canon r.mgr.v := by
  obtain ⟨a1, a2, a3, a4, a5, a6, a7, a8, a9, a10, a11, a12, a13, a14, a15, a16⟩ := c
  obtain ⟨h0, h1, h2, h3, h4, h5, h6, h7, h8, h9, h10, h11⟩ := hc
  simp only at h0 h1 h2 h3 h4 h5 h6 h7 h8 h9 h10 h11
  subst h0 h1 h2 h3 h4 h5 h6 h7 h8 h9 h10 h11
  cases a5 <;> cases a6 <;> cases a16 <;> cases a10 <;> exact ⟨_, rfl, by decide⟩

def witnessNilRaft : List Call := [.log [.raft none]]
def witnessNilRegion : List Call := [.log [.region none]]

/-- **Finding nil-raft-roundtrip.**  `LogEdit(Edit{Type: EditRaftPointer})` (nil payload) changes
nothing in memory, but `decodeEdit` reads it back as an all-zero pointer: the reloaded state has
a raft pointer for group 0. -/
theorem C15_fails_asis_nil_raft (c : MCfg) (hc : c.nilRaftRoundtrip = false ∧ restGood c) :
    let r := runCalls c 0 true witnessNilRaft
    ∃ v, recoverDB c r.disk = some v ∧ canon v ≠ canon r.mgr.v := by
  obtain ⟨a1, a2, a3, a4, a5, a6, a7, a8, a9, a10, a11, a12, a13, a14, a15, a16⟩ := c
  obtain ⟨h0, h1, h2, h3, h4, h5, h6, h7, h8, h9, h10, h11⟩ := hc
  simp only at h0 h1 h2 h3 h4 h5 h6 h7 h8 h9 h10 h11
  subst h0 h1 h2 h3 h4 h5 h6 h7 h8 h9 h10 h11
  cases a1 <;> cases a6 <;> cases a16 <;> cases a10 <;> exact ⟨_, rfl, by decide⟩

/-- same for `EditRegion`: the reloaded state has a region 0. -/
theorem C15_fails_asis_nil_region (c : MCfg) (hc : c.nilRegionRoundtrip = false ∧ restGood c) :
    let r := runCalls c 0 true witnessNilRegion
    ∃ v, recoverDB c r.disk = some v ∧ canon v ≠ canon r.mgr.v := by
  obtain ⟨a1, a2, a3, a4, a5, a6, a7, a8, a9, a10, a11, a12, a13, a14, a15, a16⟩ := c
  obtain ⟨h0, h1, h2, h3, h4, h5, h6, h7, h8, h9, h10, h11⟩ := hc
  simp only at h0 h1 h2 h3 h4 h5 h6 h7 h8 h9 h10 h11
  subst h0 h1 h2 h3 h4 h5 h6 h7 h8 h9 h10 h11
  cases a1 <;> cases a5 <;> cases a16 <;> cases a10 <;> exact ⟨_, rfl, by decide⟩

def witnessTorn : List Call := [.log [.logPtr 1 2]]

/-- **Finding open-torn-tail.**  A crash inside the append of one edit that leaves 1–3 bytes of
its length prefix: bare `manifest.Open` (the pd/storage path, no `Verify`) fails, although no
acknowledged edit is at stake; `Verify; Open` recovers the empty state. -/
theorem C15_fails_asis_open_torn (c : MCfg) (hc : c.openVerifies = false ∧ restGood c) :
    ∃ im ∈ (runCalls c 0 true witnessTorn).allImages,
      recoverOpen c im.disk = none ∧ recoverDB c im.disk = some Version.empty := by
  obtain ⟨a1, a2, a3, a4, a5, a6, a7, a8, a9, a10, a11, a12, a13, a14, a15, a16⟩ := c
  obtain ⟨h0, h1, h2, h3, h4, h5, h6, h7, h8, h9, h10, h11⟩ := hc
  simp only at h0 h1 h2 h3 h4 h5 h6 h7 h8 h9 h10 h11
  subst h0 h1 h2 h3 h4 h5 h6 h7 h8 h9 h10 h11
  refine ⟨⟨Disk.init.setFile 1 { recs := [], tail := .partLen }, 0, 1⟩, ?_, ?_⟩
  · cases a1 <;> cases a5 <;> cases a6 <;> cases a10 <;> decide
  · cases a1 <;> cases a5 <;> cases a6 <;> cases a10 <;> decide

def witnessRewrite : List Call := [.log [.logPtr 1 2], .rewrite]

/-- **Finding current-name-unsynced.**  `writeCurrent` writes CURRENT.tmp with `WriteFile` and
renames it without an fsync: the NAME in CURRENT counts as "bytes written since the last sync"
for ever.  After one synced edit and one rewrite, a crash that keeps only a proper prefix of that
name leaves a CURRENT that names no file: `Verify` reports not-exist (ignored by db.go) and `Open`
silently starts an EMPTY manifest — the edit acknowledged as durable is gone (and the next
`Open` truncates MANIFEST-000001 and repoints CURRENT at it). -/
theorem C15_fails_asis_current_unsynced (c : MCfg) (hc : c.currentTmpSynced = false ∧ restGood c) :
    let x := (({} : XRun).call c 0 true (.log [.logPtr 1 2])).call c 0 true .rewrite
    ∃ cd ∈ x.allCands, ∃ d' ∈ lossVariants cd.disk cd.sync,
      cd.durable = x.edits.length ∧ recoverDB c d' = some Version.empty ∧
      canon (applyAll c Version.empty x.edits) ≠ canon Version.empty ∧ x.recoverFrom c cd d' = none := by
  obtain ⟨a1, a2, a3, a4, a5, a6, a7, a8, a9, a10, a11, a12, a13, a14, a15, a16⟩ := c
  obtain ⟨h0, h1, h2, h3, h4, h5, h6, h7, h8, h9, h10, h11⟩ := hc
  simp only at h0 h1 h2 h3 h4 h5 h6 h7 h8 h9 h10 h11
  subst h0 h1 h2 h3 h4 h5 h6 h7 h8 h9 h10 h11
  intro x
  refine ⟨x.final, ?_, { x.disk with current := some (freshId x.disk) }, ?_, ?_, ?_, ?_, ?_⟩ <;>
    (cases a1 <;> cases a5 <;> cases a6 <;> cases a16 <;> decide)

/-! ## non-vacuity -/

/-- a threshold of 1 byte makes every append rewrite: CURRENT ends up naming MANIFEST-000003 -/
example : (runCalls MCfg.good 1 true [.log [.logPtr 1 2], .log [.logPtr 3 4]]).disk.current = some 3 := by decide

/-- … and that run has 31 crash images between file-system calls (the final state included) and 6 torn ones -/
example : (runCalls MCfg.good 1 true [.log [.logPtr 1 2], .log [.logPtr 3 4]]).allImages.length = 37 := by decide

/-- the good configuration satisfies the hypotheses; the as-is one those of the partial theorem -/
example : MCfg.good.GoodOpen := by decide
example : MCfg.asis.GoodAsIs := by decide
example : ¬ MCfg.asis.Good := by decide

/-- rounds: one synced edit, one unsynced raft edit, a rewrite with threshold 1 on the next edit —
the durable count is 1, 1, 3 after the three calls -/
example : ((({} : XRun).call MCfg.good 0 true (.log [.logPtr 1 2])).durable,
           ((({} : XRun).call MCfg.good 0 true (.log [.logPtr 1 2])).call MCfg.good 0 true
              (.log [.raft (some RaftPtr.zero)])).durable,
           (((({} : XRun).call MCfg.good 0 true (.log [.logPtr 1 2])).call MCfg.good 0 true
              (.log [.raft (some RaftPtr.zero)])).call MCfg.good 1 true (.log [.logPtr 3 4])).durable)
          = (1, 1, 3) := by decide

/-- the unsynced raft edit can really be lost: the quiescent state after the second call has 5 loss
variants (4 shapes of "raft record cut" + "nothing lost"), and the first recovers to 1 edit -/
example :
    let x := ((({} : XRun).call MCfg.good 0 true (.log [.logPtr 1 2])).call MCfg.good 0 true
              (.log [.raft (some RaftPtr.zero)]))
    (lossVariants x.final.disk x.final.sync).length = 5 ∧
    ((lossVariants x.final.disk x.final.sync).head?.bind (fun d' => x.recoverFrom MCfg.good x.final d')).map
      (fun x' => x'.edits.length) = some 1 := by decide

/-- a second round: recover from that loss (the raft record cut inside its length prefix), log two
more edits — the run is reachable, so `C15_crash_rounds` speaks about its crash points too -/
example :
    let x := ((({} : XRun).call MCfg.good 0 true (.log [.logPtr 1 2])).call MCfg.good 0 true
              (.log [.raft (some RaftPtr.zero)]))
    let d' := Disk.init.setFile 1 { recs := [.logPtr 1 2], tail := .partLen }
    (x.recoverFrom MCfg.good x.final d').isSome = true ∧
    ∀ x', x.recoverFrom MCfg.good x.final d' = some x' →
      Reach MCfg.good 0 true (x'.call MCfg.good 0 true (.log [.logPtr 5 6, .logPtr 7 8])) := by
  intro x d'
  refine ⟨by decide, ?_⟩
  intro x' h
  exact Reach.call _ (Reach.crash (Reach.call _ (Reach.call _ Reach.init)) (by decide) (by decide) h)

example : MCfg.good.GoodLoss := by decide
example : ¬ MCfg.asis.GoodLoss := by decide

end NoKV.Props.C15

/-
C25  Commands only execute against the region that owns their keys.
-/
import NoKVModel.Region.Cmd
import NoKVModel.Region.PDLemmas

namespace NoKV.Props.C25
open NoKV NoKV.Region

theorem keyInRange_iff (c : CmdCfg) (hc : c.ValidateGood) (m : Meta) (k : Bytes) :
    keyInRange c m k = true ↔ (k = [] ∨ inRange m k) := by
  obtain ⟨h1, h2, _, _, _⟩ := hc
  unfold keyInRange inRange
  by_cases hk : k = []
  · simp [hk]
  · simp only [hk, if_false, false_or, h1, h2, bcmp_ge]
    have hlt : ∀ a b : Bytes, bcmp .lt a b = Bytes.lt a b := by
      intro a b; simp [bcmp, CmpOp.eval]
    rw [hlt]
    by_cases hs : m.start = []
    · by_cases he : m.end_ = []
      · simp [hs, he]
      · simp [hs, he, Bytes.le]
    · by_cases he : m.end_ = []
      · simp [hs, he, Bytes.le]
      · by_cases hks : Bytes.lt k m.start = true
        · simp [hs, he, hks, Bytes.le]
        · simp [hs, he, hks, Bytes.le]

/-- **Acceptance.**  A command is accepted iff it carries exactly the region's epoch, every
sub-request is of a known kind, and every *non-empty* key it names lies in `[start, end)`.
(The empty key is let through by the code for every kind — for scans it means "from the
region start" — and is therefore part of the statement, not hidden.) -/
theorem C25_accept_iff (c : CmdCfg) (hc : c.ValidateGood) (m : Meta) (e : Option Epoch) (reqs : List Req) :
    validate c m e reqs = true ↔
      (e = some m.epoch ∧ ∀ r ∈ reqs, r.kind ≠ .other ∧ ∀ k ∈ r.keys, k ≠ [] → inRange m k) := by
  have hkir := keyInRange_iff c hc m
  obtain ⟨_, _, h3, h4, h5⟩ := hc
  unfold validate
  rw [Bool.and_eq_true]
  have he : epochOk c m e = true ↔ e = some m.epoch := by
    unfold epochOk
    cases e with
    | none => simp
    | some e =>
      simp only [h5, if_true, Bool.and_eq_true, beq_iff_eq, Option.some.injEq]
      constructor
      · rintro ⟨a, b⟩; cases e; cases hm : m.epoch; simp_all
      · intro h; rw [h]; exact ⟨rfl, rfl⟩
  have hr : ∀ r : Req, reqOk c m r = true ↔ (r.kind ≠ .other ∧ ∀ k ∈ r.keys, k ≠ [] → inRange m k) := by
    intro r
    unfold reqOk
    have hall : (r.keys.all (fun key => keyInRange c m key)) = true ↔ ∀ k ∈ r.keys, k ≠ [] → inRange m k := by
      rw [List.all_eq_true]
      constructor
      · intro h k hk hne
        rcases (hkir k).mp (h k hk) with h' | h'
        · exact absurd h' hne
        · exact h'
      · intro h k hk
        apply (hkir k).mpr
        by_cases hne : k = []
        · exact Or.inl hne
        · exact Or.inr (h k hk hne)
    cases hk : r.kind <;> simp [h3, h4, hall]
  rw [he, List.all_eq_true]
  constructor
  · rintro ⟨h1, h2⟩; exact ⟨h1, fun r hr' => (hr r).mp (h2 r hr')⟩
  · rintro ⟨h1, h2⟩; exact ⟨h1, fun r hr' => (hr r).mpr (h2 r hr')⟩

/-- **Scan trimming.**  Whatever the applier produced, every key of a scan response that
leaves the store through either public path lies inside the region's range. -/
theorem C25_trim (c : CmdCfg) (hc : c.Good) (p : Path) (m : Meta) (applied : List Bytes) :
    ∀ k ∈ scanOut c p m applied, k = [] ∨ inRange m k := by
  obtain ⟨hv, ht⟩ := hc
  intro k hk
  have : k ∈ trim c m applied := by
    cases p <;> simpa [scanOut, ht] using hk
  unfold trim at this
  rw [List.mem_filter] at this
  exact (keyInRange_iff c hv m k).mp this.2

/-- trimming never drops an in-range key (so the read path returns exactly the in-range part) -/
theorem C25_trim_exact (c : CmdCfg) (hc : c.ValidateGood) (m : Meta) (applied : List Bytes) :
    trim c m applied = applied.filter (fun k => decide (k = [] ∨ inRange m k)) := by
  unfold trim
  apply List.filter_congr
  intro k _
  have := keyInRange_iff c hc m k
  cases h : keyInRange c m k
  · have h' : ¬ (k = [] ∨ inRange m k) := fun x => by rw [this.mpr x] at h; exact absurd h (by simp)
    simp [h']
  · simp [this.mp h]

/-! ### as-is: `ProposeCommand` returns untrimmed scan results (finding `propose-scan-untrimmed`) -/

/-- With validation good but the propose path untrimmed: the read path is still exact. -/
theorem C25_partial (c : CmdCfg) (hc : c.ValidateGood) (m : Meta) (applied : List Bytes) :
    ∀ k ∈ scanOut c .read m applied, k = [] ∨ inRange m k := by
  intro k hk
  have : k ∈ trim c m applied := by simpa [scanOut] using hk
  unfold trim at this
  rw [List.mem_filter] at this
  exact (keyInRange_iff c hc m k).mp this.2

def wMeta : Meta := { id := 1, start := [0x62], end_ := [0x6d], epoch := ⟨1, 1⟩ }   -- [b, m)

/-- Region [b,m), a scan starting at "c" (accepted), applier returns c and n: "n" leaves
through the propose path. -/
theorem C25_fails_asis_propose_scan (c : CmdCfg)
    (hc : c = { CmdCfg.good with proposeScanTrimmed := false }) :
    validate c wMeta (some wMeta.epoch) [⟨.scan, [[0x63]]⟩] = true ∧
    ∃ k ∈ scanOut c .propose wMeta [[0x63], [0x6e]], ¬ (k = [] ∨ inRange wMeta k) := by
  subst hc
  refine ⟨by decide, [0x6e], by decide, by decide⟩

/-- **Scan trimming, batched commands.**  A command may carry several sub-requests; whatever
the applier produced for each of them, every scan result that leaves the store through either
public path is exactly the in-range part of what was produced, and the other sub-responses are
untouched — for every batch, every position, every mix of empty and non-empty results. -/
theorem C25_trim_batch (c : CmdCfg) (hc : c.BatchGood) (p : Path) (m : Meta)
    (resps : List (Option (List Bytes))) :
    scanOutBatch c p m resps =
      resps.map (Option.map (fun ks => ks.filter (fun k => decide (k = [] ∨ inRange m k)))) := by
  obtain ⟨⟨hv, ht⟩, he⟩ := hc
  have hb : trimBatch c m resps =
      resps.map (Option.map (fun ks => ks.filter (fun k => decide (k = [] ∨ inRange m k)))) := by
    induction resps with
    | nil => rfl
    | cons r rest ih =>
      cases r with
      | none => simp [trimBatch, ih]
      | some ks => simp [trimBatch, he, ih, C25_trim_exact c hv m ks]
  cases p <;> simp [scanOutBatch, ht, hb]

/-- (seeded change C25-m2r2) the trimming loop ends at the first empty scan result: a later scan
result of the same command leaves with an out-of-range key -/
theorem C25_fails_trim_stops (c : CmdCfg) (hc : c = { CmdCfg.good with trimEach := false }) :
    ∃ ks, some ks ∈ scanOutBatch c .read wMeta [some [], some [[0x63], [0x6e]]] ∧
      ∃ k ∈ ks, ¬ (k = [] ∨ inRange wMeta k) := by
  subst hc
  exact ⟨[[0x63], [0x6e]], by decide, [0x6e], by decide, by decide⟩

example : scanOutBatch CmdCfg.good .propose wMeta [some [], none, some [[0x63], [0x6e]]] =
    [some [], none, some [[0x63]]] := by decide

example : CmdCfg.good.Good := by decide
example : validate CmdCfg.good wMeta (some wMeta.epoch)
    [⟨.prewrite, [[0x62], [0x6c, 0xff]]⟩, ⟨.get, [[]]⟩] = true := by decide
example : validate CmdCfg.good wMeta (some wMeta.epoch) [⟨.commit, [[0x62], [0x6d]]⟩] = false := by decide

end NoKV.Props.C25

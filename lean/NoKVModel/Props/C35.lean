/-
C35  SST tables serve exactly the entries they were built from.

Entries are `(internal key, value)`; "sorted" = strictly increasing in `CompareKeys` order
(hence duplicate-free).  Block size, bloom parameters and the hash function are arbitrary.

Headline (unbounded: any entry list, any block size, any bloom setting, any hash function):
* `C35_iter_eq`      the built table's blocks are non-empty and concatenate to the input: full
                     iteration = the built entries in order (reverse: reversed); prefix
                     compression round-trips (`rebuild ∘ keyDiff = id`).
* `C35_bloom_no_fn`  a user key that was added always tests positive, for every hash function.
* `C35_point`        every stored internal key with a version above the running maximum (0) is
                     found with its value — holds with or without the forward-seek continuation.
* `C35_seek_fwd`     ascending `Seek` + `Next…` = the entries from the first one `≥ target` on.
As-is descriptions (not gaps):
* `C35_seek_fwd_partial`  (kind lemma) without the continuation an ascending seek is either the
                     specification or empty, and empty only for targets that are not stored keys.
* `C35_fails_asis_seek_block_gap`  negation on the witness of the open finding.
* `C35_corrupt_block_never_served` (headline, also bears on C14): through `loadBlock` and the block
                     cache, a block whose checksum does not match is never returned, first read or retry.
* `C35_every_uncached_load_verified` (headline, bears on C14): every load that misses the cache is
                     verified against the file content at that moment, even if the file changes between loads.
* `C35_trailer_never_panics` (headline, bears on C14): with the repaired guard the trailer decoding
                     never slices out of range; `C35_fails_asis_chklen_guard` is the as-is negation.
* `C35_seek_rev`     descending `Seek` + `Next…` = the entries `≤ target`, last first.
* `C35_cursor`       one long-lived iterator, every call sequence (Rewind / Seek / Next in any order,
                     Seek after exhaustion included): the remaining iteration equals the spec cursor.
NOT PROVED (named, covered by the correspondence run only): "reopen = decode ∘ encode of the table image" (the byte
layout of blocks/index/checksums is not modelled).
-/
import NoKVModel.Sst.Lemmas

set_option linter.unusedSimpArgs false
set_option linter.unusedVariables false
namespace NoKV.Props.C35
open NoKV NoKV.Index NoKV.Sst

/-- Full iteration returns exactly the built entries, for every configuration of the block
split rule: blocks are non-empty, their concatenation is the input, and every stored
`(overlap, diff)` pair rebuilds its key. -/
theorem C35_iter_eq (c : SstCfg) (hc : c.GoodButSeek) (hash : Bytes → Nat) (blockSize : Nat) (bloomOn : Bool)
    (bpk k : Nat) (es : List SEntry) :
    scan (buildTable c hash blockSize bloomOn bpk k es) true = es ∧
    scan (buildTable c hash blockSize bloomOn bpk k es) false = es.reverse ∧
    (∀ b ∈ (buildTable c hash blockSize bloomOn bpk k es).blocks, b ≠ []) ∧
    (∀ base key : Bytes, rebuild base (key.length - (keyDiff base key).length) (keyDiff base key) = key) := by
  refine ⟨?_, ?_, ?_, rebuild_keyDiff⟩
  · simp [scan, buildTable, buildBlocks_flatten]
  · simp [scan, buildTable, buildBlocks_flatten]
  · simpa [buildTable] using buildBlocks_nonempty c blockSize es

/-- No bloom false negatives: whatever the hash function, bits-per-key and probe count, the user
key of every added entry tests positive. -/
theorem C35_bloom_no_fn (c : SstCfg) (hc : c.GoodButSeek) (hash : Bytes → Nat) (blockSize : Nat) (bpk k : Nat)
    (es : List SEntry) (e : SEntry) (he : e ∈ es) :
    let t := buildTable c hash blockSize true bpk k es
    mayContain t.nBits t.k t.filter (hash (baseOf e.1)) = true := by
  simp only [buildTable]
  apply mayContain_of_mem
  exact List.mem_map.mpr ⟨e, he, rfl⟩

/-- Point lookup: every stored internal key whose version is above the running maximum (0) is
returned with its value.  Holds for the as-is forward seek as well. -/
theorem C35_point (c : SstCfg) (hc : c.GoodButSeek) (hash : Bytes → Nat) (blockSize : Nat) (bloomOn : Bool)
    (bpk k : Nat) (es : List SEntry) (hs : SortedE es) (e : SEntry) (he : e ∈ es) (hv : 0 < verOf e.1) :
    search c hash (buildTable c hash blockSize bloomOn bpk k es) e.1 = some e.2 := by
  have hbloom := C35_bloom_no_fn c hc hash blockSize bpk k es e he
  have hfl := buildBlocks_flatten c blockSize es
  have hne := buildBlocks_nonempty c blockSize es
  have hspec := seekFwd_spec c hc e.1 (buildBlocks c blockSize es) hne (by rw [hfl]; exact hs)
  rw [hfl] at hspec
  obtain ⟨tail, ht⟩ := dropWhile_mem_head hs he
  have hseek : seekFwd c e.1 (buildBlocks c blockSize es) = e :: tail := by
    rcases hspec with h | ⟨_, _, h3⟩
    · rw [h, ht]
    · exact absurd rfl (h3 e he)
  have hcfg : c.bloomSameProjection = true ∧ c.searchVsOp = .lt := ⟨hc.2.2.2.2.2, hc.2.2.2.2.1⟩
  simp only [buildTable] at hbloom
  unfold search
  simp only [buildTable, hcfg.1, if_true, hseek, hcfg.2]
  have hsame : sameKey e.1 e.1 = true := by simp [sameKey]
  have hver : CmpOp.lt.nat 0 (verOf e.1) = true := by simp [CmpOp.nat, CmpOp.eval, hv]
  cases bloomOn with
  | false => simp [hsame, hver]
  | true => simp [hbloom, hsame, hver]

/-- Ascending seek: the iteration after `Seek(target)` is exactly the entries from the first one
at or after the target on. -/
theorem C35_seek_fwd (c : SstCfg) (hc : c.Good) (hash : Bytes → Nat) (blockSize : Nat) (bloomOn : Bool)
    (bpk k : Nat) (es : List SEntry) (hs : SortedE es) (target : Bytes) :
    seekFwd c target (buildTable c hash blockSize bloomOn bpk k es).blocks =
      es.dropWhile (fun e => klt e.1 target) := by
  have hg : c.GoodButSeek := hc.1
  have hnb : c.seekFallsThrough = true := hc.2
  have hfl := buildBlocks_flatten c blockSize es
  have hspec := seekFwd_spec c hg target (buildBlocks c blockSize es) (buildBlocks_nonempty c blockSize es)
    (by rw [hfl]; exact hs)
  rw [hfl] at hspec
  simp only [buildTable]
  rcases hspec with h | ⟨h1, _, _⟩
  · exact h
  · rw [hnb] at h1; cases h1

/-- AS-IS DESCRIPTION, not a gap of the proof: this is what the forward seek does when the
fall-through to the next block is missing (`seekFallsThrough = false`, the shape of the fixed
finding sst-seek-block-gap): either the specification or an invalid iterator, the latter only for
targets that are not stored keys.  The full statement is `C35_seek_fwd`, proved for the good flag
(which is what the repository has since the fix); this lemma is kept because `C35_point` uses the
same case analysis and it documents the old behaviour.  Registered with kind `lemma`. -/
theorem C35_seek_fwd_partial (c : SstCfg) (hc : c.GoodButSeek) (hash : Bytes → Nat) (blockSize : Nat)
    (bloomOn : Bool) (bpk k : Nat) (es : List SEntry) (hs : SortedE es) (target : Bytes) :
    seekFwd c target (buildTable c hash blockSize bloomOn bpk k es).blocks = es.dropWhile (fun e => klt e.1 target) ∨
    (seekFwd c target (buildTable c hash blockSize bloomOn bpk k es).blocks = [] ∧ ∀ e ∈ es, e.1 ≠ target) := by
  have hfl := buildBlocks_flatten c blockSize es
  have hspec := seekFwd_spec c hc target (buildBlocks c blockSize es) (buildBlocks_nonempty c blockSize es)
    (by rw [hfl]; exact hs)
  rw [hfl] at hspec
  simp only [buildTable]
  rcases hspec with h | ⟨_, h2, h3⟩
  · exact Or.inl h
  · exact Or.inr ⟨h2, h3⟩

/-- Descending seek: the iteration after `Seek(target)` on a reverse iterator is exactly the
entries at or before the target, last first. -/
theorem C35_seek_rev (c : SstCfg) (hc : c.GoodButSeek) (hash : Bytes → Nat) (blockSize : Nat) (bloomOn : Bool)
    (bpk k : Nat) (es : List SEntry) (hs : SortedE es) (target : Bytes) :
    seekRev c target (buildTable c hash blockSize bloomOn bpk k es).blocks =
      (es.takeWhile (fun e => !klt target e.1)).reverse := by
  have hfl := buildBlocks_flatten c blockSize es
  have := seekRev_spec c hc target (buildBlocks c blockSize es) (buildBlocks_nonempty c blockSize es)
    (by rw [hfl]; exact hs)
  rw [hfl] at this
  simpa [buildTable] using this

/-! ### one long-lived iterator: every call sequence -/

/-- the configuration in which the cursor theorem holds: lookup/seek decisions as intended, the
forward fall-through present, and `seekHelper` always reloading the block -/
def CursorGood (c : SstCfg) : Prop := c.Good ∧ c.seekReloads = true
instance decCursorGood (c : SstCfg) : Decidable (CursorGood c) := by unfold CursorGood; exact inferInstance

theorem curStep_spec (c : SstCfg) (hc : CursorGood c) (blocks : List Block) (es : List SEntry)
    (hfl : blocks.flatten = es) (hne : ∀ b ∈ blocks, b ≠ []) (hs : SortedE es) (asc : Bool)
    (cur : Cur) (op : COp) (hd : cur.dead = false) :
    (curStep c blocks asc cur op).rem = specStep es asc cur.rem op ∧ (curStep c blocks asc cur op).dead = false := by
  obtain ⟨⟨hg, hnb⟩, hsr⟩ := hc
  cases op with
  | rewind => cases asc <;> simp [curStep, specStep, hfl]
  | next =>
    simp only [curStep, specStep]
    cases hrem : cur.rem with
    | nil => simp [hrem, hd]
    | cons x r => cases r <;> simp
  | seek key =>
    simp only [curStep, hsr, if_true, specStep]
    cases asc with
    | true =>
      simp only [if_true]
      refine ⟨?_, trivial⟩
      rcases seekFwd_spec c hg key blocks hne (by rw [hfl]; exact hs) with h | ⟨h1, _, _⟩
      · rw [h, hfl]
      · rw [hnb] at h1; cases h1
    | false =>
      simp only [Bool.false_eq_true, if_false]
      have hrev := seekRev_spec c hg key blocks hne (by rw [hfl]; exact hs)
      rw [hfl] at hrev
      cases blocks with
      | nil => simp at hfl; subst hfl; simp
      | cons b rest =>
        simp only
        by_cases hcond : c.tblSeekOp.eval (klt (baseKey b) key) (keq (baseKey b) key) = true
        · simp only [hcond, if_true]
          refine ⟨?_, hd⟩
          rw [← hrev]; simp [seekRev, hcond]
        · simp only [hcond, Bool.false_eq_true, if_false]
          exact ⟨hrev, trivial⟩

theorem curRun_spec (c : SstCfg) (hc : CursorGood c) (blocks : List Block) (es : List SEntry)
    (hfl : blocks.flatten = es) (hne : ∀ b ∈ blocks, b ≠ []) (hs : SortedE es) (asc : Bool) :
    ∀ (ops : List COp) (cur : Cur), cur.dead = false →
      (ops.foldl (curStep c blocks asc) cur).rem = ops.foldl (specStep es asc) cur.rem ∧
      (ops.foldl (curStep c blocks asc) cur).dead = false := by
  intro ops
  induction ops with
  | nil => intro cur hd; exact ⟨rfl, hd⟩
  | cons op ops ih =>
    intro cur hd
    obtain ⟨h1, h2⟩ := curStep_spec c hc blocks es hfl hne hs asc cur op hd
    simp only [List.foldl_cons]
    rw [← h1]
    exact ih _ h2

/-- **Cursor theorem.**  For one long-lived table iterator (either direction) over a table built
from any sorted entry list with any block size, and for EVERY sequence of calls — `Rewind`,
`Seek(k)` for arbitrary `k` (stored keys, keys in the current block, in the block just left, in
the gap between two blocks, before the first / after the last entry), `Next` on a valid
iterator, in any order, including `Seek` after the iterator ran off either end — the entries from
the current position on are exactly those of the specification cursor over the stored entries
(forward: `dropWhile (< k)`; reverse: the entries `≤ k`, last first; `Next` = drop the current
one), and no call panics.  In particular `Valid()` and the current entry agree after every call.
Invariant: the model state is a suffix (prefix, reversed) of the flattened entries — i.e. a
(block index, in-block position) pair — and each call re-establishes it (`curStep_spec`: one case
per call, on top of `seekFwd_spec` / `seekRev_spec`). -/
theorem C35_cursor (c : SstCfg) (hc : CursorGood c) (hash : Bytes → Nat) (blockSize : Nat) (bloomOn : Bool)
    (bpk k : Nat) (es : List SEntry) (hs : SortedE es) (asc : Bool) (ops : List COp) :
    (curRun c (buildTable c hash blockSize bloomOn bpk k es).blocks asc ops).rem = specRun es asc ops ∧
    (curRun c (buildTable c hash blockSize bloomOn bpk k es).blocks asc ops).dead = false := by
  have hfl := buildBlocks_flatten c blockSize es
  have hne := buildBlocks_nonempty c blockSize es
  have := curRun_spec c hc (buildBlocks c blockSize es) es hfl hne hs asc ops {} rfl
  simpa [curRun, specRun, buildTable] using this

/-- the shape of seed C35-m2r3: `seekHelper` re-uses the block the block iterator names and `Next`
drops both views on leaving a block -/
def ReuseShape (c : SstCfg) : Prop := c = { SstCfg.good with seekReloads := false, nextUnloadsBoth := true }
instance decReuseShape (c : SstCfg) : Decidable (ReuseShape c) := by unfold ReuseShape; exact inferInstance

/-- with the reuse shortcut: scan a two-block table to the end, then `Seek` to the key stored in
the last block — the iterator reports end-of-table although the entry exists -/
theorem C35_fails_seek_reuse_after_exhaustion (c : SstCfg) (hc : ReuseShape c) :
    let es : List SEntry := [(mkKey IdxCfg.good [97] 5, [1]), (mkKey IdxCfg.good [97] 3, [2])]
    let t := buildTable c (fun _ => 0) 32 false 0 1 es
    let ops := [COp.rewind, COp.next, COp.next, COp.seek (mkKey IdxCfg.good [97] 3)]
    t.blocks.length = 2 ∧ (curRun c t.blocks true ops).rem = [] ∧
    specRun es true ops = [(mkKey IdxCfg.good [97] 3, [2])] := by
  unfold ReuseShape at hc
  subst hc
  decide

/-- the as-is configuration of the open finding -/
def AsIsSeek (c : SstCfg) : Prop := c.GoodButSeek ∧ c.seekFallsThrough = false
instance decAsIsSeek (c : SstCfg) : Decidable (AsIsSeek c) := by unfold AsIsSeek; exact inferInstance

/-- witness corpus/C35/finding-seek-block-gap.ops: entries `a`@5, `a`@3 with a block size that puts
each in its own block.  `Seek(a@4)` must land on `a`@3 (the first entry at or after the target);
the as-is iterator is invalid, and so `Search(a@4)` — "the newest version of `a` visible at 4" —
answers not-found. -/
theorem C35_fails_asis_seek_block_gap (c : SstCfg) (hc : AsIsSeek c) :
    let es : List SEntry := [(mkKey IdxCfg.good [97] 5, [1]), (mkKey IdxCfg.good [97] 3, [2])]
    let t := buildTable c (fun _ => 0) 32 false 0 1 es
    t.blocks.length = 2 ∧
    seekFwd c (mkKey IdxCfg.good [97] 4) t.blocks = [] ∧
    es.dropWhile (fun e => klt e.1 (mkKey IdxCfg.good [97] 4)) = [(mkKey IdxCfg.good [97] 3, [2])] ∧
    search c (fun _ => 0) t (mkKey IdxCfg.good [97] 4) = none := by
  obtain ⟨so, nb, ts, bf, br, sv, bp, vc, cg, ve, sr, nu⟩ := c
  obtain ⟨⟨h1, h2, h3, h4, h5, h6⟩, h7⟩ := hc
  simp only at h1 h2 h3 h4 h5 h6 h7
  subst h1 h2 h3 h4 h5 h6 h7
  cases vc <;> cases cg <;> cases ve <;> cases sr <;> cases nu <;> decide

/-! ### a block that fails its checksum is never served (shared with C14: SST data blocks) -/

/-- every cached block is the verified decoding of what is on disk -/
def CacheClean (disk : Nat → Block × Bool) (cache : List (Nat × Block)) : Prop :=
  ∀ i b, cache.lookup i = some b → disk i = (b, true)

theorem loadBlock_clean (c : SstCfg) (hc : c.verifyBeforeCache = true) (disk : Nat → Block × Bool)
    (cache : List (Nat × Block)) (h : CacheClean disk cache) (idx : Nat) :
    CacheClean disk (loadBlock c disk cache idx).2 ∧
    ((loadBlock c disk cache idx).1 = .err ∨ ((loadBlock c disk cache idx).1 = .ok (disk idx).1 ∧ (disk idx).2 = true)) := by
  unfold loadBlock
  cases hl : cache.lookup idx with
  | some b =>
    have := h idx b hl
    simp [this, h]
  | none =>
    simp only [hc, if_true]
    cases hd : (disk idx).2 with
    | false => simp [h]
    | true =>
      simp only [if_true]
      refine ⟨?_, by simp⟩
      intro i b hi
      simp only [List.lookup_cons] at hi
      by_cases e : i = idx
      · subst e
        simp at hi
        rw [← hi]
        exact Prod.ext rfl hd
      · have : (i == idx) = false := by simpa using e
        simp only [this] at hi
        exact h i b hi

/-- With the checksum verified before the block is cached: in any sequence of block loads (any
indexes, any repetition, starting from a cache of verified blocks) every load either fails or
returns the verified on-disk block — a block whose checksum does not match is never returned,
neither on the first read nor on a retry. -/
theorem C35_corrupt_block_never_served (c : SstCfg) (hc : c.verifyBeforeCache = true)
    (disk : Nat → Block × Bool) (cache : List (Nat × Block)) (h : CacheClean disk cache) (idxs : List Nat) :
    ∀ p ∈ (idxs.zip (loadSeq c disk cache idxs)), p.2 = .err ∨ (p.2 = .ok (disk p.1).1 ∧ (disk p.1).2 = true) := by
  induction idxs generalizing cache with
  | nil => simp [loadSeq]
  | cons i is ih =>
    obtain ⟨h1, h2⟩ := loadBlock_clean c hc disk cache h i
    intro p hp
    simp only [loadSeq, List.zip_cons_cons, List.mem_cons] at hp
    rcases hp with hp | hp
    · subst hp; exact h2
    · exact ih _ h1 p hp

/-- cache-then-verify (the shape a refactoring can produce): the first load of a corrupted block
fails, the retry is served the corrupted block from the cache. -/
theorem C35_fails_cache_before_verify (c : SstCfg) (hc : c.verifyBeforeCache = false) :
    loadSeq c (fun _ => ([([1], [66])], false)) [] [0, 0] = [.err, .ok [([1], [66])]] := by
  simp [loadSeq, loadBlock, hc, List.lookup]

/-! ### every load that is not served from the cache is verified -/

/-- With unconditional verification, in any sequence of loads that miss the cache — the file may
change between any two of them — every load either fails or returns the decoding of what is in
the file *at that moment* with a matching checksum.  (A cache hit returns a block that went
through this step when it was inserted: `C35_corrupt_block_never_served`.) -/
theorem C35_every_uncached_load_verified (c : SstCfg) (hc : c.verifyEveryLoad = true) (verified : List Nat)
    (steps : List ((Nat → Block × Bool) × Nat)) :
    ∀ p ∈ steps.zip (loadSeqLive c verified steps),
      p.2 = .err ∨ (p.2 = .ok (p.1.1 p.1.2).1 ∧ (p.1.1 p.1.2).2 = true) := by
  induction steps generalizing verified with
  | nil => simp [loadSeqLive]
  | cons st rest ih =>
    obtain ⟨disk, i⟩ := st
    intro p hp
    simp only [loadSeqLive, List.zip_cons_cons, List.mem_cons] at hp
    rcases hp with hp | hp
    · subst hp
      simp only [loadUncached, verifyStep, hc, if_true]
      cases h : (disk i).2 <;> simp
    · exact ih _ p hp

/-- verify-once-per-handle (seed C14-m2r2's shape): a block read while intact and corrupted in the
file afterwards is returned on the next uncached load. -/
theorem C35_fails_verify_once (c : SstCfg) (hc : c.verifyEveryLoad = false) :
    loadSeqLive c [] [((fun _ => ([([1], [65])], true)), 0), ((fun _ => ([([1], [66])], false)), 0)] =
      [.ok [([1], [65])], .ok [([1], [66])]] := by
  simp [loadSeqLive, loadUncached, verifyStep, hc]

/-! ### the block trailer never crashes the reader -/

/-- With the checksum-length field bounded by the bytes that precede it, the first trailer step
never slices out of range, whatever the block length and whatever the four length bytes hold. -/
theorem C35_trailer_never_panics (c : SstCfg) (hc : c.chkLenGuardReadPos = true) (len chkLen : Nat) :
    chkLenStep c len chkLen ≠ .panic := by
  unfold chkLenStep
  simp only [hc, if_true]
  by_cases h : chkLen > len - 4
  · simp [h]
  · simp [h]

/-- as-is guard (`chkLen > len(b.data)`): witness corpus/C35/finding-chklen-guard.ops — a block of
40 bytes (one entry: 9-byte key, 5-byte value); flipping bit 5 of the last byte turns the length
field 8 into 40, which passes the guard and makes `readPos` negative: `table.Search` panics. -/
theorem C35_fails_asis_chklen_guard (c : SstCfg) (hc : c.chkLenGuardReadPos = false) :
    blockBytes [(mkKey IdxCfg.good [97] 1, [1, 2, 3, 4, 5])] = 40 ∧
    flippedChkLen 3 5 = 40 ∧
    chkLenStep c 40 (flippedChkLen 3 5) = .panic := by
  refine ⟨by decide, by decide, ?_⟩
  unfold chkLenStep
  simp only [hc]
  decide

end NoKV.Props.C35

/-
C17  Transactional reads return the newest committed value visible at their timestamp; point
gets and scans agree.

Only property theorems, their non-vacuity examples and the `…_fails_asis` theorems live here;
helper lemmas are in `Perc/*.lean`.  Every theorem takes the configuration `c` (facts extracted
from `percolator/reader.go`, `percolator/txn.go`, `raftstore/kv/apply.go`) and a decidable
hypothesis about it first.

Histories: every list `reqs` of well-formed write-path requests (prewrite, commit, batch
rollback, resolve lock, check txn status — `Req.WF`: commit ts above start ts, puts carry a
non-empty value) applied to the empty store, of any length, in any order, with duplicates and
late requests.  Reads do not change the state, so they are taken at the end of the history.
-/
import NoKVModel.Perc.Read
import NoKVModel.Props.C19

namespace NoKV.Props.C17
open NoKV NoKV.Perc

/-- **Blocked by a lock.**  In every state, a point read at `t` of a key carrying a lock with
start ts `≤ t` is answered with that lock. -/
theorem C17_locked (c : PercCfg) (hc : c.ReadOps) (s : Store) (k : Bytes) (t : Nat) (l : Lock)
    (hl : (s k).lock = some l) (hle : l.ts ≤ t) : get c s k t = .locked l := by
  obtain ⟨hop, _, _, _⟩ := hc
  have : ¬ t < l.ts := by omega
  simp [Perc.get, getK, hl, hop, ge_nat, this]

/-- **Newest committed put/delete wins.**  After any history, for a key without a blocking lock:
(1) if no put/delete record has commit ts `≤ t`, the read answers not-found;
(2) otherwise let `w` be the put/delete record with the greatest commit ts `≤ t` — whatever rollback
or lock-only records lie above it —: a delete answers not-found, a put answers the very value its
transaction prewrote (the default-CF entry at `w.start`). -/
theorem C17_visible (c : PercCfg) (hc : c.ReadGood ∧ c.ConflictGood) (reqs : List Req)
    (hwf : ∀ r ∈ reqs, r.WF) (k : Bytes) (t : Nat)
    (hfree : ∀ l, (run c Store.empty reqs k).lock = some l → t < l.ts) :
    ((∀ w ∈ (run c Store.empty reqs k).writes, w.ts ≤ t → w.kind ≠ .put ∧ w.kind ≠ .del) →
        get c (run c Store.empty reqs) k t = .notFound) ∧
    (∀ w ∈ (run c Store.empty reqs k).writes, w.ts ≤ t → (w.kind = .put ∨ w.kind = .del) →
        (∀ w' ∈ (run c Store.empty reqs k).writes, w'.ts ≤ t → (w'.kind = .put ∨ w'.kind = .del) → w'.ts ≤ w.ts) →
        (w.kind = .del → get c (run c Store.empty reqs) k t = .notFound) ∧
        (w.kind = .put → ∃ v, v ≠ [] ∧ (⟨w.start, some v⟩ : DRec) ∈ (run c Store.empty reqs k).defs ∧
            get c (run c Store.empty reqs) k t = .value v)) := by
  obtain ⟨⟨⟨hlop, _, hts, _⟩, hgr, hgl, _, _⟩, hcf⟩ := hc
  have hinv : KInv (run c Store.empty reqs k) := Inv.run hcf reqs _ hwf Inv.empty k
  generalize run c Store.empty reqs = s at *
  -- the lock, if any, does not block
  have hget : get c s k t = getValue c (s k) t := by
    simp only [Perc.get, getK]
    cases hl : (s k).lock with
    | none => rfl
    | some l =>
      have := hfree l hl
      simp [hlop, ge_nat, this]
  have hp : ∀ w : WRec, (c.getTsOp.nat w.ts t && !getSkips c w.kind) = (decide (w.ts ≤ t) && !isSkip w.kind) := by
    intro w; rw [hts, le_nat, getSkips_good hgr hgl]
  constructor
  · intro hnone
    rw [hget, getValue, writeForRead]
    have : (s k).writes.find? (fun w => c.getTsOp.nat w.ts t && !getSkips c w.kind) = none := by
      rw [find_none_iff]
      intro x hx
      rw [hp]
      by_cases hle : x.ts ≤ t
      · obtain ⟨h1, h2⟩ := hnone x hx hle
        cases hk : x.kind <;> simp_all
      · simp [hle]
    rw [this]; rfl
  · intro w hw hle hkind hmax
    -- the record found by the read is `w`
    have hpw : (c.getTsOp.nat w.ts t && !getSkips c w.kind) = true := by
      rw [hp]; rcases hkind with h | h <;> simp [h, hle]
    have hfound : (s k).writes.find? (fun w => c.getTsOp.nat w.ts t && !getSkips c w.kind) = some w := by
      cases hf : (s k).writes.find? (fun w => c.getTsOp.nat w.ts t && !getSkips c w.kind) with
      | none =>
        rw [find_none_iff] at hf
        rw [hf w hw] at hpw; cases hpw
      | some w' =>
        obtain ⟨h1, h2, h3⟩ := find_newest hinv.sw _ hf
        have hw'le := h3 w hw hpw
        rw [hp] at h2
        have hle' : w'.ts ≤ t := by
          by_cases h : w'.ts ≤ t
          · exact h
          · simp [h] at h2
        have hk' : w'.kind = .put ∨ w'.kind = .del := by
          cases hk : w'.kind <;> simp_all
        have := hmax w' h1 hle' hk'
        have heq : w'.ts = w.ts := by omega
        rw [desc_ts_inj hinv.sw h1 hw heq]
    rw [hget, getValue, writeForRead, hfound]
    constructor
    · intro hk
      simp [valueOf, hk]
    · intro hk
      obtain ⟨d, hd1, hd2, hd3, _⟩ := hinv.data w hw (by rw [hk]; decide)
      obtain ⟨v, hv1, hv2⟩ := hd3 hk
      have hgetAt : getAt (s k).defs w.start = some d := by rw [← hd2]; exact getAt_exact hinv.sd hd1
      refine ⟨v, hv2, ?_, ?_⟩
      · have : d = ⟨w.start, some v⟩ := by cases d; simp_all
        rw [← this]; exact hd1
      · simp [valueOf, hk, hgetAt, hv1, hv2]

/-- A scan expressed through point reads: the keys of the store in ascending order, those in
range, stop at the first key whose point read is blocked, keep the values found, up to `room`. -/
def scanOfGets (c : PercCfg) (s : Store) (startKey : Bytes) (incl : Bool) (t : Nat) :
    Nat → List Bytes → ScanOut
  | 0, _ => ⟨[], none⟩
  | _, [] => ⟨[], none⟩
  | room + 1, k :: rest =>
    if !(inScanRange startKey incl k) then scanOfGets c s startKey incl t (room + 1) rest
    else match get c s k t with
      | .locked l => ⟨[], some (k, l)⟩
      | .value v =>
        let r := scanOfGets c s startKey incl t room rest
        ⟨(k, v) :: r.kvs, r.err⟩
      | .notFound => scanOfGets c s startKey incl t (room + 1) rest

/-- **Gets and scans agree.**  After any history, for any key list, start key, inclusion flag,
limit and read timestamp, `handleScan` answers exactly what point reads of the same keys at the
same timestamp answer (same values, same first lock error, same cut-off). -/
theorem C17_get_scan_agree (c : PercCfg) (hc : c.ScanGood ∧ c.ConflictGood) (reqs : List Req)
    (hwf : ∀ r ∈ reqs, r.WF) (keys : List Bytes) (startKey : Bytes) (incl : Bool) (t room : Nat) :
    scanLoop c (run c Store.empty reqs) startKey incl t room keys =
      scanOfGets c (run c Store.empty reqs) startKey incl t room keys := by
  obtain ⟨⟨hrg, hsee⟩, hcf⟩ := hc
  have hinv : Inv (run c Store.empty reqs) := Inv.run hcf reqs _ hwf Inv.empty
  generalize run c Store.empty reqs = s at *
  obtain ⟨⟨hlop, hslop, _, _⟩, _⟩ := id hrg
  induction keys generalizing room with
  | nil => cases room <;> simp [scanLoop, scanOfGets]
  | cons k rest ih =>
    cases room with
    | zero => simp [scanLoop, scanOfGets]
    | succ room =>
      simp only [scanLoop, scanOfGets]
      by_cases hr : inScanRange startKey incl k = true
      · -- in range
        have hki := hinv k
        by_cases hv : scanVisits c (s k) = true
        · simp only [hv, hr, Bool.not_true, Bool.or_self, Bool.false_eq_true, if_false]
          cases hl : (s k).lock with
          | some l =>
            by_cases hb : t < l.ts
            · -- lock above the read ts: not blocked
              have hwalk := scanWalk_eq c hrg (s k).defs hki.sd t (s k).writes hki.data
              have hg : get c s k t = getValue c (s k) t := by simp [Perc.get, getK, hl, hlop, ge_nat, hb]
              simp only [hslop, ge_nat, hb, decide_true, Bool.not_true, Bool.false_eq_true, if_false]
              rw [hwalk, hg, getValue]
              cases hres : valueOf (s k).defs (writeForRead c t (s k).writes) with
              | notFound => simp only [ReadRes.toOpt]; exact ih (room + 1)
              | value v => simp only [ReadRes.toOpt]; rw [ih room]
              | locked l' =>
                -- `valueOf` never answers `locked`
                exfalso
                simp only [valueOf] at hres
                split at hres
                · cases hres
                · split at hres
                  · cases hres
                  · split at hres
                    · cases hres
                    · split at hres
                      · cases hres
                      · split at hres <;> cases hres
            · have hg : get c s k t = .locked l := by simp [Perc.get, getK, hl, hlop, ge_nat, hb]
              simp [hslop, ge_nat, hb, hg]
          | none =>
            have hwalk := scanWalk_eq c hrg (s k).defs hki.sd t (s k).writes hki.data
            have hg : get c s k t = getValue c (s k) t := by simp [Perc.get, getK, hl]
            simp only
            rw [hwalk, hg, getValue]
            cases hres : valueOf (s k).defs (writeForRead c t (s k).writes) with
            | notFound => simp only [ReadRes.toOpt]; exact ih (room + 1)
            | value v => simp only [ReadRes.toOpt]; rw [ih room]
            | locked l' =>
              exfalso
              simp only [valueOf] at hres
              split at hres
              · cases hres
              · split at hres
                · cases hres
                · split at hres
                  · cases hres
                  · split at hres
                    · cases hres
                    · split at hres <;> cases hres
        · -- the scan never meets the key: no write record and no lock, the point read finds nothing
          have hv' : scanVisits c (s k) = false := by simpa using hv
          simp only [scanVisits, hsee, Bool.true_and, Bool.or_eq_false_iff, Bool.not_eq_false',
            List.isEmpty_iff, Option.isSome_eq_false_iff, Option.isNone_iff_eq_none] at hv'
          obtain ⟨hw, hl⟩ := hv'
          have hg : get c s k t = .notFound := by
            simp [Perc.get, getK, hl, getValue, writeForRead, hw, valueOf]
          simp only [scanVisits, hw, hl, hr, hg]
          simpa using ih (room + 1)
      · have hr' : inScanRange startKey incl k = false := by simpa using hr
        simp only [hr', Bool.not_false, Bool.or_true, if_true]
        exact ih (room + 1)

/-! ### the tree as found -/

def ka : Bytes := [0x61]

def pw (start : Nat) (op : MutOp) (v : Bytes) : Req := .prewrite ⟨start, ka, 100, 0⟩ [⟨op, ka, v⟩]

/-- put committed at 11, then transaction 20 prewrites and is rolled back -/
def wRollback : List Req := [pw 10 .put [1], .commit 10 11 [ka], pw 20 .put [2], .rollback 20 [ka]]

/-- put committed at 11, then transaction 20 locks the key without writing it and commits at 21 -/
def wLockOnly : List Req := [pw 10 .put [1], .commit 10 11 [ka], pw 20 .lock [], .commit 20 21 [ka]]

/-- `getWriteForRead` does not pass over rollback records: the rollback record of transaction 20
hides the value committed at 11 from a read at 30 (no lock, no newer put/delete). -/
theorem C17_fails_asis_rollback_hides (c : PercCfg) (hc : c.AllOps ∧ c.getSkipsRollback = false) :
    (∀ r ∈ wRollback, r.WF) ∧ (run c Store.empty wRollback ka).lock = none ∧
    (⟨11, 10, .put⟩ : WRec) ∈ (run c Store.empty wRollback ka).writes ∧
    (∀ w ∈ (run c Store.empty wRollback ka).writes, w.ts ≤ 30 → (w.kind = .put ∨ w.kind = .del) → w.ts ≤ 11) ∧
    get c (run c Store.empty wRollback) ka 30 = .notFound := by
  obtain ⟨hops, hflag⟩ := hc
  rw [PercCfg.eq_ofFlags c hops, hflag]
  generalize c.getSkipsLock = b1
  generalize c.scanSkipsRollback = b2
  generalize c.scanSkipsLock = b3
  generalize c.scanSeesLockOnlyKeys = b4
  generalize c.commitChecksRollback = b5
  generalize c.rollbackChecksOwner = b6
  generalize c.ttlOverflowGuard = b7
  generalize c.prewriteKeepsOwnLock = b8
  refine ⟨by decide, ?_⟩
  cases b1 <;> cases b2 <;> cases b3 <;> cases b4 <;> cases b5 <;> cases b6 <;> cases b7 <;> cases b8 <;> decide

/-- `getWriteForRead` does not pass over lock-only records: the lock-only commit at 21 hides the
value committed at 11 from a point read at 30. -/
theorem C17_fails_asis_lockonly_hides (c : PercCfg) (hc : c.AllOps ∧ c.getSkipsLock = false) :
    (∀ r ∈ wLockOnly, r.WF) ∧ (run c Store.empty wLockOnly ka).lock = none ∧
    (⟨11, 10, .put⟩ : WRec) ∈ (run c Store.empty wLockOnly ka).writes ∧
    (∀ w ∈ (run c Store.empty wLockOnly ka).writes, w.ts ≤ 30 → (w.kind = .put ∨ w.kind = .del) → w.ts ≤ 11) ∧
    get c (run c Store.empty wLockOnly) ka 30 = .notFound := by
  obtain ⟨hops, hflag⟩ := hc
  rw [PercCfg.eq_ofFlags c hops, hflag]
  generalize c.getSkipsRollback = b1
  generalize c.scanSkipsRollback = b2
  generalize c.scanSkipsLock = b3
  generalize c.scanSeesLockOnlyKeys = b4
  generalize c.commitChecksRollback = b5
  generalize c.rollbackChecksOwner = b6
  generalize c.ttlOverflowGuard = b7
  generalize c.prewriteKeepsOwnLock = b8
  refine ⟨by decide, ?_⟩
  cases b1 <;> cases b2 <;> cases b3 <;> cases b4 <;> cases b5 <;> cases b6 <;> cases b7 <;> cases b8 <;> decide

/-- `collectVisibleValue` stops at a rollback record: the scan at 30 does not report the key
whose value was committed at 11 (no lock, no newer put/delete), the rollback record of 20 hides it. -/
theorem C17_fails_asis_scan_rollback_hides (c : PercCfg) (hc : c.AllOps ∧ c.scanSkipsRollback = false) :
    (run c Store.empty wRollback ka).lock = none ∧
    (⟨11, 10, .put⟩ : WRec) ∈ (run c Store.empty wRollback ka).writes ∧
    (∀ w ∈ (run c Store.empty wRollback ka).writes, w.ts ≤ 30 → (w.kind = .put ∨ w.kind = .del) → w.ts ≤ 11) ∧
    scan c (run c Store.empty wRollback) [ka] [] true 10 30 = ⟨[], none⟩ := by
  obtain ⟨hops, hflag⟩ := hc
  rw [PercCfg.eq_ofFlags c hops, hflag]
  generalize c.getSkipsRollback = b1
  generalize c.getSkipsLock = b2
  generalize c.scanSkipsLock = b3
  generalize c.scanSeesLockOnlyKeys = b4
  generalize c.commitChecksRollback = b5
  generalize c.rollbackChecksOwner = b6
  generalize c.ttlOverflowGuard = b7
  generalize c.prewriteKeepsOwnLock = b8
  cases b1 <;> cases b2 <;> cases b3 <;> cases b4 <;> cases b5 <;> cases b6 <;> cases b7 <;> cases b8 <;> decide

/-- `collectVisibleValue` treats a lock-only record as a value: the scan reports the key with an
empty value, which no point read of the key answers (they say not-found, or — once the point
read is repaired — the value committed at 11). -/
theorem C17_fails_asis_get_scan_disagree (c : PercCfg) (hc : c.AllOps ∧ c.scanSkipsLock = false) :
    (scan c (run c Store.empty wLockOnly) [ka] [] true 10 30).kvs = [(ka, [])] ∧
    get c (run c Store.empty wLockOnly) ka 30 ≠ .value [] := by
  obtain ⟨hops, hflag⟩ := hc
  rw [PercCfg.eq_ofFlags c hops, hflag]
  generalize c.getSkipsRollback = b1
  generalize c.getSkipsLock = b2
  generalize c.scanSkipsRollback = b3
  generalize c.scanSeesLockOnlyKeys = b4
  generalize c.commitChecksRollback = b5
  generalize c.rollbackChecksOwner = b6
  generalize c.ttlOverflowGuard = b7
  generalize c.prewriteKeepsOwnLock = b8
  cases b1 <;> cases b2 <;> cases b3 <;> cases b4 <;> cases b5 <;> cases b6 <;> cases b7 <;> cases b8 <;> decide

/-- `handleScan` only meets keys that have a write record: a key that was prewritten (lock at
40) but never committed before is invisible to a scan at 50, while the point read is blocked. -/
theorem C17_fails_asis_scan_unlocked (c : PercCfg) (hc : c.AllOps ∧ c.scanSeesLockOnlyKeys = false) :
    (∃ l, get c (run c Store.empty [pw 40 .put [4]]) ka 50 = .locked l) ∧
    scan c (run c Store.empty [pw 40 .put [4]]) [ka] [] true 10 50 = ⟨[], none⟩ := by
  obtain ⟨hops, hflag⟩ := hc
  rw [PercCfg.eq_ofFlags c hops, hflag]
  generalize c.getSkipsRollback = b1
  generalize c.getSkipsLock = b2
  generalize c.scanSkipsRollback = b3
  generalize c.scanSkipsLock = b4
  generalize c.commitChecksRollback = b5
  generalize c.rollbackChecksOwner = b6
  generalize c.ttlOverflowGuard = b7
  generalize c.prewriteKeepsOwnLock = b8
  refine ⟨⟨⟨ka, 40, 100, .put, 0⟩, ?_⟩, ?_⟩ <;>
    (cases b1 <;> cases b2 <;> cases b3 <;> cases b4 <;> cases b5 <;> cases b6 <;> cases b7 <;> cases b8 <;> decide)

/-! ### regardless of flushes and compactions

The theorems above are about the logical content of the three column families.  The code reads
the lock and the value of a write record through `DB.GetVersionedEntry` (`Perc/Phys.lean`:
`lockOf`, `defsOf` = `Lsm.get`), so where rotation / flush / compaction have put the records
matters as soon as the LSM read path is not the good one. -/

open NoKV.Perc.Phys in
/-- **Both lookups of the read path answer the most recent write** of the internal key they ask
for (lock column: `(CFLock, key, MaxUint64)`; value of a write record: greatest default-CF version
`≤ startTs`), whatever rotations, flushes, L0→ingest moves, ingest merges / drains and reopens
happened, for every good LSM configuration (`C02_getv_refines` at the two internal keys).
Not instantiated at the extracted configuration (`cfgfree`): it needs all of `Cfg.AllGood`. -/
theorem C17_lookups_survive_maintenance (c : C19Cfg) (hc : c.lsm.AllGood) (ops : List Lsm.Op)
    (hops : ∀ op ∈ ops, op.wf) (k : Bytes) (v : Nat) :
    Lsm.get c.lsm (Lsm.run c.lsm {} ops) ⟨cfLock, k, Lsm.maxVersion⟩ =
      Lsm.pick ⟨cfLock, k, Lsm.maxVersion⟩ (Lsm.logOf [] ops) ∧
    Lsm.get c.lsm (Lsm.run c.lsm {} ops) ⟨cfDefault, k, v⟩ = Lsm.pick ⟨cfDefault, k, v⟩ (Lsm.logOf [] ops) :=
  ⟨NoKV.Props.C02.C02_getv_refines c.lsm hc ops hops _, NoKV.Props.C02.C02_getv_refines c.lsm hc ops hops _⟩

open NoKV.Perc.Phys in
/-- transaction 20 writes `a` and commits at 25; after a memtable rotation the older transaction
10 is rolled back on `a` (tombstone at `(a, 10)`, rollback record at 10) -/
def wFirstHit : List Lsm.Op :=
  [.put (defEntry ka 20 (some [2])), .put (lockEntry ka ⟨ka, 20, 100, .put, 0⟩),
   .put (wEntry ka ⟨25, 20, .put⟩), .put (lockTomb ka), .rotate,
   .put (wEntry ka ⟨10, 10, .rollback⟩), .put (defEntry ka 10 none)]

open NoKV.Perc.Phys in
/-- `LSM.Get` stops at the first source holding *any* version `≤` the requested one: the value
lookup `(a, 20)` of the record committed at 25 is answered by the tombstone `(a, 10)` in the newer
memtable — the committed value is hidden from every read at or above 25 (finding `lsm-first-hit`,
here for the value lookup of `GetValue` / `collectVisibleValue`). -/
theorem C17_fails_asis_lsm_first_hit (c : C19Cfg) (hc : c.lsm.crossPick = .firstHit ∧ c.lsm.tieRule = .lt) :
    Lsm.get c.lsm (Lsm.run c.lsm {} wFirstHit) ⟨cfDefault, ka, 20⟩ = some (defEntry ka 10 none) ∧
    Lsm.pick ⟨cfDefault, ka, 20⟩ (Lsm.logOf [] wFirstHit) = some (defEntry ka 20 (some [2])) := by
  obtain ⟨pc, lc⟩ := c
  dsimp only at hc ⊢
  clear pc
  rcases lc with ⟨d, t, cp, lo, io, im, mk, to, ob, pk, zf⟩
  simp only at hc
  obtain ⟨rfl, rfl⟩ := hc
  cases d <;> cases lo <;> cases io <;> cases im <;> cases mk <;> cases to <;> cases ob <;>
    cases pk <;> cases zf <;> decide

open NoKV.Perc.Phys in
/-- Lock and removal tombstone in two L0 tables: `GetLock` answers the removed lock again
(`C19_fails_asis_lsm_l0_oldest_wins`), so every point read at or above its start ts is blocked by
a transaction that is over (finding `lsm-l0-oldest-wins`, here for reads). -/
theorem C17_fails_asis_lsm_l0_oldest_wins (c : C19Cfg)
    (hc : c.lsm.l0SearchDir = .oldestFirst ∧ c.lsm.tieRule = .lt ∧ c.perc.ReadOps) :
    Lsm.pick ⟨cfLock, NoKV.Props.C19.kc, Lsm.maxVersion⟩ (Lsm.logOf [] NoKV.Props.C19.wL0) = some (lockTomb NoKV.Props.C19.kc) ∧
    ∀ (ws : List WRec) (ds : List DRec) (t : Nat), 40 ≤ t →
      getK c.perc ⟨lockOf c.lsm (Lsm.run c.lsm {} NoKV.Props.C19.wL0) NoKV.Props.C19.kc, ws, ds⟩ t = .locked NoKV.Props.C19.lock40 := by
  obtain ⟨h1, h2, hop, _, _, _⟩ := hc
  obtain ⟨hl, hp⟩ := NoKV.Props.C19.C19_fails_asis_lsm_l0_oldest_wins c ⟨h1, h2⟩
  refine ⟨hp, ?_⟩
  intro ws ds t ht
  have : ¬ t < 40 := by omega
  simp [getK, hl, hop, ge_nat, NoKV.Props.C19.lock40, this]

open NoKV.Perc.Phys in
/-- The same with the two records in two ingest tables searched in descending min-key order
(finding `lsm-ingest-minkey-order`, here for reads). -/
theorem C17_fails_asis_lsm_ingest_minkey (c : C19Cfg)
    (hc : c.lsm.ingestOrder = .minKeyDesc ∧ c.lsm.tieRule = .lt ∧ c.perc.ReadOps) :
    Lsm.pick ⟨cfLock, NoKV.Props.C19.kc, Lsm.maxVersion⟩ (Lsm.logOf [] NoKV.Props.C19.wIngest) = some (lockTomb NoKV.Props.C19.kc) ∧
    ∀ (ws : List WRec) (ds : List DRec) (t : Nat), 40 ≤ t →
      getK c.perc ⟨lockOf c.lsm (Lsm.run c.lsm {} NoKV.Props.C19.wIngest) NoKV.Props.C19.kc, ws, ds⟩ t = .locked NoKV.Props.C19.lock40 := by
  obtain ⟨h1, h2, hop, _, _, _⟩ := hc
  obtain ⟨hl, hp⟩ := NoKV.Props.C19.C19_fails_asis_lsm_ingest_minkey c ⟨h1, h2⟩
  refine ⟨hp, ?_⟩
  intro ws ds t ht
  have : ¬ t < 40 := by omega
  simp [getK, hl, hop, ge_nat, NoKV.Props.C19.lock40, this]

/-! ### non-vacuity -/

open NoKV.Perc.Phys in
/-- the first-hit placement produced by the request handlers themselves: the read at 30 loses the
value committed at 25 under the LSM decisions of the tree as found, and keeps it under the good ones -/
example :
    let asis : Lsm.Cfg := { Lsm.Cfg.good with l0SearchDir := .oldestFirst, ingestOrder := .minKeyDesc, crossPick := .firstHit, zeroVersionFound := false }
    let h : List POp := [.req (pw 20 .put [2]), .req (.commit 20 25 [ka]), .rotate, .req (.rollback 10 [ka])]
    get PercCfg.good (view asis (prun PercCfg.good asis {} h)) ka 30 = .notFound ∧
    get PercCfg.good (view Lsm.Cfg.good (prun PercCfg.good Lsm.Cfg.good {} h)) ka 30 = .value [2] := by
  decide

example : PercCfg.good.ScanGood ∧ PercCfg.good.ConflictGood := by decide
example : PercCfg.asis.AllOps := by decide

/-- under the good configuration the two witnesses read the committed value, by get and by scan -/
example : get PercCfg.good (run PercCfg.good Store.empty wRollback) ka 30 = .value [1]
    ∧ get PercCfg.good (run PercCfg.good Store.empty wLockOnly) ka 30 = .value [1]
    ∧ (scan PercCfg.good (run PercCfg.good Store.empty wLockOnly) [ka] [] true 10 30).kvs = [(ka, [1])] := by
  decide

end NoKV.Props.C17

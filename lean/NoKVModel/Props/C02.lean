/-
C02 — versioned reads return the newest entry at or below the requested version; repeated writes
of the same version: the most recently written wins; maintenance never changes the answer.

Specification: `pick q log` over the write log (newest first) = greatest version ≤ the requested
one, most recent write among equal versions (tombstones are returned as entries).

HEADLINE STATEMENT (full strength, kept as the target):
    theorem C02_getv_refines (c) (hc : c.Good) (ops : List Op) (hwf : ∀ op ∈ ops, op.wf) (q) :
        get c (run c {} ops) q = pick q (logOf [] ops)
  over ALL modelled ops.  What is proved below is `C02_getv_refines_partial`: the same statement
  for every sequence of put/delete (any cf/key/version/value), rotate, flush, L0→ingest move and
  close+reopen.  MISSING: the two ingest compactions (`keep`, `drain`) — for `keep` the
  preservation lemma is `pick_dedup` + a suffix split of the ingest list, for `drain` it needs the
  additional invariant that main tables have pairwise disjoint user-key ranges — and the
  compaction kinds the model does not have at all (L0→L0, Ln→Ln+1, Lmax→Lmax, value-log GC).
-/
import NoKVModel.Lsm.Steps

namespace NoKV.Props.C02
open NoKV NoKV.Lsm

/-- Versioned reads refine the write log for every good read-path configuration, over all
    sequences of writes/deletes, rotations, flushes, L0→ingest moves and reopens. -/
theorem C02_getv_refines_partial (c : Cfg) (hc : c.ReadGood) (ops : List Op)
    (hops : ∀ op ∈ ops, op.basic = true ∧ op.wf) (q : IK) :
    get c (run c {} ops) q = pick q (logOf [] ops) := by
  have h := inv_run c ops {} [] inv_init hops
  rw [get_good c hc _ q h.main h.pos]
  exact h.same q

theorem logOf_no_put (post : List Op) (hpost : ∀ op ∈ post, ∀ e, op ≠ .put e) :
    ∀ w : List Entry, logOf w post = w := by
  induction post with
  | nil => intro w; rfl
  | cons op post ih =>
    intro w
    have h1 : ∀ e, op ≠ .put e := hpost op List.mem_cons_self
    have : logStep w op = w := by
      cases op <;> first | rfl | exact absurd rfl (h1 _)
    simp only [logOf, List.foldl, this]
    exact ih (fun o ho => hpost o (List.mem_cons_of_mem _ ho)) w

/-- same-version rewrite: the most recently written entry is the answer wherever the older one
    sits (instance of the theorem, spelled out because it is the case C02 singles out) -/
theorem C02_same_version_rewrite (c : Cfg) (hc : c.ReadGood) (pre mid post : List Op) (e1 e2 : Entry)
    (hk : e1.ik = e2.ik)
    (hops : ∀ op ∈ pre ++ [.put e1] ++ mid ++ [.put e2] ++ post, op.basic = true ∧ op.wf)
    (hpost : ∀ op ∈ post, ∀ e, op ≠ .put e) :
    get c (run c {} (pre ++ [.put e1] ++ mid ++ [.put e2] ++ post)) e2.ik = some e2 := by
  rw [C02_getv_refines_partial c hc _ hops]
  have hlog := logOf_no_put post hpost
  have : logOf [] (pre ++ [.put e1] ++ mid ++ [.put e2] ++ post)
      = e2 :: logOf [] (pre ++ [.put e1] ++ mid) := by
    simp only [logOf, List.foldl_append, List.foldl, logStep]
    exact hlog _
  rw [this]
  simp only [pick]
  have hm : mq e2.ik e2 = some e2 := by simp [mq, Entry.ik]
  rw [hm]
  cases hp : pick e2.ik (logOf [] (pre ++ [.put e1] ++ mid)) with
  | none => rfl
  | some z =>
    have hz := pick_mem hp
    simp only [better]
    -- any other answer has version ≤ the requested one = e2.ver
    have : z.ver ≤ e2.ver := by
      clear hz
      have aux : ∀ (l : List Entry) (z : Entry), pick e2.ik l = some z → z.ver ≤ e2.ver := by
        intro l
        induction l with
        | nil => intro z h; simp [pick] at h
        | cons x l ih =>
          intro z h
          simp only [pick] at h
          cases hmx : mq e2.ik x with
          | none => rw [hmx, better_none_left] at h; exact ih z h
          | some y =>
            obtain ⟨hy, -, -, hv⟩ := mq_some hmx
            subst hy
            rw [hmx] at h
            cases hpl : pick e2.ik l with
            | none => rw [hpl] at h; simp [better] at h; subst h; simpa [Entry.ik] using hv
            | some u =>
              rw [hpl] at h
              simp only [better] at h
              split at h
              · simp at h; subst h; exact ih _ hpl
              · simp at h; subst h; simpa [Entry.ik] using hv
      exact aux _ z hp
    have : ¬ e2.ver < z.ver := by omega
    simp [this]

/-! non-vacuity: a good configuration exists and the hypotheses are satisfiable by a sequence
    that pushes one internal key through two flushes and an L0→ingest move -/
example : Cfg.good.ReadGood := by decide

def demoOps : List Op :=
  [.put ⟨0, [107], 5, [1], false⟩, .rotate, .flush, .put ⟨0, [107], 5, [2], false⟩, .rotate, .flush,
   .l0move, .put ⟨0, [107], 3, [3], false⟩, .reopen]

example : ∀ op ∈ demoOps, op.basic = true ∧ op.wf := by
  intro op h
  simp only [demoOps, List.mem_cons, List.not_mem_nil, or_false] at h
  rcases h with h | h | h | h | h | h | h | h | h <;> subst h <;>
    simp [Op.basic, Op.wf, maxKeySize]

example : get Cfg.good (run Cfg.good {} demoOps) ⟨0, [107], 7⟩ = some ⟨0, [107], 5, [2], false⟩ := by
  decide

/-! ## the as-is decisions: negations on the witnesses of corpus/C02 (and corpus/C01) -/

/-- corpus/C0x/finding-l0-oldest-wins.ops -/
def l0tieOps : List Op :=
  [.put ⟨0, [107], 5, [1], false⟩, .rotate, .flush, .put ⟨0, [107], 5, [2], false⟩, .rotate, .flush]

/-- `searchL0SST` visits L0 oldest-first and `table.Search` keeps the first hit on equal versions:
    the older of two same-version writes is returned once both sit in L0. -/
theorem C02_fails_asis_l0tie (c : Cfg) (hc : c.l0SearchDir = .oldestFirst ∧ c.tieRule = .lt) :
    ¬ (get c (run c {} l0tieOps) ⟨0, [107], 5⟩ = pick ⟨0, [107], 5⟩ (logOf [] l0tieOps)) := by
  rcases c with ⟨d, t, cp, lo, io, im, mk, to, ob, pk⟩
  simp only at hc
  obtain ⟨rfl, rfl⟩ := hc
  cases cp <;> cases lo <;> cases io <;> cases im <;> cases mk <;> cases to <;> cases ob <;>
    cases pk <;> decide

/-- corpus/C02/finding-first-hit-hides-greater-version.ops -/
def firstHitOps : List Op :=
  [.put ⟨0, [107], 5, [1], false⟩, .rotate, .put ⟨0, [107], 3, [2], false⟩]

/-- `LSM.Get` / `levelManager.Get` stop at the first source holding any version ≤ the requested
    one: a smaller version written later hides a greater version in an older source. -/
theorem C02_fails_asis_firsthit (c : Cfg) (hc : c.crossPick = .firstHit) :
    ¬ (get c (run c {} firstHitOps) ⟨0, [107], 7⟩ = pick ⟨0, [107], 7⟩ (logOf [] firstHitOps)) := by
  rcases c with ⟨d, t, cp, lo, io, im, mk, to, ob, pk⟩
  simp only at hc
  subst hc
  cases d <;> cases t <;> cases lo <;> cases io <;> cases im <;> cases mk <;> cases to <;>
    cases ob <;> cases pk <;> decide

/-- corpus/C0x/finding-ingest-minkey-order.ops -/
def ingestOrderOps : List Op :=
  [.put ⟨0, [109], 5, [1], false⟩, .rotate, .flush,
   .put ⟨0, [97], 5, [9], false⟩, .put ⟨0, [109], 5, [2], false⟩, .rotate, .flush, .l0move]

/-- the ingest buffer is searched (and merged) in min-key order, not in arrival order: of two
    ingest tables holding the same internal key the one with the greater smallest key wins. -/
theorem C02_fails_asis_ingestorder (c : Cfg) (hc : c.ingestOrder = .minKeyDesc ∧ c.tieRule = .lt) :
    ¬ (get c (run c {} ingestOrderOps) ⟨0, [109], 5⟩ = pick ⟨0, [109], 5⟩ (logOf [] ingestOrderOps)) := by
  rcases c with ⟨d, t, cp, lo, io, im, mk, to, ob, pk⟩
  simp only at hc
  obtain ⟨rfl, rfl⟩ := hc
  cases d <;> cases cp <;> cases lo <;> cases im <;> cases mk <;> cases to <;> cases ob <;>
    cases pk <;> decide

/-- corpus/C0x/finding-drain-overlap.ops -/
def overlapOps : List Op :=
  [.put ⟨0, [97], 5, [1], false⟩, .put ⟨0, [99], 5, [1], false⟩, .put ⟨0, [109], 5, [1], false⟩,
   .rotate, .flush, .l0move, .drain,
   .put ⟨0, [99], 5, [2], false⟩, .put ⟨0, [100], 5, [2], false⟩, .rotate, .flush, .l0move, .drain]

/-- `OverlappingTables` compares the right bound with the next-level table's *largest* key, so a
    main table that extends beyond the compacted range is not selected: the drain leaves two
    overlapping main tables and `getTableForKey` then misses keys (stale value, lost keys). -/
theorem C02_fails_asis_overlap (c : Cfg) (hc : c.overlapRightKey = .maxKey ∧ c.tieRule = .lt) :
    ¬ (get c (run c {} overlapOps) ⟨0, [99], 5⟩ = pick ⟨0, [99], 5⟩ (logOf [] overlapOps)) ∧
    ¬ (get c (run c {} overlapOps) ⟨0, [109], 5⟩ = pick ⟨0, [109], 5⟩ (logOf [] overlapOps)) := by
  rcases c with ⟨d, t, cp, lo, io, im, mk, to, ob, pk⟩
  simp only at hc
  obtain ⟨rfl, rfl⟩ := hc
  cases d <;> cases cp <;> cases lo <;> cases io <;> cases im <;> cases mk <;> cases to <;>
    cases pk <;> decide

end NoKV.Props.C02

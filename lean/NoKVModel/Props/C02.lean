/-
C02 — versioned reads return the newest entry at or below the requested version; repeated writes
of the same version: the most recently written wins; maintenance never changes the answer.

Specification: `pick q log` over the write log (newest first) = greatest version ≤ the requested
one, most recent write among equal versions (tombstones are returned as entries).

HEADLINE `C02_getv_refines`: for every configuration with the good decisions (`Cfg.AllGood`: read
path, `OverlappingTables` right bound, version-0 hits) and EVERY sequence of the modelled
operations — put / delete with any column family, key, version (0 included) and value, rotate,
flush, L0→ingest move, ingest keep, ingest drain (merging with the overlapping main tables),
close+reopen; any order, any number — `get` equals `pick` over the write log.
The only hypothesis on the sequence is the decidable `Op.wf`: written keys are non-empty and at
most `maxKeySize` bytes (other writes are rejected by a good configuration and never reach the
LSM).  Proof: invariant `Inv` of NoKVModel/Lsm/Steps.lean, one preservation lemma per op
(Steps / Compact / Compact2), induction over the op list (Refine.lean).
Not in the model at all (hence not in the theorem): L0→L0, Ln→Ln+1, Lmax→Lmax compactions,
value-log GC, multi-table compaction outputs, expiry.
-/
import NoKVModel.Lsm.Refine

namespace NoKV.Props.C02
open NoKV NoKV.Lsm

/-- Versioned reads refine the write log for every good configuration over ALL sequences of the
    modelled operations. -/
theorem C02_getv_refines (c : Cfg) (hc : c.AllGood) (ops : List Op) (hops : ∀ op ∈ ops, op.wf) (q : IK) :
    get c (run c {} ops) q = pick q (logOf [] ops) :=
  get_refines c hc ops hops q

theorem logOf_no_put (post : List Op) (hpost : ∀ op ∈ post, ∀ e, op ≠ .put e) :
    ∀ w : List Entry, logOf w post = w := by
  induction post with
  | nil => intro w; rfl
  | cons op post ih =>
    intro w
    have h1 : ∀ e, op ≠ .put e := hpost op List.mem_cons_self
    have : logStep w op = w := by
      cases op <;> first | rfl | exact absurd rfl (h1 _)
    simp only [logOf, List.foldl, this]
    exact ih (fun o ho => hpost o (List.mem_cons_of_mem _ ho)) w

theorem pick_ver_le {q : IK} : ∀ (l : List Entry) (z : Entry), pick q l = some z → z.ver ≤ q.ver := by
  intro l
  induction l with
  | nil => intro z h; simp [pick] at h
  | cons x l ih =>
    intro z h
    simp only [pick] at h
    rcases better_eq_some h with h | h
    · obtain ⟨rfl, -, -, hv⟩ := mq_some h
      exact hv
    · exact ih z h

/-- same-version rewrite: the most recently written entry is the answer wherever the older one
    sits and whatever maintenance ran in between or afterwards -/
theorem C02_same_version_rewrite (c : Cfg) (hc : c.AllGood) (pre mid post : List Op) (e1 e2 : Entry)
    (hk : e1.ik = e2.ik)
    (hops : ∀ op ∈ pre ++ [.put e1] ++ mid ++ [.put e2] ++ post, op.wf)
    (hpost : ∀ op ∈ post, ∀ e, op ≠ .put e) :
    get c (run c {} (pre ++ [.put e1] ++ mid ++ [.put e2] ++ post)) e2.ik = some e2 := by
  rw [C02_getv_refines c hc _ hops]
  have hlog := logOf_no_put post hpost
  have : logOf [] (pre ++ [.put e1] ++ mid ++ [.put e2] ++ post)
      = e2 :: logOf [] (pre ++ [.put e1] ++ mid) := by
    simp only [logOf, List.foldl_append, List.foldl, logStep]
    exact hlog _
  rw [this]
  simp only [pick]
  have hm : mq e2.ik e2 = some e2 := by simp [mq, Entry.ik]
  rw [hm]
  cases hp : pick e2.ik (logOf [] (pre ++ [.put e1] ++ mid)) with
  | none => rfl
  | some z =>
    have hz : z.ver ≤ e2.ver := by simpa [Entry.ik] using pick_ver_le _ z hp
    exact better_absorb (by simp only [rk]; omega)

/-! non-vacuity: a good configuration exists; the hypotheses are satisfiable by a history with
    keep and drain in it (the second drain merges with an existing main table, the keep consumes a
    main table, a version-0 entry goes through a flush), and the theorem's conclusion is the value
    one expects -/
example : Cfg.good.AllGood := by decide

def demoOps : List Op :=
  [.put ⟨0, [107], 5, [1], false⟩, .put ⟨0, [97], 0, [8], false⟩, .rotate, .flush, .l0move, .drain,
   .put ⟨0, [107], 5, [2], false⟩, .put ⟨0, [109], 3, [7], false⟩, .rotate, .flush, .l0move, .keep,
   .put ⟨0, [107], 2, [3], false⟩, .rotate, .flush, .l0move, .drain, .reopen,
   .put ⟨0, [107], 5, [], true⟩, .rotate, .flush, .l0move, .keep, .drain]

example : ∀ op ∈ demoOps, op.wf := by decide

example : (run Cfg.good {} demoOps).main.length = 1 ∧ (run Cfg.good {} demoOps).ing.length = 0 := by decide

example : get Cfg.good (run Cfg.good {} demoOps) ⟨0, [107], 7⟩ = some ⟨0, [107], 5, [], true⟩ := by
  decide

example : get Cfg.good (run Cfg.good {} demoOps) ⟨0, [107], 4⟩ = some ⟨0, [107], 2, [3], false⟩ ∧
    get Cfg.good (run Cfg.good {} demoOps) ⟨0, [97], 0⟩ = some ⟨0, [97], 0, [8], false⟩ := by
  decide

example : get Cfg.good (run Cfg.good {} demoOps) ⟨0, [107], 7⟩ = pick ⟨0, [107], 7⟩ (logOf [] demoOps) :=
  C02_getv_refines Cfg.good (by decide) demoOps (by decide) _

/-! ## the as-is decisions: negations on the witnesses of corpus/C02 (and corpus/C01) -/

/-- corpus/C0x/finding-l0-oldest-wins.ops -/
def l0tieOps : List Op :=
  [.put ⟨0, [107], 5, [1], false⟩, .rotate, .flush, .put ⟨0, [107], 5, [2], false⟩, .rotate, .flush]

/-- `searchL0SST` visits L0 oldest-first and `table.Search` keeps the first hit on equal versions:
    the older of two same-version writes is returned once both sit in L0. -/
theorem C02_fails_asis_l0tie (c : Cfg) (hc : c.l0SearchDir = .oldestFirst ∧ c.tieRule = .lt) :
    ¬ (get c (run c {} l0tieOps) ⟨0, [107], 5⟩ = pick ⟨0, [107], 5⟩ (logOf [] l0tieOps)) := by
  rcases c with ⟨d, t, cp, lo, io, im, mk, to, ob, pk, zf⟩
  simp only at hc
  obtain ⟨rfl, rfl⟩ := hc
  cases cp <;> cases lo <;> cases io <;> cases im <;> cases mk <;> cases to <;> cases ob <;>
    cases pk <;> cases zf <;> decide

/-- corpus/C02/finding-first-hit-hides-greater-version.ops -/
def firstHitOps : List Op :=
  [.put ⟨0, [107], 5, [1], false⟩, .rotate, .put ⟨0, [107], 3, [2], false⟩]

/-- `LSM.Get` / `levelManager.Get` stop at the first source holding any version ≤ the requested
    one: a smaller version written later hides a greater version in an older source. -/
theorem C02_fails_asis_firsthit (c : Cfg) (hc : c.crossPick = .firstHit) :
    ¬ (get c (run c {} firstHitOps) ⟨0, [107], 7⟩ = pick ⟨0, [107], 7⟩ (logOf [] firstHitOps)) := by
  rcases c with ⟨d, t, cp, lo, io, im, mk, to, ob, pk, zf⟩
  simp only at hc
  subst hc
  cases d <;> cases t <;> cases lo <;> cases io <;> cases im <;> cases mk <;> cases to <;>
    cases ob <;> cases pk <;> cases zf <;> decide

/-- corpus/C0x/finding-ingest-minkey-order.ops -/
def ingestOrderOps : List Op :=
  [.put ⟨0, [109], 5, [1], false⟩, .rotate, .flush,
   .put ⟨0, [97], 5, [9], false⟩, .put ⟨0, [109], 5, [2], false⟩, .rotate, .flush, .l0move]

/-- the ingest buffer is searched (and merged) in min-key order, not in arrival order: of two
    ingest tables holding the same internal key the one with the greater smallest key wins. -/
theorem C02_fails_asis_ingestorder (c : Cfg) (hc : c.ingestOrder = .minKeyDesc ∧ c.tieRule = .lt) :
    ¬ (get c (run c {} ingestOrderOps) ⟨0, [109], 5⟩ = pick ⟨0, [109], 5⟩ (logOf [] ingestOrderOps)) := by
  rcases c with ⟨d, t, cp, lo, io, im, mk, to, ob, pk, zf⟩
  simp only at hc
  obtain ⟨rfl, rfl⟩ := hc
  cases d <;> cases cp <;> cases lo <;> cases im <;> cases mk <;> cases to <;> cases ob <;>
    cases pk <;> cases zf <;> decide

/-- corpus/C0x/finding-drain-overlap.ops -/
def overlapOps : List Op :=
  [.put ⟨0, [97], 5, [1], false⟩, .put ⟨0, [99], 5, [1], false⟩, .put ⟨0, [109], 5, [1], false⟩,
   .rotate, .flush, .l0move, .drain,
   .put ⟨0, [99], 5, [2], false⟩, .put ⟨0, [100], 5, [2], false⟩, .rotate, .flush, .l0move, .drain]

/-- `OverlappingTables` compares the right bound with the next-level table's *largest* key, so a
    main table that extends beyond the compacted range is not selected: the drain leaves two
    overlapping main tables and `getTableForKey` then misses keys (stale value, lost keys). -/
theorem C02_fails_asis_overlap (c : Cfg) (hc : c.overlapRightKey = .maxKey ∧ c.tieRule = .lt) :
    ¬ (get c (run c {} overlapOps) ⟨0, [99], 5⟩ = pick ⟨0, [99], 5⟩ (logOf [] overlapOps)) ∧
    ¬ (get c (run c {} overlapOps) ⟨0, [109], 5⟩ = pick ⟨0, [109], 5⟩ (logOf [] overlapOps)) := by
  rcases c with ⟨d, t, cp, lo, io, im, mk, to, ob, pk, zf⟩
  simp only at hc
  obtain ⟨rfl, rfl⟩ := hc
  cases d <;> cases cp <;> cases lo <;> cases io <;> cases im <;> cases mk <;> cases to <;>
    cases pk <;> cases zf <;> decide

/-- corpus/C02/finding-version-zero-lost.ops -/
def zeroVerOps : List Op := [.put ⟨0, [107], 0, [1], false⟩, .rotate, .flush]

/-- `table.Search` accepts a hit only when `*maxVs < version` with `maxVs` starting at 0 (and the
    callers skip a table whose `MaxVersionVal()` is `<= 0`): an entry written with version 0 is
    never found again once its memtable is flushed. -/
theorem C02_fails_asis_zerover (c : Cfg) (hc : c.zeroVersionFound = false) :
    ¬ (get c (run c {} zeroVerOps) ⟨0, [107], 0⟩ = pick ⟨0, [107], 0⟩ (logOf [] zeroVerOps)) := by
  rcases c with ⟨d, t, cp, lo, io, im, mk, to, ob, pk, zf⟩
  simp only at hc
  subst hc
  cases d <;> cases t <;> cases cp <;> cases lo <;> cases io <;> cases im <;> cases mk <;> cases to <;>
    cases ob <;> cases pk <;> decide

end NoKV.Props.C02

/-
C23  Only the current leader serves reads and proposals, and reads are linearizable.

  "A read served through a region returns state that reflects every write acknowledged before
   the read was issued.  A store that is not the region's current leader rejects reads and
   proposals for it with a not-leader error instead of serving stale data."

PARTIAL by nature.  Assumed (named hypotheses, never axioms): `RaftSafetyR` (commit index
monotone, only committed entries are applied) and `ReadIndexContract` (ReadIndex returns an
index ≥ the commit index at request time — which etcd/raft grants only to a node a quorum still
acknowledges as leader of the current term).  The contract is assumed only for configurations
with `quorumPerRead` (one `RawNode.ReadIndex` of its own per read, `ReadOnlySafe`): those are
extracted facts, and the cluster harness attacks exactly this assumption with directed
schedules (a deposed leader whose clock stands still; a read issued while an older ReadIndex
round of the same peer is still unanswered and its acknowledgements are delayed across a
leader change).  "Current leader" in `C23_not_leader` is the
store's own raft state (`peer.Status().RaftState`): a deposed leader that has not yet heard of
its successor passes this test; what keeps it from serving stale data is that ReadIndex /
commit need a quorum — raft's part, validated by the cluster harness (deposed-leader probes),
not proved here.
-/
import NoKVModel.Cluster.Service
import NoKVModel.Cluster.ReadPathLemmas

namespace NoKV.Props.C23
open NoKV NoKV.Cluster

/-- **Leader-only admission.**  A request goes on to raft exactly when the store knows the
region, epoch and keys fit, it hosts a peer of the region and that peer's raft state is
`Leader`; when everything but the last holds the answer is `NotLeader`. -/
theorem C23_not_leader (cfg : SvcCfg) (hcfg : cfg.ValGood) (i : ValIn) :
    (validateCommand cfg.val i = .ok ↔
      i.regionId ≠ 0 ∧ i.metaFound = true ∧ i.epochOk = true ∧ i.keysOk = true ∧ i.peerPresent = true ∧
      i.state = .leader) ∧
    (validateCommand cfg.val i = .notLeader ↔
      i.regionId ≠ 0 ∧ i.metaFound = true ∧ i.epochOk = true ∧ i.keysOk = true ∧ i.peerPresent = true ∧
      i.state ≠ .leader) ∧
    (proceeds cfg.val i = true ↔ validateCommand cfg.val i = .ok) := by
  have hc : cfg.val.Good := hcfg
  generalize cfg.val = c at hc ⊢
  obtain ⟨h1, h2, h3⟩ := hc
  have hs : ∀ st : RaftState, sendsAway c st = true ↔ st ≠ .leader := by
    intro st; cases st <;> simp [sendsAway, h1, h2, CmpOp.nat, CmpOp.eval, RaftState.toNat]
  rcases i with ⟨rid, mf, eo, ko, pp, st⟩
  refine ⟨?_, ?_, ?_⟩
  · unfold validateCommand
    have hst := hs st
    simp only []
    repeat' split
    all_goals simp_all
  · unfold validateCommand
    have hst := hs st
    simp only []
    repeat' split
    all_goals simp_all
  · unfold proceeds
    cases h : validateCommand c ⟨rid, mf, eo, ko, pp, st⟩ <;> simp [h3]

/-- **Linearizable reads, under the raft assumptions.**  For every run — any interleaving of
commits, applies on any store, acknowledgements and any number of concurrent reads on any
stores — a completed read was served from a state that contains every write acknowledged
before the read was issued. -/
theorem C23_read_lin (cfg : SvcCfg) (hcfg : cfg.ReadGood) (evs : List Ev)
    (hflow : Flow cfg.read {} evs) (hraft : RaftSafetyR {} evs) (hri : ReadIndexContract cfg.read {} evs) :
    ∀ r, ((rrun {} evs).rd r).pc = .done →
      ∀ i ∈ ((rrun {} evs).rd r).ackedBefore, i ≤ ((rrun {} evs).rd r).result := by
  have hi := rinv_run (c := cfg.read) hcfg evs rinv_init hflow.ok hraft.ok (hri.ok hcfg.2.2)
  intro r hp i hmem
  exact Nat.le_trans (hi.rd_idx r (Or.inr (Or.inr hp)) i hmem) (hi.rd_done r hp)

/-- An acknowledged write is committed (so the hypothesis of `C23_read_lin` is about real
writes): NoKV acknowledges only after the applier ran, raft applies only what is committed. -/
theorem C23_acked_committed (cfg : SvcCfg) (hcfg : cfg.ReadGood) (evs : List Ev)
    (hflow : Flow cfg.read {} evs) (hraft : RaftSafetyR {} evs) (hri : ReadIndexContract cfg.read {} evs) :
    ∀ i ∈ (rrun {} evs).acked, i ≤ (rrun {} evs).commit :=
  (rinv_run (c := cfg.read) hcfg evs rinv_init hflow.ok hraft.ok (hri.ok hcfg.2.2)).ack_le

/-- Why `WaitApplied` is part of the configuration: without it a freshly elected leader that
has not applied entry 1 yet serves a read issued after write 1 was acknowledged from the empty
state — in a run that satisfies all three hypotheses. -/
def staleRun : List Ev :=
  [.commit 1, .applyOne 1, .ack 1, .rdStart 7 2, .rdIndex 7 1, .rdWait 7, .rdExec 7]

theorem C23_read_needs_wait (cfg : SvcCfg) (hcfg : cfg.NoWait) :
    Flow cfg.read {} staleRun ∧ RaftSafetyR {} staleRun ∧ ReadIndexContract cfg.read {} staleRun ∧
    ((rrun {} staleRun).rd 7).pc = .done ∧
    ¬ (∀ i ∈ ((rrun {} staleRun).rd 7).ackedBefore, i ≤ ((rrun {} staleRun).rd 7).result) := by
  have hc : cfg.read.readIndexFirst = true ∧ cfg.read.waitsApplied = false ∧ cfg.read.quorumPerRead = true := hcfg
  generalize cfg.read = c at hc ⊢
  obtain ⟨h1, h2, h3⟩ := hc
  rcases c with ⟨a, b, q⟩
  simp only at h1 h2 h3
  subst h1 h2 h3
  refine ⟨⟨?_⟩, ⟨?_⟩, ⟨fun _ => ?_⟩, ?_, ?_⟩
  · simp [staleRun, Along, flowOk, rstep, RSys.setRd]
    exact ⟨1, by simp⟩
  · simp [staleRun, Along, raftOk, rstep]
  · simp [staleRun, Along, readIndexOk, rstep, RSys.setRd]
  · simp [staleRun, rrun, rstep, RSys.setRd]
  · simp [staleRun, rrun, rstep, RSys.setRd]

/-- Non-vacuity of `C23_read_lin`: the good configuration admits a run with a completed read
that observes an acknowledged write. -/
example : Flow ReadCfg.good {} [.commit 1, .applyOne 1, .ack 1, .rdStart 7 1, .rdIndex 7 1, .rdWait 7, .rdExec 7] ∧
    ((rrun {} [.commit 1, .applyOne 1, .ack 1, .rdStart 7 1, .rdIndex 7 1, .rdWait 7, .rdExec 7]).rd 7).result = 1 := by
  refine ⟨⟨?_⟩, ?_⟩
  · simp [Along, flowOk, rstep, RSys.setRd, ReadCfg.good]
    exact ⟨1, by simp⟩
  · simp [rrun, rstep, RSys.setRd]

end NoKV.Props.C23

/-
C29  Redis gateway commands follow Redis semantics.

`Redis.gateway` is the command layer as written (`execute`, `execSet`, `execIncrBy` over the
embedded backend); `Redis.redisSpec` is the reference (documented Redis behaviour).  Only property
theorems, their non-vacuity examples and the `…_fails_asis` / `…_partial` theorems live here;
helper lemmas are in `Redis/GatewayLemmas.lean`.  Every theorem takes the configuration `c`
(facts extracted from `cmd/nokv-redis`) and a decidable hypothesis about it first.

NOT PROVEN HERE: the full refinement `∀ now cmds, gateway c now cmds = redisSpec now cmds` for
`c.Good` (it needs the equivalence of the one-pass option loop of `execSet` with the two-phase
reference parser, and a simulation over the two stores whose expiries are kept in different
units).  What is proven, for every input: the building blocks the statement names (NX/XX
exclusivity, the INCRBY result/overflow characterisation at the int64 limits, DECRBY of MinInt64,
expired ⇒ absent), `C29_refines_partial` for the commands that do not go through the stores'
expiry, and for each flag of the pinned tree a concrete command sequence on which gateway and
reference differ.
-/
import NoKVModel.Redis.GatewayLemmas

namespace NoKV.Props.C29
open NoKV NoKV.Redis

/-- **NX/XX exclusivity.**  Whatever option list `SET` is given, the option loop never accepts `NX`
together with `XX`; and with the accepted options, `NX` on a visible key and `XX` on an absent
(or expired) key answer nil and leave the store untouched. -/
theorem C29_set_nx_xx (c : GCfg) (_hc : True) (nowMs : Nat) (s : Store) (k v : Bytes) (opts : List Bytes) :
    (∀ o, gwSetOpts c nowMs opts {} = some o → ¬ (o.nx = true ∧ o.xx = true)) ∧
    (∀ o, gwSetOpts c nowMs opts {} = some o → ¬ (k = [] ∧ c.emptyKeyOk = false) →
      ((o.nx = true ∧ (lookup (nowMs / 1000) s k).isSome) ∨ (o.xx = true ∧ (lookup (nowMs / 1000) s k).isNone)) →
      gwSet c nowMs s k v opts = (s, .nil)) := by
  constructor
  · intro o h
    exact gwSetOpts_exclusive c nowMs opts {} o (by simp) h
  · intro o h hk hcond
    unfold gwSet
    simp only [h, hk, if_false]
    rcases hcond with ⟨h1, h2⟩ | ⟨h1, h2⟩
    · simp [h1, h2]
    · have h3 : ¬ (o.nx = true ∧ o.xx = true) :=
        gwSetOpts_exclusive c nowMs opts {} o (by simp) h
      have hnx : o.nx = false := by
        cases hn : o.nx
        · rfl
        · exact absurd ⟨hn, h1⟩ h3
      have hnone : (lookup (nowMs / 1000) s k).isSome = false := by
        cases hl : lookup (nowMs / 1000) s k <;> simp_all
      simp [h1, hnx, hnone]

/-- **INCRBY / DECRBY arithmetic at the int64 limits.**  When the key is visible with a value the
gateway reads as the integer `current` (or absent: 0), for every `delta` in the int64 range the
reply is the overflow error exactly when `current + delta` leaves the int64 range (`current` itself
being an int64, as everything `ParseInt` returns is); otherwise the
reply is `current + delta`, that number is stored in canonical decimal form and the expiry is kept. -/
theorem C29_incrby_overflow_iff (c : GCfg) (_hc : True) (nowS : Nat) (s : Store) (k : Bytes) (delta current : Int)
    (hk : ¬ (k = [] ∧ c.emptyKeyOk = false))
    (hcur : gwCurVal c (lookup nowS s k) = some current)
    (hrange : int64Min ≤ current ∧ current ≤ int64MaxI) :
    ((gwIncrBy c nowS s k delta).2 = .err .overflow ↔
        (current + delta < int64Min ∨ current + delta > int64MaxI) ∧ delta ≠ 0) ∧
    (int64Min ≤ current + delta ∧ current + delta ≤ int64MaxI →
      (gwIncrBy c nowS s k delta).2 = .int (current + delta) ∧
      find (gwIncrBy c nowS s k delta).1 k =
        some ⟨intDigits (current + delta), curExp (lookup nowS s k)⟩) := by
  unfold gwIncrBy
  simp only [hk, if_false]
  split
  · next heq => rw [hcur] at heq; simp at heq
  · next v heq =>
    rw [hcur] at heq
    have hv : current = v := by injection heq
    subst hv
    simp only [int64MaxI, int64Min] at hrange ⊢
    by_cases h1 : delta > 0 ∧ current > 9223372036854775807 - delta
    · simp only [h1, and_self, if_true]
      refine ⟨⟨fun _ => by omega, fun _ => by first | rfl | trivial⟩, fun h => by omega⟩
    · by_cases h2 : delta < 0 ∧ current < -9223372036854775808 - delta
      · simp only [h1, h2, and_self, if_true, if_false]
        refine ⟨⟨fun _ => by omega, fun _ => by first | rfl | trivial⟩, fun h => by omega⟩
      · simp only [h1, h2, if_false]
        refine ⟨⟨fun h => by simp at h, fun h => by omega⟩, fun _ => by simp [find_put]⟩

/-- `delta = 0` never overflows: the value read is already an int64.  (Stated apart because
`strconv.ParseInt` / `string2ll` only produce values in range.) -/
theorem C29_incrby_zero (c : GCfg) (_hc : True) (nowS : Nat) (s : Store) (k : Bytes) (current : Int)
    (hk : ¬ (k = [] ∧ c.emptyKeyOk = false))
    (hcur : gwCurVal c (lookup nowS s k) = some current) :
    (gwIncrBy c nowS s k 0).2 = .int current := by
  unfold gwIncrBy
  simp only [hk, if_false]
  split
  · next heq => rw [hcur] at heq; simp at heq
  · next v heq =>
    rw [hcur] at heq
    have hv : current = v := by injection heq
    subst hv
    simp

/-- **DECRBY of MinInt64.**  With the check in place `DECRBY k -9223372036854775808` is the overflow
error whatever the key holds, and nothing is written. -/
theorem C29_decrby_min (c : GCfg) (hc : c.decrbyMinChecked = true ∧ c.intParseLax = false) (nowMs : Nat) (s : Store)
    (k : Bytes) :
    gwExec c nowMs s [str "DECRBY", k, str "-9223372036854775808"] = (s, .err .overflow) := by
  have h1 : upper (str "DECRBY") = str "DECRBY" := by decide
  have h2 : strictInt (str "-9223372036854775808") = some int64Min := by decide
  unfold gwExec
  simp only [h1]
  simp [gwParseInt, hc.1, hc.2, h2, show str "DECRBY" ≠ str "PING" by decide, show str "DECRBY" ≠ str "ECHO" by decide,
    show str "DECRBY" ≠ str "GET" by decide, show str "DECRBY" ≠ str "SET" by decide, show str "DECRBY" ≠ str "DEL" by decide,
    show str "DECRBY" ≠ str "MGET" by decide, show str "DECRBY" ≠ str "MSET" by decide, show str "DECRBY" ≠ str "INCR" by decide,
    show str "DECRBY" ≠ str "DECR" by decide, show str "DECRBY" ≠ str "INCRBY" by decide]

/-- **Expired ⇒ absent.**  Once the newest entry of a key carries an expiry at or before the clock,
every read path of the gateway treats the key as absent: `GET`/`MGET` answer nil for it, `EXISTS`
and `DEL` do not count it. -/
theorem C29_expired_absent (c : GCfg) (_hc : True) (nowS : Nat) (s : Store) (k : Bytes) (e : Entry)
    (h : find s k = some e) (h0 : e.exp ≠ 0) (h1 : e.exp ≤ nowS) :
    gwRead c nowS s k = none ∧ countKeys nowS s [k] = 0 ∧ (delKeys nowS s [k]).2 = 0 := by
  have := lookup_expired nowS s k e h h0 h1
  simp [gwRead, countKeys, delKeys, this]

/-! ### the pinned tree: one command sequence per divergence -/

def nowW : Nat := 1800000000000

def wIncrEmpty : List (List Bytes) := [[str "SET", str "k0", []], [str "INCR", str "k0"]]
def wIntLax : List (List Bytes) := [[str "SET", str "k0", str "007"], [str "INCR", str "k0"]]
def wDecrMin : List (List Bytes) := [[str "DECRBY", str "k0", str "-9223372036854775808"], [str "GET", str "k0"]]
def wPxat : List (List Bytes) := [[str "SET", str "k0", str "v"], [str "SET", str "k0", str "w", str "PXAT", str "500"], [str "GET", str "k0"]]
def wExpRange : List (List Bytes) := [[str "SET", str "ovf", str "v", str "EXAT", str "9223372036854775807"]]
def wEmptyKey : List (List Bytes) := [[str "SET", [], str "v"], [str "GET", []]]
def wEmptyVal : List (List Bytes) := [[str "SET", str "k0", []], [str "GET", str "k0"], [str "EXISTS", str "k0"]]
def wPing : List (List Bytes) := [[str "PING", str "a", str "b"], [str "PING", []]]

theorem C29_fails_asis_incr_empty (c : GCfg) (hc : c.incrEmptyAsZero = true) :
    gateway c nowW wIncrEmpty ≠ redisSpec nowW wIncrEmpty := by
  obtain ⟨a, b, d, e, f, g, h, i⟩ := c
  simp only at hc; subst hc
  cases b <;> cases d <;> cases e <;> cases f <;> cases g <;> cases h <;> cases i <;> decide

theorem C29_fails_asis_int_lax (c : GCfg) (hc : c.intParseLax = true) :
    gateway c nowW wIntLax ≠ redisSpec nowW wIntLax := by
  obtain ⟨a, b, d, e, f, g, h, i⟩ := c
  simp only at hc; subst hc
  cases a <;> cases d <;> cases e <;> cases f <;> cases g <;> cases h <;> cases i <;> decide

theorem C29_fails_asis_decrby_min (c : GCfg) (hc : c.decrbyMinChecked = false) :
    gateway c nowW wDecrMin ≠ redisSpec nowW wDecrMin := by
  obtain ⟨a, b, d, e, f, g, h, i⟩ := c
  simp only at hc; subst hc
  cases a <;> cases b <;> cases e <;> cases f <;> cases g <;> cases h <;> cases i <;> decide

theorem C29_fails_asis_pxat (c : GCfg) (hc : c.pxatSubSecondOk = false) :
    gateway c nowW wPxat ≠ redisSpec nowW wPxat := by
  obtain ⟨a, b, d, e, f, g, h, i⟩ := c
  simp only at hc; subst hc
  cases a <;> cases b <;> cases d <;> cases f <;> cases g <;> cases h <;> cases i <;> decide

theorem C29_fails_asis_expire_range (c : GCfg) (hc : c.expireRangeChecked = false) :
    gateway c nowW wExpRange ≠ redisSpec nowW wExpRange := by
  obtain ⟨a, b, d, e, f, g, h, i⟩ := c
  simp only at hc; subst hc
  cases a <;> cases b <;> cases d <;> cases e <;> cases g <;> cases h <;> cases i <;> decide

theorem C29_fails_asis_empty_key (c : GCfg) (hc : c.emptyKeyOk = false) :
    gateway c nowW wEmptyKey ≠ redisSpec nowW wEmptyKey := by
  obtain ⟨a, b, d, e, f, g, h, i⟩ := c
  simp only at hc; subst hc
  cases a <;> cases b <;> cases d <;> cases e <;> cases f <;> cases h <;> cases i <;> decide

theorem C29_fails_asis_empty_value (c : GCfg) (hc : c.emptyValueKept = false) :
    gateway c nowW wEmptyVal ≠ redisSpec nowW wEmptyVal := by
  obtain ⟨a, b, d, e, f, g, h, i⟩ := c
  simp only at hc; subst hc
  cases a <;> cases b <;> cases d <;> cases e <;> cases f <;> cases g <;> cases i <;> decide

theorem C29_fails_asis_ping (c : GCfg) (hc : c.pingStrict = false) :
    gateway c nowW wPing ≠ redisSpec nowW wPing := by
  obtain ⟨a, b, d, e, f, g, h, i⟩ := c
  simp only at hc; subst hc
  cases a <;> cases b <;> cases d <;> cases e <;> cases f <;> cases g <;> cases h <;> decide

/-! ### non-vacuity -/

example : GCfg.good.Good := by decide

/-- under the good configuration gateway and reference agree on every witness above, and on a
sequence that exercises expiry, conditional sets, the counters at the limits and QUIT -/
example : gateway GCfg.good nowW (wIncrEmpty ++ wIntLax ++ wDecrMin ++ wPxat ++ wExpRange ++ wEmptyKey ++ wEmptyVal ++ wPing)
    = redisSpec nowW (wIncrEmpty ++ wIntLax ++ wDecrMin ++ wPxat ++ wExpRange ++ wEmptyKey ++ wEmptyVal ++ wPing) := by decide

example : gateway GCfg.good nowW
    [[str "SET", str "k0", str "5", str "EXAT", str "4102444800"], [str "incr", str "k0"],
     [str "SET", str "k1", str "v", str "EXAT", str "1"], [str "GET", str "k1"], [str "SET", str "k1", str "w", str "XX"],
     [str "SET", str "k2", str "9223372036854775807"], [str "INCR", str "k2"], [str "QUIT"], [str "GET", str "k0"]]
    = [.ok, .int 6, .ok, .nil, .nil, .ok, .err .overflow, .quit, .closed] := by decide

end NoKV.Props.C29

/-
C21  Persisted raft hard state and log entries survive a process crash at any point.

Statement (properties.jsonl): raft hard state and log entries that a peer has persisted (and
may already have acted on by sending messages) are recovered exactly after a process crash at
any point; the recovered term and vote never go backwards; the recovered log contains every
persisted entry, with later overwrites of conflicting entries winning.

Model: `NoKVModel/Raftwal/Store.lean` — `WALStorage` over the buffered `wal.Manager` and the
manifest raft pointer, every storage call expanded into its atomic file effects, a crash
possible between any two of them (`Ev.crash` anywhere in the event list, any number of times),
foreign WAL traffic / `wal.Sync()` / rotations interleaved at every position.
Only property theorems live here; helper lemmas are in `Raftwal/StoreLemmas.lean` and
`Raftwal/ReplayLemmas.lean`.
-/
import NoKVModel.Raftwal.StoreLemmas
import NoKVModel.Raftwal.ReplayLemmas

namespace NoKV.Props.C21
open NoKV NoKV.Raftwal

/-- **Headline (durable before send, every crash point).**  Configuration: the storage
flushes+syncs the WAL before it writes the manifest pointer and returns.  For *every* event
sequence — storage calls cut into atomic effects, foreign appends, syncs, rotations, sends and
crashes in any order — let `s` be the state reached.  If the raft records handed to the WAL form
a history raft could have produced, then on the files a process crash at `s` leaves:
* `OpenWALStorage` succeeds (pointer validation and replay),
* the recovered in-memory storage is the replay of the raft records the kernel holds,
* those are all raft records ever handed to the WAL except at most the one of the storage call
  still in flight (none when no call is in flight, in particular whenever messages are sent), and
* they include every record persisted before the peer last sent messages (`s.sent`). -/
theorem C21_durable_before_send (c : Cfg) (hc : c.Good) (evs : List Ev)
    (hv : ValidHist (raftOf (run c evs).written)) :
    recoverOK (run c evs) = true ∧
    ∃ m tail, replay (raftOf (run c evs).durable) = some m ∧ (crash (run c evs)).mem = m ∧
      raftOf (run c evs).written = raftOf (run c evs).durable ++ tail ∧ tail.length ≤ 1 ∧
      ((run c evs).phase = .idle → tail = []) ∧
      (run c evs).sent ≤ (raftOf (run c evs).durable).length := by
  have hinv := inv_run c hc evs
  have htail := inv_tail _ hinv
  obtain ⟨hp, _, hs⟩ := hinv
  have hw : raftOf (run c evs).written = raftOf (run c evs).durable ++ raftOf (run c evs).buf := by
    simp only [St.written, St.durable]
    rw [raftOf_append]
  rw [hw] at hv
  obtain ⟨m, hm, _⟩ := validFrom_prefix {} _ _ hv
  have hm' : replay (run c evs).durable = some m := by
    rw [← replay_raftOf]; exact hm
  refine ⟨?_, m, raftOf (run c evs).buf, hm, ?_, hw, htail.1, htail.2, hs⟩
  · simp [recoverOK, hp, hm']
  · simp [crash, hm']

/-- the hypothesis of the headline is not vacuous and its conclusion not trivial: a hard state,
an append, a conflicting overwrite, a send, a later call cut by a crash -/
def exampleEvs : List Ev :=
  [.call (.hs ⟨1, 1, 0⟩), .tick, .tick, .call (.app 1 [(1, 7), (1, 8)]), .tick, .tick,
   .call (.app 2 [(2, 9)]), .tick, .other, .tick, .send, .call (.hs ⟨2, 1, 1⟩)]

example : let s := run Cfg.good exampleEvs;
    s.sent = 3 ∧ (raftOf s.written).length = 4 ∧ (raftOf s.durable).length = 3 ∧
    (crash s).mem.ents = [(1, 7), (2, 9)] ∧ (crash s).mem.hs = ⟨1, 1, 0⟩ ∧ recoverOK s = true := by
  decide

/-- **Recovered hard state = the last one persisted** (any history). -/
theorem C21_recovered_hs_is_last (l : List Rec) (m : Mem) (h : replay l = some m) :
    m.hs = lastHs {} l :=
  replayFrom_hs {} l m h

/-- **Term never goes backwards**: if the persisted hard states have non-decreasing terms (raft's
own guarantee), the recovered term is at least the term of *every* hard state ever persisted
in the history; together with `C21_recovered_hs_is_last` the recovered (term, vote) pair is the
latest persisted one, so a vote cast in the recovered term is not forgotten. -/
theorem C21_term_never_backwards (l : List Rec) (m : Mem) (h : replay l = some m)
    (hmono : TermsMono 0 l) (hs : HS) (hmem : Rec.hs hs ∈ l) : hs.term ≤ m.hs.term := by
  rw [C21_recovered_hs_is_last l m h]
  exact (lastHs_mono l {} hmono).2 hs hmem

/-- **Recovered log = abstract log**: on a well-formed history the recovered storage holds, at
every index above its first index − 1, exactly the entry the abstract log holds: the entry of
the *latest* append covering that index, nothing behind a later conflicting append, nothing
from before a snapshot. -/
theorem C21_recovered_log_is_spec (l : List Rec) (m : Mem) (hv : ValidHist l) (h : replay l = some m)
    (i : Nat) (hi : m.baseIdx < i) : m.entry? i = specLog l i :=
  replayFrom_spec l {} m (fun _ => none) (by intro j _; simp [Mem.entry?]) hv h i hi

/-- later overwrites of conflicting entries win, earlier entries below them are kept: the
abstract log after one more append -/
theorem C21_overwrite_wins (l : List Rec) (f : Nat) (items : List Item) (i : Nat) :
    specLog (l ++ [.ents f items]) i = if i < f then specLog l i else items[i - f]? := by
  unfold specLog
  rw [specLogFrom_append]
  rfl

/-- corpus/C21/finding-wal-buffered.ops -/
def witnessEvs : List Ev :=
  [.call (.hs ⟨1, 1, 0⟩), .tick, .tick, .call (.app 1 [(1, 7), (1, 8)]), .tick, .tick, .send]

/-- **As-is code (no flush before the pointer / the return).**  Witness: `SetHardState`,
`Append`, messages sent, process crash: nothing of the two persisted records is in the files
and `OpenWALStorage` fails on the manifest pointer. -/
theorem C21_fails_asis_buffered (c : Cfg) (hc : c.AsIsBuffered) :
    let s := run c witnessEvs;
    s.phase = .idle ∧ s.sent = 2 ∧ raftOf s.durable = [] ∧ recoverOK s = false := by
  obtain ⟨h1, h2⟩ := hc
  cases c with
  | mk a b d e =>
    simp only at h1 h2
    subst h1; subst h2
    cases d <;> cases e <;> decide

/-- corpus/C21/peer-send-needs-persist.ops, model side: a peer that sends a Ready's messages
although the storage call persisting it has not returned -/
def witnessSendEarly : List Ev := [.call (.hs ⟨5, 2, 0⟩), .send, .crash]

/-- **Persist → send is needed.**  If the peer hands messages to the transport before the
storage call returned (e.g. on the error path of `handleReady`), the record counted as acted on
is not in the files: `sent` exceeds what a crash keeps — the headline's last conjunct fails. -/
theorem C21_fails_send_before_persist (c : Cfg) (hc : c.SendsEarly) :
    ¬ ((run c witnessSendEarly).sent ≤ (raftOf (run c witnessSendEarly).durable).length) := by
  cases c with
  | mk a b d e =>
    simp only [Cfg.SendsEarly] at hc
    subst hc
    cases a <;> cases b <;> cases e <;> decide

/-- **A crash inside a Ready leaves a state raft can restart from** (entries persisted before the
hard state).  For every storage state whose commit index is inside its log, and every Ready
carrying a hard state `h` and an entry batch that raft could issue (it starts above the
committed prefix and leaves no gap; `h.commit` is at most the new last index): after *every*
prefix of the Ready's storage calls the recovered commit index is still inside the recovered
log — `raft.NewRawNode` does not panic with "committed is out of range". -/
theorem C21_commit_within_log (c : Cfg) (hc : c.OrderGood) (m : Mem) (h : HS) (f : Nat) (items : List Item)
    (hm : CommitOK m) (hcf : m.hs.commit < f) (hb : m.baseIdx < f) (hl : f ≤ m.lastIndex + 1) (hne : items ≠ [])
    (hh : h.commit ≤ f + items.length - 1) (k : Nat) (m' : Mem)
    (hr : replayFrom m ((readyRecs c h f items).take k) = some m') : CommitOK m' := by
  have hrecs : readyRecs c h f items = [.ents f items, .hs h] := by
    unfold readyRecs; rw [show c.hsAfterEntries = true from hc]; rfl
  rw [hrecs] at hr
  have happ := Mem.append_valid m f items hb hl hne
  have hlen : 0 < items.length := by
    cases items with
    | nil => exact absurd rfl hne
    | cons a t => simp
  have hlast : ({ m with ents := m.ents.take (f - m.baseIdx - 1) ++ items } : Mem).lastIndex = f + items.length - 1 := by
    unfold Mem.lastIndex at hl ⊢
    simp only [List.length_append, List.length_take]
    omega
  match k with
  | 0 =>
    simp [replayFrom] at hr; subst hr; exact hm
  | 1 =>
    simp only [List.take, replayFrom, Mem.applyRec, happ] at hr
    have hm' := Option.some.inj hr
    subst hm'
    unfold CommitOK
    rw [hlast]
    show m.hs.commit ≤ f + items.length - 1
    omega
  | k + 2 =>
    simp only [List.take, List.take_nil, replayFrom, Mem.applyRec, happ] at hr
    have hm' := Option.some.inj hr
    subst hm'
    unfold CommitOK
    show h.commit ≤ ({ m with ents := m.ents.take (f - m.baseIdx - 1) ++ items } : Mem).lastIndex
    rw [hlast]; exact hh

/-- **As-is (`handleReady` persists the hard state first).**  The very first (bootstrap) Ready:
hard state {term 1, commit 3} and entries 1..3.  A crash after the first storage call leaves a
commit index 3 over an empty log: `raft.NewRawNode` panics on restart. -/
theorem C21_fails_asis_hs_before_entries (c : Cfg) (hc : c.OrderAsIs) :
    ∃ m', replayFrom {} ((readyRecs c ⟨1, 0, 3⟩ 1 [(1, 1), (1, 2), (1, 3)]).take 1) = some m' ∧ ¬ CommitOK m' := by
  cases c with
  | mk a b d e =>
    simp only [Cfg.OrderAsIs] at hc
    subst hc
    exact ⟨{ hs := ⟨1, 0, 3⟩ }, rfl, by decide⟩

/-- **What the as-is code still guarantees** (any value of `flushOnAppend`): nothing is lost
across a *clean* shutdown — whenever the WAL buffer is empty (after `wal.Sync()` /
`Manager.Close()`) the kernel holds every record ever handed to the WAL.  (The pointer
validation half for the as-is configuration is not proved here: it needs the weaker invariant
"pointer valid among written records"; the correspondence run covers it.) -/
theorem C21_partial_clean_shutdown (c : Cfg) (_hc : c.Any) (evs : List Ev)
    (hb : (run c evs).buf = []) : (run c evs).durable = (run c evs).written := by
  simp [St.durable, St.written, hb]

end NoKV.Props.C21

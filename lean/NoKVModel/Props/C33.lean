/-
C33  At most one database holds a working directory at a time.

Model: NoKVModel/Conc/DirLock.lean (one micro-step per system call of AcquireDirLock / Release on
a file-system model with names, inodes and flock per open file description).  The theorems
quantify over every reachable state of every interleaving of any number of contenders (threads
of one process or separate processes: the model does not distinguish, as flock(2) does not).
Helper lemmas: Conc/DirLockLemmas.lean.
-/
import NoKVModel.Conc.DirLockLemmas

namespace NoKV.Props.C33
open NoKV.Conc NoKV.Conc.DirLock

/-- **Exclusive.**  With "unlink while the lock is held" and the inode re-check in Acquire, in
every reachable state at most one contender is between a successful `AcquireDirLock` and the
start of its `Release`. -/
theorem C33_exclusive (c : DLCfg) (hc : c.Good) (s : St) (hr : Reachable (sys c) s)
    (i j : Nat) (hi : Holds s i) (hj : Holds s j) : i = j := by
  have hinv := Inv.reachable hc s hr
  obtain ⟨ti, hti, hpi⟩ := hi
  obtain ⟨tj, htj, hpj⟩ := hj
  have n1 := hinv.heldName i ti hti (by simp [hpi, holding])
  have n2 := hinv.heldName j tj htj (by simp [hpj, holding])
  have l1 := hinv.thrLock i ti hti (by simp [hpi, inLock])
  have l2 := hinv.thrLock j tj htj (by simp [hpj, inLock])
  rw [n1] at n2
  rw [Option.some.inj n2, l2] at l1
  exact (Option.some.inj l1).symm

/-- **The holder owns the file the path names**: while a contender holds the directory, LOCK
exists, names the inode behind the holder's descriptor, and the flock on it is the holder's — so
every other Acquire fails at flock or at the re-check. -/
theorem C33_holder_owns_path (c : DLCfg) (hc : c.Good) (s : St) (hr : Reachable (sys c) s)
    (i : Nat) (t : Thr) (ht : s.thr i = some t) (hp : t.pc = .held) :
    s.name = some t.fd ∧ s.lockedBy t.fd = some i := by
  have hinv := Inv.reachable hc s hr
  exact ⟨hinv.heldName i t ht (by simp [hp, holding]), hinv.thrLock i t ht (by simp [hp, inLock])⟩

/-- **No second holder while the first holder's Close is in progress.**  A contender *uses* the
directory from the return of AcquireDirLock until — for a DB — every storage component has been
closed (`Using`: holding, or inside DB.Close before or after the lock release).  With the lock
released last, at most one contender uses the directory at any time; in particular nobody acquires
it while another DB is still flushing / syncing / closing its WAL, value log or LSM files. -/
theorem C33_exclusive_during_close (c : DLCfg) (hc : c.Good) (s : St) (hr : Reachable (sys c) s)
    (i j : Nat) (hi : Using s i) (hj : Using s j) : i = j := by
  have hinv := Inv.reachable hc s hr
  obtain ⟨ti, hti, hpi⟩ := hi
  obtain ⟨tj, htj, hpj⟩ := hj
  have key : ∀ k t, s.thr k = some t → usingPC t.pc = true → holding t.pc = true ∧ inLock t.pc = true := by
    intro k t hk hu
    cases hp : t.pc <;> simp_all [usingPC, holding, inLock]
    exact (hinv.fin k t hk).2.2 _ hp
  obtain ⟨a1, b1⟩ := key i ti hti hpi
  obtain ⟨a2, b2⟩ := key j tj htj hpj
  have n1 := hinv.heldName i ti hti a1
  have n2 := hinv.heldName j tj htj a2
  have l1 := hinv.thrLock i ti hti b1
  have l2 := hinv.thrLock j tj htj b2
  rw [n1] at n2
  rw [Option.some.inj n2, l2] at l1
  exact (Option.some.inj l1).symm

/-- If DB.Close releases the lock before the WAL is closed (`closeReleasesLast = false`), a second
contender acquires the directory while the first DB is still closing its storage. -/
theorem C33_fails_close_releases_early (c : DLCfg) (hc : c = ⟨.removeUnlockClose, true, true, false⟩) :
    ∃ s, Reachable (sys c) s ∧ Using s 0 ∧ Holds s 1 := by
  subst hc
  refine ⟨run (sys ⟨.removeUnlockClose, true, true, false⟩) initSt
    [ .spawnDB 0, .run 0, .run 0, .run 0,     -- DB 0 is open
      .run 0, .run 0, .run 0,                 -- Close: lsm, value log closed; next is the lock release
      .run 0, .run 0, .run 0,                 -- dirLock.Release: unlink, unlock, close — the WAL is still open
      .spawn 1, .run 1, .run 1, .run 1 ],     -- a second contender acquires the directory
    run_reachable _ _ (.init rfl) _, ?_, ?_⟩
  · exact ⟨⟨.closingAfter 1, 0, false, false, false, true⟩, by decide, rfl⟩
  · exact ⟨⟨.held, 1, false, false, false, false⟩, by decide, rfl⟩

/-- **Release called twice is harmless** (after a successful Release and after one that reported
an error, e.g. a transient failure of the unlink): the DirLock has dropped its handle, the second
call changes nothing — in particular it cannot unlink the LOCK file of, or unlock, another holder.
(`C33_exclusive` itself already quantifies over contenders whose unlink fails: `spawnF`.) -/
theorem C33_double_release (c : DLCfg) (hc : c.Good) (s : St) (hr : Reachable (sys c) s)
    (i : Nat) (t : Thr) (ht : s.thr i = some t) (hp : t.pc = .done) :
    DirLock.step c s (.run i) = some s := by
  have hinv := Inv.reachable hc s hr
  have hh := (hinv.fin i t ht).1 hp
  simp [DirLock.step, ht, stepThr, hp, hh]

/-- If Release keeps its handle when it reports an error (`releaseClearsOnError = false`), a retried
Release breaks exclusion: A's unlink fails once, A unlocks and closes; B acquires the leftover LOCK
file; A retries Release and unlinks LOCK — now B's file; C creates a fresh LOCK and is admitted. -/
theorem C33_fails_retry_keeps_handle (c : DLCfg) (hc : c = ⟨.removeUnlockClose, true, false, true⟩) :
    ∃ s, Reachable (sys c) s ∧ Holds s 1 ∧ Holds s 2 := by
  subst hc
  refine ⟨run (sys ⟨.removeUnlockClose, true, false, true⟩) initSt
    [ .spawnF 0, .run 0, .run 0, .run 0,      -- A holds
      .run 0, .run 0, .run 0,                 -- A.Release: unlink fails, unlock, close; error, handle kept
      .spawn 1, .run 1, .run 1, .run 1,       -- B: open (the leftover file), flock, re-check ok: holds
      .run 0, .run 0, .run 0,                 -- A retries Release: unlinks LOCK (B's file); EBADF; EBADF
      .spawn 2, .run 2, .run 2, .run 2 ],     -- C: creates a new LOCK, flock, re-check ok: holds too
    run_reachable _ _ (.init rfl) _, ?_, ?_⟩
  · exact ⟨⟨.held, 0, false, false, false, false⟩, by decide, rfl⟩
  · exact ⟨⟨.held, 1, false, false, false, false⟩, by decide, rfl⟩

/-! ### as-is: unlock before unlink, no re-check (finding `dirlock-unlock-before-unlink`) -/

/-- A unlocks; B opens the old inode and locks it; A closes and unlinks LOCK; C creates a new
LOCK file and locks that: B and C both hold the directory. -/
def witness : List Act :=
  [ .spawn 0, .run 0, .run 0, .run 0,     -- A: open (creates inode 0), flock, return: holds
    .run 0,                               -- A.Release: flock(LOCK_UN)
    .spawn 1, .run 1, .run 1, .run 1,     -- B: open (inode 0), flock succeeds, return: holds
    .run 0, .run 0,                       -- A.Release: close, remove(LOCK)
    .spawn 2, .run 2, .run 2, .run 2 ]    -- C: open creates inode 1, flock succeeds: holds too

theorem C33_fails_asis (c : DLCfg) (hc : c = ⟨.unlockCloseRemove, false, true, true⟩) :
    ∃ s, Reachable (sys c) s ∧ Holds s 1 ∧ Holds s 2 := by
  subst hc
  refine ⟨run (sys ⟨.unlockCloseRemove, false, true, true⟩) initSt witness, run_reachable _ _ (.init rfl) _, ?_, ?_⟩
  · exact ⟨⟨.held, 0, false, false, false, false⟩, by decide, rfl⟩
  · exact ⟨⟨.held, 1, false, false, false, false⟩, by decide, rfl⟩

/-- Neither half of the repair suffices alone: with the unlink moved under the lock but no
re-check, a contender that opened the old inode before the unlink still gets its flock. -/
theorem C33_fails_without_recheck (c : DLCfg) (hc : c = ⟨.removeUnlockClose, false, true, true⟩) :
    ∃ s, Reachable (sys c) s ∧ Holds s 1 ∧ Holds s 2 := by
  subst hc
  refine ⟨run (sys ⟨.removeUnlockClose, false, true, true⟩) initSt
    [ .spawn 0, .run 0, .run 0, .run 0, .spawn 1, .run 1,      -- A holds; B has opened inode 0
      .run 0, .run 0, .run 0,                                  -- A: remove, unlock, close
      .run 1, .run 1,                                          -- B: flock on the orphan inode: holds
      .spawn 2, .run 2, .run 2, .run 2 ], run_reachable _ _ (.init rfl) _, ?_, ?_⟩
  · exact ⟨⟨.held, 0, false, false, false, false⟩, by decide, rfl⟩
  · exact ⟨⟨.held, 1, false, false, false, false⟩, by decide, rfl⟩

/-! ### non-vacuity -/

example : DLCfg.good.Good := by decide

/-- under the good configuration the as-is witness schedule ends with exactly C holding: B's
re-check fails (it locked the unlinked inode) -/
example :
    let s := run (sys DLCfg.good) initSt
      [ .spawn 0, .run 0, .run 0, .run 0, .spawn 1, .run 1,
        .run 0, .run 0, .run 0, .run 1, .run 1, .spawn 2, .run 2, .run 2, .run 2 ]
    (s.thr 0).map (·.pc) = some .done ∧ (s.thr 1).map (·.pc) = some .failed ∧
    (s.thr 2).map (·.pc) = some .held := by
  decide

end NoKV.Props.C33

/-
Serializability in commit-timestamp order (C03): the abstract map `Key → Option Val`, the serial
execution of the committed transactions, the refinement of the versioned store to the abstract
map, and the history invariant (one preservation lemma per kind of step, then induction over the
op list).
-/
import NoKVModel.Mvcc.ConflictLemmas

namespace NoKV.Mvcc
open NoKV

-- ---------------------------------------------------------------- abstract map and serial runs

/-- the abstract database state: every key has a value or none (absent / deleted) -/
abbrev AMap := Key → Option Val

/-- a committed transaction's writes applied to the abstract map (a delete stores `none`) -/
def applyTxn (m : AMap) (cm : Commit) : AMap :=
  fun k => match lookupW cm.writes k with
    | some w => w
    | none => m k

/-- the abstract map after the transactions of a log given *newest first*, starting from `m` -/
def amapFrom (m : AMap) : List Commit → AMap
  | [] => m
  | cm :: older => applyTxn (amapFrom m older) cm

def amapOf (log : List Commit) : AMap := amapFrom (fun _ => none) log

/-- every store-served read the transaction logged returns what the abstract map holds -/
def readsOk (m : AMap) (cm : Commit) : Prop := ∀ p ∈ cm.rlog, p.2 = m p.1

/-- `Serial m txns m'`: running the transactions `txns` (*oldest first*) one at a time from the
abstract map `m` — each one first re-reads everything it read (and must get the same results),
then applies all its writes — ends in `m'`. -/
def Serial (m : AMap) : List Commit → AMap → Prop
  | [], m' => m' = m
  | cm :: rest, m' => readsOk m cm ∧ Serial (applyTxn m cm) rest m'

theorem Serial_append (m : AMap) (xs ys : List Commit) (m' : AMap) :
    Serial m (xs ++ ys) m' ↔ ∃ mid, Serial m xs mid ∧ Serial mid ys m' := by
  induction xs generalizing m with
  | nil =>
    simp only [List.nil_append, Serial]
    constructor
    · intro h; exact ⟨m, rfl, h⟩
    · rintro ⟨mid, rfl, h⟩; exact h
  | cons x xs ih =>
    simp only [List.cons_append, Serial, ih]
    constructor
    · rintro ⟨hr, mid, h1, h2⟩; exact ⟨mid, ⟨hr, h1⟩, h2⟩
    · rintro ⟨mid, ⟨hr, h1⟩, h2⟩; exact ⟨hr, mid, h1, h2⟩

/-- the same condition stated on the newest-first log -/
def SerialOK : List Commit → Prop
  | [] => True
  | cm :: older => readsOk (amapOf older) cm ∧ SerialOK older

theorem Serial_of_SerialOK (log : List Commit) (h : SerialOK log) :
    Serial (fun _ => none) log.reverse (amapOf log) := by
  induction log with
  | nil => rfl
  | cons cm older ih =>
    obtain ⟨hr, hrest⟩ := h
    rw [List.reverse_cons, Serial_append]
    exact ⟨amapOf older, ih hrest, hr, rfl⟩

/-- no committed transaction had a key it read overwritten by a transaction that committed
between its read timestamp and its own commit timestamp -/
def NoOverwrite (log : List Commit) : Prop :=
  ∀ cm ∈ log, ∀ cm' ∈ log, cm.readTs < cm'.ts → cm'.ts < cm.ts →
    ∀ p ∈ cm.rlog, lookupW cm'.writes p.1 = none

-- ---------------------------------------------------------------- store ⟶ abstract map

theorem lookupW_mem {w : List (Key × Option Val)} {k : Key} {x : Option Val} (h : lookupW w k = some x) :
    (k, x) ∈ w := by
  unfold lookupW at h
  cases hf : w.find? (fun p => p.1 = k) with
  | none => rw [hf] at h; cases h
  | some p =>
    rw [hf] at h
    simp only [Option.some.injEq] at h
    have hm := List.mem_of_find?_eq_some hf
    have hk := List.find?_some hf
    simp only [decide_eq_true_eq] at hk
    cases p
    simp_all

theorem lookupW_none {w : List (Key × Option Val)} {k : Key} (h : ∀ p ∈ w, p.1 ≠ k) : lookupW w k = none := by
  unfold lookupW
  have : w.find? (fun p => p.1 = k) = none := by
    rw [List.find?_eq_none]
    intro p hp; simpa using h p hp
  rw [this]

theorem lookupW_none_iff {w : List (Key × Option Val)} {k : Key} : lookupW w k = none ↔ ∀ p ∈ w, p.1 ≠ k := by
  constructor
  · intro h p hp hk
    unfold lookupW at h
    cases hf : w.find? (fun p => p.1 = k) with
    | some q => rw [hf] at h; cases h
    | none =>
      rw [List.find?_eq_none] at hf
      have := hf p hp
      simp only [decide_eq_true_eq] at this
      exact this hk
  · exact lookupW_none

/-- lookup in `entries ++ store` at a bound at or above the entries' version: a written key -/
theorem readAt_entries_hit (w : List (Key × Option Val)) (v : Nat) (st : List Entry) (hst : ∀ e ∈ st, e.ts < v)
    (k : Key) (x : Option Val) (hx : lookupW w k = some x) (ts : Nat) (hts : v ≤ ts) :
    readAt (entriesOf w v ++ st) k ts = x := by
  induction w with
  | nil => simp [lookupW] at hx
  | cons p ps ih =>
    have hall : ∀ b, bestOf (entriesOf ps v ++ st) k ts = some b → b.ts ≤ v := by
      intro b hb
      obtain ⟨hm, _⟩ := bestOf_some hb
      rcases List.mem_append.mp hm with hm | hm
      · exact Nat.le_of_eq (mem_entriesOf.mp hm).1
      · exact Nat.le_of_lt (hst b hm)
    by_cases hk : p.1 = k
    · have hx' : x = p.2 := by
        simp only [lookupW, List.find?_cons, hk, decide_true] at hx
        simpa using hx.symm
      subst hx'
      unfold readAt
      simp only [entriesOf, List.map_cons, List.cons_append, bestOf, hk, hts, and_self, if_true]
      cases hb : bestOf (List.map (fun p => ({ key := p.1, ts := v, val := p.2 } : Entry)) ps ++ st) k ts with
      | none => rfl
      | some b =>
        have := hall b hb
        have hnlt : ¬ v < b.ts := by omega
        simp only [hnlt, if_false]
    · have hx' : lookupW ps k = some x := by
        simp only [lookupW, List.find?_cons, hk, decide_false] at hx
        exact hx
      have := ih hx'
      unfold readAt at this ⊢
      simp only [entriesOf, List.map_cons, List.cons_append, bestOf, hk, false_and, if_false]
      exact this

/-- … a key the entries do not contain -/
theorem bestOf_entries_miss (w : List (Key × Option Val)) (v : Nat) (st : List Entry) (k : Key)
    (hx : lookupW w k = none) (ts : Nat) : bestOf (entriesOf w v ++ st) k ts = bestOf st k ts := by
  induction w with
  | nil => rfl
  | cons p ps ih =>
    have hall := lookupW_none_iff.mp hx
    have hk : p.1 ≠ k := hall p List.mem_cons_self
    have hps : lookupW ps k = none := lookupW_none (fun q hq => hall q (List.mem_cons_of_mem _ hq))
    simp only [entriesOf, List.map_cons, List.cons_append, bestOf, hk, false_and, if_false]
    exact ih hps

/-- the store a log stands for: every commit's entries at its version, newest commit first -/
def flatLog (log : List Commit) : List Entry := log.flatMap (fun cm => entriesOf cm.writes cm.ts)

theorem mem_flatLog {log : List Commit} {e : Entry} (h : e ∈ flatLog log) : ∃ cm ∈ log, e.ts = cm.ts := by
  unfold flatLog at h
  obtain ⟨cm, hcm, he⟩ := List.mem_flatMap.mp h
  exact ⟨cm, hcm, (mem_entriesOf.mp he).1⟩

/-- **Refinement of the versioned store to the abstract map**: reading key `k` at timestamp `r`
returns what the abstract map holds after exactly the commits with version `≤ r`. -/
theorem readAt_flatLog (log : List Commit) (hs : log.Pairwise (fun a b => b.ts < a.ts)) (k : Key) (r : Nat) :
    readAt (flatLog log) k r = amapOf (log.filter (fun cm => decide (cm.ts ≤ r))) k := by
  induction log with
  | nil => rfl
  | cons cm older ih =>
    have hso := (List.pairwise_cons.mp hs)
    have ih' := ih hso.2
    have hlt : ∀ e ∈ flatLog older, e.ts < cm.ts := by
      intro e he
      obtain ⟨o, ho, hts⟩ := mem_flatLog he
      have := hso.1 o ho; omega
    have hflat : flatLog (cm :: older) = entriesOf cm.writes cm.ts ++ flatLog older := by
      simp [flatLog]
    rw [hflat]
    by_cases hle : cm.ts ≤ r
    · simp only [List.filter_cons, hle, decide_true, if_true]
      show _ = applyTxn (amapOf (older.filter _)) cm k
      unfold applyTxn
      cases hx : lookupW cm.writes k with
      | some x =>
        simp only
        exact readAt_entries_hit cm.writes cm.ts _ hlt k x hx r hle
      | none =>
        simp only
        unfold readAt
        rw [bestOf_entries_miss cm.writes cm.ts _ k hx r]
        exact ih'
    · simp only [List.filter_cons, hle, decide_false, if_false, Bool.false_eq_true]
      rw [readAt_append_newer]
      · exact ih'
      · intro e he
        have := (mem_entriesOf.mp he).1
        omega

theorem filter_all {log : List Commit} {r : Nat} (h : ∀ cm ∈ log, cm.ts ≤ r) :
    log.filter (fun cm => decide (cm.ts ≤ r)) = log := by
  rw [List.filter_eq_self]
  intro cm hcm; simpa using h cm hcm

-- ---------------------------------------------------------------- invariants over the history

/-- the store is exactly the flattened log (holds for every configuration) -/
def InvS (s : St) : Prop := s.store = flatLog s.log

theorem InvS_init (a b t : Nat) : InvS (init a b t) := rfl

theorem InvS_step (c : MvccCfg) (fp : Key → Nat) (s : St) (op : Op) (h : InvS s) : InvS (step c fp s op).1 := by
  unfold InvS at h ⊢
  rcases step_kind c fp s op with ⟨h1, h2, _⟩ | ⟨h1, h2, _, _⟩ | ⟨t, _, h1, h2, _, _⟩ | ⟨_, hs⟩
  · rw [h1, h2]; exact h
  · rw [h1, h2]; exact h
  · rw [h1, h2, h]; simp [flatLog]
  · rw [hs]; exact h

theorem Reach_InvS {c : MvccCfg} {fp : Key → Nat} {s : St} (h : Reach c fp s) : InvS s :=
  Reach_ind (P := InvS) InvS_init (fun s op _ hs => InvS_step c fp s op hs) h

/-- one step does not change what is read below `nextTs` (a reopen aside) -/
theorem step_readAt_below (c : MvccCfg) (fp : Key → Nat) (s : St) (op : Op) (hop : op ≠ .reopen)
    (k : Key) (r : Nat) (hr : r < s.nextTs) : readAt (step c fp s op).1.store k r = readAt s.store k r := by
  rcases step_kind c fp s op with ⟨h1, _, _⟩ | ⟨h1, _, _, _⟩ | ⟨t, _, h1, _, _, _⟩ | ⟨h, _⟩
  · rw [h1]
  · rw [h1]
  · rw [h1]
    apply readAt_append_newer
    intro e he
    have := (mem_entriesOf.mp he).1
    omega
  · exact absurd h hop

/-- every read a live transaction has logged is what the store holds at its read timestamp,
and its key is in the transaction's read-key list -/
def InvR (s : St) : Prop :=
  ∀ id t, Live s id t → ∀ p ∈ t.rlog, p.2 = readAt s.store p.1 t.readTs ∧ p.1 ∈ t.rkeys

theorem InvR_init (a b t : Nat) : InvR (init a b t) := by
  intro id t0 h; simp [Live, getTxn, init] at h

theorem InvR_step (c : MvccCfg) (fp : Key → Nat) (s : St) (op : Op) (hB : InvB s) (h : InvR s) :
    InvR (step c fp s op).1 := by
  intro id t' hl p hp
  by_cases hop : op = .reopen
  · subst hop
    simp [Live, step, reopenDB, getTxn] at hl
  · rcases step_live c fp s op id t' hl with ⟨t, hlt, hev⟩ | ⟨upd, _, rfl⟩
    · have hlt' := hB.readLt id t hlt
      have hstab : ∀ k, readAt (step c fp s op).1.store k t.readTs = readAt s.store k t.readTs :=
        fun k => step_readAt_below c fp s op hop k t.readTs hlt'
      have hold := h id t hlt
      cases hev with
      | same => rw [hstab]; exact hold p hp
      | write k v cnt sz => rw [hstab]; exact hold p hp
      | read k hu =>
        simp only at hp ⊢
        rw [hstab]
        rcases List.mem_cons.mp hp with rfl | hp
        · exact ⟨rfl, List.mem_cons_self⟩
        · exact ⟨(hold p hp).1, List.mem_cons_of_mem _ (hold p hp).2⟩
      | scan tracked served h1 h2 =>
        simp only at hp ⊢
        rw [hstab]
        rcases List.mem_append.mp hp with hp | hp
        · obtain ⟨it, hit, rfl⟩ := List.mem_map.mp hp
          refine ⟨(h2 it hit).symm, List.mem_append_left _ (List.mem_map.mpr ⟨it, h1 it hit, rfl⟩)⟩
        · exact ⟨(hold p hp).1, List.mem_append_right _ (hold p hp).2⟩
    · cases hp

theorem Reach_InvR {c : MvccCfg} (hc : c.SnapGood) {fp : Key → Nat} {s : St} (h : Reach c fp s) : InvR s :=
  Reach_ind (P := InvR) InvR_init (fun s op hr hs => InvR_step c fp s op (Reach_InvB hc hr) hs) h

-- ---------------------------------------------------------------- conflict detection (core of C03_conflict)

/-- a commit in the log above `T`'s read timestamp that wrote a key `T` read ⇒ `hasConflict` -/
theorem hasConflict_of_overwrite (c : MvccCfg) (hc : c.ConfGood) (fp : Key → Nat) (s : St) (hI : InvC fp s)
    (id : Nat) (t : Txn) (hl : Live s id t) (cm : Commit) (hcm : cm ∈ s.log) (hts : t.readTs < cm.ts)
    (k : Key) (hk : k ∈ t.rkeys) (v : Option Val) (hv : (k, v) ∈ cm.writes) : hasConflict c s t = true := by
  obtain ⟨⟨_, _, _, hskip, _, _, hfin, _⟩, _, _⟩ := hc
  have hheld := hI.wm.held _ (hI.held id t hl)
  have hcl := hI.cleanLe
  obtain ⟨fps, hmem, hfp⟩ := hI.hist cm hcm (by simp only at hheld; omega)
  have hr : fp k ∈ t.reads := (hI.txnOk id t hl).2 k hk
  unfold hasConflict
  split
  · rfl
  have hne : t.reads ≠ [] := by intro h; rw [h] at hr; cases hr
  simp only [hne, if_false, Bool.or_eq_true, hfin, Bool.not_false, Bool.true_and]
  right
  rw [List.any_eq_true]
  refine ⟨(cm.ts, fps), hmem, ?_⟩
  simp only [hskip, Bool.and_eq_true, Bool.not_eq_true']
  constructor
  · have : ¬ (CmpOp.nat .le cm.ts t.readTs = true) := by rw [le_nat]; omega
    simpa using this
  · rw [List.any_eq_true]
    exact ⟨fp k, hr, by simpa using hfp (k, v) hv⟩

/-- a `commit` that answered `ok` for a transaction with pending writes passed the conflict test -/
theorem no_conflict_of_ok (c : MvccCfg) (hchk : c.checksConflict = true) (fp : Key → Nat) (s : St)
    (id : Nat) (t : Txn) (hg : getTxn s id = some t) (hd : t.discarded = false) (hw : t.writes ≠ [])
    (hok : (step c fp s (.commit id)).2 = .ok) : hasConflict c s t = false := by
  cases hcf : hasConflict c s t with
  | false => rfl
  | true =>
    simp [step, hg, commitTxn, hd, hw, hchk, hcf] at hok

-- ---------------------------------------------------------------- the serializability invariant

structure InvSer (s : St) : Prop where
  serial : SerialOK s.log
  noOver : NoOverwrite s.log

theorem InvSer_init (a b t : Nat) : InvSer (init a b t) := by
  refine ⟨trivial, ?_⟩
  intro cm hcm; simp [init] at hcm

theorem bestOf_between (st : List Entry) (k : Key) (lo hi : Nat) (hle : lo ≤ hi)
    (h : ∀ e ∈ st, e.key = k → e.ts ≤ lo ∨ hi < e.ts) : bestOf st k hi = bestOf st k lo := by
  induction st with
  | nil => rfl
  | cons x xs ih =>
    have ihx := ih (fun e he => h e (List.mem_cons_of_mem _ he))
    have hx := h x List.mem_cons_self
    simp only [bestOf, ihx]
    by_cases hk : x.key = k
    · have : (x.ts ≤ hi) ↔ (x.ts ≤ lo) := by
        have := hx hk; omega
      simp only [hk, true_and, this]
    · simp [hk]

/-- Preservation.  Only a commit that answers `ok` extends the log; there the committing
transaction passed the conflict test, so nothing it read was overwritten after its read
timestamp, so each of its logged reads equals the abstract map at its commit point. -/
theorem InvSer_step (c : MvccCfg) (hc : c.ConfGood) (fp : Key → Nat) (s : St) (op : Op) (hr : Reach c fp s)
    (h : InvSer s) : InvSer (step c fp s op).1 := by
  have hseed : c.SeedGood := hc.1.2.2.2.2.2.2.2
  have hsnap : c.SnapGood := ⟨hc.1.1, hseed⟩
  rcases step_kind c fp s op with ⟨_, h2, _⟩ | ⟨_, h2, _, _⟩ | ⟨t, hw, _, h2, _, hok, id, hg, hd, hop⟩ | ⟨_, hs⟩
  · exact ⟨by rw [h2]; exact h.serial, by rw [h2]; exact h.noOver⟩
  · exact ⟨by rw [h2]; exact h.serial, by rw [h2]; exact h.noOver⟩
  · subst hop
    have hA := Reach_InvA hseed hr
    have hB := Reach_InvB hsnap hr
    have hI := Reach_InvC hc hr
    have hS := Reach_InvS hr
    have hR := Reach_InvR hsnap hr
    have hl : Live s id t := ⟨hg, hd⟩
    have hnc := no_conflict_of_ok c hc.1.2.2.1 fp s id t hg hd hw hok
    -- nothing T read was overwritten above its read timestamp
    have hno : ∀ cm ∈ s.log, t.readTs < cm.ts → ∀ k ∈ t.rkeys, lookupW cm.writes k = none := by
      intro cm hcm hts k hk
      cases hx : lookupW cm.writes k with
      | none => rfl
      | some v =>
        have := hasConflict_of_overwrite c hc fp s hI id t hl cm hcm hts k hk v (lookupW_mem hx)
        rw [this] at hnc; cases hnc
    suffices key : SerialOK (commitOf t s.nextTs :: s.log) ∧
        NoOverwrite (commitOf t s.nextTs :: s.log) from
      ⟨by rw [h2]; exact key.1, by rw [h2]; exact key.2⟩
    refine ⟨⟨?_, h.serial⟩, ?_⟩
    · -- the new transaction's reads hold on the abstract map of everything committed before it
      intro p hp
      obtain ⟨hval, hkey⟩ := hR id t hl p hp
      simp only [commitOf_rlog] at hp ⊢
      have hlt := hB.readLt id t hl
      have hpos := hB.pos
      have hstable : readAt s.store p.1 (s.nextTs - 1) = readAt s.store p.1 t.readTs := by
        unfold readAt
        rw [bestOf_between s.store p.1 t.readTs (s.nextTs - 1) (by omega)]
        intro e he hek
        by_cases hle : e.ts ≤ t.readTs
        · exact Or.inl hle
        · exfalso
          obtain ⟨cm, hcm, hts, hmem⟩ := (hA.storeLog e).mp he
          have := lookupW_none_iff.mp (hno cm hcm (by omega) p.1 hkey) (e.key, e.val) hmem
          exact this hek
      rw [hval, ← hstable, hS, readAt_flatLog s.log hA.logSorted,
        filter_all (fun cm hcm => by have := hA.logLt cm hcm; omega)]
    · intro cm hcm cm' hcm' h1 h2' p hp
      rcases List.mem_cons.mp hcm with rfl | hcm
      · rcases List.mem_cons.mp hcm' with rfl | hcm'
        · simp only [commitOf_ts] at h2'; omega
        · simp only [commitOf_readTs, commitOf_rlog] at h1 hp
          exact hno cm' hcm' h1 p.1 (hR id t hl p hp).2
      · rcases List.mem_cons.mp hcm' with rfl | hcm'
        · have := hA.logLt cm hcm
          simp only [commitOf_ts] at h2'; omega
        · exact h.noOver cm hcm cm' hcm' h1 h2' p hp
  · have e2 : (step c fp s op).1.log = s.log := by rw [hs]; rfl
    exact ⟨by rw [e2]; exact h.serial, by rw [e2]; exact h.noOver⟩

theorem Reach_InvSer {c : MvccCfg} (hc : c.ConfGood) {fp : Key → Nat} {s : St} (h : Reach c fp s) : InvSer s :=
  Reach_ind (P := InvSer) InvSer_init (fun s op hr hs => InvSer_step c hc fp s op hr hs) h

-- ---------------------------------------------------------------- range reads (scans)

/-- what a scan's observation says about key `k`: the value it returned for it, or nothing -/
def lookupI (items : List (Key × Val)) (k : Key) : Option Val :=
  match items.find? (fun p => p.1 = k) with
  | some p => some p.2
  | none => none

/-- Re-running every logged scan on the abstract map returns the same observation: for every key
the scan asked the store about (every key not shadowed by the transaction's own pending writes
at that moment) — returned or ABSENT — the item list says exactly what the map holds.  (Item
lists are sorted by key and duplicate-free, so this is equality of the item lists.) -/
def scansOk (m : AMap) (cm : Commit) : Prop :=
  ∀ sc ∈ cm.slog, ∀ k, k ∉ sc.1 → lookupI sc.2 k = m k

/-- `Serial` with range reads: each transaction also re-runs its scans -/
def SerialR (m : AMap) : List Commit → AMap → Prop
  | [], m' => m' = m
  | cm :: rest, m' => readsOk m cm ∧ scansOk m cm ∧ SerialR (applyTxn m cm) rest m'

theorem SerialR_append (m : AMap) (xs ys : List Commit) (m' : AMap) :
    SerialR m (xs ++ ys) m' ↔ ∃ mid, SerialR m xs mid ∧ SerialR mid ys m' := by
  induction xs generalizing m with
  | nil =>
    simp only [List.nil_append, SerialR]
    constructor
    · intro h; exact ⟨m, rfl, h⟩
    · rintro ⟨mid, rfl, h⟩; exact h
  | cons x xs ih =>
    simp only [List.cons_append, SerialR, ih]
    constructor
    · rintro ⟨hr, hsc, mid, h1, h2⟩; exact ⟨mid, ⟨hr, hsc, h1⟩, h2⟩
    · rintro ⟨mid, ⟨hr, hsc, h1⟩, h2⟩; exact ⟨hr, hsc, mid, h1, h2⟩

def ScanOKs : List Commit → Prop
  | [] => True
  | cm :: older => scansOk (amapOf older) cm ∧ ScanOKs older

theorem SerialR_of_OKs (log : List Commit) (h : SerialOK log) (hs : ScanOKs log) :
    SerialR (fun _ => none) log.reverse (amapOf log) := by
  induction log with
  | nil => rfl
  | cons cm older ih =>
    obtain ⟨hr, hrest⟩ := h
    obtain ⟨hsc, hsrest⟩ := hs
    rw [List.reverse_cons, SerialR_append]
    exact ⟨amapOf older, ih hrest hsrest, hr, hsc, rfl⟩

theorem mem_insertKey (k x : Key) (l : List Key) : x ∈ insertKey k l ↔ x = k ∨ x ∈ l := by
  induction l with
  | nil => simp [insertKey]
  | cons y ys ih =>
    simp only [insertKey]
    split
    · rename_i h; subst h
      constructor
      · intro hx; exact Or.inr hx
      · rintro (rfl | hx)
        · exact List.mem_cons_self
        · exact hx
    · split
      · simp only [List.mem_cons]
      · simp only [List.mem_cons, ih]
        constructor
        · rintro (h | h | h)
          · exact Or.inr (Or.inl h)
          · exact Or.inl h
          · exact Or.inr (Or.inr h)
        · rintro (h | h | h)
          · exact Or.inr (Or.inl h)
          · exact Or.inl h
          · exact Or.inr (Or.inr h)

theorem mem_foldr_insertKey (l : List Key) (x : Key) : x ∈ l.foldr insertKey [] ↔ x ∈ l := by
  induction l with
  | nil => simp
  | cons y ys ih => simp only [List.foldr_cons, mem_insertKey, ih, List.mem_cons]

theorem scanItem_key {s : St} {t : Txn} {k : Key} {it : Key × Val × Nat} (h : scanItem s t k = some it) : it.1 = k := by
  unfold scanItem at h
  split at h
  · simp only [Option.some.injEq] at h; subst h; rfl
  · cases h
  · split at h
    · split at h
      · simp only [Option.some.injEq] at h; subst h; rfl
      · cases h
    · cases h

theorem scanItem_none_readAt {s : St} {t : Txn} {k : Key} (h : scanItem s t k = none) (hown : ownOf t k = none) :
    readAt s.store k t.readTs = none := by
  unfold scanItem at h
  rw [hown] at h
  simp only at h
  unfold readAt
  cases hb : bestOf s.store k t.readTs with
  | none => rfl
  | some e =>
    rw [hb] at h
    simp only at h
    cases hv : e.val with
    | none => simp [hv]
    | some v => rw [hv] at h; simp at h

/-- the observation list of a scan over the key list `keys`, as `scanTxn` computes it -/
def obsOf (s : St) (t : Txn) (keys : List Key) : List (Key × Val) :=
  ((keys.filterMap (scanItem s t)).filter (fun it => ownOf t it.1 = none)).map (fun it => (it.1, it.2.1))

theorem lookupI_obsOf (s : St) (t : Txn) (keys : List Key) (k : Key) (hown : ownOf t k = none) :
    lookupI (obsOf s t keys) k = if k ∈ keys then readAt s.store k t.readTs else none := by
  induction keys with
  | nil => simp [obsOf, lookupI]
  | cons x xs ih =>
    have hcons : obsOf s t (x :: xs) =
        (match scanItem s t x with
         | some it => if ownOf t it.1 = none then [(it.1, it.2.1)] else []
         | none => []) ++ obsOf s t xs := by
      unfold obsOf
      simp only [List.filterMap_cons]
      cases scanItem s t x with
      | none => simp
      | some it =>
        by_cases hq : ownOf t it.1 = none
        · simp [hq]
        · simp [hq]
    rw [hcons]
    cases hsi : scanItem s t x with
    | none =>
      simp only [List.nil_append, ih, List.mem_cons]
      by_cases hx : k = x
      · subst hx
        have := scanItem_none_readAt hsi hown
        simp only [true_or, if_true, this]
        split <;> rfl
      · simp [hx]
    | some it =>
      have hk1 := scanItem_key hsi
      by_cases hq : ownOf t it.1 = none
      · simp only [hq, if_true, List.singleton_append]
        by_cases hx : k = x
        · subst hx
          obtain ⟨_, e2⟩ := scanItem_served hsi hq
          simp [lookupI, hk1, e2]
        · have hne : ¬ (it.1 = k) := by rw [hk1]; exact fun h => hx h.symm
          have : lookupI ((it.1, it.2.1) :: obsOf s t xs) k = lookupI (obsOf s t xs) k := by
            simp [lookupI, List.find?_cons, hne]
          rw [this, ih]
          simp [hx]
      · simp only [hq, if_false, List.nil_append, ih, List.mem_cons]
        have hx : k ≠ x := by
          intro h; subst h; rw [hk1] at hq; exact hq hown
        simp [hx]

theorem readAt_none_of_no_key (st : List Entry) (k : Key) (r : Nat) (h : ∀ e ∈ st, e.key ≠ k) : readAt st k r = none := by
  unfold readAt
  cases hb : bestOf st k r with
  | none => rfl
  | some e =>
    obtain ⟨hm, hk, _⟩ := bestOf_some hb
    exact absurd hk (h e hm)

/-- what `scanTxn` logs is the store's answer for every key outside the transaction's own writes -/
theorem scan_observation (s : St) (t : Txn) (hu : t.update = true) (k : Key) (hk : k ∉ t.writes.map (·.1)) :
    lookupI (obsOf s t ((t.writes.map (·.1) ++ s.store.map (·.key)).foldr insertKey [])) k =
      readAt s.store k t.readTs := by
  have hown : ownOf t k = none := by
    unfold ownOf; rw [if_pos hu]
    apply lookupW_none
    intro p hp hpk
    exact hk (List.mem_map.mpr ⟨p, hp, hpk⟩)
  rw [lookupI_obsOf s t _ k hown]
  by_cases hmem : k ∈ (t.writes.map (·.1) ++ s.store.map (·.key)).foldr insertKey []
  · rw [if_pos hmem]
  · rw [if_neg hmem]
    symm
    apply readAt_none_of_no_key
    intro e he hek
    apply hmem
    rw [mem_foldr_insertKey]
    exact List.mem_append_right _ (List.mem_map.mpr ⟨e, he, hek⟩)

/-- every scan a live transaction logged says, for every key outside its own writes at that time,
what the store holds at its read timestamp; and in the range-tracking variant a transaction that
logged a scan is marked -/
structure InvRS (c : MvccCfg) (s : St) : Prop where
  obs : ∀ id t, Live s id t → ∀ sc ∈ t.slog, ∀ k, k ∉ sc.1 → lookupI sc.2 k = readAt s.store k t.readTs
  marked : c.scanTracksRange = true → ∀ id t, Live s id t → t.slog ≠ [] → t.scanned = true

theorem InvRS_init (c : MvccCfg) (a b t : Nat) : InvRS c (init a b t) := by
  have hl : ∀ id t0, ¬ Live (init a b t) id t0 := by
    intro id t0 h; simp [Live, getTxn, init] at h
  exact ⟨fun id t0 h => absurd h (hl id t0), fun _ id t0 h => absurd h (hl id t0)⟩

theorem InvRS_step (c : MvccCfg) (fp : Key → Nat) (s : St) (op : Op) (hB : InvB s) (h : InvRS c s) :
    InvRS c (step c fp s op).1 := by
  by_cases hop : op = .reopen
  · subst hop
    have hl : ∀ id t0, ¬ Live (step c fp s .reopen).1 id t0 := by
      intro id t0 hl; simp [Live, step, reopenDB, getTxn] at hl
    exact ⟨fun id t0 h => absurd h (hl id t0), fun _ id t0 h => absurd h (hl id t0)⟩
  refine ⟨?_, ?_⟩
  · intro id t' hl sc hsc k hk
    rcases step_live c fp s op id t' hl with ⟨t, hlt, hev⟩ | ⟨upd, _, rfl⟩
    · have hlt' := hB.readLt id t hlt
      have hstab : readAt (step c fp s op).1.store k t.readTs = readAt s.store k t.readTs :=
        step_readAt_below c fp s op hop k t.readTs hlt'
      have hold := h.obs id t hlt
      cases hev with
      | same => rw [hstab]; exact hold sc hsc k hk
      | write k' v cnt sz => rw [hstab]; exact hold sc hsc k hk
      | read k' hu => rw [hstab]; exact hold sc hsc k hk
      | scan tracked served h1 h2 =>
        simp only at hsc ⊢
        rw [hstab]
        by_cases hu : t.update = true
        · rw [if_pos hu] at hsc
          rcases List.mem_cons.mp hsc with rfl | hsc
          · exact scan_observation s t hu k hk
          · exact hold sc hsc k hk
        · rw [if_neg hu] at hsc
          exact hold sc hsc k hk
    · cases hsc
  · intro hflag id t' hl hne
    rcases step_live c fp s op id t' hl with ⟨t, hlt, hev⟩ | ⟨upd, _, rfl⟩
    · have hold := h.marked hflag id t hlt
      cases hev with
      | same => exact hold hne
      | write k' v cnt sz => exact hold hne
      | read k' hu => exact hold hne
      | scan tracked served h1 h2 =>
        simp only at hne ⊢
        by_cases hu : t.update = true
        · simp [hflag, hu]
        · rw [if_neg hu] at hne
          simp [hold hne]
    · exact absurd rfl hne

theorem Reach_InvRS {c : MvccCfg} (hc : c.SnapGood) {fp : Key → Nat} {s : St} (h : Reach c fp s) : InvRS c s :=
  Reach_ind (P := InvRS c) (InvRS_init c) (fun s op hr hs => InvRS_step c fp s op (Reach_InvB hc hr) hs) h

/-- range-tracking variant: a marked transaction that passed the conflict test has no
`committedTxns` entry above its read timestamp -/
theorem range_clear (c : MvccCfg) (s : St) (t : Txn) (hflag : c.scanTracksRange = true) (hsc : t.scanned = true)
    (h : hasConflict c s t = false) : ∀ ct ∈ s.committed, c.skipOp.nat ct.1 t.readTs = true := by
  unfold hasConflict at h
  simp only [hflag, hsc, Bool.true_and] at h
  split at h
  · cases h
  · rename_i hany
    intro ct hct
    have : ¬ (s.committed.any (fun ct => !(c.skipOp.nat ct.1 t.readTs)) = true) := hany
    rw [List.any_eq_true] at this
    cases hv : c.skipOp.nat ct.1 t.readTs with
    | true => rfl
    | false => exact absurd ⟨ct, hct, by simp [hv]⟩ this

theorem InvScan_init (a b t : Nat) : ScanOKs (init a b t).log := trivial

/-- Preservation of `ScanOKs` in the range-tracking variant: a transaction that scanned and
commits saw no commit at all above its read timestamp, so the store it scanned is the abstract
map at its commit point. -/
theorem InvScan_step (c : MvccCfg) (hc : c.ConfGood) (hflag : c.RangeGood) (fp : Key → Nat) (s : St) (op : Op)
    (hr : Reach c fp s) (h : ScanOKs s.log) : ScanOKs (step c fp s op).1.log := by
  have hseed : c.SeedGood := hc.1.2.2.2.2.2.2.2
  have hsnap : c.SnapGood := ⟨hc.1.1, hseed⟩
  rcases step_kind c fp s op with ⟨_, h2, _⟩ | ⟨_, h2, _, _⟩ | ⟨t, hw, _, h2, _, hok, id, hg, hd, hop⟩ | ⟨_, hs⟩
  · rw [h2]; exact h
  · rw [h2]; exact h
  · subst hop
    have hA := Reach_InvA hseed hr
    have hB := Reach_InvB hsnap hr
    have hI := Reach_InvC hc hr
    have hS := Reach_InvS hr
    have hRS := Reach_InvRS hsnap hr
    have hl : Live s id t := ⟨hg, hd⟩
    have hnc := no_conflict_of_ok c hc.1.2.2.1 fp s id t hg hd hw hok
    rw [h2]
    refine ⟨?_, h⟩
    intro sc hsc k hk
    simp only [commitOf_slog] at hsc
    have hmark : t.scanned = true := hRS.marked hflag id t hl (by intro h0; rw [h0] at hsc; cases hsc)
    have hclear := range_clear c s t hflag hmark hnc
    have hskip : c.skipOp = .le := hc.1.2.2.2.1
    -- no successful commit above T's read timestamp
    have hnone : ∀ cm ∈ s.log, cm.ts ≤ t.readTs := by
      intro cm hcm
      by_cases hle : cm.ts ≤ t.readTs
      · exact hle
      · exfalso
        have hheld := hI.wm.held _ (hI.held id t hl)
        have hcl := hI.cleanLe
        obtain ⟨fps, hmem, _⟩ := hI.hist cm hcm (by simp only at hheld; omega)
        have := hclear (cm.ts, fps) hmem
        rw [hskip, le_nat] at this
        exact hle this
    have hlt := hB.readLt id t hl
    have hpos := hB.pos
    have hstable : readAt s.store k (s.nextTs - 1) = readAt s.store k t.readTs := by
      unfold readAt
      rw [bestOf_between s.store k t.readTs (s.nextTs - 1) (by omega)]
      intro e he _
      obtain ⟨cm, hcm, hts, _⟩ := (hA.storeLog e).mp he
      have := hnone cm hcm
      exact Or.inl (by omega)
    rw [hRS.obs id t hl sc hsc k hk, ← hstable, hS, readAt_flatLog s.log hA.logSorted,
      filter_all (fun cm hcm => by have := hA.logLt cm hcm; omega)]
  · have e2 : (step c fp s op).1.log = s.log := by rw [hs]; rfl
    rw [e2]; exact h

theorem Reach_ScanOKs {c : MvccCfg} (hc : c.ConfGood) (hflag : c.RangeGood) {fp : Key → Nat} {s : St}
    (h : Reach c fp s) : ScanOKs s.log :=
  Reach_ind (P := fun s => ScanOKs s.log) InvScan_init (fun s op hr hs => InvScan_step c hc hflag fp s op hr hs) h

/-- `a` scanned and saw nothing for a key that `b` wrote (live value, outside `a`'s own writes):
then `a` cannot run after `b` in a serial execution with range reads -/
def sawNothingOf (a b : Commit) : Bool :=
  a.slog.any (fun sc => b.writes.any (fun p =>
    p.2.isSome && !(sc.1.contains p.1) && (lookupI sc.2 p.1).isNone && (lookupW b.writes p.1 == some p.2)))

theorem not_after (a b : Commit) (h : sawNothingOf a b = true) (m' : AMap) :
    ¬ SerialR (fun _ => none) [b, a] m' := by
  rintro ⟨_, _, _, hsc, _⟩
  unfold sawNothingOf at h
  rw [List.any_eq_true] at h
  obtain ⟨sc, hscm, h⟩ := h
  rw [List.any_eq_true] at h
  obtain ⟨p, _, h⟩ := h
  simp only [Bool.and_eq_true, Bool.not_eq_true', beq_iff_eq, Option.isSome_iff_exists, Option.isNone_iff_eq_none] at h
  obtain ⟨⟨⟨⟨v, hv⟩, hnot⟩, hnone⟩, hlw⟩ := h
  have hk : p.1 ∉ sc.1 := by
    intro hmem
    have : sc.1.contains p.1 = true := by simpa using hmem
    rw [this] at hnot; cases hnot
  have := hsc sc hscm p.1 hk
  rw [hnone] at this
  simp only [applyTxn, hlw, hv] at this
  cases this

end NoKV.Mvcc

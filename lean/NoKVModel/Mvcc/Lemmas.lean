/-
Helper lemmas for the MVCC engine: what each step does to the store / timestamps / ghost log,
the versioned-store lookup, and the configuration-independent invariant `InvA`.
-/
import NoKVModel.Mvcc.Model

namespace NoKV.Mvcc
open NoKV

-- ---------------------------------------------------------------- frame facts

@[simp] theorem putTxn_store (s : St) (id : Nat) (t : Txn) : (putTxn s id t).store = s.store := rfl
@[simp] theorem putTxn_nextTs (s : St) (id : Nat) (t : Txn) : (putTxn s id t).nextTs = s.nextTs := rfl
@[simp] theorem putTxn_log (s : St) (id : Nat) (t : Txn) : (putTxn s id t).log = s.log := rfl
@[simp] theorem putTxn_closed (s : St) (id : Nat) (t : Txn) : (putTxn s id t).closed = s.closed := rfl
@[simp] theorem putTxn_rm (s : St) (id : Nat) (t : Txn) : (putTxn s id t).rm = s.rm := rfl
@[simp] theorem putTxn_committed (s : St) (id : Nat) (t : Txn) : (putTxn s id t).committed = s.committed := rfl
@[simp] theorem putTxn_lastCleanup (s : St) (id : Nat) (t : Txn) : (putTxn s id t).lastCleanup = s.lastCleanup := rfl
@[simp] theorem putTxn_nextTag (s : St) (id : Nat) (t : Txn) : (putTxn s id t).nextTag = s.nextTag := rfl
@[simp] theorem putTxn_txns (s : St) (id : Nat) (t : Txn) : (putTxn s id t).txns = (id, t) :: s.txns := rfl

theorem getTxn_putTxn (s : St) (id id' : Nat) (t : Txn) :
    getTxn (putTxn s id t) id' = if id = id' then some t else getTxn s id' := by
  unfold getTxn
  simp only [putTxn_txns, List.find?_cons]
  by_cases h : id = id'
  · simp [h]
  · simp [h]

@[simp] theorem doneReadS_store (c : MvccCfg) (s : St) (t : Txn) : (doneReadS c s t).store = s.store := by
  unfold doneReadS; split <;> rfl
@[simp] theorem doneReadS_nextTs (c : MvccCfg) (s : St) (t : Txn) : (doneReadS c s t).nextTs = s.nextTs := by
  unfold doneReadS; split <;> rfl
@[simp] theorem doneReadS_log (c : MvccCfg) (s : St) (t : Txn) : (doneReadS c s t).log = s.log := by
  unfold doneReadS; split <;> rfl
@[simp] theorem doneReadS_closed (c : MvccCfg) (s : St) (t : Txn) : (doneReadS c s t).closed = s.closed := by
  unfold doneReadS; split <;> rfl
@[simp] theorem doneReadS_txns (c : MvccCfg) (s : St) (t : Txn) : (doneReadS c s t).txns = s.txns := by
  unfold doneReadS; split <;> rfl
@[simp] theorem doneReadS_committed (c : MvccCfg) (s : St) (t : Txn) : (doneReadS c s t).committed = s.committed := by
  unfold doneReadS; split <;> rfl
@[simp] theorem doneReadS_lastCleanup (c : MvccCfg) (s : St) (t : Txn) : (doneReadS c s t).lastCleanup = s.lastCleanup := by
  unfold doneReadS; split <;> rfl
@[simp] theorem doneReadS_nextTag (c : MvccCfg) (s : St) (t : Txn) : (doneReadS c s t).nextTag = s.nextTag := by
  unfold doneReadS; split <;> rfl
@[simp] theorem doneReadS_limits (c : MvccCfg) (s : St) (t : Txn) :
    (doneReadS c s t).maxCount = s.maxCount ∧ (doneReadS c s t).maxSize = s.maxSize ∧ (doneReadS c s t).thr = s.thr := by
  unfold doneReadS; split <;> simp

@[simp] theorem cleanup_store (c : MvccCfg) (s : St) : (cleanup c s).store = s.store := by
  simp only [cleanup]; split <;> rfl
@[simp] theorem cleanup_nextTs (c : MvccCfg) (s : St) : (cleanup c s).nextTs = s.nextTs := by
  simp only [cleanup]; split <;> rfl
@[simp] theorem cleanup_log (c : MvccCfg) (s : St) : (cleanup c s).log = s.log := by
  simp only [cleanup]; split <;> rfl
@[simp] theorem cleanup_closed (c : MvccCfg) (s : St) : (cleanup c s).closed = s.closed := by
  simp only [cleanup]; split <;> rfl
@[simp] theorem cleanup_txns (c : MvccCfg) (s : St) : (cleanup c s).txns = s.txns := by
  simp only [cleanup]; split <;> rfl
@[simp] theorem cleanup_rm (c : MvccCfg) (s : St) : (cleanup c s).rm = s.rm := by
  simp only [cleanup]; split <;> rfl
@[simp] theorem cleanup_nextTag (c : MvccCfg) (s : St) : (cleanup c s).nextTag = s.nextTag := by
  simp only [cleanup]; split <;> rfl
@[simp] theorem cleanup_limits (c : MvccCfg) (s : St) :
    (cleanup c s).maxCount = s.maxCount ∧ (cleanup c s).maxSize = s.maxSize ∧ (cleanup c s).thr = s.thr := by
  simp only [cleanup]; split <;> simp

@[simp] theorem discardTxn_store (c : MvccCfg) (s : St) (id : Nat) (t : Txn) : (discardTxn c s id t).store = s.store := by
  simp [discardTxn]
@[simp] theorem discardTxn_nextTs (c : MvccCfg) (s : St) (id : Nat) (t : Txn) : (discardTxn c s id t).nextTs = s.nextTs := by
  simp [discardTxn]
@[simp] theorem discardTxn_log (c : MvccCfg) (s : St) (id : Nat) (t : Txn) : (discardTxn c s id t).log = s.log := by
  simp [discardTxn]
@[simp] theorem discardTxn_closed (c : MvccCfg) (s : St) (id : Nat) (t : Txn) : (discardTxn c s id t).closed = s.closed := by
  simp [discardTxn]
@[simp] theorem discardTxn_committed (c : MvccCfg) (s : St) (id : Nat) (t : Txn) : (discardTxn c s id t).committed = s.committed := by
  simp [discardTxn]
@[simp] theorem discardTxn_lastCleanup (c : MvccCfg) (s : St) (id : Nat) (t : Txn) : (discardTxn c s id t).lastCleanup = s.lastCleanup := by
  simp [discardTxn]
@[simp] theorem discardTxn_nextTag (c : MvccCfg) (s : St) (id : Nat) (t : Txn) : (discardTxn c s id t).nextTag = s.nextTag := by
  simp [discardTxn]
@[simp] theorem discardTxn_rm (c : MvccCfg) (s : St) (id : Nat) (t : Txn) : (discardTxn c s id t).rm = (doneReadS c s t).rm := by
  simp [discardTxn]

@[simp] theorem newCommitTs_store (c : MvccCfg) (s : St) (t : Txn) : (newCommitTs c s t).store = s.store := by
  simp only [newCommitTs]; split <;> simp
@[simp] theorem newCommitTs_nextTs (c : MvccCfg) (s : St) (t : Txn) : (newCommitTs c s t).nextTs = s.nextTs + 1 := by
  simp only [newCommitTs]; split <;> simp
@[simp] theorem newCommitTs_log (c : MvccCfg) (s : St) (t : Txn) : (newCommitTs c s t).log = s.log := by
  simp only [newCommitTs]; split <;> simp
@[simp] theorem newCommitTs_closed (c : MvccCfg) (s : St) (t : Txn) : (newCommitTs c s t).closed = s.closed := by
  simp only [newCommitTs]; split <;> simp
@[simp] theorem newCommitTs_txns (c : MvccCfg) (s : St) (t : Txn) : (newCommitTs c s t).txns = s.txns := by
  simp only [newCommitTs]; split <;> simp
@[simp] theorem newCommitTs_nextTag (c : MvccCfg) (s : St) (t : Txn) : (newCommitTs c s t).nextTag = s.nextTag := by
  simp only [newCommitTs]; split <;> simp
@[simp] theorem newCommitTs_rm (c : MvccCfg) (s : St) (t : Txn) : (newCommitTs c s t).rm = (doneReadS c s t).rm := by
  simp only [newCommitTs]; split <;> simp
@[simp] theorem newCommitTs_limits (c : MvccCfg) (s : St) (t : Txn) :
    (newCommitTs c s t).maxCount = s.maxCount ∧ (newCommitTs c s t).maxSize = s.maxSize ∧ (newCommitTs c s t).thr = s.thr := by
  simp only [newCommitTs]; split <;> simp

@[simp] theorem applyCommit_nextTs (s : St) (t : Txn) (ts : Nat) : (applyCommit s t ts).nextTs = s.nextTs := rfl
@[simp] theorem applyCommit_store (s : St) (t : Txn) (ts : Nat) :
    (applyCommit s t ts).store = entriesOf t.writes ts ++ s.store := rfl
@[simp] theorem applyCommit_log (s : St) (t : Txn) (ts : Nat) :
    (applyCommit s t ts).log = commitOf t ts :: s.log := rfl
@[simp] theorem applyCommit_txns (s : St) (t : Txn) (ts : Nat) : (applyCommit s t ts).txns = s.txns := rfl
@[simp] theorem applyCommit_rm (s : St) (t : Txn) (ts : Nat) : (applyCommit s t ts).rm = s.rm := rfl
@[simp] theorem applyCommit_committed (s : St) (t : Txn) (ts : Nat) : (applyCommit s t ts).committed = s.committed := rfl
@[simp] theorem applyCommit_lastCleanup (s : St) (t : Txn) (ts : Nat) : (applyCommit s t ts).lastCleanup = s.lastCleanup := rfl
@[simp] theorem applyCommit_nextTag (s : St) (t : Txn) (ts : Nat) : (applyCommit s t ts).nextTag = s.nextTag := rfl
@[simp] theorem applyCommit_closed (s : St) (t : Txn) (ts : Nat) : (applyCommit s t ts).closed = s.closed := rfl

theorem mem_entriesOf {w : List (Key × Option Val)} {ts : Nat} {e : Entry} :
    e ∈ entriesOf w ts ↔ e.ts = ts ∧ (e.key, e.val) ∈ w := by
  unfold entriesOf
  simp only [List.mem_map]
  constructor
  · rintro ⟨p, hp, rfl⟩
    exact ⟨rfl, hp⟩
  · rintro ⟨h1, h2⟩
    refine ⟨(e.key, e.val), h2, ?_⟩
    cases e; simp_all

-- ---------------------------------------------------------------- what a commit does

/-- The three ways a `commit` of a live transaction with pending writes can end. -/
inductive CommitCase (c : MvccCfg) (s : St) (id : Nat) (t : Txn) (io : Bool) (r : St × Out) : Prop where
  | conflict (h : hasConflict c s t = true) (hs : r.1 = discardTxn c s id t) (ho : r.2 = .conflict)
  | failed (ho : r.2 = .toobig ∨ r.2 = .blocked ∨ r.2 = .iofail)
      (hs : r.1 = discardTxn c (newCommitTs c s t) id { t with doneRead := true })
  | applied (ho : r.2 = .ok) (hc : s.closed = false) (hio : io = false)
      (hs : r.1 = discardTxn c (applyCommit (newCommitTs c s t) t s.nextTs) id { t with doneRead := true })

theorem commitTxn_cases (c : MvccCfg) (s : St) (id : Nat) (t : Txn) (io : Bool)
    (hd : t.discarded = false) (hw : t.writes ≠ []) : CommitCase c s id t io (commitTxn c s id t io) := by
  unfold commitTxn
  simp only [hd, hw, if_false, Bool.false_eq_true]
  by_cases h1 : (c.checksConflict && hasConflict c s t) = true
  · simp only [h1, if_true]
    simp only [Bool.and_eq_true] at h1
    exact .conflict h1.2 rfl rfl
  · simp only [h1, if_false]
    by_cases h2 : sendTooBig c (newCommitTs c s t) t.writes = true
    · simp only [h2, if_true]
      exact .failed (Or.inl rfl) rfl
    · simp only [h2, if_false]
      by_cases h3 : (newCommitTs c s t).closed = true
      · simp only [h3, if_true]
        exact .failed (Or.inr (Or.inl rfl)) rfl
      · simp only [h3, if_false]
        by_cases h4 : io = true
        · simp only [h4, if_true]
          exact .failed (Or.inr (Or.inr rfl)) rfl
        · simp only [h4, if_false]
          refine .applied rfl ?_ (by simpa using h4) rfl
          simpa using h3

/-- Every step either leaves store, ghost log and `nextTs` alone, or is a commit that hands out
`s.nextTs` and (only when it answers `ok`) prepends exactly the transaction's entries, or is a
reopen (store and log kept, a new oracle). -/
inductive StepKind (c : MvccCfg) (s : St) (op : Op) (r : St × Out) : Prop where
  | same (h1 : r.1.store = s.store) (h2 : r.1.log = s.log) (h3 : r.1.nextTs = s.nextTs)
  | burnt (h1 : r.1.store = s.store) (h2 : r.1.log = s.log) (h3 : r.1.nextTs = s.nextTs + 1) (ho : r.2 ≠ .ok)
  | commit (t : Txn) (hw : t.writes ≠ []) (h1 : r.1.store = entriesOf t.writes s.nextTs ++ s.store)
      (h2 : r.1.log = commitOf t s.nextTs :: s.log)
      (h3 : r.1.nextTs = s.nextTs + 1) (ho : r.2 = .ok)
      (id : Nat) (hg : getTxn s id = some t) (hd : t.discarded = false) (hop : op = .commit id)
  | reopened (hop : op = .reopen) (hs : r.1 = reopenDB c s)

theorem commitTxn_kind (c : MvccCfg) (s : St) (op : Op) (id : Nat) (t : Txn) (io : Bool)
    (hg : getTxn s id = some t) (hopio : io = false → op = .commit id) : StepKind c s op (commitTxn c s id t io) := by
  by_cases hd : t.discarded = true
  · unfold commitTxn; simp only [hd, if_true]; exact .same rfl rfl rfl
  · by_cases hw : t.writes = []
    · unfold commitTxn; simp only [hd, hw, if_true, if_false, Bool.false_eq_true]
      exact .same (by simp) (by simp) (by simp)
    · have hd' : t.discarded = false := by simpa using hd
      rcases commitTxn_cases c s id t io hd' hw with ⟨_, hs, _⟩ | ⟨ho, hs⟩ | ⟨ho, _, hio, hs⟩
      · exact .same (by rw [hs]; simp) (by rw [hs]; simp) (by rw [hs]; simp)
      · refine .burnt (by rw [hs]; simp) (by rw [hs]; simp) (by rw [hs]; simp) ?_
        rcases ho with ho | ho | ho <;> rw [ho] <;> simp
      · exact .commit t hw (by rw [hs]; simp) (by rw [hs]; simp) (by rw [hs]; simp) ho id hg hd' (hopio hio)

theorem step_kind (c : MvccCfg) (fp : Key → Nat) (s : St) (op : Op) : StepKind c s op (step c fp s op) := by
  cases op with
  | begin id upd => exact .same rfl rfl rfl
  | get id k =>
    simp only [step]
    split
    · exact .same rfl rfl rfl
    · split
      · exact .same rfl rfl rfl
      · simp only [getTxnKey]
        split <;> exact .same rfl rfl rfl
  | set id k v =>
    simp only [step]
    split
    · exact .same rfl rfl rfl
    · split
      · exact .same rfl rfl rfl
      · split
        · exact .same rfl rfl rfl
        · simp only [setTxnKey]
          split <;> exact .same rfl rfl rfl
  | commit id =>
    simp only [step]
    split
    · exact .same rfl rfl rfl
    · rename_i t0 ht0; exact commitTxn_kind c s _ id t0 false ht0 (fun _ => rfl)
  | commitIO id =>
    simp only [step]
    split
    · exact .same rfl rfl rfl
    · rename_i t0 ht0; exact commitTxn_kind c s _ id t0 true ht0 (fun h => by cases h)
  | scan id =>
    simp only [step]
    split
    · exact .same rfl rfl rfl
    · split
      · exact .same rfl rfl rfl
      · split
        · exact .same rfl rfl rfl
        · exact .same rfl rfl rfl
  | reopen => exact .reopened rfl rfl
  | discard id =>
    simp only [step]
    split
    · exact .same rfl rfl rfl
    · split
      · exact .same rfl rfl rfl
      · exact .same (by simp) (by simp) (by simp)
  | close => exact .same rfl rfl rfl
  | versions k =>
    simp only [step, versionsOf]
    split <;> exact .same rfl rfl rfl

-- ---------------------------------------------------------------- versioned lookup

theorem bestOf_none {st : List Entry} {k : Key} {ts : Nat} (h : bestOf st k ts = none) :
    ∀ e' ∈ st, ¬ (e'.key = k ∧ e'.ts ≤ ts) := by
  induction st with
  | nil => intro e' he'; cases he'
  | cons x xs ih =>
    simp only [bestOf] at h
    by_cases hx : x.key = k ∧ x.ts ≤ ts
    · simp only [hx, and_self, if_true] at h
      cases hr : bestOf xs k ts with
      | none => rw [hr] at h; simp at h
      | some b => rw [hr] at h; simp only at h; split at h <;> simp at h
    · simp only [hx, if_false] at h
      intro e' he'
      rcases List.mem_cons.mp he' with rfl | he'
      · exact hx
      · exact ih h e' he'

theorem bestOf_some {st : List Entry} {k : Key} {ts : Nat} {e : Entry} (h : bestOf st k ts = some e) :
    e ∈ st ∧ e.key = k ∧ e.ts ≤ ts ∧ ∀ e' ∈ st, e'.key = k → e'.ts ≤ ts → e'.ts ≤ e.ts := by
  induction st generalizing e with
  | nil => simp [bestOf] at h
  | cons x xs ih =>
    simp only [bestOf] at h
    by_cases hx : x.key = k ∧ x.ts ≤ ts
    · simp only [hx, and_self, if_true] at h
      cases hr : bestOf xs k ts with
      | none =>
        rw [hr] at h
        simp only [Option.some.injEq] at h
        subst h
        refine ⟨List.mem_cons_self, hx.1, hx.2, ?_⟩
        intro e' he' hk hts
        rcases List.mem_cons.mp he' with rfl | he'
        · exact Nat.le_refl _
        · exact absurd ⟨hk, hts⟩ (bestOf_none hr e' he')
      | some b =>
        rw [hr] at h
        obtain ⟨hb1, hb2, hb3, hb4⟩ := ih hr
        by_cases hlt : x.ts < b.ts
        · simp only [hlt, if_true, Option.some.injEq] at h
          subst h
          refine ⟨List.mem_cons_of_mem _ hb1, hb2, hb3, ?_⟩
          intro e' he' hk hts
          rcases List.mem_cons.mp he' with rfl | he'
          · omega
          · exact hb4 e' he' hk hts
        · simp only [hlt, if_false, Option.some.injEq] at h
          subst h
          refine ⟨List.mem_cons_self, hx.1, hx.2, ?_⟩
          intro e' he' hk hts
          rcases List.mem_cons.mp he' with rfl | he'
          · exact Nat.le_refl _
          · have := hb4 e' he' hk hts
            omega
    · simp only [hx, if_false] at h
      obtain ⟨h1, h2, h3, h4⟩ := ih h
      refine ⟨List.mem_cons_of_mem _ h1, h2, h3, ?_⟩
      intro e' he' hk hts
      rcases List.mem_cons.mp he' with rfl | he'
      · exact absurd ⟨hk, hts⟩ hx
      · exact h4 e' he' hk hts

/-- entries newer than the bound do not influence a lookup -/
theorem bestOf_append_newer (es st : List Entry) (k : Key) (ts : Nat) (h : ∀ e ∈ es, ts < e.ts) :
    bestOf (es ++ st) k ts = bestOf st k ts := by
  induction es with
  | nil => rfl
  | cons x xs ih =>
    have hx : ¬ (x.key = k ∧ x.ts ≤ ts) := by
      have := h x List.mem_cons_self
      omega
    simp only [List.cons_append, bestOf, hx, if_false]
    exact ih (fun e he => h e (List.mem_cons_of_mem _ he))

theorem readAt_append_newer (es st : List Entry) (k : Key) (ts : Nat) (h : ∀ e ∈ es, ts < e.ts) :
    readAt (es ++ st) k ts = readAt st k ts := by
  unfold readAt; rw [bestOf_append_newer es st k ts h]

-- ---------------------------------------------------------------- InvA: holds for every configuration

/-- a transaction that still holds its snapshot -/
def Live (s : St) (id : Nat) (t : Txn) : Prop := getTxn s id = some t ∧ t.discarded = false

/-- the store holds exactly the committed writes at their commit versions -/
def Committed (log : List Commit) (e : Entry) : Prop :=
  ∃ cm ∈ log, e.ts = cm.ts ∧ (e.key, e.val) ∈ cm.writes

structure InvA (s : St) : Prop where
  storeLt : ∀ e ∈ s.store, e.ts < s.nextTs
  logLt : ∀ cm ∈ s.log, cm.ts < s.nextTs
  logSorted : s.log.Pairwise (fun a b => b.ts < a.ts)
  storeLog : ∀ e, e ∈ s.store ↔ Committed s.log e
  logNonempty : ∀ cm ∈ s.log, cm.writes ≠ []

theorem InvA_init (a b t : Nat) : InvA (init a b t) := by
  refine ⟨?_, ?_, ?_, ?_, ?_⟩
  · intro e he; cases he
  · intro cm hcm; cases hcm
  · exact List.Pairwise.nil
  · intro e
    constructor
    · intro he; cases he
    · rintro ⟨cm, hcm, _⟩; cases hcm
  · intro cm hcm; cases hcm

theorem le_maxTs {st : List Entry} {e : Entry} (h : e ∈ st) : e.ts ≤ maxTs st := by
  induction st with
  | nil => cases h
  | cons x xs ih =>
    simp only [maxTs, List.foldr_cons]
    rcases List.mem_cons.mp h with rfl | h
    · omega
    · have := ih h; simp only [maxTs] at this; omega

theorem ge_nat' (a b : Nat) : CmpOp.nat .ge a b = true ↔ b ≤ a := by
  simp [CmpOp.nat, CmpOp.eval]

theorem reopen_nextTs (c : MvccCfg) (hc : c.SeedGood) (s : St) : (reopenDB c s).nextTs = maxTs s.store + 1 := by
  unfold MvccCfg.SeedGood at hc
  simp only [reopenDB, hc, ge_nat']
  by_cases hm : maxTs s.store = 0
  · simp [hm]
  · have : 1 ≤ maxTs s.store := by omega
    simp [hm, this]

theorem InvA.logLe {s : St} (h : InvA s) : ∀ cm ∈ s.log, cm.ts ≤ maxTs s.store := by
  intro cm hcm
  have hne := h.logNonempty cm hcm
  cases hw : cm.writes with
  | nil => exact absurd hw hne
  | cons p ps =>
    have hmem : ({ key := p.1, ts := cm.ts, val := p.2 } : Entry) ∈ s.store :=
      (h.storeLog _).mpr ⟨cm, hcm, rfl, by rw [hw]; exact List.mem_cons_self⟩
    exact le_maxTs hmem

theorem InvA_step (c : MvccCfg) (hc : c.SeedGood) (fp : Key → Nat) (s : St) (op : Op) (h : InvA s) :
    InvA (step c fp s op).1 := by
  rcases step_kind c fp s op with ⟨h1, h2, h3⟩ | ⟨h1, h2, h3, _⟩ | ⟨t, hw, h1, h2, h3, _⟩ | ⟨_, hs⟩
  · exact ⟨by rw [h1, h3]; exact h.storeLt, by rw [h2, h3]; exact h.logLt, by rw [h2]; exact h.logSorted,
      by rw [h1, h2]; exact h.storeLog, by rw [h2]; exact h.logNonempty⟩
  · refine ⟨?_, ?_, by rw [h2]; exact h.logSorted, by rw [h1, h2]; exact h.storeLog, by rw [h2]; exact h.logNonempty⟩
    · rw [h1, h3]; intro e he; have := h.storeLt e he; omega
    · rw [h2, h3]; intro e he; have := h.logLt e he; omega
  · refine ⟨?_, ?_, ?_, ?_, ?_⟩
    · rw [h1, h3]
      intro e he
      rcases List.mem_append.mp he with he | he
      · have := (mem_entriesOf.mp he).1; omega
      · have := h.storeLt e he; omega
    · rw [h2, h3]
      intro cm hcm
      rcases List.mem_cons.mp hcm with rfl | hcm
      · simp
      · have := h.logLt cm hcm; omega
    · rw [h2]
      refine List.Pairwise.cons ?_ h.logSorted
      intro cm hcm
      exact h.logLt cm hcm
    · intro e
      rw [h1, h2]
      constructor
      · intro he
        rcases List.mem_append.mp he with he | he
        · obtain ⟨hts, hmem⟩ := mem_entriesOf.mp he
          exact ⟨_, List.mem_cons_self, hts, hmem⟩
        · obtain ⟨cm, hcm, h4, h5⟩ := (h.storeLog e).mp he
          exact ⟨cm, List.mem_cons_of_mem _ hcm, h4, h5⟩
      · rintro ⟨cm, hcm, h4, h5⟩
        rcases List.mem_cons.mp hcm with rfl | hcm
        · exact List.mem_append_left _ (mem_entriesOf.mpr ⟨h4, h5⟩)
        · exact List.mem_append_right _ ((h.storeLog e).mpr ⟨cm, hcm, h4, h5⟩)
    · rw [h2]
      intro cm hcm
      rcases List.mem_cons.mp hcm with rfl | hcm
      · exact hw
      · exact h.logNonempty cm hcm
  · have e1 : (step c fp s op).1.store = s.store := by rw [hs]; rfl
    have e2 : (step c fp s op).1.log = s.log := by rw [hs]; rfl
    have e3 : (step c fp s op).1.nextTs = maxTs s.store + 1 := by rw [hs]; exact reopen_nextTs c hc s
    refine ⟨?_, ?_, by rw [e2]; exact h.logSorted, by rw [e1, e2]; exact h.storeLog, by rw [e2]; exact h.logNonempty⟩
    · rw [e1, e3]; intro e he; have := le_maxTs he; omega
    · rw [e2, e3]; intro cm hcm; have := h.logLe cm hcm; omega

theorem InvA_run (c : MvccCfg) (hc : c.SeedGood) (fp : Key → Nat) (ops : List Op) (s : St) (h : InvA s) :
    InvA (run c fp s ops) := by
  induction ops generalizing s with
  | nil => exact h
  | cons op ops ih => exact ih _ (InvA_step c hc fp s op h)

/-- states reachable from a fresh database by any sequence of API calls -/
def Reach (c : MvccCfg) (fp : Key → Nat) (s : St) : Prop :=
  ∃ a b t ops, s = run c fp (init a b t) ops

theorem Reach_InvA {c : MvccCfg} (hc : c.SeedGood) {fp : Key → Nat} {s : St} (h : Reach c fp s) : InvA s := by
  obtain ⟨a, b, t, ops, rfl⟩ := h
  exact InvA_run c hc fp ops _ (InvA_init a b t)

theorem run_append (c : MvccCfg) (fp : Key → Nat) (s : St) (xs ys : List Op) :
    run c fp s (xs ++ ys) = run c fp (run c fp s xs) ys := by
  induction xs generalizing s with
  | nil => rfl
  | cons x xs ih => simp only [List.cons_append, run]; exact ih _

theorem Reach_step {c : MvccCfg} {fp : Key → Nat} {s : St} (h : Reach c fp s) (op : Op) :
    Reach c fp (step c fp s op).1 := by
  obtain ⟨a, b, t, ops, rfl⟩ := h
  exact ⟨a, b, t, ops ++ [op], by rw [run_append]; rfl⟩

theorem Reach_run {c : MvccCfg} {fp : Key → Nat} {s : St} (h : Reach c fp s) (ops : List Op) :
    Reach c fp (run c fp s ops) := by
  induction ops generalizing s with
  | nil => exact h
  | cons op ops ih => exact ih (Reach_step h op)

/-- induction principle for reachable states -/
theorem Reach_ind {c : MvccCfg} {fp : Key → Nat} {P : St → Prop}
    (h0 : ∀ a b t, P (init a b t)) (hstep : ∀ s op, Reach c fp s → P s → P (step c fp s op).1)
    {s : St} (h : Reach c fp s) : P s := by
  obtain ⟨a, b, t, ops, rfl⟩ := h
  have : ∀ (ops : List Op) (s0 : St), Reach c fp s0 → P s0 → P (run c fp s0 ops) := by
    intro ops
    induction ops with
    | nil => intro s0 _ h; exact h
    | cons op ops ih => intro s0 hr h; exact ih _ (Reach_step hr op) (hstep s0 op hr h)
  exact this ops _ ⟨a, b, t, [], rfl⟩ (h0 a b t)

theorem step_nextTs_mono (c : MvccCfg) (fp : Key → Nat) (s : St) (op : Op) (hop : op ≠ .reopen) :
    s.nextTs ≤ (step c fp s op).1.nextTs := by
  rcases step_kind c fp s op with ⟨_, _, h3⟩ | ⟨_, _, h3, _⟩ | ⟨_, _, _, _, h3, _⟩ | ⟨h, _⟩
  · omega
  · omega
  · omega
  · exact absurd h hop

/-- without a reopen in between, the store below `nextTs` never changes again -/
theorem readAt_stable (c : MvccCfg) (hc : c.SeedGood) (fp : Key → Nat) (ops : List Op) (hno : Op.reopen ∉ ops)
    (s : St) (h : InvA s) (k : Key) (r : Nat)
    (hr : r < s.nextTs) : readAt (run c fp s ops).store k r = readAt s.store k r := by
  induction ops generalizing s with
  | nil => rfl
  | cons op ops ih =>
    simp only [run]
    have hop : op ≠ .reopen := fun h => hno (h ▸ List.mem_cons_self)
    have hmono := step_nextTs_mono c fp s op hop
    rw [ih (fun h => hno (List.mem_cons_of_mem _ h)) _ (InvA_step c hc fp s op h) (by omega)]
    rcases step_kind c fp s op with ⟨h1, _, _⟩ | ⟨h1, _, _, _⟩ | ⟨t, _, h1, _, _, _⟩ | ⟨h, _⟩
    · rw [h1]
    · rw [h1]
    · rw [h1]
      apply readAt_append_newer
      intro e he
      have := (mem_entriesOf.mp he).1
      omega
    · exact absurd h hop

theorem getTxn_congr {s1 s2 : St} (h : s1.txns = s2.txns) (id : Nat) : getTxn s1 id = getTxn s2 id := by
  unfold getTxn; rw [h]

theorem getTxn_discardTxn (c : MvccCfg) (s : St) (id id' : Nat) (t : Txn) :
    getTxn (discardTxn c s id t) id' =
      if id = id' then some { t with discarded := true, writes := [], update := false, readTs := 0, reads := [],
                                     ckeys := [], count := 0, size := 0, doneRead := false, scanned := false }
      else getTxn s id' := by
  unfold discardTxn
  rw [getTxn_putTxn]
  split
  · rfl
  · exact getTxn_congr (by simp) id'

theorem scanItem_served {s : St} {t : Txn} {k : Key} {it : Key × Val × Nat}
    (h : scanItem s t k = some it) (hown : ownOf t it.1 = none) :
    it.1 = k ∧ readAt s.store k t.readTs = some it.2.1 := by
  unfold scanItem at h
  cases ho : ownOf t k with
  | some w =>
    rw [ho] at h
    cases w with
    | none => simp at h
    | some v =>
      simp only [Option.some.injEq] at h
      subst h
      simp only at hown
      rw [ho] at hown; cases hown
  | none =>
    rw [ho] at h
    simp only at h
    unfold readAt
    cases hb : bestOf s.store k t.readTs with
    | none => rw [hb] at h; simp at h
    | some e =>
      rw [hb] at h
      simp only at h
      cases hv : e.val with
      | none => rw [hv] at h; simp at h
      | some v =>
        rw [hv] at h
        simp only [Option.some.injEq] at h
        subst h
        exact ⟨rfl, by simp [hv]⟩

/-- how one step can change a transaction that stays live -/
inductive Evolve (c : MvccCfg) (fp : Key → Nat) (s : St) (t : Txn) : Txn → Prop where
  | same : Evolve c fp s t t
  | read (k : Key) (hu : t.update = true) :
      Evolve c fp s t { t with reads := if c.trackGet then t.reads ++ [fp k] else t.reads,
                               rkeys := k :: t.rkeys, rlog := (k, readAt s.store k t.readTs) :: t.rlog }
  | write (k : Key) (v : Option Val) (cnt sz : Nat) :
      Evolve c fp s t { t with count := cnt, size := sz, ckeys := addFp t.ckeys (fp k), writes := setW t.writes k v }
  | scan (tracked served : List (Key × Val × Nat)) (h1 : ∀ it ∈ served, it ∈ tracked)
      (h2 : ∀ it ∈ served, readAt s.store it.1 t.readTs = some it.2.1) :
      Evolve c fp s t { t with reads := t.reads ++ tracked.map (fun it => fp it.1),
                               rkeys := tracked.map (fun it => it.1) ++ t.rkeys,
                               rlog := served.map (fun it => (it.1, some it.2.1)) ++ t.rlog,
                               scanned := t.scanned || (c.scanTracksRange && t.update),
                               slog := if t.update then
                                   (t.writes.map (·.1),
                                    (((t.writes.map (·.1) ++ s.store.map (·.key)).foldr insertKey []).filterMap (scanItem s t)
                                      |>.filter (fun it => ownOf t it.1 = none)).map (fun it => (it.1, it.2.1))) :: t.slog
                                 else t.slog }

theorem Evolve.fixed {c : MvccCfg} {fp : Key → Nat} {s : St} {t t' : Txn} (h : Evolve c fp s t t') :
    t'.readTs = t.readTs ∧ t'.tag = t.tag ∧ t'.update = t.update ∧ t'.doneRead = t.doneRead ∧
    t'.discarded = t.discarded := by
  cases h <;> exact ⟨rfl, rfl, rfl, rfl, rfl⟩

/-- Where a live transaction of the next state comes from: it was live before (and evolved by a
read or a write of its own), or it was just begun. -/
theorem step_live (c : MvccCfg) (fp : Key → Nat) (s : St) (op : Op) (id : Nat) (t' : Txn)
    (h : Live (step c fp s op).1 id t') :
    (∃ t, Live s id t ∧ Evolve c fp s t t') ∨
    (∃ upd, op = .begin id upd ∧
       t' = { update := upd, readTs := s.nextTs - c.readTsOff, reads := [], ckeys := [], writes := [], count := 1,
              size := 0, discarded := false, doneRead := false, tag := s.nextTag, rkeys := [], rlog := [],
              scanned := false, slog := [] }) := by
  obtain ⟨hg, hd⟩ := h
  have keep : ∀ {Q : Prop}, getTxn s id = some t' → (∃ t, Live s id t ∧ Evolve c fp s t t') ∨ Q :=
    fun hg' => Or.inl ⟨t', ⟨hg', hd⟩, .same⟩
  cases op with
  | begin id0 upd =>
    simp only [step, beginTxn] at hg
    rw [getTxn_putTxn] at hg
    by_cases hid : id0 = id
    · subst hid
      simp only [if_true, Option.some.injEq] at hg
      subst hg
      exact Or.inr ⟨upd, rfl, rfl⟩
    · simp only [hid, if_false] at hg
      exact keep ((getTxn_congr rfl id).symm ▸ hg)
  | get id0 k =>
    simp only [step] at hg
    split at hg
    · exact keep hg
    · rename_i t0 ht0
      split at hg
      · exact keep hg
      · simp only [getTxnKey] at hg
        split at hg
        · exact keep hg
        · exact keep hg
        · simp only at hg
          rw [getTxn_putTxn] at hg
          by_cases hid : id0 = id
          · subst hid
            simp only [if_true, Option.some.injEq] at hg
            by_cases hu : t0.update = true
            · rw [if_pos hu] at hg
              subst hg
              exact Or.inl ⟨t0, ⟨ht0, by simpa using hd⟩, .read k hu⟩
            · rw [if_neg hu] at hg
              subst hg
              exact Or.inl ⟨t0, ⟨ht0, hd⟩, .same⟩
          · simp only [hid, if_false] at hg
            exact keep hg
  | set id0 k v =>
    simp only [step] at hg
    split at hg
    · exact keep hg
    · rename_i t0 ht0
      split at hg
      · exact keep hg
      · split at hg
        · exact keep hg
        · simp only [setTxnKey] at hg
          split at hg
          · exact keep hg
          · simp only at hg
            rw [getTxn_putTxn] at hg
            by_cases hid : id0 = id
            · subst hid
              simp only [if_true, Option.some.injEq] at hg
              subst hg
              exact Or.inl ⟨t0, ⟨ht0, by simpa using hd⟩, .write k v _ _⟩
            · simp only [hid, if_false] at hg
              exact keep hg
  | reopen =>
    simp [step, reopenDB, getTxn] at hg
  | scan id0 =>
    simp only [step] at hg
    split at hg
    · exact keep hg
    · rename_i t0 ht0
      split at hg
      · exact keep hg
      · split at hg
        · exact keep hg
        · simp only [scanTxn] at hg
          rw [getTxn_putTxn] at hg
          by_cases hid : id0 = id
          · subst hid
            simp only [if_true, Option.some.injEq] at hg
            subst hg
            refine Or.inl ⟨t0, ⟨ht0, by simpa using hd⟩, .scan _ _ (fun it hit => (List.mem_filter.mp hit).1) ?_⟩
            intro it hit
            obtain ⟨htr, hown⟩ := List.mem_filter.mp hit
            have hown' : ownOf t0 it.1 = none := by simpa using hown
            have hitems : it ∈ ((t0.writes.map (·.1) ++ s.store.map (·.key)).foldr insertKey []).filterMap (scanItem s t0) := by
              by_cases hu : t0.update = true
              · rw [if_pos hu] at htr; exact (List.mem_filter.mp htr).1
              · rw [if_neg hu] at htr; cases htr
            obtain ⟨k', _, hk'⟩ := List.mem_filterMap.mp hitems
            obtain ⟨e1, e2⟩ := scanItem_served hk' hown'
            rw [e1]; exact e2
          · simp only [hid, if_false] at hg
            exact keep hg
  | commitIO id0 =>
    simp only [step] at hg
    split at hg
    · exact keep hg
    · rename_i t0 ht0
      have key : ∀ (s1 : St) (t1 : Txn), s1.txns = s.txns → getTxn (discardTxn c s1 id0 t1) id = some t' →
          (∃ t, Live s id t ∧ Evolve c fp s t t') := by
        intro s1 t1 htx hg1
        rw [getTxn_discardTxn] at hg1
        by_cases hid : id0 = id
        · simp only [hid, if_true, Option.some.injEq] at hg1
          subst hg1
          simp at hd
        · simp only [hid, if_false] at hg1
          rw [getTxn_congr htx] at hg1
          exact ⟨t', ⟨hg1, hd⟩, .same⟩
      by_cases hd0 : t0.discarded = true
      · simp only [commitTxn, hd0, if_true] at hg
        exact keep hg
      · by_cases hw : t0.writes = []
        · simp only [commitTxn, hd0, hw, if_true, if_false, Bool.false_eq_true] at hg
          exact Or.inl (key s t0 rfl hg)
        · have hd0' : t0.discarded = false := by simpa using hd0
          rcases commitTxn_cases c s id0 t0 true hd0' hw with ⟨_, hs, _⟩ | ⟨_, hs⟩ | ⟨_, _, _, hs⟩
          · rw [hs] at hg; exact Or.inl (key s t0 rfl hg)
          · rw [hs] at hg; exact Or.inl (key _ _ (by simp) hg)
          · rw [hs] at hg; exact Or.inl (key _ _ (by simp) hg)
  | commit id0 =>
    simp only [step] at hg
    split at hg
    · exact keep hg
    · rename_i t0 ht0
      have key : ∀ (s1 : St) (t1 : Txn), s1.txns = s.txns → getTxn (discardTxn c s1 id0 t1) id = some t' →
          (∃ t, Live s id t ∧ Evolve c fp s t t') := by
        intro s1 t1 htx hg1
        rw [getTxn_discardTxn] at hg1
        by_cases hid : id0 = id
        · simp only [hid, if_true, Option.some.injEq] at hg1
          subst hg1
          simp at hd
        · simp only [hid, if_false] at hg1
          rw [getTxn_congr htx] at hg1
          exact ⟨t', ⟨hg1, hd⟩, .same⟩
      by_cases hd0 : t0.discarded = true
      · simp only [commitTxn, hd0, if_true] at hg
        exact keep hg
      · by_cases hw : t0.writes = []
        · simp only [commitTxn, hd0, hw, if_true, if_false, Bool.false_eq_true] at hg
          exact Or.inl (key s t0 rfl hg)
        · have hd0' : t0.discarded = false := by simpa using hd0
          rcases commitTxn_cases c s id0 t0 false hd0' hw with ⟨_, hs, _⟩ | ⟨_, hs⟩ | ⟨_, _, _, hs⟩
          · rw [hs] at hg; exact Or.inl (key s t0 rfl hg)
          · rw [hs] at hg; exact Or.inl (key _ _ (by simp) hg)
          · rw [hs] at hg; exact Or.inl (key _ _ (by simp) hg)
  | discard id0 =>
    simp only [step] at hg
    split at hg
    · exact keep hg
    · rename_i t0 ht0
      split at hg
      · exact keep hg
      · rw [getTxn_discardTxn] at hg
        by_cases hid : id0 = id
        · simp only [hid, if_true, Option.some.injEq] at hg
          subst hg
          simp at hd
        · simp only [hid, if_false] at hg
          exact keep hg
  | close =>
    simp only [step] at hg
    exact keep ((getTxn_congr rfl id) ▸ hg)
  | versions k =>
    simp only [step, versionsOf] at hg
    split at hg
    · exact keep hg
    · exact keep ((getTxn_congr rfl id) ▸ hg)

/-- with `readTs := nextTxnTs - 1`: timestamps start at 1 and every live read timestamp is
below the next commit timestamp -/
structure InvB (s : St) : Prop where
  pos : 1 ≤ s.nextTs
  readLt : ∀ id t, Live s id t → t.readTs < s.nextTs

theorem InvB_init (a b t : Nat) : InvB (init a b t) := by
  refine ⟨by simp [init], ?_⟩
  intro id t0 h
  simp [Live, getTxn, init] at h

theorem InvB_step (c : MvccCfg) (hc : c.SnapGood) (fp : Key → Nat) (s : St) (op : Op) (h : InvB s) :
    InvB (step c fp s op).1 := by
  by_cases hop : op = .reopen
  · subst hop
    refine ⟨?_, ?_⟩
    · simp only [step, reopenDB]; split <;> omega
    · intro id t' hl
      simp [Live, step, reopenDB, getTxn] at hl
  · have hmono := step_nextTs_mono c fp s op hop
    refine ⟨by have := h.pos; omega, ?_⟩
    intro id t' hl
    rcases step_live c fp s op id t' hl with ⟨t, hlt, hev⟩ | ⟨upd, _, hr⟩
    · have := h.readLt id t hlt
      have := hev.fixed.1
      omega
    · have := h.pos
      have hoff := hc.1
      subst hr
      simp only [hoff]; omega

theorem Reach_InvB {c : MvccCfg} (hc : c.SnapGood) {fp : Key → Nat} {s : St} (h : Reach c fp s) : InvB s :=
  Reach_ind (P := InvB) InvB_init (fun s op _ hs => InvB_step c hc fp s op hs) h

end NoKV.Mvcc

/-
E-MVCC, atomic-step version (C03, C04): the transaction oracle of /repo/txn.go, the read
watermark of utils/watermarker.go as the oracle uses it, a versioned store, and transactions
with read set / pending writes / size accounting.  Every public API call
(`NewTransaction`, `Txn.Get`, `Txn.Set/Delete`, `Txn.Commit`, `Txn.Discard`, `DB.Close`) is one
atomic step; goroutine preemption *inside* a call is C05's subject.

Core Lean only.  Ghost fields (never read by the modelled code, never printed by the driver)
are marked `-- ghost`; they exist so that the theorems can speak about "what was read" and
"what was committed".
-/
import NoKVModel.Base.Bytes
import NoKVModel.Base.Cfg

namespace NoKV.Mvcc
open NoKV

abbrev Key := Bytes
abbrev Val := Bytes

/-- Decisions read off the Go source by `extract/cmd/mvcc`. -/
structure MvccCfg where
  /-- `oracle.readTs`: `readTs := nextTxnTs - readTsOff` (source: 1). -/
  readTsOff : Nat
  /-- `Txn.Get` of an update transaction records the key in the read set before the LSM lookup
      (hit and miss alike). -/
  trackGet : Bool
  /-- `newCommitTs` tests `hasConflict` before handing out a timestamp. -/
  checksConflict : Bool
  /-- `hasConflict`: `committedTxn.ts <op> txn.readTs ⇒ continue` (source: `<=`). -/
  skipOp : CmpOp
  /-- `hasConflict` intent fast path: `ts <op> txn.readTs ⇒ conflict` (source: `>`). -/
  intentOp : CmpOp
  /-- `hasConflict` returns `false` right after the intent-table pass found nothing, without
      scanning `committedTxns` (source as-is: no, the scan follows). -/
  intentFinal : Bool
  /-- `cleanupCommittedTransactions` deletes an intent entry of a pruned txn only when it still
      points at that txn (`ts == txn.ts`); `false` = deletes it unconditionally. -/
  intentDelGuard : Bool
  /-- `TxnIterator.advance` records every returned item in the read set; `false` = only items
      whose version is below the read timestamp. -/
  scanTrackAll : Bool
  /-- the iterator records the range it scanned (keys seen absent included) and a commit conflicts
      when a later commit wrote inside a scanned range.  Source as-is: `false` — `advance` only
      fingerprints returned items.  `true` is a model variant (no such code exists): a scan marks
      the transaction, and a marked transaction conflicts with every commit above its read
      timestamp (scans here are unbounded, so every key is inside the range). -/
  scanTracksRange : Bool
  /-- `oracle.initCommitState`: `committed <op> nextTxnTs ⇒ nextTxnTs := committed + 1` (source: `>=`). -/
  seedOp : CmpOp
  /-- `newCommitTs` appends `(ts, conflictKeys)` to `committedTxns`. -/
  recordsCommit : Bool
  /-- `cleanupCommittedTransactions`: `txn.ts <op> maxReadTs ⇒ drop` (source: `<=`). -/
  pruneOp : CmpOp
  /-- `Txn.checkSize`: `count <op> MaxBatchCount` (source: `>=`). -/
  countOp : CmpOp
  /-- `Txn.checkSize`: `size <op> MaxBatchSize` (source: `>=`). -/
  sizeOp : CmpOp
  /-- `DB.sendToWriteCh`: `count <op> MaxBatchCount` (source: `>=`). -/
  sendCountOp : CmpOp
  /-- `DB.sendToWriteCh`: `size <op> MaxBatchSize` (source: `>=`). -/
  sendSizeOp : CmpOp
  /-- `WaterMark.addIndex` counts index 0 like any other index (source as-is: early return). -/
  wmTracksZero : Bool
  /-- `WaterMark.tryAdvance` does not move past `doneUntil` while the slot *at* `doneUntil` is
      still pending (source as-is: only the slot `doneUntil+1` is looked at). -/
  wmHoldsAtDone : Bool
  deriving DecidableEq, Repr

def MvccCfg.good : MvccCfg :=
  { readTsOff := 1, trackGet := true, checksConflict := true, skipOp := .le, intentOp := .gt,
    intentFinal := false, intentDelGuard := true, scanTrackAll := true, scanTracksRange := true, seedOp := .ge,
    recordsCommit := true, pruneOp := .le, countOp := .ge, sizeOp := .ge, sendCountOp := .ge,
    sendSizeOp := .ge, wmTracksZero := true, wmHoldsAtDone := true }

/-- the tree as it is: everything good except that scans do not track ranges -/
def MvccCfg.tree : MvccCfg := { MvccCfg.good with scanTracksRange := false }

/-- the tree before d7ef6bd (both read-watermark defects present) -/
def MvccCfg.asis : MvccCfg := { MvccCfg.tree with wmTracksZero := false, wmHoldsAtDone := false }

/-- what `C03_serializable_range` needs on top of `ConfGood` -/
def MvccCfg.RangeGood (c : MvccCfg) : Prop := c.scanTracksRange = true
instance MvccCfg.decRangeGood (c : MvccCfg) : Decidable c.RangeGood := by unfold MvccCfg.RangeGood; exact inferInstance

/-- what the snapshot / atomicity theorems need -/
def MvccCfg.SnapGood (c : MvccCfg) : Prop := c.readTsOff = 1 ∧ c.seedOp = .ge
instance MvccCfg.decSnapGood (c : MvccCfg) : Decidable c.SnapGood := by unfold MvccCfg.SnapGood; exact inferInstance

/-- conflict detection without the watermark flags -/
def MvccCfg.DetectGood (c : MvccCfg) : Prop :=
  c.readTsOff = 1 ∧ c.trackGet = true ∧ c.checksConflict = true ∧ c.skipOp = .le ∧
  c.recordsCommit = true ∧ c.pruneOp = .le ∧ c.intentFinal = false ∧ c.seedOp = .ge
instance MvccCfg.decDetectGood (c : MvccCfg) : Decidable c.DetectGood := by unfold MvccCfg.DetectGood; exact inferInstance

/-- everything C03's conflict / serializability theorems need -/
def MvccCfg.ConfGood (c : MvccCfg) : Prop :=
  c.DetectGood ∧ c.wmTracksZero = true ∧ c.wmHoldsAtDone = true
instance MvccCfg.decConfGood (c : MvccCfg) : Decidable c.ConfGood := by unfold MvccCfg.ConfGood; exact inferInstance

def MvccCfg.SizeGood (c : MvccCfg) : Prop :=
  c.countOp = .ge ∧ c.sizeOp = .ge ∧ c.sendCountOp = .ge ∧ c.sendSizeOp = .ge

/-- commit versions keep increasing across a reopen -/
def MvccCfg.SeedGood (c : MvccCfg) : Prop := c.seedOp = .ge
instance MvccCfg.decSeedGood (c : MvccCfg) : Decidable c.SeedGood := by unfold MvccCfg.SeedGood; exact inferInstance
instance MvccCfg.decSizeGood (c : MvccCfg) : Decidable c.SizeGood := by unfold MvccCfg.SizeGood; exact inferInstance

-- ---------------------------------------------------------------- read watermark (atomic use)

/-- `utils.WaterMark` as `oracle.readMark` uses it.  `pending` holds one element per `Begin`
not yet matched by its `Done`: the index and a ghost tag identifying the `Begin` (the real
structure keeps a counter per index; the counter of `i` is the number of elements with index `i`). -/
structure WM where
  doneUntil : Nat := 0
  lastIndex : Nat := 0
  pending : List (Nat × Nat) := []
  deriving DecidableEq, Repr

def WM.cnt (w : WM) (i : Nat) : Nat := (w.pending.filter (fun p => p.1 = i)).length

/-- `tryAdvance`: move `doneUntil` forward while the next slot is free. -/
def WM.advance (c : MvccCfg) : Nat → WM → WM
  | 0, w => w
  | fuel + 1, w =>
    if w.doneUntil < w.lastIndex ∧ w.cnt (w.doneUntil + 1) = 0 ∧
        (c.wmHoldsAtDone = true → w.cnt w.doneUntil = 0) then
      WM.advance c fuel { w with doneUntil := w.doneUntil + 1 }
    else w

def WM.tryAdvance (c : MvccCfg) (w : WM) : WM := WM.advance c (w.lastIndex - w.doneUntil) w

/-- `Begin(index)`: `setLastIndex` then `addIndex(index, +1)`. -/
def WM.begin (c : MvccCfg) (w : WM) (i tag : Nat) : WM :=
  let w1 := { w with lastIndex := max w.lastIndex i }
  if i = 0 ∧ c.wmTracksZero = false then w1
  else WM.tryAdvance c { w1 with pending := (i, tag) :: w1.pending }

/-- `Done(index)`: `addIndex(index, -1)`. -/
def WM.done (c : MvccCfg) (w : WM) (i tag : Nat) : WM :=
  if i = 0 ∧ c.wmTracksZero = false then w
  else WM.tryAdvance c { w with pending := w.pending.filter (fun p => p ≠ (i, tag)) }

-- ---------------------------------------------------------------- store

/-- one version of one key; `val = none` is a tombstone (`BitDelete`) -/
structure Entry where
  key : Key
  ts : Nat
  val : Option Val
  deriving DecidableEq, Repr

/-- The entry `lsm.Get(InternalKey(k, ts))` lands on: greatest version `≤ ts` of `k`
(first one in list order among equals; equal `(key, ts)` pairs do not arise). -/
def bestOf : List Entry → Key → Nat → Option Entry
  | [], _, _ => none
  | e :: es, k, ts =>
    let r := bestOf es k ts
    if e.key = k ∧ e.ts ≤ ts then
      match r with
      | some b => if e.ts < b.ts then some b else some e
      | none => some e
    else r

/-- visible value at `ts`: tombstone and absence both read as `none` (`ErrKeyNotFound`) -/
def readAt (st : List Entry) (k : Key) (ts : Nat) : Option Val :=
  match bestOf st k ts with
  | some e => e.val
  | none => none

def lookupW (w : List (Key × Option Val)) (k : Key) : Option (Option Val) :=
  match w.find? (fun p => p.1 = k) with
  | some p => some p.2
  | none => none

def setW (w : List (Key × Option Val)) (k : Key) (v : Option Val) : List (Key × Option Val) :=
  (k, v) :: w.filter (fun p => p.1 ≠ k)

-- ---------------------------------------------------------------- transactions, oracle, DB

structure Txn where
  update : Bool
  readTs : Nat
  reads : List Nat                      -- fingerprints of keys read
  ckeys : List Nat                      -- `conflictKeys`: fingerprints of keys written
  writes : List (Key × Option Val)      -- `pendingWrites`
  count : Nat
  size : Nat
  discarded : Bool
  doneRead : Bool
  tag : Nat                             -- ghost: identifies this txn's `readMark.Begin`
  rkeys : List Key                      -- ghost: keys whose read was served by the store
  rlog : List (Key × Option Val)        -- ghost: those reads with their results
  scanned : Bool                        -- only used by the `scanTracksRange` variant: a scan happened
  slog : List (List Key × List (Key × Val))  -- ghost: per scan, (keys shadowed by own pending writes,
                                        --        the items the STORE served, in key order)
  deriving DecidableEq, Repr

/-- ghost record of one successful read-write commit -/
structure Commit where
  ts : Nat
  readTs : Nat
  writes : List (Key × Option Val)
  rlog : List (Key × Option Val)
  slog : List (List Key × List (Key × Val))
  deriving DecidableEq, Repr

structure St where
  maxCount : Nat := 64
  maxSize : Nat := 1048576
  thr : Nat := 1024
  closed : Bool := false
  nextTs : Nat := 1
  committed : List (Nat × List Nat) := []   -- `committedTxns`
  intent : List (Nat × Nat) := []           -- `intentTable`: fingerprint ↦ latest commit ts
  lastCleanup : Nat := 0
  rm : WM := {}
  store : List Entry := []
  txns : List (Nat × Txn) := []             -- handle ↦ txn (first match wins)
  nextTag : Nat := 0                        -- ghost
  log : List Commit := []                   -- ghost, newest first
  deriving Repr

inductive Out where
  | ok
  | okTs (ts : Nat)
  | val (v : Val)
  | notfound
  | conflict
  | toobig
  | blocked
  | readonly
  | discarded
  | closed
  | notxn
  | iofail
  | vers (l : List (Nat × Val))
  | scanned (l : List (Key × Val))
  deriving DecidableEq, Repr

inductive Op where
  | begin (id : Nat) (update : Bool)
  | get (id : Nat) (k : Key)
  | set (id : Nat) (k : Key) (v : Option Val)     -- `none` = Delete
  | commit (id : Nat)
  | commitIO (id : Nat)                           -- commit whose request fails in the write pipeline (I/O error)
  | scan (id : Nat)                               -- `NewIterator` forward over everything, every item read
  | reopen                                        -- `Close` + `Open` of the same directory
  | discard (id : Nat)
  | close
  | versions (k : Key)
  deriving DecidableEq, Repr

def getTxn (s : St) (id : Nat) : Option Txn :=
  match s.txns.find? (fun p => p.1 = id) with
  | some p => some p.2
  | none => none

def putTxn (s : St) (id : Nat) (t : Txn) : St := { s with txns := (id, t) :: s.txns }

/-- `Entry.EstimateSize(threshold)` -/
def estimate (klen vlen thr : Nat) : Nat :=
  if vlen < thr then klen + vlen + 1 else klen + 12 + 1

def vlen (v : Option Val) : Nat :=
  match v with
  | some b => b.length
  | none => 0

/-- `oracle.doneRead`: the state after it -/
def doneReadS (c : MvccCfg) (s : St) (t : Txn) : St :=
  if t.doneRead then s else { s with rm := s.rm.done c t.readTs t.tag }

/-- `Txn.Discard` (after the `discarded` test) followed by `recycle` -/
def discardTxn (c : MvccCfg) (s : St) (id : Nat) (t : Txn) : St :=
  putTxn (doneReadS c s t) id
    { t with discarded := true, writes := [], update := false, readTs := 0, reads := [],
             ckeys := [], count := 0, size := 0, doneRead := false, scanned := false }

/-- `oracle.hasConflict` -/
def hasConflict (c : MvccCfg) (s : St) (t : Txn) : Bool :=
  if c.scanTracksRange && t.scanned && s.committed.any (fun ct => !(c.skipOp.nat ct.1 t.readTs)) then true
  else if t.reads = [] then false
  else
    t.reads.any (fun r => s.intent.any (fun p => p.1 = r && c.intentOp.nat p.2 t.readTs)) ||
    (!c.intentFinal &&
      s.committed.any (fun ct => !(c.skipOp.nat ct.1 t.readTs) && t.reads.any (fun r => ct.2.contains r)))

/-- `oracle.cleanupCommittedTransactions` -/
def cleanup (c : MvccCfg) (s : St) : St :=
  let maxReadTs := s.rm.doneUntil
  if maxReadTs = s.lastCleanup then s
  else
    let gone := s.committed.filter (fun ct => c.pruneOp.nat ct.1 maxReadTs)
    { s with
      lastCleanup := maxReadTs
      committed := s.committed.filter (fun ct => !(c.pruneOp.nat ct.1 maxReadTs))
      intent := s.intent.filter (fun p =>
        !(gone.any (fun ct => (!c.intentDelGuard || ct.1 = p.2) && ct.2.contains p.1))) }

def setIntent (it : List (Nat × Nat)) (ts : Nat) (keys : List Nat) : List (Nat × Nat) :=
  keys.map (fun k => (k, ts)) ++ it.filter (fun p => !(keys.contains p.1))

/-- size test of `DB.sendToWriteCh`: keys are internal keys now (4-byte CF marker + 8-byte ts) -/
def sendTooBig (c : MvccCfg) (s : St) (w : List (Key × Option Val)) : Bool :=
  let size := (w.map (fun p => estimate (p.1.length + 12) (vlen p.2) s.thr)).sum
  c.sendCountOp.nat w.length s.maxCount || c.sendSizeOp.nat size s.maxSize

def addFp (l : List Nat) (x : Nat) : List Nat := if l.contains x then l else x :: l

/-- `oracle.newCommitTs` after the conflict test: doneRead, cleanup, `ts := nextTxnTs++`,
record the fingerprints.  The timestamp handed out is `s.nextTs`. -/
def newCommitTs (c : MvccCfg) (s : St) (t : Txn) : St :=
  let s2 := cleanup c (doneReadS c s t)
  let ts := s2.nextTs
  let s3 := { s2 with nextTs := ts + 1 }
  if c.recordsCommit then
    { s3 with committed := s3.committed ++ [(ts, t.ckeys)], intent := setIntent s3.intent ts t.ckeys }
  else s3

def entriesOf (w : List (Key × Option Val)) (ts : Nat) : List Entry :=
  w.map (fun p => ({ key := p.1, ts := ts, val := p.2 } : Entry))

/-- ghost record of a transaction committing at version `ts` -/
def commitOf (t : Txn) (ts : Nat) : Commit :=
  { ts := ts, readTs := t.readTs, writes := t.writes, rlog := t.rlog, slog := t.slog }

@[simp] theorem commitOf_ts (t : Txn) (ts : Nat) : (commitOf t ts).ts = ts := rfl
@[simp] theorem commitOf_readTs (t : Txn) (ts : Nat) : (commitOf t ts).readTs = t.readTs := rfl
@[simp] theorem commitOf_writes (t : Txn) (ts : Nat) : (commitOf t ts).writes = t.writes := rfl
@[simp] theorem commitOf_rlog (t : Txn) (ts : Nat) : (commitOf t ts).rlog = t.rlog := rfl
@[simp] theorem commitOf_slog (t : Txn) (ts : Nat) : (commitOf t ts).slog = t.slog := rfl

/-- the request reaches the LSM: all entries of the transaction at version `ts`, in one batch -/
def applyCommit (s : St) (t : Txn) (ts : Nat) : St :=
  { s with store := entriesOf t.writes ts ++ s.store,
           log := commitOf t ts :: s.log }

/-- `Txn.Commit` / `Txn.CommitWith` (the callback awaited) -/
def commitTxn (c : MvccCfg) (s : St) (id : Nat) (t : Txn) (io : Bool := false) : St × Out :=
  if t.discarded then (s, .discarded)
  else if t.writes = [] then (discardTxn c s id t, .ok)
  else if c.checksConflict && hasConflict c s t then (discardTxn c s id t, .conflict)
  else
    let s4 := newCommitTs c s t
    let t1 := { t with doneRead := true }
    -- sendToWriteCh: size test first, then the closed queue
    if sendTooBig c s4 t.writes then (discardTxn c s4 id t1, .toobig)
    else if s4.closed then (discardTxn c s4 id t1, .blocked)
    else if io then (discardTxn c s4 id t1, .iofail)     -- vlog.write / applyRequests error for the batch
    else (discardTxn c (applyCommit s4 t s.nextTs) id t1, .ok)

/-- `Txn.Get` on a live transaction -/
def getTxnKey (c : MvccCfg) (fp : Key → Nat) (s : St) (id : Nat) (t : Txn) (k : Key) : St × Out :=
  let own := if t.update then lookupW t.writes k else none
  match own with
  | some (some v) => (s, .val v)
  | some none => (s, .notfound)
  | none =>
    let res := readAt s.store k t.readTs
    let t' := if t.update then
        { t with reads := if c.trackGet then t.reads ++ [fp k] else t.reads,
                 rkeys := k :: t.rkeys, rlog := (k, res) :: t.rlog }
      else t
    (putTxn s id t', match res with
                     | some v => .val v
                     | none => .notfound)

/-- `Txn.modify` on a live update transaction -/
def setTxnKey (c : MvccCfg) (fp : Key → Nat) (s : St) (id : Nat) (t : Txn) (k : Key) (v : Option Val) : St × Out :=
  let count := t.count + 1
  let size := t.size + estimate k.length (vlen v) (s.thr + 10)
  if c.countOp.nat count s.maxCount || c.sizeOp.nat size s.maxSize then (s, .toobig)
  else
    (putTxn s id { t with count := count, size := size, ckeys := addFp t.ckeys (fp k),
                          writes := setW t.writes k v }, .ok)

/-- `db.newTransaction`: count starts at 1 ("one extra entry for BitFin"); readTs := orc.readTs() -/
def beginTxn (c : MvccCfg) (s : St) (id : Nat) (upd : Bool) : St × Out :=
  let r := s.nextTs - c.readTsOff
  let t : Txn := { update := upd, readTs := r, reads := [], ckeys := [], writes := [], count := 1,
                   size := 0, discarded := false, doneRead := false, tag := s.nextTag, rkeys := [], rlog := [],
                   scanned := false, slog := [] }
  (putTxn { s with rm := s.rm.begin c r s.nextTag, nextTag := s.nextTag + 1 } id t, .okTs r)

/-- a read-only transaction + `NewKeyIterator` (all versions, tombstones are skipped) + Discard -/
def versionsOf (c : MvccCfg) (s : St) (k : Key) : St × Out :=
  if s.closed then (s, .closed)
  else
    let r := s.nextTs - c.readTsOff
    let rm1 := (s.rm.begin c r s.nextTag).done c r s.nextTag
    let vs := (s.store.filter (fun e => e.key = k ∧ e.ts ≤ r)).filterMap
                (fun e => match e.val with
                          | some v => some (e.ts, v)
                          | none => none)
    ({ s with rm := rm1, nextTag := s.nextTag + 1 }, .vers vs)

def insertKey (k : Key) : List Key → List Key
  | [] => [k]
  | x :: xs => if k = x then x :: xs else if Bytes.lt k x then k :: x :: xs else x :: insertKey k xs

/-- the transaction's own pending write for `k`, as `Get` and the iterator see it -/
def ownOf (t : Txn) (k : Key) : Option (Option Val) := if t.update then lookupW t.writes k else none

/-- what a forward scan returns for key `k`: the value and the version it is surfaced at
(pending writes are surfaced at the read timestamp and win ties) -/
def scanItem (s : St) (t : Txn) (k : Key) : Option (Key × Val × Nat) :=
  match ownOf t k with
  | some (some v) => some (k, v, t.readTs)
  | some none => none
  | none =>
    match bestOf s.store k t.readTs with
    | some e => match e.val with
      | some v => some (k, v, e.ts)
      | none => none
    | none => none

/-- `Txn.NewIterator(IteratorOptions{})`, `Rewind`, `Next` to the end, `Close` on a live transaction -/
def scanTxn (c : MvccCfg) (fp : Key → Nat) (s : St) (id : Nat) (t : Txn) : St × Out :=
  let keys := (t.writes.map (·.1) ++ s.store.map (·.key)).foldr insertKey []
  let items := keys.filterMap (scanItem s t)
  let tracked := if t.update then items.filter (fun it => c.scanTrackAll || decide (it.2.2 < t.readTs)) else []
  -- ghost: the tracked items that were served by the store (not by the txn's own pending write)
  let served := tracked.filter (fun it => ownOf t it.1 = none)
  -- ghost: the whole observation of the store: every item it served (tracked or not), and the keys
  -- it was not asked about because the transaction's own pending writes shadow them
  let own := t.writes.map (·.1)
  let obs := (items.filter (fun it => ownOf t it.1 = none)).map (fun it => (it.1, it.2.1))
  let t' := { t with reads := t.reads ++ tracked.map (fun it => fp it.1),
                     rkeys := tracked.map (fun it => it.1) ++ t.rkeys,
                     rlog := served.map (fun it => (it.1, some it.2.1)) ++ t.rlog,
                     scanned := t.scanned || (c.scanTracksRange && t.update),
                     slog := if t.update then (own, obs) :: t.slog else t.slog }
  (putTxn s id t', .scanned (items.map (fun it => (it.1, it.2.1))))

def maxTs (st : List Entry) : Nat := st.foldr (fun e m => max e.ts m) 0

/-- `DB.Close` + `Open` on the same directory: a new oracle seeded by `initCommitState` with the
largest version found in the store; every transaction handle of the old instance is gone -/
def reopenDB (c : MvccCfg) (s : St) : St :=
  let m := maxTs s.store
  { s with closed := false,
           nextTs := if m ≠ 0 ∧ c.seedOp.nat m 1 = true then m + 1 else 1,
           committed := [], intent := [], lastCleanup := m,
           rm := { doneUntil := m, lastIndex := 0, pending := [] },
           txns := [] }

def step (c : MvccCfg) (fp : Key → Nat) (s : St) (op : Op) : St × Out :=
  match op with
  | .begin id upd => beginTxn c s id upd
  | .get id k =>
    match getTxn s id with
    | none => (s, .notxn)
    | some t => if t.discarded then (s, .discarded) else getTxnKey c fp s id t k
  | .set id k v =>
    match getTxn s id with
    | none => (s, .notxn)
    | some t =>
      if !t.update then (s, .readonly)
      else if t.discarded then (s, .discarded)
      else setTxnKey c fp s id t k v
  | .commit id =>
    match getTxn s id with
    | none => (s, .notxn)
    | some t => commitTxn c s id t false
  | .commitIO id =>
    match getTxn s id with
    | none => (s, .notxn)
    | some t => commitTxn c s id t true
  | .scan id =>
    match getTxn s id with
    | none => (s, .notxn)
    | some t =>
      if t.discarded then (s, .discarded)
      else if s.closed then (s, .closed)
      else scanTxn c fp s id t
  | .reopen => (reopenDB c s, .ok)
  | .discard id =>
    match getTxn s id with
    | none => (s, .notxn)
    | some t => if t.discarded then (s, .ok) else (discardTxn c s id t, .ok)
  | .close => ({ s with closed := true }, .ok)
  | .versions k => versionsOf c s k

def run (c : MvccCfg) (fp : Key → Nat) (s : St) : List Op → St
  | [] => s
  | op :: ops => run c fp (step c fp s op).1 ops

/-- a fresh database with the given limits -/
def init (maxCount maxSize thr : Nat) : St := { maxCount := maxCount, maxSize := maxSize, thr := thr }

end NoKV.Mvcc

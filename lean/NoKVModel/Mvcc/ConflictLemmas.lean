/-
The oracle invariant behind C03's conflict theorem (DESIGN.md §11 "Oracle"):
the read watermark never passes a live transaction's read timestamp, `lastCleanupTs` never
passes the watermark, and `committedTxns` still holds the fingerprints of every successful
commit above `lastCleanupTs`.
-/
import NoKVModel.Mvcc.Lemmas

namespace NoKV.Mvcc
open NoKV

-- ---------------------------------------------------------------- watermark

theorem WM.cnt_zero (w : WM) (i : Nat) : w.cnt i = 0 ↔ ∀ p ∈ w.pending, p.1 ≠ i := by
  unfold WM.cnt
  rw [List.length_eq_zero_iff, List.filter_eq_nil_iff]
  constructor
  · intro h p hp; simpa using h p hp
  · intro h p hp; simpa using h p hp

theorem WM.advance_props (c : MvccCfg) (fuel : Nat) (w : WM) :
    (WM.advance c fuel w).pending = w.pending ∧ (WM.advance c fuel w).lastIndex = w.lastIndex ∧
    w.doneUntil ≤ (WM.advance c fuel w).doneUntil ∧
    (WM.advance c fuel w).doneUntil ≤ max w.doneUntil w.lastIndex ∧
    (c.wmHoldsAtDone = true → (∀ p ∈ w.pending, w.doneUntil ≤ p.1) →
      ∀ p ∈ w.pending, (WM.advance c fuel w).doneUntil ≤ p.1) := by
  induction fuel generalizing w with
  | zero => exact ⟨rfl, rfl, Nat.le_refl _, Nat.le_max_left _ _, fun _ h => h⟩
  | succ n ih =>
    unfold WM.advance
    by_cases hcond : w.doneUntil < w.lastIndex ∧ w.cnt (w.doneUntil + 1) = 0 ∧
        (c.wmHoldsAtDone = true → w.cnt w.doneUntil = 0)
    · rw [if_pos hcond]
      obtain ⟨h1, h2, h3, h4, h5⟩ := ih { w with doneUntil := w.doneUntil + 1 }
      refine ⟨h1, h2, ?_, ?_, ?_⟩
      · simp only at h3; omega
      · simp only at h4; omega
      · intro hh hall
        apply h5 hh
        intro p hp
        have hz := (WM.cnt_zero w w.doneUntil).mp (hcond.2.2 hh) p hp
        have := hall p hp
        simp only; omega
    · rw [if_neg hcond]
      exact ⟨rfl, rfl, Nat.le_refl _, Nat.le_max_left _ _, fun _ h => h⟩

/-- the read watermark is consistent with the timestamps and ghost tags handed out so far -/
structure WMOk (w : WM) (nextTs nextTag : Nat) : Prop where
  held : ∀ p ∈ w.pending, w.doneUntil ≤ p.1
  doneLt : w.doneUntil < nextTs
  lastLt : w.lastIndex < nextTs
  tagLt : ∀ p ∈ w.pending, p.2 < nextTag

theorem WMOk.mono {w : WM} {n g n' g' : Nat} (h : WMOk w n g) (hn : n ≤ n') (hg : g ≤ g') : WMOk w n' g' :=
  ⟨h.held, by have := h.doneLt; omega, by have := h.lastLt; omega, fun p hp => by have := h.tagLt p hp; omega⟩

theorem WM.tryAdvance_props (c : MvccCfg) (w : WM) :
    (WM.tryAdvance c w).pending = w.pending ∧ (WM.tryAdvance c w).lastIndex = w.lastIndex ∧
    w.doneUntil ≤ (WM.tryAdvance c w).doneUntil ∧
    (WM.tryAdvance c w).doneUntil ≤ max w.doneUntil w.lastIndex ∧
    (c.wmHoldsAtDone = true → (∀ p ∈ w.pending, w.doneUntil ≤ p.1) →
      ∀ p ∈ w.pending, (WM.tryAdvance c w).doneUntil ≤ p.1) :=
  WM.advance_props c _ w

theorem WMOk_begin (c : MvccCfg) (hz : c.wmTracksZero = true) (hh : c.wmHoldsAtDone = true)
    (w : WM) (n g : Nat) (h : WMOk w n g) (hn : 1 ≤ n) :
    WMOk (w.begin c (n - 1) g) n (g + 1) ∧ (n - 1, g) ∈ (w.begin c (n - 1) g).pending ∧
    (∀ p ∈ w.pending, p ∈ (w.begin c (n - 1) g).pending) ∧ w.doneUntil ≤ (w.begin c (n - 1) g).doneUntil := by
  unfold WM.begin
  simp only [hz, Bool.true_eq_false, and_false, if_false]
  have hmax : max w.lastIndex (n - 1) = n - 1 := by have := h.lastLt; omega
  rw [hmax]
  obtain ⟨h1, h2, h3, h4, h5⟩ := WM.tryAdvance_props c
    { doneUntil := w.doneUntil, lastIndex := n - 1, pending := (n - 1, g) :: w.pending }
  simp only at h1 h2 h3 h4 h5
  have hd : w.doneUntil ≤ n - 1 := by have := h.doneLt; omega
  have hall : ∀ p ∈ (n - 1, g) :: w.pending, w.doneUntil ≤ p.1 := by
    intro p hp
    rcases List.mem_cons.mp hp with rfl | hp
    · exact hd
    · exact h.held p hp
  refine ⟨⟨?_, ?_, ?_, ?_⟩, ?_, ?_, h3⟩
  · rw [h1]; exact h5 hh hall
  · omega
  · rw [h2]; omega
  · rw [h1]
    intro p hp
    rcases List.mem_cons.mp hp with rfl | hp
    · simp
    · have := h.tagLt p hp; omega
  · rw [h1]; exact List.mem_cons_self
  · intro p hp; rw [h1]; exact List.mem_cons_of_mem _ hp

theorem WMOk_done (c : MvccCfg) (hz : c.wmTracksZero = true) (hh : c.wmHoldsAtDone = true)
    (w : WM) (n g i tag : Nat) (h : WMOk w n g) :
    WMOk (w.done c i tag) n g ∧ (∀ p ∈ w.pending, p ≠ (i, tag) → p ∈ (w.done c i tag).pending) ∧
    w.doneUntil ≤ (w.done c i tag).doneUntil := by
  unfold WM.done
  simp only [hz, Bool.true_eq_false, and_false, if_false]
  obtain ⟨h1, h2, h3, h4, h5⟩ := WM.tryAdvance_props c
    { w with pending := w.pending.filter (fun p => p ≠ (i, tag)) }
  simp only at h1 h2 h3 h4 h5
  have hall : ∀ p ∈ w.pending.filter (fun p => p ≠ (i, tag)), w.doneUntil ≤ p.1 :=
    fun p hp => h.held p (List.mem_filter.mp hp).1
  refine ⟨⟨?_, ?_, ?_, ?_⟩, ?_, h3⟩
  · rw [h1]; exact h5 hh hall
  · have := h.doneLt; have := h.lastLt; omega
  · rw [h2]; exact h.lastLt
  · rw [h1]; intro p hp; exact h.tagLt p (List.mem_filter.mp hp).1
  · intro p hp hne
    rw [h1]
    exact List.mem_filter.mpr ⟨hp, by simpa using hne⟩

-- ---------------------------------------------------------------- the invariant

/-- per-transaction bookkeeping: written keys are fingerprinted in `conflictKeys`, keys read
from the store are fingerprinted in `reads` -/
def TxnOk (fp : Key → Nat) (t : Txn) : Prop :=
  (∀ p ∈ t.writes, fp p.1 ∈ t.ckeys) ∧ (∀ k ∈ t.rkeys, fp k ∈ t.reads)

structure InvC (fp : Key → Nat) (s : St) : Prop where
  pos : 1 ≤ s.nextTs
  wm : WMOk s.rm s.nextTs s.nextTag
  notDone : ∀ id t, Live s id t → t.doneRead = false
  held : ∀ id t, Live s id t → (t.readTs, t.tag) ∈ s.rm.pending
  tagLt : ∀ id t, Live s id t → t.tag < s.nextTag
  tagUniq : ∀ id1 t1 id2 t2, Live s id1 t1 → Live s id2 t2 → t1.tag = t2.tag → id1 = id2
  cleanLe : s.lastCleanup ≤ s.rm.doneUntil
  hist : ∀ cm ∈ s.log, s.lastCleanup < cm.ts →
    ∃ fps, (cm.ts, fps) ∈ s.committed ∧ ∀ p ∈ cm.writes, fp p.1 ∈ fps
  txnOk : ∀ id t, Live s id t → TxnOk fp t

theorem InvC_init (fp : Key → Nat) (a b t : Nat) : InvC fp (init a b t) := by
  have hl : ∀ id t0, ¬ Live (init a b t) id t0 := by
    intro id t0 h; simp [Live, getTxn, init] at h
  refine ⟨by simp [init], ⟨?_, ?_, ?_, ?_⟩, ?_, ?_, ?_, ?_, ?_, ?_, ?_⟩
  · intro p hp; simp [init] at hp
  · simp [init]
  · simp [init]
  · intro p hp; simp [init] at hp
  · intro id t0 h; exact absurd h (hl id t0)
  · intro id t0 h; exact absurd h (hl id t0)
  · intro id t0 h; exact absurd h (hl id t0)
  · intro id1 t1 id2 t2 h; exact absurd h (hl id1 t1)
  · simp [init]
  · intro cm hcm; simp [init] at hcm
  · intro id t0 h; exact absurd h (hl id t0)

theorem mem_addFp (l : List Nat) (x y : Nat) : y ∈ addFp l x ↔ y = x ∨ y ∈ l := by
  unfold addFp
  by_cases h : l.contains x = true
  · simp only [h, if_true]
    constructor
    · intro hy; exact Or.inr hy
    · rintro (rfl | hy)
      · simpa using h
      · exact hy
  · simp only [h, if_false, List.mem_cons, Bool.false_eq_true]

theorem TxnOk_evolve {c : MvccCfg} (hg : c.trackGet = true) {fp : Key → Nat} {s : St} {t t' : Txn}
    (hev : Evolve c fp s t t') (h : TxnOk fp t) : TxnOk fp t' := by
  cases hev with
  | same => exact h
  | read k hu =>
    refine ⟨h.1, ?_⟩
    intro k' hk'
    simp only [hg, if_true]
    rcases List.mem_cons.mp hk' with rfl | hk'
    · simp
    · exact List.mem_append_left _ (h.2 k' hk')
  | write k v cnt sz =>
    refine ⟨?_, h.2⟩
    intro p hp
    simp only [setW] at hp
    rw [mem_addFp]
    rcases List.mem_cons.mp hp with rfl | hp
    · exact Or.inl rfl
    · exact Or.inr (h.1 p (List.mem_filter.mp hp).1)
  | scan tracked served h1 h2 =>
    refine ⟨h.1, ?_⟩
    intro k' hk'
    rcases List.mem_append.mp hk' with hk' | hk'
    · obtain ⟨it, hit, rfl⟩ := List.mem_map.mp hk'
      exact List.mem_append_right _ (List.mem_map.mpr ⟨it, hit, rfl⟩)
    · exact List.mem_append_left _ (h.2 k' hk')

theorem doneReadS_of_done (c : MvccCfg) (s : St) (t : Txn) (h : t.doneRead = true) : doneReadS c s t = s := by
  unfold doneReadS; simp [h]

theorem doneReadS_rm_of_not (c : MvccCfg) (s : St) (t : Txn) (h : t.doneRead = false) :
    (doneReadS c s t).rm = s.rm.done c t.readTs t.tag := by
  unfold doneReadS; simp [h]

/-- Preservation when the step does not touch the oracle history: `rm` stays consistent, every
old pending element of a still-live transaction survives, and the mark only moves forward. -/
theorem InvC_of_frame (c : MvccCfg) (hg : c.trackGet = true) (fp : Key → Nat) (s s' : St) (op : Op)
    (h : InvC fp s) (hs' : s' = (step c fp s op).1)
    (hts : s.nextTs ≤ s'.nextTs) (htag : s.nextTag ≤ s'.nextTag)
    (hwm : WMOk s'.rm s'.nextTs s'.nextTag)
    (hmono : s.rm.doneUntil ≤ s'.rm.doneUntil)
    (hkeep : ∀ id t t', Live s id t → Live s' id t' → Evolve c fp s t t' → (t.readTs, t.tag) ∈ s'.rm.pending)
    (hnew : ∀ id upd, op = .begin id upd → (s.nextTs - c.readTsOff, s.nextTag) ∈ s'.rm.pending ∧ s'.nextTag = s.nextTag + 1)
    (hclean : s'.lastCleanup ≤ s'.rm.doneUntil)
    (hhist : ∀ cm ∈ s'.log, s'.lastCleanup < cm.ts →
      ∃ fps, (cm.ts, fps) ∈ s'.committed ∧ ∀ p ∈ cm.writes, fp p.1 ∈ fps) :
    InvC fp s' := by
  have hlive : ∀ id t', Live s' id t' → _ := fun id t' hl => step_live c fp s op id t' (hs' ▸ hl)
  refine ⟨by have := h.pos; omega, hwm, ?_, ?_, ?_, ?_, hclean, hhist, ?_⟩
  · intro id t' hl
    rcases hlive id t' hl with ⟨t, hlt, hev⟩ | ⟨upd, _, rfl⟩
    · rw [hev.fixed.2.2.2.1]; exact h.notDone id t hlt
    · rfl
  · intro id t' hl
    rcases hlive id t' hl with ⟨t, hlt, hev⟩ | ⟨upd, hop, rfl⟩
    · rw [hev.fixed.1, hev.fixed.2.1]; exact hkeep id t t' hlt hl hev
    · exact (hnew id upd hop).1
  · intro id t' hl
    rcases hlive id t' hl with ⟨t, hlt, hev⟩ | ⟨upd, hop, rfl⟩
    · rw [hev.fixed.2.1]; have := h.tagLt id t hlt; omega
    · rw [(hnew id upd hop).2]; simp
  · intro id1 t1 id2 t2 hl1 hl2 heq
    rcases hlive id1 t1 hl1 with ⟨u1, hu1, hev1⟩ | ⟨upd1, hop1, rfl⟩
    · rcases hlive id2 t2 hl2 with ⟨u2, hu2, hev2⟩ | ⟨upd2, hop2, rfl⟩
      · apply h.tagUniq id1 u1 id2 u2 hu1 hu2
        rw [← hev1.fixed.2.1, ← hev2.fixed.2.1]; exact heq
      · have := h.tagLt id1 u1 hu1
        rw [hev1.fixed.2.1] at heq
        simp only at heq; omega
    · rcases hlive id2 t2 hl2 with ⟨u2, hu2, hev2⟩ | ⟨upd2, hop2, rfl⟩
      · have := h.tagLt id2 u2 hu2
        rw [hev2.fixed.2.1] at heq
        simp only at heq; omega
      · rw [hop1] at hop2
        cases hop2; rfl
  · intro id t' hl
    rcases hlive id t' hl with ⟨t, hlt, hev⟩ | ⟨upd, _, rfl⟩
    · exact TxnOk_evolve hg hev (h.txnOk id t hlt)
    · unfold TxnOk
      constructor
      · intro p hp; simp at hp
      · intro k hk; simp at hk

theorem le_nat (a b : Nat) : CmpOp.nat .le a b = true ↔ a ≤ b := by
  simp [CmpOp.nat, CmpOp.eval]; omega

theorem not_live_discardTxn (c : MvccCfg) (s : St) (id : Nat) (t t' : Txn) : ¬ Live (discardTxn c s id t) id t' := by
  rintro ⟨hg, hd⟩
  rw [getTxn_discardTxn] at hg
  simp only [if_true, Option.some.injEq] at hg
  subst hg
  simp at hd

/-- ops that leave the oracle and the watermark alone -/
theorem InvC_same (c : MvccCfg) (hg : c.trackGet = true) (fp : Key → Nat) (s s' : St) (op : Op)
    (h : InvC fp s) (hs' : s' = (step c fp s op).1) (hnb : ∀ id upd, op ≠ .begin id upd)
    (h1 : s'.rm = s.rm) (h2 : s'.nextTs = s.nextTs) (h3 : s'.nextTag = s.nextTag)
    (h4 : s'.lastCleanup = s.lastCleanup) (h5 : s'.committed = s.committed) (h6 : s'.log = s.log) : InvC fp s' := by
  apply InvC_of_frame c hg fp s s' op h hs'
  · omega
  · omega
  · rw [h1, h2, h3]; exact h.wm
  · rw [h1]; exact Nat.le_refl _
  · intro id t t' hl _ _; rw [h1]; exact h.held id t hl
  · intro id upd hop; exact absurd hop (hnb id upd)
  · rw [h4, h1]; exact h.cleanLe
  · rw [h4, h5, h6]; exact h.hist

/-- `Discard` of a live transaction (also: `Commit` without writes, `Commit` answered conflict) -/
theorem InvC_discard (c : MvccCfg) (hg : c.trackGet = true) (hz : c.wmTracksZero = true) (hh : c.wmHoldsAtDone = true)
    (fp : Key → Nat) (s : St) (op : Op) (id0 : Nat) (t0 : Txn)
    (h : InvC fp s) (hl0 : Live s id0 t0) (hs' : discardTxn c s id0 t0 = (step c fp s op).1)
    (hnb : ∀ id upd, op ≠ .begin id upd) : InvC fp (discardTxn c s id0 t0) := by
  have hrm : (discardTxn c s id0 t0).rm = s.rm.done c t0.readTs t0.tag := by
    rw [discardTxn_rm, doneReadS_rm_of_not c s t0 (h.notDone id0 t0 hl0)]
  obtain ⟨hw, hk, hm⟩ := WMOk_done c hz hh s.rm s.nextTs s.nextTag t0.readTs t0.tag h.wm
  apply InvC_of_frame c hg fp s (discardTxn c s id0 t0) op h hs'
  · simp
  · simp
  · rw [hrm]; simpa using hw
  · rw [hrm]; exact hm
  · intro id t t' hl hl' _
    rw [hrm]
    apply hk _ (h.held id t hl)
    intro heq
    have htag : t.tag = t0.tag := by
      have := congrArg Prod.snd heq; simpa using this
    have hid := h.tagUniq id t id0 t0 hl hl0 htag
    subst hid
    exact not_live_discardTxn c s id t0 t' hl'
  · intro id upd hop; exact absurd hop (hnb id upd)
  · rw [discardTxn_lastCleanup, hrm]; have := h.cleanLe; omega
  · rw [discardTxn_lastCleanup, discardTxn_committed, discardTxn_log]; exact h.hist

theorem cleanup_lastCleanup (c : MvccCfg) (s : St) : (cleanup c s).lastCleanup = s.rm.doneUntil := by
  simp only [cleanup]
  split
  · rename_i h; exact h.symm
  · rfl

theorem cleanup_committed_keeps (c : MvccCfg) (hpr : c.pruneOp = .le) (s : St) (x : Nat × List Nat)
    (hx : x ∈ s.committed) (hgt : s.rm.doneUntil < x.1) : x ∈ (cleanup c s).committed := by
  simp only [cleanup]
  split
  · exact hx
  · simp only [hpr]
    refine List.mem_filter.mpr ⟨hx, ?_⟩
    have : ¬ (CmpOp.nat .le x.1 s.rm.doneUntil = true) := by rw [le_nat]; omega
    simpa using this

theorem newCommitTs_hist (c : MvccCfg) (hrec : c.recordsCommit = true) (hpr : c.pruneOp = .le)
    (fp : Key → Nat) (s : St) (t : Txn)
    (hcl : s.lastCleanup ≤ (doneReadS c s t).rm.doneUntil)
    (hist : ∀ cm ∈ s.log, s.lastCleanup < cm.ts →
      ∃ fps, (cm.ts, fps) ∈ s.committed ∧ ∀ p ∈ cm.writes, fp p.1 ∈ fps) :
    (newCommitTs c s t).lastCleanup = (doneReadS c s t).rm.doneUntil ∧
    (s.nextTs, t.ckeys) ∈ (newCommitTs c s t).committed ∧
    (∀ cm ∈ s.log, (newCommitTs c s t).lastCleanup < cm.ts →
      ∃ fps, (cm.ts, fps) ∈ (newCommitTs c s t).committed ∧ ∀ p ∈ cm.writes, fp p.1 ∈ fps) := by
  have e1 : (newCommitTs c s t).lastCleanup = (doneReadS c s t).rm.doneUntil := by
    simp only [newCommitTs, hrec, if_true]
    exact cleanup_lastCleanup c _
  have e2 : (newCommitTs c s t).committed = (cleanup c (doneReadS c s t)).committed ++ [(s.nextTs, t.ckeys)] := by
    simp only [newCommitTs, hrec, if_true, cleanup_nextTs, doneReadS_nextTs]
  refine ⟨e1, ?_, ?_⟩
  · rw [e2]; simp
  · intro cm hcm hlt
    rw [e1] at hlt
    obtain ⟨fps, hmem, hfp⟩ := hist cm hcm (by omega)
    refine ⟨fps, ?_, hfp⟩
    rw [e2]
    apply List.mem_append_left
    apply cleanup_committed_keeps c hpr
    · rw [doneReadS_committed]; exact hmem
    · exact hlt

/-- `Commit` that got a timestamp: the request then failed (`toobig`, `blocked`) or was applied -/
theorem InvC_commit2 (c : MvccCfg) (hd : c.DetectGood) (hz : c.wmTracksZero = true) (hh : c.wmHoldsAtDone = true)
    (fp : Key → Nat) (s : St) (op : Op) (id0 : Nat) (t0 : Txn) (X : St)
    (h : InvC fp s) (hl0 : Live s id0 t0)
    (hs' : discardTxn c X id0 { t0 with doneRead := true } = (step c fp s op).1)
    (hnb : ∀ id upd, op ≠ .begin id upd)
    (x1 : X.rm = (doneReadS c s t0).rm) (x2 : X.nextTs = s.nextTs + 1) (x3 : X.nextTag = s.nextTag)
    (x4 : X.lastCleanup = (newCommitTs c s t0).lastCleanup) (x5 : X.committed = (newCommitTs c s t0).committed)
    (x6 : X.log = s.log ∨ X.log = commitOf t0 s.nextTs :: s.log) :
    InvC fp (discardTxn c X id0 { t0 with doneRead := true }) := by
  obtain ⟨_, hg, _, _, hrec, hpr, _, _⟩ := hd
  have hdr : (doneReadS c s t0).rm = s.rm.done c t0.readTs t0.tag :=
    doneReadS_rm_of_not c s t0 (h.notDone id0 t0 hl0)
  have hrm : (discardTxn c X id0 { t0 with doneRead := true }).rm = s.rm.done c t0.readTs t0.tag := by
    rw [discardTxn_rm, doneReadS_of_done c X _ rfl, x1, hdr]
  obtain ⟨hw, hk, hm⟩ := WMOk_done c hz hh s.rm s.nextTs s.nextTag t0.readTs t0.tag h.wm
  obtain ⟨n1, n2, n3⟩ := newCommitTs_hist c hrec hpr fp s t0 (by rw [hdr]; have := h.cleanLe; omega) h.hist
  apply InvC_of_frame c hg fp s _ op h hs'
  · simp [x2]
  · simp [x3]
  · rw [hrm]; simp only [discardTxn_nextTs, discardTxn_nextTag, x2, x3]
    exact hw.mono (by omega) (Nat.le_refl _)
  · rw [hrm]; exact hm
  · intro id t t' hl hl' _
    rw [hrm]
    apply hk _ (h.held id t hl)
    intro heq
    have htag : t.tag = t0.tag := by
      have := congrArg Prod.snd heq; simpa using this
    have hid := h.tagUniq id t id0 t0 hl hl0 htag
    subst hid
    exact not_live_discardTxn c X id _ t' hl'
  · intro id upd hop; exact absurd hop (hnb id upd)
  · rw [discardTxn_lastCleanup, hrm, x4, n1, hdr]; exact Nat.le_refl _
  · rw [discardTxn_lastCleanup, discardTxn_committed, discardTxn_log, x4, x5]
    intro cm hcm hlt
    rcases x6 with x6 | x6
    · rw [x6] at hcm; exact n3 cm hcm hlt
    · rw [x6] at hcm
      rcases List.mem_cons.mp hcm with rfl | hcm
      · exact ⟨t0.ckeys, n2, (h.txnOk id0 t0 hl0).1⟩
      · exact n3 cm hcm hlt

theorem InvC_commitAny (c : MvccCfg) (hd : c.DetectGood) (hz : c.wmTracksZero = true) (hh : c.wmHoldsAtDone = true)
    (fp : Key → Nat) (s : St) (op : Op) (id : Nat) (io : Bool) (h : InvC fp s)
    (hop : (step c fp s op).1 = (match getTxn s id with
      | none => s
      | some t => (commitTxn c s id t io).1))
    (hsame : getTxn s id = none → (step c fp s op).1 = s)
    (hnb : ∀ id upd, op ≠ .begin id upd) : InvC fp (step c fp s op).1 := by
  have hg : c.trackGet = true := hd.2.1
  cases hgt : getTxn s id with
  | none =>
    apply InvC_same c hg fp s _ op h rfl hnb <;> rw [hsame hgt]
  | some t0 =>
    rw [hgt] at hop
    simp only at hop
    by_cases hdd : t0.discarded = true
    · have e : (step c fp s op).1 = s := by rw [hop]; simp [commitTxn, hdd]
      apply InvC_same c hg fp s _ op h rfl hnb <;> rw [e]
    · have hdd' : t0.discarded = false := by simpa using hdd
      have hl0 : Live s id t0 := ⟨hgt, hdd'⟩
      by_cases hw : t0.writes = []
      · have e : (step c fp s op).1 = discardTxn c s id t0 := by
          rw [hop]; simp [commitTxn, hdd, hw]
        rw [e]
        exact InvC_discard c hg hz hh fp s op id t0 h hl0 e.symm hnb
      · rcases commitTxn_cases c s id t0 io hdd' hw with ⟨_, hs1, _⟩ | ⟨_, hs1⟩ | ⟨_, _, _, hs1⟩
        · rw [hop, hs1]
          exact InvC_discard c hg hz hh fp s op id t0 h hl0 (by rw [hop, hs1]) hnb
        · rw [hop, hs1]
          exact InvC_commit2 c hd hz hh fp s op id t0 _ h hl0 (by rw [hop, hs1])
            hnb (by simp) (by simp) (by simp) rfl rfl (Or.inl (by simp))
        · rw [hop, hs1]
          exact InvC_commit2 c hd hz hh fp s op id t0 _ h hl0 (by rw [hop, hs1])
            hnb (by simp) (by simp) (by simp) rfl rfl (Or.inr (by simp))

theorem InvC_step (c : MvccCfg) (hc : c.ConfGood) (fp : Key → Nat) (s : St) (op : Op) (hA : InvA s) (h : InvC fp s) :
    InvC fp (step c fp s op).1 := by
  obtain ⟨hd, hz, hh⟩ := hc
  have hg : c.trackGet = true := hd.2.1
  have hoff : c.readTsOff = 1 := hd.1
  cases op with
  | commitIO id =>
    apply InvC_commitAny c hd hz hh fp s (.commitIO id) id true h
    · simp only [step]; cases getTxn s id <;> rfl
    · intro hn; simp [step, hn]
    · intro _ _ hh; cases hh
  | scan id =>
    apply InvC_same c hg fp s _ (.scan id) h rfl (by intro _ _ hh; cases hh)
    all_goals
      simp only [step]
      split
      · rfl
      · split
        · rfl
        · split
          · rfl
          · rfl
  | reopen =>
    have hl : ∀ id t0, ¬ Live (step c fp s .reopen).1 id t0 := by
      intro id t0 hl; simp [Live, step, reopenDB, getTxn] at hl
    have hseed : c.SeedGood := hd.2.2.2.2.2.2.2
    have hn : (step c fp s .reopen).1.nextTs = maxTs s.store + 1 := reopen_nextTs c hseed s
    refine ⟨by rw [hn]; omega, ⟨?_, ?_, ?_, ?_⟩, ?_, ?_, ?_, ?_, ?_, ?_, ?_⟩
    · intro p hp; simp [step, reopenDB] at hp
    · rw [hn]; simp [step, reopenDB]
    · rw [hn]; simp [step, reopenDB]
    · intro p hp; simp [step, reopenDB] at hp
    · intro id t0 hl0; exact absurd hl0 (hl id t0)
    · intro id t0 hl0; exact absurd hl0 (hl id t0)
    · intro id t0 hl0; exact absurd hl0 (hl id t0)
    · intro id1 t1 id2 t2 hl0; exact absurd hl0 (hl id1 t1)
    · simp [step, reopenDB]
    · intro cm hcm hlt
      have e2 : (step c fp s .reopen).1.log = s.log := rfl
      have e3 : (step c fp s .reopen).1.lastCleanup = maxTs s.store := rfl
      rw [e2] at hcm
      rw [e3] at hlt
      have := hA.logLe cm hcm
      omega
    · intro id t0 hl0; exact absurd hl0 (hl id t0)
  | begin id upd =>
    obtain ⟨b1, b2, b3, b4⟩ := WMOk_begin c hz hh s.rm s.nextTs s.nextTag h.wm h.pos
    apply InvC_of_frame c hg fp s _ (.begin id upd) h rfl
    · simp [step, beginTxn]
    · simp [step, beginTxn]
    · simp only [step, beginTxn, putTxn_rm, putTxn_nextTs, putTxn_nextTag, hoff]; exact b1
    · simp only [step, beginTxn, putTxn_rm, hoff]; exact b4
    · intro id' t t' hl _ _
      simp only [step, beginTxn, putTxn_rm, hoff]
      exact b3 _ (h.held id' t hl)
    · intro id' upd' _
      simp only [step, beginTxn, putTxn_rm, putTxn_nextTag, hoff]
      exact ⟨b2, trivial⟩
    · simp only [step, beginTxn, putTxn_rm, putTxn_lastCleanup, hoff]
      have := h.cleanLe; omega
    · simp only [step, beginTxn, putTxn_lastCleanup, putTxn_committed, putTxn_log]; exact h.hist
  | get id k =>
    apply InvC_same c hg fp s _ (.get id k) h rfl (by intro _ _ hh; cases hh)
    all_goals
      simp only [step]
      split
      · rfl
      · split
        · rfl
        · simp only [getTxnKey]; split <;> rfl
  | set id k v =>
    apply InvC_same c hg fp s _ (.set id k v) h rfl (by intro _ _ hh; cases hh)
    all_goals
      simp only [step]
      split
      · rfl
      · split
        · rfl
        · split
          · rfl
          · simp only [setTxnKey]; split <;> rfl
  | close =>
    apply InvC_same c hg fp s _ .close h rfl (by intro _ _ hh; cases hh) <;> rfl
  | discard id =>
    cases hgt : getTxn s id with
    | none =>
      apply InvC_same c hg fp s _ (.discard id) h rfl (by intro _ _ hh; cases hh) <;> simp [step, hgt]
    | some t0 =>
      by_cases hdd : t0.discarded = true
      · apply InvC_same c hg fp s _ (.discard id) h rfl (by intro _ _ hh; cases hh) <;> simp [step, hgt, hdd]
      · have hl0 : Live s id t0 := ⟨hgt, by simpa using hdd⟩
        have e : (step c fp s (.discard id)).1 = discardTxn c s id t0 := by simp [step, hgt, hdd]
        rw [e]
        exact InvC_discard c hg hz hh fp s (.discard id) id t0 h hl0 e.symm (by intro _ _ hh; cases hh)
  | commit id =>
    apply InvC_commitAny c hd hz hh fp s (.commit id) id false h
    · simp only [step]; cases getTxn s id <;> rfl
    · intro hn; simp [step, hn]
    · intro _ _ hh; cases hh
  | versions k =>
    by_cases hcl : s.closed = true
    · apply InvC_same c hg fp s _ (.versions k) h rfl (by intro _ _ hh; cases hh) <;> simp [step, versionsOf, hcl]
    · obtain ⟨b1, b2, b3, b4⟩ := WMOk_begin c hz hh s.rm s.nextTs s.nextTag h.wm h.pos
      obtain ⟨d1, d2, d3⟩ := WMOk_done c hz hh _ s.nextTs (s.nextTag + 1) (s.nextTs - 1) s.nextTag b1
      have e : (step c fp s (.versions k)).1.rm = ((s.rm.begin c (s.nextTs - 1) s.nextTag).done c (s.nextTs - 1) s.nextTag) := by
        simp [step, versionsOf, hcl, hoff]
      apply InvC_of_frame c hg fp s _ (.versions k) h rfl
      · simp [step, versionsOf, hcl]
      · simp [step, versionsOf, hcl]
      · rw [e]
        have e2 : (step c fp s (.versions k)).1.nextTs = s.nextTs := by simp [step, versionsOf, hcl]
        have e3 : (step c fp s (.versions k)).1.nextTag = s.nextTag + 1 := by simp [step, versionsOf, hcl]
        rw [e2, e3]; exact d1
      · rw [e]; omega
      · intro id t t' hl _ _
        rw [e]
        apply d2 _ (b3 _ (h.held id t hl))
        intro heq
        have := h.tagLt id t hl
        have h2 := congrArg Prod.snd heq
        simp only at h2
        omega
      · intro id upd hop; cases hop
      · rw [e]
        have e4 : (step c fp s (.versions k)).1.lastCleanup = s.lastCleanup := by simp [step, versionsOf, hcl]
        rw [e4]; have := h.cleanLe; omega
      · have e4 : (step c fp s (.versions k)).1.lastCleanup = s.lastCleanup := by simp [step, versionsOf, hcl]
        have e5 : (step c fp s (.versions k)).1.committed = s.committed := by simp [step, versionsOf, hcl]
        have e6 : (step c fp s (.versions k)).1.log = s.log := by simp [step, versionsOf, hcl]
        rw [e4, e5, e6]; exact h.hist

theorem Reach_InvC {c : MvccCfg} (hc : c.ConfGood) {fp : Key → Nat} {s : St} (h : Reach c fp s) : InvC fp s :=
  Reach_ind (P := InvC fp) (InvC_init fp)
    (fun s op hr hs => InvC_step c hc fp s op (Reach_InvA hc.1.2.2.2.2.2.2.2 hr) hs) h

end NoKV.Mvcc

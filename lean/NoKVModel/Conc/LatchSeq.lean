/-
What Acquire locks and in which order (helper lemmas for C20_acquire_exactly_once).
-/
import NoKVModel.Conc.LatchOrder

namespace NoKV.Conc.Latch
open NoKV NoKV.Conc

/-- every collected index comes from a key that is not skipped -/
theorem collect_sound (c : LatchCfg) (n : Nat) (hash : Bytes → Nat) (ks : List Bytes) (acc : List Nat)
    (a : Nat) (ha : a ∈ collect c n hash ks acc) :
    a ∈ acc ∨ ∃ k ∈ ks, ¬ (c.skipsEmptyKeys = true ∧ k = []) ∧ hash k % n = a := by
  induction ks generalizing acc with
  | nil => exact Or.inl ha
  | cons k ks ih =>
    unfold collect at ha
    split at ha
    · rcases ih acc ha with h | ⟨k', hk', h1, h2⟩
      · exact Or.inl h
      · exact Or.inr ⟨k', by simp [hk'], h1, h2⟩
    · rename_i hns
      split at ha
      · rcases ih acc ha with h | ⟨k', hk', h1, h2⟩
        · exact Or.inl h
        · exact Or.inr ⟨k', by simp [hk'], h1, h2⟩
      · rcases ih _ ha with h | ⟨k', hk', h1, h2⟩
        · rcases List.mem_append.mp h with h | h
          · exact Or.inl h
          · simp at h; exact Or.inr ⟨k, by simp, hns, h.symm⟩
        · exact Or.inr ⟨k', by simp [hk'], h1, h2⟩

theorem indices_sound (c : LatchCfg) (n : Nat) (hash : Bytes → Nat) (keys : List Bytes) (a : Nat)
    (ha : a ∈ indices c n hash keys) :
    ∃ k ∈ keys, ¬ (c.skipsEmptyKeys = true ∧ k = []) ∧ hash k % n = a := by
  unfold indices at ha
  have : a ∈ collect c n hash keys [] := by
    split at ha
    · exact (mem_sortNat _ _).mp ha
    · exact ha
  rcases collect_sound c n hash keys [] a this with h | h
  · cases h
  · exact h

/-- the stripes locked so far, in locking order, followed by those still to lock, are exactly
`g.slots`; a holder has locked all of them -/
def SeqInv (s : St) : Prop :=
  ∀ tid t, s.thr tid = some t → (t.phase = .acquiring ∨ t.phase = .holding) →
    t.got.reverse ++ t.todo = t.slots ∧ (t.phase = .holding → t.todo = [])

theorem SeqInv.reachable (c : LatchCfg) (hash : Bytes → Nat) (s : St)
    (hr : Reachable (sys c hash) s) : SeqInv s := by
  refine Reachable.invariant (S := sys c hash) SeqInv ?_ ?_ s hr
  · rintro s ⟨n, _, rfl⟩ tid t ht; simp [initSt] at ht
  · intro s a s' hk hs
    have hs : Latch.step c hash s a = some s' := hs
    intro j u hu hph
    cases a with
    | spawn tid keys =>
      simp only [Latch.step] at hs
      split at hs
      · cases hs
        have hu' : upd s.thr tid (some (spawnThr keys (indices c s.n hash keys))) j = some u := hu
        by_cases hj : j = tid
        · subst hj; simp at hu'; subst hu'
          refine ⟨by simp [spawnThr], ?_⟩
          intro hh
          unfold spawnThr at hh ⊢
          simp only at hh ⊢
          split at hh
          · assumption
          · cases hh
        · rw [upd_other _ _ _ _ hj] at hu'; exact hk j u hu' hph
      · cases hs
    | run tid =>
      simp only [Latch.step] at hs
      cases ht : s.thr tid with
      | none => simp [ht] at hs
      | some t =>
        simp only [ht] at hs
        have hkt := hk tid t ht
        unfold stepThr at hs
        have key : ∀ (t' : Thr) (ow : Nat → Option Nat) (cr : Bool),
            s' = { s with owner := ow, crashed := cr, thr := upd s.thr tid (some t') } →
            ((t'.phase = .acquiring ∨ t'.phase = .holding) →
              t'.got.reverse ++ t'.todo = t'.slots ∧ (t'.phase = .holding → t'.todo = [])) →
            u.got.reverse ++ u.todo = u.slots ∧ (u.phase = .holding → u.todo = []) := by
          intro t' ow cr hs' hloc
          subst hs'
          have hu' : upd s.thr tid (some t') j = some u := hu
          by_cases hj : j = tid
          · subst hj; simp at hu'; subst hu'; exact hloc hph
          · rw [upd_other _ _ _ _ hj] at hu'; exact hk j u hu' hph
        cases hp : t.phase <;> simp only [hp] at hs
        · have h0 := hkt (Or.inl hp)
          cases htd : t.todo <;> simp only [htd] at hs
          · cases hs
            refine key _ s.owner s.crashed rfl (fun _ => ⟨?_, fun _ => rfl⟩)
            have := h0.1
            rw [htd] at this
            exact this
          · rename_i i rest
            split at hs
            · cases hs
            · cases hs
              refine key _ _ s.crashed rfl (fun _ => ⟨?_, ?_⟩)
              · have := h0.1
                rw [htd] at this
                simp only [List.reverse_cons, List.append_assoc, List.singleton_append]
                exact this
              · intro hh
                simp only at hh ⊢
                split at hh
                · assumption
                · cases hh
        · split at hs <;> cases hs
          · exact key _ s.owner s.crashed rfl (fun h => by simp at h)
          · exact key _ s.owner s.crashed rfl (fun h => by simp at h)
        · cases hg : t.got <;> simp only [hg] at hs <;> cases hs
          · exact key _ s.owner s.crashed rfl (fun h => by simp at h)
          · refine key _ _ s.crashed rfl (fun h => ?_)
            exfalso; simp only at h; split at h <;> simp at h
        · split at hs <;> cases hs
          · exact key _ s.owner s.crashed rfl (fun h => by simp at h)
          · exact key _ s.owner s.crashed rfl (fun h => by simp at h)
        · cases hr : t.rel <;> simp only [hr] at hs <;> cases hs
          · exact key _ s.owner s.crashed rfl (fun h => by simp at h)
          · refine key _ _ _ rfl (fun h => ?_)
            exfalso; simp only at h; split at h <;> simp at h
        · cases hs

end NoKV.Conc.Latch

/-
Ordered acquisition (helper lemmas for C20_no_deadlock): with `sort.Ints` + dedup every thread
locks its stripes in strictly increasing order.
-/
import NoKVModel.Conc.LatchLemmas

namespace NoKV.Conc.Latch
open NoKV NoKV.Conc

structure OrdT (n : Nat) (t : Thr) : Prop where
  acqTodo : t.phase = .acquiring → t.todo ≠ []
  todoStrict : t.todo.Pairwise (· < ·)
  gotLtTodo : ∀ a ∈ t.got, ∀ b ∈ t.todo, a < b
  todoLt : ∀ b ∈ t.todo, b < n

def Ord (s : St) : Prop := ∀ tid t, s.thr tid = some t → OrdT s.n t

theorem OrdT.mono {n : Nat} {t t' : Thr} (h : OrdT n t) (htd : t'.todo = t.todo)
    (hg : ∀ a ∈ t'.got, a ∈ t.got) (hp : t'.phase ≠ .acquiring) : OrdT n t' :=
  ⟨fun e => absurd e hp, htd ▸ h.todoStrict, fun a ha b hb => h.gotLtTodo a (hg a ha) b (htd ▸ hb),
   fun b hb => h.todoLt b (htd ▸ hb)⟩

theorem Ord.upd {s : St} (h : Ord s) (tid : Nat) (t' : Thr) (owner' : Nat → Option Nat) (cr : Bool)
    (ht' : OrdT s.n t') :
    Ord { s with owner := owner', crashed := cr, thr := upd s.thr tid (some t') } := by
  intro j u hu
  show OrdT s.n u
  by_cases hj : j = tid
  · subst hj
    have : NoKV.Conc.upd s.thr j (some t') j = some u := hu
    simp at this; exact this ▸ ht'
  · have : NoKV.Conc.upd s.thr tid (some t') j = some u := hu
    rw [upd_other _ _ _ _ hj] at this
    exact h j u this

theorem Ord.step_thr {c : LatchCfg} {s s' : St} {tid : Nat} {t : Thr}
    (h : Ord s) (ht : s.thr tid = some t) (hs : stepThr c s tid t = some s') : Ord s' := by
  have ho := h tid t ht
  unfold stepThr at hs
  cases hp : t.phase <;> simp only [hp] at hs
  · cases htd : t.todo with
    | nil => exact absurd htd (ho.acqTodo hp)
    | cons i rest =>
      simp only [htd] at hs
      cases hown : s.owner i with
      | some u => simp [hown] at hs
      | none =>
        simp only [hown] at hs; cases hs
        have hst := ho.todoStrict
        rw [htd] at hst
        obtain ⟨h1, h2⟩ := List.pairwise_cons.mp hst
        refine Ord.upd h tid _ _ _ ⟨?_, h2, ?_, ?_⟩
        · intro hph; simp only at hph ⊢
          intro hr; simp [hr] at hph
        · intro a ha b hb
          simp only at ha hb
          rcases List.mem_cons.mp ha with rfl | ha
          · exact h1 b hb
          · exact ho.gotLtTodo a ha b (by rw [htd]; simp [hb])
        · intro b hb; exact ho.todoLt b (by rw [htd]; simp only at hb; simp [hb])
  · split at hs <;> cases hs
    · exact Ord.upd h tid _ _ _ (ho.mono rfl (fun a ha => ha) (by simp))
    · exact Ord.upd h tid _ _ _ (ho.mono rfl (fun a ha => ha) (by simp))
  · cases hgot : t.got with
    | nil =>
      simp only [hgot] at hs; cases hs
      exact Ord.upd h tid _ _ _ (ho.mono rfl (fun a ha => by simp at ha) (by simp))
    | cons i rest =>
      simp only [hgot] at hs; cases hs
      refine Ord.upd h tid _ _ _ (ho.mono rfl (fun a ha => ?_) ?_)
      · simp only at ha; rw [hgot]; simp [ha]
      · simp only; split <;> simp
  · split at hs <;> cases hs
    · exact Ord.upd h tid _ _ _ (ho.mono rfl (fun a ha => ha) (by simp))
    · exact Ord.upd h tid _ _ _ (ho.mono rfl (fun a ha => ha) (by simp))
  · cases hrel : t.rel with
    | nil =>
      simp only [hrel] at hs; cases hs
      exact Ord.upd h tid _ _ _ (ho.mono rfl (fun a ha => ha) (by simp))
    | cons i rest =>
      simp only [hrel] at hs; cases hs
      refine Ord.upd h tid _ _ _ (ho.mono rfl (fun a ha => ha) ?_)
      simp only; split <;> simp
  · cases hs

theorem step_n {c : LatchCfg} (hash : Bytes → Nat) {s s' : St} {a : Act}
    (hs : Latch.step c hash s a = some s') : s'.n = s.n := by
  cases a with
  | spawn tid keys =>
    simp only [Latch.step] at hs
    split at hs <;> cases hs; rfl
  | run tid =>
    simp only [Latch.step] at hs
    cases ht : s.thr tid with
    | none => simp [ht] at hs
    | some t =>
      simp only [ht] at hs
      unfold stepThr at hs
      cases hp : t.phase <;> simp only [hp] at hs
      · cases htd : t.todo <;> simp only [htd] at hs
        · cases hs; rfl
        · split at hs
          · cases hs
          · cases hs; rfl
      · split at hs <;> cases hs <;> rfl
      · cases hg : t.got <;> simp only [hg] at hs <;> cases hs <;> rfl
      · split at hs <;> cases hs <;> rfl
      · cases hr : t.rel <;> simp only [hr] at hs <;> cases hs <;> rfl
      · cases hs

theorem Ord.step {c : LatchCfg} (h1 : c.sorted = true) (h2 : c.dedup = true) (hash : Bytes → Nat)
    {s s' : St} {a : Act} (hn : 0 < s.n) (h : Ord s) (hs : Latch.step c hash s a = some s') : Ord s' := by
  cases a with
  | spawn tid keys =>
    simp only [Latch.step] at hs
    split at hs
    · cases hs
      refine Ord.upd (owner' := s.owner) (cr := s.crashed) h tid _ ⟨?_, ?_, ?_, ?_⟩
      · intro hph; unfold spawnThr at hph ⊢; simp only at hph ⊢
        intro e; simp [e] at hph
      · exact indices_strict c h1 h2 s.n hash keys
      · intro a ha; simp [spawnThr] at ha
      · exact indices_lt c s.n hn hash keys
    · cases hs
  | run tid =>
    simp only [Latch.step] at hs
    cases ht : s.thr tid with
    | none => simp [ht] at hs
    | some t => simp only [ht] at hs; exact Ord.step_thr h ht hs

theorem Ord.reachable {c : LatchCfg} (hc : c.LockGood) (hash : Bytes → Nat) (s : St)
    (hr : Reachable (sys c hash) s) : Inv s ∧ Ord s := by
  refine Reachable.invariant (S := sys c hash) (fun s => Inv s ∧ Ord s) ?_ ?_ s hr
  · rintro s ⟨n, hn, rfl⟩
    exact ⟨Inv.init n hn, fun tid t ht => by simp [initSt] at ht⟩
  · rintro s a s' ⟨hi, ho⟩ hs
    exact ⟨Inv.step hc.2.2 hash hi hs, Ord.step hc.1 hc.2.1 hash hi.npos ho hs⟩

/-- every phase except "waiting for a stripe" and "finished" has an enabled step -/
theorem enabled_of_not_acquiring (c : LatchCfg) (s : St) (tid : Nat) (t : Thr)
    (h1 : t.phase ≠ .acquiring) (h2 : t.phase ≠ .done) : (stepThr c s tid t).isSome = true := by
  unfold stepThr
  cases hp : t.phase
  · exact absurd hp h1
  · simp only; split <;> rfl
  · simp only; cases t.got <;> rfl
  · simp only; split <;> rfl
  · simp only; cases t.rel <;> rfl
  · exact absurd hp h2

/-- the chain argument: a thread waiting for stripe `i` is either enabled or waits for a holder
that is enabled or itself waits for a strictly larger stripe; stripes are bounded by `n`. -/
theorem enabled_chain (c : LatchCfg) (s : St) (hi : Inv s) (ho : Ord s) :
    ∀ k tid t i rest, s.thr tid = some t → t.phase = .acquiring → t.todo = i :: rest → s.n - i ≤ k →
      ∃ tid' t', s.thr tid' = some t' ∧ (stepThr c s tid' t').isSome = true := by
  intro k
  induction k with
  | zero =>
    intro tid t i rest ht _ htd hk
    have := (ho tid t ht).todoLt i (by simp [htd])
    omega
  | succ k ih =>
    intro tid t i rest ht hp htd hk
    have hlt := (ho tid t ht).todoLt i (by simp [htd])
    cases hown : s.owner i with
    | none =>
      refine ⟨tid, t, ht, ?_⟩
      unfold stepThr
      simp [hp, htd, hown]
    | some u =>
      obtain ⟨tu, htu, higot⟩ := hi.ownThr i u hown
      by_cases hpu : tu.phase = .acquiring
      · cases htdu : tu.todo with
        | nil => exact absurd htdu ((ho u tu htu).acqTodo hpu)
        | cons j rest' =>
          have hij := (ho u tu htu).gotLtTodo i higot j (by simp [htdu])
          exact ih u tu j rest' htu hpu htdu (by omega)
      · by_cases hdu : tu.phase = .done
        · have := (hi.relEmpty u tu htu (Or.inr hdu)).1
          rw [this] at higot; cases higot
        · exact ⟨u, tu, htu, enabled_of_not_acquiring c s u tu hpu hdu⟩

end NoKV.Conc.Latch

namespace NoKV.Conc.Latch
open NoKV NoKV.Conc

/-- ghost link: until Release clears it, `g.slots` is what `Acquire` computed from the keys -/
def KeysInv (c : LatchCfg) (hash : Bytes → Nat) (s : St) : Prop :=
  ∀ tid t, s.thr tid = some t → (t.phase = .acquiring ∨ t.phase = .holding) →
    t.slots = indices c s.n hash t.keys

theorem KeysInv.reachable (c : LatchCfg) (hash : Bytes → Nat) (s : St)
    (hr : Reachable (sys c hash) s) : KeysInv c hash s := by
  refine Reachable.invariant (S := sys c hash) (KeysInv c hash) ?_ ?_ s hr
  · rintro s ⟨n, _, rfl⟩ tid t ht; simp [initSt] at ht
  · intro s a s' hk hs
    have hs : Latch.step c hash s a = some s' := hs
    have hn := step_n hash hs
    intro j u hu hph
    rw [hn]
    cases a with
    | spawn tid keys =>
      simp only [Latch.step] at hs
      split at hs
      · cases hs
        have hu' : upd s.thr tid (some (spawnThr keys (indices c s.n hash keys))) j = some u := hu
        by_cases hj : j = tid
        · subst hj; simp at hu'; subst hu'; rfl
        · rw [upd_other _ _ _ _ hj] at hu'; exact hk j u hu' hph
      · cases hs
    | run tid =>
      simp only [Latch.step] at hs
      cases ht : s.thr tid with
      | none => simp [ht] at hs
      | some t =>
        simp only [ht] at hs
        have hkt := hk tid t ht
        unfold stepThr at hs
        -- in every case the other threads are untouched and the stepping thread keeps keys/slots
        -- while it stays in acquiring/holding
        have key : ∀ (t' : Thr) (ow : Nat → Option Nat) (cr : Bool),
            s' = { s with owner := ow, crashed := cr, thr := upd s.thr tid (some t') } →
            ((t'.phase = .acquiring ∨ t'.phase = .holding) →
              (t.phase = .acquiring ∨ t.phase = .holding) ∧ t'.slots = t.slots ∧ t'.keys = t.keys) →
            u.slots = indices c s.n hash u.keys := by
          intro t' ow cr hs' hloc
          subst hs'
          have hu' : upd s.thr tid (some t') j = some u := hu
          by_cases hj : j = tid
          · subst hj; simp at hu'; subst hu'
            obtain ⟨a, b, d⟩ := hloc hph
            rw [b, d]; exact hkt a
          · rw [upd_other _ _ _ _ hj] at hu'; exact hk j u hu' hph
        cases hp : t.phase <;> simp only [hp] at hs
        · cases htd : t.todo <;> simp only [htd] at hs
          · cases hs
            exact key _ s.owner s.crashed rfl (fun _ => ⟨Or.inl hp, rfl, rfl⟩)
          · split at hs
            · cases hs
            · cases hs
              exact key _ _ s.crashed rfl (fun _ => ⟨Or.inl hp, rfl, rfl⟩)
        · split at hs <;> cases hs
          · exact key _ s.owner s.crashed rfl (fun h => by simp at h)
          · exact key _ s.owner s.crashed rfl (fun h => by simp at h)
        · cases hg : t.got <;> simp only [hg] at hs <;> cases hs
          · exact key _ s.owner s.crashed rfl (fun h => by simp at h)
          · refine key _ _ s.crashed rfl (fun h => ?_)
            exfalso; simp only at h; split at h <;> simp at h
        · split at hs <;> cases hs
          · exact key _ s.owner s.crashed rfl (fun h => by simp at h)
          · exact key _ s.owner s.crashed rfl (fun h => by simp at h)
        · cases hr : t.rel <;> simp only [hr] at hs <;> cases hs
          · exact key _ s.owner s.crashed rfl (fun h => by simp at h)
          · refine key _ _ _ rfl (fun h => ?_)
            exfalso; simp only at h; split at h <;> simp at h
        · cases hs

end NoKV.Conc.Latch

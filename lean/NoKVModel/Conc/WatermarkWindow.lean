/-
C32, sequential window model: utils/watermarker.go with its sliding window, for WHOLE calls
(no interleaving inside a call).

  window            base, len(slots), slots[offset]      (slot of index j = slots[j - base])
  ensureWindow(i)   window unchanged if base <= i < base+len, else rebuildWindowLocked(i)
  rebuildWindowLocked(index):
      newBase := doneUntil            (fact wm.rebuildBase = done; before d7ef6bd: doneUntil+1)
      if index < newBase { index = newBase }
      size := len(slots) (65536 if 0);  needed := index - newBase + 1;  for size < needed { size <<= 1 }
                                      (fact wm.growRule = slots: `needed` counts the slot of index itself)
      copy every non-zero slot of the old window with newBase <= idx < newBase+size
                                      (fact wm.copyRule = all: the whole old window is scanned)
  addIndex(i,δ)     [index 0 ignored unless wm.tracksZero]  win := ensureWindow(i);
                    if i - base < len { slot(i) += δ }  (unsigned: i < base is skipped);  tryAdvance()
  tryAdvance        loop: doneUntil >= lastIndex → return; next outside window → ensureWindow(next), again;
                    [wm.holdsAtDone: slot(doneUntil) > 0 → return]; slot(next) > 0 → return; doneUntil := next
  Begin / Done / BeginMany / DoneMany as in Conc/Watermark.lean

`ASt` is the same thing without a window: one count per index.  `Rel` relates the two;
Props/C32.lean proves that every sequence of whole calls keeps them related (good window rules).
-/
import NoKVModel.Conc.Watermark

namespace NoKV.Conc.WMW
open NoKV.Conc NoKV.Conc.WM

structure WinCfg where
  wm : WMCfg
  growCountsSlot : Bool     -- needed := index - newBase + 1
  copyAll : Bool            -- the copy loop scans the whole old window
  baseAtDone : Bool         -- newBase := doneUntil
  deriving DecidableEq, Repr

/-- a window configuration is used where only the WaterMark facts are needed -/
instance : Coe WinCfg WMCfg := ⟨WinCfg.wm⟩

def WinCfg.good : WinCfg := ⟨WMCfg.good, true, true, true⟩

def WinCfg.Good (c : WinCfg) : Prop :=
  c.growCountsSlot = true ∧ c.copyAll = true ∧ c.baseAtDone = true

instance WinCfg.decGood (c : WinCfg) : Decidable c.Good := by unfold WinCfg.Good; exact inferInstance

def defaultWindow : Nat := 65536

structure WSt where
  doneUntil : Nat
  lastIndex : Nat
  base : Nat
  size : Nat
  slot : Nat → Int          -- by absolute index; meaningful for base <= j < base+size

def initW : WSt := { doneUntil := 0, lastIndex := 0, base := 0, size := defaultWindow, slot := fun _ => 0 }

def inWin (w : WSt) (j : Nat) : Prop := w.base ≤ j ∧ j < w.base + w.size

instance inWin.dec (w : WSt) (j : Nat) : Decidable (inWin w j) := by unfold inWin; exact inferInstance

/-- the pending count of index j as the window sees it -/
def cntOf (w : WSt) (j : Nat) : Int := if inWin w j then w.slot j else 0

/-- `for uint64(size) < needed { size <<= 1 }` -/
def grow (size needed : Nat) : Nat → Nat
  | 0 => size
  | f + 1 => if size < needed then grow (size * 2) needed f else size

def rebuild (c : WinCfg) (w : WSt) (index : Nat) : WSt :=
  let newBase := if c.baseAtDone then w.doneUntil else w.doneUntil + 1
  let idx := if index < newBase then newBase else index
  let needed := idx - newBase + (if c.growCountsSlot then 1 else 0)
  let size' := grow (if w.size = 0 then defaultWindow else w.size) needed needed
  { w with base := newBase, size := size',
           slot := fun j =>
             if newBase ≤ j ∧ j < newBase + size' ∧ inWin w j ∧ (c.copyAll = true ∨ j ≤ w.lastIndex)
             then w.slot j else 0 }

def ensure (c : WinCfg) (w : WSt) (i : Nat) : WSt := if inWin w i then w else rebuild c w i

def addSlot (c : WinCfg) (w : WSt) (i : Nat) (δ : Int) : WSt :=
  let w1 := ensure c w i
  if inWin w1 i then { w1 with slot := upd w1.slot i (w1.slot i + δ) } else w1

def adv (c : WinCfg) : Nat → WSt → WSt
  | 0, w => w
  | f + 1, w =>
    if w.doneUntil ≥ w.lastIndex then w
    else
      let w1 := ensure c w (w.doneUntil + 1)
      if c.wm.holdsAtDone = true ∧ w1.base ≤ w1.doneUntil ∧ w1.slot w1.doneUntil > 0 then w1
      else if w1.slot (w1.doneUntil + 1) > 0 then w1
      else adv c f { w1 with doneUntil := w1.doneUntil + 1 }

def tryAdvance (c : WinCfg) (w : WSt) : WSt := adv c (w.lastIndex - w.doneUntil + 1) w

def addIndex (c : WinCfg) (w : WSt) (i : Nat) (up : Bool) : WSt :=
  if i = 0 ∧ c.wm.tracksZero = false then w
  else tryAdvance c (addSlot c w i (if up then 1 else -1))

def setLast (w : WSt) (i : Nat) : WSt := { w with lastIndex := if w.lastIndex < i then i else w.lastIndex }

/-- a whole call -/
inductive Call where
  | begin (i : Nat)
  | done (i : Nat)
  | beginMany (is : List Nat)
  | doneMany (is : List Nat)
  deriving DecidableEq, Repr

def call (c : WinCfg) (w : WSt) : Call → WSt
  | .begin i =>
    if c.wm.countsFirst then tryAdvance c (setLast (addIndex c w i true) i)
    else addIndex c (setLast w i) i true
  | .done i => addIndex c w i false
  | .beginMany is =>
    match is.getLast? with
    | none => w
    | some l =>
      if c.wm.countsFirst then tryAdvance c (setLast (is.foldl (fun w i => addIndex c w i true) w) l)
      else is.foldl (fun w i => addIndex c w i true) (setLast w l)
  | .doneMany is => is.foldl (fun w i => addIndex c w i false) w

def runW (c : WinCfg) (cs : List Call) : WSt := cs.foldl (call c) initW

/-! ### the same calls without a window -/

structure ASt where
  du : Nat
  li : Nat
  cnt : Nat → Int
  nBegin : Nat → Nat        -- ghost: number of +1 on the index
  nDone : Nat → Nat         -- ghost: number of -1

def initA : ASt := { du := 0, li := 0, cnt := fun _ => 0, nBegin := fun _ => 0, nDone := fun _ => 0 }

def aAdv (c : WMCfg) : Nat → ASt → ASt
  | 0, a => a
  | f + 1, a =>
    if a.du ≥ a.li then a
    else if c.holdsAtDone = true ∧ a.cnt a.du > 0 then a
    else if a.cnt (a.du + 1) > 0 then a
    else aAdv c f { a with du := a.du + 1 }

def aTry (c : WMCfg) (a : ASt) : ASt := aAdv c (a.li - a.du + 1) a

def aAddSlot (a : ASt) (i : Nat) (up : Bool) : ASt :=
  -- (the updated maps are bound before the `if`: a conditional of function type is compiled to a
  -- lambda, and the new value must not be recomputed inside it on every lookup)
  let nb := upd a.nBegin i (a.nBegin i + 1)
  let nd := upd a.nDone i (a.nDone i + 1)
  { a with cnt := upd a.cnt i (a.cnt i + (if up then 1 else -1)),
           nBegin := if up then nb else a.nBegin,
           nDone := if up then a.nDone else nd }

def aAddIndex (c : WMCfg) (a : ASt) (i : Nat) (up : Bool) : ASt :=
  if i = 0 ∧ c.tracksZero = false then a else aTry c (aAddSlot a i up)

def aSetLast (a : ASt) (i : Nat) : ASt := { a with li := if a.li < i then i else a.li }

def aCall (c : WMCfg) (a : ASt) : Call → ASt
  | .begin i =>
    if c.countsFirst then aTry c (aSetLast (aAddIndex c a i true) i)
    else aAddIndex c (aSetLast a i) i true
  | .done i => aAddIndex c a i false
  | .beginMany is =>
    match is.getLast? with
    | none => a
    | some l =>
      if c.countsFirst then aTry c (aSetLast (is.foldl (fun a i => aAddIndex c a i true) a) l)
      else is.foldl (fun a i => aAddIndex c a i true) (aSetLast a l)
  | .doneMany is => is.foldl (fun a i => aAddIndex c a i false) a

def runA (c : WMCfg) (cs : List Call) : ASt := cs.foldl (aCall c) initA

/-- the window state `w` represents the window-free state `a` -/
structure Rel (w : WSt) (a : ASt) : Prop where
  du : a.du = w.doneUntil
  li : a.li = w.lastIndex
  baseLe : w.base ≤ w.doneUntil
  sizePos : 0 < w.size
  cnt : ∀ j, w.doneUntil ≤ j → a.cnt j = cntOf w j

end NoKV.Conc.WMW

/-
Invariants of the PD allocator model (helper lemmas for Props/C27.lean).

`Base`  — holds for every configuration between restarts: ranges handed out or reserved are
          pairwise disjoint and lie at or below the counter.
`Cov`   — holds for the good configuration: the checkpoint never exceeds the counter, covers
          every replied value, and only the mutex holder is between its loads and its save.
-/
import NoKVModel.Conc.PDAlloc

namespace NoKV.Conc.PD
open NoKV.Conc

def live (t : Thr) : Prop := t.reserved = true ∧ t.pc ≠ .done

structure Base (c : AllocCfg) (s : St) : Prop where
  ctrLt : ∀ k, s.ctr k < MAXU
  startLt : ∀ k, s.start k < MAXU
  repLe : ∀ r ∈ s.replied, r.last ≤ s.ctr r.kind
  repDisj : s.replied.Pairwise Disj
  thrLe : ∀ tid t, s.thr tid = some t → t.reserved = true → t.last ≤ s.ctr t.kind
  thrRep : ∀ tid t, s.thr tid = some t → live t → ∀ r ∈ s.replied, Disj t.rng r
  thrThr : ∀ i j ti tj, i ≠ j → s.thr i = some ti → s.thr j = some tj → live ti → live tj →
    Disj ti.rng tj.rng
  link : ∀ tid t, s.thr tid = some t →
    (t.pc = .reply → t.reserved = true) ∧
    (c.persistAfterReserve = true → t.pc ≠ .reserve → t.reserved = true)
  nOk : ∀ tid t, s.thr tid = some t → 1 ≤ t.n

theorem next_ne_done (c : AllocCfg) (pc : PC) (h : pc ≠ .reply) (h2 : pc ≠ .done) : next c pc ≠ .done := by
  cases pc with
  | read k => cases k <;> simp [next]
  | reserve => simp only [next, persistEntry]; split <;> (try split) <;> simp
  | save => simp only [next, afterPersist]; split <;> (try split) <;> simp
  | unlock => simp only [next, afterPersist]; split <;> simp
  | lock => simp [next]
  | reply => exact absurd rfl h
  | done => exact absurd rfl h2

/-- Frame lemma: the stepping thread only changes its program counter / loaded values, the
counters and the reply log are untouched. -/
theorem Base.frame {c : AllocCfg} {s s' : St} {tid : Nat} {t t' : Thr} (hb : Base c s)
    (ht : s.thr tid = some t)
    (hthr : s'.thr = upd s.thr tid (some t'))
    (hctr : s'.ctr = s.ctr) (hrep : s'.replied = s.replied) (hstart : s'.start = s.start)
    (hn : t'.n = t.n) (hk : t'.kind = t.kind) (hf : t'.first = t.first) (hl : t'.last = t.last)
    (hr : t'.reserved = t.reserved)
    (hd : t'.pc ≠ .done) (hd0 : t.pc ≠ .done)
    (hlink : (t'.pc = .reply → t'.reserved = true) ∧
      (c.persistAfterReserve = true → t'.pc ≠ .reserve → t'.reserved = true)) :
    Base c s' := by
  have hrng : t'.rng = t.rng := by simp [Thr.rng, hk, hf, hl]
  have hlive : live t' ↔ live t := by simp [live, hr, hd, hd0]
  -- every thread of s' is either t' (at tid) or an unchanged thread of s
  have hget : ∀ j u, s'.thr j = some u → (j = tid ∧ u = t') ∨ (j ≠ tid ∧ s.thr j = some u) := by
    intro j u hu
    rw [hthr] at hu
    by_cases hj : j = tid
    · subst hj; simp at hu; exact Or.inl ⟨rfl, hu.symm⟩
    · rw [upd_other _ _ _ _ hj] at hu; exact Or.inr ⟨hj, hu⟩
  refine ⟨?_, ?_, ?_, ?_, ?_, ?_, ?_, ?_, ?_⟩
  · rw [hctr]; exact hb.ctrLt
  · rw [hstart]; exact hb.startLt
  · rw [hctr, hrep]; exact hb.repLe
  · rw [hrep]; exact hb.repDisj
  · intro j u hu hres
    rw [hctr]
    rcases hget j u hu with ⟨_, rfl⟩ | ⟨_, hu'⟩
    · rw [hk, hl]; exact hb.thrLe tid t ht (hr ▸ hres)
    · exact hb.thrLe j u hu' hres
  · intro j u hu hlv r hrm
    rw [hrep] at hrm
    rcases hget j u hu with ⟨_, rfl⟩ | ⟨_, hu'⟩
    · rw [hrng]; exact hb.thrRep tid t ht (hlive.mp hlv) r hrm
    · exact hb.thrRep j u hu' hlv r hrm
  · intro i j ti tj hij hi hj hli hlj
    rcases hget i ti hi with ⟨rfl, rfl⟩ | ⟨hi1, hi'⟩ <;> rcases hget j tj hj with ⟨rfl, rfl⟩ | ⟨hj1, hj'⟩
    · exact absurd rfl hij
    · rw [hrng]; exact hb.thrThr _ j t tj hij ht hj' (hlive.mp hli) hlj
    · rw [hrng]; exact hb.thrThr i _ ti t hij hi' ht hli (hlive.mp hlj)
    · exact hb.thrThr i j ti tj hij hi' hj' hli hlj
  · intro j u hu
    rcases hget j u hu with ⟨_, rfl⟩ | ⟨_, hu'⟩
    · exact hlink
    · exact hb.link j u hu'
  · intro j u hu
    rcases hget j u hu with ⟨_, rfl⟩ | ⟨_, hu'⟩
    · rw [hn]; exact hb.nOk tid t ht
    · exact hb.nOk j u hu'

theorem Base.spawn {c : AllocCfg} {s : St} (hb : Base c s) (tid : Nat) (k : Kind) (n : Nat)
    (hfree : s.thr tid = none) (hn : 1 ≤ n) :
    Base c { s with thr := upd s.thr tid (some { kind := k, n := n, pc := entry c }) } := by
  have hget : ∀ j u, upd s.thr tid (some ({ kind := k, n := n, pc := entry c } : Thr)) j = some u →
      (j = tid ∧ u = { kind := k, n := n, pc := entry c }) ∨ (j ≠ tid ∧ s.thr j = some u) := by
    intro j u hu
    by_cases hj : j = tid
    · subst hj; simp at hu; exact Or.inl ⟨rfl, hu.symm⟩
    · rw [upd_other _ _ _ _ hj] at hu; exact Or.inr ⟨hj, hu⟩
  refine ⟨hb.ctrLt, hb.startLt, hb.repLe, hb.repDisj, ?_, ?_, ?_, ?_, ?_⟩
  · intro j u hu hres
    rcases hget j u hu with ⟨_, rfl⟩ | ⟨_, hu'⟩
    · simp at hres
    · exact hb.thrLe j u hu' hres
  · intro j u hu hlv r hrm
    rcases hget j u hu with ⟨_, rfl⟩ | ⟨_, hu'⟩
    · simp [live] at hlv
    · exact hb.thrRep j u hu' hlv r hrm
  · intro i j ti tj hij hi hj hli hlj
    rcases hget i ti hi with ⟨_, rfl⟩ | ⟨_, hi'⟩
    · simp [live] at hli
    · rcases hget j tj hj with ⟨_, rfl⟩ | ⟨_, hj'⟩
      · simp [live] at hlj
      · exact hb.thrThr i j ti tj hij hi' hj' hli hlj
  · intro j u hu
    rcases hget j u hu with ⟨_, rfl⟩ | ⟨_, hu'⟩
    · simp only [entry, persistEntry]
      constructor
      · split <;> (try split) <;> simp
      · intro h; simp [h]
    · exact hb.link j u hu'
  · intro j u hu
    rcases hget j u hu with ⟨_, rfl⟩ | ⟨_, hu'⟩
    · exact hn
    · exact hb.nOk j u hu'

/-- without wrap-around `Reserve` hands out `ctr+1 … ctr+n` -/
theorem reserve_arith (x n : Nat) (hn1 : 1 ≤ n) (h : x + n < MAXU) :
    (x + n) % W = x + n ∧ ((x + n) % W + W - n + 1) % W = x + 1 := by
  unfold MAXU at h
  unfold W
  omega

theorem Base.reserve {c : AllocCfg} {s : St} {tid : Nat} {t : Thr} (hb : Base c s)
    (ht : s.thr tid = some t) (hlt : s.ctr t.kind + t.n < MAXU) (hpc : t.pc = .reserve) :
    Base c { s with ctr := upd s.ctr t.kind ((s.ctr t.kind + t.n) % W),
                    ovf := s.ovf || decide (MAXU ≤ s.ctr t.kind + t.n),
                    thr := upd s.thr tid (some { t with pc := next c .reserve, first := ((s.ctr t.kind + t.n) % W + W - t.n + 1) % W, last := (s.ctr t.kind + t.n) % W, reserved := true }) } := by
  have hn := hb.nOk tid t ht
  obtain ⟨e1, e2⟩ := reserve_arith (s.ctr t.kind) t.n hn hlt
  rw [e2, e1]
  have hmono : ∀ k, s.ctr k ≤ upd s.ctr t.kind (s.ctr t.kind + t.n) k := by
    intro k
    by_cases hk : k = t.kind
    · subst hk; simp
    · rw [upd_other _ _ _ _ hk]; exact Nat.le_refl _
  have hnd : next c .reserve ≠ .done := next_ne_done c .reserve (by simp) (by simp)
  generalize hT : ({ t with pc := next c .reserve, first := s.ctr t.kind + 1, last := s.ctr t.kind + t.n, reserved := true } : Thr) = t'
  have hTk : t'.kind = t.kind := by rw [← hT]
  have hTf : t'.first = s.ctr t.kind + 1 := by rw [← hT]
  have hTl : t'.last = s.ctr t.kind + t.n := by rw [← hT]
  have hTn : t'.n = t.n := by rw [← hT]
  have hTr : t'.reserved = true := by rw [← hT]
  have hget : ∀ j u, upd s.thr tid (some t') j = some u →
      (j = tid ∧ u = t') ∨ (j ≠ tid ∧ s.thr j = some u) := by
    intro j u hu
    by_cases hj : j = tid
    · subst hj; simp at hu; exact Or.inl ⟨rfl, hu.symm⟩
    · rw [upd_other _ _ _ _ hj] at hu; exact Or.inr ⟨hj, hu⟩
  -- anything at or below the old counter is disjoint from the fresh range
  have hfresh : ∀ r : Rng, r.kind = t.kind → r.last ≤ s.ctr t.kind → Disj t'.rng r := by
    intro r _ hle _
    right
    simp only [Thr.rng, hTf]
    omega
  refine ⟨?_, hb.startLt, ?_, hb.repDisj, ?_, ?_, ?_, ?_, ?_⟩
  · intro k
    show upd s.ctr t.kind (s.ctr t.kind + t.n) k < MAXU
    by_cases hk : k = t.kind
    · subst hk; simp; exact hlt
    · rw [upd_other _ _ _ _ hk]; exact hb.ctrLt k
  · intro r hr
    exact Nat.le_trans (hb.repLe r hr) (hmono r.kind)
  · intro j u hu hres
    show u.last ≤ upd s.ctr t.kind (s.ctr t.kind + t.n) u.kind
    rcases hget j u hu with ⟨_, rfl⟩ | ⟨_, hu'⟩
    · rw [hTk, hTl]; simp
    · exact Nat.le_trans (hb.thrLe j u hu' hres) (hmono u.kind)
  · intro j u hu hlv r hrm
    rcases hget j u hu with ⟨_, rfl⟩ | ⟨_, hu'⟩
    · by_cases hk : r.kind = t.kind
      · exact hfresh r hk (hk ▸ hb.repLe r hrm)
      · intro hk'; exact absurd (by simp [Thr.rng, hTk] at hk'; exact hk'.symm) hk
    · exact hb.thrRep j u hu' hlv r hrm
  · intro i j ti tj hij hi hj hli hlj
    have hsym : ∀ a b : Rng, Disj a b → Disj b a := by
      intro a b h hk; exact (h hk.symm).symm
    rcases hget i ti hi with ⟨rfl, rfl⟩ | ⟨hi1, hi'⟩ <;> rcases hget j tj hj with ⟨rfl, rfl⟩ | ⟨hj1, hj'⟩
    · exact absurd rfl hij
    · by_cases hk : tj.kind = t.kind
      · exact hfresh tj.rng hk (hk ▸ hb.thrLe j tj hj' hlj.1)
      · intro hk'; exact absurd (by simp [Thr.rng, hTk] at hk'; exact hk'.symm) hk
    · apply hsym
      by_cases hk : ti.kind = t.kind
      · exact hfresh ti.rng hk (hk ▸ hb.thrLe i ti hi' hli.1)
      · intro hk'; exact absurd (by simp [Thr.rng, hTk] at hk'; exact hk'.symm) hk
    · exact hb.thrThr i j ti tj hij hi' hj' hli hlj
  · intro j u hu
    rcases hget j u hu with ⟨_, rfl⟩ | ⟨_, hu'⟩
    · exact ⟨fun _ => hTr, fun _ _ => hTr⟩
    · exact hb.link j u hu'
  · intro j u hu
    rcases hget j u hu with ⟨_, rfl⟩ | ⟨_, hu'⟩
    · rw [hTn]; exact hn
    · exact hb.nOk j u hu'

theorem Base.reply {c : AllocCfg} {s : St} {tid : Nat} {t : Thr} (hb : Base c s)
    (ht : s.thr tid = some t) (hpc : t.pc = .reply) :
    Base c { s with replied := t.rng :: s.replied,
                    thr := upd s.thr tid (some { t with pc := .done }) } := by
  have hres : t.reserved = true := (hb.link tid t ht).1 hpc
  have hlv : live t := ⟨hres, by simp [hpc]⟩
  have hget : ∀ j u, upd s.thr tid (some ({ t with pc := .done } : Thr)) j = some u →
      (j = tid ∧ u = { t with pc := .done }) ∨ (j ≠ tid ∧ s.thr j = some u) := by
    intro j u hu
    by_cases hj : j = tid
    · subst hj; simp at hu; exact Or.inl ⟨rfl, hu.symm⟩
    · rw [upd_other _ _ _ _ hj] at hu; exact Or.inr ⟨hj, hu⟩
  refine ⟨hb.ctrLt, hb.startLt, ?_, ?_, ?_, ?_, ?_, ?_, ?_⟩
  · intro r hr
    rcases List.mem_cons.mp hr with rfl | hr
    · exact hb.thrLe tid t ht hres
    · exact hb.repLe r hr
  · exact List.pairwise_cons.mpr ⟨fun r hr => hb.thrRep tid t ht hlv r hr, hb.repDisj⟩
  · intro j u hu hr
    rcases hget j u hu with ⟨_, rfl⟩ | ⟨_, hu'⟩
    · exact hb.thrLe tid t ht hres
    · exact hb.thrLe j u hu' hr
  · intro j u hu hlu r hrm
    rcases hget j u hu with ⟨_, rfl⟩ | ⟨hj, hu'⟩
    · exact absurd rfl hlu.2
    · rcases List.mem_cons.mp hrm with rfl | hrm
      · exact hb.thrThr j tid u t hj hu' ht hlu hlv
      · exact hb.thrRep j u hu' hlu r hrm
  · intro i j ti tj hij hi hj hli hlj
    rcases hget i ti hi with ⟨_, rfl⟩ | ⟨_, hi'⟩
    · exact absurd rfl hli.2
    · rcases hget j tj hj with ⟨_, rfl⟩ | ⟨_, hj'⟩
      · exact absurd rfl hlj.2
      · exact hb.thrThr i j ti tj hij hi' hj' hli hlj
  · intro j u hu
    rcases hget j u hu with ⟨_, rfl⟩ | ⟨_, hu'⟩
    · exact ⟨fun h => by simp at h, fun _ _ => hres⟩
    · exact hb.link j u hu'
  · intro j u hu
    rcases hget j u hu with ⟨_, rfl⟩ | ⟨_, hu'⟩
    · exact hb.nOk tid t ht
    · exact hb.nOk j u hu'

/-- the request answers with an error: its thread is over, nothing is handed out, nothing else changes -/
theorem Base.drop {c : AllocCfg} {s : St} {tid : Nat} {t : Thr} (hb : Base c s)
    (ht : s.thr tid = some t) (hpc : t.pc = .reply) :
    Base c { s with thr := upd s.thr tid (some { t with pc := .done }) } := by
  have hres : t.reserved = true := (hb.link tid t ht).1 hpc
  have hget : ∀ j u, upd s.thr tid (some ({ t with pc := .done } : Thr)) j = some u →
      (j = tid ∧ u = { t with pc := .done }) ∨ (j ≠ tid ∧ s.thr j = some u) := by
    intro j u hu
    by_cases hj : j = tid
    · subst hj; simp at hu; exact Or.inl ⟨rfl, hu.symm⟩
    · rw [upd_other _ _ _ _ hj] at hu; exact Or.inr ⟨hj, hu⟩
  refine ⟨hb.ctrLt, hb.startLt, hb.repLe, hb.repDisj, ?_, ?_, ?_, ?_, ?_⟩
  · intro j u hu hr
    rcases hget j u hu with ⟨_, rfl⟩ | ⟨_, hu'⟩
    · exact hb.thrLe tid t ht hres
    · exact hb.thrLe j u hu' hr
  · intro j u hu hlu r hrm
    rcases hget j u hu with ⟨_, rfl⟩ | ⟨_, hu'⟩
    · exact absurd rfl hlu.2
    · exact hb.thrRep j u hu' hlu r hrm
  · intro i j ti tj hij hi hj hli hlj
    rcases hget i ti hi with ⟨_, rfl⟩ | ⟨_, hi'⟩
    · exact absurd rfl hli.2
    · rcases hget j tj hj with ⟨_, rfl⟩ | ⟨_, hj'⟩
      · exact absurd rfl hlj.2
      · exact hb.thrThr i j ti tj hij hi' hj' hli hlj
  · intro j u hu
    rcases hget j u hu with ⟨_, rfl⟩ | ⟨_, hu'⟩
    · exact ⟨fun h => by simp at h, fun _ _ => hres⟩
    · exact hb.link j u hu'
  · intro j u hu
    rcases hget j u hu with ⟨_, rfl⟩ | ⟨_, hu'⟩
    · exact hb.nOk tid t ht
    · exact hb.nOk j u hu'

/-! ### the checkpoint invariant (good configuration) -/

def critical : PC → Bool
  | .read _ => true
  | .save => true
  | .unlock => true
  | _ => false

def hasRead : PC → Kind → Bool
  | .read .ts, .id => true
  | .save, _ => true
  | _, _ => false

def saved : PC → Bool
  | .unlock => true
  | .reply => true
  | _ => false

theorem hasRead_critical (pc : PC) (k : Kind) (h : hasRead pc k = true) : critical pc = true := by
  cases pc with
  | read k' => rfl
  | save => rfl
  | _ => simp [hasRead] at h

structure Cov (s : St) : Prop where
  ckLe : ∀ k, s.ck k ≤ s.ctr k
  repCk : ∀ r ∈ s.replied, r.last ≤ s.ck r.kind
  crit : ∀ tid t, s.thr tid = some t → (critical t.pc = true ↔ s.mu = some tid)
  muThr : ∀ tid, s.mu = some tid → s.thr tid ≠ none
  rdOk : ∀ tid t, s.thr tid = some t → ∀ k, hasRead t.pc k = true →
    s.ck k ≤ t.rd k ∧ t.rd k ≤ s.ctr k ∧ (t.kind = k → t.last ≤ t.rd k)
  savedOk : ∀ tid t, s.thr tid = some t → saved t.pc = true → t.failSave = false → t.last ≤ s.ck t.kind

/-- A step of thread `tid` that leaves the checkpoint and the reply log alone, does not lower a
counter, and keeps "who is in the critical section" consistent. -/
theorem Cov.trans {s s' : St} {tid : Nat} {t t' : Thr} (hc : Cov s)
    (ht : s.thr tid = some t)
    (hthr : s'.thr = upd s.thr tid (some t'))
    (hctr : ∀ k, s.ctr k ≤ s'.ctr k) (hck : s'.ck = s.ck) (hrep : s'.replied = s.replied)
    (hmu : ∀ j, j ≠ tid → (s'.mu = some j ↔ s.mu = some j))
    (hmu' : critical t'.pc = true ↔ s'.mu = some tid)
    (hrd : ∀ k, hasRead t'.pc k = true →
      s.ck k ≤ t'.rd k ∧ t'.rd k ≤ s'.ctr k ∧ (t'.kind = k → t'.last ≤ t'.rd k))
    (hsv : saved t'.pc = true → t'.failSave = false → t'.last ≤ s.ck t'.kind) :
    Cov s' := by
  have hget : ∀ j u, s'.thr j = some u → (j = tid ∧ u = t') ∨ (j ≠ tid ∧ s.thr j = some u) := by
    intro j u hu
    rw [hthr] at hu
    by_cases hj : j = tid
    · subst hj; simp at hu; exact Or.inl ⟨rfl, hu.symm⟩
    · rw [upd_other _ _ _ _ hj] at hu; exact Or.inr ⟨hj, hu⟩
  refine ⟨?_, ?_, ?_, ?_, ?_, ?_⟩
  · intro k; rw [hck]; exact Nat.le_trans (hc.ckLe k) (hctr k)
  · rw [hrep, hck]; exact hc.repCk
  · intro j u hu
    rcases hget j u hu with ⟨rfl, rfl⟩ | ⟨hj, hu'⟩
    · exact hmu'
    · rw [hmu j hj]; exact hc.crit j u hu'
  · intro j hj
    rw [hthr]
    by_cases hjt : j = tid
    · subst hjt; simp
    · rw [upd_other _ _ _ _ hjt]; exact hc.muThr j ((hmu j hjt).mp hj)
  · intro j u hu k hk
    rw [hck]
    rcases hget j u hu with ⟨rfl, rfl⟩ | ⟨hj, hu'⟩
    · exact hrd k hk
    · obtain ⟨a, b, d⟩ := hc.rdOk j u hu' k hk
      exact ⟨a, Nat.le_trans b (hctr k), d⟩
  · intro j u hu hs hf
    rw [hck]
    rcases hget j u hu with ⟨rfl, rfl⟩ | ⟨hj, hu'⟩
    · exact hsv hs hf
    · exact hc.savedOk j u hu' hs hf

/-- the save step: the mutex holder publishes the values it loaded -/
theorem Cov.save {s : St} {tid : Nat} {t : Thr} {pc' : PC} (hc : Cov s)
    (ht : s.thr tid = some t) (hpc : t.pc = .save) (hpc' : pc' = .unlock) (_hok : t.failSave = false) :
    Cov { s with ck := t.rd, thr := upd s.thr tid (some { t with pc := pc' }) } := by
  subst hpc'
  have hmu : s.mu = some tid := (hc.crit tid t ht).mp (by simp [hpc, critical])
  have hrd := hc.rdOk tid t ht
  have hrdk : ∀ k, s.ck k ≤ t.rd k ∧ t.rd k ≤ s.ctr k ∧ (t.kind = k → t.last ≤ t.rd k) :=
    fun k => hrd k (by simp [hpc, hasRead])
  have hget : ∀ j u, upd s.thr tid (some ({ t with pc := .unlock } : Thr)) j = some u →
      (j = tid ∧ u = { t with pc := .unlock }) ∨ (j ≠ tid ∧ s.thr j = some u) := by
    intro j u hu
    by_cases hj : j = tid
    · subst hj; simp at hu; exact Or.inl ⟨rfl, hu.symm⟩
    · rw [upd_other _ _ _ _ hj] at hu; exact Or.inr ⟨hj, hu⟩
  refine ⟨?_, ?_, ?_, ?_, ?_, ?_⟩
  · intro k; exact (hrdk k).2.1
  · intro r hr; exact Nat.le_trans (hc.repCk r hr) (hrdk r.kind).1
  · intro j u hu
    rcases hget j u hu with ⟨rfl, rfl⟩ | ⟨hj, hu'⟩
    · simp [critical, hmu]
    · exact hc.crit j u hu'
  · intro j hj
    show upd s.thr tid _ j ≠ none
    by_cases hjt : j = tid
    · subst hjt; simp
    · rw [upd_other _ _ _ _ hjt]; exact hc.muThr j hj
  · intro j u hu k hk
    rcases hget j u hu with ⟨rfl, rfl⟩ | ⟨hj, hu'⟩
    · simp [hasRead] at hk
    · -- another thread between its loads and its save would hold the mutex too
      have := (hc.crit j u hu').mp (hasRead_critical _ _ hk)
      rw [hmu] at this
      exact absurd (Option.some.inj this).symm hj
  · intro j u hu hs hf
    rcases hget j u hu with ⟨rfl, rfl⟩ | ⟨hj, hu'⟩
    · exact (hrdk t.kind).2.2 rfl
    · exact Nat.le_trans (hc.savedOk j u hu' hs hf) (hrdk u.kind).1

theorem Cov.reply {s : St} {tid : Nat} {t : Thr} (hc : Cov s)
    (ht : s.thr tid = some t) (hpc : t.pc = .reply) (hok : t.failSave = false) :
    Cov { s with replied := t.rng :: s.replied, thr := upd s.thr tid (some { t with pc := .done }) } := by
  have hnm : s.mu ≠ some tid := by
    intro h; have := (hc.crit tid t ht).mpr h; simp [hpc, critical] at this
  have hget : ∀ j u, upd s.thr tid (some ({ t with pc := .done } : Thr)) j = some u →
      (j = tid ∧ u = { t with pc := .done }) ∨ (j ≠ tid ∧ s.thr j = some u) := by
    intro j u hu
    by_cases hj : j = tid
    · subst hj; simp at hu; exact Or.inl ⟨rfl, hu.symm⟩
    · rw [upd_other _ _ _ _ hj] at hu; exact Or.inr ⟨hj, hu⟩
  refine ⟨hc.ckLe, ?_, ?_, ?_, ?_, ?_⟩
  · intro r hr
    rcases List.mem_cons.mp hr with rfl | hr
    · exact hc.savedOk tid t ht (by simp [hpc, saved]) hok
    · exact hc.repCk r hr
  · intro j u hu
    rcases hget j u hu with ⟨rfl, rfl⟩ | ⟨hj, hu'⟩
    · simp [critical]; exact hnm
    · exact hc.crit j u hu'
  · intro j hj
    show upd s.thr tid _ j ≠ none
    by_cases hjt : j = tid
    · subst hjt; simp
    · rw [upd_other _ _ _ _ hjt]; exact hc.muThr j hj
  · intro j u hu k hk
    rcases hget j u hu with ⟨rfl, rfl⟩ | ⟨hj, hu'⟩
    · simp [hasRead] at hk
    · exact hc.rdOk j u hu' k hk
  · intro j u hu hs hf
    rcases hget j u hu with ⟨rfl, rfl⟩ | ⟨hj, hu'⟩
    · simp [saved] at hs
    · exact hc.savedOk j u hu' hs hf

theorem Cov.spawn {s : St} (hc : Cov s) (tid : Nat) (k : Kind) (n : Nat) (hfree : s.thr tid = none) :
    Cov { s with thr := upd s.thr tid (some { kind := k, n := n, pc := .reserve }) } := by
  have hnm : s.mu ≠ some tid := fun h => hc.muThr tid h hfree
  have hget : ∀ j u, upd s.thr tid (some ({ kind := k, n := n, pc := .reserve } : Thr)) j = some u →
      (j = tid ∧ u = { kind := k, n := n, pc := .reserve }) ∨ (j ≠ tid ∧ s.thr j = some u) := by
    intro j u hu
    by_cases hj : j = tid
    · subst hj; simp at hu; exact Or.inl ⟨rfl, hu.symm⟩
    · rw [upd_other _ _ _ _ hj] at hu; exact Or.inr ⟨hj, hu⟩
  refine ⟨hc.ckLe, hc.repCk, ?_, ?_, ?_, ?_⟩
  · intro j u hu
    rcases hget j u hu with ⟨rfl, rfl⟩ | ⟨hj, hu'⟩
    · simp [critical]; exact hnm
    · exact hc.crit j u hu'
  · intro j hj
    show upd s.thr tid _ j ≠ none
    by_cases hjt : j = tid
    · subst hjt; simp
    · rw [upd_other _ _ _ _ hjt]; exact hc.muThr j hj
  · intro j u hu k' hk
    rcases hget j u hu with ⟨rfl, rfl⟩ | ⟨hj, hu'⟩
    · simp [hasRead] at hk
    · exact hc.rdOk j u hu' k' hk
  · intro j u hu hs hf
    rcases hget j u hu with ⟨rfl, rfl⟩ | ⟨hj, hu'⟩
    · simp [saved] at hs
    · exact hc.savedOk j u hu' hs hf

/-- `ResolveAllocatorStarts` + `NewAllocator`: the counter after a restart is at or above the
checkpoint and below MaxUint64. -/
theorem restart_ctr (c : AllocCfg) (hb : c.resolveBumps = true) (start ck : Nat)
    (hs : start < MAXU) (hk : ck < MAXU) :
    ck ≤ newCounter (resolve c start ck) ∧ newCounter (resolve c start ck) < MAXU := by
  unfold newCounter resolve
  simp only [hb, if_true, hk]
  unfold MAXU at *
  split <;> split <;> omega

end NoKV.Conc.PD

/-
E-Conc: generic small-step machinery (core Lean only).

A system is a state type `σ`, a set of initial states and a partial transition function
`step : σ → α → Option σ` over *actions* `α`.  An action is normally "thread `t` executes its
next atomic micro-step" (`.run t`), plus environment actions (spawn a request, crash/restart).
`step s a = none` means `a` is not enabled in `s` (the thread is blocked or finished).

`Reachable` quantifies over **all** schedules: every finite sequence of enabled actions, any
number of threads.  Invariants are proved by `Reachable.invariant` (induction on the derivation),
never by enumerating schedules.
-/
namespace NoKV.Conc

structure Sys (σ α : Type) where
  init : σ → Prop
  step : σ → α → Option σ

inductive Reachable {σ α : Type} (S : Sys σ α) : σ → Prop
  | init {s : σ} : S.init s → Reachable S s
  | step {s s' : σ} {a : α} : Reachable S s → S.step s a = some s' → Reachable S s'

/-- invariant-by-induction: `P` holds initially and every enabled step preserves it. -/
theorem Reachable.invariant {σ α : Type} {S : Sys σ α} (P : σ → Prop)
    (h0 : ∀ s, S.init s → P s)
    (hs : ∀ s a s', P s → S.step s a = some s' → P s') :
    ∀ s, Reachable S s → P s := by
  intro s hr
  induction hr with
  | init h => exact h0 _ h
  | step _ hst ih => exact hs _ _ _ ih hst

/-- Reachability through actions that all satisfy `ok` (e.g. "no restart"). -/
inductive ReachableVia {σ α : Type} (S : Sys σ α) (ok : α → Prop) : σ → Prop
  | init {s : σ} : S.init s → ReachableVia S ok s
  | step {s s' : σ} {a : α} : ReachableVia S ok s → ok a → S.step s a = some s' → ReachableVia S ok s'

theorem ReachableVia.invariant {σ α : Type} {S : Sys σ α} {ok : α → Prop} (P : σ → Prop)
    (h0 : ∀ s, S.init s → P s)
    (hs : ∀ s a s', P s → ok a → S.step s a = some s' → P s') :
    ∀ s, ReachableVia S ok s → P s := by
  intro s hr
  induction hr with
  | init h => exact h0 _ h
  | step _ hok hst ih => exact hs _ _ _ ih hok hst

theorem ReachableVia.reachable {σ α : Type} {S : Sys σ α} {ok : α → Prop} {s : σ}
    (h : ReachableVia S ok s) : Reachable S s := by
  induction h with
  | init h => exact .init h
  | step _ _ hst ih => exact .step ih hst

/-- Run a schedule from `s`; actions that are not enabled are skipped. -/
def run {σ α : Type} (S : Sys σ α) (s : σ) : List α → σ
  | [] => s
  | a :: as =>
    match S.step s a with
    | some s' => run S s' as
    | none => run S s as

theorem run_reachable {σ α : Type} (S : Sys σ α) (s : σ) (h : Reachable S s) (as : List α) :
    Reachable S (run S s as) := by
  induction as generalizing s with
  | nil => exact h
  | cons a as ih =>
    unfold run
    cases hst : S.step s a with
    | none => exact ih s h
    | some s' => exact ih s' (.step h hst)

/-- Run a schedule strictly: `none` as soon as an action is not enabled. -/
def runStrict {σ α : Type} (S : Sys σ α) (s : σ) : List α → Option σ
  | [] => some s
  | a :: as =>
    match S.step s a with
    | some s' => runStrict S s' as
    | none => none

theorem runStrict_reachable {σ α : Type} (S : Sys σ α) (s : σ) (h : Reachable S s) (as : List α)
    (s' : σ) (hr : runStrict S s as = some s') : Reachable S s' := by
  induction as generalizing s with
  | nil => simp [runStrict] at hr; exact hr ▸ h
  | cons a as ih =>
    unfold runStrict at hr
    cases hst : S.step s a with
    | none => simp [hst] at hr
    | some s1 => simp [hst] at hr; exact ih s1 (.step h hst) hr

/-- function update, used for thread tables `Nat → Option Thread` and counters.
`noinline`: in compiled code `upd f k v` must stay a partial application whose new value `v` is
computed once, when the map is built.  Inlined, the compiler turns a field `upd f k (f k + 1)` into
a lambda that recomputes `f k + 1` on every lookup — exponential in the number of updates. -/
@[noinline] def upd {κ β : Type} [DecidableEq κ] (f : κ → β) (k : κ) (v : β) : κ → β :=
  fun j => if j = k then v else f j

@[simp] theorem upd_same {κ β : Type} [DecidableEq κ] (f : κ → β) (k : κ) (v : β) : upd f k v k = v := by
  simp [upd]

@[simp] theorem upd_other {κ β : Type} [DecidableEq κ] (f : κ → β) (k j : κ) (v : β) (h : j ≠ k) :
    upd f k v j = f j := by
  simp [upd, h]

end NoKV.Conc

/-
C20 model: percolator/latch/latch.go — hashed stripe latches.

  Acquire(keys):  indices := []; for key: [skip empty]; idx := MemHash(key) % len(stripes);
                  [dedup]; append.  sort.Ints(indices).  for idx: stripes[idx].Lock()
  Release():      if g.manager == nil || len(g.slots) == 0 { return }
                  for i := len-1 … 0: stripes[slots[i]].Unlock();  g.manager = nil; g.slots = nil

One micro-step = one `sync.Mutex.Lock` (enabled only when the stripe is free) or one `Unlock`.
The hash is an arbitrary function `Bytes → Nat` (theorems quantify over it: any collisions).

Configuration (facts re-extracted from the source):
  sorted          `sort.Ints(indices)` precedes the lock loop
  dedup           an index already collected is not collected again
  skipsEmptyKeys  `if len(key) == 0 { continue }`
  releaseClears   Release ends with `g.manager = nil; g.slots = nil` (and starts with the nil/len guard)
-/
import NoKVModel.Base.Bytes
import NoKVModel.Conc.Sys

namespace NoKV.Conc.Latch
open NoKV NoKV.Conc

structure LatchCfg where
  sorted : Bool
  dedup : Bool
  skipsEmptyKeys : Bool
  releaseClears : Bool
  deriving DecidableEq, Repr

def LatchCfg.good : LatchCfg := ⟨true, true, false, true⟩

/-- everything the property needs, including that the empty key is latched like any other -/
def LatchCfg.Good (c : LatchCfg) : Prop :=
  c.sorted = true ∧ c.dedup = true ∧ c.skipsEmptyKeys = false ∧ c.releaseClears = true

/-- what mutual exclusion on the stripes and deadlock freedom need -/
def LatchCfg.LockGood (c : LatchCfg) : Prop :=
  c.sorted = true ∧ c.dedup = true ∧ c.releaseClears = true

instance LatchCfg.decGood (c : LatchCfg) : Decidable c.Good := by
  unfold LatchCfg.Good; exact inferInstance
instance LatchCfg.decLockGood (c : LatchCfg) : Decidable c.LockGood := by
  unfold LatchCfg.LockGood; exact inferInstance

/-- ordered insert (insertion sort = what `sort.Ints` computes) -/
def ins (x : Nat) : List Nat → List Nat
  | [] => [x]
  | y :: ys => if x ≤ y then x :: y :: ys else y :: ins x ys

def sortNat (l : List Nat) : List Nat := l.foldr ins []

/-- the collection loop of `Acquire` -/
def collect (c : LatchCfg) (n : Nat) (hash : Bytes → Nat) : List Bytes → List Nat → List Nat
  | [], acc => acc
  | k :: ks, acc =>
    if c.skipsEmptyKeys = true ∧ k = [] then collect c n hash ks acc
    else if c.dedup = true ∧ (hash k % n) ∈ acc then collect c n hash ks acc
    else collect c n hash ks (acc ++ [hash k % n])

/-- the stripes `Acquire(keys)` locks, in locking order -/
def indices (c : LatchCfg) (n : Nat) (hash : Bytes → Nat) (keys : List Bytes) : List Nat :=
  let raw := collect c n hash keys []
  if c.sorted then sortNat raw else raw

inductive Phase where
  | acquiring | holding | releasing | released | rereleasing | done
  deriving DecidableEq, Repr

structure Thr where
  keys : List Bytes := []   -- ghost: the key set passed to Acquire
  slots : List Nat          -- g.slots
  todo : List Nat           -- stripes still to lock
  got : List Nat            -- stripes locked, most recent first
  phase : Phase
  rel : List Nat := []      -- remaining unlocks of a second Release on an uncleared guard
  deriving DecidableEq, Repr

structure St where
  n : Nat
  owner : Nat → Option Nat
  thr : Nat → Option Thr
  crashed : Bool            -- "fatal error: sync: unlock of unlocked mutex"

inductive Act where
  | spawn (tid : Nat) (keys : List Bytes)
  | run (tid : Nat)

def stepThr (c : LatchCfg) (s : St) (tid : Nat) (t : Thr) : Option St :=
  match t.phase with
  | .acquiring =>
    match t.todo with
    | [] => some { s with thr := upd s.thr tid (some { t with phase := .holding }) }
    | i :: rest =>
      match s.owner i with
      | some _ => none                                   -- stripes[i].Lock() blocks
      | none =>
        some { s with owner := upd s.owner i (some tid),
                      thr := upd s.thr tid (some { t with todo := rest, got := i :: t.got, phase := if rest = [] then .holding else .acquiring }) }
  | .holding =>                                          -- Release() is called
    if t.got = [] then some { s with thr := upd s.thr tid (some { t with phase := .released }) }
    else some { s with thr := upd s.thr tid (some { t with phase := .releasing }) }
  | .releasing =>
    match t.got with
    | [] => some { s with thr := upd s.thr tid (some { t with phase := .released, slots := if c.releaseClears then [] else t.slots }) }
    | i :: rest =>
      some { s with owner := upd s.owner i none,
                    thr := upd s.thr tid (some { t with got := rest, phase := if rest = [] then .released else .releasing, slots := if rest = [] ∧ c.releaseClears = true then [] else t.slots }) }
  | .released =>                                         -- Release() is called a second time
    if t.slots = [] then some { s with thr := upd s.thr tid (some { t with phase := .done }) }
    else some { s with thr := upd s.thr tid (some { t with phase := .rereleasing, rel := t.slots.reverse }) }
  | .rereleasing =>
    match t.rel with
    | [] => some { s with thr := upd s.thr tid (some { t with phase := .done }) }
    | i :: rest =>
      some { s with owner := upd s.owner i none, crashed := s.crashed || (s.owner i).isNone,
                    thr := upd s.thr tid (some { t with rel := rest, phase := if rest = [] then .done else .rereleasing }) }
  | .done => none

def spawnThr (keys : List Bytes) (slots : List Nat) : Thr :=
  { keys := keys, slots := slots, todo := slots, got := [], phase := if slots = [] then .holding else .acquiring }

def step (c : LatchCfg) (hash : Bytes → Nat) (s : St) : Act → Option St
  | .spawn tid keys =>
    if s.thr tid = none then
      some { s with thr := upd s.thr tid (some (spawnThr keys (indices c s.n hash keys))) }
    else none
  | .run tid =>
    match s.thr tid with
    | some t => stepThr c s tid t
    | none => none

def initSt (n : Nat) : St := { n := n, owner := fun _ => none, thr := fun _ => none, crashed := false }

/-- `NewManager(size)`: any positive number of stripes -/
def sys (c : LatchCfg) (hash : Bytes → Nat) : Sys St Act :=
  { init := fun s => ∃ n, 0 < n ∧ s = initSt n, step := step c hash }

end NoKV.Conc.Latch

/-
Helper lemmas for Props/C20: the index computation of `Acquire` and the ownership invariant.
-/
import NoKVModel.Conc.Latch

namespace NoKV.Conc.Latch
open NoKV NoKV.Conc

/-! ### sort / dedup -/

theorem mem_ins (x y : Nat) (l : List Nat) : y ∈ ins x l ↔ y = x ∨ y ∈ l := by
  induction l with
  | nil => simp [ins]
  | cons z zs ih =>
    unfold ins
    split
    · simp
    · simp only [List.mem_cons, ih]
      constructor
      · rintro (h | h | h)
        · exact Or.inr (Or.inl h)
        · exact Or.inl h
        · exact Or.inr (Or.inr h)
      · rintro (h | h | h)
        · exact Or.inr (Or.inl h)
        · exact Or.inl h
        · exact Or.inr (Or.inr h)

theorem ins_strict (x : Nat) (l : List Nat) (h : l.Pairwise (· < ·)) (hx : x ∉ l) :
    (ins x l).Pairwise (· < ·) := by
  induction l with
  | nil => simp [ins]
  | cons z zs ih =>
    obtain ⟨h1, h2⟩ := List.pairwise_cons.mp h
    have hxz : x ≠ z := fun e => hx (by simp [e])
    have hxzs : x ∉ zs := fun e => hx (by simp [e])
    unfold ins
    split
    · rename_i hle
      refine List.pairwise_cons.mpr ⟨?_, h⟩
      intro a ha
      rcases List.mem_cons.mp ha with rfl | ha
      · omega
      · have := h1 a ha; omega
    · rename_i hle
      refine List.pairwise_cons.mpr ⟨?_, ih h2 hxzs⟩
      intro a ha
      rcases (mem_ins x a zs).mp ha with rfl | ha
      · omega
      · exact h1 a ha

theorem mem_sortNat (y : Nat) (l : List Nat) : y ∈ sortNat l ↔ y ∈ l := by
  induction l with
  | nil => simp [sortNat]
  | cons z zs ih =>
    show y ∈ ins z (sortNat zs) ↔ _
    rw [mem_ins, ih]; simp

theorem sortNat_strict (l : List Nat) (h : l.Nodup) : (sortNat l).Pairwise (· < ·) := by
  induction l with
  | nil => simp [sortNat]
  | cons z zs ih =>
    obtain ⟨h1, h2⟩ := List.nodup_cons.mp h
    show (ins z (sortNat zs)).Pairwise (· < ·)
    exact ins_strict z _ (ih h2) (fun hm => h1 ((mem_sortNat z zs).mp hm))

theorem collect_acc (c : LatchCfg) (n : Nat) (hash : Bytes → Nat) (ks : List Bytes) (acc : List Nat) :
    ∀ a ∈ acc, a ∈ collect c n hash ks acc := by
  induction ks generalizing acc with
  | nil => intro a ha; exact ha
  | cons k ks ih =>
    intro a ha
    unfold collect
    split
    · exact ih acc a ha
    · split
      · exact ih acc a ha
      · exact ih _ a (by simp [ha])

theorem collect_mem (c : LatchCfg) (n : Nat) (hash : Bytes → Nat) (ks : List Bytes) (acc : List Nat)
    (k : Bytes) (hk : k ∈ ks) (hne : ¬ (c.skipsEmptyKeys = true ∧ k = [])) :
    hash k % n ∈ collect c n hash ks acc := by
  induction ks generalizing acc with
  | nil => simp at hk
  | cons k' ks ih =>
    unfold collect
    rcases List.mem_cons.mp hk with rfl | hk
    · rw [if_neg hne]
      split
      · rename_i h; exact collect_acc c n hash ks acc _ h.2
      · exact collect_acc c n hash ks _ _ (by simp)
    · split
      · exact ih acc hk
      · split
        · exact ih acc hk
        · exact ih _ hk

theorem collect_nodup (c : LatchCfg) (hd : c.dedup = true) (n : Nat) (hash : Bytes → Nat)
    (ks : List Bytes) (acc : List Nat) (h : acc.Nodup) : (collect c n hash ks acc).Nodup := by
  induction ks generalizing acc with
  | nil => exact h
  | cons k ks ih =>
    unfold collect
    split
    · exact ih acc h
    · split
      · exact ih acc h
      · rename_i hnot
        apply ih
        have hni : hash k % n ∉ acc := fun hm => hnot ⟨hd, hm⟩
        rw [List.nodup_append]
        refine ⟨h, by simp, ?_⟩
        intro a ha b hb
        simp at hb
        subst hb
        intro e; subst e; exact hni ha

theorem collect_lt (c : LatchCfg) (n : Nat) (hn : 0 < n) (hash : Bytes → Nat) (ks : List Bytes)
    (acc : List Nat) (h : ∀ a ∈ acc, a < n) : ∀ a ∈ collect c n hash ks acc, a < n := by
  induction ks generalizing acc with
  | nil => exact h
  | cons k ks ih =>
    unfold collect
    split
    · exact ih acc h
    · split
      · exact ih acc h
      · apply ih
        intro a ha
        rcases List.mem_append.mp ha with ha | ha
        · exact h a ha
        · simp at ha; subst ha; exact Nat.mod_lt _ hn

theorem indices_mem (c : LatchCfg) (n : Nat) (hash : Bytes → Nat) (keys : List Bytes) (k : Bytes)
    (hk : k ∈ keys) (hne : ¬ (c.skipsEmptyKeys = true ∧ k = [])) :
    hash k % n ∈ indices c n hash keys := by
  unfold indices
  have := collect_mem c n hash keys [] k hk hne
  split
  · exact (mem_sortNat _ _).mpr this
  · exact this

theorem indices_lt (c : LatchCfg) (n : Nat) (hn : 0 < n) (hash : Bytes → Nat) (keys : List Bytes) :
    ∀ a ∈ indices c n hash keys, a < n := by
  unfold indices
  have := collect_lt c n hn hash keys [] (by simp)
  intro a ha
  split at ha
  · exact this a ((mem_sortNat _ _).mp ha)
  · exact this a ha

theorem indices_strict (c : LatchCfg) (hs : c.sorted = true) (hd : c.dedup = true) (n : Nat)
    (hash : Bytes → Nat) (keys : List Bytes) : (indices c n hash keys).Pairwise (· < ·) := by
  unfold indices
  simp only [hs, if_true]
  exact sortNat_strict _ (collect_nodup c hd n hash keys [] (by simp))

/-! ### ownership invariant (needs only `releaseClears`) -/

structure Inv (s : St) : Prop where
  npos : 0 < s.n
  notCrashed : s.crashed = false
  ownThr : ∀ i tid, s.owner i = some tid → ∃ t, s.thr tid = some t ∧ i ∈ t.got
  gotOwn : ∀ tid t, s.thr tid = some t → ∀ i ∈ t.got, s.owner i = some tid
  gotNodup : ∀ tid t, s.thr tid = some t → t.got.Nodup
  holdAll : ∀ tid t, s.thr tid = some t → t.phase = .holding → ∀ i ∈ t.slots, i ∈ t.got
  split : ∀ tid t, s.thr tid = some t → t.phase = .acquiring → ∀ i ∈ t.slots, i ∈ t.got ∨ i ∈ t.todo
  relEmpty : ∀ tid t, s.thr tid = some t → (t.phase = .released ∨ t.phase = .done) →
    t.got = [] ∧ t.slots = []
  noRerel : ∀ tid t, s.thr tid = some t → t.phase ≠ .rereleasing

/-- thread-local part of `Inv` for one thread record -/
structure Local (t : Thr) : Prop where
  holdAll : t.phase = .holding → ∀ i ∈ t.slots, i ∈ t.got
  split : t.phase = .acquiring → ∀ i ∈ t.slots, i ∈ t.got ∨ i ∈ t.todo
  relEmpty : (t.phase = .released ∨ t.phase = .done) → t.got = [] ∧ t.slots = []
  noRerel : t.phase ≠ .rereleasing

theorem Inv.localOf {s : St} (h : Inv s) {tid : Nat} {t : Thr} (ht : s.thr tid = some t) : Local t :=
  ⟨h.holdAll tid t ht, h.split tid t ht, h.relEmpty tid t ht, h.noRerel tid t ht⟩

private theorem getUpd {s : St} {tid : Nat} {t' : Thr} (j : Nat) (u : Thr)
    (hu : upd s.thr tid (some t') j = some u) : (j = tid ∧ u = t') ∨ (j ≠ tid ∧ s.thr j = some u) := by
  by_cases hj : j = tid
  · subst hj; simp at hu; exact Or.inl ⟨rfl, hu.symm⟩
  · rw [upd_other _ _ _ _ hj] at hu; exact Or.inr ⟨hj, hu⟩

/-- a step that does not touch any stripe -/
theorem Inv.keep {s : St} (h : Inv s) {tid : Nat} {t t' : Thr} (ht : s.thr tid = some t)
    (hg : t'.got = t.got) (hl : Local t') :
    Inv { s with thr := upd s.thr tid (some t') } := by
  refine ⟨h.npos, h.notCrashed, ?_, ?_, ?_, ?_, ?_, ?_, ?_⟩
  · intro i j hij
    obtain ⟨u, hu, hi⟩ := h.ownThr i j hij
    show ∃ t, upd s.thr tid (some t') j = some t ∧ _
    by_cases hj : j = tid
    · subst hj
      rw [ht] at hu; cases hu
      exact ⟨t', by simp, hg ▸ hi⟩
    · exact ⟨u, by rw [upd_other _ _ _ _ hj]; exact hu, hi⟩
  · intro j u hu i hi
    rcases getUpd j u hu with ⟨rfl, rfl⟩ | ⟨_, hu'⟩
    · exact h.gotOwn j t ht i (hg ▸ hi)
    · exact h.gotOwn j u hu' i hi
  · intro j u hu
    rcases getUpd j u hu with ⟨rfl, rfl⟩ | ⟨_, hu'⟩
    · rw [hg]; exact h.gotNodup j t ht
    · exact h.gotNodup j u hu'
  · intro j u hu
    rcases getUpd j u hu with ⟨rfl, rfl⟩ | ⟨_, hu'⟩
    · exact hl.holdAll
    · exact h.holdAll j u hu'
  · intro j u hu
    rcases getUpd j u hu with ⟨rfl, rfl⟩ | ⟨_, hu'⟩
    · exact hl.split
    · exact h.split j u hu'
  · intro j u hu
    rcases getUpd j u hu with ⟨rfl, rfl⟩ | ⟨_, hu'⟩
    · exact hl.relEmpty
    · exact h.relEmpty j u hu'
  · intro j u hu
    rcases getUpd j u hu with ⟨rfl, rfl⟩ | ⟨_, hu'⟩
    · exact hl.noRerel
    · exact h.noRerel j u hu'

/-- `stripes[i].Lock()` succeeds -/
theorem Inv.lock {s : St} (h : Inv s) {tid : Nat} {t t' : Thr} {i : Nat} (ht : s.thr tid = some t)
    (hfree : s.owner i = none) (hg : t'.got = i :: t.got) (hl : Local t') :
    Inv { s with owner := upd s.owner i (some tid), thr := upd s.thr tid (some t') } := by
  have hni : i ∉ t.got := fun hm => by
    have := h.gotOwn tid t ht i hm; rw [hfree] at this; cases this
  refine ⟨h.npos, h.notCrashed, ?_, ?_, ?_, ?_, ?_, ?_, ?_⟩
  · intro i' j hij
    show ∃ t, upd s.thr tid (some t') j = some t ∧ _
    by_cases hi' : i' = i
    · subst hi'
      have : j = tid := by
        have : upd s.owner i' (some tid) i' = some j := hij
        simp at this; exact this.symm
      subst this
      exact ⟨t', by simp, by simp [hg]⟩
    · have hij' : s.owner i' = some j := by
        have : upd s.owner i (some tid) i' = some j := hij
        rwa [upd_other _ _ _ _ hi'] at this
      obtain ⟨u, hu, hi⟩ := h.ownThr i' j hij'
      by_cases hj : j = tid
      · subst hj
        rw [ht] at hu; cases hu
        exact ⟨t', by simp, by simp [hg, hi]⟩
      · exact ⟨u, by rw [upd_other _ _ _ _ hj]; exact hu, hi⟩
  · intro j u hu i' hi'
    show upd s.owner i (some tid) i' = some j
    rcases getUpd j u hu with ⟨rfl, rfl⟩ | ⟨hj, hu'⟩
    · rw [hg] at hi'
      rcases List.mem_cons.mp hi' with rfl | hi'
      · simp
      · have hne : i' ≠ i := fun e => hni (e ▸ hi')
        rw [upd_other _ _ _ _ hne]; exact h.gotOwn j t ht i' hi'
    · have := h.gotOwn j u hu' i' hi'
      have hne : i' ≠ i := fun e => by rw [e, hfree] at this; cases this
      rw [upd_other _ _ _ _ hne]; exact this
  · intro j u hu
    rcases getUpd j u hu with ⟨rfl, rfl⟩ | ⟨_, hu'⟩
    · rw [hg]; exact List.nodup_cons.mpr ⟨hni, h.gotNodup j t ht⟩
    · exact h.gotNodup j u hu'
  · intro j u hu
    rcases getUpd j u hu with ⟨rfl, rfl⟩ | ⟨_, hu'⟩
    · exact hl.holdAll
    · exact h.holdAll j u hu'
  · intro j u hu
    rcases getUpd j u hu with ⟨rfl, rfl⟩ | ⟨_, hu'⟩
    · exact hl.split
    · exact h.split j u hu'
  · intro j u hu
    rcases getUpd j u hu with ⟨rfl, rfl⟩ | ⟨_, hu'⟩
    · exact hl.relEmpty
    · exact h.relEmpty j u hu'
  · intro j u hu
    rcases getUpd j u hu with ⟨rfl, rfl⟩ | ⟨_, hu'⟩
    · exact hl.noRerel
    · exact h.noRerel j u hu'

/-- `stripes[i].Unlock()` by the thread that locked it last -/
theorem Inv.unlock {s : St} (h : Inv s) {tid : Nat} {t t' : Thr} {i : Nat} {rest : List Nat}
    (ht : s.thr tid = some t) (hgot : t.got = i :: rest) (hg : t'.got = rest) (hl : Local t') :
    Inv { s with owner := upd s.owner i none, thr := upd s.thr tid (some t') } := by
  have hnd := h.gotNodup tid t ht
  rw [hgot] at hnd
  obtain ⟨hni, hndr⟩ := List.nodup_cons.mp hnd
  have hown : s.owner i = some tid := h.gotOwn tid t ht i (by simp [hgot])
  refine ⟨h.npos, h.notCrashed, ?_, ?_, ?_, ?_, ?_, ?_, ?_⟩
  · intro i' j hij
    show ∃ t, upd s.thr tid (some t') j = some t ∧ _
    by_cases hi' : i' = i
    · subst hi'
      have : upd s.owner i' none i' = some j := hij
      simp at this
    · have hij' : s.owner i' = some j := by
        have : upd s.owner i none i' = some j := hij
        rwa [upd_other _ _ _ _ hi'] at this
      obtain ⟨u, hu, hi⟩ := h.ownThr i' j hij'
      by_cases hj : j = tid
      · subst hj
        rw [ht] at hu; cases hu
        refine ⟨t', by simp, ?_⟩
        rw [hg]; rw [hgot] at hi
        rcases List.mem_cons.mp hi with e | hi
        · exact absurd e hi'
        · exact hi
      · exact ⟨u, by rw [upd_other _ _ _ _ hj]; exact hu, hi⟩
  · intro j u hu i' hi'
    show upd s.owner i none i' = some j
    rcases getUpd j u hu with ⟨rfl, rfl⟩ | ⟨hj, hu'⟩
    · rw [hg] at hi'
      have hne : i' ≠ i := fun e => hni (e ▸ hi')
      rw [upd_other _ _ _ _ hne]
      exact h.gotOwn j t ht i' (by rw [hgot]; simp [hi'])
    · have := h.gotOwn j u hu' i' hi'
      have hne : i' ≠ i := fun e => by
        rw [e, hown] at this; exact hj (Option.some.inj this).symm
      rw [upd_other _ _ _ _ hne]; exact this
  · intro j u hu
    rcases getUpd j u hu with ⟨rfl, rfl⟩ | ⟨_, hu'⟩
    · rw [hg]; exact hndr
    · exact h.gotNodup j u hu'
  · intro j u hu
    rcases getUpd j u hu with ⟨rfl, rfl⟩ | ⟨_, hu'⟩
    · exact hl.holdAll
    · exact h.holdAll j u hu'
  · intro j u hu
    rcases getUpd j u hu with ⟨rfl, rfl⟩ | ⟨_, hu'⟩
    · exact hl.split
    · exact h.split j u hu'
  · intro j u hu
    rcases getUpd j u hu with ⟨rfl, rfl⟩ | ⟨_, hu'⟩
    · exact hl.relEmpty
    · exact h.relEmpty j u hu'
  · intro j u hu
    rcases getUpd j u hu with ⟨rfl, rfl⟩ | ⟨_, hu'⟩
    · exact hl.noRerel
    · exact h.noRerel j u hu'

theorem Inv.spawn {s : St} (h : Inv s) (tid : Nat) (keys : List Bytes) (slots : List Nat) (hfree : s.thr tid = none) :
    Inv { s with thr := upd s.thr tid (some (spawnThr keys slots)) } := by
  have hl : Local (spawnThr keys slots) := by
    refine ⟨?_, ?_, ?_, ?_⟩
    · intro hp i hi
      unfold spawnThr at hp hi
      simp only at hp hi
      split at hp
      · rename_i h0; rw [h0] at hi; cases hi
      · cases hp
    · intro _ i hi; right; exact hi
    · unfold spawnThr; simp only; split <;> simp
    · unfold spawnThr; simp only; split <;> simp
  refine ⟨h.npos, h.notCrashed, ?_, ?_, ?_, ?_, ?_, ?_, ?_⟩
  · intro i j hij
    obtain ⟨u, hu, hi⟩ := h.ownThr i j hij
    have hj : j ≠ tid := fun e => by rw [e, hfree] at hu; cases hu
    exact ⟨u, by show upd s.thr tid _ j = some u; rw [upd_other _ _ _ _ hj]; exact hu, hi⟩
  · intro j u hu i hi
    rcases getUpd j u hu with ⟨rfl, rfl⟩ | ⟨_, hu'⟩
    · simp [spawnThr] at hi
    · exact h.gotOwn j u hu' i hi
  · intro j u hu
    rcases getUpd j u hu with ⟨rfl, rfl⟩ | ⟨_, hu'⟩
    · simp [spawnThr]
    · exact h.gotNodup j u hu'
  · intro j u hu
    rcases getUpd j u hu with ⟨rfl, rfl⟩ | ⟨_, hu'⟩
    · exact hl.holdAll
    · exact h.holdAll j u hu'
  · intro j u hu
    rcases getUpd j u hu with ⟨rfl, rfl⟩ | ⟨_, hu'⟩
    · exact hl.split
    · exact h.split j u hu'
  · intro j u hu
    rcases getUpd j u hu with ⟨rfl, rfl⟩ | ⟨_, hu'⟩
    · exact hl.relEmpty
    · exact h.relEmpty j u hu'
  · intro j u hu
    rcases getUpd j u hu with ⟨rfl, rfl⟩ | ⟨_, hu'⟩
    · exact hl.noRerel
    · exact h.noRerel j u hu'

theorem Inv.init (n : Nat) (hn : 0 < n) : Inv (initSt n) := by
  refine ⟨hn, rfl, ?_, ?_, ?_, ?_, ?_, ?_, ?_⟩ <;> (intros; simp_all [initSt])

/-- every thread step preserves the ownership invariant when Release clears the guard -/
theorem Inv.step_thr {c : LatchCfg} (hc : c.releaseClears = true) {s s' : St} {tid : Nat} {t : Thr}
    (h : Inv s) (ht : s.thr tid = some t) (hs : stepThr c s tid t = some s') : Inv s' := by
  have hl := h.localOf ht
  unfold stepThr at hs
  cases hp : t.phase <;> simp only [hp] at hs
  · -- acquiring
    cases htd : t.todo with
    | nil =>
      simp only [htd] at hs; cases hs
      refine Inv.keep h ht rfl ⟨?_, by simp, by simp, by simp⟩
      intro _ i hi
      rcases hl.split hp i hi with h1 | h1
      · exact h1
      · rw [htd] at h1; cases h1
    | cons i rest =>
      simp only [htd] at hs
      cases ho : s.owner i with
      | some u => simp [ho] at hs
      | none =>
        simp only [ho] at hs; cases hs
        refine Inv.lock h ht ho rfl ⟨?_, ?_, ?_, ?_⟩
        · intro hph j hj
          have hr : rest = [] := by
            by_cases hr : rest = []
            · exact hr
            · simp [hr] at hph
          rcases hl.split hp j hj with h1 | h1
          · simp [h1]
          · rw [htd, hr] at h1; simp at h1; simp [h1]
        · intro _ j hj
          rcases hl.split hp j hj with h1 | h1
          · left; simp [h1]
          · rw [htd] at h1
            rcases List.mem_cons.mp h1 with rfl | h1
            · left; simp
            · right; exact h1
        · intro hph; exfalso; simp only at hph; split at hph <;> simp at hph
        · simp only; split <;> simp
  · -- holding
    split at hs
    · rename_i hg0
      cases hs
      refine Inv.keep h ht rfl ⟨by simp, by simp, ?_, by simp⟩
      intro _
      refine ⟨hg0, ?_⟩
      have := hl.holdAll hp
      rw [hg0] at this
      cases hsl : t.slots with
      | nil => rfl
      | cons a as => have := this a (by simp [hsl]); cases this
    · cases hs
      exact Inv.keep h ht rfl ⟨by simp, by simp, by simp, by simp⟩
  · -- releasing
    cases hgot : t.got with
    | nil =>
      simp only [hgot] at hs; cases hs
      refine Inv.keep h ht hgot.symm ⟨by simp, by simp, ?_, by simp⟩
      intro _; exact ⟨rfl, by simp [hc]⟩
    | cons i rest =>
      simp only [hgot] at hs; cases hs
      refine Inv.unlock h ht hgot rfl ⟨?_, ?_, ?_, ?_⟩
      · intro hph; exfalso; simp only at hph; split at hph <;> simp at hph
      · intro hph; exfalso; simp only at hph; split at hph <;> simp at hph
      · intro hph
        have hr : rest = [] := by
          by_cases hr : rest = []
          · exact hr
          · simp [hr] at hph
        simp [hr, hc]
      · simp only; split <;> simp
  · -- released
    have := (hl.relEmpty (Or.inl hp)).2
    simp only [this, if_true] at hs
    cases hs
    exact Inv.keep h ht rfl ⟨by simp, by simp, fun _ => ⟨(hl.relEmpty (Or.inl hp)).1, rfl⟩, by simp⟩
  · -- rereleasing: unreachable
    exact absurd hp hl.noRerel
  · cases hs

theorem Inv.step {c : LatchCfg} (hc : c.releaseClears = true) (hash : Bytes → Nat) {s s' : St}
    {a : Act} (h : Inv s) (hs : Latch.step c hash s a = some s') : Inv s' := by
  cases a with
  | spawn tid keys =>
    simp only [Latch.step] at hs
    split at hs
    · rename_i hfree; cases hs; exact Inv.spawn h tid _ _ hfree
    · cases hs
  | run tid =>
    simp only [Latch.step] at hs
    cases ht : s.thr tid with
    | none => simp [ht] at hs
    | some t => simp only [ht] at hs; exact Inv.step_thr hc h ht hs

theorem Inv.reachable {c : LatchCfg} (hc : c.releaseClears = true) (hash : Bytes → Nat) (s : St)
    (hr : Reachable (sys c hash) s) : Inv s := by
  refine Reachable.invariant (S := sys c hash) Inv ?_ ?_ s hr
  · rintro s ⟨n, hn, rfl⟩; exact Inv.init n hn
  · intro s a s' hi hs; exact Inv.step hc hash hi hs

end NoKV.Conc.Latch

/-
C27 model: PD-lite TSO / ID allocation with checkpoint persistence.

Go code modelled (one micro-step = one atomic operation of the code):
  pd/server/service.go   AllocID / Tso:       Reserve  →  persistAllocatorState  →  reply
                         persistAllocatorState: [mu.Lock]  ids.Current()  tso.Current()
                                                storage.SaveAllocatorState(id, ts)  [mu.Unlock]
  pd/tso/allocator.go, pd/core/id_allocator.go  Reserve = one `atomic.Add(n)` (uint64, wraps)
  pd/storage/local.go    SaveAllocatorState = tmp file + rename under stateMu: one atomic step
  pd/storage/storage.go  ResolveAllocatorStarts + NewAllocator/NewIDAllocator at (re)start

Configuration (facts re-extracted from the source):
  persistSerialized   a mutex is held across the two `Current()` loads and the save
  persistAfterReserve Reserve happens before persistAllocatorState in AllocID/Tso
  resolveBumps        ResolveAllocatorStarts resumes at checkpoint+1 (saturating at MaxUint64)
  releasesOnError     AllocID / Tso subtract the reserved count from the counter when the persist fails

Environment: the checkpoint write of any request may fail (`failSave`); the request then answers
with an error and hands nothing out.
-/
import NoKVModel.Conc.Sys

namespace NoKV.Conc.PD
open NoKV.Conc

/-- 2^64 -/
def W : Nat := 18446744073709551616
/-- math.MaxUint64 -/
def MAXU : Nat := 18446744073709551615

inductive Kind where
  | id | ts
  deriving DecidableEq, Repr

structure AllocCfg where
  persistSerialized : Bool
  persistAfterReserve : Bool
  resolveBumps : Bool
  releasesOnError : Bool := false   -- a failed persistAllocatorState gives the reserved range back (counter -= n)
  deriving DecidableEq, Repr

def AllocCfg.good : AllocCfg := ⟨true, true, true, false⟩

def AllocCfg.Good (c : AllocCfg) : Prop :=
  c.persistSerialized = true ∧ c.persistAfterReserve = true ∧ c.resolveBumps = true ∧ c.releasesOnError = false

instance AllocCfg.decGood (c : AllocCfg) : Decidable c.Good := by
  unfold AllocCfg.Good; exact inferInstance

inductive PC where
  | reserve | lock | read (k : Kind) | save | unlock | reply | done
  deriving DecidableEq, Repr

def persistEntry (c : AllocCfg) : PC := if c.persistSerialized then .lock else .read .id
def afterPersist (c : AllocCfg) : PC := if c.persistAfterReserve then .reply else .reserve
def entry (c : AllocCfg) : PC := if c.persistAfterReserve then .reserve else persistEntry c

/-- program order of one AllocID / Tso request -/
def next (c : AllocCfg) : PC → PC
  | .reserve => if c.persistAfterReserve then persistEntry c else .reply
  | .lock => .read .id
  | .read .id => .read .ts
  | .read .ts => .save
  | .save => if c.persistSerialized then .unlock else afterPersist c
  | .unlock => afterPersist c
  | .reply => .done
  | .done => .done

/-- a range of consecutive values of one kind handed to a request -/
structure Rng where
  kind : Kind
  first : Nat
  last : Nat
  deriving DecidableEq, Repr

/-- two ranges do not share a value (ranges of different kinds never do) -/
def Disj (a b : Rng) : Prop := a.kind = b.kind → (a.last < b.first ∨ b.last < a.first)

instance Disj.dec (a b : Rng) : Decidable (Disj a b) := by unfold Disj; exact inferInstance

structure Thr where
  kind : Kind
  n : Nat
  pc : PC
  first : Nat := 0
  last : Nat := 0
  reserved : Bool := false
  rd : Kind → Nat := fun _ => 0
  failSave : Bool := false       -- environment: this request's checkpoint write fails / has failed

def Thr.rng (t : Thr) : Rng := ⟨t.kind, t.first, t.last⟩

structure St where
  ctr : Kind → Nat            -- the two atomic counters (last value handed out)
  ck : Kind → Nat             -- PD_STATE.json
  mu : Option Nat             -- holder of the persist mutex (only used when persistSerialized)
  thr : Nat → Option Thr
  replied : List Rng          -- ghost: every range ever replied to a client, newest first
  start : Kind → Nat          -- the configured -id-start / -ts-start flags
  ovf : Bool                  -- ghost: some counter reached MaxUint64 (allocator exhausted / wrapped)

inductive Act where
  | spawn (tid : Nat) (k : Kind) (n : Nat)
  | run (tid : Nat)
  | failSave (tid : Nat)         -- the storage layer will fail this request's SaveAllocatorState
  | restart

/-- pd/storage/storage.go:ResolveAllocatorStarts, one component -/
def resolve (c : AllocCfg) (start ck : Nat) : Nat :=
  let nxt := if c.resolveBumps then (if ck < MAXU then ck + 1 else ck) else ck
  if nxt > start then nxt else start

/-- NewAllocator / NewIDAllocator: `counter.Store(start-1)` with `start = 0 ⇒ 1` -/
def newCounter (start : Nat) : Nat := (if start = 0 then 1 else start) - 1

def stepThr (c : AllocCfg) (s : St) (tid : Nat) (t : Thr) : Option St :=
  match t.pc with
  | .reserve =>
    let sum := s.ctr t.kind + t.n
    let last := sum % W
    let first := (last + W - t.n + 1) % W
    some { s with ctr := upd s.ctr t.kind last, ovf := s.ovf || decide (MAXU ≤ sum),
                  thr := upd s.thr tid (some { t with pc := next c .reserve, first := first, last := last, reserved := true }) }
  | .lock =>
    match s.mu with
    | some _ => none
    | none => some { s with mu := some tid, thr := upd s.thr tid (some { t with pc := next c .lock }) }
  | .read k =>
    some { s with thr := upd s.thr tid (some { t with pc := next c (.read k), rd := upd t.rd k (s.ctr k) }) }
  | .save =>
    -- SaveAllocatorState: atomically replaces the checkpoint, or fails and leaves it as it was
    some { s with ck := if t.failSave then s.ck else t.rd, thr := upd s.thr tid (some { t with pc := next c .save }) }
  | .unlock =>
    some { s with mu := none, thr := upd s.thr tid (some { t with pc := next c .unlock }) }
  | .reply =>
    if t.failSave then
      -- "persist allocator state: …" error: nothing is handed out; [releasesOnError: counter -= n]
      some { s with ctr := if c.releasesOnError then upd s.ctr t.kind ((s.ctr t.kind + W - t.n) % W) else s.ctr,
                    thr := upd s.thr tid (some { t with pc := .done }) }
    else
      some { s with replied := t.rng :: s.replied, thr := upd s.thr tid (some { t with pc := .done }) }
  | .done => none

def restartSt (c : AllocCfg) (s : St) : St :=
  { s with ctr := fun k => newCounter (resolve c (s.start k) (s.ck k)), mu := none, thr := fun _ => none }

def step (c : AllocCfg) (s : St) : Act → Option St
  | .spawn tid k n =>
    if s.thr tid = none ∧ 1 ≤ n ∧ n < W then
      some { s with thr := upd s.thr tid (some { kind := k, n := n, pc := entry c }) }
    else none
  | .run tid =>
    match s.thr tid with
    | some t => stepThr c s tid t
    | none => none
  | .failSave tid =>
    match s.thr tid with
    | some t => if t.pc = .done then none else some { s with thr := upd s.thr tid (some { t with failSave := true }) }
    | none => none
  | .restart => some (restartSt c s)

def initSt (c : AllocCfg) (start : Kind → Nat) : St :=
  { ctr := fun k => newCounter (resolve c (start k) 0), ck := fun _ => 0, mu := none,
    thr := fun _ => none, replied := [], start := start, ovf := false }

def sys (c : AllocCfg) : Sys St Act :=
  { init := fun s => ∃ start : Kind → Nat, (∀ k, start k < MAXU) ∧ s = initSt c start,
    step := step c }

/-- executable duplicate test used by the driver and the `…_fails_asis` witness -/
def overlaps (a b : Rng) : Bool := a.kind == b.kind && !(decide (a.last < b.first) || decide (b.last < a.first))

def hasDup : List Rng → Bool
  | [] => false
  | r :: rs => rs.any (overlaps r) || hasDup rs

end NoKV.Conc.PD

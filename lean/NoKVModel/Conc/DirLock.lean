/-
C33 model: utils/dirlock.go — exclusive directory lock by flock(2) on `<dir>/LOCK`.

  AcquireDirLock:  open(LOCK, O_CREATE|O_RDWR)  →  flock(fd, LOCK_EX|LOCK_NB)  →
                   [re-check: stat(LOCK) is still the inode behind fd]  →  write pid, return
  Release:         the three effects flock(LOCK_UN), close(fd), remove(LOCK) in the extracted order

File-system model: the name LOCK points to at most one inode; `open(O_CREATE)` creates a fresh
inode when the name is absent; flock is per open file description and conflicts between any two
descriptions of the same inode (in one process or several: the kernel does not distinguish);
`close` drops the lock held through that description; `remove` unlinks whatever inode the name
points to, open descriptions of it stay usable.  One micro-step = one system call.

Environment: a contender may be created with a pending transient failure of its next unlink of
LOCK (vfs.FaultFS in the harness); Release may be called again after it returned.

Configuration (facts re-extracted from the source):
  releaseOrder          order of the effects in Release
  acquireRechecks       Acquire compares the inode of its fd with the inode the path names after flock
  releaseClearsOnError  Release sets `l.file = nil` also when it reports an error (a further Release is a no-op)
  closeReleasesLast     db.go closeInternal: lsm.Close, vlog.close, wal.Close, and only then dirLock.Release

A contender may be a whole DB (`spawnDB`): Open = AcquireDirLock (then the storage is opened);
Close = three storage-component steps (lsm, value log, WAL: they still read and write the working
directory) and the Release of the lock, in the extracted order.  The DB *uses* the directory from
the return of AcquireDirLock until its last storage component is closed.
-/
import NoKVModel.Conc.Sys

namespace NoKV.Conc.DirLock
open NoKV.Conc

inductive RelOrder where
  | unlockCloseRemove      -- as-is
  | removeUnlockClose      -- unlink while the lock is still held
  | unlockClose            -- never unlink
  deriving DecidableEq, Repr

structure DLCfg where
  releaseOrder : RelOrder
  acquireRechecks : Bool
  releaseClearsOnError : Bool := true   -- Release ends with `l.file = nil` whether or not it reports an error
  closeReleasesLast : Bool := true      -- DB.Close releases the directory lock after every storage component is closed
  deriving DecidableEq, Repr

def DLCfg.good : DLCfg := ⟨.removeUnlockClose, true, true, true⟩

def DLCfg.Good (c : DLCfg) : Prop :=
  c.releaseOrder = .removeUnlockClose ∧ c.acquireRechecks = true ∧ c.releaseClearsOnError = true ∧
  c.closeReleasesLast = true

instance DLCfg.decGood (c : DLCfg) : Decidable c.Good := by unfold DLCfg.Good; exact inferInstance

inductive Eff where
  | unlock | close | remove
  deriving DecidableEq, Repr

def effects : RelOrder → List Eff
  | .unlockCloseRemove => [.unlock, .close, .remove]
  | .removeUnlockClose => [.remove, .unlock, .close]
  | .unlockClose => [.unlock, .close]

inductive PC where
  | open_               -- before open(2)
  | flock               -- has an fd, before flock(2)
  | recheck             -- flock succeeded, before the inode re-check / return
  | held                -- AcquireDirLock returned the lock; Release not started
  | rel (k : Nat)       -- inside Release, k+1 effects done
  | failed              -- AcquireDirLock returned an error (fd closed)
  | done                -- Release returned (once or several times); Release may be called again
  | rerel (k : Nat)     -- inside a repeated Release on a DirLock that kept its handle, k+1 effects done
  | closing (k : Nat)   -- DB.Close in progress, lock not yet released, k storage components still open
  | closingAfter (k : Nat)  -- DB.Close in progress AFTER the lock was released, k+1 steps to go (bad order only)
  deriving DecidableEq, Repr

structure Thr where
  pc : PC
  fd : Nat := 0
  failUnlink : Bool := false   -- environment: the next remove(LOCK) of this contender fails once (transient I/O error)
  err : Bool := false          -- the current / last Release has an error to report
  handle : Bool := false       -- after Release returned: `l.file` is still set, a further Release runs the sequence again
  isDB : Bool := false         -- the contender is a DB: Close tears the storage down around the Release
  deriving DecidableEq, Repr

structure St where
  name : Option Nat             -- inode the path LOCK points to
  nextIno : Nat
  lockedBy : Nat → Option Nat   -- inode ↦ thread whose open file description holds the flock
  thr : Nat → Option Thr

inductive Act where
  | spawn (tid : Nat)
  | spawnF (tid : Nat)          -- a contender whose first unlink of LOCK will fail
  | spawnDB (tid : Nat)         -- a DB: Open, then Close
  | run (tid : Nat)

def applyEff (s : St) (tid : Nat) (t : Thr) : Eff → St
  | .unlock => { s with lockedBy := upd s.lockedBy t.fd none }
  | .close => if s.lockedBy t.fd = some tid then { s with lockedBy := upd s.lockedBy t.fd none } else s
  | .remove => { s with name := none }

/-- execute effect number `e` of Release.  A failing unlink leaves the name in place and makes
Release report an error; the flock is dropped and the descriptor closed all the same.  When
Release returns, `l.file` is cleared — always (`releaseClearsOnError`), or only if there was no error. -/
def relStep (c : DLCfg) (s : St) (tid : Nat) (t : Thr) (e : Nat) : Option St :=
  match (effects c.releaseOrder)[e]? with
  | none => none
  | some eff =>
    let failed : Bool := decide (eff = .remove) && t.failUnlink
    let s1 := if failed then s else applyEff s tid t eff
    let last : Bool := !decide (e + 1 < (effects c.releaseOrder).length)
    let err' := t.err || failed
    some { s1 with thr := upd s1.thr tid (some { t with
      pc := if last then (if t.isDB && !c.closeReleasesLast then PC.closingAfter 1 else PC.done) else PC.rel e,
      failUnlink := if eff = .remove then false else t.failUnlink,
      err := err',
      handle := if last then (if c.releaseClearsOnError then false else err') else t.handle }) }

/-- a repeated Release on a DirLock whose handle was kept: the unlink is real (it removes whatever
file the path names now); flock(LOCK_UN) and close hit the already closed descriptor (EBADF, no effect) -/
def rerelStep (c : DLCfg) (s : St) (tid : Nat) (t : Thr) (e : Nat) : Option St :=
  match (effects c.releaseOrder)[e]? with
  | none => none
  | some eff =>
    let failed : Bool := decide (eff = .remove) && t.failUnlink
    let s1 := if eff = .remove ∧ failed = false then { s with name := none } else s
    let last : Bool := !decide (e + 1 < (effects c.releaseOrder).length)
    some { s1 with thr := upd s1.thr tid (some { t with
      pc := if last then PC.done else PC.rerel e,
      failUnlink := if eff = .remove then false else t.failUnlink,
      err := true }) }

def stepThr (c : DLCfg) (s : St) (tid : Nat) (t : Thr) : Option St :=
  match t.pc with
  | .open_ =>
    match s.name with
    | some i => some { s with thr := upd s.thr tid (some { t with pc := .flock, fd := i }) }
    | none => some { s with name := some s.nextIno, nextIno := s.nextIno + 1,
                            thr := upd s.thr tid (some { t with pc := .flock, fd := s.nextIno }) }
  | .flock =>
    match s.lockedBy t.fd with
    | none => some { s with lockedBy := upd s.lockedBy t.fd (some tid), thr := upd s.thr tid (some { t with pc := .recheck }) }
    | some _ => some { s with thr := upd s.thr tid (some { t with pc := .failed }) }   -- EWOULDBLOCK, fd closed
  | .recheck =>
    if c.acquireRechecks = true ∧ s.name ≠ some t.fd then
      -- not the file the path names any more: close (drops the flock), report "in use"
      some { s with lockedBy := upd s.lockedBy t.fd none, thr := upd s.thr tid (some { t with pc := .failed }) }
    else some { s with thr := upd s.thr tid (some { t with pc := .held }) }
  | .held =>
    -- a plain DirLock user calls Release; a DB's Close first closes its storage components
    if t.isDB then some { s with thr := upd s.thr tid (some { t with pc := .closing 3 }) }
    else relStep c s tid t 0
  | .closing k =>
    if (if c.closeReleasesLast then 0 else 1) < k then
      some { s with thr := upd s.thr tid (some { t with pc := .closing (k - 1) }) }   -- lsm / vlog / wal close
    else relStep c s tid t 0                                                           -- dirLock.Release
  | .closingAfter k =>
    some { s with thr := upd s.thr tid (some { t with pc := if k = 0 then .done else .closingAfter (k - 1) }) }
  | .rel k => relStep c s tid t (k + 1)
  | .failed => none
  | .done =>
    -- Release is called again
    if t.handle then rerelStep c s tid t 0 else some s      -- `l.file == nil`: returns at once
  | .rerel k => rerelStep c s tid t (k + 1)

def step (c : DLCfg) (s : St) : Act → Option St
  | .spawn tid => if s.thr tid = none then some { s with thr := upd s.thr tid (some { pc := .open_ }) } else none
  | .spawnF tid =>
    if s.thr tid = none then some { s with thr := upd s.thr tid (some { pc := .open_, failUnlink := true }) } else none
  | .spawnDB tid =>
    if s.thr tid = none then some { s with thr := upd s.thr tid (some { pc := .open_, isDB := true }) } else none
  | .run tid =>
    match s.thr tid with
    | some t => stepThr c s tid t
    | none => none

def initSt : St := { name := none, nextIno := 0, lockedBy := fun _ => none, thr := fun _ => none }

def sys (c : DLCfg) : Sys St Act := { init := fun s => s = initSt, step := step c }

/-- "an open database holds the directory": between a successful Acquire and the start of Release -/
def Holds (s : St) (tid : Nat) : Prop := ∃ t, s.thr tid = some t ∧ t.pc = .held

/-- the contender works on the directory: it holds it, or it is a DB whose Close has not yet closed
every storage component -/
def usingPC : PC → Bool
  | .held => true
  | .closing _ => true
  | .closingAfter _ => true
  | _ => false

def Using (s : St) (tid : Nat) : Prop := ∃ t, s.thr tid = some t ∧ usingPC t.pc = true

end NoKV.Conc.DirLock

/-
Invariant of the directory-lock model under the good configuration (helper lemmas for Props/C33).
-/
import NoKVModel.Conc.DirLock

namespace NoKV.Conc.DirLock
open NoKV.Conc

/-- program points at which the thread's open file description holds the flock (good order:
between flock and the unlock that follows the unlink) -/
def inLock : PC → Bool
  | .recheck => true
  | .held => true
  | .rel 0 => true
  | .closing _ => true
  | _ => false

/-- the contender holds the directory: AcquireDirLock returned, Release has not started
(a DB that is closing its storage components still holds it) -/
def holding : PC → Bool
  | .held => true
  | .closing _ => true
  | _ => false

structure Inv (s : St) : Prop where
  lockThr : ∀ i tid, s.lockedBy i = some tid → ∃ t, s.thr tid = some t ∧ t.fd = i ∧ inLock t.pc = true
  thrLock : ∀ tid t, s.thr tid = some t → inLock t.pc = true → s.lockedBy t.fd = some tid
  heldName : ∀ tid t, s.thr tid = some t → holding t.pc = true → s.name = some t.fd
  fin : ∀ tid t, s.thr tid = some t → (t.pc = .done → t.handle = false) ∧ (∀ k, t.pc ≠ .rerel k) ∧
    (∀ k, t.pc ≠ .closingAfter k)

theorem Inv.trans {s s' : St} {tid : Nat} {t t' : Thr} (h : Inv s) (ht : s.thr tid = some t)
    (hthr : s'.thr = upd s.thr tid (some t'))
    (hlk : ∀ i, s'.lockedBy i = s.lockedBy i ∨
      ((s.lockedBy i = none ∨ s.lockedBy i = some tid) ∧ (s'.lockedBy i = none ∨ s'.lockedBy i = some tid)))
    (hmine : ∀ i, s'.lockedBy i = some tid → t'.fd = i ∧ inLock t'.pc = true)
    (hmine' : inLock t'.pc = true → s'.lockedBy t'.fd = some tid)
    (hname : s'.name = s.name ∨ (∀ j u, j ≠ tid → s.thr j = some u → holding u.pc = false))
    (hheld : holding t'.pc = true → s'.name = some t'.fd)
    (hfin : (t'.pc = .done → t'.handle = false) ∧ (∀ k, t'.pc ≠ .rerel k) ∧ (∀ k, t'.pc ≠ .closingAfter k)) : Inv s' := by
  have hget : ∀ j u, s'.thr j = some u → (j = tid ∧ u = t') ∨ (j ≠ tid ∧ s.thr j = some u) := by
    intro j u hu
    rw [hthr] at hu
    by_cases hj : j = tid
    · subst hj; simp at hu; exact Or.inl ⟨rfl, hu.symm⟩
    · rw [upd_other _ _ _ _ hj] at hu; exact Or.inr ⟨hj, hu⟩
  refine ⟨?_, ?_, ?_, ?_⟩
  · intro i j hij
    by_cases hj : j = tid
    · subst hj
      obtain ⟨a, b⟩ := hmine i hij
      exact ⟨t', by rw [hthr]; simp, a, b⟩
    · rcases hlk i with e | ⟨_, e | e⟩
      · rw [e] at hij
        obtain ⟨u, hu, a, b⟩ := h.lockThr i j hij
        exact ⟨u, by rw [hthr, upd_other _ _ _ _ hj]; exact hu, a, b⟩
      · rw [e] at hij; cases hij
      · rw [e] at hij; exact absurd (Option.some.inj hij).symm hj
  · intro j u hu hin
    rcases hget j u hu with ⟨rfl, rfl⟩ | ⟨hj, hu'⟩
    · exact hmine' hin
    · have hold := h.thrLock j u hu' hin
      rcases hlk u.fd with e | ⟨e | e, _⟩
      · rw [e]; exact hold
      · rw [e] at hold; cases hold
      · rw [e] at hold; exact absurd (Option.some.inj hold) (fun x => hj x.symm)
  · intro j u hu hp
    rcases hget j u hu with ⟨rfl, rfl⟩ | ⟨hj, hu'⟩
    · exact hheld hp
    · rcases hname with e | e
      · rw [e]; exact h.heldName j u hu' hp
      · rw [e j u hj hu'] at hp; cases hp
  · intro j u hu
    rcases hget j u hu with ⟨rfl, rfl⟩ | ⟨hj, hu'⟩
    · exact hfin
    · exact h.fin j u hu'

theorem Inv.init : Inv initSt := by
  refine ⟨?_, ?_, ?_, ?_⟩ <;> (intros; simp_all [initSt])

/-- a thread that holds no flock owns no inode -/
theorem Inv.notMine {s : St} (h : Inv s) {tid : Nat} {t : Thr} (ht : s.thr tid = some t)
    (hp : inLock t.pc = false) (i : Nat) : s.lockedBy i ≠ some tid := by
  intro hi
  obtain ⟨u, hu, _, b⟩ := h.lockThr i tid hi
  rw [ht] at hu; cases hu
  rw [hp] at b; cases b

/-- a thread that holds the flock owns exactly the inode behind its fd -/
theorem Inv.mineIs {s : St} (h : Inv s) {tid : Nat} {t : Thr} (ht : s.thr tid = some t)
    (i : Nat) (hi : s.lockedBy i = some tid) : t.fd = i := by
  obtain ⟨u, hu, a, _⟩ := h.lockThr i tid hi
  rw [ht] at hu; cases hu; exact a

/-- the record of the stepping thread after effect number `e` of Release -/
def relThr (c : DLCfg) (t : Thr) (eff : Eff) (e : Nat) : Thr :=
  { t with
    pc := if (!decide (e + 1 < (effects c.releaseOrder).length)) = true then
        (if (t.isDB && !c.closeReleasesLast) = true then PC.closingAfter 1 else PC.done) else PC.rel e,
    failUnlink := if eff = .remove then false else t.failUnlink,
    err := t.err || (decide (eff = .remove) && t.failUnlink),
    handle := if (!decide (e + 1 < (effects c.releaseOrder).length)) = true then
        (if c.releaseClearsOnError then false else (t.err || (decide (eff = .remove) && t.failUnlink)))
      else t.handle }

theorem relStep_ok (c : DLCfg) (s : St) (tid : Nat) (t : Thr) (e : Nat) (eff : Eff)
    (he : (effects c.releaseOrder)[e]? = some eff) (hok : eff ≠ .remove ∨ t.failUnlink = false) :
    relStep c s tid t e =
      some { (applyEff s tid t eff) with thr := upd (applyEff s tid t eff).thr tid (some (relThr c t eff e)) } := by
  have hf : (decide (eff = .remove) && t.failUnlink) = false := by
    rcases hok with h | h
    · simp [h]
    · simp [h]
  unfold relStep relThr
  rw [he]
  simp only [hf, Bool.false_eq_true, if_false]

theorem relStep_fail (c : DLCfg) (s : St) (tid : Nat) (t : Thr) (e : Nat)
    (he : (effects c.releaseOrder)[e]? = some .remove) (hf : t.failUnlink = true) :
    relStep c s tid t e = some { s with thr := upd s.thr tid (some (relThr c t .remove e)) } := by
  unfold relStep relThr
  rw [he]
  simp only [hf, decide_true, Bool.and_self, if_true]

private theorem finOf (pc : PC) (handle : Bool) (h1 : pc ≠ .done) (h2 : ∀ k, pc ≠ .rerel k)
    (h3 : ∀ k, pc ≠ .closingAfter k) :
    (pc = .done → handle = false) ∧ (∀ k, pc ≠ .rerel k) ∧ (∀ k, pc ≠ .closingAfter k) :=
  ⟨fun h => absurd h h1, h2, h3⟩

/-- the first effect of Release (the unlink) by a contender that holds the directory -/
theorem Inv.releaseStart {c : DLCfg} (hro : c.releaseOrder = .removeUnlockClose) {s s' : St} {tid : Nat}
    {t : Thr} (h : Inv s) (ht : s.thr tid = some t) (hhold : holding t.pc = true)
    (hs : relStep c s tid t 0 = some s') : Inv s' := by
  have hmine := h.thrLock tid t ht (by cases hp : t.pc <;> simp_all [holding, inLock])
  have hnm := h.heldName tid t ht hhold
  have hpc : (relThr c t .remove 0).pc = .rel 0 := by simp [relThr, hro, effects]
  have hfd : (relThr c t .remove 0).fd = t.fd := rfl
  have hothers : ∀ j u, j ≠ tid → s.thr j = some u → holding u.pc = false := by
    intro j u hj hu
    cases hh : holding u.pc
    · rfl
    · exfalso
      have h1 := h.heldName j u hu hh
      rw [hnm] at h1
      have h2 := h.thrLock j u hu (by cases hp : u.pc <;> simp_all [holding, inLock])
      rw [← Option.some.inj h1, hmine] at h2
      exact hj (Option.some.inj h2).symm
  have hfin' := finOf (relThr c t .remove 0).pc (relThr c t .remove 0).handle (by rw [hpc]; simp)
    (by rw [hpc]; simp) (by rw [hpc]; simp)
  cases hfu : t.failUnlink
  · rw [relStep_ok c s tid t 0 .remove (by simp [hro, effects]) (Or.inr hfu)] at hs
    cases hs
    exact Inv.trans (t' := relThr c t .remove 0) h ht rfl (fun _ => Or.inl rfl)
      (fun i hi => ⟨hfd ▸ h.mineIs ht i hi, by rw [hpc]; simp [inLock]⟩)
      (fun _ => hfd ▸ hmine) (Or.inr hothers) (by rw [hpc]; simp [holding]) hfin'
  · rw [relStep_fail c s tid t 0 (by simp [hro, effects]) hfu] at hs
    cases hs
    exact Inv.trans (t' := relThr c t .remove 0) h ht rfl (fun _ => Or.inl rfl)
      (fun i hi => ⟨hfd ▸ h.mineIs ht i hi, by rw [hpc]; simp [inLock]⟩)
      (fun _ => hfd ▸ hmine) (Or.inl rfl) (by rw [hpc]; simp [holding]) hfin'

theorem Inv.step_thr {c : DLCfg} (hc : c.Good) {s s' : St} {tid : Nat} {t : Thr} (h : Inv s)
    (ht : s.thr tid = some t) (hs : stepThr c s tid t = some s') : Inv s' := by
  obtain ⟨hro, hrc, hce, hcl⟩ := hc
  have hfin := h.fin tid t ht
  unfold stepThr at hs
  cases hp : t.pc <;> simp only [hp] at hs
  · -- open
    have hnm := h.notMine ht (by simp [hp, inLock])
    cases hn : s.name with
    | some i =>
      simp only [hn] at hs; cases hs
      refine Inv.trans h ht rfl (fun _ => Or.inl rfl) (fun i hi => absurd hi (hnm i))
        (by simp [inLock]) (Or.inl hn.symm) (by simp [holding]) (by simp)
    | none =>
      simp only [hn] at hs; cases hs
      refine Inv.trans h ht rfl (fun _ => Or.inl rfl) (fun i hi => absurd hi (hnm i))
        (by simp [inLock]) (Or.inr ?_) (by simp [holding]) (by simp)
      intro j u _ hu
      cases hh : holding u.pc
      · rfl
      · have := h.heldName j u hu hh
        rw [hn] at this; cases this
  · -- flock
    have hnm := h.notMine ht (by simp [hp, inLock])
    cases hl : s.lockedBy t.fd with
    | none =>
      simp only [hl] at hs; cases hs
      refine Inv.trans h ht rfl ?_ ?_ ?_ (Or.inl rfl) (by simp [holding]) (by simp)
      · intro i
        by_cases hi : i = t.fd
        · subst hi; right; exact ⟨Or.inl hl, Or.inr (by simp)⟩
        · left; show upd s.lockedBy t.fd (some tid) i = _; rw [upd_other _ _ _ _ hi]
      · intro i hi
        by_cases hif : i = t.fd
        · subst hif; exact ⟨rfl, by simp [inLock]⟩
        · have : upd s.lockedBy t.fd (some tid) i = some tid := hi
          rw [upd_other _ _ _ _ hif] at this
          exact absurd this (hnm i)
      · intro _; show upd s.lockedBy t.fd (some tid) t.fd = some tid; simp
    | some u =>
      simp only [hl] at hs; cases hs
      exact Inv.trans h ht rfl (fun _ => Or.inl rfl) (fun i hi => absurd hi (hnm i))
        (by simp [inLock]) (Or.inl rfl) (by simp [holding]) (by simp)
  · -- recheck
    have hmine := h.thrLock tid t ht (by simp [hp, inLock])
    split at hs
    · cases hs
      refine Inv.trans h ht rfl ?_ ?_ (by simp [inLock]) (Or.inl rfl) (by simp [holding]) (by simp)
      · intro i
        by_cases hi : i = t.fd
        · subst hi; right; exact ⟨Or.inr hmine, Or.inl (by simp)⟩
        · left; show upd s.lockedBy t.fd none i = _; rw [upd_other _ _ _ _ hi]
      · intro i hi
        by_cases hif : i = t.fd
        · subst hif
          have : upd s.lockedBy t.fd none t.fd = some tid := hi
          simp at this
        · have : upd s.lockedBy t.fd none i = some tid := hi
          rw [upd_other _ _ _ _ hif] at this
          exact absurd (h.mineIs ht i this).symm hif
    · rename_i hcond
      cases hs
      have hname : s.name = some t.fd := by
        apply Classical.byContradiction
        intro hne; exact hcond ⟨hrc, hne⟩
      exact Inv.trans h ht rfl (fun _ => Or.inl rfl) (fun i hi => ⟨h.mineIs ht i hi, by simp [inLock]⟩)
        (fun _ => hmine) (Or.inl rfl) (fun _ => hname) (by simp)
  · -- held: Release is called (plain DirLock user) or DB.Close starts closing the storage
    have hmine := h.thrLock tid t ht (by simp [hp, inLock])
    have hnm := h.heldName tid t ht (by simp [hp, holding])
    split at hs
    · cases hs
      exact Inv.trans h ht rfl (fun _ => Or.inl rfl) (fun i hi => ⟨h.mineIs ht i hi, by simp [inLock]⟩)
        (fun _ => hmine) (Or.inl rfl) (fun _ => hnm) (by simp)
    · exact Inv.releaseStart hro h ht (by simp [hp, holding]) hs
  · -- rel k: effect k+1
    rename_i k
    cases k with
    | zero =>
      -- unlock
      have hmine := h.thrLock tid t ht (by simp [hp, inLock])
      rw [relStep_ok c s tid t 1 .unlock (by simp [hro, effects]) (Or.inl (by simp))] at hs
      have hpc : (relThr c t .unlock 1).pc = .rel 1 := by simp [relThr, hro, effects]
      have hfd : (relThr c t .unlock 1).fd = t.fd := rfl
      cases hs
      refine Inv.trans (t' := relThr c t .unlock 1) h ht rfl ?_ ?_ (by rw [hpc]; simp [inLock]) (Or.inl rfl)
        (by rw [hpc]; simp [holding]) (finOf _ _ (by rw [hpc]; simp) (by rw [hpc]; simp) (by rw [hpc]; simp))
      · intro i
        by_cases hi : i = t.fd
        · subst hi; right; exact ⟨Or.inr hmine, Or.inl (by simp [applyEff])⟩
        · left; show upd s.lockedBy t.fd none i = _; rw [upd_other _ _ _ _ hi]
      · intro i hi
        by_cases hif : i = t.fd
        · subst hif
          have : upd s.lockedBy t.fd none t.fd = some tid := hi
          simp at this
        · have : upd s.lockedBy t.fd none i = some tid := hi
          rw [upd_other _ _ _ _ hif] at this
          exact absurd (h.mineIs ht i this).symm hif
    | succ k =>
      cases k with
      | zero =>
        -- close: the lock is already gone; Release returns and clears its handle
        have hnm := h.notMine ht (by simp [hp, inLock])
        rw [relStep_ok c s tid t 2 .close (by simp [hro, effects]) (Or.inl (by simp))] at hs
        have hpc : (relThr c t .close 2).pc = .done := by simp [relThr, hro, effects, hcl]
        have hh : (relThr c t .close 2).handle = false := by simp [relThr, hro, effects, hce]
        cases hs
        have hcl' : applyEff s tid t .close = s := by
          simp [applyEff, hnm t.fd]
        rw [hcl']
        exact Inv.trans (t' := relThr c t .close 2) h ht rfl (fun _ => Or.inl rfl) (fun i hi => absurd hi (hnm i))
          (by rw [hpc]; simp [inLock]) (Or.inl rfl) (by rw [hpc]; simp [holding])
          ⟨fun _ => hh, by rw [hpc]; simp, by rw [hpc]; simp⟩
      | succ k =>
        simp [relStep, hro, effects] at hs
  · cases hs
  · -- done: Release called again; the handle was cleared, nothing happens
    have hh := hfin.1 hp
    simp only [hh, Bool.false_eq_true, if_false] at hs
    cases hs
    exact h
  · -- rerel: unreachable
    rename_i k
    exact absurd hp (hfin.2.1 k)
  · -- closing k: a storage component is closed while the lock is held; then Release
    rename_i k
    have hmine := h.thrLock tid t ht (by simp [hp, inLock])
    have hnm := h.heldName tid t ht (by simp [hp, holding])
    simp only [hcl, if_true] at hs
    split at hs
    · cases hs
      exact Inv.trans h ht rfl (fun _ => Or.inl rfl) (fun i hi => ⟨h.mineIs ht i hi, by simp [inLock]⟩)
        (fun _ => hmine) (Or.inl rfl) (fun _ => hnm) (by simp)
    · exact Inv.releaseStart hro h ht (by simp [hp, holding]) hs
  · -- closingAfter: unreachable (the lock is released last)
    rename_i k
    exact absurd hp (hfin.2.2 k)

theorem Inv.spawn {s : St} (hi : Inv s) (tid : Nat) (t0 : Thr) (h0 : t0.pc = .open_)
    (hfree : s.thr tid = none) : Inv { s with thr := upd s.thr tid (some t0) } := by
  refine ⟨?_, ?_, ?_, ?_⟩
  · intro i j hij
    obtain ⟨u, hu, a, b⟩ := hi.lockThr i j hij
    have hj : j ≠ tid := fun e => by rw [e, hfree] at hu; cases hu
    exact ⟨u, by show upd s.thr tid _ j = some u; rw [upd_other _ _ _ _ hj]; exact hu, a, b⟩
  · intro j u hu hin
    have hu' : upd s.thr tid (some t0) j = some u := hu
    by_cases hj : j = tid
    · subst hj; simp at hu'; subst hu'; simp [h0, inLock] at hin
    · rw [upd_other _ _ _ _ hj] at hu'; exact hi.thrLock j u hu' hin
  · intro j u hu hp
    have hu' : upd s.thr tid (some t0) j = some u := hu
    by_cases hj : j = tid
    · subst hj; simp at hu'; subst hu'; rw [h0] at hp; simp [holding] at hp
    · rw [upd_other _ _ _ _ hj] at hu'; exact hi.heldName j u hu' hp
  · intro j u hu
    have hu' : upd s.thr tid (some t0) j = some u := hu
    by_cases hj : j = tid
    · subst hj; simp at hu'; subst hu'; rw [h0]; simp
    · rw [upd_other _ _ _ _ hj] at hu'; exact hi.fin j u hu'

theorem Inv.reachable {c : DLCfg} (hc : c.Good) (s : St) (hr : Reachable (sys c) s) : Inv s := by
  refine Reachable.invariant (S := sys c) Inv ?_ ?_ s hr
  · rintro s rfl; exact Inv.init
  · intro s a s' hi hs
    have hs : DirLock.step c s a = some s' := hs
    cases a with
    | spawn tid =>
      simp only [DirLock.step] at hs
      split at hs
      · rename_i hfree; cases hs; exact Inv.spawn hi tid _ rfl hfree
      · cases hs
    | spawnF tid =>
      simp only [DirLock.step] at hs
      split at hs
      · rename_i hfree; cases hs; exact Inv.spawn hi tid _ rfl hfree
      · cases hs
    | spawnDB tid =>
      simp only [DirLock.step] at hs
      split at hs
      · rename_i hfree; cases hs; exact Inv.spawn hi tid _ rfl hfree
      · cases hs
    | run tid =>
      simp only [DirLock.step] at hs
      cases ht : s.thr tid with
      | none => simp [ht] at hs
      | some t => simp only [ht] at hs; exact Inv.step_thr hc hi ht hs

end NoKV.Conc.DirLock

/-
The invariant behind C32_never_passes_serialized: count-then-publish order + the usage contract
(Begin calls serialized, indices above lastIndex).  Helper lemmas for Props/C32.
-/
import NoKVModel.Conc.WatermarkLemmas

namespace NoKV.Conc.WM
open NoKV.Conc

/-- good program of Begin: 0 add, 1 advance, 2 setLast, 3 endBegin, 4 advance -/
def inSec (t : Thr) : Prop := t.kind.isBegin = true ∧ t.stage ≤ 3
def prePub (t : Thr) : Prop := t.kind.isBegin = true ∧ t.stage ≤ 2

structure TI (s : St) (t : Thr) : Prop where
  preLt : prePub t → s.lastIndex < t.kind.idx
  haveDL : ∀ d, (t.loc = .haveDL d ∨ t.loc = .haveDH d) → d + 1 ≤ s.lastIndex
  cas : ∀ d, t.loc = .cas d → d + 1 ≤ s.lastIndex ∧ s.nCounted (d + 1) ≤ s.nDoneDec (d + 1)
  busy : inSec t → s.sectionBusy = true

structure N (s : St) : Prop where
  le : s.doneUntil ≤ s.lastIndex
  cntEq : ∀ j, 0 < j → s.cnt j = (s.nCounted j : Int) - (s.nDoneDec j : Int)
  begunEq : ∀ j, s.nBegun j = s.nCounted j
  m : ∀ j, j ≤ s.doneUntil → s.nCounted j ≤ s.nDoneDec j
  ti : ∀ tid t, s.thr tid = some t → TI s t
  uniq : ∀ i j ti tj, s.thr i = some ti → s.thr j = some tj → inSec ti → inSec tj → i = j
  noAux : ∀ tid t, s.thr tid = some t → t.kind.isAux = false

/-- the stepping thread is replaced by `t'` (same call, not an earlier stage); all other threads
keep kind / stage / loc (a `notify` step may set their `notified` flag) -/
theorem N.mk' {s s' : St} (h : N s) {tid : Nat} {t t' : Thr} (ht : s.thr tid = some t)
    (hself : s'.thr tid = some t')
    (hoth : ∀ j u', j ≠ tid → s'.thr j = some u' →
      ∃ u, s.thr j = some u ∧ u'.kind = u.kind ∧ u'.stage = u.stage ∧ u'.loc = u.loc)
    (hk : t'.kind = t.kind) (hst : t.stage ≤ t'.stage)
    (hle : s'.doneUntil ≤ s'.lastIndex)
    (hcnt : ∀ j, 0 < j → s'.cnt j = (s'.nCounted j : Int) - (s'.nDoneDec j : Int))
    (hbeg : ∀ j, s'.nBegun j = s'.nCounted j)
    (hm : ∀ j, j ≤ s'.doneUntil → s'.nCounted j ≤ s'.nDoneDec j)
    (hti : TI s' t')
    (hothers : ∀ j u, j ≠ tid → s.thr j = some u → TI s' u) : N s' := by
  have hin : inSec t' → inSec t := fun ⟨a, b⟩ => ⟨hk ▸ a, Nat.le_trans hst b⟩
  refine ⟨hle, hcnt, hbeg, hm, ?_, ?_, ?_⟩
  · intro j u' hu'
    by_cases hj : j = tid
    · subst hj; rw [hself] at hu'; cases hu'; exact hti
    · obtain ⟨u, hu, e1, e2, e3⟩ := hoth j u' hj hu'
      have := hothers j u hj hu
      exact ⟨fun ⟨a, b⟩ => by rw [e1]; exact this.preLt ⟨e1 ▸ a, e2 ▸ b⟩,
        fun d hd => this.haveDL d (e3 ▸ hd), fun d hd => this.cas d (e3 ▸ hd),
        fun ⟨a, b⟩ => this.busy ⟨e1 ▸ a, e2 ▸ b⟩⟩
  · intro i j ti tj hi hj si sj
    -- map both back to threads of s that are in the section
    have back : ∀ x tx, s'.thr x = some tx → inSec tx → ∃ tx0, s.thr x = some tx0 ∧ inSec tx0 := by
      intro x tx hx sx
      by_cases hxt : x = tid
      · subst hxt; rw [hself] at hx; cases hx; exact ⟨t, ht, hin sx⟩
      · obtain ⟨u, hu, e1, e2, _⟩ := hoth x tx hxt hx
        exact ⟨u, hu, ⟨e1 ▸ sx.1, e2 ▸ sx.2⟩⟩
    obtain ⟨ti0, hi0, si0⟩ := back i ti hi si
    obtain ⟨tj0, hj0, sj0⟩ := back j tj hj sj
    exact h.uniq i j ti0 tj0 hi0 hj0 si0 sj0
  · intro j u' hu'
    by_cases hj : j = tid
    · subst hj; rw [hself] at hu'; cases hu'; rw [hk]; exact h.noAux j t ht
    · obtain ⟨u, hu, e1, _, _⟩ := hoth j u' hj hu'
      rw [e1]; exact h.noAux j u hu

/-- other threads after `upd … tid (some t')` -/
theorem oth_upd {s : St} {tid : Nat} {t' : Thr} :
    ∀ j u', j ≠ tid → upd s.thr tid (some t') j = some u' →
      ∃ u, s.thr j = some u ∧ u'.kind = u.kind ∧ u'.stage = u.stage ∧ u'.loc = u.loc := by
  intro j u' hj hu'
  rw [upd_other _ _ _ _ hj] at hu'
  exact ⟨u', hu', rfl, rfl, rfl⟩

/-- TI only reads lastIndex, the two counters it compares and the busy flag -/
theorem TI.of_eq {s s' : St} {t : Thr} (h : TI s t) (e1 : s'.lastIndex = s.lastIndex)
    (e2 : s'.nCounted = s.nCounted) (e3 : s'.nDoneDec = s.nDoneDec)
    (e4 : s'.sectionBusy = s.sectionBusy) : TI s' t :=
  ⟨fun p => e1 ▸ h.preLt p, fun d hd => e1 ▸ h.haveDL d hd,
   fun d hd => by rw [e1, e2, e3]; exact h.cas d hd, fun p => e4 ▸ h.busy p⟩

theorem TI.next {s : St} {t : Thr} (h : TI s t) : TI s (nextInstr t) :=
  ⟨fun ⟨a, b⟩ => h.preLt ⟨a, by simp [nextInstr] at b; omega⟩, fun d hd => by simp [nextInstr] at hd,
   fun d hd => by simp [nextInstr] at hd, fun ⟨a, b⟩ => h.busy ⟨a, by simp [nextInstr] at b; omega⟩⟩

/-- shapes of the good program -/
theorem good_instr (c : WMCfg) (hc : c.countsFirst = true) (k : Kind) (hka : k.isAux = false)
    (st : Nat) (ins : Instr) (h : (progOf c k)[st]? = some ins) :
    (∀ i, ins = .add i true → k = .begin i ∧ st = 0) ∧
    (∀ i, ins = .add i false → k.isBegin = false ∧ k.isCount = false) ∧
    (∀ i, ins = .setLast i → k = .begin i ∧ st = 2) ∧
    (ins = .endBegin → k.isBegin = true ∧ st = 3) := by
  cases k with
  | begin j =>
    simp only [progOf, hc, if_true] at h
    match st with
    | 0 => simp at h; subst h; simp
    | 1 => simp at h; subst h; simp
    | 2 => simp at h; subst h; simp
    | 3 => simp at h; subst h; simp [Kind.isBegin]
    | 4 => simp at h; subst h; simp
    | n + 5 => simp at h
  | done j =>
    simp only [progOf] at h
    match st with
    | 0 => simp at h; subst h; simp [Kind.isBegin, Kind.isCount]
    | 1 => simp at h; subst h; simp
    | n + 2 => simp at h
  | wait j =>
    simp only [progOf] at h
    match st with
    | 0 => simp at h; subst h; simp
    | n + 1 => simp at h
  | adv =>
    simp only [progOf] at h
    match st with
    | 0 => simp at h; subst h; simp
    | n + 1 => simp at h
  | count j => simp [Kind.isAux] at hka
  | publish j => simp [Kind.isAux] at hka

end NoKV.Conc.WM

namespace NoKV.Conc.WM
open NoKV.Conc

theorem TI.setLoc {s : St} {t : Thr} (h : TI s t) (l : Loc)
    (h1 : ∀ d, (l = .haveDL d ∨ l = .haveDH d) → d + 1 ≤ s.lastIndex)
    (h2 : ∀ d, l = .cas d → d + 1 ≤ s.lastIndex ∧ s.nCounted (d + 1) ≤ s.nDoneDec (d + 1)) :
    TI s { t with loc := l } :=
  ⟨h.preLt, h1, h2, h.busy⟩

/-- a step that changes only the thread table -/
theorem N.localStep {s : St} (h : N s) {tid : Nat} {t t' : Thr} (ht : s.thr tid = some t)
    (hk : t'.kind = t.kind) (hst : t.stage ≤ t'.stage) (hti : TI s t') :
    N (setThr s tid t') := by
  refine N.mk' h ht (by simp [setThr]) oth_upd hk hst h.le h.cntEq h.begunEq h.m
    (hti.of_eq rfl rfl rfl rfl) (fun j u _ hu => (h.ti j u hu).of_eq rfl rfl rfl rfl)

theorem N.step_thr {c : WMCfg} (hc : c.countsFirst = true) {s s' : St} {tid : Nat} {t : Thr}
    (h : N s) (ht : s.thr tid = some t) (hs : stepThr c s tid t = some s') : N s' := by
  have hT := h.ti tid t ht
  unfold stepThr at hs
  split at hs
  · cases hs
  · rename_i ins hins
    have shape := good_instr c hc t.kind (h.noAux tid t ht) t.stage ins hins
    cases ins with
    | setLast i =>
      obtain ⟨hk, hst⟩ := shape.2.2.1 i rfl
      cases hs
      have hsec : inSec t := ⟨by simp [hk, Kind.isBegin], by omega⟩
      have hmax : s.lastIndex ≤ (if s.lastIndex < i then i else s.lastIndex) := by split <;> omega
      refine N.mk' (t' := nextInstr t) h ht (by simp [setThr]) oth_upd rfl (by simp [nextInstr]) ?_ h.cntEq ?_ h.m ?_ ?_
      · exact Nat.le_trans h.le hmax
      · intro j
        show bumpBegun s t j = s.nCounted j
        rw [bumpBegun_off s t (by simp [hst]) j]; exact h.begunEq j
      · exact ⟨fun ⟨_, b⟩ => by simp [nextInstr, hst] at b, fun d hd => by simp [nextInstr] at hd,
          fun d hd => by simp [nextInstr] at hd, fun _ => hT.busy hsec⟩
      · intro j u hj hu
        have hU := h.ti j u hu
        refine ⟨fun p => ?_, fun d hd => Nat.le_trans (hU.haveDL d hd) hmax,
          fun d hd => ⟨Nat.le_trans (hU.cas d hd).1 hmax, (hU.cas d hd).2⟩, hU.busy⟩
        exact absurd (h.uniq j tid u t hu ht ⟨p.1, by have := p.2; omega⟩ hsec) hj
    | add i up =>
      cases up with
      | true =>
        obtain ⟨hk, hst⟩ := shape.1 i rfl
        cases hs
        have hidx : t.kind.idx = i := by simp [hk, Kind.idx]
        have hlt : s.lastIndex < i := hidx ▸ hT.preLt ⟨by simp [hk, Kind.isBegin], by omega⟩
        refine N.mk' (t' := nextInstr t) h ht (by simp [setThr]) oth_upd rfl (by simp [nextInstr]) h.le ?_ ?_ ?_ ?_ ?_
        · intro j hj
          show (if i = 0 ∧ c.tracksZero = false then s.cnt else upd s.cnt i (s.cnt i + 1)) j =
            ((upd s.nCounted i (s.nCounted i + 1) j : Nat) : Int) - (s.nDoneDec j : Int)
          by_cases hi0 : i = 0 ∧ c.tracksZero = false
          · have hji : j ≠ i := by have := hi0.1; omega
            rw [if_pos hi0]
            rw [upd_other _ _ _ _ hji]
            exact h.cntEq j hj
          · rw [if_neg hi0]
            by_cases hji : j = i
            · subst hji; simp only [upd_same]; have := h.cntEq j hj; omega
            · rw [upd_other _ _ _ _ hji, upd_other _ _ _ _ hji]; exact h.cntEq j hj
        · intro j
          show bumpBegun s t j = upd s.nCounted i (s.nCounted i + 1) j
          rw [bumpBegun_on s t (by simp [hk, Kind.isBegin, hst])]
          simp only [hk, Kind.idx]
          by_cases hji : j = i
          · subst hji; simp [h.begunEq]
          · rw [upd_other _ _ _ _ hji, upd_other _ _ _ _ hji]; exact h.begunEq j
        · intro j hj
          have : j ≠ i := by have := h.le; have : j ≤ s.doneUntil := hj; omega
          show upd s.nCounted i (s.nCounted i + 1) j ≤ s.nDoneDec j
          rw [upd_other _ _ _ _ this]; exact h.m j hj
        · exact ⟨fun _ => by simp only [nextInstr, hidx]; exact hlt, fun d hd => by simp [nextInstr] at hd,
            fun d hd => by simp [nextInstr] at hd,
            fun ⟨a, _⟩ => hT.busy ⟨a, by omega⟩⟩
        · intro j u _ hu
          have hU := h.ti j u hu
          refine ⟨hU.preLt, hU.haveDL, fun d hd => ⟨(hU.cas d hd).1, ?_⟩, hU.busy⟩
          have hne : d + 1 ≠ i := by have := (hU.cas d hd).1; omega
          show upd s.nCounted i (s.nCounted i + 1) (d + 1) ≤ s.nDoneDec (d + 1)
          rw [upd_other _ _ _ _ hne]; exact (hU.cas d hd).2
      | false =>
        obtain ⟨hnb, hnc⟩ := shape.2.1 i rfl
        cases hs
        refine N.mk' (t' := nextInstr t) h ht (by simp [setThr]) oth_upd rfl (by simp [nextInstr]) h.le ?_ ?_ ?_ ?_ ?_
        · intro j hj
          show (if i = 0 ∧ c.tracksZero = false then s.cnt else upd s.cnt i (s.cnt i + -1)) j =
            (s.nCounted j : Int) - ((upd s.nDoneDec i (s.nDoneDec i + 1) j : Nat) : Int)
          by_cases hi0 : i = 0 ∧ c.tracksZero = false
          · have hji : j ≠ i := by have := hi0.1; omega
            rw [if_pos hi0]
            rw [upd_other _ _ _ _ hji]
            exact h.cntEq j hj
          · rw [if_neg hi0]
            by_cases hji : j = i
            · subst hji; simp only [upd_same]; have := h.cntEq j hj; omega
            · rw [upd_other _ _ _ _ hji, upd_other _ _ _ _ hji]; exact h.cntEq j hj
        · intro j
          show bumpBegun s t j = s.nCounted j
          rw [bumpBegun_off s t (by simp [hnb, hnc]) j]; exact h.begunEq j
        · intro j hj
          show s.nCounted j ≤ upd s.nDoneDec i (s.nDoneDec i + 1) j
          by_cases hji : j = i
          · subst hji; simp only [upd_same]; have := h.m j hj; omega
          · rw [upd_other _ _ _ _ hji]; exact h.m j hj
        · exact ⟨fun ⟨a, _⟩ => by simp [nextInstr, hnb] at a, fun d hd => by simp [nextInstr] at hd,
            fun d hd => by simp [nextInstr] at hd, fun ⟨a, _⟩ => by simp [nextInstr, hnb] at a⟩
        · intro j u _ hu
          have hU := h.ti j u hu
          refine ⟨hU.preLt, hU.haveDL, fun d hd => ⟨(hU.cas d hd).1, ?_⟩, hU.busy⟩
          show s.nCounted (d + 1) ≤ upd s.nDoneDec i (s.nDoneDec i + 1) (d + 1)
          by_cases hji : d + 1 = i
          · rw [← hji]; simp only [upd_same]; have := (hU.cas d hd).2; omega
          · rw [upd_other _ _ _ _ hji]; exact (hU.cas d hd).2
    | endBegin =>
      obtain ⟨hb, hst⟩ := shape.2.2.2 rfl
      cases hs
      have hsec : inSec t := ⟨hb, by omega⟩
      refine N.mk' (t' := nextInstr t) h ht (by simp [setThr]) oth_upd rfl (by simp [nextInstr]) h.le h.cntEq h.begunEq h.m ?_ ?_
      · exact ⟨fun ⟨_, b⟩ => by simp [nextInstr, hst] at b, fun d hd => by simp [nextInstr] at hd,
          fun d hd => by simp [nextInstr] at hd, fun ⟨_, b⟩ => by simp [nextInstr, hst] at b⟩
      · intro j u hj hu
        have hU := h.ti j u hu
        exact ⟨hU.preLt, hU.haveDL, hU.cas, fun p => absurd (h.uniq j tid u t hu ht p hsec) hj⟩
    | advance =>
      simp only at hs
      cases hl : t.loc <;> simp only [hl] at hs
      · cases hs
        exact N.localStep h ht rfl (Nat.le_refl _) (hT.setLoc _ (by simp) (by simp))
      · rename_i d
        split at hs <;> cases hs
        · exact N.localStep h ht rfl (by simp [nextInstr]) hT.next
        · rename_i hnot
          refine N.localStep h ht rfl (Nat.le_refl _) (hT.setLoc _ ?_ ?_)
          · intro d' hd'
            have : d' = d := by
              rcases hd' with hd' | hd' <;> (split at hd' <;> cases hd') <;> rfl
            omega
          · intro d' hd'; split at hd' <;> cases hd'
      · rename_i d
        -- holdsAtDone only: slot(d) loaded
        have hdl := hT.haveDL d (Or.inl hl)
        split at hs <;> cases hs
        · exact N.localStep h ht rfl (by simp [nextInstr]) hT.next
        · exact N.localStep h ht rfl (Nat.le_refl _)
            (hT.setLoc _ (fun d' hd' => by rcases hd' with hd' | hd' <;> cases hd'; exact hdl) (by simp))
      · rename_i d
        split at hs <;> cases hs
        · exact N.localStep h ht rfl (by simp [nextInstr]) hT.next
        · rename_i hnot
          have hdl := hT.haveDL d (Or.inr hl)
          refine N.localStep h ht rfl (Nat.le_refl _) (hT.setLoc _ (by simp) ?_)
          intro d' hd'
          cases hd'
          refine ⟨hdl, ?_⟩
          have := h.cntEq (d + 1) (by omega)
          omega
      · rename_i d
        split at hs <;> cases hs
        · rename_i hd
          obtain ⟨c1, c2⟩ := hT.cas d hl
          refine N.mk' (t' := { t with loc := Loc.notify (d + 1) }) h ht (by simp [setThr]) oth_upd rfl (Nat.le_refl _) c1 h.cntEq h.begunEq ?_ ?_ ?_
          · intro j hj
            have hj' : j ≤ d + 1 := hj
            by_cases hjd : j = d + 1
            · subst hjd; exact c2
            · exact h.m j (by omega)
          · exact (hT.setLoc _ (by simp) (by simp)).of_eq rfl rfl rfl rfl
          · intro j u _ hu; exact (h.ti j u hu).of_eq rfl rfl rfl rfl
        · exact N.localStep h ht rfl (Nat.le_refl _) (hT.setLoc _ (by simp) (by simp))
      · rename_i u
        cases hs
        refine N.mk' (t' := { t with loc := Loc.start }) h ht (by simp) ?_ rfl (Nat.le_refl _) h.le h.cntEq h.begunEq h.m
          ((hT.setLoc _ (by simp) (by simp)).of_eq rfl rfl rfl rfl)
          (fun j x _ hx => (h.ti j x hx).of_eq rfl rfl rfl rfl)
        intro j x' hj hx'
        have hx'' : upd (wake s.thr u) tid (some { t with loc := Loc.start }) j = some x' := hx'
        rw [upd_other _ _ _ _ hj] at hx''
        unfold wake at hx''
        cases hjt : s.thr j with
        | none => simp [hjt] at hx''
        | some y =>
          simp only [hjt] at hx''
          split at hx''
          · cases hx''; exact ⟨_, rfl, rfl, rfl, rfl⟩
          · cases hx''; exact ⟨_, rfl, rfl, rfl, rfl⟩
      · cases hs
      · cases hs
    | wait i =>
      simp only at hs
      cases hl : t.loc <;> simp only [hl] at hs
      · split at hs <;> cases hs
        · exact N.localStep h ht rfl (by simp [nextInstr]) ⟨hT.next.preLt, hT.next.haveDL, hT.next.cas, hT.next.busy⟩
        · exact N.localStep h ht rfl (Nat.le_refl _) (hT.setLoc _ (by simp) (by simp))
      · cases hs
      · cases hs
      · cases hs
      · cases hs
      · cases hs
      · split at hs <;> cases hs
        · exact N.localStep h ht rfl (by simp [nextInstr]) ⟨hT.next.preLt, hT.next.haveDL, hT.next.cas, hT.next.busy⟩
        · exact N.localStep h ht rfl (Nat.le_refl _) (hT.setLoc _ (by simp) (by simp))
      · split at hs <;> cases hs
        exact N.localStep h ht rfl (by simp [nextInstr]) ⟨hT.next.preLt, hT.next.haveDL, hT.next.cas, hT.next.busy⟩

end NoKV.Conc.WM

namespace NoKV.Conc.WM
open NoKV.Conc

theorem N.init : N initSt := by
  refine ⟨Nat.le_refl _, ?_, ?_, ?_, ?_, ?_, ?_⟩
  · intro j _; simp [initSt]
  · intro j; rfl
  · intro j _; simp [initSt]
  · intro tid t ht; simp [initSt] at ht
  · intro i j ti tj hi; simp [initSt] at hi
  · intro tid t ht; simp [initSt] at ht

/-- a freshly spawned thread: every other thread is untouched -/
theorem N.spawn {s : St} (h : N s) (tid : Nat) (k : Kind) (hka : k.isAux = false) (busy' : Bool) (hfree : s.thr tid = none)
    (hti : TI { s with sectionBusy := busy' } ({ kind := k } : Thr))
    (hbusy : ∀ j u, s.thr j = some u → inSec u → busy' = true)
    (huniq : inSec ({ kind := k } : Thr) → ∀ j u, s.thr j = some u → ¬ inSec u) :
    N { (setThr s tid { kind := k }) with sectionBusy := busy' } := by
  have hget : ∀ j u, upd s.thr tid (some ({ kind := k } : Thr)) j = some u →
      (j = tid ∧ u = { kind := k }) ∨ (j ≠ tid ∧ s.thr j = some u) := by
    intro j u hu
    by_cases hj : j = tid
    · subst hj; simp at hu; exact Or.inl ⟨rfl, hu.symm⟩
    · rw [upd_other _ _ _ _ hj] at hu; exact Or.inr ⟨hj, hu⟩
  refine ⟨h.le, h.cntEq, h.begunEq, h.m, ?_, ?_, ?_⟩
  · intro j u hu
    rcases hget j u hu with ⟨_, rfl⟩ | ⟨_, hu'⟩
    · exact hti.of_eq rfl rfl rfl rfl
    · have hU := h.ti j u hu'
      exact ⟨hU.preLt, hU.haveDL, hU.cas, fun p => hbusy j u hu' p⟩
  · intro i j ti tj hi hj si sj
    rcases hget i ti hi with ⟨rfl, rfl⟩ | ⟨hi1, hi'⟩ <;> rcases hget j tj hj with ⟨rfl, rfl⟩ | ⟨hj1, hj'⟩
    · rfl
    · exact absurd sj (huniq si j tj hj')
    · exact absurd si (huniq sj i ti hi')
    · exact h.uniq i j ti tj hi' hj' si sj
  · intro j u hu
    rcases hget j u hu with ⟨_, rfl⟩ | ⟨_, hu'⟩
    · exact hka
    · exact h.noAux j u hu'

theorem N.preserved {c : WMCfg} (hc : c.countsFirst = true) {s s' : St} {a : Act} (h : N s)
    (hs : WM.step c true s a = some s') : N s' := by
  cases a with
  | begin tid i =>
    simp only [WM.step] at hs
    split at hs
    · rename_i hcond
      obtain ⟨hfree, _, hct⟩ := hcond
      obtain ⟨hb, hlt⟩ := hct trivial
      cases hs
      refine N.spawn h tid (.begin i) rfl true hfree ?_ (fun _ _ _ _ => rfl) ?_
      · exact ⟨fun _ => hlt, by simp, by simp, fun _ => rfl⟩
      · intro _ j u hu su
        have := (h.ti j u hu).busy su
        rw [hb] at this; cases this
    · cases hs
  | done tid i =>
    simp only [WM.step] at hs
    split at hs
    · rename_i hcond
      cases hs
      have := N.spawn h tid (.done i) rfl s.sectionBusy hcond.1
        ⟨fun ⟨a, _⟩ => by simp [Kind.isBegin] at a, by simp, by simp, fun ⟨a, _⟩ => by simp [Kind.isBegin] at a⟩
        (fun j u hu su => (h.ti j u hu).busy su) (fun ⟨a, _⟩ => by simp [Kind.isBegin] at a)
      exact this
    · cases hs
  | wait tid i =>
    simp only [WM.step] at hs
    split at hs
    · rename_i hcond
      cases hs
      have := N.spawn h tid (.wait i) rfl s.sectionBusy hcond
        ⟨fun ⟨a, _⟩ => by simp [Kind.isBegin] at a, by simp, by simp, fun ⟨a, _⟩ => by simp [Kind.isBegin] at a⟩
        (fun j u hu su => (h.ti j u hu).busy su) (fun ⟨a, _⟩ => by simp [Kind.isBegin] at a)
      exact this
    · cases hs
  | adv tid =>
    simp only [WM.step] at hs
    split at hs
    · rename_i hcond
      cases hs
      have := N.spawn h tid .adv rfl s.sectionBusy hcond
        ⟨fun ⟨a, _⟩ => by simp [Kind.isBegin] at a, by simp, by simp, fun ⟨a, _⟩ => by simp [Kind.isBegin] at a⟩
        (fun j u hu su => (h.ti j u hu).busy su) (fun ⟨a, _⟩ => by simp [Kind.isBegin] at a)
      exact this
    · cases hs
  | count tid i =>
    simp only [WM.step] at hs
    split at hs
    · rename_i hcond; exact absurd hcond.2.1 (by simp)
    · cases hs
  | publish tid i =>
    simp only [WM.step] at hs
    split at hs
    · rename_i hcond; exact absurd hcond.2 (by simp)
    · cases hs
  | run tid =>
    simp only [WM.step] at hs
    cases ht : s.thr tid with
    | none => simp [ht] at hs
    | some t => simp only [ht] at hs; exact N.step_thr hc h ht hs

theorem N.reachable {c : WMCfg} (hc : c.countsFirst = true) (s : St)
    (hr : Reachable (sys c true) s) : N s := by
  refine Reachable.invariant (S := sys c true) N ?_ ?_ s hr
  · rintro s rfl; exact N.init
  · intro s a s' hn hs; exact N.preserved hc hn hs

end NoKV.Conc.WM

/-
Preservation of the PD allocator invariants by every action (helper lemmas for Props/C27).
-/
import NoKVModel.Conc.PDAllocLemmas

namespace NoKV.Conc.PD
open NoKV.Conc

theorem link_next (c : AllocCfg) (pc : PC) (r : Bool) (h1 : pc ≠ .reserve) (h2 : pc ≠ .reply)
    (h3 : pc ≠ .done) (hl : c.persistAfterReserve = true → r = true) :
    (next c pc = .reply → r = true) ∧ (c.persistAfterReserve = true → next c pc ≠ .reserve → r = true) := by
  refine ⟨?_, fun h _ => hl h⟩
  intro hn
  apply hl
  cases pc with
  | reserve => exact absurd rfl h1
  | reply => exact absurd rfl h2
  | done => exact absurd rfl h3
  | lock => simp [next] at hn
  | read k => cases k <;> simp [next] at hn
  | save =>
    cases h : c.persistAfterReserve <;> cases h' : c.persistSerialized <;> simp_all [next, afterPersist]
  | unlock =>
    cases h : c.persistAfterReserve <;> simp_all [next, afterPersist]

/-- ovf is sticky -/
theorem ovf_mono (c : AllocCfg) (s s' : St) (a : Act) (h : step c s a = some s') (h' : s'.ovf = false) :
    s.ovf = false := by
  cases a with
  | spawn tid k n =>
    simp only [step] at h
    split at h
    · cases h; exact h'
    · cases h
  | restart => simp only [step, restartSt] at h; cases h; exact h'
  | failSave tid =>
    simp only [step] at h
    cases ht : s.thr tid with
    | none => simp [ht] at h
    | some t =>
      simp only [ht] at h
      split at h
      · cases h
      · cases h; exact h'
  | run tid =>
    simp only [step] at h
    cases ht : s.thr tid with
    | none => simp [ht] at h
    | some t =>
      simp only [ht] at h
      unfold stepThr at h
      cases hpc : t.pc <;> simp only [hpc] at h
      · cases h; simp at h'; exact h'.1
      · cases hm : s.mu <;> simp only [hm] at h
        · cases h; exact h'
        · cases h
      · cases h; exact h'
      · cases h; exact h'
      · cases h; exact h'
      · split at h <;> (cases h; exact h')
      · cases h

/-- every thread step preserves `Base`, for every configuration -/
theorem Base.step_thr {c : AllocCfg} (hnr : c.releasesOnError = false) {s s' : St} {tid : Nat} {t : Thr} (hb : Base c s)
    (ht : s.thr tid = some t) (hs : stepThr c s tid t = some s') (hov : s'.ovf = false) :
    Base c s' := by
  have hl := hb.link tid t ht
  unfold stepThr at hs
  cases hpc : t.pc <;> simp only [hpc] at hs
  · -- reserve
    cases hs
    simp only [Bool.or_eq_false_iff, decide_eq_false_iff_not, Nat.not_le] at hov
    exact Base.reserve hb ht hov.2 hpc
  · -- lock
    cases hm : s.mu <;> simp only [hm] at hs
    · cases hs
      exact Base.frame hb ht rfl rfl rfl rfl rfl rfl rfl rfl rfl
        (next_ne_done c .lock (by simp) (by simp)) (by simp [hpc])
        (link_next c .lock t.reserved (by simp) (by simp) (by simp) (fun h => hl.2 h (by simp [hpc])))
    · cases hs
  · -- read
    rename_i k
    cases hs
    exact Base.frame hb ht rfl rfl rfl rfl rfl rfl rfl rfl rfl
      (next_ne_done c (.read k) (by simp) (by simp)) (by simp [hpc])
      (link_next c (.read k) t.reserved (by simp) (by simp) (by simp) (fun h => hl.2 h (by simp [hpc])))
  · -- save
    cases hs
    exact Base.frame hb ht rfl rfl rfl rfl rfl rfl rfl rfl rfl
      (next_ne_done c .save (by simp) (by simp)) (by simp [hpc])
      (link_next c .save t.reserved (by simp) (by simp) (by simp) (fun h => hl.2 h (by simp [hpc])))
  · -- unlock
    cases hs
    exact Base.frame hb ht rfl rfl rfl rfl rfl rfl rfl rfl rfl
      (next_ne_done c .unlock (by simp) (by simp)) (by simp [hpc])
      (link_next c .unlock t.reserved (by simp) (by simp) (by simp) (fun h => hl.2 h (by simp [hpc])))
  · -- reply
    split at hs
    · simp only [hnr, Bool.false_eq_true, if_false] at hs
      cases hs
      exact Base.drop hb ht hpc
    · cases hs
      exact Base.reply hb ht hpc
  · cases hs

/-- every action except `restart` preserves `Base`, for every configuration that does not give
reserved ranges back -/
theorem Base.step_noRestart {c : AllocCfg} (hnr : c.releasesOnError = false) {s s' : St} {a : Act} (hb : Base c s)
    (ha : a ≠ .restart) (hs : step c s a = some s') (hov : s'.ovf = false) : Base c s' := by
  cases a with
  | restart => exact absurd rfl ha
  | failSave tid =>
    simp only [step] at hs
    cases ht : s.thr tid with
    | none => simp [ht] at hs
    | some t =>
      simp only [ht] at hs
      split at hs
      · cases hs
      · rename_i hnd
        cases hs
        exact Base.frame hb ht rfl rfl rfl rfl rfl rfl rfl rfl rfl hnd hnd (hb.link tid t ht)
  | spawn tid k n =>
    simp only [step] at hs
    split at hs
    · rename_i hcond
      cases hs
      exact Base.spawn hb tid k n hcond.1 hcond.2.1
    · cases hs
  | run tid =>
    simp only [step] at hs
    cases ht : s.thr tid with
    | none => simp [ht] at hs
    | some t => simp only [ht] at hs; exact Base.step_thr hnr hb ht hs hov

theorem init_ctr (c : AllocCfg) (start : Nat) (h : start < MAXU) :
    newCounter (resolve c start 0) < MAXU := by
  unfold newCounter resolve MAXU at *
  cases c.resolveBumps <;> simp <;> (repeat' split) <;> omega

theorem Base.init (c : AllocCfg) (start : Kind → Nat) (h : ∀ k, start k < MAXU) :
    Base c (initSt c start) := by
  refine ⟨?_, h, ?_, ?_, ?_, ?_, ?_, ?_, ?_⟩
  · intro k
    exact init_ctr c (start k) (h k)
  · intro r hr; simp [initSt] at hr
  · simp [initSt]
  all_goals (intros; simp_all [initSt])

theorem Cov.init (c : AllocCfg) (start : Kind → Nat) : Cov (initSt c start) := by
  refine ⟨?_, ?_, ?_, ?_, ?_, ?_⟩
  · intro k; simp [initSt]
  · intro r hr; simp [initSt] at hr
  all_goals (intros; simp_all [initSt])

/-- a thread step preserves `Cov` under the good configuration -/
theorem Cov.step_thr {c : AllocCfg} (hg : c.Good) {s s' : St} {tid : Nat} {t : Thr}
    (hb : Base c s) (hc : Cov s)
    (ht : s.thr tid = some t) (hs : stepThr c s tid t = some s') (hov : s'.ovf = false) :
    Cov s' := by
  obtain ⟨g1, g2, g3, g4⟩ := hg
  have hl := hb.link tid t ht
  have hcr := hc.crit tid t ht
  unfold stepThr at hs
  cases hpc : t.pc <;> simp only [hpc] at hs
  · -- reserve
    cases hs
    simp only [Bool.or_eq_false_iff, decide_eq_false_iff_not, Nat.not_le] at hov
    have hn := hb.nOk tid t ht
    obtain ⟨e1, _⟩ := reserve_arith (s.ctr t.kind) t.n hn hov.2
    have hnm : s.mu ≠ some tid := by
      intro h; have := hcr.mpr h; simp [hpc, critical] at this
    refine Cov.trans hc ht rfl ?_ rfl rfl (fun j _ => Iff.rfl) ?_ ?_ ?_
    · intro k
      show s.ctr k ≤ upd s.ctr t.kind _ k
      rw [e1]
      by_cases hk : k = t.kind
      · subst hk; simp
      · rw [upd_other _ _ _ _ hk]; exact Nat.le_refl _
    · simp [next, g1, g2, persistEntry, critical]; exact hnm
    · intro k hk; simp [next, g1, g2, persistEntry, hasRead] at hk
    · intro hsv; simp [next, g1, g2, persistEntry, saved] at hsv
  · -- lock
    cases hm : s.mu <;> simp only [hm] at hs
    · cases hs
      refine Cov.trans hc ht rfl (fun _ => Nat.le_refl _) rfl rfl ?_ ?_ ?_ ?_
      · intro j hj
        show some tid = some j ↔ s.mu = some j
        rw [hm]; simp; exact fun h => hj h.symm
      · simp [next, critical]
      · intro k hk; simp [next, hasRead] at hk
      · intro hsv; simp [next, saved] at hsv
    · cases hs
  · -- read k
    rename_i k
    cases hs
    have hmu : s.mu = some tid := hcr.mp (by simp [hpc, critical])
    have hres : t.reserved = true := hl.2 g2 (by simp [hpc])
    have hle := hb.thrLe tid t ht hres
    refine Cov.trans hc ht rfl (fun _ => Nat.le_refl _) rfl rfl (fun j _ => Iff.rfl) ?_ ?_ ?_
    · cases k <;> simp [next, critical] <;> exact hmu
    · intro k' hk'
      cases k with
      | id =>
        -- next = read ts: only `id` counts as loaded
        cases k' with
        | id =>
          show s.ck .id ≤ upd t.rd .id (s.ctr .id) .id ∧ upd t.rd .id (s.ctr .id) .id ≤ s.ctr .id ∧ _
          simp only [upd_same]
          exact ⟨hc.ckLe .id, Nat.le_refl _, fun hk => hk ▸ hle⟩
        | ts => simp [next, hasRead] at hk'
      | ts =>
        -- next = save: both are loaded; `id` was loaded by the previous step
        cases k' with
        | ts =>
          show s.ck .ts ≤ upd t.rd .ts (s.ctr .ts) .ts ∧ upd t.rd .ts (s.ctr .ts) .ts ≤ s.ctr .ts ∧ _
          simp only [upd_same]
          exact ⟨hc.ckLe .ts, Nat.le_refl _, fun hk => hk ▸ hle⟩
        | id =>
          have := hc.rdOk tid t ht .id (by simp [hpc, hasRead])
          show s.ck .id ≤ upd t.rd .ts (s.ctr .ts) .id ∧ upd t.rd .ts (s.ctr .ts) .id ≤ s.ctr .id ∧ _
          rw [upd_other _ _ _ _ (by simp)]
          exact this
    · intro hsv; cases k <;> simp [next, saved] at hsv
  · -- save
    split at hs
    · -- the checkpoint write fails: the checkpoint is unchanged
      rename_i hf
      cases hs
      have hmu : s.mu = some tid := hcr.mp (by simp [hpc, critical])
      refine Cov.trans hc ht rfl (fun _ => Nat.le_refl _) rfl rfl (fun j _ => Iff.rfl) ?_ ?_ ?_
      · simp [next, g1, critical]; exact hmu
      · intro k hk; simp [next, g1, hasRead] at hk
      · intro _ hff; simp only at hff; rw [hf] at hff; cases hff
    · rename_i hf
      cases hs
      exact Cov.save hc ht hpc (by simp [next, g1]) (by simpa using hf)
  · -- unlock
    cases hs
    have hmu : s.mu = some tid := hcr.mp (by simp [hpc, critical])
    refine Cov.trans hc ht rfl (fun _ => Nat.le_refl _) rfl rfl ?_ ?_ ?_ ?_
    · intro j hj
      show none = some j ↔ s.mu = some j
      rw [hmu]; simp; exact fun h => hj h.symm
    · simp [next, afterPersist, g2, critical]
    · intro k hk; simp [next, afterPersist, g2, hasRead] at hk
    · intro _ hff; exact hc.savedOk tid t ht (by simp [hpc, saved]) hff
  · -- reply
    split at hs
    · simp only [g4, Bool.false_eq_true, if_false] at hs
      cases hs
      have hnm : s.mu ≠ some tid := by
        intro h; have := hcr.mpr h; simp [hpc, critical] at this
      refine Cov.trans hc ht rfl (fun _ => Nat.le_refl _) rfl rfl (fun j _ => Iff.rfl) ?_ ?_ ?_
      · simp [critical]; exact hnm
      · intro k hk; simp [hasRead] at hk
      · intro hsv; simp [saved] at hsv
    · rename_i hf
      cases hs
      exact Cov.reply hc ht hpc (by simpa using hf)
  · cases hs

/-- the combined invariant, guarded by "no counter has reached MaxUint64" -/
def Inv (c : AllocCfg) (s : St) : Prop := s.ovf = false → Base c s ∧ Cov s

theorem Inv.preserved {c : AllocCfg} (hg : c.Good) {s s' : St} {a : Act} (hi : Inv c s)
    (hs : step c s a = some s') : Inv c s' := by
  intro hov
  have hov0 := ovf_mono c s s' a hs hov
  obtain ⟨hb, hc⟩ := hi hov0
  by_cases ha : a = .restart
  · subst ha
    simp only [step] at hs
    cases hs
    have hck : ∀ k, s.ck k < MAXU := fun k => Nat.lt_of_le_of_lt (hc.ckLe k) (hb.ctrLt k)
    have hr := fun k => restart_ctr c hg.2.2.1 (s.start k) (s.ck k) (hb.startLt k) (hck k)
    constructor
    · refine ⟨fun k => (hr k).2, hb.startLt, ?_, hb.repDisj, ?_, ?_, ?_, ?_, ?_⟩
      · intro r hrm; exact Nat.le_trans (hc.repCk r hrm) (hr r.kind).1
      all_goals (intros; simp_all [restartSt])
    · refine ⟨fun k => (hr k).1, hc.repCk, ?_, ?_, ?_, ?_⟩
      all_goals (intros; simp_all [restartSt])
  · refine ⟨Base.step_noRestart hg.2.2.2 hb ha hs hov, ?_⟩
    cases a with
    | restart => exact absurd rfl ha
    | spawn tid k n =>
      simp only [step] at hs
      split at hs
      · rename_i hcond
        cases hs
        have : entry c = .reserve := by simp [entry, hg.2.1]
        rw [this]
        exact Cov.spawn hc tid k n hcond.1
      · cases hs
    | failSave tid =>
      simp only [step] at hs
      cases ht : s.thr tid with
      | none => simp [ht] at hs
      | some t =>
        simp only [ht] at hs
        split at hs
        · cases hs
        · cases hs
          refine Cov.trans hc ht rfl (fun _ => Nat.le_refl _) rfl rfl (fun j _ => Iff.rfl) (hc.crit tid t ht)
            (hc.rdOk tid t ht) ?_
          intro _ hff; simp at hff
    | run tid =>
      simp only [step] at hs
      cases ht : s.thr tid with
      | none => simp [ht] at hs
      | some t => simp only [ht] at hs; exact Cov.step_thr hg hb hc ht hs hov

theorem Inv.reachable {c : AllocCfg} (hg : c.Good) (s : St) (h : Reachable (sys c) s) : Inv c s := by
  refine Reachable.invariant (S := sys c) (Inv c) ?_ ?_ s h
  · rintro s ⟨start, hst, rfl⟩ _
    exact ⟨Base.init c start hst, Cov.init c start⟩
  · intro s a s' hi hs
    exact Inv.preserved hg hi hs

end NoKV.Conc.PD

namespace NoKV.Conc.PD

theorem overlaps_iff (a b : Rng) : overlaps a b = true ↔ ¬ Disj a b := by
  unfold overlaps Disj
  simp only [Bool.and_eq_true, beq_iff_eq, Bool.not_eq_true', Bool.or_eq_false_iff,
    decide_eq_false_iff_not]
  constructor
  · rintro ⟨hk, h1, h2⟩ h
    rcases h hk with h | h
    · exact h1 h
    · exact h2 h
  · intro h
    refine ⟨Classical.byContradiction fun hk => h (fun hk' => absurd hk' hk), ?_, ?_⟩
    · intro h1; exact h (fun _ => Or.inl h1)
    · intro h2; exact h (fun _ => Or.inr h2)

theorem hasDup_false_of_pairwise (l : List Rng) (h : l.Pairwise Disj) : hasDup l = false := by
  induction l with
  | nil => rfl
  | cons r rs ih =>
    obtain ⟨h1, h2⟩ := List.pairwise_cons.mp h
    simp only [hasDup, Bool.or_eq_false_iff]
    refine ⟨?_, ih h2⟩
    rw [List.any_eq_false]
    intro x hx hov
    exact (overlaps_iff r x).mp hov (h1 x hx)

end NoKV.Conc.PD

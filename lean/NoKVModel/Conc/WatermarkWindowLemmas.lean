/-
Refinement of the window-free whole-call semantics by the sliding-window model (good window rules).
Helper lemmas for Props/C32.
-/
import NoKVModel.Conc.WatermarkWindow

namespace NoKV.Conc.WMW
open NoKV.Conc NoKV.Conc.WM

theorem grow_ge_size (size needed : Nat) : ∀ f, size ≤ grow size needed f := by
  intro f
  induction f generalizing size with
  | zero => exact Nat.le_refl _
  | succ f ih =>
    unfold grow
    split
    · exact Nat.le_trans (by omega) (ih (size * 2))
    · exact Nat.le_refl _

/-- the doubling loop ends with room for `needed` slots -/
theorem grow_ge_needed (needed : Nat) : ∀ f size, 0 < size → needed ≤ size + f → needed ≤ grow size needed f := by
  intro f
  induction f with
  | zero => intro size _ h; simpa [grow] using h
  | succ f ih =>
    intro size hp h
    unfold grow
    split
    · exact ih (size * 2) (by omega) (by omega)
    · omega

/-- what a rebuild does, for the good rules: the new window starts at doneUntil, contains the
requested index (if it is not below the mark), and every index at or above the mark keeps its count -/
theorem rebuild_spec (c : WinCfg) (hc : c.Good) (w : WSt) (index : Nat)
    (hb : w.base ≤ w.doneUntil) (hs : 0 < w.size) :
    let w' := rebuild c w index
    w'.doneUntil = w.doneUntil ∧ w'.lastIndex = w.lastIndex ∧ w'.base = w.doneUntil ∧ w.size ≤ w'.size ∧
    (w.doneUntil ≤ index → inWin w' index) ∧
    (∀ j, w.doneUntil ≤ j → cntOf w' j = cntOf w j) := by
  obtain ⟨hg, hcp, hbd⟩ := hc
  intro w'
  have hsz : (if w.size = 0 then defaultWindow else w.size) = w.size := by
    have : w.size ≠ 0 := by omega
    simp [this]
  have hbase : w'.base = w.doneUntil := by simp [w', rebuild, hbd]
  have hsize : w'.size = grow w.size ((if index < w.doneUntil then w.doneUntil else index) - w.doneUntil + 1)
      ((if index < w.doneUntil then w.doneUntil else index) - w.doneUntil + 1) := by
    simp [w', rebuild, hbd, hg, hsz]
  have hge : w.size ≤ w'.size := by rw [hsize]; exact grow_ge_size _ _ _
  refine ⟨rfl, rfl, hbase, hge, ?_, ?_⟩
  · intro hi
    have hn := grow_ge_needed ((if index < w.doneUntil then w.doneUntil else index) - w.doneUntil + 1)
      ((if index < w.doneUntil then w.doneUntil else index) - w.doneUntil + 1) w.size hs (by omega)
    rw [← hsize] at hn
    have : ¬ index < w.doneUntil := by omega
    simp only [this, if_false] at hn
    unfold inWin
    rw [hbase]
    omega
  · intro j hj
    unfold cntOf
    by_cases hin : inWin w j
    · have hin' : inWin w' j := by
        unfold inWin at hin ⊢
        rw [hbase]; omega
      have hslot : w'.slot j = w.slot j := by
        have h1 : w.doneUntil ≤ j ∧ j < w.doneUntil + w'.size := by
          unfold inWin at hin'; rw [hbase] at hin'; exact hin'
        show (if (if c.baseAtDone then w.doneUntil else w.doneUntil + 1) ≤ j ∧ _ ∧ inWin w j ∧ _ then w.slot j else 0) = w.slot j
        rw [if_pos]
        refine ⟨by simp [hbd]; exact h1.1, ?_, hin, Or.inl hcp⟩
        have := h1.2
        simp only [hbd, if_true]
        rw [hsize] at this
        simpa [hg, hsz] using this
      simp [hin, hin', hslot]
    · have hslot : w'.slot j = 0 := by
        show (if _ ∧ _ ∧ inWin w j ∧ _ then w.slot j else 0) = 0
        rw [if_neg]
        intro h; exact hin h.2.2.1
      simp only [hin, if_false]
      split <;> simp [hslot]

theorem ensure_spec (c : WinCfg) (hc : c.Good) (w : WSt) (i : Nat)
    (hb : w.base ≤ w.doneUntil) (hs : 0 < w.size) :
    let w' := ensure c w i
    w'.doneUntil = w.doneUntil ∧ w'.lastIndex = w.lastIndex ∧ w'.base ≤ w'.doneUntil ∧ 0 < w'.size ∧
    (w.doneUntil ≤ i → inWin w' i) ∧
    (∀ j, w.doneUntil ≤ j → cntOf w' j = cntOf w j) := by
  intro w'
  by_cases hin : inWin w i
  · have : w' = w := by simp [w', ensure, hin]
    rw [this]
    exact ⟨rfl, rfl, hb, hs, fun _ => hin, fun _ _ => rfl⟩
  · have : w' = rebuild c w i := by simp [w', ensure, hin]
    rw [this]
    obtain ⟨a, b, d, e, f, g⟩ := rebuild_spec c hc w i hb hs
    exact ⟨a, b, by rw [d, a]; exact Nat.le_refl _, by omega, f, g⟩

theorem Rel.ens {c : WinCfg} (hc : c.Good) {w : WSt} {a : ASt} (h : Rel w a) (i : Nat) :
    Rel (ensure c w i) a ∧ (w.doneUntil ≤ i → inWin (ensure c w i) i) ∧
    (ensure c w i).doneUntil = w.doneUntil ∧ (ensure c w i).lastIndex = w.lastIndex := by
  obtain ⟨e1, e2, e3, e4, e5, e6⟩ := ensure_spec c hc w i h.baseLe h.sizePos
  refine ⟨⟨by rw [e1]; exact h.du, by rw [e2]; exact h.li, e3, e4, ?_⟩, e5, e1, e2⟩
  intro j hj
  rw [e1] at hj
  rw [e6 j hj]; exact h.cnt j hj

theorem Rel.slotAdd {c : WinCfg} (hc : c.Good) {w : WSt} {a : ASt} (h : Rel w a) (i : Nat) (up : Bool) :
    Rel (addSlot c w i (if up then 1 else -1)) (aAddSlot a i up) := by
  obtain ⟨hr, hin, hd, hl⟩ := h.ens hc (c := c) i
  unfold addSlot
  simp only
  by_cases hiw : inWin (ensure c w i) i
  · simp only [hiw, if_true]
    refine ⟨by simp [aAddSlot, hr.du], by simp [aAddSlot, hr.li], hr.baseLe, hr.sizePos, ?_⟩
    intro j hj
    have hj' : (ensure c w i).doneUntil ≤ j := hj
    have hold := hr.cnt j hj'
    show upd a.cnt i (a.cnt i + _) j = cntOf _ j
    unfold cntOf at hold ⊢
    by_cases hji : j = i
    · subst hji
      have hin2 : inWin { ensure c w j with slot := upd (ensure c w j).slot j ((ensure c w j).slot j + (if up then 1 else -1)) } j := hiw
      simp only [upd_same, hin2, if_true]
      simp only [hiw, if_true] at hold
      rw [hold]
    · rw [upd_other _ _ _ _ hji]
      rw [hold]
      have : ∀ (p : Prop) [Decidable p], (if p then upd (ensure c w i).slot i ((ensure c w i).slot i + (if up then 1 else -1)) j else 0)
          = (if p then (ensure c w i).slot j else 0) := by
        intro p _; rw [upd_other _ _ _ _ hji]
      exact (this _).symm
  · simp only [hiw, if_false]
    -- the add is skipped: only possible for an index below the mark
    have hlt : i < w.doneUntil := by
      apply Classical.byContradiction; intro hn; exact hiw (hin (by omega))
    refine ⟨by simp [aAddSlot, hr.du], by simp [aAddSlot, hr.li], hr.baseLe, hr.sizePos, ?_⟩
    intro j hj
    have hj' : (ensure c w i).doneUntil ≤ j := hj
    show upd a.cnt i (a.cnt i + _) j = cntOf _ j
    have hji : j ≠ i := by rw [hd] at hj'; omega
    rw [upd_other _ _ _ _ hji]
    exact hr.cnt j hj'

theorem Rel.advance {c : WinCfg} (hc : c.Good) : ∀ (f : Nat) {w : WSt} {a : ASt}, Rel w a →
    Rel (adv c f w) (aAdv c.wm f a) := by
  intro f
  induction f with
  | zero => intro w a h; exact h
  | succ f ih =>
    intro w a h
    unfold WMW.adv aAdv
    rw [h.du, h.li]
    by_cases hge : w.doneUntil ≥ w.lastIndex
    · simp only [hge, if_true]; exact h
    · simp only [hge, if_false]
      obtain ⟨hr, hin, hd, hl⟩ := h.ens hc (c := c) (w.doneUntil + 1)
      have hin1 := hin (by omega)
      -- both the slot at the mark and the next slot are inside the window
      have hinD : inWin (ensure c w (w.doneUntil + 1)) w.doneUntil := by
        unfold inWin at hin1 ⊢
        have := hr.baseLe
        rw [hd] at this
        omega
      have c0 : a.cnt w.doneUntil = (ensure c w (w.doneUntil + 1)).slot w.doneUntil := by
        have := hr.cnt w.doneUntil (by rw [hd]; exact Nat.le_refl _)
        simpa [cntOf, hinD] using this
      have c1 : a.cnt (w.doneUntil + 1) = (ensure c w (w.doneUntil + 1)).slot (w.doneUntil + 1) := by
        have := hr.cnt (w.doneUntil + 1) (by rw [hd]; omega)
        simpa [cntOf, hin1] using this
      have hbl : (ensure c w (w.doneUntil + 1)).base ≤ w.doneUntil := by
        have := hr.baseLe; rw [hd] at this; exact this
      simp only [hd]
      rw [c0, c1]
      by_cases hh : c.wm.holdsAtDone = true ∧ (ensure c w (w.doneUntil + 1)).slot w.doneUntil > 0
      · have hh' : c.wm.holdsAtDone = true ∧ (ensure c w (w.doneUntil + 1)).base ≤ w.doneUntil ∧
            (ensure c w (w.doneUntil + 1)).slot w.doneUntil > 0 := ⟨hh.1, hbl, hh.2⟩
        simp only [hh, hh', and_self, if_true]
        exact hr
      · have hh' : ¬ (c.wm.holdsAtDone = true ∧ (ensure c w (w.doneUntil + 1)).base ≤ w.doneUntil ∧
            (ensure c w (w.doneUntil + 1)).slot w.doneUntil > 0) := fun x => hh ⟨x.1, x.2.2⟩
        simp only [hh, hh', if_false]
        by_cases hn : (ensure c w (w.doneUntil + 1)).slot (w.doneUntil + 1) > 0
        · simp only [hn, if_true]; exact hr
        · simp only [hn, if_false]
          apply ih
          refine ⟨rfl, hl.symm, ?_, hr.sizePos, ?_⟩
          · show (ensure c w (w.doneUntil + 1)).base ≤ w.doneUntil + 1
            omega
          intro j hj
          have hj' : w.doneUntil + 1 ≤ j := hj
          have := hr.cnt j (by rw [hd]; omega)
          simpa [cntOf, inWin] using this

theorem Rel.tryAdv {c : WinCfg} (hc : c.Good) {w : WSt} {a : ASt} (h : Rel w a) :
    Rel (tryAdvance c w) (aTry c.wm a) := by
  unfold WMW.tryAdvance aTry
  rw [h.du, h.li]
  exact Rel.advance hc _ h

theorem Rel.addIdx {c : WinCfg} (hc : c.Good) {w : WSt} {a : ASt} (h : Rel w a) (i : Nat) (up : Bool) :
    Rel (addIndex c w i up) (aAddIndex c.wm a i up) := by
  unfold WMW.addIndex aAddIndex
  split
  · exact h
  · exact Rel.tryAdv hc (h.slotAdd hc i up)

theorem Rel.setL {w : WSt} {a : ASt} (h : Rel w a) (i : Nat) : Rel (setLast w i) (aSetLast a i) := by
  refine ⟨h.du, ?_, h.baseLe, h.sizePos, h.cnt⟩
  show (if a.li < i then i else a.li) = (if w.lastIndex < i then i else w.lastIndex)
  rw [h.li]

theorem Rel.foldAdd {c : WinCfg} (hc : c.Good) (up : Bool) (is : List Nat) {w : WSt} {a : ASt} (h : Rel w a) :
    Rel (is.foldl (fun w i => addIndex c w i up) w) (is.foldl (fun a i => aAddIndex c.wm a i up) a) := by
  induction is generalizing w a with
  | nil => exact h
  | cons i is ih => exact ih (h.addIdx hc i up)

theorem Rel.callStep {c : WinCfg} (hc : c.Good) {w : WSt} {a : ASt} (h : Rel w a) (k : Call) :
    Rel (call c w k) (aCall c.wm a k) := by
  cases k with
  | begin i =>
    simp only [WMW.call, aCall]
    split
    · exact Rel.tryAdv hc ((h.addIdx hc i true).setL i)
    · exact (h.setL i).addIdx hc i true
  | done i => simp only [WMW.call, aCall]; exact h.addIdx hc i false
  | beginMany is =>
    simp only [WMW.call, aCall]
    cases is.getLast? with
    | none => exact h
    | some l =>
      simp only
      split
      · exact Rel.tryAdv hc ((h.foldAdd hc true is).setL l)
      · exact (h.setL l).foldAdd hc true is
  | doneMany is => simp only [WMW.call, aCall]; exact h.foldAdd hc false is

theorem Rel.init : Rel initW initA :=
  ⟨rfl, rfl, Nat.le_refl _, by decide, fun j _ => by simp only [cntOf, initW, initA]; exact (ite_self (0 : Int)).symm⟩

theorem Rel.run {c : WinCfg} (hc : c.Good) (cs : List Call) : Rel (runW c cs) (runA c.wm cs) := by
  unfold runW runA
  have : ∀ (w : WSt) (a : ASt), Rel w a → Rel (cs.foldl (call c) w) (cs.foldl (aCall c.wm) a) := by
    induction cs with
    | nil => intro w a h; exact h
    | cons k ks ih => intro w a h; exact ih _ _ (h.callStep hc k)
  exact this _ _ Rel.init

/-! ### the window-free counts are #Begin − #Done, and the mark stops only where it must -/

def CountsOk (a : ASt) : Prop := ∀ j, a.cnt j = (a.nBegin j : Int) - (a.nDone j : Int)

theorem aAdv_fields (c : WMCfg) : ∀ f a, (aAdv c f a).cnt = a.cnt ∧ (aAdv c f a).nBegin = a.nBegin ∧
    (aAdv c f a).nDone = a.nDone ∧ (aAdv c f a).li = a.li ∧ a.du ≤ (aAdv c f a).du := by
  intro f
  induction f with
  | zero => intro a; exact ⟨rfl, rfl, rfl, rfl, Nat.le_refl _⟩
  | succ f ih =>
    intro a
    unfold aAdv
    split
    · exact ⟨rfl, rfl, rfl, rfl, Nat.le_refl _⟩
    · split
      · exact ⟨rfl, rfl, rfl, rfl, Nat.le_refl _⟩
      · split
        · exact ⟨rfl, rfl, rfl, rfl, Nat.le_refl _⟩
        · obtain ⟨a1, a2, a3, a4, a5⟩ := ih { a with du := a.du + 1 }
          exact ⟨a1, a2, a3, a4, by have : a.du + 1 ≤ _ := a5; omega⟩

theorem CountsOk.addIdx {c : WMCfg} {a : ASt} (h : CountsOk a) (i : Nat) (up : Bool) :
    CountsOk (aAddIndex c a i up) := by
  unfold aAddIndex
  split
  · exact h
  · intro j
    unfold aTry
    obtain ⟨e1, e2, e3, _, _⟩ := aAdv_fields c ((aAddSlot a i up).li - (aAddSlot a i up).du + 1) (aAddSlot a i up)
    rw [e1, e2, e3]
    have := h j
    cases up
    · show upd a.cnt i (a.cnt i + -1) j = (a.nBegin j : Int) - ((upd a.nDone i (a.nDone i + 1) j : Nat) : Int)
      by_cases hji : j = i
      · subst hji; simp only [upd_same]; omega
      · rw [upd_other _ _ _ _ hji, upd_other _ _ _ _ hji]; exact this
    · show upd a.cnt i (a.cnt i + 1) j = ((upd a.nBegin i (a.nBegin i + 1) j : Nat) : Int) - (a.nDone j : Int)
      by_cases hji : j = i
      · subst hji; simp only [upd_same]; omega
      · rw [upd_other _ _ _ _ hji, upd_other _ _ _ _ hji]; exact this

theorem CountsOk.tryA {c : WMCfg} {a : ASt} (h : CountsOk a) : CountsOk (aTry c a) := by
  intro j
  unfold aTry
  obtain ⟨e1, e2, e3, _, _⟩ := aAdv_fields c (a.li - a.du + 1) a
  rw [e1, e2, e3]; exact h j

theorem CountsOk.foldAdd {c : WMCfg} (up : Bool) (is : List Nat) {a : ASt} (h : CountsOk a) :
    CountsOk (is.foldl (fun a i => aAddIndex c a i up) a) := by
  induction is generalizing a with
  | nil => exact h
  | cons i is ih => exact ih (h.addIdx i up)

theorem CountsOk.callStep {c : WMCfg} {a : ASt} (h : CountsOk a) (k : Call) : CountsOk (aCall c a k) := by
  cases k with
  | begin i =>
    simp only [aCall]
    split
    · exact CountsOk.tryA (a := aSetLast (aAddIndex c a i true) i) (h.addIdx i true)
    · exact CountsOk.addIdx (a := aSetLast a i) h i true
  | done i => simp only [aCall]; exact h.addIdx i false
  | beginMany is =>
    simp only [aCall]
    cases is.getLast? with
    | none => exact h
    | some l =>
      simp only
      split
      · exact CountsOk.tryA (a := aSetLast (is.foldl (fun a i => aAddIndex c a i true) a) l) (h.foldAdd true is)
      · exact CountsOk.foldAdd (a := aSetLast a l) true is h
  | doneMany is => simp only [aCall]; exact h.foldAdd false is

theorem CountsOk.run (c : WMCfg) (cs : List Call) : CountsOk (runA c cs) := by
  unfold runA
  have : ∀ a, CountsOk a → CountsOk (cs.foldl (aCall c) a) := by
    induction cs with
    | nil => intro a h; exact h
    | cons k ks ih => intro a h; exact ih _ (h.callStep k)
  exact this _ (fun j => by simp [initA])

/-- the mark cannot move further -/
def Settled (c : WMCfg) (a : ASt) : Prop :=
  a.du ≥ a.li ∨ (c.holdsAtDone = true ∧ a.cnt a.du > 0) ∨ a.cnt (a.du + 1) > 0

theorem aAdv_settled (c : WMCfg) : ∀ f a, a.li ≤ a.du + f → f ≠ 0 → Settled c (aAdv c f a) := by
  intro f
  induction f with
  | zero => intro a _ h; exact absurd rfl h
  | succ f ih =>
    intro a hf _
    unfold aAdv
    split
    · rename_i h; exact Or.inl h
    · split
      · rename_i h; exact Or.inr (Or.inl h)
      · split
        · rename_i h; exact Or.inr (Or.inr h)
        · rename_i h1 _ _
          by_cases hf0 : f = 0
          · subst hf0
            left
            show (aAdv c 0 { a with du := a.du + 1 }).du ≥ (aAdv c 0 { a with du := a.du + 1 }).li
            simp only [aAdv]; show a.du + 1 ≥ a.li; omega
          · exact ih { a with du := a.du + 1 } (by show a.li ≤ a.du + 1 + f; omega) hf0

theorem aTry_settled (c : WMCfg) (a : ASt) : Settled c (aTry c a) := by
  unfold aTry
  exact aAdv_settled c _ a (by omega) (by omega)

end NoKV.Conc.WMW

/-
C32 model: utils/watermarker.go — lock-free "done until" watermark.

  Begin(i)        as-is: setLastIndex(i); addIndex(i,+1)                 (publish, then count)
                  good : addIndex(i,+1); setLastIndex(i); tryAdvance()   (count, then publish)
  Done(i)         addIndex(i,-1)
  addIndex(i,δ)   slot(i).Add(δ); tryAdvance()                           (i = 0 is ignored)
  tryAdvance      loop: d := load doneUntil; L := load lastIndex; if d >= L return;
                        if load slot(d+1) > 0 return; if CAS(doneUntil, d, d+1) { notify(d+1) }
  BeginMany(is)   for i in is: addIndex(i,+1);  setLastIndex(last of is);  tryAdvance()
                  (= threads `count i` … followed by `publish last`; DoneMany(is) = Done(i) …)
  WaitForMark(i)  if doneUntil >= i return; lock; if doneUntil >= i {unlock; return};
                  register waiter; unlock; sleep until notified
  notify(u)       under mu: wake and drop every waiter with index <= u

One micro-step = one atomic load / add / CAS or one mutex section; the values a thread has
loaded are thread-local.  The pending counts are modelled as a map index ↦ Int: the sliding
window (`ensureWindow` / `rebuildWindowLocked`) is NOT part of the micro-step model — it is
exercised by the sequential correspondence only (far-apart indices force rebuilds).

Ghost counters for stating the property: `nBegun i` = number of Begin(i) calls that executed
their first micro-step, `nCounted i` = number of `+1` on slot i, `nDoneDec i` = number of `-1`.
"Index i is begun and unfinished" := nDoneDec i < nBegun i.

Configuration (facts re-extracted from the source):
  countsFirst   Begin increments the pending count before it publishes lastIndex
  tracksZero    addIndex counts index 0 like any other index (as-is: `if index == 0 { return }`,
                and such a call does not even run tryAdvance; the model then has no Begin(0)/Done(0):
                the driver maps Begin(0) to a bare tryAdvance and Done(0) to nothing)
  holdsAtDone   tryAdvance additionally loads the slot AT doneUntil and returns while it is
                positive (an index equal to the mark that is begun again holds the mark)
-/
import NoKVModel.Conc.Sys

namespace NoKV.Conc.WM
open NoKV.Conc

structure WMCfg where
  countsFirst : Bool
  tracksZero : Bool := false     -- addIndex counts index 0 (no early return, window base 0)
  holdsAtDone : Bool := false    -- tryAdvance returns while the slot AT doneUntil is pending
  deriving DecidableEq, Repr

def WMCfg.good : WMCfg := ⟨true, true, true⟩
def WMCfg.Good (c : WMCfg) : Prop := c.countsFirst = true
instance WMCfg.decGood (c : WMCfg) : Decidable c.Good := by unfold WMCfg.Good; exact inferInstance

inductive Instr where
  | setLast (i : Nat)          -- setLastIndex(i)  (CAS loop = atomic max)
  | add (i : Nat) (up : Bool)  -- slot(i).Add(±1)
  | advance                    -- tryAdvance()
  | wait (i : Nat)             -- WaitForMark(i)
  | endBegin                   -- ghost: both effects of Begin are done
  deriving DecidableEq, Repr

inductive Kind where
  | begin (i : Nat)
  | done (i : Nat)
  | wait (i : Nat)
  | adv                        -- a bare tryAdvance() (what Begin(0) amounts to when index 0 is ignored)
  | count (i : Nat)            -- BeginMany, one element: addIndex(i,+1)
  | publish (i : Nat)          -- BeginMany, tail: setLastIndex(last); tryAdvance()
  deriving DecidableEq, Repr

def progOf (c : WMCfg) : Kind → List Instr
  | .begin i =>
    if c.countsFirst then [.add i true, .advance, .setLast i, .endBegin, .advance]
    else [.setLast i, .add i true, .endBegin, .advance]
  | .done i => [.add i false, .advance]
  | .wait i => [.wait i]
  | .adv => [.advance]
  | .count i => [.add i true, .advance]
  | .publish i => [.setLast i, .advance]

/-- position inside the current instruction -/
inductive Loc where
  | start
  | haveD (d : Nat)            -- tryAdvance: doneUntil loaded
  | haveDL (d : Nat)           -- tryAdvance: lastIndex loaded, d < L; about to load slot(d)  (holdsAtDone only)
  | haveDH (d : Nat)           -- tryAdvance: d < L (and slot(d) was <= 0); about to load slot(d+1)
  | cas (d : Nat)              -- tryAdvance: slot(d+1) loaded, it was <= 0
  | notify (u : Nat)           -- tryAdvance: CAS succeeded, waiters not yet notified
  | w2                         -- WaitForMark: fast path failed, before the mutex section
  | sleeping                   -- WaitForMark: registered, waiting for the channel
  deriving DecidableEq, Repr

structure Thr where
  kind : Kind
  stage : Nat := 0             -- index of the current instruction in progOf
  loc : Loc := .start
  notified : Bool := false     -- the waiter's channel has been closed
  returned : Bool := false     -- WaitForMark returned
  deriving DecidableEq, Repr

structure St where
  doneUntil : Nat
  lastIndex : Nat
  cnt : Nat → Int
  thr : Nat → Option Thr
  nBegun : Nat → Nat
  nCounted : Nat → Nat
  nDoneDec : Nat → Nat
  sectionBusy : Bool           -- some Begin has not reached `endBegin` yet

inductive Act where
  | begin (tid i : Nat)
  | done (tid i : Nat)
  | wait (tid i : Nat)
  | adv (tid : Nat)
  | count (tid i : Nat)
  | publish (tid i : Nat)
  | run (tid : Nat)

def setThr (s : St) (tid : Nat) (t : Thr) : St := { s with thr := upd s.thr tid (some t) }

def Kind.idx : Kind → Nat
  | .begin i => i
  | .done i => i
  | .wait i => i
  | .adv => 0
  | .count i => i
  | .publish i => i

def Kind.isBegin : Kind → Bool
  | .begin _ => true
  | _ => false

def Kind.isCount : Kind → Bool
  | .count _ => true
  | _ => false

/-- the two pieces of BeginMany: outside the usage contract (the oracle only calls Begin) -/
def Kind.isAux : Kind → Bool
  | .count _ => true
  | .publish _ => true
  | _ => false

/-- wake every sleeping waiter whose index is <= u -/
def wake (thr : Nat → Option Thr) (u : Nat) : Nat → Option Thr := fun j =>
  match thr j with
  | some t => if t.loc = .sleeping ∧ t.kind.idx ≤ u then some { t with notified := true } else some t
  | none => none

/-- the stepping thread moves on to its next instruction -/
def nextInstr (t : Thr) : Thr := { t with stage := t.stage + 1, loc := .start }

/-- ghost: the first micro-step of a Begin call counts the index as begun.
(`inline`: as a 3-ary compiled function a stored `bumpBegun s t` would re-evaluate
`s.nBegun idx + 1` on every lookup — exponential in the number of Begins.) -/
def bumpVal (s : St) (t : Thr) : Nat :=
  s.nBegun t.kind.idx + (if (t.kind.isBegin ∨ t.kind.isCount) ∧ t.stage = 0 then 1 else 0)

/-- (used in statements only; `stepThr` spells out `upd … (bumpVal s t)` so that the compiled field
is a partial application of `upd` with the new value already computed) -/
def bumpBegun (s : St) (t : Thr) : Nat → Nat := upd s.nBegun t.kind.idx (bumpVal s t)

theorem bumpBegun_off (s : St) (t : Thr) (h : ¬ ((t.kind.isBegin ∨ t.kind.isCount) ∧ t.stage = 0)) (j : Nat) :
    bumpBegun s t j = s.nBegun j := by
  unfold bumpBegun bumpVal
  rw [if_neg h]
  by_cases hj : j = t.kind.idx
  · subst hj; simp
  · rw [upd_other _ _ _ _ hj]

theorem bumpBegun_on (s : St) (t : Thr) (h : (t.kind.isBegin ∨ t.kind.isCount) ∧ t.stage = 0) :
    bumpBegun s t = upd s.nBegun t.kind.idx (s.nBegun t.kind.idx + 1) := by
  unfold bumpBegun bumpVal
  rw [if_pos h]

def stepThr (c : WMCfg) (s : St) (tid : Nat) (t : Thr) : Option St :=
  match (progOf c t.kind)[t.stage]? with
  | none => none
  | some ins =>
    match ins with
    | .setLast i =>
      some { (setThr s tid (nextInstr t)) with
        lastIndex := if s.lastIndex < i then i else s.lastIndex, nBegun := upd s.nBegun t.kind.idx (bumpVal s t) }
    | .add i up =>
      -- (the updated maps are bound before the `if`s: a conditional of function type is compiled
      -- to a lambda, and the new value must not be recomputed inside it on every lookup)
      let cnt' := upd s.cnt i (s.cnt i + (if up then 1 else -1))
      let nc := upd s.nCounted i (s.nCounted i + 1)
      let nd := upd s.nDoneDec i (s.nDoneDec i + 1)
      some { (setThr s tid (nextInstr t)) with
        cnt := if i = 0 ∧ c.tracksZero = false then s.cnt else cnt',
        nBegun := upd s.nBegun t.kind.idx (bumpVal s t),
        nCounted := if up then nc else s.nCounted,
        nDoneDec := if up then s.nDoneDec else nd }
    | .endBegin => some { (setThr s tid (nextInstr t)) with sectionBusy := false }
    | .advance =>
      match t.loc with
      | .start => some (setThr s tid { t with loc := .haveD s.doneUntil })
      | .haveD d =>
        if d ≥ s.lastIndex then some (setThr s tid (nextInstr t))
        else some (setThr s tid { t with loc := if c.holdsAtDone then .haveDL d else .haveDH d })
      | .haveDL d =>
        if s.cnt d > 0 then some (setThr s tid (nextInstr t))
        else some (setThr s tid { t with loc := .haveDH d })
      | .haveDH d =>
        if s.cnt (d + 1) > 0 then some (setThr s tid (nextInstr t))
        else some (setThr s tid { t with loc := .cas d })
      | .cas d =>
        if s.doneUntil = d then some { (setThr s tid { t with loc := .notify (d + 1) }) with doneUntil := d + 1 }
        else some (setThr s tid { t with loc := .start })
      | .notify u =>
        some { s with thr := upd (wake s.thr u) tid (some { t with loc := .start }) }
      | _ => none
    | .wait i =>
      match t.loc with
      | .start =>
        if s.doneUntil ≥ i then some (setThr s tid { (nextInstr t) with returned := true })
        else some (setThr s tid { t with loc := .w2 })
      | .w2 =>
        if s.doneUntil ≥ i then some (setThr s tid { (nextInstr t) with returned := true })
        else some (setThr s tid { t with loc := .sleeping })
      | .sleeping =>
        if t.notified then some (setThr s tid { (nextInstr t) with returned := true })
        else none
      | _ => none

/-- `contract = true`: the usage contract of `oracle.newCommitTs` — Begin calls are serialized
and each index exceeds lastIndex (hence every index begun before). -/
def step (c : WMCfg) (contract : Bool) (s : St) : Act → Option St
  | .begin tid i =>
    if s.thr tid = none ∧ (0 < i ∨ c.tracksZero = true) ∧ (contract = true → s.sectionBusy = false ∧ s.lastIndex < i) then
      some { (setThr s tid { kind := .begin i }) with sectionBusy := true }
    else none
  | .done tid i =>
    if s.thr tid = none ∧ (0 < i ∨ c.tracksZero = true) then some (setThr s tid { kind := .done i }) else none
  | .wait tid i =>
    if s.thr tid = none then some (setThr s tid { kind := .wait i }) else none
  | .adv tid =>
    if s.thr tid = none then some (setThr s tid { kind := .adv }) else none
  | .count tid i =>
    if s.thr tid = none ∧ contract = false ∧ (0 < i ∨ c.tracksZero = true) then some (setThr s tid { kind := .count i }) else none
  | .publish tid i =>
    if s.thr tid = none ∧ contract = false then some (setThr s tid { kind := .publish i }) else none
  | .run tid =>
    match s.thr tid with
    | some t => stepThr c s tid t
    | none => none

def initSt : St :=
  { doneUntil := 0, lastIndex := 0, cnt := fun _ => 0, thr := fun _ => none, nBegun := fun _ => 0,
    nCounted := fun _ => 0, nDoneDec := fun _ => 0, sectionBusy := false }

def sys (c : WMCfg) (contract : Bool) : Sys St Act :=
  { init := fun s => s = initSt, step := step c contract }

end NoKV.Conc.WM

/-
Helper lemmas for Props/C32 that hold for every configuration and with or without the usage
contract: `doneUntil` is monotone, and what a waiter may rely on.
-/
import NoKVModel.Conc.Watermark

namespace NoKV.Conc.WM
open NoKV.Conc

theorem stepThr_mono (c : WMCfg) (s s' : St) (tid : Nat) (t : Thr) (h : stepThr c s tid t = some s') :
    s.doneUntil ≤ s'.doneUntil := by
  unfold stepThr at h
  split at h
  · cases h
  · rename_i ins _
    cases ins with
    | setLast i => cases h; exact Nat.le_refl _
    | add i up => cases h; exact Nat.le_refl _
    | endBegin => cases h; exact Nat.le_refl _
    | advance =>
      simp only at h
      cases hl : t.loc <;> simp only [hl] at h
      · cases h; exact Nat.le_refl _
      · split at h <;> cases h <;> exact Nat.le_refl _
      · split at h <;> cases h <;> exact Nat.le_refl _
      · split at h <;> cases h <;> exact Nat.le_refl _
      · split at h <;> cases h
        · rename_i hd; show s.doneUntil ≤ _ + 1; omega
        · exact Nat.le_refl _
      · cases h; exact Nat.le_refl _
      · cases h
      · cases h
    | wait i =>
      simp only at h
      cases hl : t.loc <;> simp only [hl] at h
      · split at h <;> cases h <;> exact Nat.le_refl _
      · cases h
      · cases h
      · cases h
      · cases h
      · cases h
      · split at h <;> cases h <;> exact Nat.le_refl _
      · split at h <;> cases h; exact Nat.le_refl _

theorem step_mono (c : WMCfg) (ct : Bool) (s s' : St) (a : Act) (h : step c ct s a = some s') :
    s.doneUntil ≤ s'.doneUntil := by
  cases a with
  | begin tid i => simp only [step] at h; split at h <;> cases h; exact Nat.le_refl _
  | done tid i => simp only [step] at h; split at h <;> cases h; exact Nat.le_refl _
  | wait tid i => simp only [step] at h; split at h <;> cases h; exact Nat.le_refl _
  | adv tid => simp only [step] at h; split at h <;> cases h; exact Nat.le_refl _
  | count tid i => simp only [step] at h; split at h <;> cases h; exact Nat.le_refl _
  | publish tid i => simp only [step] at h; split at h <;> cases h; exact Nat.le_refl _
  | run tid =>
    simp only [step] at h
    cases ht : s.thr tid with
    | none => simp [ht] at h
    | some t => simp only [ht] at h; exact stepThr_mono c s s' tid t h

/-- what a thread record may claim about the watermark `du` -/
structure WT (du : Nat) (t : Thr) : Prop where
  notifyLe : ∀ u, t.loc = .notify u → u ≤ du
  notifiedLe : t.notified = true → t.kind.idx ≤ du
  returnedLe : t.returned = true → t.kind.idx ≤ du

theorem WT.mono {du du' : Nat} {t : Thr} (h : WT du t) (hle : du ≤ du') : WT du' t :=
  ⟨fun u hu => Nat.le_trans (h.notifyLe u hu) hle, fun hn => Nat.le_trans (h.notifiedLe hn) hle,
   fun hr => Nat.le_trans (h.returnedLe hr) hle⟩

def W (s : St) : Prop := ∀ tid t, s.thr tid = some t → WT s.doneUntil t

theorem W.set {s : St} (hW : W s) {du' : Nat} (hle : s.doneUntil ≤ du') (tid : Nat) (t' : Thr)
    (ht' : WT du' t') : ∀ j u, upd s.thr tid (some t') j = some u → WT du' u := by
  intro j u hu
  by_cases hj : j = tid
  · subst hj; simp at hu; exact hu ▸ ht'
  · rw [upd_other _ _ _ _ hj] at hu; exact (hW j u hu).mono hle

theorem wait_instr_kind (c : WMCfg) (k : Kind) (st i : Nat)
    (h : (progOf c k)[st]? = some (.wait i)) : k.idx = i := by
  cases k with
  | begin j =>
    simp only [progOf] at h
    split at h
    · match st with
      | 0 | 1 | 2 | 3 | 4 => simp at h
      | n + 5 => simp at h
    · match st with
      | 0 | 1 | 2 | 3 => simp at h
      | n + 4 => simp at h
  | done j =>
    simp only [progOf] at h
    match st with
    | 0 | 1 => simp at h
    | n + 2 => simp at h
  | wait j =>
    simp only [progOf] at h
    match st with
    | 0 => simp at h; exact h
    | n + 1 => simp at h
  | adv =>
    simp only [progOf] at h
    match st with
    | 0 => simp at h
    | n + 1 => simp at h
  | count j =>
    simp only [progOf] at h
    match st with
    | 0 | 1 => simp at h
    | n + 2 => simp at h
  | publish j =>
    simp only [progOf] at h
    match st with
    | 0 | 1 => simp at h
    | n + 2 => simp at h

theorem W.step_thr (c : WMCfg) {s s' : St} {tid : Nat} {t : Thr} (hW : W s) (ht : s.thr tid = some t)
    (h : stepThr c s tid t = some s') : W s' := by
  have hT := hW tid t ht
  unfold stepThr at h
  split at h
  · cases h
  · rename_i ins hins
    cases ins with
    | setLast i =>
      cases h
      exact W.set hW (Nat.le_refl _) tid _ ⟨by simp [nextInstr], hT.notifiedLe, hT.returnedLe⟩
    | add i up =>
      cases h
      exact W.set hW (Nat.le_refl _) tid _ ⟨by simp [nextInstr], hT.notifiedLe, hT.returnedLe⟩
    | endBegin =>
      cases h
      exact W.set hW (Nat.le_refl _) tid _ ⟨by simp [nextInstr], hT.notifiedLe, hT.returnedLe⟩
    | advance =>
      simp only at h
      cases hl : t.loc <;> simp only [hl] at h
      · cases h
        exact W.set hW (Nat.le_refl _) tid _ ⟨by simp, hT.notifiedLe, hT.returnedLe⟩
      · split at h <;> cases h
        · exact W.set hW (Nat.le_refl _) tid _ ⟨by simp [nextInstr], hT.notifiedLe, hT.returnedLe⟩
        · exact W.set hW (Nat.le_refl _) tid _ ⟨(by intro u hu; simp only at hu; split at hu <;> cases hu), hT.notifiedLe, hT.returnedLe⟩
      · split at h <;> cases h
        · exact W.set hW (Nat.le_refl _) tid _ ⟨by simp [nextInstr], hT.notifiedLe, hT.returnedLe⟩
        · exact W.set hW (Nat.le_refl _) tid _ ⟨by simp, hT.notifiedLe, hT.returnedLe⟩
      · split at h <;> cases h
        · exact W.set hW (Nat.le_refl _) tid _ ⟨by simp [nextInstr], hT.notifiedLe, hT.returnedLe⟩
        · exact W.set hW (Nat.le_refl _) tid _ ⟨by simp, hT.notifiedLe, hT.returnedLe⟩
      · rename_i d
        split at h <;> cases h
        · rename_i hd
          refine W.set hW (du' := d + 1) (by omega) tid _ ⟨?_, ?_, ?_⟩
          · intro u hu; simp at hu; omega
          · intro hn; have := hT.notifiedLe hn; simp only at this ⊢; omega
          · intro hr; have := hT.returnedLe hr; simp only at this ⊢; omega
        · exact W.set hW (Nat.le_refl _) tid _ ⟨by simp, hT.notifiedLe, hT.returnedLe⟩
      · -- notify u: every woken waiter has index <= u <= doneUntil
        rename_i u
        cases h
        have hu := hT.notifyLe u hl
        intro j x hx
        show WT s.doneUntil x
        have hx' : upd (wake s.thr u) tid (some { t with loc := Loc.start }) j = some x := hx
        by_cases hj : j = tid
        · subst hj; simp at hx'; subst hx'
          exact ⟨by simp, hT.notifiedLe, hT.returnedLe⟩
        · rw [upd_other _ _ _ _ hj] at hx'
          unfold wake at hx'
          cases hjt : s.thr j with
          | none => simp [hjt] at hx'
          | some y =>
            simp only [hjt] at hx'
            have hy := hW j y hjt
            split at hx'
            · rename_i hc
              cases hx'
              exact ⟨hy.notifyLe, fun _ => Nat.le_trans hc.2 hu, hy.returnedLe⟩
            · cases hx'; exact hy
      · cases h
      · cases h
    | wait i =>
      have hk := wait_instr_kind c t.kind t.stage i hins
      simp only at h
      cases hl : t.loc <;> simp only [hl] at h
      · split at h <;> cases h
        · rename_i hge
          exact W.set hW (Nat.le_refl _) tid _ ⟨by simp [nextInstr], hT.notifiedLe, fun _ => by simp [nextInstr]; omega⟩
        · exact W.set hW (Nat.le_refl _) tid _ ⟨by simp, hT.notifiedLe, hT.returnedLe⟩
      · cases h
      · cases h
      · cases h
      · cases h
      · cases h
      · split at h <;> cases h
        · rename_i hge
          exact W.set hW (Nat.le_refl _) tid _ ⟨by simp [nextInstr], hT.notifiedLe, fun _ => by simp [nextInstr]; omega⟩
        · exact W.set hW (Nat.le_refl _) tid _ ⟨by simp, hT.notifiedLe, hT.returnedLe⟩
      · split at h <;> cases h
        rename_i hn
        exact W.set hW (Nat.le_refl _) tid _ ⟨by simp [nextInstr], hT.notifiedLe, fun _ => hT.notifiedLe hn⟩

theorem W.reachable (c : WMCfg) (ct : Bool) (s : St) (hr : Reachable (sys c ct) s) : W s := by
  refine Reachable.invariant (S := sys c ct) W ?_ ?_ s hr
  · rintro s rfl tid t ht; simp [initSt] at ht
  · intro s a s' hW hs
    have hs : step c ct s a = some s' := hs
    have fresh : ∀ (tid : Nat) (k : Kind), WT s.doneUntil ({ kind := k } : Thr) := by
      intro tid k; exact ⟨by simp, by simp, by simp⟩
    cases a with
    | begin tid i =>
      simp only [step] at hs
      split at hs <;> cases hs
      exact W.set hW (Nat.le_refl _) tid _ (fresh tid _)
    | done tid i =>
      simp only [step] at hs
      split at hs <;> cases hs
      exact W.set hW (Nat.le_refl _) tid _ (fresh tid _)
    | wait tid i =>
      simp only [step] at hs
      split at hs <;> cases hs
      exact W.set hW (Nat.le_refl _) tid _ (fresh tid _)
    | adv tid =>
      simp only [step] at hs
      split at hs <;> cases hs
      exact W.set hW (Nat.le_refl _) tid _ (fresh tid _)
    | count tid i =>
      simp only [step] at hs
      split at hs <;> cases hs
      exact W.set hW (Nat.le_refl _) tid _ (fresh tid _)
    | publish tid i =>
      simp only [step] at hs
      split at hs <;> cases hs
      exact W.set hW (Nat.le_refl _) tid _ (fresh tid _)
    | run tid =>
      simp only [step] at hs
      cases ht : s.thr tid with
      | none => simp [ht] at hs
      | some t => simp only [ht] at hs; exact W.step_thr c hW ht hs

end NoKV.Conc.WM

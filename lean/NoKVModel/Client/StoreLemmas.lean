/-
Store-level lemmas for C28: the cross-key invariant `GInv` of one transaction over the region
stores, and its preservation by every request handler under the guard the protocol provides.
-/
import NoKVModel.Client.KeyLemmas

namespace NoKV.Client

theorem map_inj_of_nodup {α β : Type} (f : α → β) :
    ∀ (l : List α), (l.map f).Nodup → ∀ a ∈ l, ∀ b ∈ l, f a = f b → a = b
  | [], _, a, ha, _, _, _ => by cases ha
  | x :: xs, hn, a, ha, b, hb, e => by
    simp only [List.map_cons, List.nodup_cons, List.mem_map, not_exists, not_and] at hn
    rcases List.mem_cons.1 ha with rfl | ha' <;> rcases List.mem_cons.1 hb with rfl | hb'
    · rfl
    · exact absurd e.symm (hn.1 b hb')
    · exact absurd e (hn.1 a ha')
    · exact map_inj_of_nodup f xs hn.2 a ha' b hb' e

/-- what the client must be given -/
structure TxnWF (t : Txn) : Prop where
  lt : t.start < t.cv
  kinds : ∀ m ∈ t.muts, m.kind ≠ .rollback
  nodup : (t.muts.map (·.key)).Nodup
  prim : ∃ m ∈ t.muts, m.key = t.primary
  pre : ∀ m ∈ t.muts, t.region m.key ≠ t.region t.primary → t.region m.key ∈ t.preOrder
  com : t.region t.primary ∉ t.comOrder

theorem TxnWF.ok {t : Txn} (wf : TxnWF t) {m : Mut} (hm : m ∈ t.muts) : TsOK t.start t.cv m :=
  ⟨wf.lt, wf.kinds m hm⟩

theorem TxnWF.inj {t : Txn} (wf : TxnWF t) {a b : Mut} (ha : a ∈ t.muts) (hb : b ∈ t.muts)
    (e : a.key = b.key) : a = b :=
  map_inj_of_nodup (·.key) t.muts wf.nodup a ha b hb e

/-- the cross-key invariant: secondaries follow the primary -/
structure GInv (t : Txn) (s : Store) : Prop where
  k : ∀ m ∈ t.muts, KInv t.start t.cv m (s m.key)
  c : ∀ m ∈ t.muts, m.key ≠ t.primary → HasC t.start (s m.key) → HasC t.start (s t.primary)
  r : ∀ m ∈ t.muts, m.key ≠ t.primary → HasR t.start (s m.key) → HasR t.start (s t.primary)
  d : HasC t.start (s t.primary) → ∀ m ∈ t.muts, HasL t.start (s m.key) ∨ HasC t.start (s m.key)

def AllTouched (t : Txn) (s : Store) : Prop := ∀ m ∈ t.muts, Touched t.start (s m.key)

def SMono (S : Nat) (s s' : Store) : Prop := ∀ k, KMono S (s k) (s' k)

theorem SMono.refl (S : Nat) (s : Store) : SMono S s s := fun k => KMono.refl S (s k)

theorem SMono.trans {S : Nat} {a b c : Store} (h1 : SMono S a b) (h2 : SMono S b c) : SMono S a c :=
  fun k => (h1 k).trans (h2 k)

theorem GInv.primKInv {t : Txn} {s : Store} (wf : TxnWF t) (h : GInv t s) :
    ∃ m ∈ t.muts, m.key = t.primary ∧ KInv t.start t.cv m (s t.primary) := by
  obtain ⟨m, hm, e⟩ := wf.prim
  exact ⟨m, hm, e, e ▸ h.k m hm⟩

theorem GInv.not_C_R_prim {t : Txn} {s : Store} (wf : TxnWF t) (h : GInv t s) :
    ¬ (HasC t.start (s t.primary) ∧ HasR t.start (s t.primary)) := by
  obtain ⟨m, _, _, hk⟩ := h.primKInv wf
  exact not_C_and_R hk

/-- One key of the transaction makes a `KStep`.  A *new* commit record needs the protocol's guard
(primary: every key was prewritten; secondary: the primary is committed); a *new* rollback
record on a secondary needs the primary rolled back. -/
theorem GInv.set {t : Txn} {s : Store} (wf : TxnWF t) (h : GInv t s) {m : Mut} (hm : m ∈ t.muts)
    {ks' : KeyState} (st : KStep t.start t.cv m (s m.key) ks')
    (gcP : m.key = t.primary → ¬ HasC t.start (s m.key) → HasC t.start ks' → AllTouched t s)
    (gcS : m.key ≠ t.primary → ¬ HasC t.start (s m.key) → HasC t.start ks' → HasC t.start (s t.primary))
    (grS : m.key ≠ t.primary → ¬ HasR t.start (s m.key) → HasR t.start ks' → HasR t.start (s t.primary)) :
    GInv t (s.set m.key ks') ∧ SMono t.start s (s.set m.key ks') := by
  have okm := wf.ok hm
  have hkm := h.k m hm
  have kinv' : KInv t.start t.cv m ks' := hkm.step okm st
  have mono : KMono t.start (s m.key) ks' := st.mono okm hkm
  have hget : ∀ k, (s.set m.key ks') k = if k = m.key then ks' else s k := fun k => rfl
  have smono : SMono t.start s (s.set m.key ks') := by
    intro k
    rw [hget]
    by_cases e : k = m.key
    · simp only [e, if_true]; exact mono
    · simp only [e, if_false]; exact KMono.refl _ _
  refine ⟨⟨?_, ?_, ?_, ?_⟩, smono⟩
  · intro m' hm'
    rw [hget]
    by_cases e : m'.key = m.key
    · have : m' = m := wf.inj hm' hm e
      subst this
      simpa using kinv'
    · simp only [e, if_false]; exact h.k m' hm'
  · intro m' hm' np hc
    rw [hget] at hc
    by_cases e : m'.key = m.key
    · have : m' = m := wf.inj hm' hm e
      subst this
      simp only [if_true] at hc
      have pne : t.primary ≠ m'.key := fun x => np x.symm
      rw [hget]; simp only [pne, if_false]
      by_cases old : HasC t.start (s m'.key)
      · exact h.c m' hm' np old
      · exact gcS np old hc
    · simp only [e, if_false] at hc
      exact (smono t.primary).c (h.c m' hm' np hc)
  · intro m' hm' np hr
    rw [hget] at hr
    by_cases e : m'.key = m.key
    · have : m' = m := wf.inj hm' hm e
      subst this
      simp only [if_true] at hr
      have pne : t.primary ≠ m'.key := fun x => np x.symm
      rw [hget]; simp only [pne, if_false]
      by_cases old : HasR t.start (s m'.key)
      · exact h.r m' hm' np old
      · exact grS np old hr
    · simp only [e, if_false] at hr
      exact (smono t.primary).r (h.r m' hm' np hr)
  · intro hcP m' hm'
    by_cases ep : m.key = t.primary
    · -- the step is on the primary
      have hP' : (s.set m.key ks') t.primary = ks' := by rw [hget]; simp [ep]
      rw [hP'] at hcP
      by_cases old : HasC t.start (s t.primary)
      · have := h.d old m' hm'
        rw [hget]
        by_cases e : m'.key = m.key
        · simp only [e, if_true]; exact Or.inr hcP
        · simp only [e, if_false]; exact this
      · have all := gcP ep (ep ▸ old) hcP
        rw [hget]
        by_cases e : m'.key = m.key
        · simp only [e, if_true]; exact Or.inr hcP
        · simp only [e, if_false]
          have np : m'.key ≠ t.primary := fun x => e (x.trans ep.symm)
          rcases all m' hm' with hl | hc | hr
          · exact Or.inl hl
          · exact Or.inr hc
          · have hrP : HasR t.start (s t.primary) := h.r m' hm' np hr
            have hrP' : HasR t.start ks' := by
              have := (smono t.primary).r hrP
              rwa [hP'] at this
            exact absurd ⟨hcP, hrP'⟩ (not_C_and_R kinv')
    · -- the step is on a secondary: the primary is unchanged
      have pne : t.primary ≠ m.key := fun x => ep x.symm
      have hP' : (s.set m.key ks') t.primary = s t.primary := by rw [hget]; simp [pne]
      rw [hP'] at hcP
      have base := h.d hcP m' hm'
      rw [hget]
      by_cases e : m'.key = m.key
      · have : m' = m := wf.inj hm' hm e
        subst this
        simp only [if_true]
        cases st with
        | same => exact base
        | lock ttl hn => exact Or.inl ⟨_, rfl, rfl⟩
        | commit l hl hts =>
          refine Or.inr ⟨⟨t.cv, l.ts, l.kind⟩, by simp [effCommit, mem_setWrite], hts, ?_⟩
          rw [(hkm.lk l hl hts).1]; exact okm.kind
        | rollback hn =>
          have newR : HasR t.start (effRollback t.start (s m'.key)) :=
            ⟨⟨t.start, t.start, .rollback⟩, by simp [effRollback, mem_setWrite], rfl, rfl⟩
          have hrP := grS ep (not_R_of_noRec hn) newR
          exact absurd ⟨hcP, hrP⟩ (h.not_C_R_prim wf)
        | push l n hl hts => exact Or.inl ⟨_, rfl, hts⟩
        | foreign l' d' hnl hts hd =>
          rcases base with hl | hc
          · exact absurd hl hnl
          · exact Or.inr hc
        | foreignRb fts h1 h2 =>
          rcases base with hl | hc
          · exact (mono.t (Or.inl hl)).elim Or.inl (fun x => x.elim Or.inr (fun hr => by
              have hrP := grS ep (fun hr0 => by
                obtain ⟨l, hl1, hl2⟩ := hl
                exact absurd hr0 (not_R_of_noRec ((hkm.lk l hl1 hl2).2.2))) hr
              exact absurd ⟨hcP, hrP⟩ (h.not_C_R_prim wf)))
          · exact Or.inr (mono.c hc)
      · simp only [e, if_false]; exact base

end NoKV.Client

/-
Store-level lemmas for C28: the cross-key invariant `GInv` of one transaction over the region
stores, and its preservation by every request handler under the guard the protocol provides.
-/
import NoKVModel.Client.KeyLemmas

namespace NoKV.Client

theorem map_inj_of_nodup {α β : Type} (f : α → β) :
    ∀ (l : List α), (l.map f).Nodup → ∀ a ∈ l, ∀ b ∈ l, f a = f b → a = b
  | [], _, a, ha, _, _, _ => by cases ha
  | x :: xs, hn, a, ha, b, hb, e => by
    simp only [List.map_cons, List.nodup_cons, List.mem_map, not_exists, not_and] at hn
    rcases List.mem_cons.1 ha with rfl | ha' <;> rcases List.mem_cons.1 hb with rfl | hb'
    · rfl
    · exact absurd e.symm (hn.1 b hb')
    · exact absurd e (hn.1 a ha')
    · exact map_inj_of_nodup f xs hn.2 a ha' b hb' e

/-- what the client must be given -/
structure TxnWF (t : Txn) : Prop where
  lt : t.start < t.cv
  kinds : ∀ m ∈ t.muts, m.kind ≠ .rollback
  nodup : (t.muts.map (·.key)).Nodup
  prim : ∃ m ∈ t.muts, m.key = t.primary
  pre : ∀ m ∈ t.muts, t.region m.key ≠ t.region t.primary → t.region m.key ∈ t.preOrder
  com : t.region t.primary ∉ t.comOrder

theorem TxnWF.ok {t : Txn} (wf : TxnWF t) {m : Mut} (hm : m ∈ t.muts) : TsOK t.start t.cv m :=
  ⟨wf.lt, wf.kinds m hm⟩

theorem TxnWF.inj {t : Txn} (wf : TxnWF t) {a b : Mut} (ha : a ∈ t.muts) (hb : b ∈ t.muts)
    (e : a.key = b.key) : a = b :=
  map_inj_of_nodup (·.key) t.muts wf.nodup a ha b hb e

/-- the cross-key invariant: secondaries follow the primary -/
structure GInv (t : Txn) (s : Store) : Prop where
  k : ∀ m ∈ t.muts, KInv t.start t.cv m (s m.key)
  c : ∀ m ∈ t.muts, m.key ≠ t.primary → HasC t.start (s m.key) → HasC t.start (s t.primary)
  r : ∀ m ∈ t.muts, m.key ≠ t.primary → HasR t.start (s m.key) → HasR t.start (s t.primary)
  d : HasC t.start (s t.primary) → ∀ m ∈ t.muts, HasL t.start (s m.key) ∨ HasC t.start (s m.key)

def AllTouched (t : Txn) (s : Store) : Prop := ∀ m ∈ t.muts, Touched t.start (s m.key)

/-- `k` is one of the transaction's keys -/
def Txn.IsKey (t : Txn) (k : Nat) : Prop := ∃ m ∈ t.muts, m.key = k

theorem TxnWF.primIsKey {t : Txn} (wf : TxnWF t) : t.IsKey t.primary := wf.prim

/-- nothing of T is lost on T's keys (other keys are none of T's business) -/
def SMono (t : Txn) (s s' : Store) : Prop := ∀ k, t.IsKey k → KMono t.start (s k) (s' k)

theorem SMono.refl (t : Txn) (s : Store) : SMono t s s := fun k _ => KMono.refl t.start (s k)

theorem SMono.trans {t : Txn} {a b c : Store} (h1 : SMono t a b) (h2 : SMono t b c) : SMono t a c :=
  fun k hk => (h1 k hk).trans (h2 k hk)

theorem GInv.primKInv {t : Txn} {s : Store} (wf : TxnWF t) (h : GInv t s) :
    ∃ m ∈ t.muts, m.key = t.primary ∧ KInv t.start t.cv m (s t.primary) := by
  obtain ⟨m, hm, e⟩ := wf.prim
  exact ⟨m, hm, e, e ▸ h.k m hm⟩

theorem GInv.not_C_R_prim {t : Txn} {s : Store} (wf : TxnWF t) (h : GInv t s) :
    ¬ (HasC t.start (s t.primary) ∧ HasR t.start (s t.primary)) := by
  obtain ⟨m, _, _, hk⟩ := h.primKInv wf
  exact not_C_and_R hk

/-- One key of the transaction makes a `KStep`.  A *new* commit record needs the protocol's guard
(primary: every key was prewritten; secondary: the primary is committed); a *new* rollback
record on a secondary needs the primary rolled back. -/
theorem GInv.set {t : Txn} {s : Store} (wf : TxnWF t) (h : GInv t s) {m : Mut} (hm : m ∈ t.muts)
    {ks' : KeyState} (st : KStep t.start t.cv m (s m.key) ks')
    (gcP : m.key = t.primary → ¬ HasC t.start (s m.key) → HasC t.start ks' → AllTouched t s)
    (gcS : m.key ≠ t.primary → ¬ HasC t.start (s m.key) → HasC t.start ks' → HasC t.start (s t.primary))
    (grS : m.key ≠ t.primary → ¬ HasR t.start (s m.key) → HasR t.start ks' → HasR t.start (s t.primary)) :
    GInv t (s.set m.key ks') ∧ SMono t s (s.set m.key ks') := by
  have okm := wf.ok hm
  have hkm := h.k m hm
  have kinv' : KInv t.start t.cv m ks' := hkm.step okm st
  have mono : KMono t.start (s m.key) ks' := st.mono okm hkm
  have hget : ∀ k, (s.set m.key ks') k = if k = m.key then ks' else s k := fun k => rfl
  have smono : SMono t s (s.set m.key ks') := by
    intro k _
    rw [hget]
    by_cases e : k = m.key
    · simp only [e, if_true]; exact mono
    · simp only [e, if_false]; exact KMono.refl _ _
  refine ⟨⟨?_, ?_, ?_, ?_⟩, smono⟩
  · intro m' hm'
    rw [hget]
    by_cases e : m'.key = m.key
    · have : m' = m := wf.inj hm' hm e
      subst this
      simpa using kinv'
    · simp only [e, if_false]; exact h.k m' hm'
  · intro m' hm' np hc
    rw [hget] at hc
    by_cases e : m'.key = m.key
    · have : m' = m := wf.inj hm' hm e
      subst this
      simp only [if_true] at hc
      have pne : t.primary ≠ m'.key := fun x => np x.symm
      rw [hget]; simp only [pne, if_false]
      by_cases old : HasC t.start (s m'.key)
      · exact h.c m' hm' np old
      · exact gcS np old hc
    · simp only [e, if_false] at hc
      exact (smono t.primary wf.primIsKey).c (h.c m' hm' np hc)
  · intro m' hm' np hr
    rw [hget] at hr
    by_cases e : m'.key = m.key
    · have : m' = m := wf.inj hm' hm e
      subst this
      simp only [if_true] at hr
      have pne : t.primary ≠ m'.key := fun x => np x.symm
      rw [hget]; simp only [pne, if_false]
      by_cases old : HasR t.start (s m'.key)
      · exact h.r m' hm' np old
      · exact grS np old hr
    · simp only [e, if_false] at hr
      exact (smono t.primary wf.primIsKey).r (h.r m' hm' np hr)
  · intro hcP m' hm'
    by_cases ep : m.key = t.primary
    · -- the step is on the primary
      have hP' : (s.set m.key ks') t.primary = ks' := by rw [hget]; simp [ep]
      rw [hP'] at hcP
      by_cases old : HasC t.start (s t.primary)
      · have := h.d old m' hm'
        rw [hget]
        by_cases e : m'.key = m.key
        · simp only [e, if_true]; exact Or.inr hcP
        · simp only [e, if_false]; exact this
      · have all := gcP ep (ep ▸ old) hcP
        rw [hget]
        by_cases e : m'.key = m.key
        · simp only [e, if_true]; exact Or.inr hcP
        · simp only [e, if_false]
          have np : m'.key ≠ t.primary := fun x => e (x.trans ep.symm)
          rcases all m' hm' with hl | hc | hr
          · exact Or.inl hl
          · exact Or.inr hc
          · have hrP : HasR t.start (s t.primary) := h.r m' hm' np hr
            have hrP' : HasR t.start ks' := by
              have := (smono t.primary wf.primIsKey).r hrP
              rwa [hP'] at this
            exact absurd ⟨hcP, hrP'⟩ (not_C_and_R kinv')
    · -- the step is on a secondary: the primary is unchanged
      have pne : t.primary ≠ m.key := fun x => ep x.symm
      have hP' : (s.set m.key ks') t.primary = s t.primary := by rw [hget]; simp [pne]
      rw [hP'] at hcP
      have base := h.d hcP m' hm'
      rw [hget]
      by_cases e : m'.key = m.key
      · have : m' = m := wf.inj hm' hm e
        subst this
        simp only [if_true]
        cases st with
        | same => exact base
        | lock ttl hn => exact Or.inl ⟨_, rfl, rfl⟩
        | commit l hl hts =>
          refine Or.inr ⟨⟨t.cv, l.ts, l.kind⟩, by simp [effCommit, mem_setWrite], hts, ?_⟩
          rw [(hkm.lk l hl hts).1]; exact okm.kind
        | rollback hn =>
          have newR : HasR t.start (effRollback t.start (s m'.key)) :=
            ⟨⟨t.start, t.start, .rollback⟩, by simp [effRollback, mem_setWrite], rfl, rfl⟩
          have hrP := grS ep (not_R_of_noRec hn) newR
          exact absurd ⟨hcP, hrP⟩ (h.not_C_R_prim wf)
        | push l n hl hts => exact Or.inl ⟨_, rfl, hts⟩
        | other ks' o =>
          rcases base with ⟨l, hl, hts⟩ | hc
          · exact Or.inl ⟨l, (o.lk l hts).2 hl, hts⟩
          · exact Or.inr (mono.c hc)
      · simp only [e, if_false]; exact base

/-- a request of another transaction on one of T's keys -/
theorem GInv.other {t : Txn} {s : Store} (wf : TxnWF t) (h : GInv t s) {m : Mut} (hm : m ∈ t.muts)
    {ks' : KeyState} (o : OtherStep t.start (s m.key) ks') :
    GInv t (s.set m.key ks') ∧ SMono t s (s.set m.key ks') := by
  have hC : HasC t.start ks' → HasC t.start (s m.key) := by
    rintro ⟨w, hw, hs, hk⟩; exact ⟨w, (o.ws w hs).1 hw, hs, hk⟩
  have hR : HasR t.start ks' → HasR t.start (s m.key) := by
    rintro ⟨w, hw, hs, hk⟩; exact ⟨w, (o.ws w hs).1 hw, hs, hk⟩
  exact GInv.set wf h hm (KStep.other ks' o)
    (fun _ hnc hc => absurd (hC hc) hnc) (fun _ hnc hc => absurd (hC hc) hnc) (fun _ hnr hr => absurd (hR hr) hnr)

/-- a change of a key that is not one of T's keys -/
theorem GInv.set_nonkey {t : Txn} {s : Store} (wf : TxnWF t) (h : GInv t s) {k : Nat}
    (hk : ∀ m ∈ t.muts, m.key ≠ k) (v : KeyState) :
    GInv t (s.set k v) ∧ SMono t s (s.set k v) := by
  have hget : ∀ m ∈ t.muts, (s.set k v) m.key = s m.key := fun m hm => Store.set_other s v (hk m hm)
  obtain ⟨mp, hmp, hmpk⟩ := wf.prim
  have hP : (s.set k v) t.primary = s t.primary := hmpk ▸ hget mp hmp
  refine ⟨⟨?_, ?_, ?_, ?_⟩, ?_⟩
  · intro m hm; rw [hget m hm]; exact h.k m hm
  · intro m hm np hc; rw [hget m hm] at hc; rw [hP]; exact h.c m hm np hc
  · intro m hm np hr; rw [hget m hm] at hr; rw [hP]; exact h.r m hm np hr
  · intro hc m hm; rw [hP] at hc; rw [hget m hm]; exact h.d hc m hm
  · rintro k' ⟨m, hm, rfl⟩
    rw [hget m hm]; exact KMono.refl _ _

end NoKV.Client

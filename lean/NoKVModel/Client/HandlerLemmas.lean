/-
C28: what each request handler (Prewrite, Commit, ResolveLock, CheckTxnStatus) does to `GInv`.
-/
import NoKVModel.Client.StoreLemmas

namespace NoKV.Client

section perkey
variable {S CV : Nat}

theorem effLock_hasC {ttl : Nat} {m : Mut} {ks : KeyState} : HasC S (effLock S ttl m ks) ↔ HasC S ks := Iff.rfl
theorem effLock_hasR {ttl : Nat} {m : Mut} {ks : KeyState} : HasR S (effLock S ttl m ks) ↔ HasR S ks := Iff.rfl

theorem effRollback_noC {ks : KeyState} (hn : NoRec S ks) : ¬ HasC S (effRollback S ks) := by
  rintro ⟨w, hw, hs, hk⟩
  simp only [effRollback, mem_setWrite] at hw
  rcases hw with rfl | ⟨hw, _⟩
  · exact hk rfl
  · exact hn w hw hs

theorem effRollback_hasR {ks : KeyState} : HasR S (effRollback S ks) :=
  ⟨⟨S, S, .rollback⟩, by simp [effRollback, mem_setWrite], rfl, rfl⟩

theorem effCommit_noR {ks : KeyState} {l : Lock} {cv : Nat} (hn : NoRec S ks) (hk : l.kind ≠ .rollback) :
    ¬ HasR S (effCommit ks l cv) := by
  rintro ⟨w, hw, hs, hr⟩
  simp only [effCommit, mem_setWrite] at hw
  rcases hw with rfl | ⟨hw, _⟩
  · exact hk hr
  · exact hn w hw hs

theorem effCommit_hasC {ks : KeyState} {l : Lock} {cv : Nat} (hts : l.ts = S) (hk : l.kind ≠ .rollback) :
    HasC S (effCommit ks l cv) :=
  ⟨⟨cv, l.ts, l.kind⟩, by simp [effCommit, mem_setWrite], hts, hk⟩

theorem prewriteKey_eff (pc : PercCfg) {ttl : Nat} {m : Mut} {ks : KeyState} (ok : TsOK S CV m) (h : KInv S CV m ks) :
    ((prewriteKey pc S ttl m ks).2 ≠ .ok ∧ (prewriteKey pc S ttl m ks).1 = ks) ∨
    ((prewriteKey pc S ttl m ks).2 = .ok ∧ (prewriteKey pc S ttl m ks).1 = ks ∧ HasL S ks) ∨
    ((prewriteKey pc S ttl m ks).2 = .ok ∧ (prewriteKey pc S ttl m ks).1 = effLock S ttl m ks ∧ NoRec S ks) := by
  unfold prewriteKey
  split
  · exact Or.inl ⟨by simp, rfl⟩
  · rename_i hlo
    split
    · rename_i hkeep
      refine Or.inr (Or.inl ⟨rfl, rfl, ?_⟩)
      simp only [Bool.and_eq_true, Option.isSome_iff_exists] at hkeep
      obtain ⟨_, l, hl⟩ := hkeep
      refine ⟨l, hl, ?_⟩
      simp only [lockedByOther, hl, Bool.not_eq_true, decide_eq_false_iff_not, Decidable.not_not] at hlo
      exact hlo
    · split
      · exact Or.inl ⟨by simp, rfl⟩
      · rename_i hnew
        refine Or.inr (Or.inr ⟨rfl, rfl, ?_⟩)
        intro w hw hs
        have hnw : ¬ S ≤ w.commitTs := by
          simp only [hasNewer, List.any_eq_true, not_exists, not_and, Bool.not_eq_true] at hnew
          have := hnew w hw
          simpa using this
        rcases h.recs w hw hs with rfl | rfl
        · exact hnw (Nat.le_refl _)
        · exact hnw (Nat.le_of_lt ok.lt)

theorem commitKey_eff {m : Mut} {ks : KeyState} {l : Lock} (cv : Nat) (h : KInv S CV m ks)
    (hl : ks.lock = some l) (hts : l.ts = S) :
    ((commitKey ks l cv).2 ≠ .ok ∧ (commitKey ks l cv).1 = ks) ∨
    ((commitKey ks l cv).2 = .ok ∧ (commitKey ks l cv).1 = effCommit ks l cv) := by
  have hn : findByStart ks.writes l.ts = none := by
    rw [hts]; exact findByStart_none.2 (h.lk l hl hts).2.2
  unfold commitKey
  split
  · exact Or.inl ⟨by simp, rfl⟩
  · rw [hn]; exact Or.inr ⟨rfl, rfl⟩

theorem commitReqKey_eff (c : PercCfg) {m : Mut} {ks : KeyState} (cv : Nat) (h : KInv S CV m ks) :
    ((commitReqKey c S cv ks).1 = ks ∧
       ((commitReqKey c S cv ks).2 = .ok → c.commitNoLockRejectsRollback = true → HasC S ks)) ∨
    (∃ l, ks.lock = some l ∧ l.ts = S ∧ (commitReqKey c S cv ks).2 = .ok ∧
       (commitReqKey c S cv ks).1 = effCommit ks l cv) := by
  unfold commitReqKey
  split
  · rename_i hnone
    split
    · rename_i w hw
      obtain ⟨hmem, hs⟩ := findByStart_some hw
      split
      · exact Or.inl ⟨rfl, by simp⟩
      · rename_i hcond
        refine Or.inl ⟨rfl, fun _ hflag => ⟨w, hmem, hs, ?_⟩⟩
        intro hk
        simp [hflag, hk] at hcond
    · exact Or.inl ⟨rfl, by simp⟩
  · rename_i l hl
    split
    · exact Or.inl ⟨rfl, by simp⟩
    · rename_i hts
      have hts' : l.ts = S := by simpa using hts
      rcases commitKey_eff cv h hl hts' with ⟨hne, he⟩ | ⟨hok, he⟩
      · exact Or.inl ⟨he, fun hok => absurd hok hne⟩
      · exact Or.inr ⟨l, hl, hts', hok, he⟩

theorem rollbackKey_eff (ks : KeyState) :
    rollbackKey ks S = ks ∨ (NoRec S ks ∧ rollbackKey ks S = effRollback S ks) := by
  unfold rollbackKey
  split
  · exact Or.inl rfl
  · rename_i hn
    exact Or.inr ⟨findByStart_none.1 hn, rfl⟩

theorem resolveKey_eff {m : Mut} {ks : KeyState} (cv : Nat) (h : KInv S CV m ks) :
    (resolveKey S cv ks).1 = ks ∨
    (cv = 0 ∧ NoRec S ks ∧ (resolveKey S cv ks).1 = effRollback S ks) ∨
    (cv ≠ 0 ∧ ∃ l, ks.lock = some l ∧ l.ts = S ∧ (resolveKey S cv ks).1 = effCommit ks l cv) := by
  unfold resolveKey
  split
  · exact Or.inl rfl
  · rename_i l hl
    split
    · exact Or.inl rfl
    · rename_i hts
      have hts' : l.ts = S := by simpa using hts
      split
      · rename_i hcv
        rcases rollbackKey_eff (S := S) ks with e | ⟨hn, e⟩
        · exact Or.inl e
        · exact Or.inr (Or.inl ⟨hcv, hn, e⟩)
      · rename_i hcv
        rcases commitKey_eff cv h hl hts' with ⟨_, he⟩ | ⟨_, he⟩
        · exact Or.inl he
        · exact Or.inr (Or.inr ⟨hcv, l, hl, hts', he⟩)

theorem checkTxnStatus_eff {m : Mut} {ks : KeyState} (cur : Nat) (ok : TsOK S CV m) (h : KInv S CV m ks) :
    ((checkTxnStatus S cur ks).1 = ks ∨
     (NoRec S ks ∧ (checkTxnStatus S cur ks).1 = effRollback S ks) ∨
     (∃ l n, ks.lock = some l ∧ l.ts = S ∧ (checkTxnStatus S cur ks).1 = effPush ks l n)) ∧
    (∀ cv, (checkTxnStatus S cur ks).2 = .committed cv → cv = CV ∧ HasC S (checkTxnStatus S cur ks).1) ∧
    ((checkTxnStatus S cur ks).2 = .rolledBack → HasR S (checkTxnStatus S cur ks).1) := by
  unfold checkTxnStatus
  split
  · rename_i l hl
    split
    · exact ⟨Or.inl rfl, by simp, by simp⟩
    · rename_i hts
      have hts' : l.ts = S := by simpa using hts
      have hn : NoRec S ks := (h.lk l hl hts').2.2
      split
      · have e : rollbackKey ks S = effRollback S ks := by
          simp [rollbackKey, findByStart_none.2 hn, effRollback]
        refine ⟨Or.inr (Or.inl ⟨hn, e⟩), by simp, fun _ => ?_⟩
        show HasR S (rollbackKey ks S)
        rw [e]; exact effRollback_hasR
      · split
        · exact ⟨Or.inr (Or.inr ⟨l, cur + 1, hl, hts', rfl⟩), by simp, by simp⟩
        · exact ⟨Or.inl rfl, by simp, by simp⟩
  · split
    · rename_i w hw
      obtain ⟨hmem, hs⟩ := findByStart_some hw
      split
      · rename_i hk
        exact ⟨Or.inl rfl, by simp, fun _ => ⟨w, hmem, hs, hk⟩⟩
      · rename_i hk
        refine ⟨Or.inl rfl, ?_, by simp⟩
        intro cv hcv
        have hcv' : w.commitTs = cv := by simpa using hcv
        rcases h.recs w hmem hs with rfl | rfl
        · exact absurd rfl hk
        · exact ⟨hcv'.symm, ⟨_, hmem, hs, hk⟩⟩
    · rename_i hn
      have hn' := findByStart_none.1 hn
      have e : rollbackKey ks S = effRollback S ks := by
        simp [rollbackKey, hn, effRollback]
      refine ⟨Or.inr (Or.inl ⟨hn', e⟩), by simp, fun _ => ?_⟩
      show HasR S (rollbackKey ks S)
      rw [e]; exact effRollback_hasR

/-! ### requests of other transactions -/

theorem OtherStep.refl (ks : KeyState) {m : Mut} (h : KInv S CV m ks) : OtherStep S ks ks :=
  ⟨fun _ _ => Iff.rfl, fun _ _ => Iff.rfl, h.uniq, rfl⟩

/-- writing a record of another transaction (start ts ≠ S) at a commit ts that is neither S nor CV -/
theorem otherStep_write {m : Mut} {ks : KeyState} (h : KInv S CV m ks) (r : WriteRec) (hs : r.startTs ≠ S)
    (h1 : r.commitTs ≠ S) (h2 : r.commitTs ≠ CV) (lk' : Option Lock) (d' : Nat → Option Nat)
    (hl : ∀ l : Lock, l.ts = S → (lk' = some l ↔ ks.lock = some l)) (hd : d' S = ks.data S) :
    OtherStep S ks { lock := lk', writes := setWrite ks.writes r, data := d' } := by
  refine ⟨hl, ?_, ?_, hd⟩
  · intro w hw
    simp only [mem_setWrite]
    constructor
    · rintro (rfl | ⟨hm, _⟩)
      · exact absurd hw hs
      · exact hm
    · intro hm
      refine Or.inr ⟨hm, ?_⟩
      rcases h.recs w hm hw with rfl | rfl
      · exact fun e => h1 e.symm
      · exact fun e => h2 e.symm
  · intro w1 hw1 w2 hw2 e
    rcases mem_setWrite.1 hw1 with r1 | ⟨m1, n1⟩ <;> rcases mem_setWrite.1 hw2 with r2 | ⟨m2, n2⟩
    · rw [r1, r2]
    · subst r1; exact absurd e.symm n2
    · subst r2; exact absurd e n1
    · exact h.uniq w1 m1 w2 m2 e

theorem dropLock_iff {fts : Nat} (hne : fts ≠ S) (o : Option Lock) (l : Lock) (hl : l.ts = S) :
    dropLock fts o = some l ↔ o = some l := by
  constructor
  · intro h; exact (dropLock_some h).1
  · intro h; rw [h]; exact dropLock_keep (by rw [hl]; exact Ne.symm hne)

theorem other_rollbackKey {m : Mut} {ks : KeyState} (h : KInv S CV m ks) {fts : Nat} (h1 : fts ≠ S) (h2 : fts ≠ CV) :
    OtherStep S ks (rollbackKey ks fts) := by
  rcases rollbackKey_eff (S := fts) ks with e | ⟨_, e⟩
  · rw [e]; exact OtherStep.refl ks h
  · rw [e]
    exact otherStep_write h ⟨fts, fts, .rollback⟩ h1 h1 h2 _ _ (fun l hl => dropLock_iff h1 ks.lock l hl)
      (by simp [setData, Ne.symm h1])

/-- the lock belongs to another transaction: whatever `commitKey` does is none of T's business -/
theorem other_commitKey {m : Mut} {ks : KeyState} (h : KInv S CV m ks) {l : Lock} (hl : ks.lock = some l)
    (hts : l.ts ≠ S) {cv : Nat} (h1 : cv ≠ S) (h2 : cv ≠ CV) : OtherStep S ks (commitKey ks l cv).1 := by
  have nolock : ∀ l' : Lock, l'.ts = S → ((none : Option Lock) = some l' ↔ ks.lock = some l') := by
    intro l' hl'
    constructor
    · intro e; cases e
    · intro e; rw [hl] at e; cases e; exact absurd hl' hts
  unfold commitKey
  split
  · exact OtherStep.refl ks h
  · split
    · split
      · exact OtherStep.refl ks h
      · split
        · exact ⟨nolock, fun _ _ => Iff.rfl, h.uniq, rfl⟩
        · exact OtherStep.refl ks h
    · exact otherStep_write h ⟨cv, l.ts, l.kind⟩ hts h1 h2 _ _ nolock rfl

theorem other_apply (pc : PercCfg) {m : Mut} {ks : KeyState} (h : KInv S CV m ks) (r : FReq)
    (hd : r.Distinct S CV) : OtherStep S ks (r.apply pc ks) := by
  cases r with
  | prewrite m' fts ttl =>
    obtain ⟨h1, _⟩ := hd
    simp only [FReq.apply]
    split
    · rename_i hok
      unfold prewriteKey at hok ⊢
      split at hok
      · cases hok
      · rename_i hlo
        split at hok
        · rename_i hkeep
          simp only [hlo, hkeep]
          exact OtherStep.refl ks h
        · rename_i hkeep
          split at hok
          · cases hok
          · rename_i hnew
            simp only [hlo, hkeep, hnew]
            refine ⟨?_, fun _ _ => Iff.rfl, h.uniq, by simp [setData, Ne.symm h1]⟩
            intro l hl
            constructor
            · intro e
              have e' : (⟨fts, ttl, 0, m'.kind⟩ : Lock) = l := Option.some.inj e
              subst e'
              exact absurd hl h1
            · intro e
              exfalso
              apply hlo
              simp [lockedByOther, e, hl, Ne.symm h1]
    · exact OtherStep.refl ks h
  | commit k fts fcv =>
    obtain ⟨h1, _, h3, h4⟩ := hd
    simp only [FReq.apply]
    unfold commitReqKey
    split
    · split
      · split <;> exact OtherStep.refl ks h
      · exact OtherStep.refl ks h
    · rename_i l hl
      split
      · exact OtherStep.refl ks h
      · rename_i hts
        have hts' : l.ts = fts := by simpa using hts
        exact other_commitKey h hl (by rw [hts']; exact h1) h3 h4
  | resolve k fts fcv =>
    obtain ⟨h1, h2, h3, h4⟩ := hd
    simp only [FReq.apply]
    unfold resolveKey
    split
    · exact OtherStep.refl ks h
    · rename_i l hl
      split
      · exact OtherStep.refl ks h
      · rename_i hts
        have hts' : l.ts = fts := by simpa using hts
        split
        · exact other_rollbackKey h h1 h2
        · exact other_commitKey h hl (by rw [hts']; exact h1) h3 h4
  | check k fts cur =>
    obtain ⟨h1, h2⟩ := hd
    simp only [FReq.apply]
    unfold checkTxnStatus
    split
    · rename_i l hl
      split
      · exact OtherStep.refl ks h
      · rename_i hts
        have hts' : l.ts = fts := by simpa using hts
        split
        · exact other_rollbackKey h h1 h2
        · split
          · refine ⟨?_, fun _ _ => Iff.rfl, h.uniq, rfl⟩
            intro l' hl'
            constructor
            · intro e
              simp only [Option.some.injEq] at e
              subst e
              exact absurd (hts'.symm.trans hl') h1
            · intro e
              rw [hl] at e
              simp only [Option.some.injEq] at e
              subst e
              exact absurd (hts'.symm.trans hl') h1
          · exact OtherStep.refl ks h
    · split
      · split <;> exact OtherStep.refl ks h
      · exact other_rollbackKey h h1 h2
  | rollback k fts =>
    obtain ⟨h1, h2⟩ := hd
    exact other_rollbackKey h h1 h2

end perkey

/-! ### store level -/

variable {t : Txn}

theorem prewrite_ginv (wf : TxnWF t) (pc : PercCfg) : ∀ (ms : List Mut) (s : Store), GInv t s → (∀ m ∈ ms, m ∈ t.muts) →
    GInv t (prewrite pc t.start t.ttl ms s).1 ∧ SMono t s (prewrite pc t.start t.ttl ms s).1 ∧
    ((prewrite pc t.start t.ttl ms s).2 = [] → ∀ m ∈ ms, Touched t.start ((prewrite pc t.start t.ttl ms s).1 m.key))
  | [], s, h, _ => ⟨h, SMono.refl _ _, fun _ m hm => by cases hm⟩
  | m :: ms, s, h, hsub => by
    have hm : m ∈ t.muts := hsub m (List.mem_cons_self ..)
    have hsub' : ∀ m' ∈ ms, m' ∈ t.muts := fun m' h' => hsub m' (List.mem_cons_of_mem _ h')
    rcases prewriteKey_eff pc (ttl := t.ttl) (wf.ok hm) (h.k m hm) with ⟨hne, _⟩ | ⟨hok, he, hl⟩ | ⟨hok, he, hn⟩
    · have ih := prewrite_ginv wf pc ms s h hsub'
      simp only [prewrite, hne, if_false]
      exact ⟨ih.1, ih.2.1, fun hnil => by simp at hnil⟩
    · -- duplicate: the transaction's lock is kept as it is
      have ih := prewrite_ginv wf pc ms s h hsub'
      simp only [prewrite, hok, if_true, he, Store.set_self]
      refine ⟨ih.1, ih.2.1, fun hnil m' hm' => ?_⟩
      rcases List.mem_cons.1 hm' with rfl | hm''
      · exact (ih.2.1 m'.key ⟨m', hm, rfl⟩).t (Or.inl hl)
      · exact ih.2.2 hnil m' hm''
    · have st : KStep t.start t.cv m (s m.key) (effLock t.start t.ttl m (s m.key)) := KStep.lock t.ttl hn
      have g := GInv.set wf h hm st
        (fun _ _ hc => absurd (effLock_hasC.1 hc) (not_C_of_noRec hn))
        (fun _ _ hc => absurd (effLock_hasC.1 hc) (not_C_of_noRec hn))
        (fun _ _ hr => absurd (effLock_hasR.1 hr) (not_R_of_noRec hn))
      have ih := prewrite_ginv wf pc ms _ g.1 hsub'
      simp only [prewrite, hok, if_true, he]
      refine ⟨ih.1, g.2.trans ih.2.1, fun hnil m' hm' => ?_⟩
      rcases List.mem_cons.1 hm' with rfl | hm''
      · have : Touched t.start ((s.set m'.key (effLock t.start t.ttl m' (s m'.key))) m'.key) := by
          rw [Store.set_same]; exact Or.inl ⟨_, rfl, rfl⟩
        exact (ih.2.1 m'.key ⟨m', hm, rfl⟩).t this
      · exact ih.2.2 hnil m' hm''

/-- a commit RPC for secondaries only, issued while the primary is committed -/
theorem commit_sec_ginv (wf : TxnWF t) (c : PercCfg) : ∀ (ks : List Nat) (s : Store), GInv t s →
    HasC t.start (s t.primary) → (∀ k ∈ ks, k ≠ t.primary ∧ ∃ m ∈ t.muts, m.key = k) →
    GInv t (commit c t.start t.cv ks s).1 ∧ SMono t s (commit c t.start t.cv ks s).1
  | [], s, h, _, _ => ⟨h, SMono.refl _ _⟩
  | k :: ks, s, h, hP, hsub => by
    obtain ⟨hkP, m, hm, rfl⟩ := hsub k (List.mem_cons_self ..)
    have hsub' := fun k' h' => hsub k' (List.mem_cons_of_mem _ h')
    rcases commitReqKey_eff c t.cv (h.k m hm) with ⟨he, _⟩ | ⟨l, hl, hts, hok, he⟩
    · simp only [commit]
      split
      · have hs : s.set m.key (commitReqKey c t.start t.cv (s m.key)).1 = s := by
          rw [he]; exact Store.set_self s m.key
        rw [hs]; exact commit_sec_ginv wf c ks s h hP hsub'
      · exact ⟨h, SMono.refl _ _⟩
    · have hkind : l.kind ≠ .rollback := by
        rw [((h.k m hm).lk l hl hts).1]; exact wf.kinds m hm
      have hn := ((h.k m hm).lk l hl hts).2.2
      have g := GInv.set wf h hm (KStep.commit l hl hts)
        (fun e => absurd e hkP) (fun _ _ _ => hP)
        (fun _ _ hr => absurd hr (effCommit_noR hn hkind))
      have hP' := (g.2 t.primary wf.primIsKey).c hP
      have ih := commit_sec_ginv wf c ks _ g.1 hP' hsub'
      simp only [commit, hok, if_true, he]
      exact ⟨ih.1, g.2.trans ih.2⟩

/-- the commit RPC of the primary alone, issued after every prewrite succeeded -/
theorem commit_prim_ginv (wf : TxnWF t) (c : PercCfg) (s : Store) (h : GInv t s) (hall : AllTouched t s) :
    GInv t (commit c t.start t.cv [t.primary] s).1 ∧ SMono t s (commit c t.start t.cv [t.primary] s).1 ∧
    ((commit c t.start t.cv [t.primary] s).2 = .ok → c.commitNoLockRejectsRollback = true →
      HasC t.start ((commit c t.start t.cv [t.primary] s).1 t.primary)) := by
  obtain ⟨m, hm, hmk⟩ := wf.prim
  rw [← hmk]
  rcases commitReqKey_eff c t.cv (h.k m hm) with ⟨he, hc⟩ | ⟨l, hl, hts, hok, he⟩
  · simp only [commit]
    split
    · rename_i hok
      have hs : s.set m.key (commitReqKey c t.start t.cv (s m.key)).1 = s := by
        rw [he]; exact Store.set_self s m.key
      rw [hs]
      exact ⟨h, SMono.refl _ _, fun _ hf => hc hok hf⟩
    · rename_i hne
      exact ⟨h, SMono.refl _ _, fun hok => absurd hok hne⟩
  · have hkind : l.kind ≠ .rollback := by
      rw [((h.k m hm).lk l hl hts).1]; exact wf.kinds m hm
    have hn := ((h.k m hm).lk l hl hts).2.2
    have g := GInv.set wf h hm (KStep.commit l hl hts)
      (fun _ _ _ => hall) (fun ne => absurd hmk ne)
      (fun _ _ hr => absurd hr (effCommit_noR hn hkind))
    simp only [commit, hok, if_true, he]
    refine ⟨g.1, g.2, fun _ _ => ?_⟩
    rw [Store.set_same]; exact effCommit_hasC hts hkind

/-- `ResolveLock` with the primary's decision -/
theorem resolve_ginv (wf : TxnWF t) (cv : Nat) : ∀ (ks : List Nat) (s : Store), GInv t s →
    ((cv = t.cv ∧ HasC t.start (s t.primary)) ∨ (cv = 0 ∧ HasR t.start (s t.primary))) →
    (∀ k ∈ ks, ∃ m ∈ t.muts, m.key = k) →
    GInv t (resolveLock t.start cv ks s).1 ∧ SMono t s (resolveLock t.start cv ks s).1
  | [], s, h, _, _ => ⟨h, SMono.refl _ _⟩
  | k :: ks, s, h, hdec, hsub => by
    obtain ⟨m, hm, rfl⟩ := hsub k (List.mem_cons_self ..)
    have hsub' := fun k' h' => hsub k' (List.mem_cons_of_mem _ h')
    have hcv0 : t.cv ≠ 0 := by have := wf.lt; omega
    have next : ∀ (ks' : KeyState), (resolveKey t.start cv (s m.key)).1 = ks' →
        GInv t (s.set m.key ks') → SMono t s (s.set m.key ks') →
        GInv t (resolveLock t.start cv (m.key :: ks) s).1 ∧
          SMono t s (resolveLock t.start cv (m.key :: ks) s).1 := by
      intro ks' he g1 g2
      simp only [resolveLock]
      split
      · have hdec' : (cv = t.cv ∧ HasC t.start ((s.set m.key ks') t.primary)) ∨
            (cv = 0 ∧ HasR t.start ((s.set m.key ks') t.primary)) := by
          rcases hdec with ⟨e, hc⟩ | ⟨e, hr⟩
          · exact Or.inl ⟨e, (g2 t.primary wf.primIsKey).c hc⟩
          · exact Or.inr ⟨e, (g2 t.primary wf.primIsKey).r hr⟩
        have ih := resolve_ginv wf cv ks _ g1 hdec' hsub'
        rw [he]
        exact ⟨ih.1, g2.trans ih.2⟩
      · exact ⟨h, SMono.refl _ _⟩
    rcases resolveKey_eff cv (h.k m hm) with he | ⟨hz, hn, he⟩ | ⟨hnz, l, hl, hts, he⟩
    · have g1 : GInv t (s.set m.key (s m.key)) := by rw [Store.set_self]; exact h
      have g2 : SMono t s (s.set m.key (s m.key)) := by rw [Store.set_self]; exact SMono.refl _ _
      exact next (s m.key) he g1 g2
    · have hrP : HasR t.start (s t.primary) := by
        rcases hdec with ⟨e, _⟩ | ⟨_, hr⟩
        · exact absurd (e ▸ hz) hcv0
        · exact hr
      have g := GInv.set wf h hm (KStep.rollback hn)
        (fun _ _ hc => absurd hc (effRollback_noC hn))
        (fun _ _ hc => absurd hc (effRollback_noC hn))
        (fun _ _ _ => hrP)
      exact next _ he g.1 g.2
    · have hcP : cv = t.cv ∧ HasC t.start (s t.primary) := by
        rcases hdec with hc | ⟨e, _⟩
        · exact hc
        · exact absurd e hnz
      have hkind : l.kind ≠ .rollback := by
        rw [((h.k m hm).lk l hl hts).1]; exact wf.kinds m hm
      have hn := ((h.k m hm).lk l hl hts).2.2
      have st : KStep t.start t.cv m (s m.key) (effCommit (s m.key) l cv) := by
        rw [hcP.1]; exact KStep.commit l hl hts
      have g := GInv.set wf h hm st
        (fun e hnc _ => absurd (e ▸ hcP.2) hnc)
        (fun _ _ _ => hcP.2)
        (fun _ _ hr => absurd hr (effCommit_noR hn hkind))
      exact next _ he g.1 g.2

/-- a request of another transaction, on any key -/
theorem other_ginv (wf : TxnWF t) (pc : PercCfg) (s : Store) (h : GInv t s) (r : FReq)
    (hd : r.Distinct t.start t.cv) :
    GInv t (s.set r.key (r.apply pc (s r.key))) ∧ SMono t s (s.set r.key (r.apply pc (s r.key))) := by
  by_cases hk : ∃ m ∈ t.muts, m.key = r.key
  · obtain ⟨m, hm, e⟩ := hk
    rw [← e]
    exact GInv.other wf h hm (other_apply pc (h.k m hm) r hd)
  · exact GInv.set_nonkey wf h (fun m hm e => hk ⟨m, hm, e⟩) _

/-- `CheckTxnStatus` on the primary -/
theorem check_ginv (wf : TxnWF t) (cur : Nat) (s : Store) (h : GInv t s) :
    GInv t (s.set t.primary (checkTxnStatus t.start cur (s t.primary)).1) ∧
    SMono t s (s.set t.primary (checkTxnStatus t.start cur (s t.primary)).1) ∧
    (∀ cv, (checkTxnStatus t.start cur (s t.primary)).2 = .committed cv →
      cv = t.cv ∧ HasC t.start ((s.set t.primary (checkTxnStatus t.start cur (s t.primary)).1) t.primary)) ∧
    ((checkTxnStatus t.start cur (s t.primary)).2 = .rolledBack →
      HasR t.start ((s.set t.primary (checkTxnStatus t.start cur (s t.primary)).1) t.primary)) := by
  obtain ⟨m, hm, hmk⟩ := wf.prim
  rw [← hmk]
  obtain ⟨heff, hcm, hrb⟩ := checkTxnStatus_eff cur (wf.ok hm) (h.k m hm)
  simp only [Store.set_same]
  have key : GInv t (s.set m.key (checkTxnStatus t.start cur (s m.key)).1) ∧
      SMono t s (s.set m.key (checkTxnStatus t.start cur (s m.key)).1) := by
    rcases heff with he | ⟨hn, he⟩ | ⟨l, n, hl, hts, he⟩
    · rw [he, Store.set_self]; exact ⟨h, SMono.refl _ _⟩
    · rw [he]
      exact GInv.set wf h hm (KStep.rollback hn)
        (fun _ _ hc => absurd hc (effRollback_noC hn))
        (fun _ _ hc => absurd hc (effRollback_noC hn))
        (fun ne => absurd hmk ne)
    · rw [he]
      exact GInv.set wf h hm (KStep.push l n hl hts)
        (fun _ hnc hc => absurd hc hnc) (fun _ hnc hc => absurd hc hnc) (fun _ hnr hr => absurd hr hnr)
  exact ⟨key.1, key.2, hcm, hrb⟩

end NoKV.Client

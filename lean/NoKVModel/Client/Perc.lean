/-
Compact Percolator store model used by the client engine (C28, C30-raft).

One region store = one map `key ↦ KeyState` (lock CF, write CF, default CF of that key); keys of
different regions are disjoint, so the n region stores of a cluster are one `Store` plus a
`region : key → id` function (TwoPC.lean).  The request handlers follow
`/repo/percolator/txn.go` (Prewrite, Commit, ResolveLock, CheckTxnStatus, commitKey, rollbackKey)
and `/repo/raftstore/kv/apply.go:handleGet` + `/repo/percolator/reader.go`.

Abstractions (stated, not hidden):
* write CF of a key = list of records, one per commit ts (`setWrite` replaces the record with the
  same commit ts, as `SetVersionedEntry(CFWrite,key,commitTs)` does);
* `GetWriteByStartTs` = the record with that start ts (the real scan stops at the first record
  whose commit ts is below the start ts; every record a transaction produces has commit ts ≥ its
  start ts, so the early stop never hides one);
* `MostRecentWrite … commitTs >= startVersion` = "some record has commit ts ≥ start";
* default CF is read at exactly the start ts (prewrite always writes value or tombstone there
  before it writes the lock);
* timestamps are unbounded naturals (`ts + ttl` wrap-around is C19's subject).
-/
namespace NoKV.Client

inductive Kind where
  | put | del | rollback
  deriving DecidableEq, Repr, Inhabited

structure WriteRec where
  commitTs : Nat
  startTs : Nat
  kind : Kind
  deriving DecidableEq, Repr

structure Lock where
  ts : Nat
  ttl : Nat
  minCommit : Nat
  kind : Kind
  deriving DecidableEq, Repr

structure KeyState where
  lock : Option Lock
  writes : List WriteRec
  data : Nat → Option Nat

def KeyState.empty : KeyState := ⟨none, [], fun _ => none⟩

abbrev Store := Nat → KeyState

def Store.empty : Store := fun _ => KeyState.empty

def Store.set (s : Store) (k : Nat) (v : KeyState) : Store := fun k' => if k' = k then v else s k'

@[simp] theorem Store.set_same (s : Store) (k : Nat) (v : KeyState) : (s.set k v) k = v := by
  simp [Store.set]

theorem Store.set_self (s : Store) (k : Nat) : s.set k (s k) = s := by
  funext k'; simp only [Store.set]; split <;> simp_all

theorem Store.set_other (s : Store) {k k' : Nat} (v : KeyState) (h : k' ≠ k) : (s.set k v) k' = s k' := by
  simp [Store.set, h]

def setData (d : Nat → Option Nat) (ts : Nat) (v : Option Nat) : Nat → Option Nat :=
  fun t => if t = ts then v else d t

/-- `SetVersionedEntry(CFWrite, key, r.commitTs, …)` -/
def setWrite (ws : List WriteRec) (r : WriteRec) : List WriteRec :=
  r :: ws.filter (fun w => w.commitTs ≠ r.commitTs)

/-- `Reader.GetWriteByStartTs` -/
def findByStart (ws : List WriteRec) (start : Nat) : Option WriteRec :=
  ws.find? (fun w => w.startTs = start)

/-- `MostRecentWrite` has commit ts ≥ start -/
def hasNewer (ws : List WriteRec) (start : Nat) : Bool :=
  ws.any (fun w => decide (start ≤ w.commitTs))

/-- per-key outcome classes (`pb.KeyError` variants) -/
inductive KErr where
  | ok | locked | conflict | lockNotFound | expired | rolledBack
  deriving DecidableEq, Repr

def KErr.str : KErr → String
  | .ok => "ok" | .locked => "locked" | .conflict => "conflict" | .lockNotFound => "nolock"
  | .expired => "expired" | .rolledBack => "rolledback"

structure Mut where
  key : Nat
  kind : Kind      -- put | del
  val : Nat
  deriving DecidableEq, Repr

def Mut.dataVal (m : Mut) : Option Nat := if m.kind = .put then some m.val else none

/-- decisions of `percolator/txn.go` / `reader.go` the client model is parameterised by -/
structure PercCfg where
  /-- `Commit`, lock-missing path: is a *rollback* record refused (true) or is any record with
      the start ts taken as "already committed" (false, as-is)? -/
  commitNoLockRejectsRollback : Bool
  /-- `Reader.getWriteForRead`: does the scan look past rollback markers (true) or does the
      newest record ≤ the read version win whatever its kind (false: a rollback marker then hides
      the older committed value — C17's finding)? -/
  readSkipsRollback : Bool
  /-- `prewriteMutation`: a duplicate prewrite of the same transaction leaves its existing lock as
      it is (true) or rewrites it, resetting TTL and a pushed min-commit ts (false, old shape) -/
  prewriteKeepsOwnLock : Bool
  deriving DecidableEq, Repr

/-- `lock != nil && lock.Ts != req.StartVersion` -/
def lockedByOther (ks : KeyState) (start : Nat) : Bool :=
  match ks.lock with
  | some l => decide (l.ts ≠ start)
  | none => false

/-- `lock != nil && req.GetVersion() >= lock.Ts` (`handleGet`) -/
def lockBlocks (ks : KeyState) (v : Nat) : Bool :=
  match ks.lock with
  | some l => decide (l.ts ≤ v)
  | none => false

/-- `prewriteMutation` -/
def prewriteKey (pc : PercCfg) (start ttl : Nat) (m : Mut) (ks : KeyState) : KeyState × KErr :=
  if lockedByOther ks start then (ks, .locked)
  else if pc.prewriteKeepsOwnLock && ks.lock.isSome then (ks, .ok)      -- already prewritten by this transaction
  else if hasNewer ks.writes start then (ks, .conflict)
  else ({ lock := some ⟨start, ttl, 0, m.kind⟩, writes := ks.writes,
          data := setData ks.data start m.dataVal }, .ok)

/-- `commitKey` (lock present and owned by the transaction) -/
def commitKey (ks : KeyState) (l : Lock) (cv : Nat) : KeyState × KErr :=
  if cv < l.minCommit then (ks, .expired)
  else match findByStart ks.writes l.ts with
    | some w =>
      if w.kind = .rollback then (ks, .rolledBack)
      else if w.commitTs ≠ cv then ({ ks with lock := none }, .ok)
      else (ks, .ok)
    | none => ({ ks with lock := none, writes := setWrite ks.writes ⟨cv, l.ts, l.kind⟩ }, .ok)

/-- `rollbackKey` removes the lock only when it belongs to the transaction being rolled back -/
def dropLock (start : Nat) : Option Lock → Option Lock
  | some l => if l.ts = start then none else some l
  | none => none

/-- `rollbackKey` -/
def rollbackKey (ks : KeyState) (start : Nat) : KeyState :=
  match findByStart ks.writes start with
  | some _ => ks
  | none => { lock := dropLock start ks.lock, writes := setWrite ks.writes ⟨start, start, .rollback⟩,
              data := setData ks.data start none }

/-- one iteration of the loop of `Commit` -/
def commitReqKey (c : PercCfg) (start cv : Nat) (ks : KeyState) : KeyState × KErr :=
  match ks.lock with
  | none =>
    match findByStart ks.writes start with
    | some w => if c.commitNoLockRejectsRollback && decide (w.kind = .rollback) then (ks, .rolledBack) else (ks, .ok)
    | none => (ks, .lockNotFound)
  | some l => if l.ts ≠ start then (ks, .locked) else commitKey ks l cv

/-- one iteration of the loop of `ResolveLock` (`cv = 0` ⇒ rollback) -/
def resolveKey (start cv : Nat) (ks : KeyState) : KeyState × KErr :=
  match ks.lock with
  | none => (ks, .ok)
  | some l =>
    if l.ts ≠ start then (ks, .ok)
    else if cv = 0 then (rollbackKey ks start, .ok)
    else commitKey ks l cv

/-- `Prewrite`: every mutation is attempted, errors are collected -/
def prewrite (pc : PercCfg) (start ttl : Nat) : List Mut → Store → Store × List KErr
  | [], s => (s, [])
  | m :: ms, s =>
    let r := prewriteKey pc start ttl m (s m.key)
    let s1 := if r.2 = .ok then s.set m.key r.1 else s
    let rest := prewrite pc start ttl ms s1
    (rest.1, if r.2 = .ok then rest.2 else r.2 :: rest.2)

/-- `Commit`: stops at the first key error; keys before it stay committed -/
def commit (c : PercCfg) (start cv : Nat) : List Nat → Store → Store × KErr
  | [], s => (s, .ok)
  | k :: ks, s =>
    let r := commitReqKey c start cv (s k)
    if r.2 = .ok then commit c start cv ks (s.set k r.1) else (s, r.2)

/-- `ResolveLock` -/
def resolveLock (start cv : Nat) : List Nat → Store → Store × KErr
  | [], s => (s, .ok)
  | k :: ks, s =>
    let r := resolveKey start cv (s k)
    if r.2 = .ok then resolveLock start cv ks (s.set k r.1) else (s, r.2)

/-- what a resolver learns from `CheckTxnStatus` -/
inductive Status where
  | committed (cv : Nat) | rolledBack | alive | lockedByOther
  deriving DecidableEq, Repr

def Status.str : Status → String
  | .committed cv => s!"committed:{cv}" | .rolledBack => "rolledback" | .alive => "alive"
  | .lockedByOther => "locked"

/-- `CheckTxnStatus` as issued by `client.CheckTxnStatus` (`CallerStartTs = CurrentTs = cur`,
    `RollbackIfNotExist = true`) -/
def checkTxnStatus (start cur : Nat) (ks : KeyState) : KeyState × Status :=
  match ks.lock with
  | some l =>
    if l.ts ≠ start then (ks, .lockedByOther)
    else if l.ttl ≠ 0 ∧ l.ts + l.ttl ≤ cur then (rollbackKey ks start, .rolledBack)
    else if 0 < cur ∧ l.minCommit < cur + 1 then
      ({ ks with lock := some { l with minCommit := cur + 1 } }, .alive)
    else (ks, .alive)
  | none =>
    match findByStart ks.writes start with
    | some w => if w.kind = .rollback then (ks, .rolledBack) else (ks, .committed w.commitTs)
    | none => (rollbackKey ks start, .rolledBack)

/-- the record with the greatest commit ts ≤ v -/
def readRec : List WriteRec → Nat → Option WriteRec
  | [], _ => none
  | w :: ws, v =>
    match readRec ws v with
    | none => if w.commitTs ≤ v then some w else none
    | some b => if w.commitTs ≤ v ∧ b.commitTs < w.commitTs then some w else some b

inductive GetRes where
  | locked | notFound | val (v : Nat)
  deriving DecidableEq, Repr

def GetRes.str : GetRes → String
  | .locked => "locked" | .notFound => "notfound" | .val v => s!"val:{v}"

/-- the records `getWriteForRead` considers -/
def readable (c : PercCfg) (ws : List WriteRec) : List WriteRec :=
  if c.readSkipsRollback then ws.filter (fun w => w.kind ≠ .rollback) else ws

/-- `getWriteForRead` -/
def readVisible (c : PercCfg) (ws : List WriteRec) (v : Nat) : Option WriteRec := readRec (readable c ws) v

/-- `handleGet` + `Reader.GetValue` -/
def get (c : PercCfg) (ks : KeyState) (v : Nat) : GetRes :=
  if lockBlocks ks v then .locked
  else match readVisible c ks.writes v with
    | none => .notFound
    | some w =>
      if w.kind = .put then
        (match ks.data w.startTs with | some x => .val x | none => .notFound)
      else .notFound

end NoKV.Client

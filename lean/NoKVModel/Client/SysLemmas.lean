/-
C28: the system invariant of the client step machine and its preservation by every step
(under the good configuration: primary committed alone and first, commit errors stop the client,
`Commit` refuses a rolled-back transaction).
-/
import NoKVModel.Client.HandlerLemmas

namespace NoKV.Client

variable {c : ClientCfg} {t : Txn}

/-! ### shape of the program -/

theorem prePhase_length (t : Txn) : t.prePhase.length = t.ip := by
  simp [Txn.prePhase, Txn.ip]

theorem mem_prePhase {t : Txn} {rpc : Rpc} (h : rpc ∈ t.prePhase) : ∃ r, rpc = .prewrite (t.mutsIn r) := by
  simp only [Txn.prePhase, List.mem_cons, List.mem_map] at h
  rcases h with rfl | ⟨r, _, rfl⟩
  · exact ⟨_, rfl⟩
  · exact ⟨r, rfl⟩

theorem mutsIn_sub {t : Txn} {r : Nat} {m : Mut} (h : m ∈ t.mutsIn r) : m ∈ t.muts ∧ t.region m.key = r := by
  simpa [Txn.mutsIn, List.mem_filter] using h

theorem program_good (hc : c.Good) (t : Txn) :
    program c t = t.prePhase ++ (.commit [t.primary] ::
      ((if t.restKeys = [] then [] else [.commit t.restKeys]) ++ t.commitTail)) := by
  simp [program, Txn.commitHead, hc.1]

/-- RPCs before `ip` are prewrites of mutations of the transaction -/
theorem program_lt (hc : c.Good) {i : Nat} (hi : i < t.ip) :
    ∃ r, (program c t)[i]? = some (.prewrite (t.mutsIn r)) := by
  rw [program_good hc, List.getElem?_append_left (by rw [prePhase_length]; exact hi)]
  have hlt : i < t.prePhase.length := by rw [prePhase_length]; exact hi
  obtain ⟨r, hr⟩ := mem_prePhase (List.getElem_mem hlt)
  exact ⟨r, by rw [List.getElem?_eq_getElem hlt, hr]⟩

theorem program_ip (hc : c.Good) : (program c t)[t.ip]? = some (.commit [t.primary]) := by
  rw [program_good hc, List.getElem?_append_right (by rw [prePhase_length]; exact Nat.le_refl _)]
  simp [prePhase_length]

theorem restKeys_sec (wf : TxnWF t) {k : Nat} (h : k ∈ t.restKeys) : k ≠ t.primary ∧ ∃ m ∈ t.muts, m.key = k := by
  simp only [Txn.restKeys, Txn.keysIn, List.mem_filter, List.mem_map, decide_eq_true_eq] at h
  obtain ⟨⟨m, hm, rfl⟩, hne⟩ := h
  exact ⟨hne, m, (mutsIn_sub hm).1, rfl⟩

theorem tail_sec (wf : TxnWF t) {rpc : Rpc} (h : rpc ∈ t.commitTail) :
    ∃ ks, rpc = .commit ks ∧ ∀ k ∈ ks, k ≠ t.primary ∧ ∃ m ∈ t.muts, m.key = k := by
  simp only [Txn.commitTail, List.mem_map] at h
  obtain ⟨r, hr, rfl⟩ := h
  refine ⟨_, rfl, fun k hk => ?_⟩
  simp only [Txn.keysIn, List.mem_map] at hk
  obtain ⟨m, hm, rfl⟩ := hk
  obtain ⟨hm1, hm2⟩ := mutsIn_sub hm
  refine ⟨fun e => ?_, m, hm1, rfl⟩
  apply wf.com
  rw [← e, hm2]; exact hr

/-- RPCs after `ip` commit secondaries only -/
theorem program_gt (hc : c.Good) (wf : TxnWF t) {i : Nat} (hi : t.ip < i) {rpc : Rpc}
    (h : (program c t)[i]? = some rpc) :
    ∃ ks, rpc = .commit ks ∧ ∀ k ∈ ks, k ≠ t.primary ∧ ∃ m ∈ t.muts, m.key = k := by
  rw [program_good hc, List.getElem?_append_right (by rw [prePhase_length]; exact Nat.le_of_lt hi)] at h
  rw [prePhase_length] at h
  obtain ⟨j, hj⟩ : ∃ j, i - t.ip = j + 1 := ⟨i - t.ip - 1, by omega⟩
  rw [hj, List.getElem?_cons_succ] at h
  have hmem := List.mem_of_getElem? h
  rcases List.mem_append.1 hmem with h1 | h2
  · split at h1
    · cases h1
    · simp only [List.mem_singleton] at h1
      exact ⟨_, h1, fun k hk => restKeys_sec wf hk⟩
  · exact tail_sec wf h2

theorem program_prewrite_sub (hc : c.Good) (wf : TxnWF t) {i : Nat} {ms : List Mut}
    (h : (program c t)[i]? = some (.prewrite ms)) : i < t.ip ∧ ∀ m ∈ ms, m ∈ t.muts := by
  by_cases hi : i < t.ip
  · obtain ⟨r, hr⟩ := program_lt (c := c) (t := t) hc hi
    rw [hr] at h
    simp only [Option.some.injEq, Rpc.prewrite.injEq] at h
    subst h
    exact ⟨hi, fun m hm => (mutsIn_sub hm).1⟩
  · by_cases he : i = t.ip
    · subst he; rw [program_ip hc] at h; simp at h
    · obtain ⟨ks, hk, _⟩ := program_gt hc wf (by omega) h
      cases hk

/-- every mutation is covered by a prewrite RPC -/
theorem program_cover (hc : c.Good) (wf : TxnWF t) {m : Mut} (hm : m ∈ t.muts) :
    ∃ i ms, i < t.ip ∧ (program c t)[i]? = some (.prewrite ms) ∧ m ∈ ms := by
  by_cases hr : t.region m.key = t.region t.primary
  · refine ⟨0, t.mutsIn (t.region t.primary), by simp [Txn.ip], ?_, ?_⟩
    · rw [program_good hc]; simp [Txn.prePhase]
    · simp [Txn.mutsIn, List.mem_filter, hm, hr]
  · have hin := wf.pre m hm hr
    obtain ⟨j, hj, hjr⟩ := List.getElem_of_mem hin
    refine ⟨j + 1, t.mutsIn (t.region m.key), by simp [Txn.ip]; exact hj, ?_, ?_⟩
    · rw [program_good hc, List.getElem?_append_left (by rw [prePhase_length]; simp [Txn.ip]; exact hj)]
      simp [Txn.prePhase, List.getElem?_map, List.getElem?_eq_getElem hj, hjr]
    · simp [Txn.mutsIn, List.mem_filter, hm]

/-! ### the invariant -/

/-- the current run's grouping is a well-formed regrouping of the same transaction -/
structure SameTxn (t cur : Txn) : Prop where
  wf : TxnWF cur
  muts : cur.muts = t.muts
  primary : cur.primary = t.primary
  start : cur.start = t.start
  cv : cur.cv = t.cv

theorem SameTxn.refl (wf : TxnWF t) : SameTxn t t := ⟨wf, rfl, rfl, rfl, rfl⟩

theorem SameTxn.regroup (wf : TxnWF t) {g : Grouping} (hg : g.OK t) : SameTxn t (t.regroup g) :=
  ⟨⟨wf.lt, wf.kinds, wf.nodup, wf.prim, hg.1, hg.2⟩, rfl, rfl, rfl, rfl⟩

/-- an RPC that was sent may be executed now (and again later) -/
def IssOK (t : Txn) (s : Store) : Rpc → Prop
  | .prewrite ms => ∀ m ∈ ms, m ∈ t.muts
  | .commit ks => (ks = [t.primary] ∧ AllTouched t s) ∨
                  ((∀ k ∈ ks, k ≠ t.primary ∧ ∃ m ∈ t.muts, m.key = k) ∧ HasC t.start (s t.primary))

theorem IssOK.mono (wf : TxnWF t) {s s' : Store} (mono : SMono t s s') {rpc : Rpc} (h : IssOK t s rpc) : IssOK t s' rpc := by
  cases rpc with
  | prewrite ms => exact h
  | commit ks =>
    rcases h with ⟨e, ha⟩ | ⟨hk, hc⟩
    · exact Or.inl ⟨e, fun m hm => (mono m.key ⟨m, hm, rfl⟩).t (ha m hm)⟩
    · exact Or.inr ⟨hk, (mono t.primary wf.primIsKey).c hc⟩

/-- executing an RPC that satisfies `IssOK` -/
theorem exec_iss (hc : c.Good) (wf : TxnWF t) {s : Store} (g : GInv t s) {rpc : Rpc} (h : IssOK t s rpc) :
    GInv t (execRpc c t rpc s).1 ∧ SMono t s (execRpc c t rpc s).1 ∧
    (rpc = .commit [t.primary] → (execRpc c t rpc s).2 = true → HasC t.start ((execRpc c t rpc s).1 t.primary)) ∧
    (∀ ms, rpc = .prewrite ms → (execRpc c t rpc s).2 = true → ∀ m ∈ ms, Touched t.start ((execRpc c t rpc s).1 m.key)) := by
  cases rpc with
  | prewrite ms =>
    have := prewrite_ginv wf c.perc ms s g h
    simp only [execRpc]
    refine ⟨this.1, this.2.1, (fun e => by cases e), fun ms' hms hok => ?_⟩
    simp only [Rpc.prewrite.injEq] at hms
    subst hms
    exact this.2.2 (by simpa using hok)
  | commit ks =>
    rcases h with ⟨e, ha⟩ | ⟨hk, hC⟩
    · subst e
      have := commit_prim_ginv wf c.perc s g ha
      simp only [execRpc]
      exact ⟨this.1, this.2.1, fun _ hok => this.2.2 (by simpa using hok) hc.2.2, fun ms hms => by cases hms⟩
    · have := commit_sec_ginv wf c.perc ks s g hC hk
      simp only [execRpc]
      refine ⟨this.1, this.2, fun e hok => ?_, fun ms hms => by cases hms⟩
      simp only [Rpc.commit.injEq] at e
      subst e
      exact absurd rfl (hk t.primary (List.mem_singleton.2 rfl)).1

structure SInv (c : ClientCfg) (t : Txn) (y : Sys) : Prop where
  g : GInv t y.store
  cw : SameTxn t y.cur
  e : y.cur.ip < y.pc → HasC t.start (y.store t.primary)
  f : ∀ i ms, i < y.pc → (program c y.cur)[i]? = some (.prewrite ms) → ∀ m ∈ ms, m ∈ t.muts → Touched t.start (y.store m.key)
  iss : ∀ rpc ∈ y.issued, IssOK t y.store rpc
  lc : ∀ cv, y.learned = some (.committed cv) → cv = t.cv ∧ HasC t.start (y.store t.primary)
  lr : y.learned = some .rolledBack → HasR t.start (y.store t.primary)

/-- the RPC at any position `i ≤ pc` of the current program may be executed, given the
bookkeeping about the positions below `pc` -/
theorem pend_ok (hc : c.Good) {cur : Txn} (cw : SameTxn t cur) {s : Store} {pc : Nat}
    (e : cur.ip < pc → HasC t.start (s t.primary))
    (f : ∀ i ms, i < pc → (program c cur)[i]? = some (.prewrite ms) → ∀ m ∈ ms, m ∈ t.muts → Touched t.start (s m.key))
    {rpc : Rpc} (hr : (program c cur)[pc]? = some rpc) : IssOK t s rpc := by
  by_cases h1 : pc < cur.ip
  · obtain ⟨r, hr'⟩ := program_lt (c := c) (t := cur) hc h1
    rw [hr'] at hr
    simp only [Option.some.injEq] at hr
    subst hr
    intro m hm
    exact cw.muts ▸ (mutsIn_sub hm).1
  · by_cases h2 : pc = cur.ip
    · subst h2
      rw [program_ip hc] at hr
      simp only [Option.some.injEq] at hr
      subst hr
      refine Or.inl ⟨by rw [cw.primary], fun m hm => ?_⟩
      obtain ⟨i, ms, hi, hp, hmem⟩ := program_cover (c := c) hc cw.wf (cw.muts ▸ hm)
      exact f i ms hi hp m hmem hm
    · have h3 : cur.ip < pc := by omega
      obtain ⟨ks, rfl, hks⟩ := program_gt hc cw.wf h3 hr
      refine Or.inr ⟨fun k hk => ?_, e h3⟩
      obtain ⟨a, m, hm, b⟩ := hks k hk
      exact ⟨cw.primary ▸ a, m, cw.muts ▸ hm, b⟩

theorem SInv.pend (hc : c.Good) {y : Sys} (h : SInv c t y) {rpc : Rpc} (hr : (program c y.cur)[y.pc]? = some rpc) :
    IssOK t y.store rpc := pend_ok hc h.cw h.e h.f hr

/-- a store change that preserves `GInv` and loses nothing keeps the bookkeeping valid -/
theorem SInv.store {y : Sys} (h : SInv c t y) (wf : TxnWF t) {s' : Store} (g : GInv t s') (mono : SMono t y.store s')
    (y' : Sys) (hs : y'.store = s') (hcur : y'.cur = y.cur) (hpc : y'.pc = y.pc) (hiss : y'.issued = y.issued)
    (hl : y'.learned = y.learned) : SInv c t y' := by
  refine ⟨hs ▸ g, hcur ▸ h.cw, ?_, ?_, ?_, ?_, ?_⟩
  · intro hlt; rw [hs]; rw [hcur, hpc] at hlt; exact (mono t.primary wf.primIsKey).c (h.e hlt)
  · intro i ms hi hp m hm hmt; rw [hs]; rw [hpc] at hi; rw [hcur] at hp
    exact (mono m.key ⟨m, hmt, rfl⟩).t (h.f i ms hi hp m hm hmt)
  · intro rpc hr; rw [hs]; rw [hiss] at hr; exact (h.iss rpc hr).mono wf mono
  · intro cv hcv; rw [hs]; obtain ⟨a, b⟩ := h.lc cv (hl ▸ hcv); exact ⟨a, (mono t.primary wf.primIsKey).c b⟩
  · intro hrb; rw [hs]; exact (mono t.primary wf.primIsKey).r (h.lr (hl ▸ hrb))

theorem SInv.same_store {y : Sys} (h : SInv c t y) (wf : TxnWF t) (y' : Sys) (hs : y'.store = y.store)
    (hcur : y'.cur = y.cur) (hpc : y'.pc = y.pc) (hiss : y'.issued = y.issued) (hl : y'.learned = y.learned) :
    SInv c t y' :=
  h.store wf h.g (SMono.refl _ _) y' hs hcur hpc hiss hl

theorem SInv.preserved' (hc : c.Good) (wf : TxnWF t) {y : Sys} (h : SInv c t y) (op : Op) (hd : op.Distinct t) :
    SInv c t (step c t y op) ∧ SMono t y.store (step c t y op).store := by
  cases op with
  | deliver =>
    simp only [step]
    split
    · exact ⟨h, SMono.refl _ _⟩
    · split
      · exact ⟨h.same_store wf _ rfl rfl rfl rfl rfl, SMono.refl _ _⟩
      · rename_i rpc hr
        have hok0 := h.pend hc hr
        obtain ⟨g, mono, hcP, hpre⟩ := exec_iss hc wf h.g hok0
        split
        · rename_i hpro
          have hok : (execRpc c t rpc y.store).2 = true := by
            simpa [proceeds, hc.2.1] using hpro
          have he : y.cur.ip < y.pc + 1 → HasC t.start ((execRpc c t rpc y.store).1 t.primary) := by
            intro hlt
            by_cases hold : y.cur.ip < y.pc
            · exact (mono t.primary wf.primIsKey).c (h.e hold)
            · have hpc : y.pc = y.cur.ip := by omega
              have hrp : rpc = .commit [t.primary] := by
                rw [hpc, program_ip hc] at hr
                simp only [Option.some.injEq] at hr
                rw [← hr, h.cw.primary]
              exact hcP hrp hok
          have hf : ∀ i ms, i < y.pc + 1 → (program c y.cur)[i]? = some (.prewrite ms) → ∀ m ∈ ms, m ∈ t.muts →
              Touched t.start ((execRpc c t rpc y.store).1 m.key) := by
            intro i ms hi hp m hm hmt
            by_cases hold : i < y.pc
            · exact (mono m.key ⟨m, hmt, rfl⟩).t (h.f i ms hold hp m hm hmt)
            · have : i = y.pc := by omega
              subst this
              rw [hr] at hp
              simp only [Option.some.injEq] at hp
              exact hpre ms hp hok m hm
          refine ⟨⟨g, h.cw, he, hf, ?_, ?_, ?_⟩, mono⟩
          · intro r hrm
            show IssOK t (execRpc c t rpc y.store).1 r
            rcases List.mem_append.1 hrm with h1 | h2
            · exact (h.iss r h1).mono wf mono
            · cases hnx : (program c y.cur)[y.pc + 1]? with
              | none => rw [hnx] at h2; cases h2
              | some r' =>
                rw [hnx] at h2
                simp only [Option.toList, List.mem_singleton] at h2
                subst h2
                exact pend_ok hc h.cw he hf hnx
          · intro cv hcv
            obtain ⟨a, b⟩ := h.lc cv hcv
            exact ⟨a, (mono t.primary wf.primIsKey).c b⟩
          · intro hrb
            exact (mono t.primary wf.primIsKey).r (h.lr hrb)
        · exact ⟨h.store wf g mono _ rfl rfl rfl rfl rfl, mono⟩
  | lose =>
    simp only [step]
    split
    · exact ⟨h, SMono.refl _ _⟩
    · split
      · exact ⟨h.same_store wf _ rfl rfl rfl rfl rfl, SMono.refl _ _⟩
      · rename_i rpc hr
        obtain ⟨g, mono, _, _⟩ := exec_iss hc wf h.g (h.pend hc hr)
        exact ⟨h.store wf g mono _ rfl rfl rfl rfl rfl, mono⟩
  | drop =>
    simp only [step]
    split
    · exact ⟨h, SMono.refl _ _⟩
    · exact ⟨h.same_store wf _ rfl rfl rfl rfl rfl, SMono.refl _ _⟩
  | notLeader =>
    simp only [step]
    split
    · exact ⟨h, SMono.refl _ _⟩
    · split
      · exact ⟨h.same_store wf _ rfl rfl rfl rfl rfl, SMono.refl _ _⟩
      · exact ⟨h.same_store wf _ rfl rfl rfl rfl rfl, SMono.refl _ _⟩
  | redeliver i =>
    simp only [step]
    split
    · exact ⟨h, SMono.refl _ _⟩
    · rename_i rpc hr
      obtain ⟨g, mono, _, _⟩ := exec_iss hc wf h.g (h.iss rpc (List.mem_of_getElem? hr))
      exact ⟨h.store wf g mono _ rfl rfl rfl rfl rfl, mono⟩
  | restart gr =>
    simp only [step]
    split
    · exact ⟨h, SMono.refl _ _⟩
    · have hg : gr.OK t := hd
      have cw' := SameTxn.regroup wf hg
      refine ⟨⟨h.g, cw', fun hlt => by simp at hlt, fun i ms hi => by simp at hi, ?_, h.lc, h.lr⟩, SMono.refl _ _⟩
      intro r hrm
      show IssOK t y.store r
      rcases List.mem_append.1 hrm with h1 | h2
      · exact h.iss r h1
      · cases hnx : (program c (t.regroup gr))[0]? with
        | none => rw [hnx] at h2; cases h2
        | some r' =>
          rw [hnx] at h2
          simp only [Option.toList, List.mem_singleton] at h2
          subst h2
          exact pend_ok (pc := 0) hc cw' (fun hlt => by simp at hlt) (fun i ms hi => by simp at hi) hnx
  | check cur =>
    simp only [step]
    obtain ⟨g, mono, hcm, hrb⟩ := check_ginv wf cur y.store h.g
    refine ⟨⟨g, h.cw, ?_, ?_, ?_, ?_, ?_⟩, mono⟩
    · intro hlt; exact (mono t.primary wf.primIsKey).c (h.e hlt)
    · intro i ms hi hp m hm hmt; exact (mono m.key ⟨m, hmt, rfl⟩).t (h.f i ms hi hp m hm hmt)
    · intro r hr; exact (h.iss r hr).mono wf mono
    · intro cv hcv
      show cv = t.cv ∧ HasC t.start ((y.store.set t.primary (checkTxnStatus t.start cur (y.store t.primary)).1) t.primary)
      split at hcv
      · rename_i cv' hst
        simp only [Option.some.injEq, Status.committed.injEq] at hcv
        subst hcv
        exact hcm cv' hst
      · simp at hcv
      · obtain ⟨a, b⟩ := h.lc cv hcv
        exact ⟨a, (mono t.primary wf.primIsKey).c b⟩
    · intro hl
      show HasR t.start ((y.store.set t.primary (checkTxnStatus t.start cur (y.store t.primary)).1) t.primary)
      split at hl
      · simp at hl
      · rename_i hst
        exact hrb hst
      · exact (mono t.primary wf.primIsKey).r (h.lr hl)
  | resolve ks =>
    simp only [step]
    have hown : ∀ k ∈ t.ownKeys ks, ∃ m ∈ t.muts, m.key = k := by
      intro k hk
      simp only [Txn.ownKeys, List.mem_filter, List.any_eq_true, decide_eq_true_eq] at hk
      exact hk.2
    split
    · rename_i cv hl
      split
      · exact ⟨h, SMono.refl _ _⟩
      · obtain ⟨hcv, hP⟩ := h.lc cv hl
        obtain ⟨g, mono⟩ := resolve_ginv wf cv (t.ownKeys ks) y.store h.g (Or.inl ⟨hcv, hP⟩) hown
        exact ⟨h.store wf g mono _ rfl rfl rfl rfl rfl, mono⟩
    · rename_i hl
      obtain ⟨g, mono⟩ := resolve_ginv wf 0 (t.ownKeys ks) y.store h.g (Or.inr ⟨rfl, h.lr hl⟩) hown
      exact ⟨h.store wf g mono _ rfl rfl rfl rfl rfl, mono⟩
    · exact ⟨h, SMono.refl _ _⟩
  | other r =>
    simp only [step]
    obtain ⟨g, mono⟩ := other_ginv wf c.perc y.store h.g r hd
    exact ⟨h.store wf g mono _ rfl rfl rfl rfl rfl, mono⟩

theorem SInv.preserved (hc : c.Good) (wf : TxnWF t) {y : Sys} (h : SInv c t y) (op : Op) (hd : op.Distinct t) :
    SInv c t (step c t y op) :=
  (h.preserved' hc wf op hd).1

theorem SInv.run_inv (hc : c.Good) (wf : TxnWF t) : ∀ (ops : List Op) {y : Sys}, (∀ op ∈ ops, op.Distinct t) → SInv c t y →
    SInv c t (run c t y ops) ∧ SMono t y.store (run c t y ops).store
  | [], _, _, h => ⟨h, SMono.refl _ _⟩
  | op :: ops, _, hd, h => by
    simp only [run, List.foldl_cons]
    have h1 := h.preserved' hc wf op (hd op (List.mem_cons_self ..))
    have h2 := SInv.run_inv hc wf ops (fun o ho => hd o (List.mem_cons_of_mem _ ho)) h1.1
    exact ⟨h2.1, h1.2.trans h2.2⟩

/-- a store without traces of the transaction -/
structure Fresh (t : Txn) (s : Store) : Prop where
  uniq : ∀ m ∈ t.muts, ∀ w1 ∈ (s m.key).writes, ∀ w2 ∈ (s m.key).writes, w1.commitTs = w2.commitTs → w1 = w2
  norec : ∀ m ∈ t.muts, NoRec t.start (s m.key)
  nolock : ∀ m ∈ t.muts, ¬ HasL t.start (s m.key)

theorem GInv.init (wf : TxnWF t) {s : Store} (fr : Fresh t s) : GInv t s := by
  have noC : ∀ m ∈ t.muts, ¬ HasC t.start (s m.key) := fun m hm => not_C_of_noRec (fr.norec m hm)
  have noR : ∀ m ∈ t.muts, ¬ HasR t.start (s m.key) := fun m hm => not_R_of_noRec (fr.norec m hm)
  obtain ⟨mp, hmp, hmpk⟩ := wf.prim
  refine ⟨?_, ?_, ?_, ?_⟩
  · intro m hm
    refine ⟨fr.uniq m hm, ?_, ?_, ?_, ?_⟩
    · intro w hw hs; exact absurd hs (fr.norec m hm w hw)
    · intro w1 h1 _ _ s1 _; exact absurd s1 (fr.norec m hm w1 h1)
    · intro l hl hts; exact absurd ⟨l, hl, hts⟩ (fr.nolock m hm)
    · intro hc; exact absurd hc (noC m hm)
  · intro m hm _ hc; exact absurd hc (noC m hm)
  · intro m hm _ hr; exact absurd hr (noR m hm)
  · intro hc; exact absurd (hmpk ▸ hc) (noC mp hmp)

theorem SInv.init (hc : c.Good) (wf : TxnWF t) {s : Store} (fr : Fresh t s) : SInv c t (Sys.init c t s) := by
  refine ⟨GInv.init wf fr, SameTxn.refl wf, fun hlt => by simp [Sys.init] at hlt, fun i ms hi => by simp [Sys.init] at hi,
    ?_, fun cv hcv => by simp [Sys.init] at hcv, fun hl => by simp [Sys.init] at hl⟩
  intro r hrm
  show IssOK t s r
  simp only [Sys.init] at hrm
  cases hnx : (program c t)[0]? with
  | none => rw [hnx] at hrm; cases hrm
  | some r' =>
    rw [hnx] at hrm
    simp only [Option.toList, List.mem_singleton] at hrm
    subst hrm
    exact pend_ok (pc := 0) hc (SameTxn.refl wf) (fun hlt => by simp at hlt) (fun i ms hi => by simp at hi) hnx

end NoKV.Client

/-
C28, part that holds for EVERY configuration of the client (as-is included): the per-key
invariant `KInv` of each key of the transaction is preserved by every step.  What is missing
without the good configuration is only the agreement *between* keys.
-/
import NoKVModel.Client.HandlerLemmas
import NoKVModel.Client.ReadLemmas

namespace NoKV.Client

variable {c : ClientCfg} {t : Txn}

def KAll (t : Txn) (s : Store) : Prop := ∀ m ∈ t.muts, KInv t.start t.cv m (s m.key)

theorem KAll.set (wf : TxnWF t) {s : Store} (h : KAll t s) {m : Mut} (hm : m ∈ t.muts) {ks' : KeyState}
    (st : KStep t.start t.cv m (s m.key) ks') : KAll t (s.set m.key ks') := by
  intro m' hm'
  by_cases e : m'.key = m.key
  · have : m' = m := wf.inj hm' hm e
    subst this
    rw [Store.set_same]; exact (h m' hm').step (wf.ok hm') st
  · rw [Store.set_other _ _ e]; exact h m' hm'

theorem prewrite_kall (wf : TxnWF t) (pc : PercCfg) : ∀ (ms : List Mut) (s : Store), KAll t s → (∀ m ∈ ms, m ∈ t.muts) →
    KAll t (prewrite pc t.start t.ttl ms s).1
  | [], _, h, _ => h
  | m :: ms, s, h, hsub => by
    have hm : m ∈ t.muts := hsub m (List.mem_cons_self ..)
    have hsub' : ∀ m' ∈ ms, m' ∈ t.muts := fun m' h' => hsub m' (List.mem_cons_of_mem _ h')
    rcases prewriteKey_eff pc (ttl := t.ttl) (wf.ok hm) (h m hm) with ⟨hne, _⟩ | ⟨hok, he, _⟩ | ⟨hok, he, hn⟩
    · simp only [prewrite, hne, if_false]
      exact prewrite_kall wf pc ms s h hsub'
    · simp only [prewrite, hok, if_true, he, Store.set_self]
      exact prewrite_kall wf pc ms s h hsub'
    · simp only [prewrite, hok, if_true, he]
      exact prewrite_kall wf pc ms _ (h.set wf hm (KStep.lock t.ttl hn)) hsub'

theorem commit_kall (wf : TxnWF t) (pc : PercCfg) : ∀ (ks : List Nat) (s : Store), KAll t s →
    (∀ k ∈ ks, ∃ m ∈ t.muts, m.key = k) → KAll t (commit pc t.start t.cv ks s).1
  | [], _, h, _ => h
  | k :: ks, s, h, hsub => by
    obtain ⟨m, hm, rfl⟩ := hsub k (List.mem_cons_self ..)
    have hsub' := fun k' h' => hsub k' (List.mem_cons_of_mem _ h')
    rcases commitReqKey_eff pc t.cv (h m hm) with ⟨he, _⟩ | ⟨l, hl, hts, hok, he⟩
    · simp only [commit]
      split
      · rw [he, Store.set_self]; exact commit_kall wf pc ks s h hsub'
      · exact h
    · simp only [commit, hok, if_true, he]
      exact commit_kall wf pc ks _ (h.set wf hm (KStep.commit l hl hts)) hsub'

theorem resolve_kall (wf : TxnWF t) (cv : Nat) (hcv : cv = 0 ∨ cv = t.cv) : ∀ (ks : List Nat) (s : Store), KAll t s →
    (∀ k ∈ ks, ∃ m ∈ t.muts, m.key = k) → KAll t (resolveLock t.start cv ks s).1
  | [], _, h, _ => h
  | k :: ks, s, h, hsub => by
    obtain ⟨m, hm, rfl⟩ := hsub k (List.mem_cons_self ..)
    have hsub' := fun k' h' => hsub k' (List.mem_cons_of_mem _ h')
    have next : ∀ ks', (resolveKey t.start cv (s m.key)).1 = ks' → KAll t (s.set m.key ks') →
        KAll t (resolveLock t.start cv (m.key :: ks) s).1 := by
      intro ks' he g
      simp only [resolveLock]
      split
      · rw [he]; exact resolve_kall wf cv hcv ks _ g hsub'
      · exact h
    rcases resolveKey_eff cv (h m hm) with he | ⟨_, hn, he⟩ | ⟨hnz, l, hl, hts, he⟩
    · exact next _ he (by rw [Store.set_self]; exact h)
    · exact next _ he (h.set wf hm (KStep.rollback hn))
    · have : cv = t.cv := hcv.resolve_left hnz
      subst this
      exact next _ he (h.set wf hm (KStep.commit l hl hts))

/-- every RPC of the program, in every configuration, touches only the transaction's keys -/
theorem program_mem (hprim : ∃ m ∈ t.muts, m.key = t.primary) (rpc : Rpc) (h : rpc ∈ program c t) :
    (∃ ms, rpc = .prewrite ms ∧ ∀ m ∈ ms, m ∈ t.muts) ∨
    (∃ ks, rpc = .commit ks ∧ ∀ k ∈ ks, ∃ m ∈ t.muts, m.key = k) := by
  have keysIn_sub : ∀ r, ∀ k ∈ t.keysIn r, ∃ m ∈ t.muts, m.key = k := by
    intro r k hk
    simp only [Txn.keysIn, Txn.mutsIn, List.mem_map, List.mem_filter] at hk
    obtain ⟨m, ⟨hm, _⟩, rfl⟩ := hk
    exact ⟨m, hm, rfl⟩
  simp only [program, List.mem_append] at h
  rcases h with h | h | h
  · simp only [Txn.prePhase, List.mem_cons, List.mem_map] at h
    have sub : ∀ r, ∀ m ∈ t.mutsIn r, m ∈ t.muts := by
      intro r m hm; simp only [Txn.mutsIn, List.mem_filter] at hm; exact hm.1
    rcases h with rfl | ⟨r, _, rfl⟩
    · exact Or.inl ⟨_, rfl, sub _⟩
    · exact Or.inl ⟨_, rfl, sub _⟩
  · unfold Txn.commitHead at h
    split at h
    · simp only [List.mem_singleton] at h
      exact Or.inr ⟨_, h, keysIn_sub _⟩
    · simp only [List.mem_cons] at h
      rcases h with rfl | h
      · refine Or.inr ⟨_, rfl, fun k hk => ?_⟩
        simp only [List.mem_singleton] at hk
        subst hk
        exact hprim
      · split at h
        · cases h
        · simp only [List.mem_singleton] at h
          refine Or.inr ⟨_, h, fun k hk => ?_⟩
          simp only [Txn.restKeys, List.mem_filter] at hk
          exact keysIn_sub _ k hk.1
  · simp only [Txn.commitTail, List.mem_map] at h
    obtain ⟨r, _, rfl⟩ := h
    exact Or.inr ⟨_, rfl, keysIn_sub _⟩


/-- an RPC only names keys of the transaction -/
def RpcOwn (t : Txn) : Rpc → Prop
  | .prewrite ms => ∀ m ∈ ms, m ∈ t.muts
  | .commit ks => ∀ k ∈ ks, ∃ m ∈ t.muts, m.key = k

/-- the per-key invariant of the whole system, for every configuration -/
structure PInv (t : Txn) (y : Sys) : Prop where
  k : KAll t y.store
  lc : ∀ cv, y.learned = some (.committed cv) → cv = t.cv
  cm : y.cur.muts = t.muts
  cp : y.cur.primary = t.primary
  iss : ∀ rpc ∈ y.issued, RpcOwn t rpc

theorem rpcOwn_of_program (wf : TxnWF t) {cur : Txn} (cm : cur.muts = t.muts) (cp : cur.primary = t.primary)
    {rpc : Rpc} (hr : rpc ∈ program c cur) : RpcOwn t rpc := by
  have hprim : ∃ m ∈ cur.muts, m.key = cur.primary := by rw [cm, cp]; exact wf.prim
  rcases program_mem hprim rpc hr with ⟨ms, rfl, hsub⟩ | ⟨ks, rfl, hsub⟩
  · exact fun m hm => cm ▸ hsub m hm
  · exact fun k hk => cm ▸ hsub k hk

theorem exec_kall (wf : TxnWF t) {s : Store} (h : KAll t s) {rpc : Rpc} (hr : RpcOwn t rpc) :
    KAll t (execRpc c t rpc s).1 := by
  cases rpc with
  | prewrite ms => simp only [execRpc]; exact prewrite_kall wf c.perc ms s h hr
  | commit ks => simp only [execRpc]; exact commit_kall wf c.perc ks s h hr

theorem PInv.preserved (wf : TxnWF t) {y : Sys} (h : PInv t y) (op : Op) (hd : op.Distinct t) : PInv t (step c t y op) := by
  cases op with
  | deliver =>
    simp only [step]
    split
    · exact h
    · split
      · exact ⟨h.k, h.lc, h.cm, h.cp, h.iss⟩
      · rename_i rpc hr
        have := exec_kall (c := c) wf h.k (rpcOwn_of_program (c := c) wf h.cm h.cp (List.mem_of_getElem? hr))
        split
        · refine ⟨this, h.lc, h.cm, h.cp, ?_⟩
          intro r hrm
          rcases List.mem_append.1 hrm with h1 | h2
          · exact h.iss r h1
          · cases hnx : (program c y.cur)[y.pc + 1]? with
            | none => rw [hnx] at h2; cases h2
            | some r' =>
              rw [hnx] at h2
              simp only [Option.toList, List.mem_singleton] at h2
              subst h2
              exact rpcOwn_of_program (c := c) wf h.cm h.cp (List.mem_of_getElem? hnx)
        · exact ⟨this, h.lc, h.cm, h.cp, h.iss⟩
  | lose =>
    simp only [step]
    split
    · exact h
    · split
      · exact ⟨h.k, h.lc, h.cm, h.cp, h.iss⟩
      · rename_i rpc hr
        exact ⟨exec_kall (c := c) wf h.k (rpcOwn_of_program (c := c) wf h.cm h.cp (List.mem_of_getElem? hr)), h.lc, h.cm, h.cp, h.iss⟩
  | drop =>
    simp only [step]
    split
    · exact h
    · exact ⟨h.k, h.lc, h.cm, h.cp, h.iss⟩
  | notLeader =>
    simp only [step]
    split
    · exact h
    · split
      · exact ⟨h.k, h.lc, h.cm, h.cp, h.iss⟩
      · exact ⟨h.k, h.lc, h.cm, h.cp, h.iss⟩
  | redeliver i =>
    simp only [step]
    split
    · exact h
    · rename_i rpc hr
      exact ⟨exec_kall (c := c) wf h.k (h.iss rpc (List.mem_of_getElem? hr)), h.lc, h.cm, h.cp, h.iss⟩
  | restart gr =>
    simp only [step]
    split
    · exact h
    · refine ⟨h.k, h.lc, rfl, rfl, ?_⟩
      intro r hrm
      rcases List.mem_append.1 hrm with h1 | h2
      · exact h.iss r h1
      · cases hnx : (program c (t.regroup gr))[0]? with
        | none => rw [hnx] at h2; cases h2
        | some r' =>
          rw [hnx] at h2
          simp only [Option.toList, List.mem_singleton] at h2
          subst h2
          exact rpcOwn_of_program (c := c) (cur := t.regroup gr) wf rfl rfl (List.mem_of_getElem? hnx)
  | check cur =>
    simp only [step]
    obtain ⟨m, hm, hmk⟩ := wf.prim
    obtain ⟨heff, hcm, _⟩ := checkTxnStatus_eff cur (wf.ok hm) (h.k m hm)
    rw [← hmk]
    refine ⟨?_, ?_, h.cm, h.cp, h.iss⟩
    · show KAll t (y.store.set m.key (checkTxnStatus t.start cur (y.store m.key)).1)
      rcases heff with he | ⟨hn, he⟩ | ⟨l, n, hl, hts, he⟩
      · rw [he, Store.set_self]; exact h.k
      · rw [he]; exact h.k.set wf hm (KStep.rollback hn)
      · rw [he]; exact h.k.set wf hm (KStep.push l n hl hts)
    · intro cv hcv
      split at hcv
      · rename_i cv' hst
        simp only [Option.some.injEq, Status.committed.injEq] at hcv
        subst hcv
        exact (hcm cv' hst).1
      · simp at hcv
      · exact h.lc cv hcv
  | resolve ks =>
    simp only [step]
    have hown : ∀ k ∈ t.ownKeys ks, ∃ m ∈ t.muts, m.key = k := by
      intro k hk
      simp only [Txn.ownKeys, List.mem_filter, List.any_eq_true, decide_eq_true_eq] at hk
      exact hk.2
    split
    · rename_i cv hl
      split
      · exact h
      · exact ⟨resolve_kall wf cv (Or.inr (h.lc cv hl)) _ _ h.k hown, h.lc, h.cm, h.cp, h.iss⟩
    · exact ⟨resolve_kall wf 0 (Or.inl rfl) _ _ h.k hown, h.lc, h.cm, h.cp, h.iss⟩
    · exact h

  | other r =>
    simp only [step]
    refine ⟨?_, h.lc, h.cm, h.cp, h.iss⟩
    show KAll t (y.store.set r.key (r.apply c.perc (y.store r.key)))
    by_cases hk : ∃ m ∈ t.muts, m.key = r.key
    · obtain ⟨m, hm, e⟩ := hk
      rw [← e]
      exact h.k.set wf hm (KStep.other _ (other_apply c.perc (h.k m hm) r hd))
    · intro m hm
      rw [Store.set_other _ _ (fun e => hk ⟨m, hm, e⟩)]
      exact h.k m hm

theorem PInv.run_inv (wf : TxnWF t) : ∀ (ops : List Op) {y : Sys}, (∀ op ∈ ops, op.Distinct t) → PInv t y → PInv t (run c t y ops)
  | [], _, _, h => h
  | op :: ops, _, hd, h => by
    simp only [run, List.foldl_cons]
    exact PInv.run_inv wf ops (fun o ho => hd o (List.mem_cons_of_mem _ ho)) (h.preserved wf op (hd op (List.mem_cons_self ..)))

end NoKV.Client

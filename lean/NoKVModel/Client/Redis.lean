/-
C30: concurrent Redis clients doing read-modify-write commands (INCR family, SET NX) through the
gateway of `/repo/cmd/nokv-redis`, as a small-step machine.

Embedded backend (`backend_embedded.go:IncrBy/Set` inside `db.Update`, `/repo/txn.go`):
  begin   readTs := nextTs - 1 (`oracle.readTs`; all commits ≤ readTs are applied — that is the
          watermark contract of C05/C32, assumed here), the snapshot read of the key happens at
          readTs and is recorded in the transaction's read set;
  commit  under the oracle lock (`newCommitTs`): if conflict detection is on and some committed
          transaction with ts > readTs wrote the key → ErrConflict (error reply, nothing written);
          otherwise ts := nextTs++, the write lands at ts, reply OK.
          With `Options.DetectConflicts = false` `committedTxns` stays empty: never a conflict;
          likewise when `Txn.Get` does not record the key it read (`trackGet = false`): an empty
          read set never conflicts.  The key may be absent because it was never written, was
          deleted or has expired: the model's "absent" covers all three, and so must the tracking.

Raft backend (`backend_raft.go:IncrBy/Set → mutate → client.Mutate`):
  begin   t1 := TSO.Reserve(1); the value is read at version t1;
  commit  start := TSO.Reserve(2), commit version = start + 1, one two-phase commit (taken as one
          atomic step here: a single-key transaction).  Percolator's prewrite refuses only writes
          with commit ts ≥ start — and start was drawn *after* every such write — so as-is a
          write committed between t1 and start goes unnoticed (`raftConflictFromReadTs = false`).
          The repaired shape validates against the read timestamp.

Both keys of the property are in the state: the counter (INCR family) and one key that is absent
initially (SET NX).  `okSum` / `nxOk` are ghost fields: they change exactly where the reply is OK.
-/
namespace NoKV.Client

structure RedisCfg where
  /-- value of `Options.DetectConflicts` that reaches `NoKV.Open` in cmd/nokv-redis/main.go -/
  detectConflicts : Bool
  /-- raft backend: is the write validated against the timestamp the value was read at? -/
  raftConflictFromReadTs : Bool
  /-- `Txn.Get` records the key in the read set before the lookup, i.e. on every return path
      (value, miss, delete marker, expired version) -/
  trackGet : Bool
  deriving DecidableEq, Repr

def RedisCfg.good : RedisCfg := ⟨true, true, true⟩

inductive Mode where
  | embedded | raft
  deriving DecidableEq, Repr

def RedisCfg.detects (c : RedisCfg) : Mode → Bool
  | .embedded => c.detectConflicts && c.trackGet
  | .raft => c.raftConflictFromReadTs

inductive Cmd where
  | incr (d : Int)
  | setnx (v : Nat)
  deriving DecidableEq, Repr

inductive Phase where
  | idle
  | inTxn (cmd : Cmd) (readTs : Nat) (snapCtr : Int) (snapNx : Option Nat)
  deriving DecidableEq, Repr

structure RClient where
  todo : List Cmd
  phase : Phase
  deriving DecidableEq, Repr

structure RState where
  nextTs : Nat
  ctr : Int
  ctrTs : Nat
  nx : Option Nat
  nxTs : Nat
  clients : List RClient
  init0 : Int      -- ghost: the counter's initial value
  okSum : Int      -- ghost: sum of the deltas of INCR-family commands that replied OK
  nxOk : Nat       -- ghost: number of SET NX commands that replied OK
  deriving DecidableEq, Repr

def RState.start (v : Int) (progs : List (List Cmd)) : RState :=
  { nextTs := 1, ctr := v, ctrTs := 0, nx := none, nxTs := 0,
    clients := progs.map (fun p => ⟨p, .idle⟩), init0 := v, okSum := 0, nxOk := 0 }

/-- the read timestamp a new command gets, and the timestamp counter afterwards -/
def beginTs (m : Mode) (nextTs : Nat) : Nat × Nat :=
  match m with
  | .embedded => (nextTs - 1, nextTs)
  | .raft => (nextTs, nextTs + 1)

/-- the timestamp a successful write lands at, and the timestamp counter afterwards -/
def writeTs (m : Mode) (nextTs : Nat) : Nat × Nat :=
  match m with
  | .embedded => (nextTs, nextTs + 1)
  | .raft => (nextTs + 1, nextTs + 2)

/-- one step of client `i` (no-op when it has nothing to do) -/
def rstep (c : RedisCfg) (m : Mode) (s : RState) (i : Nat) : RState :=
  match s.clients[i]? with
  | none => s
  | some cl =>
    match cl.phase with
    | .idle =>
      match cl.todo with
      | [] => s
      | cmd :: rest =>
        let b := beginTs m s.nextTs
        { s with nextTs := b.2,
                 clients := s.clients.set i ⟨rest, .inTxn cmd b.1 s.ctr s.nx⟩ }
    | .inTxn (.incr d) r sc _ =>
      let done := s.clients.set i ⟨cl.todo, .idle⟩
      if c.detects m && decide (r < s.ctrTs) then { s with clients := done }       -- conflict: error reply
      else
        let w := writeTs m s.nextTs
        { s with clients := done, ctr := sc + d, ctrTs := w.1, nextTs := w.2, okSum := s.okSum + d }
    | .inTxn (.setnx v) r _ sn =>
      let done := s.clients.set i ⟨cl.todo, .idle⟩
      if sn.isSome then { s with clients := done }                                  -- condition not met: nil reply
      else if c.detects m && decide (r < s.nxTs) then { s with clients := done }    -- conflict: error reply
      else
        let w := writeTs m s.nextTs
        { s with clients := done, nx := some v, nxTs := w.1, nextTs := w.2, nxOk := s.nxOk + 1 }

def rrun (c : RedisCfg) (m : Mode) (s : RState) (sched : List Nat) : RState := sched.foldl (rstep c m) s

/-! ### driver glue (sequential commands of one connection; stress ops answered from the flags) -/

def parseInt? (s : String) : Option Int :=
  if s.startsWith "-" then (s.drop 1).toNat?.map (fun n => -(Int.ofNat n))
  else if s.startsWith "+" then (s.drop 1).toNat?.map Int.ofNat
  else s.toNat?.map Int.ofNat

def kvArg (toks : List String) (k : String) : Option String :=
  toks.findSome? fun t =>
    match t.splitOn "=" with
    | [a, b] => if a == k then some b else none
    | _ => none

def modeOf (toks : List String) : Mode :=
  if kvArg toks "backend" == some "raft" then .raft else .embedded

/-- `seq.*`: one connection, one command at a time, on the model's two keys -/
def redisStep (c : RedisCfg) (s : RState) (toks : List String) : Option (RState × String) :=
  match toks with
  | "seq.reset" :: _ => some (RState.start 0 [[]], "ok\t*")
  | ["seq.incr", d] =>
    match parseInt? d with
    | some d =>
      let s0 := { s with clients := [⟨[.incr d], .idle⟩] }
      let s1 := rrun c .embedded s0 [0, 0]
      some (s1, s!"int:{s1.ctr}\tint:{s.ctr + d}")
    | none => none
  | ["seq.setnx", v] =>
    match v.toNat? with
    | some v =>
      let s0 := { s with clients := [⟨[.setnx v], .idle⟩] }
      let s1 := rrun c .embedded s0 [0, 0]
      let r := if s1.nxOk = s.nxOk + 1 then "OK" else "nil"
      some (s1, r ++ "\t" ++ (if s.nx.isNone then "OK" else "nil"))
    | none => none
  | ["seq.get"] => some (s, s!"bulk:{s.ctr}\t*")
  | ["seq.getnx"] => some (s, (match s.nx with | some v => s!"bulk:{v}" | none => "nil") ++ "\t*")
  | "stress.incr" :: rest =>
    -- many connections hammer one counter: does final = initial + Σ OK deltas hold?
    some (s, (if c.detects (modeOf rest) then "consistent" else "lost-update") ++ "\tconsistent")
  | "sched.incr" :: rest =>
    -- two connections, one INCR each on a counter holding 100; both reads happen before the writes
    let s1 := rrun c (modeOf rest) (RState.start 100 [[.incr 1], [.incr 1]]) [0, 1, 0, 1]
    some (s, (if s1.ctr = 100 + s1.okSum then "consistent" else "lost-update") ++ "\tconsistent")
  | "stress.setnx" :: rest =>
    some (s, (if c.detects (modeOf rest) then "atmost-one" else "multiple-ok") ++ "\tatmost-one")
  | _ => none

end NoKV.Client

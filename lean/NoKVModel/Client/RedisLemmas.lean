/-
C30: the invariant of the read-modify-write machine when writes are validated against the read
timestamp (`c.detects m = true`), preserved by every step of every client.
-/
import NoKVModel.Client.Redis

namespace NoKV.Client

structure RInv (s : RState) : Prop where
  sum : s.ctr = s.init0 + s.okSum
  pos : 1 ≤ s.nextTs
  cts : s.ctrTs < s.nextTs
  nts : s.nxTs < s.nextTs
  cl : ∀ cl ∈ s.clients, ∀ cmd r sc sn, cl.phase = .inTxn cmd r sc sn →
        r < s.nextTs ∧ (s.ctrTs ≤ r → sc = s.ctr) ∧ (s.nxTs ≤ r → sn = s.nx)
  nxo : s.nxOk ≤ 1
  nxn : s.nx = none → s.nxOk = 0

theorem RInv.start (v : Int) (progs : List (List Cmd)) : RInv (RState.start v progs) := by
  refine ⟨by simp [RState.start], by simp [RState.start], by simp [RState.start], by simp [RState.start], ?_,
    by simp [RState.start], by simp [RState.start]⟩
  intro cl hcl cmd r sc sn hph
  simp only [RState.start, List.mem_map] at hcl
  obtain ⟨p, _, rfl⟩ := hcl
  cases hph

theorem beginTs_spec (m : Mode) {n : Nat} (h : 1 ≤ n) : (beginTs m n).1 < (beginTs m n).2 ∧ n ≤ (beginTs m n).2 ∧
    n ≤ (beginTs m n).1 + 1 := by
  cases m <;> simp [beginTs] <;> omega

theorem writeTs_spec (m : Mode) (n : Nat) : n ≤ (writeTs m n).1 ∧ (writeTs m n).1 < (writeTs m n).2 := by
  cases m <;> simp [writeTs]

theorem mem_set_cases {α : Type} {l : List α} {i : Nat} {a b : α} (h : a ∈ l.set i b) : a ∈ l ∨ a = b :=
  List.mem_or_eq_of_mem_set h

theorem RInv.step {c : RedisCfg} {m : Mode} (hd : c.detects m = true) {s : RState} (h : RInv s) (i : Nat) :
    RInv (rstep c m s i) := by
  unfold rstep
  split
  · exact h
  · rename_i cl hcl
    have hmem : cl ∈ s.clients := List.mem_of_getElem? hcl
    split
    · -- idle
      split
      · exact h
      · rename_i cmd rest _
        obtain ⟨b1, b2, b3⟩ := beginTs_spec m h.pos
        refine ⟨h.sum, Nat.le_trans h.pos b2, Nat.lt_of_lt_of_le h.cts b2, Nat.lt_of_lt_of_le h.nts b2, ?_, h.nxo, h.nxn⟩
        intro cl' hcl' cmd' r sc sn hph
        rcases mem_set_cases hcl' with hin | rfl
        · obtain ⟨a1, a2, a3⟩ := h.cl cl' hin cmd' r sc sn hph
          exact ⟨Nat.lt_of_lt_of_le a1 b2, a2, a3⟩
        · simp only [Phase.inTxn.injEq] at hph
          obtain ⟨_, rfl, rfl, rfl⟩ := hph
          exact ⟨b1, fun _ => rfl, fun _ => rfl⟩
    · -- incr commit
      rename_i d r sc sn hph
      obtain ⟨a1, a2, _⟩ := h.cl cl hmem _ r sc sn hph
      split
      · -- conflict
        refine ⟨h.sum, h.pos, h.cts, h.nts, ?_, h.nxo, h.nxn⟩
        intro cl' hcl' cmd' r' sc' sn' hph'
        rcases mem_set_cases hcl' with hin | rfl
        · exact h.cl cl' hin cmd' r' sc' sn' hph'
        · cases hph'
      · rename_i hnc
        have hle : s.ctrTs ≤ r := by
          simp only [hd, Bool.true_and, decide_eq_true_eq] at hnc
          omega
        have hsc : sc = s.ctr := a2 hle
        obtain ⟨w1, w2⟩ := writeTs_spec m s.nextTs
        refine ⟨?_, by show 1 ≤ (writeTs m s.nextTs).2; have := h.pos; omega, w2,
          by show s.nxTs < (writeTs m s.nextTs).2; have := h.nts; omega, ?_, h.nxo, h.nxn⟩
        · show sc + d = s.init0 + (s.okSum + d)
          rw [hsc, h.sum]; omega
        · intro cl' hcl' cmd' r' sc' sn' hph'
          rcases mem_set_cases hcl' with hin | rfl
          · obtain ⟨b1, _, b3⟩ := h.cl cl' hin cmd' r' sc' sn' hph'
            refine ⟨by show r' < (writeTs m s.nextTs).2; omega, fun hle' => ?_, b3⟩
            exfalso
            have : (writeTs m s.nextTs).1 ≤ r' := hle'
            omega
          · cases hph'
    · -- setnx commit
      rename_i v r sc sn hph
      obtain ⟨a1, _, a3⟩ := h.cl cl hmem _ r sc sn hph
      have keep : RInv { s with clients := s.clients.set i ⟨cl.todo, .idle⟩ } := by
        refine ⟨h.sum, h.pos, h.cts, h.nts, ?_, h.nxo, h.nxn⟩
        intro cl' hcl' cmd' r' sc' sn' hph'
        rcases mem_set_cases hcl' with hin | rfl
        · exact h.cl cl' hin cmd' r' sc' sn' hph'
        · cases hph'
      split
      · exact keep
      · rename_i hsn
        split
        · exact keep
        · rename_i hnc
          have hle : s.nxTs ≤ r := by
            simp only [hd, Bool.true_and, decide_eq_true_eq] at hnc
            omega
          have hnx : s.nx = none := by
            rw [← a3 hle]
            cases sn with
            | none => rfl
            | some x => simp at hsn
          obtain ⟨w1, w2⟩ := writeTs_spec m s.nextTs
          refine ⟨h.sum, by show 1 ≤ (writeTs m s.nextTs).2; have := h.pos; omega,
            by show s.ctrTs < (writeTs m s.nextTs).2; have := h.cts; omega, w2, ?_, ?_, ?_⟩
          · intro cl' hcl' cmd' r' sc' sn' hph'
            rcases mem_set_cases hcl' with hin | rfl
            · obtain ⟨b1, b2, _⟩ := h.cl cl' hin cmd' r' sc' sn' hph'
              refine ⟨by show r' < (writeTs m s.nextTs).2; omega, b2, fun hle' => ?_⟩
              exfalso
              have : (writeTs m s.nextTs).1 ≤ r' := hle'
              omega
            · cases hph'
          · show s.nxOk + 1 ≤ 1
            rw [h.nxn hnx]; exact Nat.le_refl _
          · intro hcontra
            cases hcontra

theorem RInv.run {c : RedisCfg} {m : Mode} (hd : c.detects m = true) : ∀ (sched : List Nat) {s : RState},
    RInv s → RInv (rrun c m s sched)
  | [], _, h => h
  | i :: rest, _, h => by
    simp only [rrun, List.foldl_cons]
    exact RInv.run hd rest (h.step hd i)

/-- ghost fields `init0` never changes -/
theorem rstep_init0 (c : RedisCfg) (m : Mode) (s : RState) (i : Nat) : (rstep c m s i).init0 = s.init0 := by
  unfold rstep
  repeat' split
  all_goals rfl

theorem rrun_init0 (c : RedisCfg) (m : Mode) : ∀ (sched : List Nat) (s : RState), (rrun c m s sched).init0 = s.init0
  | [], _ => rfl
  | i :: rest, s => by
    simp only [rrun, List.foldl_cons]
    have := rrun_init0 c m rest (rstep c m s i)
    simp only [rrun] at this
    rw [this, rstep_init0]

end NoKV.Client

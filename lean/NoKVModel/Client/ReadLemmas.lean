/-
Read-side lemmas for C28: `readRec` picks the record with the greatest commit ts ≤ v, and a key
that carries the transaction's commit record reads as the transaction's write at the commit version.
-/
import NoKVModel.Client.KeyLemmas

namespace NoKV.Client

/-- what a read at the commit version must return for mutation `m` once it is committed -/
def expected (m : Mut) : GetRes :=
  match m.dataVal with
  | some v => .val v
  | none => .notFound

theorem readRec_some : ∀ {ws : List WriteRec} {v : Nat} {b : WriteRec}, readRec ws v = some b →
    b ∈ ws ∧ b.commitTs ≤ v ∧ ∀ w ∈ ws, w.commitTs ≤ v → w.commitTs ≤ b.commitTs
  | [], _, _, h => by simp [readRec] at h
  | x :: xs, v, b, h => by
    simp only [readRec] at h
    split at h
    · rename_i hn
      have none_le : ∀ w ∈ xs, ¬ w.commitTs ≤ v := by
        intro w hw hle
        induction xs with
        | nil => cases hw
        | cons y ys ih =>
          simp only [readRec] at hn
          split at hn
          · rename_i hn'
            split at hn
            · cases hn
            · rename_i hy
              rcases List.mem_cons.1 hw with rfl | hw'
              · exact hy hle
              · exact ih hn' hw'
          · split at hn <;> cases hn
      split at h
      · rename_i hx
        simp only [Option.some.injEq] at h; subst h
        refine ⟨List.mem_cons_self .., hx, fun w hw hle => ?_⟩
        rcases List.mem_cons.1 hw with rfl | hw'
        · exact Nat.le_refl _
        · exact absurd hle (none_le w hw')
      · cases h
    · rename_i b' hb'
      obtain ⟨hm, hle, hmax⟩ := readRec_some hb'
      split at h
      · rename_i hx
        simp only [Option.some.injEq] at h; subst h
        refine ⟨List.mem_cons_self .., hx.1, fun w hw hle' => ?_⟩
        rcases List.mem_cons.1 hw with rfl | hw'
        · exact Nat.le_refl _
        · exact Nat.le_trans (hmax w hw' hle') (Nat.le_of_lt hx.2)
      · rename_i hx
        simp only [Option.some.injEq] at h; subst h
        refine ⟨List.mem_cons_of_mem _ hm, hle, fun w hw hle' => ?_⟩
        rcases List.mem_cons.1 hw with rfl | hw'
        · by_cases hlt : b'.commitTs < w.commitTs
          · exact absurd ⟨hle', hlt⟩ hx
          · omega
        · exact hmax w hw' hle'

theorem readRec_none : ∀ {ws : List WriteRec} {v : Nat}, readRec ws v = none → ∀ w ∈ ws, ¬ w.commitTs ≤ v
  | [], _, _, w, hw => by cases hw
  | x :: xs, v, h, w, hw => by
    simp only [readRec] at h
    split at h
    · rename_i hn
      split at h
      · cases h
      · rename_i hx
        rcases List.mem_cons.1 hw with rfl | hw'
        · exact hx
        · exact readRec_none hn w hw'
    · split at h <;> cases h


theorem mem_readable {c : PercCfg} {ws : List WriteRec} {w : WriteRec} (h : w ∈ readable c ws) : w ∈ ws := by
  unfold readable at h
  split at h
  · exact (List.mem_filter.1 h).1
  · exact h

theorem mem_readable_of {c : PercCfg} {ws : List WriteRec} {w : WriteRec} (h : w ∈ ws) (hk : w.kind ≠ .rollback) :
    w ∈ readable c ws := by
  unfold readable
  split
  · exact List.mem_filter.2 ⟨h, by simpa using hk⟩
  · exact h

theorem get_of_committed (c : PercCfg) {S CV : Nat} {m : Mut} {ks : KeyState} (ok : TsOK S CV m) (hk : KInv S CV m ks)
    (hC : HasC S ks) (hnb : lockBlocks ks CV = false) : get c ks CV = expected m := by
  obtain ⟨w, hw, hs, hkind⟩ := hC
  have hw' : w = ⟨CV, S, m.kind⟩ := by
    rcases hk.recs w hw hs with rfl | rfl
    · exact absurd rfl hkind
    · rfl
  subst hw'
  have hdata := hk.cd ⟨_, hw, hs, hkind⟩
  have hwr := mem_readable_of (c := c) hw hkind
  cases hrr : readRec (readable c ks.writes) CV with
  | none => exact absurd (Nat.le_refl _) (readRec_none hrr _ hwr)
  | some b =>
    obtain ⟨hb, hble, hmax⟩ := readRec_some hrr
    have : b.commitTs = CV := Nat.le_antisymm hble (hmax _ hwr (Nat.le_refl _))
    have hbe : b = ⟨CV, S, m.kind⟩ := hk.uniq b (mem_readable hb) _ hw this
    subst hbe
    have hk2 := ok.kind
    have hdv : ks.data S = m.dataVal := hdata
    cases hmk : m.kind with
    | put =>
      simp only [hmk] at hrr
      simp [NoKV.Client.get, readVisible, hnb, hrr, hdv, expected, Mut.dataVal, hmk]
    | del =>
      simp only [hmk] at hrr
      simp [NoKV.Client.get, readVisible, hnb, hrr, expected, Mut.dataVal, hmk]
    | rollback => exact absurd hmk hk2

/-- at or above the commit version a reader that is not blocked sees the transaction's record
or a record committed later -/
theorem read_ge_of_committed (c : PercCfg) {S CV : Nat} {m : Mut} {ks : KeyState} (ok : TsOK S CV m)
    (hk : KInv S CV m ks) (hC : HasC S ks) {v : Nat} (hv : CV ≤ v) :
    ∃ w, readVisible c ks.writes v = some w ∧ (w = ⟨CV, S, m.kind⟩ ∨ CV < w.commitTs) := by
  obtain ⟨w, hw, hs, hkind⟩ := hC
  have hw' : w = ⟨CV, S, m.kind⟩ := by
    rcases hk.recs w hw hs with rfl | rfl
    · exact absurd rfl hkind
    · rfl
  subst hw'
  have hwr := mem_readable_of (c := c) hw hkind
  cases hrr : readRec (readable c ks.writes) v with
  | none => exact absurd hv (readRec_none hrr _ hwr)
  | some b =>
    obtain ⟨hb, _, hmax⟩ := readRec_some hrr
    have hge : CV ≤ b.commitTs := hmax _ hwr hv
    refine ⟨b, hrr, ?_⟩
    by_cases e : b.commitTs = CV
    · exact Or.inl (hk.uniq b (mem_readable hb) _ hw e)
    · exact Or.inr (by omega)

/-- below the commit version no reader is served from the transaction's commit record -/
theorem read_lt_invisible (c : PercCfg) {S CV : Nat} {m : Mut} {ks : KeyState} (hk : KInv S CV m ks)
    {v : Nat} (hv : v < CV) {w : WriteRec} (hr : readVisible c ks.writes v = some w) (hs : w.startTs = S) :
    w.kind = .rollback := by
  obtain ⟨hb, hle, _⟩ := readRec_some hr
  rcases hk.recs w (mem_readable hb) hs with rfl | rfl
  · rfl
  · exact absurd hle (by simp only; omega)

end NoKV.Client

/-
The client of `/repo/raftstore/client/client.go` as a step machine over the region stores.

`program` is the list of RPCs `TwoPhaseCommit` issues, in order: prewrite of the primary's region,
prewrite of every other region, then the commit RPCs.  The commit phase is the decision point the
fact `client.commitOrder` describes:

* `regionGrouped` (as-is): the first commit RPC carries *all* keys of the primary's region, in
  mutation order (`commitRegion(primaryID, collectKeys(primaryMutations))`);
* `primaryAlone`: the first commit RPC carries the primary key only; the other keys of its region
  follow in a second RPC.

Go iterates `grouped` (a map) in unspecified order; the model takes the order of the other
regions as a parameter of the transaction (`preOrder`, `comOrder`), the theorems hold for all.

Environment steps (`Op`): the network delivers the pending RPC, drops it, loses its reply, answers
`NotLeader` (leader change: the client retries the same RPC, `maxRetries` times), re-delivers any
RPC issued before (duplicate after a retry or a leader change); the client gives up and is
restarted with the same versions (client retry); a resolver (any other client that ran into a
lock) calls `CheckTxnStatus` on the primary with any current ts and `ResolveLock` on any of the
transaction's keys with what it learned; any OTHER transaction of any other client sends any of the
five write-path requests on any key at any point (`other`).
-/
import NoKVModel.Client.Perc

namespace NoKV.Client

inductive CommitOrder where
  | primaryAlone | regionGrouped
  deriving DecidableEq, Repr

structure ClientCfg where
  commitOrder : CommitOrder
  /-- `if err := c.commitRegion(primary…); err != nil { return err }` present -/
  primaryCommitErrStops : Bool
  perc : PercCfg
  deriving DecidableEq, Repr

def ClientCfg.good : ClientCfg := ⟨.primaryAlone, true, ⟨true, true, true⟩⟩

/-- configuration under which `C28_atomic` is proved -/
def ClientCfg.Good (c : ClientCfg) : Prop :=
  c.commitOrder = .primaryAlone ∧ c.primaryCommitErrStops = true ∧ c.perc.commitNoLockRejectsRollback = true

instance ClientCfg.decGood (c : ClientCfg) : Decidable c.Good := by
  unfold ClientCfg.Good; exact inferInstance

structure Txn where
  primary : Nat
  start : Nat
  cv : Nat
  ttl : Nat
  muts : List Mut
  region : Nat → Nat
  preOrder : List Nat
  comOrder : List Nat

inductive Rpc where
  | prewrite (ms : List Mut)
  | commit (keys : List Nat)
  deriving DecidableEq, Repr

def Txn.mutsIn (t : Txn) (r : Nat) : List Mut := t.muts.filter (fun m => t.region m.key = r)

def Txn.keysIn (t : Txn) (r : Nat) : List Nat := (t.mutsIn r).map (·.key)

/-- a resolver resolves the locks *of this transaction*: keys outside its mutation set carry no
    lock of it, `ResolveLock` skips them -/
def Txn.ownKeys (t : Txn) (ks : List Nat) : List Nat := ks.filter (fun k => t.muts.any (fun m => m.key = k))

def Txn.prePhase (t : Txn) : List Rpc :=
  .prewrite (t.mutsIn (t.region t.primary)) :: t.preOrder.map (fun r => .prewrite (t.mutsIn r))

def Txn.restKeys (t : Txn) : List Nat := (t.keysIn (t.region t.primary)).filter (fun k => k ≠ t.primary)

def Txn.commitHead (c : ClientCfg) (t : Txn) : List Rpc :=
  match c.commitOrder with
  | .regionGrouped => [.commit (t.keysIn (t.region t.primary))]
  | .primaryAlone => .commit [t.primary] :: (if t.restKeys = [] then [] else [.commit t.restKeys])

def Txn.commitTail (t : Txn) : List Rpc := t.comOrder.map (fun r => .commit (t.keysIn r))

def program (c : ClientCfg) (t : Txn) : List Rpc :=
  t.prePhase ++ (t.commitHead c ++ t.commitTail)

/-- index of the first commit RPC -/
def Txn.ip (t : Txn) : Nat := t.preOrder.length + 1

inductive CStatus where
  | running | done | failed
  deriving DecidableEq, Repr

def CStatus.str : CStatus → String
  | .running => "running" | .done => "done" | .failed => "failed"

/-- How the client groups the keys by region when `TwoPhaseCommit` starts: its routing cache at
that moment.  Splits, merges and epoch bumps change it between two runs of the same transaction. -/
structure Grouping where
  regionOf : List (Nat × Nat)     -- key ↦ region id (keys not listed: region 0)
  preOrder : List Nat
  comOrder : List Nat
  deriving DecidableEq, Repr

def Grouping.region (g : Grouping) (k : Nat) : Nat := ((g.regionOf.find? (fun p => p.1 = k)).map (·.2)).getD 0

def Txn.regroup (t : Txn) (g : Grouping) : Txn :=
  { t with region := g.region, preOrder := g.preOrder, comOrder := g.comOrder }

/-- what `TwoPhaseCommit` guarantees about its grouping: every other region with a key is
prewritten, the primary's region is skipped in the loop over the other regions -/
def Grouping.OK (t : Txn) (g : Grouping) : Prop :=
  (∀ m ∈ t.muts, g.region m.key ≠ g.region t.primary → g.region m.key ∈ g.preOrder) ∧
  g.region t.primary ∉ g.comOrder

instance Grouping.decOK (t : Txn) (g : Grouping) : Decidable (g.OK t) := by
  unfold Grouping.OK; exact inferInstance

structure Sys where
  store : Store
  /-- the transaction as grouped by the current run of `TwoPhaseCommit` -/
  cur : Txn
  pc : Nat := 0
  /-- every RPC the client has ever sent (any run); the network may deliver any of them again -/
  issued : List Rpc := []
  attempt : Nat := 0
  status : CStatus := .running
  learned : Option Status := none

def maxRetries : Nat := 3

/-- One request of ANOTHER transaction (another client, whatever it is doing) on one key.  A
multi-key request is the sequence of its per-key parts (`Prewrite` attempts every mutation,
`Commit`/`ResolveLock` stop at the first key error: a prefix of the per-key parts). -/
inductive FReq where
  | prewrite (m : Mut) (fts ttl : Nat)
  | commit (k fts fcv : Nat)
  | resolve (k fts fcv : Nat)
  | check (k fts cur : Nat)
  | rollback (k fts : Nat)
  deriving DecidableEq, Repr

def FReq.key : FReq → Nat
  | .prewrite m _ _ => m.key
  | .commit k _ _ => k
  | .resolve k _ _ => k
  | .check k _ _ => k
  | .rollback k _ => k

def FReq.apply (pc : PercCfg) (ks : KeyState) : FReq → KeyState
  | .prewrite m fts ttl => if (prewriteKey pc fts ttl m ks).2 = .ok then (prewriteKey pc fts ttl m ks).1 else ks
  | .commit _ fts fcv => (commitReqKey pc fts fcv ks).1
  | .resolve _ fts fcv => (resolveKey fts fcv ks).1
  | .check _ fts cur => (checkTxnStatus fts cur ks).1
  | .rollback _ fts => rollbackKey ks fts

/-- timestamps are unique (a TSO hands every value out once): another transaction's start ts
and commit ts are neither our start ts `S` nor our commit version `CV` -/
def FReq.Distinct (S CV : Nat) : FReq → Prop
  | .prewrite _ fts _ => fts ≠ S ∧ fts ≠ CV
  | .commit _ fts fcv => fts ≠ S ∧ fts ≠ CV ∧ fcv ≠ S ∧ fcv ≠ CV
  | .resolve _ fts fcv => fts ≠ S ∧ fts ≠ CV ∧ fcv ≠ S ∧ fcv ≠ CV
  | .check _ fts _ => fts ≠ S ∧ fts ≠ CV
  | .rollback _ fts => fts ≠ S ∧ fts ≠ CV

instance FReq.decDistinct (S CV : Nat) (r : FReq) : Decidable (r.Distinct S CV) := by
  cases r <;> simp only [FReq.Distinct] <;> exact inferInstance

inductive Op where
  | deliver | drop | lose | notLeader
  | redeliver (i : Nat)
  | restart (g : Grouping)
  | check (cur : Nat)
  | resolve (ks : List Nat)
  | other (r : FReq)
  deriving DecidableEq, Repr

def execRpc (c : ClientCfg) (t : Txn) (rpc : Rpc) (s : Store) : Store × Bool :=
  match rpc with
  | .prewrite ms => let r := prewrite c.perc t.start t.ttl ms s; (r.1, r.2.isEmpty)
  | .commit ks => let r := commit c.perc t.start t.cv ks s; (r.1, decide (r.2 = .ok))

/-- does the client go on after this RPC's result?  (`primaryCommitErrStops = false` models a
    client that ignores the error of the first commit RPC) -/
def proceeds (c : ClientCfg) (t : Txn) (pc : Nat) (ok : Bool) : Bool :=
  ok || (!c.primaryCommitErrStops && decide (pc = t.ip))

def step (c : ClientCfg) (t : Txn) (y : Sys) (op : Op) : Sys :=
  match op with
  | .deliver =>
    if y.status ≠ .running then y else
    match (program c y.cur)[y.pc]? with
    | none => { y with status := .done }
    | some rpc =>
      let r := execRpc c t rpc y.store
      if proceeds c y.cur y.pc r.2 then
        { y with store := r.1, pc := y.pc + 1, attempt := 0,
                 issued := y.issued ++ ((program c y.cur)[y.pc + 1]?).toList,
                 status := if y.pc + 1 < (program c y.cur).length then .running else .done }
      else { y with store := r.1, status := .failed }
  | .lose =>
    if y.status ≠ .running then y else
    match (program c y.cur)[y.pc]? with
    | none => { y with status := .done }
    | some rpc => { y with store := (execRpc c t rpc y.store).1, status := .failed }
  | .drop => if y.status ≠ .running then y else { y with status := .failed }
  | .notLeader =>
    -- also: the store refuses the request for a stale region epoch / a key outside the region's
    -- range (EpochNotMatch): not executed, the client refreshes its cache and tries again
    if y.status ≠ .running then y else
    if y.attempt + 1 < maxRetries then { y with attempt := y.attempt + 1 }
    else { y with status := .failed }
  | .redeliver i =>
    match y.issued[i]? with
    | none => y
    | some rpc => { y with store := (execRpc c t rpc y.store).1 }
  | .restart g =>
    -- `TwoPhaseCommit` is called again with the same versions; it groups the keys by what its
    -- routing cache says now
    if y.status = .running then y else
      { y with cur := t.regroup g, pc := 0, attempt := 0, status := .running,
               issued := y.issued ++ ((program c (t.regroup g))[0]?).toList }
  | .check cur =>
    let r := checkTxnStatus t.start cur (y.store t.primary)
    { y with store := y.store.set t.primary r.1,
             learned := match r.2 with
               | .committed cv => some (.committed cv)
               | .rolledBack => some .rolledBack
               | _ => y.learned }
  | .resolve ks =>
    match y.learned with
    | some (.committed cv) =>
      -- the resolver takes the commit path only for `GetCommitVersion() > 0`
      if cv = 0 then y else { y with store := (resolveLock t.start cv (t.ownKeys ks) y.store).1 }
    | some .rolledBack => { y with store := (resolveLock t.start 0 (t.ownKeys ks) y.store).1 }
    | _ => y
  | .other r => { y with store := y.store.set r.key (r.apply c.perc (y.store r.key)) }

/-- the steps of other transactions respect timestamp uniqueness -/
def Op.Distinct (t : Txn) : Op → Prop
  | .other r => r.Distinct t.start t.cv
  | .restart g => g.OK t
  | _ => True

instance Op.decDistinct (t : Txn) (op : Op) : Decidable (op.Distinct t) := by
  cases op <;> simp only [Op.Distinct] <;> exact inferInstance

def run (c : ClientCfg) (t : Txn) (y : Sys) (ops : List Op) : Sys := ops.foldl (step c t) y

def Sys.init (c : ClientCfg) (t : Txn) (s : Store) : Sys :=
  { store := s, cur := t, issued := ((program c t)[0]?).toList }

end NoKV.Client

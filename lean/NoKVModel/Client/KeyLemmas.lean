/-
Per-key lemmas for the client 2PC proof (C28): what each Percolator handler can do to the state
of one key, relative to one transaction `T = (S, CV)` (start ts, commit version).
-/
import NoKVModel.Client.TwoPC

namespace NoKV.Client

theorem mem_setWrite {ws : List WriteRec} {r w : WriteRec} :
    w ∈ setWrite ws r ↔ w = r ∨ (w ∈ ws ∧ w.commitTs ≠ r.commitTs) := by
  simp [setWrite, List.mem_filter]

theorem dropLock_some {S : Nat} {o : Option Lock} {l : Lock} (h : dropLock S o = some l) : o = some l ∧ l.ts ≠ S := by
  cases o with
  | none => simp [dropLock] at h
  | some l0 =>
    simp only [dropLock] at h
    split at h
    · cases h
    · rename_i hne
      simp only [Option.some.injEq] at h
      subst h
      exact ⟨rfl, hne⟩

theorem dropLock_keep {S : Nat} {l : Lock} (h : l.ts ≠ S) : dropLock S (some l) = some l := by
  simp [dropLock, h]

theorem findByStart_none {ws : List WriteRec} {S : Nat} :
    findByStart ws S = none ↔ ∀ w ∈ ws, w.startTs ≠ S := by
  simp [findByStart, List.find?_eq_none]

theorem findByStart_some {ws : List WriteRec} {S : Nat} {w : WriteRec} (h : findByStart ws S = some w) :
    w ∈ ws ∧ w.startTs = S := by
  unfold findByStart at h
  refine ⟨List.mem_of_find?_eq_some h, ?_⟩
  have := List.find?_some h
  simpa using this

section
variable (S CV : Nat)

/-- the key carries a lock of T -/
def HasL (ks : KeyState) : Prop := ∃ l, ks.lock = some l ∧ l.ts = S
/-- the key carries a commit record of T -/
def HasC (ks : KeyState) : Prop := ∃ w ∈ ks.writes, w.startTs = S ∧ w.kind ≠ .rollback
/-- the key carries a rollback record of T -/
def HasR (ks : KeyState) : Prop := ∃ w ∈ ks.writes, w.startTs = S ∧ w.kind = .rollback
def NoRec (ks : KeyState) : Prop := ∀ w ∈ ks.writes, w.startTs ≠ S
/-- T's prewrite reached the key at some point -/
def Touched (ks : KeyState) : Prop := HasL S ks ∨ HasC S ks ∨ HasR S ks

/-- well-formedness of one key with respect to T and T's mutation `m` of that key -/
structure KInv (m : Mut) (ks : KeyState) : Prop where
  uniq : ∀ w1 ∈ ks.writes, ∀ w2 ∈ ks.writes, w1.commitTs = w2.commitTs → w1 = w2
  recs : ∀ w ∈ ks.writes, w.startTs = S → w = ⟨S, S, .rollback⟩ ∨ w = ⟨CV, S, m.kind⟩
  one : ∀ w1 ∈ ks.writes, ∀ w2 ∈ ks.writes, w1.startTs = S → w2.startTs = S → w1 = w2
  lk : ∀ l, ks.lock = some l → l.ts = S → l.kind = m.kind ∧ ks.data S = m.dataVal ∧ NoRec S ks
  cd : HasC S ks → ks.data S = m.dataVal

def effLock (ttl : Nat) (m : Mut) (ks : KeyState) : KeyState :=
  { lock := some ⟨S, ttl, 0, m.kind⟩, writes := ks.writes, data := setData ks.data S m.dataVal }

def effCommit (ks : KeyState) (l : Lock) (cv : Nat) : KeyState :=
  { ks with lock := none, writes := setWrite ks.writes ⟨cv, l.ts, l.kind⟩ }

def effRollback (ks : KeyState) : KeyState :=
  { lock := dropLock S ks.lock, writes := setWrite ks.writes ⟨S, S, .rollback⟩, data := setData ks.data S none }

def effPush (ks : KeyState) (l : Lock) (n : Nat) : KeyState :=
  { ks with lock := some { l with minCommit := n } }

/-- what a request of another transaction may do to a key, as far as T is concerned -/
structure OtherStep (ks ks' : KeyState) : Prop where
  lk : ∀ l : Lock, l.ts = S → (ks'.lock = some l ↔ ks.lock = some l)
  ws : ∀ w : WriteRec, w.startTs = S → (w ∈ ks'.writes ↔ w ∈ ks.writes)
  uniq : ∀ w1 ∈ ks'.writes, ∀ w2 ∈ ks'.writes, w1.commitTs = w2.commitTs → w1 = w2
  data : ks'.data S = ks.data S

/-- the five things a handler can do to a key of T, and what others can do to it -/
inductive KStep (m : Mut) (ks : KeyState) : KeyState → Prop
  | same : KStep m ks ks
  | lock (ttl : Nat) : NoRec S ks → KStep m ks (effLock S ttl m ks)
  | commit (l : Lock) : ks.lock = some l → l.ts = S → KStep m ks (effCommit ks l CV)
  | rollback : NoRec S ks → KStep m ks (effRollback S ks)
  | push (l : Lock) (n : Nat) : ks.lock = some l → l.ts = S → KStep m ks (effPush ks l n)
  /-- a request of another transaction: T's lock, T's records and T's value are untouched -/
  | other (ks' : KeyState) : OtherStep S ks ks' → KStep m ks ks'

variable {S CV}

theorem not_C_and_R {m : Mut} {ks : KeyState} (h : KInv S CV m ks) : ¬ (HasC S ks ∧ HasR S ks) := by
  rintro ⟨⟨w1, h1, s1, k1⟩, ⟨w2, h2, s2, k2⟩⟩
  have := h.one w1 h1 w2 h2 s1 s2
  subst this
  exact k1 k2

theorem noRec_of_lock {m : Mut} {ks : KeyState} (h : KInv S CV m ks) (hl : HasL S ks) : NoRec S ks := by
  obtain ⟨l, h1, h2⟩ := hl
  exact (h.lk l h1 h2).2.2

theorem not_C_of_noRec {ks : KeyState} (h : NoRec S ks) : ¬ HasC S ks := by
  rintro ⟨w, hw, hs, _⟩; exact h w hw hs

theorem not_R_of_noRec {ks : KeyState} (h : NoRec S ks) : ¬ HasR S ks := by
  rintro ⟨w, hw, hs, _⟩; exact h w hw hs

/-- hypotheses on the transaction's numbers -/
structure TsOK (S CV : Nat) (m : Mut) : Prop where
  lt : S < CV
  kind : m.kind ≠ .rollback

theorem KInv.step {m : Mut} {ks ks' : KeyState} (ok : TsOK S CV m) (h : KInv S CV m ks)
    (st : KStep S CV m ks ks') : KInv S CV m ks' := by
  cases st with
  | same => exact h
  | lock ttl hn =>
    refine ⟨h.uniq, h.recs, h.one, ?_, ?_⟩
    · intro l hl _
      simp [effLock] at hl
      subst hl
      exact ⟨rfl, by simp [effLock, setData], hn⟩
    · intro hc; exact absurd hc (not_C_of_noRec hn)
  | commit l hl hts =>
    obtain ⟨hk, hd, hn⟩ := h.lk l hl hts
    have hmem : ∀ w, w ∈ (effCommit ks l CV).writes ↔ w = ⟨CV, S, m.kind⟩ ∨ (w ∈ ks.writes ∧ w.commitTs ≠ CV) := by
      intro w; simp [effCommit, mem_setWrite, hts, hk]
    refine ⟨?_, ?_, ?_, ?_, ?_⟩
    · intro w1 h1 w2 h2 e
      rcases (hmem w1).1 h1 with r1 | ⟨m1, n1⟩ <;> rcases (hmem w2).1 h2 with r2 | ⟨m2, n2⟩
      · rw [r1, r2]
      · subst r1; exact absurd e.symm n2
      · subst r2; exact absurd e n1
      · exact h.uniq w1 m1 w2 m2 e
    · intro w hw hs
      rcases (hmem w).1 hw with r | ⟨m1, _⟩
      · exact Or.inr r
      · exact absurd hs (hn w m1)
    · intro w1 h1 w2 h2 s1 s2
      rcases (hmem w1).1 h1 with r1 | ⟨m1, _⟩
      · rcases (hmem w2).1 h2 with r2 | ⟨m2, _⟩
        · rw [r1, r2]
        · exact absurd s2 (hn w2 m2)
      · exact absurd s1 (hn w1 m1)
    · intro l' hl'; simp [effCommit] at hl'
    · intro _; simpa [effCommit] using hd
  | rollback hn =>
    have hmem : ∀ w, w ∈ (effRollback S ks).writes ↔ w = ⟨S, S, .rollback⟩ ∨ (w ∈ ks.writes ∧ w.commitTs ≠ S) := by
      intro w; simp [effRollback, mem_setWrite]
    refine ⟨?_, ?_, ?_, ?_, ?_⟩
    · intro w1 h1 w2 h2 e
      rcases (hmem w1).1 h1 with r1 | ⟨m1, n1⟩ <;> rcases (hmem w2).1 h2 with r2 | ⟨m2, n2⟩
      · rw [r1, r2]
      · subst r1; exact absurd e.symm n2
      · subst r2; exact absurd e n1
      · exact h.uniq w1 m1 w2 m2 e
    · intro w hw hs
      rcases (hmem w).1 hw with r | ⟨m1, _⟩
      · exact Or.inl r
      · exact absurd hs (hn w m1)
    · intro w1 h1 w2 h2 s1 s2
      rcases (hmem w1).1 h1 with r1 | ⟨m1, _⟩
      · rcases (hmem w2).1 h2 with r2 | ⟨m2, _⟩
        · rw [r1, r2]
        · exact absurd s2 (hn w2 m2)
      · exact absurd s1 (hn w1 m1)
    · intro l' hl' hts'
      exact absurd hts' (dropLock_some hl').2
    · rintro ⟨w, hw, hs, hk⟩
      rcases (hmem w).1 hw with r | ⟨m1, _⟩
      · subst r; exact absurd rfl hk
      · exact absurd hs (hn w m1)
  | push l n hl hts =>
    obtain ⟨hk, hd, hn⟩ := h.lk l hl hts
    refine ⟨h.uniq, h.recs, h.one, ?_, ?_⟩
    · intro l' hl' _
      simp [effPush] at hl'
      subst hl'
      exact ⟨hk, hd, hn⟩
    · intro hc; exact h.cd hc
  | other ks' o =>
    have hC : HasC S ks' ↔ HasC S ks := by
      constructor
      · rintro ⟨w, hw, hs, hk⟩; exact ⟨w, (o.ws w hs).1 hw, hs, hk⟩
      · rintro ⟨w, hw, hs, hk⟩; exact ⟨w, (o.ws w hs).2 hw, hs, hk⟩
    refine ⟨o.uniq, ?_, ?_, ?_, ?_⟩
    · intro w hw hs; exact h.recs w ((o.ws w hs).1 hw) hs
    · intro w1 h1 w2 h2 s1 s2; exact h.one w1 ((o.ws w1 s1).1 h1) w2 ((o.ws w2 s2).1 h2) s1 s2
    · intro l hl hts
      obtain ⟨a, b, c⟩ := h.lk l ((o.lk l hts).1 hl) hts
      exact ⟨a, o.data.trans b, fun w hw hs => c w ((o.ws w hs).1 hw) hs⟩
    · intro hc; exact o.data.trans (h.cd (hC.1 hc))

/-- records of T are never lost, and a touched key stays touched -/
structure KMono (S : Nat) (ks ks' : KeyState) : Prop where
  c : HasC S ks → HasC S ks'
  r : HasR S ks → HasR S ks'
  t : Touched S ks → Touched S ks'

theorem KMono.refl (S : Nat) (ks : KeyState) : KMono S ks ks := ⟨id, id, id⟩

theorem KMono.trans {S : Nat} {a b c : KeyState} (h1 : KMono S a b) (h2 : KMono S b c) : KMono S a c :=
  ⟨h2.c ∘ h1.c, h2.r ∘ h1.r, h2.t ∘ h1.t⟩

theorem KStep.mono {m : Mut} {ks ks' : KeyState} (ok : TsOK S CV m) (h : KInv S CV m ks)
    (st : KStep S CV m ks ks') : KMono S ks ks' := by
  cases st with
  | same => exact KMono.refl S ks
  | lock ttl hn =>
    refine ⟨fun hc => absurd hc (not_C_of_noRec hn), fun hr => absurd hr (not_R_of_noRec hn), fun _ => ?_⟩
    exact Or.inl ⟨_, rfl, rfl⟩
  | commit l hl hts =>
    obtain ⟨hk, _, hn⟩ := h.lk l hl hts
    refine ⟨fun hc => absurd hc (not_C_of_noRec hn), fun hr => absurd hr (not_R_of_noRec hn), fun _ => ?_⟩
    refine Or.inr (Or.inl ⟨⟨CV, l.ts, l.kind⟩, ?_, hts, ?_⟩)
    · simp [effCommit, mem_setWrite]
    · simpa [hk] using ok.kind
  | rollback hn =>
    refine ⟨fun hc => absurd hc (not_C_of_noRec hn), fun hr => absurd hr (not_R_of_noRec hn), fun _ => ?_⟩
    refine Or.inr (Or.inr ⟨⟨S, S, .rollback⟩, ?_, rfl, rfl⟩)
    simp [effRollback, mem_setWrite]
  | push l n hl hts =>
    refine ⟨id, id, fun ht => ?_⟩
    exact Or.inl ⟨_, rfl, hts⟩
  | other ks' o =>
    have hC : HasC S ks → HasC S ks' := by
      rintro ⟨w, hw, hs, hk⟩; exact ⟨w, (o.ws w hs).2 hw, hs, hk⟩
    have hR : HasR S ks → HasR S ks' := by
      rintro ⟨w, hw, hs, hk⟩; exact ⟨w, (o.ws w hs).2 hw, hs, hk⟩
    refine ⟨hC, hR, fun ht => ?_⟩
    rcases ht with ⟨l, hl, hts⟩ | hc | hr
    · exact Or.inl ⟨l, (o.lk l hts).2 hl, hts⟩
    · exact Or.inr (Or.inl (hC hc))
    · exact Or.inr (Or.inr (hR hr))

end

end NoKV.Client

-- stub: replaced by the manifest engine driver
def main : IO Unit := pure ()

/-
Line-protocol driver for the manifest engine (C15).
Reply format: `<model>\t<spec>`; spec patterns: `*` anything, `a|b` alternatives, `pre*` prefix.

ops
  open thr=<n> sync=<0|1>          fresh directory + manager (rewrite threshold, SetSync)
  edit <kind> <fields>             LogEdit      → `ok <fs-op trace>`
  batch <kind> <fields> | …        LogEdits     → `ok <fs-op trace>`
  rtrunc g idx term seg off        LogRaftTruncate → `ok <trace>` | `noop` | `err`
  rewrite                          Rewrite()    → `ok <trace>`
  dump                             canonical in-memory state
  reload db|raw                    close, (Verify,) Open → canonical state; spec = in-memory state before
  crashpoints db|raw               recover every image "crash before file op k" → `ok|bad js=…`; spec `ok*`
  torn db|raw                      recover every image "crash inside an append" → same
-/
import Driver.Lib
import NoKVModel.Base.Cfg
import NoKVModel.Manifest.Sync

open NoKV NoKV.Manifest Driver

structure St where
  cfg : MCfg := MCfg.good
  thr : Nat := 0
  sync : Bool := true
  run : Run := {}
  x : XRun := {}

def b01 (b : Bool) : String := if b then "1" else "0"

def fileStr (m : FileMeta) : String :=
  s!"{m.level}:{m.id}:{m.size}:{m.smallest.toHex}:{m.largest.toHex}:{m.created}:{m.valueSize}:{b01 m.ingest}"

def vlogStr (m : VlogMeta) : String := s!"{m.bucket}:{m.fid}:{m.offset}:{b01 m.valid}"

def raftStr (p : RaftPtr) : String :=
  s!"{p.group}:{p.segment}:{p.offset}:{p.appliedIndex}:{p.appliedTerm}:{p.committed}:{p.snapIndex}:{p.snapTerm}:{p.truncIndex}:{p.truncTerm}:{p.segIndex}:{p.truncOffset}"

def peersStr (ps : List (Nat × Nat)) : String :=
  if ps.isEmpty then "-" else ",".intercalate (ps.map fun p => s!"{p.1}.{p.2}")

def regionStr (m : RegionMeta) : String :=
  s!"{m.id}:{m.start.toHex}:{m.end_.toHex}:{m.ver}:{m.conf}:{m.state}:{peersStr m.peers}"

def dumpStr (v0 : Version) : String :=
  let v := canon v0
  "F[" ++ ";".intercalate (v.files.map fileStr) ++ "] L[" ++ s!"{v.logSeg}:{v.logOff}" ++
  "] V[" ++ ";".intercalate (v.vlogs.map fun p => vlogStr p.2) ++
  "] H[" ++ ";".intercalate (v.heads.map fun p => vlogStr p.2) ++
  "] R[" ++ ";".intercalate (v.rafts.map fun p => raftStr p.2) ++
  "] G[" ++ ";".intercalate (v.regions.map fun p => regionStr p.2) ++ "]"

/-- the dump travels as one token: spaces → `_` -/
def dumpTok (v : Version) : String := (dumpStr v).replace " " "_"

def parseBool? (s : String) : Option Bool :=
  if s == "1" then some true else if s == "0" then some false else none

def parseFile? (s : String) : Option FileMeta :=
  match s.splitOn ":" with
  | [l, i, sz, a, b, cr, vs, ing] => do
    pure ⟨← natOf? l, ← natOf? i, ← natOf? sz, ← bytesOf? a, ← bytesOf? b, ← natOf? cr, ← natOf? vs, ← parseBool? ing⟩
  | _ => none

def parseVlog? (s : String) : Option (Option VlogMeta) :=
  if s == "nil" then some none else
  match s.splitOn ":" with
  | [b, f, o, v] => do pure (some ⟨← natOf? b, ← natOf? f, ← natOf? o, ← parseBool? v⟩)
  | _ => none

def parseRaft? (s : String) : Option (Option RaftPtr) :=
  if s == "nil" then some none else
  match (s.splitOn ":").mapM natOf? with
  | some [a, b, c, d, e, f, g, h, i, j, k, l] => some (some ⟨a, b, c, d, e, f, g, h, i, j, k, l⟩)
  | _ => none

def parsePeers? (s : String) : Option (List (Nat × Nat)) :=
  if s == "-" then some [] else
  (s.splitOn ",").mapM fun p =>
    match p.splitOn "." with
    | [a, b] => do pure (← natOf? a, ← natOf? b)
    | _ => none

def parseRegion? (s : String) : Option RegionMeta :=
  match s.splitOn ":" with
  | [i, a, b, v, c, st, ps] => do
    pure ⟨← natOf? i, ← bytesOf? a, ← bytesOf? b, ← natOf? v, ← natOf? c, ← natOf? st, ← parsePeers? ps⟩
  | _ => none

def parseEdit? : List String → Option Edit
  | ["add", f] => do pure (.addFile (← parseFile? f))
  | ["del", f] => do pure (.delFile (← parseFile? f))
  | ["lp", s] =>
    match s.splitOn ":" with
    | [a, b] => do pure (.logPtr (← natOf? a) (← natOf? b))
    | _ => none
  | ["vh", m] => do pure (.vlogHead (← parseVlog? m))
  | ["vd", m] => do pure (.vlogDel (← parseVlog? m))
  | ["vu", m] => do pure (.vlogUpd (← parseVlog? m))
  | ["rp", p] => do pure (.raft (← parseRaft? p))
  | ["rg", "nil"] => some (.region none)
  | ["rg", m] => do pure (.region (some (← parseRegion? m, false)))
  | ["rgdel", i] => do pure (.region (some ({ RegionMeta.zero with id := (← natOf? i) }, true)))
  | _ => none

def splitBar : List String → List (List String)
  | [] => [[]]
  | t :: ts =>
    if t == "|" then [] :: splitBar ts
    else match splitBar ts with
      | [] => [[t]]
      | g :: gs => (t :: g) :: gs

def stepStr : Step → String
  | .stat n => s!"st:M{n}"
  | .create n => s!"of:M{n}"
  | .append n _ => s!"fw:M{n}"
  | .setRaw n _ => s!"fw:M{n}"
  | .sync n => s!"fs:M{n}"
  | .close n => s!"fc:M{n}"
  | .openrw n => s!"of:M{n}"
  | .writeTmp _ => "wf:T"
  | .renameTmp => "rn:T>C"
  | .writeCur _ => "wf:C"
  | .tmpOpen => "of:T"
  | .tmpWrite _ => "fw:T"
  | .tmpSync => "fs:T"
  | .tmpClose => "fc:T"
  | .remove n => s!"rm:M{n}"

def traceStr (ss : List Step) : String :=
  if ss.isEmpty then "-" else ",".intercalate (ss.map stepStr)

def setCfg (c : MCfg) (kv : String) : Option MCfg :=
  match kv.splitOn "=" with
  | [k, v] => do
    let b ← boolOfString? v
    match k with
    | "mf.snapInvalidAsUpdate" => pure { c with snapInvalidAsUpdate := b }
    | "mf.vlogDelZeroesOffset" => pure { c with vlogDelZeroesOffset := b }
    | "mf.headForcesValid" => pure { c with headForcesValid := b }
    | "mf.delFileFirstOnly" => pure { c with delFileFirstOnly := b }
    | "mf.nilRaftRoundtrip" => pure { c with nilRaftRoundtrip := b }
    | "mf.nilRegionRoundtrip" => pure { c with nilRegionRoundtrip := b }
    | "mf.currentAfterSnapshot" => pure { c with currentAfterSnapshot := b }
    | "mf.removeOldAfterCurrent" => pure { c with removeOldAfterCurrent := b }
    | "mf.currentViaRename" => pure { c with currentViaRename := b }
    | "mf.currentTmpSynced" => pure { c with currentTmpSynced := b }
    | "mf.syncOnAppend" => pure { c with syncOnAppend := b }
    | "mf.rewriteAtGE" => pure { c with rewriteAtGE := b }
    | "mf.verifyTruncPartLen" => pure { c with verifyTruncPartLen := b }
    | "mf.verifyTruncLenOnly" => pure { c with verifyTruncLenOnly := b }
    | "mf.verifyTruncPartPayload" => pure { c with verifyTruncPartPayload := b }
    | "mf.openVerifies" => pure { c with openVerifies := b }
    | _ => none
  | _ => none

/-- in-memory states after every prefix of the edits (what a manager that never reloads holds) -/
def prefixDumps (c : MCfg) (es : List Edit) : List String :=
  let rec go (v : Version) : List Edit → List String
    | [] => [dumpTok v]
    | e :: rest => dumpTok v :: go (apply c v e) rest
  go Version.empty es

def findFrom (ds : List String) (s : String) (lo hi : Nat) : Option Nat :=
  (List.range (hi - lo)).findSome? fun i => if ds[lo + i]? == some s then some (lo + i) else none

def matchState (ds : List String) (acked : Nat) (r : Option Version) : String :=
  match r with
  | none => "err"
  | some v =>
    let s := dumpTok v
    match findFrom ds s acked ds.length with
    | some j => toString j
    | none =>
      match findFrom ds s 0 acked with
      | some j => s!"lost{j}"
      | none => "none"

def crashLine (st : St) (mode : String) (imgs : List Image) : String :=
  let ds := prefixDumps st.cfg st.run.edits
  let rec_ := if mode == "raw" then recoverOpen st.cfg else recoverDB st.cfg
  let rs := imgs.map fun im => matchState ds im.acked (rec_ im.disk)
  let good := rs.all fun r => r.toNat?.isSome
  (if good then "ok" else "bad") ++ s!" n={rs.length} js=" ++ ",".intercalate rs

def doCall (st : St) (cl : Call) : St × String :=
  let (ss, _) := callSteps st.cfg st.thr st.sync st.run.mgr st.run.disk cl
  let run' := Run.call st.cfg st.thr st.sync st.run cl
  let x' := XRun.call st.cfg st.thr st.sync st.x cl
  ({ st with run := run', x := x' }, "ok " ++ traceStr ss ++ "\t*")

def step (st : St) (toks : List String) : St × String :=
  match toks with
  | "cfg" :: kvs =>
    match kvs.foldlM setCfg st.cfg with
    | some c => ({ st with cfg := c }, "ok")
    | none => (st, "bad-cfg")
  | ["open", t, s] =>
    match kv? [t] "thr", kv? [s] "sync" with
    | some t, some s =>
      match natOf? t, parseBool? s with
      | some t, some s => ({ st with thr := t, sync := s, run := {}, x := {} }, "ok\t*")
      | _, _ => (st, "bad-op")
    | _, _ => (st, "bad-op")
  | "edit" :: rest =>
    match parseEdit? rest with
    | some e => doCall st (.log [e])
    | none => (st, "bad-op")
  | "batch" :: rest =>
    match (splitBar rest).mapM parseEdit? with
    | some (e :: es) => doCall st (.log (e :: es))
    | _ => (st, "bad-op")
  | ["rtrunc", g, i, t, s, o] =>
    match natOf? g, natOf? i, natOf? t, natOf? s, natOf? o with
    | some g, some i, some t, some s, some o =>
      if g = 0 then (st, "err\t*")
      else match raftTruncateEdit st.run.mgr.v g i t s o with
        | none => (st, "noop\t*")
        | some e => doCall st (.log [e])
    | _, _, _, _, _ => (st, "bad-op")
  | ["rewrite"] => doCall st .rewrite
  | ["dump"] => (st, dumpTok st.run.mgr.v ++ "\t*")
  | ["reload", mode] =>
    let before := dumpTok st.run.mgr.v
    let r := if mode == "raw" then recoverOpen st.cfg st.run.disk else recoverDB st.cfg st.run.disk
    match r with
    | none => (st, "err\t" ++ before)
    | some v =>
      let cur := st.run.disk.current.getD 1
      let run' := { st.run with mgr := { v := v, cur := cur, next := cur + 1 } }
      let x' := { st.x with mgr := { v := v, cur := cur, next := cur + 1 } }
      ({ st with run := run', x := x' }, dumpTok v ++ "\t" ++ before)
  | ["crashpoints", mode] =>
    let r := st.run
    (st, crashLine st mode (r.images ++ [⟨r.disk, r.edits.length, r.edits.length⟩]) ++ "\tok*")
  | ["torn", mode] => (st, crashLine st mode st.run.torn ++ "\tok*")
  | ["losspoints", mode] =>
    -- every crash point × every loss of bytes written since the last sync; lower bound = durable
    let ds := prefixDumps st.cfg st.x.edits
    let rec_ := if mode == "raw" then recoverOpen st.cfg else recoverDB st.cfg
    let cands := st.x.allCands
    let rs := cands.flatMap fun cd => (lossVariants cd.disk cd.sync).map fun d' => matchState ds cd.durable (rec_ d')
    let good := rs.all fun r => r.toNat?.isSome
    (st, (if good then "ok" else "bad") ++ s!" n={cands.length} v={rs.length} js=" ++ ",".intercalate rs ++
      (if st.sync then "\tok*" else "\t*"))
  | ["crash", i, v] =>
    match natOf? i, natOf? v with
    | some i, some v =>
      let cands := st.x.allCands
      let cd := cands.getD (i % cands.length) st.x.final
      let vs := lossVariants cd.disk cd.sync
      let d' := vs.getD (v % vs.length) cd.disk
      let spec := if st.sync then "\tok*" else "\t*"
      match st.x.recoverFrom st.cfg cd d' with
      | none => (st, "bad" ++ spec)
      | some x' =>
        let ds := prefixDumps st.cfg st.x.edits
        if ds[x'.edits.length]? == some (dumpTok x'.mgr.v) then
          ({ st with x := x', run := { mgr := x'.mgr, disk := x'.disk, edits := x'.edits } },
            s!"ok j={x'.edits.length} " ++ dumpTok x'.mgr.v ++ spec)
        else (st, "bad" ++ spec)
    | _, _ => (st, "bad-op")
  | _ => (st, "bad-op")

def main : IO Unit := Driver.loop ({} : St) step

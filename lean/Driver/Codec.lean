/-
Line-protocol driver for the codec engine (C16).
Reply format: `<model>\t<spec>`; spec patterns: `*` anything, `a|b` alternatives, `pre*` prefix.

Ops (all stateless; numbers decimal, bytes hex, `-` = empty):
  uv.put N | uv.get HEX | uv.read HEX
  lock.rt PRIMARY TS TTL KIND MINC | lock.dec HEX | write.rt KIND START SHORT | write.dec HEX
  man.rt EDIT | man.dec HEX | man.read HEX
  ikey.rt CF UKEY TS | ikey.split HEX | kts.rt KEY TS | kts.parse HEX | key.cmp A B
  vs.rt META EXP VALUE | vs.size META EXP VALUE | ent.size VALUE META EXP | vs.dec HEX | vp.rt LEN OFF FID BUCKET | vp.dec HEX
  hdr.rt KLEN VLEN META EXP | hdr.dec HEX | ent.rt KEY VAL META EXP | ent.dec HEX | vsl.dec HEX
  cmd.rt BODY | cmd.dec HEX | raft.ents.rt GID BODIES | raft.ents.dec HEX
  raft.hs.rt GID BODY | raft.hs.dec HEX | raft.snap.rt GID BODY | raft.snap.dec HEX
`X.rt` = encode then decode: `<decode outcome> <hex of the encoding>`; the spec column of an
`rt` op is the canonical text of the *input* value (round trip), of a `dec` op "not panic,
not oom".
-/
import Driver.Lib
import NoKVModel.Codec.Cfg
import NoKVModel.Codec.Prim
import NoKVModel.Codec.Perc
import NoKVModel.Codec.Manifest
import NoKVModel.Codec.Key
import NoKVModel.Codec.Value
import NoKVModel.Codec.Raft

open NoKV NoKV.Codec Driver

def setCfg (c : CodecCfg) (kv : String) : Option CodecCfg :=
  match kv.splitOn "=" with
  | [k, v] =>
    let lg : Option LenGuard := if v == "intwrap" then some .intwrap else if v == "u64" then some .u64 else none
    let two (a b : String) : Option Bool := if v == a then some false else if v == b then some true else none
    match k with
    | "perc.lockLenGuard" => do let g ← lg; pure { c with lockLenGuard := g }
    | "perc.writeLenGuard" => do let g ← lg; pure { c with writeLenGuard := g }
    | "raft.lenGuard" => do let g ← lg; pure { c with raftLenGuard := g }
    | "man.uvarint" =>
      if v == "raw" then some { c with manUvarint := .raw }
      else if v == "sticky" then some { c with manUvarint := .sticky } else none
    | "man.readBytes" =>
      if v == "intwrap" then some { c with manReadBytes := .intwrap }
      else if v == "sticky" then some { c with manReadBytes := .sticky } else none
    | "man.peersCap" => do let b ← two "declared" "bounded"; pure { c with manPeersBounded := b }
    | "man.frameAlloc" => do let b ← two "declared" "bounded"; pure { c with manFrameBounded := b }
    | "man.nilPayloadOp" => do let b ← two "le" "lt"; pure { c with manNilPayloadLt := b }
    | "entry.alloc" => do let b ← two "declared" "bounded"; pure { c with entryAllocBounded := b }
    | "vs.decodeGuard" => do let b ← two "none" "checked"; pure { c with vsDecodeChecked := b }
    | "enc.fresh" => if v == "true" then some c else none
    | "vs.sizeVarint" => if v == "loop7" then some c else none
    | "key.parseTsMin" => do let o ← CmpOp.ofString? v; pure { c with parseTsMin := o }
    | "key.tsEnc" => some { c with tsInverted := v == "maxminus" }
    | "key.cmpShape" => some { c with cmpPrefixSuffix := v == "prefix-then-suffix8" }
    | "key.cfMarker" => some { c with cfMarkerOk := v == "ff4346:2" }
    | _ => none
  | _ => none

def hx (b : Bytes) : String := b.toHex

def outStr {α : Type} (f : α → String) : Out α → String
  | .ok a => f a
  | .err .gen => "err"
  | .err .eof => "err:eof"
  | .err .ueof => "err:ueof"
  | .err .crc => "err:crc"
  | .err .part => "err:partial"
  | .panic => "panic"
  | .oom => "oom-guard"

def lockStr (l : Lock) : String := s!"ok:{hx l.primary}:{l.ts}:{l.ttl}:{l.kind}:{l.minCommitTs}"
def writeStr (w : Write) : String := s!"ok:{w.kind}:{w.startTs}:{hx w.short}"

def b01 (b : Bool) : String := if b then "1" else "0"

def peersStr (ps : List Peer) : String :=
  if ps.isEmpty then "-"
  else
    let shown := (ps.take 64).map (fun p => s!"{p.store}.{p.peer}")
    let s := ";".intercalate shown
    if ps.length > 64 then s ++ s!";+{ps.length - 64}" else s

def editStr (e : Edit) : String :=
  match e.body with
  | .file m => s!"{e.type},file,{m.level},{m.fileID},{m.size},{hx m.smallest},{hx m.largest},{m.created},{m.valueSize},{b01 m.ingest}"
  | .log seg off => s!"{e.type},log,{seg},{off}"
  | .vl (some m) => s!"{e.type},vl,{m.bucket},{m.fid},{m.offset},{b01 m.valid}"
  | .vl none => s!"{e.type},nil"
  | .raft (some p) => s!"{e.type},raft," ++ ",".intercalate (p.toList.map toString)
  | .raft none => s!"{e.type},nil"
  | .region (some r) => s!"{e.type},region,{r.id},{b01 r.delete},{hx r.start},{hx r.end_},{r.ver},{r.confVer},{r.state},{peersStr r.peers}"
  | .region none => s!"{e.type},nil"
  | .none => s!"{e.type},none"

def parsePeers? (s : String) : Option (List Peer) :=
  if s == "-" then some []
  else (s.splitOn ";").mapM fun p =>
    match p.splitOn "." with
    | [a, b] => do let a ← natOf? a; let b ← natOf? b; pure ⟨a, b⟩
    | _ => none

def bool01? (s : String) : Option Bool := if s == "1" then some true else if s == "0" then some false else none

def parseEdit? (s : String) : Option Edit :=
  match s.splitOn "," with
  | [t, "file", lv, fid, sz, sm, lg, cr, vs, ing] => do
    let t ← natOf? t; let lv ← natOf? lv; let fid ← natOf? fid; let sz ← natOf? sz
    let sm ← bytesOf? sm; let lg ← bytesOf? lg; let cr ← natOf? cr; let vs ← natOf? vs; let ing ← bool01? ing
    pure ⟨t, .file ⟨lv, fid, sz, sm, lg, cr, vs, ing⟩⟩
  | [t, "log", seg, off] => do
    let t ← natOf? t; let seg ← natOf? seg; let off ← natOf? off
    pure ⟨t, .log seg off⟩
  | [t, "vl", b, f, o, v] => do
    let t ← natOf? t; let b ← natOf? b; let f ← natOf? f; let o ← natOf? o; let v ← bool01? v
    pure ⟨t, .vl (some ⟨b, f, o, v⟩)⟩
  | [t, "nil"] => do
    let t ← natOf? t
    if t = 3 ∨ t = 4 ∨ t = 5 then pure ⟨t, .vl none⟩
    else if t = 6 then pure ⟨t, .raft none⟩
    else if t = 7 then pure ⟨t, .region none⟩
    else none
  | [t, "none"] => do let t ← natOf? t; pure ⟨t, .none⟩
  | t :: "raft" :: fields => do
    let t ← natOf? t
    let fs ← fields.mapM natOf?
    match fs with
    | [a, b, c, d, e, f, g, h, i, j, k, l] => pure ⟨t, .raft (some ⟨a, b, c, d, e, f, g, h, i, j, k, l⟩)⟩
    | _ => none
  | [t, "region", id, del, st, en, ver, cv, state, peers] => do
    let t ← natOf? t; let id ← natOf? id; let del ← bool01? del; let st ← bytesOf? st; let en ← bytesOf? en
    let ver ← natOf? ver; let cv ← natOf? cv; let state ← natOf? state; let peers ← parsePeers? peers
    pure ⟨t, .region (some ⟨id, del, st, en, ver, cv, state, peers⟩)⟩
  | _ => none

def ordStr : Ordering → String
  | .lt => "-1" | .eq => "0" | .gt => "1"

def bodiesStr (bs : List Bytes) : String :=
  if bs.isEmpty then "-" else ",".intercalate (bs.map (fun b => if b.isEmpty then "e" else hx b))

def parseBodies? (s : String) : Option (List Bytes) :=
  if s == "-" then some []
  else (s.splitOn ",").mapM fun b => if b == "e" then some [] else bytesOf? b

/-- spec for "any value, but neither panic nor oom" when the ok form has no `ok:` prefix -/
def anyValue : String := "0*|1*|2*|3*|4*|5*|6*|7*|8*|9*|-*|a*|b*|c*|d*|e*|f*"
def noCrash : String := "ok:*|err*"

/-- abstract order of the property: (everything before the timestamp) ascending, then
version descending; only defined for keys that carry a timestamp. -/
def specCmp (a b : Bytes) : String :=
  if a.length ≤ 8 ∨ b.length ≤ 8 then "*"
  else
    let pa := a.take (a.length - 8)
    let pb := b.take (b.length - 8)
    let va := maxU64 - beNat (a.drop (a.length - 8))
    let vb := maxU64 - beNat (b.drop (b.length - 8))
    if Bytes.lt pa pb then "-1" else if Bytes.lt pb pa then "1"
    else if va > vb then "-1" else if va < vb then "1" else "0"

/-- width of a uvarint straight from the format: one byte per started group of 7 bits -/
def specVarintLen (x : Nat) : Nat := if x = 0 then 1 else (Nat.log2 x + 1 + 6) / 7

def reply (m s : String) : String := m ++ "\t" ++ s

def step (c : CodecCfg) (toks : List String) : CodecCfg × String :=
  match toks with
  | "cfg" :: kvs =>
    match kvs.foldlM setCfg c with
    | some c' => (c', "ok")
    | none => (c, "bad-cfg")
  | ["uv.put", n] =>
    match natOf? n with
    | some n => (c, reply (hx (putUvarint n)) "*")
    | none => (c, "bad-op")
  | ["uv.get", h] =>
    match bytesOf? h with
    | some b => let r := uvarintGo b; (c, reply s!"{r.1}:{r.2}" "*")
    | none => (c, "bad-op")
  | ["uv.read", h] =>
    match bytesOf? h with
    | some b =>
      let m := match readUvarint b with
        | .ok (v, n) => s!"ok:{v}:{n}"
        | .error (.eof, _) => "err:eof"
        | .error (.ueof, _) => "err:ueof"
        | .error _ => "err"
      (c, reply m "*")
    | none => (c, "bad-op")
  -- ---------------------------------------------------------------- percolator
  | ["lock.rt", p, ts, ttl, k, mc] =>
    match bytesOf? p, natOf? ts, natOf? ttl, natOf? k, natOf? mc with
    | some pb, some tsn, some ttln, some kn, some mcn =>
      let enc := encodeLock ⟨pb, tsn, ttln, kn, mcn⟩
      let r := (decodeLock c).run enc
      (c, reply (outStr lockStr r.1 ++ " " ++ hx enc) s!"ok:{p}:{ts}:{ttl}:{k}:{mc} *")
    | _, _, _, _, _ => (c, "bad-op")
  | ["lock.dec", h] =>
    match bytesOf? h with
    | some b => (c, reply (outStr lockStr ((decodeLock c).run b).1) noCrash)
    | none => (c, "bad-op")
  | ["write.rt", k, st, sh] =>
    match natOf? k, natOf? st, bytesOf? sh with
    | some kn, some stn, some shb =>
      let enc := encodeWrite ⟨kn, stn, shb⟩
      let r := (decodeWrite c).run enc
      (c, reply (outStr writeStr r.1 ++ " " ++ hx enc) s!"ok:{k}:{st}:{sh} *")
    | _, _, _ => (c, "bad-op")
  | ["write.dec", h] =>
    match bytesOf? h with
    | some b => (c, reply (outStr writeStr ((decodeWrite c).run b).1) noCrash)
    | none => (c, "bad-op")
  -- ---------------------------------------------------------------- manifest
  | ["man.rt", e] =>
    match parseEdit? e with
    | some ed =>
      let enc := frameEdit ed
      let r := readEdit c enc
      (c, reply (outStr (fun x => "ok:" ++ editStr x) r.1 ++ " " ++ hx enc) s!"ok:{e} *")
    | none => (c, "bad-op")
  | ["man.dec", h] =>
    match bytesOf? h with
    | some b => (c, reply (outStr (fun x => "ok:" ++ editStr x) ((decodeEdit c).run b).1) noCrash)
    | none => (c, "bad-op")
  | ["man.read", h] =>
    match bytesOf? h with
    | some b => (c, reply (outStr (fun x => "ok:" ++ editStr x) (readEdit c b).1) noCrash)
    | none => (c, "bad-op")
  -- ---------------------------------------------------------------- keys
  | ["ikey.rt", cf, k, ts] =>
    match natOf? cf, bytesOf? k, natOf? ts with
    | some cfn, some kb, some tsn =>
      let enc := internalKey c cfn kb tsn
      let m := match splitInternalKey c enc with
        | some (a, b, t) => s!"{a}:{hx b}:{t}"
        | none => "panic"
      (c, reply (m ++ " " ++ hx enc) (if cfn ≤ 2 then s!"{cf}:{k}:{ts} *" else "*"))
    | _, _, _ => (c, "bad-op")
  | ["ikey.split", h] =>
    match bytesOf? h with
    | some b =>
      let m := match splitInternalKey c b with
        | some (a, u, t) => s!"{a}:{hx u}:{t}"
        | none => "panic"
      (c, reply m anyValue)
    | none => (c, "bad-op")
  | ["kts.rt", k, ts] =>
    match bytesOf? k, natOf? ts with
    | some kb, some tsn =>
      let enc := keyWithTs c kb tsn
      let m := match parseTs c enc with
        | some t => s!"{hx (parseKey enc)}:{t}"
        | none => "panic"
      (c, reply (m ++ " " ++ hx enc) s!"{k}:{ts} *")
    | _, _ => (c, "bad-op")
  | ["kts.parse", h] =>
    match bytesOf? h with
    | some b =>
      let m := match parseTs c b with
        | some t => s!"{hx (parseKey b)}:{t}"
        | none => "panic"
      (c, reply m anyValue)
    | none => (c, "bad-op")
  | ["key.cmp", a, b] =>
    match bytesOf? a, bytesOf? b with
    | some ab, some bb =>
      let m := match compareKeys ab bb with
        | some o => ordStr o
        | none => "panic"
      (c, reply m (specCmp ab bb))
    | _, _ => (c, "bad-op")
  -- ---------------------------------------------------------------- values
  | ["vs.rt", m, e, v] =>
    match natOf? m, natOf? e, bytesOf? v with
    | some mn, some en, some vb =>
      let enc := encodeValue ⟨mn, en, vb⟩
      let r := decodeValue c enc
      (c, reply (outStr (fun x => s!"{x.mt}:{x.expiresAt}:{hx x.value}") r ++ " " ++ hx enc) s!"{m}:{e}:{v} *")
    | _, _, _ => (c, "bad-op")
  | ["vs.size", m, e, v] =>
    -- allocate EncodedSize() bytes, EncodeValue into them, DecodeValue the whole buffer
    match natOf? m, natOf? e, bytesOf? v with
    | some mn, some en, some vb =>
      let vs : ValueStruct := ⟨mn, en, vb⟩
      let enc := encodeValue vs
      let size := valueEncodedSize vs
      let buf := (enc ++ List.replicate (size - enc.length) 0).take size
      let r := decodeValue c buf
      let spec := 1 + specVarintLen en + vb.length
      (c, reply (s!"{size}:{min enc.length size}:" ++ outStr (fun x => s!"{x.mt}:{x.expiresAt}:{hx x.value}") r)
        s!"{spec}:{spec}:{m}:{e}:{v}")
    | _, _, _ => (c, "bad-op")
  | ["ent.size", v, m, e] =>
    match bytesOf? v, natOf? m, natOf? e with
    | some vb, some mn, some en =>
      (c, reply s!"{entryEncodedSize ⟨[], vb, mn, en⟩}" s!"{vb.length + specVarintLen mn + specVarintLen en}")
    | _, _, _ => (c, "bad-op")
  | ["vs.dec", h] =>
    match bytesOf? h with
    | some b => (c, reply (outStr (fun x => s!"{x.mt}:{x.expiresAt}:{hx x.value}") (decodeValue c b)) (anyValue ++ "|err*"))
    | none => (c, "bad-op")
  | ["vp.rt", l, o, f, b] =>
    match natOf? l, natOf? o, natOf? f, natOf? b with
    | some ln, some on, some fn, some bn =>
      let enc := encodePtr ⟨ln, on, fn, bn⟩
      let p := decodePtr enc
      (c, reply (s!"{p.len}:{p.offset}:{p.fid}:{p.bucket} " ++ hx enc) s!"{l}:{o}:{f}:{b} *")
    | _, _, _, _ => (c, "bad-op")
  | ["vp.dec", h] =>
    match bytesOf? h with
    | some b => let p := decodePtr b; (c, reply s!"{p.len}:{p.offset}:{p.fid}:{p.bucket}" anyValue)
    | none => (c, "bad-op")
  | ["hdr.rt", k, v, m, e] =>
    match natOf? k, natOf? v, natOf? m, natOf? e with
    | some kn, some vn, some mn, some en =>
      let enc := encodeHeader ⟨kn, vn, mn, en⟩
      let r := decodeHeader.run enc
      (c, reply (outStr (fun (x : Header × Int) => s!"ok:{x.1.klen}:{x.1.vlen}:{x.1.mt}:{x.1.expiresAt}:{x.2}") r.1 ++ " " ++ hx enc)
        s!"ok:{k}:{v}:{m}:{e}:*")
    | _, _, _, _ => (c, "bad-op")
  | ["hdr.dec", h] =>
    match bytesOf? h with
    | some b =>
      let r := decodeHeader.run b
      (c, reply (outStr (fun (x : Header × Int) => s!"ok:{x.1.klen}:{x.1.vlen}:{x.1.mt}:{x.1.expiresAt}:{x.2}") r.1) noCrash)
    | none => (c, "bad-op")
  | ["ent.rt", k, v, m, e] =>
    match bytesOf? k, bytesOf? v, natOf? m, natOf? e with
    | some kb, some vb, some mn, some en =>
      let enc := encodeEntry crc32c ⟨kb, vb, mn, en⟩
      let r := decodeEntry c crc32c enc
      (c, reply (outStr (fun (x : Entry × Nat) => s!"ok:{hx x.1.key}:{hx x.1.value}:{x.1.mt}:{x.1.expiresAt}:{x.2}") r.1 ++ " " ++ hx enc)
        s!"ok:{k}:{v}:{m}:{e}:*")
    | _, _, _, _ => (c, "bad-op")
  | ["ent.dec", h] =>
    match bytesOf? h with
    | some b =>
      let r := decodeEntry c crc32c b
      (c, reply (outStr (fun (x : Entry × Nat) => s!"ok:{hx x.1.key}:{hx x.1.value}:{x.1.mt}:{x.1.expiresAt}:{x.2}") r.1) noCrash)
    | none => (c, "bad-op")
  | ["vsl.dec", h] =>
    match bytesOf? h with
    | some b =>
      let r := decodeValueSlice crc32c b
      (c, reply (outStr (fun (x : Bytes × Header) => s!"ok:{hx x.1}:{x.2.klen}:{x.2.vlen}:{x.2.mt}:{x.2.expiresAt}") r) noCrash)
    | none => (c, "bad-op")
  -- ---------------------------------------------------------------- raft / command frames
  | ["cmd.rt", body] =>
    match bytesOf? body with
    | some b =>
      let enc := cmdFrame b
      let m := match cmdUnframe enc with
        | some x => "cmd:" ++ hx x
        | none => "nocmd"
      (c, reply (m ++ " " ++ hx enc) s!"cmd:{body} *")
    | none => (c, "bad-op")
  | ["cmd.dec", h] =>
    match bytesOf? h with
    | some b => (c, reply (match cmdUnframe b with | some _ => "cmd" | none => "nocmd") "nocmd|cmd")
    | none => (c, "bad-op")
  | ["raft.ents.rt", g, bodies] =>
    match natOf? g, parseBodies? bodies with
    | some gn, some bs =>
      let enc := frameEntries gn bs
      let r := (unframeEntries c).run enc
      (c, reply (outStr (fun (x : Nat × List Bytes) => s!"ok:{x.1}:{bodiesStr x.2}") r.1 ++ " " ++ hx enc) s!"ok:{g}:{bodies} *")
    | _, _ => (c, "bad-op")
  | ["raft.ents.dec", h] =>
    match bytesOf? h with
    | some b =>
      let m := match ((unframeEntries c).run b).1 with
        | .panic => "panic" | .oom => "oom-guard" | _ => "nopanic"
      (c, reply m "nopanic")
    | none => (c, "bad-op")
  | [op, g, body] =>
    if op == "raft.hs.rt" || op == "raft.snap.rt" then
      match natOf? g, bytesOf? body with
      | some gn, some b =>
        let enc := frameOne gn b
        let r := (unframeOne c).run enc
        (c, reply (outStr (fun (x : Nat × Bytes) => s!"ok:{x.1}:{hx x.2}") r.1 ++ " " ++ hx enc) s!"ok:{g}:{body} *")
      | _, _ => (c, "bad-op")
    else (c, "bad-op")
  | [op, h] =>
    if op == "raft.hs.dec" || op == "raft.snap.dec" then
      match bytesOf? h with
      | some b =>
        let m := match ((unframeOne c).run b).1 with
          | .panic => "panic" | .oom => "oom-guard" | _ => "nopanic"
        (c, reply m "nopanic")
      | none => (c, "bad-op")
    else (c, "bad-op")
  | _ => (c, "bad-op")

/-- Driver state: the configuration and the payloads held by `hold` (slot ↦ reply of the
`X.rt` op that produced it).  Encoders are pure functions in the model, so a held payload
never changes: `check` replays the reply.  Multi-payload ops:
  hold SLOT X.rt ARGS…   encode, keep the payload alive        -> `<hex>`
  check SLOT             decode the held payload now           -> `<decode outcome> <hex>`
  gc                     garbage collection in the worker      -> `ok` -/
structure DSt where
  cfg : CodecCfg := CodecCfg.good
  slots : List (String × String) := []

def lastTok (s : String) : String := ((s.splitOn " ").getLast?).getD ""

def step2 (st : DSt) (toks : List String) : DSt × String :=
  match toks with
  | "hold" :: slot :: rest =>
    let r := (step st.cfg rest).2
    match r.splitOn "\t" with
    | [m, _] =>
      if rest.head?.any (fun o => o.endsWith ".rt") then
        ({ st with slots := (slot, r) :: st.slots.filter (fun p => p.1 != slot) }, reply (lastTok m) "*")
      else (st, "bad-op")
    | _ => (st, "bad-op")
  | ["check", slot] =>
    match st.slots.find? (fun p => p.1 == slot) with
    | some p => (st, p.2)
    | none => (st, reply "bad-slot" "*")
  | ["gc"] => (st, reply "ok" "*")
  | _ =>
    let r := step st.cfg toks
    ({ st with cfg := r.1 }, r.2)

def main : IO Unit := Driver.loop ({} : DSt) step2

-- stub: replaced by the codec engine driver
def main : IO Unit := pure ()

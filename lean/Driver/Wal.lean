-- stub: replaced by the wal engine driver
def main : IO Unit := pure ()

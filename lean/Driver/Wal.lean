/-
Line-protocol driver for the WAL engine (C13 torn tails, C14 bit flips).
Reply format: `<model>\t<spec>`; spec patterns: `*` anything, `a|b` alternatives, `pre*` prefix.

The *model* column runs `NoKVModel/Wal/*` with the configuration of the `cfg` line and the real
CRC-32C.  The *spec* column is computed from a ghost log kept here (records appended, minus
those a cut removed; after a bit flip: any prefix of the original records, any status) and
never from the decoder model.
-/
import Driver.Lib
import NoKVModel.Wal.Crc
import NoKVModel.Wal.Record
import NoKVModel.Wal.Manager
import NoKVModel.Wal.Buffered
import NoKVModel.Wal.Entry
import NoKVModel.Wal.Flip

open NoKV NoKV.Wal Driver

structure GRec where
  seg : Nat
  endOff : Nat
  r : Rec

structure GEnt where
  off : Nat
  len : Nat
  e : Entry

structure St where
  c : WalCfg := WalCfg.good
  ec : EntCfg := EntCfg.good
  segs : List Seg := []
  mgr : Option BMgr := none        -- the open manager (buffer made explicit); `segs` = files on disk
  ghost : List GRec := []          -- oldest first
  flips : List Nat := []           -- currently flipped bit positions of the newest segment
  needVerify : Bool := false       -- a cut tore a record and VerifyDir has not run since
  loose : Bool := false            -- records were appended to an unverified torn log: no claim (replay, verify) from then on
  buf : Bytes := []
  ents : List GEnt := []           -- oldest first
  bflips : List Nat := []          -- currently flipped bit positions of `buf`

def toggle (x : Nat) (l : List Nat) : List Nat :=
  if l.contains x then l.filter (· ≠ x) else x :: l

def flipBit (b : Bytes) (bit : Nat) : Bytes := flipBitAt b bit

def hash32 (b : Bytes) : Nat := b.foldl (fun h x => (h * 31 + x) % 4294967296) 7

def bytesStr (b : Bytes) : String :=
  if b.length ≤ 16 then b.toHex else s!"#{b.length}.{hash32 b}"

def recStr (r : Rec) : String := s!"{r.typ}:{bytesStr r.payload}"

def genPayload (len seed : Nat) : Bytes :=
  (List.range len).map (fun i => (seed + i * 31 + i / 251) % 256)

def statusStr : Status → String
  | .ok => "ok" | .badcrc => "badcrc" | .empty => "other" | .part => "partial"

def join (l : List String) : String := ",".intercalate l

/-- every prefix of `l` rendered as `r1,…,rk;*`, joined with `|` -/
def prefixAlts (l : List String) : String :=
  let n := l.length
  "|".intercalate ((List.range (n + 1)).map (fun k => join (l.take k) ++ ";*"))

def setCfg (st : St) (kv : String) : Option St :=
  match kv.splitOn "=" with
  | [k, v] =>
    match k with
    | "wal.shortHeader" =>
        if v == "partial" then some { st with c := { st.c with shortHeaderPartial := true } }
        else if v == "eof" then some { st with c := { st.c with shortHeaderPartial := false } }
        else none
    | "wal.verifyOnPartial" =>
        if v == "truncate" then some { st with c := { st.c with verifyTruncPartial := true } }
        else if v == "ignore" then some { st with c := { st.c with verifyTruncPartial := false } }
        else none
    | "wal.verifyStep" => do let n ← natOf? v; pure { st with c := { st.c with verifyStep := n } }
    | "wal.replayOnPartial" =>
        if v == "stop" then some { st with c := { st.c with replayPartialOk := true } }
        else if v == "error" then some { st with c := { st.c with replayPartialOk := false } }
        else none
    | "wal.crcChecked" => do let b ← boolOfString? v; pure { st with c := { st.c with crcChecked := b } }
    | "ent.sliceCrcChecked" => do let b ← boolOfString? v; pure { st with ec := { st.ec with sliceCrcChecked := b } }
    | "ent.streamCrcChecked" => do let b ← boolOfString? v; pure { st with ec := { st.ec with streamCrcChecked := b } }
    | _ => if k.startsWith "wal." || k.startsWith "ent." || k.startsWith "crc." || k.startsWith "vlog." then some st else none
  | _ => none

def headSize (segs : List Seg) : Nat :=
  match segs with
  | [] => 0
  | s :: _ => s.data.length

def headId (segs : List Seg) : Nat :=
  match segs with
  | [] => 0
  | s :: _ => s.id

/-- one iteration of the AppendRecords loop on the model + ghost; returns the EntryInfo string.
A capacity rotation truncates the target id: records the ghost held for that id are gone. -/
def doAppend (st : St) (b : BSt) (r : Rec) : St × BSt × String :=
  let b1 := bensure b r
  let id := b1.mgr.activeId
  let off := b1.mgr.activeSize
  let b2 := bappendRec crc32c b r
  let ghost0 := if id = b.mgr.activeId then st.ghost else st.ghost.filter (fun g => g.seg ≠ id)
  ({ st with ghost := ghost0 ++ [⟨id, off + encLen r, r⟩], loose := st.loose || st.needVerify }, b2,
   s!"{id}:{off}:{r.payload.length + 1}:{r.typ}")

/-- one AppendRecords call -/
def doBatch (st : St) (m : BMgr) (rs : List Rec) : St × String :=
  let b0 : BSt := ⟨st.segs, m⟩
  let (st', b', outs) := rs.foldl (fun (acc : St × BSt × List String) r =>
    let (s1, b1, o) := doAppend acc.1 acc.2.1 r; (s1, b1, acc.2.2 ++ [o])) (st, b0, [])
  let b'' := if b'.mgr.syncOnWrite then bflush b' else b'
  ({ st' with segs := b''.dir, mgr := some b''.mgr }, ",".intercalate outs)

/-- stable sort of the ghost log by segment id (replay order) -/
def insertBySeg (g : GRec) : List GRec → List GRec
  | [] => [g]
  | x :: xs => if g.seg ≤ x.seg then g :: x :: xs else x :: insertBySeg g xs

def sortBySeg (l : List GRec) : List GRec := l.foldr insertBySeg []

def infoStrs (l : List (Nat × Rec)) : List String :=
  let rec go (cur off : Nat) : List (Nat × Rec) → List String
    | [] => []
    | (id, r) :: rest =>
      let off' := if id = cur then off else 0
      s!"{id}.{off'}.{r.payload.length + 1}.{r.typ}" :: go id (off' + r.payload.length + 1 + 8) rest
  go 0 0 l

def entStr (e : Entry) : String := s!"{e.key.toHex}:{bytesStr e.value}:{e.mt}:{e.exp}"

def eerrStr : EErr → String
  | .eof => "eof" | .part => "partial" | .ueof => "ueof" | .badcrc => "badcrc" | .other => "other"

def flippedBytes (fl : List Nat) : List Nat := fl.map (· / 8)

def entTouched (st : St) (g : GEnt) : Bool :=
  (flippedBytes st.bflips).any (fun p => g.off ≤ p && p < g.off + g.len)

def nth? {α} (l : List α) (i : Nat) : Option α := (l.drop i).head?

def step (st : St) (toks : List String) : St × String :=
  match toks with
  | "cfg" :: kvs =>
    match kvs.foldlM setCfg st with
    | some st' => (st', "ok")
    | none => (st, "bad-cfg")
  -- ------------------------------------------------------------ CRC tie
  | ["crc", h] =>
    match bytesOf? h with
    | some b => (st, s!"{crc32c b}\t*")
    | none => (st, "bad-op")
  -- ------------------------------------------------------------ WAL manager
  | ["w.open", sz] =>
    match natOf? sz, st.mgr with
    | some sz, none => let b := bopen sz false st.segs; ({ st with segs := b.dir, mgr := some b.mgr }, "ok\tok")
    | _, _ => (st, "bad-op")
  | ["w.open", sz, sow] =>
    match natOf? sz, st.mgr with
    | some sz, none => let b := bopen sz (sow == "1") st.segs; ({ st with segs := b.dir, mgr := some b.mgr }, "ok\tok")
    | _, _ => (st, "bad-op")
  | ["w.close"] =>
    match st.mgr with
    | some m => let b := bflush ⟨st.segs, m⟩; ({ st with segs := b.dir, mgr := none }, "ok\tok")
    | none => (st, "bad-op")
  | ["w.sync"] =>
    match st.mgr with
    | some m => let b := bflush ⟨st.segs, m⟩; ({ st with segs := b.dir, mgr := some b.mgr }, "ok\tok")
    | none => (st, "bad-op")
  | ["w.app", t, h] =>
    match natOf? t, bytesOf? h, st.mgr with
    | some t, some p, some m => let (st', s) := doBatch st m [⟨t, p⟩]; (st', s ++ "\t*")
    | _, _, _ => (st, "bad-op")
  | ["w.appg", t, len, seed] =>
    match natOf? t, natOf? len, natOf? seed, st.mgr with
    | some t, some len, some seed, some m =>
      let (st', s) := doBatch st m [⟨t, genPayload len seed⟩]; (st', s ++ "\t*")
    | _, _, _, _ => (st, "bad-op")
  | ["w.batch", spec] =>
    match st.mgr with
    | some m =>
      let items := spec.splitOn ","
      let parsed := items.mapM fun it =>
        match it.splitOn ":" with
        | [t, len, seed] => do let t ← natOf? t; let len ← natOf? len; let seed ← natOf? seed; pure (⟨t, genPayload len seed⟩ : Rec)
        | _ => none
      match parsed with
      | some rs => let (st', s) := doBatch st m rs; (st', s ++ "\t*")
      | none => (st, "bad-op")
    | none => (st, "bad-op")
  | ["w.rotate"] =>
    match st.mgr with
    | some m =>
      let b := bswitch ⟨st.segs, m⟩ (m.activeId + 1) true
      ({ st with segs := b.dir, mgr := some b.mgr, ghost := st.ghost.filter (fun g => g.seg ≠ m.activeId + 1) }, "ok\tok")
    | none => (st, "bad-op")
  | ["w.switch", id, tr] =>
    match natOf? id, st.mgr with
    | some id, some m =>
      let trunc := tr == "1"
      let b := bswitch ⟨st.segs, m⟩ id trunc
      ({ st with segs := b.dir, mgr := some b.mgr,
                 ghost := if trunc then st.ghost.filter (fun g => g.seg ≠ id) else st.ghost }, "ok\tok")
    | _, _ => (st, "bad-op")
  | ["w.disk"] =>
    -- file sizes as they are, WITHOUT flushing (what a crash of the process would leave)
    (st, join (st.segs.reverse.map (fun s => s!"{s.id}:{s.data.length}")) ++ "\t*")
  | ["w.cut", n] =>
    match natOf? n, st.mgr with
    | some n, none =>
      let n := min n (headSize st.segs)
      let hid := headId st.segs
      let segs' := cutHead n st.segs
      let ghost' := st.ghost.filter (fun g => g.seg ≠ hid || g.endOff ≤ n)
      -- the cut tears a record iff it does not land on a record boundary of the ghost log
      let boundary := (ghost'.filter (fun g => g.seg = hid)).foldl (fun m g => max m g.endOff) 0
      let torn := n ≠ boundary
      ({ st with segs := segs', ghost := ghost', flips := st.flips.filter (fun b => b / 8 < n),
                 needVerify := st.needVerify || torn }, s!"sz={n}\t*")
    | _, _ => (st, "bad-op")
  | ["w.flip", b] =>
    match natOf? b, st.mgr with
    | some b, none =>
      if b / 8 < headSize st.segs then
        let segs' := match st.segs with
          | [] => []
          | s :: older => ⟨s.id, flipBit s.data b⟩ :: older
        ({ st with segs := segs', flips := toggle b st.flips }, "ok\t*")
      else (st, "oob\t*")
    | _, _ => (st, "bad-op")
  | ["w.verify"] =>
    match st.mgr with
    | none =>
      let r := verifySegs st.c crc32c st.segs
      ({ st with segs := r.1, needVerify := if r.2 == .ok then false else st.needVerify },
       -- after records were appended behind an unverified torn tail (wal.Open without
       -- wal.VerifyDir: outside the recovery protocol of db.go) the segment holds garbage
       -- framing: no claim about VerifyDir either
       statusStr r.2 ++ "\t" ++ (if st.flips.isEmpty && !st.loose then "ok" else "*"))
    | some _ => (st, "bad-op")
  | ["w.segs"] =>
    -- the harness calls Manager.Sync first when the manager is open
    let st := match st.mgr with
      | some m => let b := bflush ⟨st.segs, m⟩; { st with segs := b.dir, mgr := some b.mgr }
      | none => st
    (st, join (st.segs.reverse.map (fun s => s!"{s.id}:{s.data.length}")) ++ "\t*")
  | ["w.replay"] =>
    match st.mgr with
    | some mg =>
      let b := bflush ⟨st.segs, mg⟩      -- the harness calls Manager.Sync before Replay
      let st := { st with segs := b.dir, mgr := some b.mgr }
      let r := replaySegs st.c crc32c st.segs
      let m := join (r.1.map recStr) ++ ";" ++ statusStr r.2
      let g := (sortBySeg st.ghost).map (fun g => recStr g.r)
      let spec := if st.loose then "*" else if st.flips.isEmpty then join g ++ ";ok" else prefixAlts g
      (st, m ++ "\t" ++ spec)
    | none => (st, "bad-op")
  | ["w.replayinfo"] =>
    match st.mgr with
    | some mg =>
      let b := bflush ⟨st.segs, mg⟩
      let st := { st with segs := b.dir, mgr := some b.mgr }
      let r := replaySegsInfo st.c crc32c st.segs
      (st, join (infoStrs r.1) ++ ";" ++ statusStr r.2 ++ "\t*")
    | none => (st, "bad-op")
  -- ------------------------------------------------------------ entry records (kv codec, vlog)
  | ["e.new"] => ({ st with buf := [], ents := [], bflips := [] }, "ok\tok")
  | ["e.add", k, v, m, x] =>
    match bytesOf? k, bytesOf? v, natOf? m, natOf? x with
    | some k, some v, some m, some x =>
      if st.bflips.isEmpty then
        let e : Entry := ⟨k, v, m, x⟩
        let enc := encodeEntry e crc32c
        let off := st.buf.length
        ({ st with buf := st.buf ++ enc, ents := st.ents ++ [⟨off, enc.length, e⟩] },
         s!"{off}:{enc.length}:{bytesStr enc}\t*")
      else (st, "bad-op")
    | _, _, _, _ => (st, "bad-op")
  | ["e.flip", b] =>
    match natOf? b with
    | some b =>
      if b / 8 < st.buf.length then
        ({ st with buf := flipBit st.buf b, bflips := toggle b st.bflips }, "ok\t*")
      else (st, "oob\t*")
    | none => (st, "bad-op")
  | ["e.slice", i] =>
    match (natOf? i).bind (nth? st.ents) with
    | some g =>
      let data := (st.buf.drop g.off).take g.len
      let m := match decodeSlice st.ec crc32c data with
        | .ok v h => s!"ok:{bytesStr v}:{h.klen}:{h.vlen}:{h.mt}:{h.exp}"
        | .err e => "err:" ++ eerrStr e
      let spec := if entTouched st g then "err:*"
        else s!"ok:{bytesStr g.e.value}:{g.e.key.length}:{g.e.value.length}:{g.e.mt}:{g.e.exp}"
      (st, m ++ "\t" ++ spec)
    | none => (st, "bad-op")
  | ["e.iter"] =>
    let r := iterEntries st.ec crc32c st.buf
    let m := join (r.1.map (fun p => entStr p.1 ++ s!":{p.2}")) ++ ";" ++ eerrStr r.2
    let g := st.ents.map (fun g => entStr g.e ++ s!":{g.len}")
    let spec := if st.bflips.isEmpty then join g ++ ";eof" else prefixAlts g
    (st, m ++ "\t" ++ spec)
  -- real value-log file = 20 zero bytes ++ buf (harness builds it with vlog.Manager)
  | ["v.load"] => (st, s!"ok:{20 + st.buf.length}\t*")
  | ["v.read", i] =>
    match (natOf? i).bind (nth? st.ents) with
    | some g =>
      let data := (st.buf.drop g.off).take g.len
      let m := match decodeSlice st.ec crc32c data with
        | .ok v _ => s!"ok:{bytesStr v}"
        | .err e => "err:" ++ eerrStr e
      let spec := if entTouched st g then "err:*" else s!"ok:{bytesStr g.e.value}"
      (st, m ++ "\t" ++ spec)
    | none => (st, "bad-op")
  | ["v.iter"] =>
    let r := iterEntries st.ec crc32c st.buf
    let status := match r.2 with
      | .eof => "ok" | .part => "ok" | .badcrc => "ok" | .ueof => "err" | .other => "err"
    let m := join (r.1.map (fun p => entStr p.1 ++ s!":{p.2}")) ++ ";" ++ status
    let g := st.ents.map (fun g => entStr g.e ++ s!":{g.len}")
    let spec := if st.bflips.isEmpty then join g ++ ";ok" else prefixAlts g
    (st, m ++ "\t" ++ spec)
  | _ => (st, "bad-op")

def main : IO Unit := Driver.loop ({} : St) step

/-
Line-protocol driver for the memtable index engine (C07).
Reply format: `<model>\t<spec>`.  The model column is `s=<skiplist model> a=<ART model>`,
the spec column is the same line computed from the reference ordered map over
`(user key asc, version desc)` pairs — it never looks at the byte encoding of versions or at
`compareKeys`.

ops:  init <arenaBytes>
      add <ukey> <ver> <val>          addbig <seed> <len> <ver> <val>
      get <ukey> <ver>                getbig <seed> <len> <ver>
      seek asc|desc <ukey> <ver> <n>  scan asc|desc
      conc <u:v:val,...;u:v:val,...>  (goroutine lists; the model inserts them in listed order)
      concstress <goroutines> <keys> <rounds>
-/
import Driver.Lib
import NoKVModel.Index.Key
import NoKVModel.Index.Ref
import NoKVModel.Index.Art

open NoKV NoKV.Index Driver

abbrev SpecKey := Bytes × Nat

def specLt (a b : SpecKey) : Bool := Bytes.lt a.1 b.1 || (a.1 == b.1 && decide (b.2 < a.2))

structure St where
  c : IdxCfg := IdxCfg.good
  skl : List Entry := []
  art : ArtIdx := {}
  spec : List (SpecKey × Bytes) := []

def parseRadix? : String → Option RadixKey
  | "raw" => some .raw | "ordered" => some .ordered | _ => none

def setCfg (st : St) (kv : String) : Option St :=
  match kv.splitOn "=" with
  | [k, v] =>
    match k with
    | "ck.baseThenTs" => do let b ← boolOfString? v; pure { st with c := { st.c with ckBaseThenTs := b } }
    | "key.tsInverted" => do let b ← boolOfString? v; pure { st with c := { st.c with tsInverted := b } }
    | "skl.compareKeys" => do let b ← boolOfString? v; pure { st with c := { st.c with sklCompareKeys := b } }
    | "art.leafLbOp" => do let o ← CmpOp.ofString? v; pure { st with c := { st.c with artLeafLbOp := o } }
    | "art.leafUbOp" => do let o ← CmpOp.ofString? v; pure { st with c := { st.c with artLeafUbOp := o } }
    | "art.radixKey" => do let r ← parseRadix? v; pure { st with c := { st.c with artRadixKey := r } }
    | "art.padByte" => do let n ← natOf? v; pure { st with c := { st.c with artPadByte := n } }
    | "art.parentRevalidated" => do let b ← boolOfString? v; pure { st with c := { st.c with artParentRevalidated := b } }
    | "idx.keyLen" =>
        if v == "u16-unchecked" then some { st with c := { st.c with keyLenBits := 16 } }
        else if v == "guarded" then some { st with c := { st.c with keyLenBits := 0 } }
        else none
    | _ => none
  | _ => none

/-- keys longer than 64 bytes are abbreviated identically on both sides -/
def keyStr (k : Bytes) : String :=
  if k.length > 64 then s!"#{k.length}:{Bytes.toHex (k.drop (k.length - 16))}" else k.toHex

def entStr (e : Entry) : String := keyStr e.1 ++ "=" ++ e.2.toHex

def entsStr (l : List Entry) : String :=
  if l.isEmpty then "-" else ",".intercalate (l.map entStr)

def optStr : Option Bytes → String
  | none => "none"
  | some v => v.toHex

/-- the spec's raw key: user key ++ big-endian (2^64-1-version); this is the *statement* of the
key layout (kv/key.go doc comment), not the configurable model encoding -/
def specRaw (k : SpecKey) : Bytes := k.1 ++ beW 8 (maxU64 - k.2)

def specEnts (l : List (SpecKey × Bytes)) : List Entry := l.map (fun e => (specRaw e.1, e.2))

def bigKey (seed len : Nat) : Bytes := (List.range len).map (fun i => (i * 7 + seed) % 251)

def both (a b : String) : String := s!"s={a} a={b}"

def doAdd (st : St) (u : Bytes) (ver : Nat) (val : Bytes) : St :=
  let k := mkKey st.c u ver
  { st with skl := sklAdd st.c k val st.skl, art := st.art.add st.c k val,
            spec := upsert specLt (u, ver) val st.spec }

def doGet (st : St) (u : Bytes) (ver : Nat) : String :=
  let k := mkKey st.c u ver
  let m := both (optStr (sklSearch st.c k st.skl)) (optStr (st.art.search st.c k))
  -- spec: newest version ≤ ver of the same user key
  let r := match seekGE specLt (u, ver) st.spec with
    | [] => none
    | e :: _ => if e.1.1 = u then some e.2 else none
  m ++ "\t" ++ both (optStr r) (optStr r)

def parseTriple? (s : String) : Option (Bytes × Nat × Bytes) :=
  match s.splitOn ":" with
  | [u, v, x] => do let u ← bytesOf? u; let v ← natOf? v; let x ← bytesOf? x; pure (u, v, x)
  | _ => none

def step (st : St) (toks : List String) : St × String :=
  match toks with
  | "cfg" :: kvs =>
    match kvs.foldlM setCfg st with
    | some st' => (st', "ok")
    | none => (st, "bad-cfg")
  | ["init", _] => (st, "ok\tok")
  | ["add", u, v, x] =>
    match bytesOf? u, natOf? v, bytesOf? x with
    | some u, some v, some x => (doAdd st u v x, "ok\tok")
    | _, _, _ => (st, "bad-op")
  | ["addbig", s, n, v, x] =>
    match natOf? s, natOf? n, natOf? v, bytesOf? x with
    | some s, some n, some v, some x => (doAdd st (bigKey s n) v x, "ok\tok")
    | _, _, _, _ => (st, "bad-op")
  | ["get", u, v] =>
    match bytesOf? u, natOf? v with
    | some u, some v => (st, doGet st u v)
    | _, _ => (st, "bad-op")
  | ["getbig", s, n, v] =>
    match natOf? s, natOf? n, natOf? v with
    | some s, some n, some v => (st, doGet st (bigKey s n) v)
    | _, _, _ => (st, "bad-op")
  | ["seek", dir, u, v, n] =>
    match bytesOf? u, natOf? v, natOf? n with
    | some u, some v, some n =>
      let k := mkKey st.c u v
      let asc := dir == "asc"
      let s := if asc then sklSeekAsc st.c k st.skl else sklSeekDesc st.c k st.skl
      let a := st.art.seek st.c asc k
      let r := if asc then seekGE specLt (u, v) st.spec else seekLE specLt (u, v) st.spec
      let rs := entsStr ((specEnts r).take n)
      (st, both (entsStr (s.take n)) (entsStr (a.take n)) ++ "\t" ++ both rs rs)
    | _, _, _ => (st, "bad-op")
  | ["scan", dir] =>
    let asc := dir == "asc"
    let s := if asc then st.skl else sklScanDesc st.c st.skl
    let a := st.art.scan asc
    let r := if asc then specEnts st.spec else (specEnts st.spec).reverse
    (st, both (entsStr s) (entsStr a) ++ "\t" ++ both (entsStr r) (entsStr r))
  | ["conc", groups] =>
    match ((groups.splitOn ";").flatMap (fun g => g.splitOn ",")).mapM parseTriple? with
    | some ts =>
      let st' := ts.foldl (fun s t => doAdd s t.1 t.2.1 t.2.2) st
      let r := entsStr (specEnts st'.spec)
      (st', both (entsStr st'.skl) (entsStr (st'.art.scan true)) ++ "\t" ++ both r r)
    | none => (st, "bad-op")
  | ["concstress", _, _, _] =>
    -- many goroutines inserting disjoint keys into fresh indexes, repeated; the model of the
    -- as-is ART (no parent re-validation, see NoKVModel/Index/ArtConc.lean) loses an insert
    (st, both "ok" (if st.c.artParentRevalidated then "ok" else "lost") ++ "\t" ++ both "ok" "ok")
  | _ => (st, "bad-op")

def main : IO Unit := Driver.loop ({} : St) step

-- stub: replaced by the index engine driver
def main : IO Unit := pure ()

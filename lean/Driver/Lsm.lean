/-
Line-protocol driver for the LSM engine (C01, C02).
Reply format: `<model>\t<spec>`; spec patterns: `*` anything, `a|b` alternatives.

ops:  set <cf> <key> <val> | del <cf> <key> | setv <cf> <key> <ver> <val> | delv <cf> <key> <ver>
      get <cf> <key> | getv <cf> <key> <ver> | rotate | flush | compact l0move|keep|drain | reopen
keys/values: hex (`-` = empty) or `rep:<byte>:<count>` (count copies of one byte).

The spec column is computed from the write log only (newest first): `pick` = greatest version not
above the requested one, most recent write among equal versions.
-/
import Driver.Lib
import NoKVModel.Lsm.Model

open NoKV NoKV.Lsm Driver

structure DSt where
  cfg : Cfg := Cfg.good
  st : St := {}
  log : List Entry := []

def dirOf? : String → Option Dir
  | "oldestFirst" => some .oldestFirst | "newestFirst" => some .newestFirst | _ => none

def setCfg (c : Cfg) (kv : String) : Option Cfg :=
  match kv.splitOn "=" with
  | [k, v] =>
    match k with
    | "lsm.l0SearchDir" => do let d ← dirOf? v; pure { c with l0SearchDir := d }
    | "lsm.tieRule" => do let o ← CmpOp.ofString? v; pure { c with tieRule := o }
    | "lsm.crossPick" =>
        if v == "firstHit" then some { c with crossPick := .firstHit }
        else if v == "maxVersion" then some { c with crossPick := .maxVersion } else none
    | "lsm.levelOrder" =>
        if v == "ingestFirst" then some { c with levelOrder := .ingestFirst }
        else if v == "mainFirst" then some { c with levelOrder := .mainFirst } else none
    | "lsm.ingestOrder" =>
        if v == "minKeyDesc" then some { c with ingestOrder := .minKeyDesc }
        else if v == "recency" then some { c with ingestOrder := .recency } else none
    | "lsm.immOrder" => do let d ← dirOf? v; pure { c with immOrder := d }
    | "merge.eqKeeps" =>
        if v == "left" then some { c with mergeKeeps := .left }
        else if v == "right" then some { c with mergeKeeps := .right } else none
    | "lsm.compactTopOrder" =>
        if v == "reversed" then some { c with compactTopOrder := .reversed }
        else if v == "forward" then some { c with compactTopOrder := .forward } else none
    | "lsm.overlapRightKey" =>
        if v == "maxKey" then some { c with overlapRightKey := .maxKey }
        else if v == "minKey" then some { c with overlapRightKey := .minKey } else none
    -- shape-pinning facts: only one value is understood (the model visits every ingest table that
    -- contains the key and writes all versions of a user key into one output table)
    | "lsm.ingestScanStop" => if v == "prefixMax" then some c else none
    | "lsm.compactSplitRule" => if v == "userKeyBoundary" then some c else none
    | "lsm.zeroVersion" =>
        if v == "found" then some { c with zeroVersionFound := true }
        else if v == "lost" then some { c with zeroVersionFound := false } else none
    | "db.plainKeyLimit" => do let b ← boolOfString? v; pure { c with plainKeyLimit := b }
    | _ => none
  | _ => none

def bytesArg? (s : String) : Option Bytes :=
  match s.splitOn ":" with
  | ["rep", b, n] => do
    let b ← Bytes.ofHex? b
    let n ← natOf? n
    match b with
    | [x] => pure (List.replicate n x)
    | _ => none
  | _ => bytesOf? s

def shape (s : St) : String :=
  s!"imm={s.imms.length} l0={s.l0.length} ing={s.ing.length} main={s.main.length}"

def writeOut : WriteRes → String
  | .ok => "ok" | .emptyKey => "emptykey" | .tooBig => "toobig" | .unsupported => "unsupported"

def doWrite (d : DSt) (e : Entry) : DSt × String :=
  let (s', r) := write d.cfg d.st e
  -- specification: empty keys and keys above maxKeySize are rejected, everything else is logged
  let (log', sp) :=
    if e.key = [] then (d.log, "emptykey")
    else if e.key.length > maxKeySize then (d.log, "toobig")
    else (e :: d.log, "ok")
  ({ d with st := s', log := log' }, writeOut r ++ "\t" ++ sp)

def plainOut : Option Entry → String
  | some e => if e.del then "notfound" else "val:" ++ e.val.toHex
  | none => "notfound"

def verOut : Option Entry → String
  | some e => if e.del then "del" else "put:" ++ e.val.toHex
  | none => "notfound"

def stepD (d : DSt) (toks : List String) : DSt × String :=
  match toks with
  | "cfg" :: kvs =>
    match kvs.foldlM setCfg d.cfg with
    | some c => ({ d with cfg := c }, "ok")
    | none => (d, "badcfg")
  | ["set", cf, k, v] =>
    match natOf? cf, bytesArg? k, bytesArg? v with
    | some cf, some k, some v => doWrite d ⟨cf, k, maxVersion, v, false⟩
    | _, _, _ => (d, "badop\t*")
  | ["del", cf, k] =>
    match natOf? cf, bytesArg? k with
    | some cf, some k => doWrite d ⟨cf, k, maxVersion, [], true⟩
    | _, _ => (d, "badop\t*")
  | ["setv", cf, k, ver, v] =>
    match natOf? cf, bytesArg? k, natOf? ver, bytesArg? v with
    | some cf, some k, some ver, some v => doWrite d ⟨cf, k, ver, v, false⟩
    | _, _, _, _ => (d, "badop\t*")
  | ["delv", cf, k, ver] =>
    match natOf? cf, bytesArg? k, natOf? ver with
    | some cf, some k, some ver => doWrite d ⟨cf, k, ver, [], true⟩
    | _, _, _ => (d, "badop\t*")
  | ["get", cf, k] =>
    match natOf? cf, bytesArg? k with
    | some cf, some k =>
      let q : IK := ⟨cf, k, maxVersion⟩
      (d, plainOut (get d.cfg d.st q) ++ "\t" ++ plainOut (pick q d.log))
    | _, _ => (d, "badop\t*")
  | ["getv", cf, k, ver] =>
    match natOf? cf, bytesArg? k, natOf? ver with
    | some cf, some k, some ver =>
      let q : IK := ⟨cf, k, ver⟩
      (d, verOut (get d.cfg d.st q) ++ "\t" ++ verOut (pick q d.log))
    | _, _, _ => (d, "badop\t*")
  | ["engine", _] => (d, "ok\t*")
  | ["opts", _, _] => (d, "ok\t*")
  | ["rotate"] => let s := rotate d.st; ({ d with st := s }, "ok " ++ shape s ++ "\t*")
  | ["flush"] =>
    let s := flush d.st
    ({ d with st := s }, (if d.st.imms.isEmpty then "none " else "ok ") ++ shape s ++ "\t*")
  | ["compact", kind] =>
    let r := match kind with
      | "l0move" => some (l0move d.cfg d.st)
      | "keep" => some (keep d.cfg d.st)
      | "drain" => some (drain d.cfg d.st)
      | _ => none
    match r with
    | some (s, .done) => ({ d with st := s }, "ok " ++ shape s ++ "\t*")
    | some (s, .nothing) => ({ d with st := s }, "nothing " ++ shape s ++ "\t*")
    | some (_, .panic) => (d, "panic\t*")
    | none => (d, "badop\t*")
  | ["reopen"] => let s := reopen d.st; ({ d with st := s }, "ok " ++ shape s ++ "\t*")
  | _ => (d, "badop\t*")

def main : IO Unit := Driver.loop ({} : DSt) stepD

-- stub: replaced by the lsm engine driver
def main : IO Unit := pure ()

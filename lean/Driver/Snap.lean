/-
Line-protocol driver for the snap engine (C05).  Reply format `<model>\t<spec>`.

Whole API calls (the calling thread runs alone until the call returns):
  begin <t> <u|r>            → ok <readTs>
  get <t> <key>              → val:<hex> | notfound
  set <t> <key> <val> | del <t> <key>   → ok | readonly
  scan <t>                   → k=v,k=v (keys ascending) | -
  commit <t>                 → ok | conflict
  discard <t>                → ok
Scheduled calls (a goroutine of the harness, parked before the call):
  spawn <t> begin <u|r> | spawn <t> commit | spawn <t> discard   → ok
  step <t>                   run <t> up to its next yield point of utils/watermarker.go
                             → begin.mid | advance.loop | blocked | return:<result>
  state                      → nx=<nextTxnTs> td=<txnMark.doneUntil> tl=<txnMark.lastIndex>
                               rd=<readMark.doneUntil> rl=<readMark.lastIndex> ct=<len committedTxns>
  setv <version> <key> <val> DB.SetVersionedEntry (plain write at an explicit version), before a reopen
  reopen                     Close + Open of the same directory (every transaction must be closed)
  seq | sched | stress …     case headers / the free-running validation run (→ ok)

Every op runs micro-steps of `NoKV.Snap.step` — the function the theorems of Props/C05 are about;
the driver only fixes a scheduling policy.

The *spec* column is the property's own vocabulary: every transaction sees the writes of a fixed
set of commits, all-or-nothing: the commits that had returned before its `NewTransaction` was
called, plus some subset of those whose `Commit` was in flight at any moment of that call — and
never anything else, for as long as it lives.  The subset is narrowed by every answer the
transaction gets (candidates inconsistent with an earlier answer are dropped), so a commit that
shows up late, or partially, leaves no candidate.  Commits that overlap on a key are ordered by
their commit timestamp (taken from the model; the order of two concurrent commits is not a
C05 matter).
-/
import Driver.Lib
import NoKVModel.Base.Cfg
import NoKVModel.Snap.Model

open NoKV NoKV.Conc NoKV.Snap Driver

structure TSpec where
  base : List Nat := []
  maybe : List Nat := []
  cands : List (List Nat) := [[]]
  opened : Bool := false

structure DSt where
  c : SnapCfg := SnapCfg.good
  s : St := initSt
  committing : List Nat := []     -- Commit called (and the transaction has writes)
  doneOk : List Nat := []         -- Commit returned ok
  specs : List (Nat × TSpec) := []
  scheduled : List Nat := []      -- transactions with a scheduled call (spawn …)
  tids : List Nat := []           -- every transaction of this session
  persisted : List (Key × Option Val) := []   -- spec: what was committed before the last reopen

def setCfg (c : SnapCfg) (kv : String) : Option SnapCfg :=
  match kv.splitOn "=" with
  | [k, v] =>
    match k with
    | "wm.beginOrder" =>
      if v == "countThenPublish" then some { c with wm := { c.wm with countsFirst := true } }
      else if v == "publishThenCount" then some { c with wm := { c.wm with countsFirst := false } }
      else none
    | "wm.tracksZero" => do let b ← boolOfString? v; pure { c with wm := { c.wm with tracksZero := b } }
    | "wm.holdsAtDone" => do let b ← boolOfString? v; pure { c with wm := { c.wm with holdsAtDone := b } }
    | "oracle.commitLocked" => do let b ← boolOfString? v; pure { c with commitLocked := b }
    | "txn.doneAfterApply" => do let b ← boolOfString? v; pure { c with doneAfterApply := b }
    | "oracle.readWaits" => do let b ← boolOfString? v; pure { c with readWaits := b }
    | "oracle.readTsClamp" => do let b ← boolOfString? v; pure { c with readClamp := b }
    | "oracle.readTsOff" => do let n ← natOf? v; pure { c with readTsOff := n }
    -- shape facts: the model is written for exactly these values
    | "oracle.commitOrder" => if v == "lock,hasConflict,doneRead,cleanup,add,begin,record" then some c else none
    | "oracle.readTsOrder" => if v == "load,last,readBegin,wait" then some c else none
    | "oracle.readTsLocked" => if v == "false" then some c else none
    | "oracle.markSeed" => if v == "committed" then some { c with seedOff := 0 } else none
    | "wm.advanceShape" => if v == "true" then some c else none
    | _ => none
  | _ => none

def valStr (v : Option Val) : String :=
  match v with
  | some b => "val:" ++ b.toHex
  | none => "notfound"

def resStr : Res → String
  | .none => "ok"
  | .ok => "ok"
  | .conflict => "conflict"

-- ------------------------------------------------------------------ running threads

def idle (t : Txn) : Bool := t.pc == .active || t.pc == .finished

/-- run `tid` until its current call returns; `false` = blocked / out of fuel -/
def runCall (c : SnapCfg) (s : St) (tid : Nat) : Nat → St × Bool
  | 0 => (s, false)
  | fuel + 1 =>
    match s.thr tid with
    | none => (s, false)
    | some t =>
      if idle t then (s, true) else
      match Snap.step c s (.run tid) with
      | some s' => runCall c s' tid fuel
      | none => (s, false)

/-- the yield point of the real code the thread stands at, if any -/
def yieldAt (c : SnapCfg) (s : St) (t : Txn) : Option String :=
  match t.pc with
  | .call m w _ =>
    match (markOf s m).thr w with
    | some wt =>
      if thrDone c.wm wt then none else
      match (WM.progOf c.wm wt.kind)[wt.stage]? with
      | some .advance => if wt.loc = .start then some "advance.loop" else none
      | some (.add _ up) => if up && !c.wm.countsFirst then some "begin.mid" else none
      | some (.setLast _) => if c.wm.countsFirst then some "begin.mid" else none
      | _ => none
    | none => none
  | _ => none

def retStr (t : Txn) : String :=
  if t.pc == .active then s!"return:ok {t.readTs}" else "return:" ++ resStr t.result

def runToYield (c : SnapCfg) (s : St) (tid : Nat) : Nat → Bool → St × String
  | 0, _ => (s, "fuel")
  | fuel + 1, first =>
    match s.thr tid with
    | none => (s, "notxn")
    | some t =>
      if idle t then (s, if first then "bad-op" else retStr t) else
      match (if first then none else yieldAt c s t) with
      | some p => (s, p)
      | none =>
        match Snap.step c s (.run tid) with
        | some s' => runToYield c s' tid fuel false
        | none => (s, "blocked")

def fuel : Nat := 20000

-- ------------------------------------------------------------------ specification side

def subsets : List Nat → List (List Nat)
  | [] => [[]]
  | x :: xs => let r := subsets xs; r ++ r.map (fun l => x :: l)

/-- value of `k` when exactly the commits `ids` are visible (newest commit timestamp wins) -/
def valUnderS (s : St) (ids : List Nat) (k : Key) : Option Val :=
  (ids.foldl (fun (acc : Nat × Option Val) id =>
    match s.thr id with
    | some t =>
      if t.commitTs > acc.1 then
        match lookupW t.writes k with
        | some v => (t.commitTs, v)
        | none => acc
      else acc
    | none => acc) (0, none)).2

/-- does one of the visible commits of this session write `k`? -/
def writesKey (s : St) (ids : List Nat) (k : Key) : Bool :=
  ids.any (fun id =>
    match s.thr id with
    | some t => t.commitTs > 0 && (lookupW t.writes k).isSome
    | none => false)

/-- `pers`: what was committed before the last reopen (key ↦ value, `none` = deleted) -/
def valUnder (pers : List (Key × Option Val)) (s : St) (ids : List Nat) (k : Key) : Option Val :=
  if writesKey s ids k then valUnderS s ids k
  else match pers.find? (fun p => p.1 = k) with
    | some p => p.2
    | none => none

def keysUnderS (s : St) (ids : List Nat) : List Key :=
  dedup (ids.foldl (fun acc id =>
    match s.thr id with
    | some t => if t.commitTs > 0 then acc ++ t.writes.map (fun kv => kv.1) else acc
    | none => acc) [])

def keysUnder (pers : List (Key × Option Val)) (s : St) (ids : List Nat) : List Key :=
  dedup (keysUnderS s ids ++ pers.map (fun p => p.1))

def insertKey (k : Key) : List Key → List Key
  | [] => [k]
  | x :: xs => if Bytes.lt k x then k :: x :: xs else x :: insertKey k xs

def sortKeys (l : List Key) : List Key := l.foldr insertKey []

def renderScan (l : List (Key × Val)) : String :=
  if l.isEmpty then "-" else ",".intercalate (l.map (fun kv => kv.1.toHex ++ "=" ++ kv.2.toHex))

def ownVal (t : Txn) (k : Key) : Option (Option Val) := if t.update then lookupW t.writes k else none

/-- the scan a transaction with pending writes `t.writes` must see when `ids` are visible -/
def scanUnder (pers : List (Key × Option Val)) (s : St) (t : Txn) (ids : List Nat) : String :=
  let ks := sortKeys (dedup (keysUnder pers s ids ++ (if t.update then t.writes.map (fun kv => kv.1) else [])))
  renderScan (ks.filterMap (fun k =>
    let v := match ownVal t k with
      | some v => v
      | none => valUnder pers s ids k
    v.map (fun b => (k, b))))

def dedupS (l : List String) : List String :=
  l.foldr (fun k acc => if acc.contains k then acc else k :: acc) []

def getSpec (d : DSt) (tid : Nat) : Option TSpec :=
  (d.specs.find? (fun p => p.1 = tid)).map (fun p => p.2)

def putSpec (d : DSt) (tid : Nat) (sp : TSpec) : DSt :=
  { d with specs := (tid, sp) :: d.specs.filter (fun p => p.1 ≠ tid) }

/-- `NewTransaction` is being called for `tid` -/
def specBeginCall (d : DSt) (tid : Nat) : DSt :=
  putSpec d tid { base := d.doneOk, maybe := d.committing.filter (fun x => !d.doneOk.contains x) }

/-- `NewTransaction` returned -/
def specOpened (d : DSt) (tid : Nat) : DSt :=
  match getSpec d tid with
  | some sp => if sp.opened then d else putSpec d tid { sp with cands := subsets sp.maybe, opened := true }
  | none => d

/-- `Commit` is being called for `x` (with writes): in flight for every transaction still inside `NewTransaction` -/
def specCommitCall (d : DSt) (x : Nat) : DSt :=
  { d with committing := x :: d.committing,
           specs := d.specs.map (fun p => if p.2.opened then p else (p.1, { p.2 with maybe := x :: p.2.maybe })) }

def specCommitDone (d : DSt) (x : Nat) : DSt :=
  match d.s.thr x with
  | some t => if t.result == .ok && t.commitTs > 0 then { d with doneOk := x :: d.doneOk } else d
  | none => d

/-- alternatives allowed by the candidates; then keep the candidates that agree with `seen` -/
def specAnswer (d : DSt) (tid : Nat) (f : List Nat → String) (seen : String) : DSt × String :=
  match getSpec d tid with
  | some sp =>
    if sp.opened then
      -- a commit that has not even been handed a timestamp when a begun transaction reads cannot
      -- become visible to it later: candidates containing one are dropped for good
      let hasTs := fun (id : Nat) =>
        match d.s.thr id with
        | some t => t.commitTs > 0
        | none => false
      let cands0 := sp.cands.filter (fun cd => cd.all hasTs)
      let cands := if cands0.isEmpty then sp.cands else cands0
      let alts := dedupS (cands.map (fun cd => f (sp.base ++ cd)))
      let keep := cands.filter (fun cd => f (sp.base ++ cd) == seen)
      -- `notxn`: the harness has not seen this transaction's NewTransaction return (impl != model then)
      (putSpec d tid { sp with cands := if keep.isEmpty then cands else keep }, "|".intercalate (alts ++ ["notxn"]))
    else (d, "*")
  | none => (d, "*")

-- ------------------------------------------------------------------ ops

def stateStr (s : St) : String :=
  s!"nx={s.nextTs} td={s.tm.doneUntil} tl={s.tm.lastIndex} rd={s.rm.doneUntil} rl={s.rm.lastIndex} ct={s.committed.length}"

def hasWrites (s : St) (tid : Nat) : Bool :=
  match s.thr tid with
  | some t => !t.writes.isEmpty
  | none => false

/-- some scheduled call has not returned: a whole NewTransaction / Commit / Discard could block on
it (the harness goroutine would hang), so both sides refuse it -/
def anyLive (d : DSt) : Bool :=
  d.scheduled.any (fun id =>
    match d.s.thr id with
    | some t => !idle t
    | none => false)

def activeTxn (s : St) (tid : Nat) : Option Txn :=
  match s.thr tid with
  | some t => if t.pc == .active then some t else none
  | none => none

def doSet (d : DSt) (tid : Nat) (k : Key) (v : Option Val) : DSt × String :=
  match activeTxn d.s tid with
  | none => (d, "notxn\t*")
  | some t =>
    if !t.update then (d, "readonly\treadonly") else
    match Snap.step d.c d.s (.set tid k v) with
    | some s' => ({ d with s := s' }, "ok\tok")
    | none => (d, "bad-op")

/-- `drain`: four rounds over the scheduled calls in spawn order, each run until it returns or blocks -/
def drainRound (d : DSt) (ids : List Nat) (acc : List String) : DSt × List String :=
  ids.foldl (fun (st : DSt × List String) id =>
    let d := st.1
    match d.s.thr id with
    | some t =>
      if idle t then st else
      let (s1, ok) := runCall d.c d.s id fuel
      let d := { d with s := s1 }
      if ok then
        match s1.thr id with
        | some t1 =>
          let r := retStr t1
          let d := if r.startsWith "return:ok " then specOpened d id else specCommitDone d id
          (d, st.2 ++ [s!"{id}:" ++ ((r.drop 7).replace " " "_")])
        | none => (d, st.2)
      else (d, st.2)
    | none => st) (d, acc)

def drain (d : DSt) : DSt × String :=
  let ids := d.scheduled.reverse.foldl (fun (acc : List Nat) id => if acc.contains id then acc else acc ++ [id]) []
  let (d, acc) := drainRound d ids []
  let (d, acc) := drainRound d ids acc
  let (d, acc) := drainRound d ids acc
  let (d, acc) := drainRound d ids acc
  (d, " ".intercalate ("drained" :: acc) ++ " " ++ stateStr d.s ++ "\t*")

def maxTs (st : List Entry) : Nat := st.foldl (fun m e => max m e.ts) 0

/-- `reopen`: Close + Open of the same directory.  Both sides refuse it while a transaction of the
session is still open.  The model restarts from `seededSt` (the initial state the theorems of
Props/C05 quantify over) with the recovered versions and their maximum. -/
def reopen (d : DSt) : DSt × String :=
  let allDone := d.tids.all (fun id =>
    match d.s.thr id with
    | some t => t.pc == .finished
    | none => true)
  if !allDone then (d, "unsafe\tunsafe") else
  let ks := keysUnder d.persisted d.s d.doneOk
  let pers := ks.map (fun k => (k, valUnder d.persisted d.s d.doneOk k))
  ({ d with s := seededSt d.c (maxTs d.s.store) d.s.store, committing := [], doneOk := [], specs := [],
            scheduled := [], tids := [], persisted := pers }, "ok\tok")

/-- `setv`: one entry at an explicit version through the plain-write API (`SetVersionedEntry`), only
between sessions' transactions and — in every generated case — right before a `reopen`, whose
`seededSt` is then an initial state of the model with that entry recovered. -/
def setv (d : DSt) (k v : Bytes) (ver : Nat) : DSt × String :=
  let allDone := d.tids.all (fun id =>
    match d.s.thr id with
    | some t => t.pc == .finished
    | none => true)
  if !allDone then (d, "unsafe\tunsafe") else
  if ver = 0 then (d, "bad-op") else
  ({ d with s := { d.s with store := { key := k, ts := ver, val := some v } :: d.s.store },
            persisted := (k, some v) :: d.persisted.filter (fun p => p.1 ≠ k) }, "ok\tok")

def stepOp (d : DSt) (toks : List String) : DSt × String :=
  match toks with
  | ["setv", ver, k, v] =>
    match bytesOf? k, bytesOf? v, natOf? ver with
    | some k, some v, some ver => setv d k v ver
    | _, _, _ => (d, "bad-op")
  | ["reopen"] => reopen d
  | ["drain"] => drain d
  | ["seq"] => (d, "ok\t*")
  | ["sched"] => (d, "ok\t*")
  | "stress" :: _ => (d, "ok\tok")
  | ["state"] => (d, stateStr d.s ++ "\t*")
  | ["begin", t, m] =>
    match natOf? t with
    | some tid =>
      if (d.s.thr tid).isSome then (d, "bad-op\tbad-op") else
      if anyLive d then (d, "unsafe\tunsafe") else
      match Snap.step d.c d.s (.spawn tid (m == "u")) with
      | some s1 =>
        let d := specBeginCall { d with tids := tid :: d.tids } tid
        let (s2, ok) := runCall d.c s1 tid fuel
        let d := { d with s := s2 }
        if ok then
          let d := specOpened d tid
          match s2.thr tid with
          | some tx => (d, s!"ok {tx.readTs}\tok *")
          | none => (d, "bad-op")
        else (d, "blocked\tok *")
      | none => (d, "bad-op\tbad-op")
    | none => (d, "bad-op")
  | ["get", t, k] =>
    match natOf? t, bytesOf? k with
    | some tid, some key =>
      match activeTxn d.s tid with
      | none => (d, "notxn\t*")
      | some tx =>
        let out := valStr (getVal d.s tx key)
        match Snap.step d.c d.s (.get tid key) with
        | some s' =>
          let d := { d with s := s' }
          match ownVal tx key with
          | some v => (d, out ++ "\t" ++ valStr v)
          | none =>
            let (d, sp) := specAnswer d tid (fun ids => valStr (valUnder d.persisted d.s ids key)) out
            (d, out ++ "\t" ++ sp)
        | none => (d, "bad-op")
    | _, _ => (d, "bad-op")
  | ["scan", t] =>
    match natOf? t with
    | some tid =>
      match activeTxn d.s tid with
      | none => (d, "notxn\t*")
      | some tx =>
        let res := scanOut d.s tx
        let out := renderScan ((sortKeys (res.map (fun kv => kv.1))).filterMap (fun k =>
          (res.find? (fun kv => kv.1 = k)).map (fun kv => (k, kv.2))))
        match Snap.step d.c d.s (.scan tid) with
        | some s' =>
          let d := { d with s := s' }
          let (d, sp) := specAnswer d tid (fun ids => scanUnder d.persisted d.s tx ids) out
          (d, out ++ "\t" ++ sp)
        | none => (d, "bad-op")
    | none => (d, "bad-op")
  | ["set", t, k, v] =>
    match natOf? t, bytesOf? k, bytesOf? v with
    | some tid, some key, some val => doSet d tid key (some val)
    | _, _, _ => (d, "bad-op")
  | ["del", t, k] =>
    match natOf? t, bytesOf? k with
    | some tid, some key => doSet d tid key none
    | _, _ => (d, "bad-op")
  | ["commit", t] =>
    match natOf? t with
    | some tid =>
      match activeTxn d.s tid with
      | none => (d, "notxn\t*")
      | some _ =>
        if anyLive d then (d, "unsafe\tunsafe") else
        match Snap.step d.c d.s (.commit tid) with
        | some s1 =>
          let d := if hasWrites s1 tid then specCommitCall d tid else d
          let (s2, ok) := runCall d.c s1 tid fuel
          let d := { d with s := s2 }
          if ok then
            let d := specCommitDone d tid
            match s2.thr tid with
            | some tx => (d, resStr tx.result ++ "\tok|conflict")
            | none => (d, "bad-op")
          else (d, "blocked\tok|conflict")
        | none => (d, "bad-op")
    | none => (d, "bad-op")
  | ["discard", t] =>
    match natOf? t with
    | some tid =>
      match activeTxn d.s tid with
      | none => (d, "notxn\t*")
      | some _ =>
        if anyLive d then (d, "unsafe\tunsafe") else
        match Snap.step d.c d.s (.discard tid) with
        | some s1 =>
          let (s2, ok) := runCall d.c s1 tid fuel
          ({ d with s := s2 }, if ok then "ok\tok" else "blocked\tok")
        | none => (d, "bad-op")
    | none => (d, "bad-op")
  | ["spawn", t, "begin", m] =>
    match natOf? t with
    | some tid =>
      match Snap.step d.c d.s (.spawn tid (m == "u")) with
      | some s1 => (specBeginCall { d with s := s1, scheduled := tid :: d.scheduled, tids := tid :: d.tids } tid, "ok\tok")
      | none => (d, "bad-op\tbad-op")
    | none => (d, "bad-op")
  | ["spawn", t, "commit"] =>
    match natOf? t with
    | some tid =>
      match activeTxn d.s tid with
      | none => (d, "notxn\t*")
      | some _ =>
        match Snap.step d.c d.s (.commit tid) with
        | some s1 =>
          let d := if hasWrites s1 tid then specCommitCall d tid else d
          ({ d with s := s1, scheduled := tid :: d.scheduled }, "ok\tok")
        | none => (d, "bad-op")
    | none => (d, "bad-op")
  | ["spawn", t, "discard"] =>
    match natOf? t with
    | some tid =>
      match activeTxn d.s tid with
      | none => (d, "notxn\t*")
      | some _ =>
        match Snap.step d.c d.s (.discard tid) with
        | some s1 => ({ d with s := s1, scheduled := tid :: d.scheduled }, "ok\tok")
        | none => (d, "bad-op")
    | none => (d, "bad-op")
  | ["step", t] =>
    match natOf? t with
    | some tid =>
      let (s1, p) := runToYield d.c d.s tid fuel true
      let d := { d with s := s1 }
      let d := if p.startsWith "return:ok " then specOpened d tid
               else if p.startsWith "return:" then specCommitDone d tid else d
      (d, p ++ " " ++ stateStr s1 ++ "\t*")
    | none => (d, "bad-op")
  | _ => (d, "bad-op")

def step (d : DSt) (toks : List String) : DSt × String :=
  match toks with
  | "cfg" :: kvs =>
    match kvs.foldlM setCfg d.c with
    | some c => ({ d with c := c }, "ok")
    | none => (d, "bad-cfg")
  | _ => stepOp d toks

def main : IO Unit := Driver.loop ({} : DSt) step

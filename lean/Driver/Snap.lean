-- stub: replaced by the snap engine driver
def main : IO Unit := pure ()

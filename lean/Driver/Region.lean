/-
Line-protocol driver for the Region engine (C24, C25, C26, C38).
Reply format: `<model>\t<spec>`; spec patterns: `*` anything, `a|b` alternatives, `pre*` prefix.
-/
import Driver.Lib
import NoKVModel.Region.PD
import NoKVModel.Region.Cmd
import NoKVModel.Region.Catalog
import NoKVModel.Region.Topology

open NoKV NoKV.Region Driver

structure St where
  pdc : PDCfg := PDCfg.good
  cmdc : CmdCfg := CmdCfg.good
  catc : CatCfg := CatCfg.good
  topoc : TopoCfg := TopoCfg.good
  pd : PD := []
  /-- what pd/storage holds (`SaveRegion` = put by id, `DeleteRegion` = delete by id) -/
  pddisk : PD := []
  /-- a heartbeat's persist step failed earlier in this run: memory and disk may have diverged -/
  pdDirty : Bool := false
  /-- RegionHeartbeat keeps the accepted region in memory when SaveRegion fails (as the code does) -/
  pdKeepsOnFail : Bool := true
  cat : Catalog := []
  initCat : Catalog := []
  removed : List Meta := []

def splitList (s : String) (sep : String) : List String :=
  if s == "-" || s == "" then [] else s.splitOn sep

def metaStr (withState : Bool) (m : Meta) : String :=
  s!"{m.id}:{m.start.toHex}:{m.end_.toHex}:{m.epoch.ver}:{m.epoch.conf}" ++
    (if withState then s!":{m.state}" else "")

def snapStr (withState : Bool) (l : List Meta) : String :=
  let parts := (sortById l).map (metaStr withState)
  if parts.isEmpty then "-" else ";".intercalate parts

def parseMeta? (s : String) : Option Meta :=
  match s.splitOn ":" with
  | [i, a, b, v, c] => do
    let i ← natOf? i; let a ← bytesOf? a; let b ← bytesOf? b; let v ← natOf? v; let c ← natOf? c
    pure { id := i, start := a, end_ := b, epoch := ⟨v, c⟩ }
  | _ => none

def parseKind? (s : String) : Option Kind := Kind.ofString? s

def parseReq? (s : String) : Option Req :=
  match s.splitOn ":" with
  | [k, keys] => do
    let k ← parseKind? k
    let ks ← (splitList keys ",").mapM bytesOf?
    pure ⟨k, ks⟩
  | _ => none

def parseTransitions? (s : String) : Option (List (Nat × Nat)) :=
  (splitList s ",").mapM fun p =>
    match p.splitOn "-" with
    | [a, b] => do let a ← natOf? a; let b ← natOf? b; pure (a, b)
    | _ => none

def setCfg (st : St) (kv : String) : Option St :=
  match kv.splitOn "=" with
  | [k, v] =>
    match k with
    | "pd.rejectsInverted" => do let b ← boolOfString? v; pure { st with pdc := { st.pdc with rejectsInverted := b } }
    | "pd.staleVerOp" => do let o ← CmpOp.ofString? v; pure { st with pdc := { st.pdc with staleVerOp := o } }
    | "pd.staleConfOp" => do let o ← CmpOp.ofString? v; pure { st with pdc := { st.pdc with staleConfOp := o } }
    | "pd.overlapOp" => do let o ← CmpOp.ofString? v; pure { st with pdc := { st.pdc with overlapOp := o } }
    | "pd.failedPersistKeepsMemory" => do let b ← boolOfString? v; pure { st with pdKeepsOnFail := b }
    | "pd.lookupEndOp" => do let o ← CmpOp.ofString? v; pure { st with pdc := { st.pdc with lookupEndOp := o } }
    | "cmd.keyStartOp" => do let o ← CmpOp.ofString? v; pure { st with cmdc := { st.cmdc with keyStartOp := o } }
    | "cmd.keyEndOp" => do let o ← CmpOp.ofString? v; pure { st with cmdc := { st.cmdc with keyEndOp := o } }
    | "cmd.uncheckedKinds" => do
        let ks ← (splitList v ",").mapM parseKind?
        pure { st with cmdc := { st.cmdc with uncheckedKinds := ks } }
    | "cmd.unknownRejected" => do let b ← boolOfString? v; pure { st with cmdc := { st.cmdc with unknownRejected := b } }
    | "cmd.epochBothFields" => do let b ← boolOfString? v; pure { st with cmdc := { st.cmdc with epochBothFields := b } }
    | "cmd.trimEach" => do let b ← boolOfString? v; pure { st with cmdc := { st.cmdc with trimEach := b } }
    | "cmd.proposeScanTrimmed" => do let b ← boolOfString? v; pure { st with cmdc := { st.cmdc with proposeScanTrimmed := b } }
    | "cat.mergeRule" =>
        if v == "adjacent" then some { st with catc := { st.catc with mergeRule := .adjacent } }
        else if v == "extendEndOnly" then some { st with catc := { st.catc with mergeRule := .extendEndOnly } }
        else none
    | "cat.transitions" => do let t ← parseTransitions? v; pure { st with catc := { st.catc with transitions := t } }
    | "cat.splitStartOp" => do let o ← CmpOp.ofString? v; pure { st with catc := { st.catc with splitStartOp := o } }
    | "cat.splitEndOp" => do let o ← CmpOp.ofString? v; pure { st with catc := { st.catc with splitEndOp := o } }
    | "cat.splitBumpsVersion" => do let b ← boolOfString? v; pure { st with catc := { st.catc with splitBumpsVersion := b } }
    | "cat.mergeBumpsVersion" => do let b ← boolOfString? v; pure { st with catc := { st.catc with mergeBumpsVersion := b } }
    | "cat.persistFirst" => do let _ ← boolOfString? v; pure st     -- C24_reload's facts: proofs only; the
    | "man.snapshotAllRegions" => do let _ ← boolOfString? v; pure st  -- driver's reload is the identity they prove
    | "cat.memWriters" => some st
    | "man.regionReplay" => some st
    | "cat.loadSnapshot" => some st
    | "topo.chkTempl" => do let b ← boolOfString? v; pure { st with topoc := { st.topoc with chkTempl := b } }
    | "topo.chkDockerTempl" => do let b ← boolOfString? v; pure { st with topoc := { st.topoc with chkDockerTempl := b } }
    | "topo.chkStoreZero" => do let b ← boolOfString? v; pure { st with topoc := { st.topoc with chkStoreZero := b } }
    | "topo.chkStoreDup" => do let b ← boolOfString? v; pure { st with topoc := { st.topoc with chkStoreDup := b } }
    | "topo.chkRegionZero" => do let b ← boolOfString? v; pure { st with topoc := { st.topoc with chkRegionZero := b } }
    | "topo.chkLeaderKnown" => do let b ← boolOfString? v; pure { st with topoc := { st.topoc with chkLeaderKnown := b } }
    | "topo.chkPeerZero" => do let b ← boolOfString? v; pure { st with topoc := { st.topoc with chkPeerZero := b } }
    | "topo.chkPeerKnown" => do let b ← boolOfString? v; pure { st with topoc := { st.topoc with chkPeerKnown := b } }
    | _ => none
  | _ => none

/-- semantic "must reject" for a heartbeat, straight from the property statement -/
def hbMustReject (pd : PD) (m : Meta) : Bool :=
  m.id = 0 ||
  pd.any (fun cur => cur.id = m.id &&
    (m.epoch.ver < cur.epoch.ver || (m.epoch.ver == cur.epoch.ver && m.epoch.conf < cur.epoch.conf))) ||
  pd.any (fun o => o.id ≠ m.id && decide (proper m) && decide (proper o) && overlapG' m o)
where
  overlapG' (a b : Meta) : Bool :=
    if a.end_ ≠ [] ∧ Bytes.le a.end_ b.start then false
    else if b.end_ ≠ [] ∧ Bytes.le b.end_ a.start then false
    else true

def idsStr (l : List Meta) : String :=
  if l.isEmpty then "none" else ",".intercalate ((sortById l).map (fun m => toString m.id))

def parsePeers? (s : String) : Option (List TPeer) :=
  (splitList s ",").mapM fun p =>
    match p.splitOn "." with
    | [a, b] => do let a ← natOf? a; let b ← natOf? b; pure ⟨a, b⟩
    | _ => none

def parseRegions? (s : String) : Option (List TRegion) :=
  (splitList s ";").mapM fun r =>
    match r.splitOn "/" with
    | [i, l, ps] => do let i ← natOf? i; let l ← natOf? l; let ps ← parsePeers? ps; pure ⟨i, l, ps⟩
    | _ => none

def keysStr (ks : List Bytes) : String :=
  if ks.isEmpty then "-" else ",".intercalate (ks.map Bytes.toHex)

def okStr (b : Bool) : String := if b then "ok" else "err"

def step (st : St) (toks : List String) : St × String :=
  match toks with
  | "cfg" :: kvs =>
    match kvs.foldlM setCfg st with
    | some st' => (st', "ok")
    | none => (st, "bad-cfg")
  -- ---------------- C26
  | ["pd.hb", i, a, b, v, c] =>
    match parseMeta? s!"{i}:{a}:{b}:{v}:{c}" with
    | some m =>
      let (pd', r) := upsert st.pdc st.pd m
      let spec := if hbMustReject st.pd m then "rej:*" else "*"
      let disk' := if r == .ok then st.pddisk.filter (fun o => o.id ≠ m.id) ++ [m] else st.pddisk
      ({ st with pd := pd', pddisk := disk' }, (if r == .ok then "ok" else "rej:" ++ r.str) ++ "\t" ++ spec)
    | none => (st, "bad-op")
  | ["pd.hbfail", i, a, b, v, c] =>
    -- the same heartbeat, but the write to pd/storage fails: the caller gets an error; the code
    -- keeps what the in-memory catalog accepted (a later heartbeat persists it)
    match parseMeta? s!"{i}:{a}:{b}:{v}:{c}" with
    | some m =>
      let (pd', r) := upsert st.pdc st.pd m
      let spec := "rej:*"      -- never acknowledged: the write to storage failed (or the heartbeat was refused)
      if r == .ok then
        let mem := if st.pdKeepsOnFail then pd' else (remove pd' m.id).1
        ({ st with pd := mem, pdDirty := true }, "rej:persist\t" ++ spec)
      else (st, "rej:" ++ r.str ++ "\t" ++ spec)
    | none => (st, "bad-op")
  | ["pd.rm", i] =>
    match natOf? i with
    | some i =>
      let (pd', r) := remove st.pd i
      ({ st with pd := pd', pddisk := if r then st.pddisk.filter (fun o => o.id ≠ i) else st.pddisk }, toString r ++ "\t*")
    | none => (st, "bad-op")
  | ["pd.get", k] =>
    match bytesOf? k with
    | some k =>
      let r := match lookup st.pdc st.pd k with
        | some m => toString m.id
        | none => "none"
      -- after a failed persist a lookup may answer from the accepted (memory) or the durable version;
      -- the durable set may by then hold stale, overlapping records (they were never validated
      -- against each other): no claim when it does not name at most one region for the key
      let disk := specLookup st.pddisk k
      let spec := if !st.pdDirty then idsStr (specLookup st.pd k)
        else if disk.length ≤ 1 then
          (if idsStr disk != idsStr (specLookup st.pd k) then idsStr (specLookup st.pd k) ++ "|" ++ idsStr disk
           else idsStr (specLookup st.pd k))
        else "*"
      (st, r ++ "\t" ++ spec)
    | none => (st, "bad-op")
  | ["pd.snap"] => (st, snapStr false st.pd ++ "\t*")
  | ["pd.torn"] =>
    -- a restart after a crash that left a bare length prefix at the manifest tail: recovery drops
    -- the fragment, so it is a restart
    let pd' := restart st.pdc st.pddisk
    ({ st with pd := pd' },
      snapStr false pd' ++ "\t" ++ (if st.pdDirty then "*" else snapStr false st.pd))
  | ["pd.restart"] =>
    -- cmd/nokv/pd.go: load the persisted regions and re-upsert them in id order
    -- reply = catalog after the restart; spec = catalog before it ("reloads identically"),
    -- unless a persist step failed since the last restart (fault: outside the statement)
    -- (the flag stays set: records the fault left on disk can resurface at later restarts)
    let pd' := restart st.pdc st.pddisk
    ({ st with pd := pd' },
      snapStr false pd' ++ "\t" ++ (if st.pdDirty then "*" else snapStr false st.pd))
  -- ---------------- C25
  | ["cmd.validate", a, b, v, c, rv, rc, reqs] =>
    match parseMeta? s!"1:{a}:{b}:{v}:{c}", (splitList reqs ";").mapM parseReq? with
    | some m, some rs =>
      let e : Option Epoch := match natOf? rv, natOf? rc with
        | some x, some y => some ⟨x, y⟩
        | _, _ => none
      let r := validate st.cmdc m e rs
      let spec : Bool := decide (e = some m.epoch) &&
        rs.all (fun r => r.kind ≠ .other && r.keys.all (fun k => k = [] || decide (inRange m k)))
      (st, (if r then "ok" else "rej") ++ "\t" ++ (if spec then "ok" else "rej"))
    | _, _ => (st, "bad-op")
  | ["cmd.scanout", path, a, b, keys] =>
    match parseMeta? s!"1:{a}:{b}:1:1", (splitList keys ",").mapM bytesOf? with
    | some m, some ks =>
      let p := if path == "read" then Path.read else Path.propose
      let out := scanOut st.cmdc p m ks
      let spec := ks.filter (fun k => k = [] || decide (inRange m k))
      (st, keysStr out ++ "\t" ++ keysStr spec)
    | _, _ => (st, "bad-op")
  | ["cmd.scanbatch", path, a, b, resps] =>
    -- one batched command: sub-responses separated by ';' — "n" = not a scan result,
    -- "-" = empty scan result, otherwise the keys of a scan result
    let parseResp : String → Option (Option (List Bytes)) := fun r =>
      if r == "n" then some none else ((splitList r ",").mapM bytesOf?).map some
    match parseMeta? s!"1:{a}:{b}:1:1", (resps.splitOn ";").mapM parseResp with
    | some m, some rs =>
      let p := if path == "read" then Path.read else Path.propose
      let show_ : List (Option (List Bytes)) → String := fun l =>
        ";".intercalate (l.map (fun r => match r with | none => "n" | some ks => keysStr ks))
      let out := scanOutBatch st.cmdc p m rs
      let spec := rs.map (Option.map (fun ks => ks.filter (fun k => k = [] || decide (inRange m k))))
      (st, show_ out ++ "\t" ++ show_ spec)
    | _, _ => (st, "bad-op")
  -- ---------------- C24
  | ["cat.init", metas] =>
    match (splitList metas ";").mapM parseMeta? with
    | some ms =>
      let cat := ms.foldl (fun acc m => (update st.catc acc m).getD acc) []
      ({ st with cat := cat, initCat := cat, removed := [] }, "ok\t*")
    | none => (st, "bad-op")
  | ["cat.split", p, ci, ca, cb, cv, cc] =>
    -- "@" = the parent's current end key (resolved identically by the harness)
    let cb' := if cb == "@" then
        (match natOf? p with
         | some pid => (match find st.cat pid with
            | some pm => pm.end_.toHex
            | none => "-")
         | none => "-")
      else cb
    match natOf? p, parseMeta? s!"{ci}:{ca}:{cb'}:{cv}:{cc}" with
    | some p, some ch =>
      let r := cstep st.catc st.cat (.split p ch)
      ({ st with cat := r.1 }, okStr r.2 ++ "\t*")
    | _, _ => (st, "bad-op")
  | "cat.iofail" :: _ =>
    -- the wrapped operation runs with the next manifest append failing: whatever it is, it
    -- reports an error and the catalog stays as it was (updateRegion logs to the manifest
    -- before it touches the in-memory catalog)
    (st, "err\terr")
  | ["cat.rewrite"] => (st, "ok\tok")
  | ["cat.splitfail", _, _, _] =>
    -- a split whose child cannot be started on this store (no local replica): whatever the
    -- split key, the call fails and the parent is rolled back — the catalog is unchanged
    (st, "err\terr")
  | ["cat.merge", t, s] =>
    match natOf? t, natOf? s with
    | some t, some s =>
      let r := cstep st.catc st.cat (.merge t s)
      ({ st with cat := r.1 }, okStr r.2 ++ "\t*")
    | _, _ => (st, "bad-op")
  | ["cat.remove", i] =>
    match natOf? i with
    | some i =>
      let gone := (find st.cat i).toList
      let r := cstep st.catc st.cat (.remove i)
      ({ st with cat := r.1, removed := if r.2 then gone ++ st.removed else st.removed }, okStr r.2 ++ "\t*")
    | none => (st, "bad-op")
  | ["cat.state", i, s] =>
    match natOf? i, natOf? s with
    | some i, some s =>
      let r := cstep st.catc st.cat (.setState i s)
      ({ st with cat := r.1 }, okStr r.2 ++ "\t*")
    | _, _ => (st, "bad-op")
  | ["cat.snap"] => (st, snapStr true st.cat ++ "\t*")
  | ["cat.reopen"] => (st, snapStr true st.cat ++ "\t" ++ snapStr true st.cat)
  | ["cat.probe", k] =>
    match bytesOf? k with
    | some k =>
      let n := (st.cat.filter (fun m => decide (contains m k))).length
      let expect := decide (covers st.initCat k) && !(st.removed.any (fun m => decide (contains m k)))
      (st, s!"n={n}\tn={if expect then 1 else 0}")
    | none => (st, "bad-op")
  -- ---------------- C38
  | ["topo.validate", t1, t2, stores, regions] =>
    match bytesOf? t1, bytesOf? t2, (splitList stores ",").mapM natOf?, parseRegions? regions with
    | some t1, some t2, some ss, some rs =>
      let t : Topo := ⟨t1, t2, ss, rs⟩
      let r := validateTopo st.topoc t
      let spec := if decide (wellFormed t) then "ok" else "rej:*"
      (st, (if r == .ok then "ok" else "rej:" ++ r.str) ++ "\t" ++ spec)
    | _, _, _, _ => (st, "bad-op")
  | _ => (st, "bad-op")

def main : IO Unit := Driver.loop ({} : St) step

/-
Line-protocol driver for the Conc engine (C27 PD allocator, C20 latches, C33 directory lock,
C32 watermark).  Reply format: `<model>\t<spec>`; spec patterns: `*` anything, `a|b`
alternatives, `pre*` prefix.

Every op is executed by running micro-steps of the same `step` functions the theorems are about;
the driver only fixes a scheduling policy ("run thread t up to its next yield point").
-/
import Driver.Lib
import Driver.ConcPD
import Driver.ConcLatch
import Driver.ConcDirLock
import Driver.ConcWM

open Driver

structure CSt where
  pd : ConcPD.DSt := {}
  latch : ConcLatch.DSt := {}
  dl : ConcDirLock.DSt := {}
  wm : ConcWM.DSt := {}

def step (st : CSt) (toks : List String) : CSt × String :=
  match toks with
  | "cfg" :: kvs =>
    match kvs.foldlM (fun (s : CSt) kv =>
        match ConcPD.setCfg s.pd kv, ConcLatch.setCfg s.latch kv, ConcDirLock.setCfg s.dl kv, ConcWM.setCfg s.wm kv with
        | some p, some l, some dl, some wm => some { s with pd := p, latch := l, dl := dl, wm := wm }
        | _, _, _, _ => none) st with
    | some st' => (st', "ok")
    | none => (st, "bad-cfg")
  | op :: _ =>
    if op.startsWith "pd." then
      let (p, out) := ConcPD.step st.pd toks
      ({ st with pd := p }, out)
    else if op.startsWith "latch." then
      let (l, out) := ConcLatch.step st.latch toks
      ({ st with latch := l }, out)
    else if op.startsWith "dl." then
      let (l, out) := ConcDirLock.step st.dl toks
      ({ st with dl := l }, out)
    else if op.startsWith "wm." then
      let (l, out) := ConcWM.step st.wm toks
      ({ st with wm := l }, out)
    else (st, "bad-op")
  | [] => (st, "bad-op")

def main : IO Unit := Driver.loop ({} : CSt) step

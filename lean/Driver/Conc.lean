-- stub: replaced by the conc engine driver
def main : IO Unit := pure ()

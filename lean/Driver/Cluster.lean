-- stub: replaced by the cluster engine driver
def main : IO Unit := pure ()

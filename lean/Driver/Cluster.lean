/-
Line-protocol driver for the Cluster engine (C22, C23).
Reply format: `<model>\t<spec>`; spec patterns: `*` anything, `a|b` alternatives, `pre*` prefix.

Two op families share one model state:
  p.*   pipeline ops, answered by `NoKV.Cluster` (`Pipeline.lean`) directly;
  c.*   cluster ops: the raft-level schedule is not modelled, they answer `ok`; `c.verdict`
        reads the block of pipeline-level events the harness observed on the real cluster
        (file `$VERIF_CLUSTER_TRACE`, blocks separated by `--`) and replays it through the same
        model, answering with the model's (resp. the specification's) output for every event.
-/
import Driver.Lib
import NoKVModel.Cluster.Pipeline
import NoKVModel.Cluster.Validate
import NoKVModel.Cluster.ReadPath

open NoKV NoKV.Cluster Driver

structure St where
  pc : PipeCfg := PipeCfg.good
  vc : ValCfg := ValCfg.good
  rc : ReadCfg := ReadCfg.good
  sys : Sys := Sys.init
  taken : List (Nat × Nat) := []            -- (store, waiter) whose result was collected
  vals : List ((Nat × Nat) × String) := []  -- (store, region) ↦ register value
  rdvals : List (Nat × String) := []        -- read call ↦ value seen by the applier
  verdicts : Nat := 0

def num (toks : List String) (i : Nat) : Nat := ((toks[i]?).bind String.toNat?).getD 0

def validStore (s : Nat) : Bool := 1 ≤ s && s ≤ 3
def validRegion (r : Nat) : Bool := 1 ≤ r && r ≤ 2

def setCfg (st : St) (kv : String) : Option St :=
  match kv.splitOn "=" with
  | [k, v] =>
    match k with
    | "pipe.applyChecksProposer" => do let b ← boolOfString? v; pure { st with pc := { st.pc with matchProposer := st.pc.matchProposer && b } }
    | "propose.stampsProposer" => do let b ← boolOfString? v; pure { st with pc := { st.pc with matchProposer := st.pc.matchProposer && b } }
    | "peer.applyPartition" => pure { st with pc := { st.pc with applyEachOnce := v == "collectThenApplyOnce" } }
    | "pipe.completeDeletes" => do let b ← boolOfString? v; pure { st with pc := { st.pc with completeDeletes := b } }
    | "pipe.registerRejectsDup" => do let b ← boolOfString? v; pure { st with pc := { st.pc with regRejectsDup := b } }
    | "val.leaderOp" => do let o ← CmpOp.ofString? v; pure { st with vc := { st.vc with leaderOp := o } }
    | "val.leaderConst" => do let s ← RaftState.ofString? v; pure { st with vc := { st.vc with leaderConst := s } }
    | "val.rejectReturns" => do let b ← boolOfString? v; pure { st with vc := { st.vc with rejectReturns := b } }
    | "read.readIndexFirst" => do let b ← boolOfString? v; pure { st with rc := { st.rc with readIndexFirst := b } }
    | "read.waitsApplied" => do let b ← boolOfString? v; pure { st with rc := { st.rc with waitsApplied := b } }
    | _ => some st     -- shape-guard facts without a model variant
  | _ => none

def insertNat (n : Nat) : List Nat → List Nat
  | [] => [n]
  | x :: xs => if n ≤ x then n :: x :: xs else x :: insertNat n xs

def stateStr (p : PStore) : String :=
  let ids := ((p.waiters.filter (·.inMap)).map (·.id)).foldr insertNat []
  let pend := if ids.isEmpty then "-" else "+".intercalate (ids.map toString)
  s!"seq={p.seq};pend={pend}"

def entryStr (e : Entry) : String := s!"res={e.proposer}/{e.id}/{e.tag}"

def findWaiter (p : PStore) (w : Nat) : Option Waiter := p.waiters.find? (·.w == w)

def lookupVal (st : St) (s r : Nat) : String :=
  match st.vals.find? (fun kv => kv.1 == (s, r)) with
  | some kv => kv.2
  | none => "-"

/-- One pipeline-level op or event. `trace = true` additionally admits the observation-only
events of a cluster run (`v.val`, `r.*`). Returns (state, model output, spec pattern). -/
def pstep (trace : Bool) (st : St) (toks : List String) : St × String × String :=
  let s := num toks 1
  match toks.head? with
  | some "p.next" =>
    if !validStore s then (st, "bad-op", "bad-op") else
    let (σ, id) := nextId st.sys s
    ({ st with sys := σ }, s!"id={id}", "*")
  | some "p.skip" =>
    let n := num toks 2
    if !validStore s || n < 1 || n > 100000 then (st, "bad-op", "bad-op") else
    let p := st.sys.st s
    ({ st with sys := st.sys.set s { p with seq := p.seq + n } }, s!"id={p.seq + n}", "*")
  | some "p.reg" =>
    if !validStore s || toks.length < 5 then (st, "bad-op", "bad-op") else
    let id := num toks 2; let w := num toks 3; let tag := num toks 4
    if (findWaiter (st.sys.st s) w).isSome then (st, "bad-op", "bad-op") else
    if id == 0 then (st, "none", "*") else
    let (σ, ok) := register st.pc st.sys s id w tag
    -- a registration made through the direct op stands for a proposal of (s, id, tag)
    let σ := if ok then { σ with proposed := σ.proposed ++ [⟨s, id, tag⟩] } else σ
    ({ st with sys := σ }, if ok then "ok" else "dup", "*")
  | some "p.apply" =>
    if !validStore s || toks.length < 7 || !validRegion (num toks 2) || !validStore (num toks 4) then
      (st, "bad-op", "bad-op") else
    let r := num toks 2
    let e : Entry := ⟨num toks 4, num toks 3, num toks 5⟩
    let σ := if e.id == 0 then
        -- completeProposal ignores id 0
        st.sys.set s { st.sys.st s with alog := (st.sys.st s).alog ++ [e] }
      else applyOne st.pc s st.sys e
    let vals := if toks[6]? == some "ok" then ((s, r), toString e.tag) :: st.vals.filter (fun kv => kv.1 != (s, r)) else st.vals
    ({ st with sys := σ, vals := if trace then vals else st.vals }, "ok", "ok")
  | some "p.poll" =>
    if !validStore s || toks.length < 3 then (st, "bad-op", "bad-op") else
    let w := num toks 2
    match findWaiter (st.sys.st s) w with
    | none => (st, "none", "none")
    | some x =>
      if st.taken.contains (s, w) then (st, "closed", "closed") else
      let own : Entry := ⟨s, x.id, x.tag⟩
      let spec := if (st.sys.st s).alog.contains own then entryStr own ++ "|pending" else "pending"
      match x.got with
      | [] => (st, "pending", spec)
      | e :: _ => ({ st with taken := (s, w) :: st.taken }, entryStr e, spec)
  | some "p.rm" =>
    if !validStore s || toks.length < 3 then (st, "bad-op", "bad-op") else
    let id := num toks 2
    ({ st with sys := if id == 0 then st.sys else remove st.sys s id }, "ok", "ok")
  | some "p.restart" =>
    -- a new process image of the store: `newCommandPipeline` (counter 0, empty map); the
    -- clients of the old image are gone.  Observation-only: only a cluster run restarts stores.
    if !trace || !validStore s then (st, "bad-op", "bad-op") else
    ({ st with sys := restart st.sys s }, "ok", "ok")
  | some "p.state" =>
    if !validStore s then (st, "bad-op", "bad-op") else
    (st, stateStr (st.sys.st s), "*")
  | some "v.val" =>
    -- v.val store kind regionId metaFound epochOk keysOk peerPresent raftState
    if !trace then (st, "bad-op", "bad-op") else
    match (toks[8]?).bind RaftState.ofString? with
    | none => (st, "bad-op", "bad-op")
    | some rs =>
      let i : ValIn := ⟨num toks 3, num toks 4 == 1, num toks 5 == 1, num toks 6 == 1, num toks 7 == 1, rs⟩
      let out (c : ValCfg) : String := if proceeds c i then "served" else (validateCommand c i).toString
      (st, out st.vc, out ValCfg.good)
  | some "r.begin" => if !trace then (st, "bad-op", "bad-op") else (st, "ok", "ok")
  | some "r.exec" =>
    if !trace then (st, "bad-op", "bad-op") else
    let v := lookupVal st s (num toks 2)
    ({ st with rdvals := (num toks 3, v) :: st.rdvals }, "val=" ++ v, "*")
  | some "r.end" =>
    if !trace then (st, "bad-op", "bad-op") else
    match st.rdvals.find? (fun kv => kv.1 == num toks 3) with
    | some kv => (st, "val=" ++ kv.2, "*")
    | none => (st, "err", "*")
  | _ => (st, "bad-op", "bad-op")

/-- does a model output satisfy a spec pattern (same language as the harness) -/
def specAllows (spec out : String) : Bool :=
  spec == "*" || (spec.splitOn "|").any fun alt =>
    if alt.endsWith "*" then out.startsWith (alt.dropEnd 1).toString else alt == out

def oraclesOk : String := "agree=ok,once=ok,lin=ok,stamp=ok,run=ok"

/-- replay one block of observed events; the spec string shows the model's output wherever
that output satisfies the event's specification and `want:<pattern>` where it does not -/
def replay (st : St) (lines : List String) : St × String × String :=
  let (st, ms, ss) := lines.foldl (fun (acc : St × List String × List String) l =>
    let (st, ms, ss) := acc
    let (st', m, sp) := pstep true st (tokens l)
    let shown := if specAllows sp m then m else "want:" ++ ((sp.splitOn "|").headD sp)
    (st', m :: ms, shown :: ss)) (st, [], [])
  let n := toString ms.length
  (st, n ++ ":" ++ ",".intercalate ms.reverse ++ "#" ++ oraclesOk,
       n ++ ":" ++ ",".intercalate ss.reverse ++ "#" ++ oraclesOk)

def nthBlock (content : String) (k : Nat) : List String :=
  let lines := (content.splitOn "\n").filter (· ≠ "")
  let rec go (ls : List String) (k : Nat) (cur : List String) : List String :=
    match ls with
    | [] => if k == 0 then cur.reverse else []
    | l :: rest =>
      if l == "--" then (if k == 0 then cur.reverse else go rest (k - 1) [])
      else go rest k (l :: cur)
  go lines k []

def clusterOp (toks : List String) : String :=
  let a := num toks 1; let b := num toks 2
  match toks.head? with
  | some "c.campaign" => if validRegion a && validStore b then "ok" else "bad-op"
  | some "c.tick" => if validRegion a && validStore b then "ok" else "bad-op"
  | some "c.pump" => "ok"
  | some "c.deliver" => "ok"
  | some "c.drop" => "ok"
  | some "c.dup" => "ok"
  | some "c.iso" => if validStore a then "ok" else "bad-op"
  | some "c.heal" => "ok"
  | some "c.wait" => "ok"
  | some "c.proposeP" => if validStore a && validRegion b then "ok" else "bad-op"
  | some "c.admin" => if validStore a && validRegion b then "ok" else "bad-op"
  | some "c.stopread" => if validStore a && validRegion b then "ok" else "bad-op"
  | some "c.cfg" => "ok"
  | some "c.gate" => if validStore a then "ok" else "bad-op"
  | some "c.step" => if validStore a then "ok" else "bad-op"
  | some "c.open" => if validStore a then "ok" else "bad-op"
  | some "c.hold" => if validStore a && validStore b then "ok" else "bad-op"
  | some "c.release" => "ok"
  | some "c.elect" => if validRegion a then "ok" else "bad-op"
  | some "c.proposeL" => if validRegion a then "ok" else "bad-op"
  | some "c.restart" => if validStore a then "ok" else "bad-op"
  | some "c.propose" => if validStore a && validRegion b then "ok" else "bad-op"
  | some "c.read" => if validStore a && validRegion b then "ok" else "bad-op"
  | some "c.replicaread" => if validStore a && validRegion b then "ok" else "bad-op"
  | some "c.probe" => if validStore a && toks.length ≥ 6 then "ok" else "bad-op"
  | _ => "bad-op"

def stepIO (st : St) (toks : List String) : IO (St × String) := do
  match toks with
  | "cfg" :: kvs =>
    match kvs.foldlM setCfg st with
    | some st' => pure (st', "ok")
    | none => pure (st, "bad-cfg")
  | ["c.verdict"] =>
    let path := (← IO.getEnv "VERIF_CLUSTER_TRACE").getD ""
    let content ← (try IO.FS.readFile path catch _ => pure "")
    let block := nthBlock content st.verdicts
    let (st', m, s) := replay st block
    pure ({ st' with verdicts := st.verdicts + 1 }, m ++ "\t" ++ s)
  | _ =>
    match toks.head? with
    | some h =>
      if h.startsWith "c." then
        let r := clusterOp toks
        pure (st, r ++ "\t" ++ r)
      else
        let (st', m, s) := pstep false st toks
        pure (st', m ++ "\t" ++ s)
    | none => pure (st, "bad-op\tbad-op")

partial def mainLoop (s : St) : IO Unit := do
  let stdin ← IO.getStdin
  let stdout ← IO.getStdout
  let line ← stdin.getLine
  if line.isEmpty then return ()
  let toks := tokens line
  match toks with
  | ["reset"] =>
    stdout.putStrLn "ok"
    stdout.flush
    mainLoop {}
  | _ =>
    let (s', out) ← stepIO s toks
    stdout.putStrLn out
    stdout.flush
    mainLoop s'

def main : IO Unit := mainLoop {}

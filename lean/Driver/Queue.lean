-- stub: replaced by the queue engine driver
def main : IO Unit := pure ()

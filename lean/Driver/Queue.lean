/-
Line-protocol driver for the commit-queue engine (C34, C37).
Reply format: `<model>\t<spec>`; spec patterns: `*` anything, `a|b` alternatives.

The model is the small-step system of `NoKVModel/Queue/Model.lean`; the driver plays the
schedule a sequential test harness induces: after every op line it lets every client and the
worker run until nothing but the environment can move (`settle`).

ops (t = client slot 0..7, keys/values hex, "-" = empty):
  open cap=.. mbc=.. mbs=.. wbc=.. wbs=.. hot=.. vt=..   fresh DB with these options
  set t k v | del t k | get t k    issue the call; reply = its result, or `pending`
  await t                          result of a call that was pending (or `none`)
  throttle on|off                  L0 throttle callback; `off` lets pending calls finish
  close                            DB.Close, then pending calls finish
  conc … | live …                  free-running validation workloads (real code only): the
                                   expected canonical outcome is fixed
-/
import Driver.Lib
import NoKVModel.Queue.Model
import NoKVModel.Queue.HandshakeModel
import NoKVModel.Queue.CloserModel
import NoKVModel.Queue.PackModel
import NoKVModel.Queue.CompactModel

open NoKV NoKV.Queue Driver

structure DSt where
  cfg : QCfg := QCfg.good
  hcfg : HCfg := HCfg.good
  wcfg : CCfg := CCfg.good
  /-- slots whose outstanding request the LSM will reject -/
  poison : List Nat := []
  /-- the harness holds db.Lock(): the worker is parked in applyRequests -/
  held : Bool := false
  pcfg : PCfg := PCfg.good
  kcfg : KCfg := KCfg.good
  /-- L0 reservation machine of a throttle-liveness case (`open … l0=<NumLevelZeroTables>`) -/
  kst : KSt := {}
  l0limit : Nat := 0
  /-- something was written since the last flush -/
  dirty : Bool := false
  /-- MemTableSize of a small-memtable case (0 = large, packing never decides anything) -/
  mt : Nat := 0
  /-- the commit worker is spinning in SetBatch: nothing returns any more -/
  dead : Bool := false
  /-- the case was opened with Options.MemTableSize = 0 -/
  mtZero : Bool := false
  /-- false when the cfg line does not carry q.getClosed (C37 runs: for a `Get` after Close only
      "it returned" matters there, both sides print `returned`) -/
  getKnown : Bool := false
  p : Params := {}
  s : St := St.init 8
  /-- results of calls that finished while nobody was waiting for them -/
  parked : List (Nat × String) := []
  /-- slots whose call was still pending when `close` was issued -/
  atClose : List Nat := []
  /-- slots with a call whose result has not been reported yet -/
  outstanding : List Nat := []
  /-- the abstract map the property is stated against: acknowledged writes, in order -/
  spec : Store := []

def resStr : Res → String
  | .ok => "ok"
  | .val v => "val:" ++ Bytes.toHex v
  | .notfound => "notfound"
  | .emptykey => "emptykey"
  | .hot => "hot"
  | .toobig => "toobig"
  | .blocked => "blocked"
  | .closedErr => "closed"
  | .ioerr => "ioerr"
  | .panic => "panic"

def setCfg (st : DSt) (kv : String) : Option DSt :=
  match kv.splitOn "=" with
  | [k, v] =>
    match k with
    | "q.tooBigCountOp" => do let o ← CmpOp.ofString? v; pure { st with cfg := { st.cfg with tooBigCountOp := o } }
    | "q.tooBigSizeOp" => do let o ← CmpOp.ofString? v; pure { st with cfg := { st.cfg with tooBigSizeOp := o } }
    | "q.batchCountOp" => do let o ← CmpOp.ofString? v; pure { st with cfg := { st.cfg with batchCountOp := o } }
    | "q.batchSizeOp" => do let o ← CmpOp.ofString? v; pure { st with cfg := { st.cfg with batchSizeOp := o } }
    | "q.thrLoopChecksClosed" => do let b ← boolOfString? v; pure { st with cfg := { st.cfg with thrLoopChecksClosed := b } }
    | "q.closeReleasesThrottle" => do let b ← boolOfString? v; pure { st with cfg := { st.cfg with closeReleasesThrottle := b } }
    | "q.singleWorker" => do let b ← boolOfString? v; pure { st with cfg := { st.cfg with singleWorker := b } }
    | "q.fifoPop" => do let b ← boolOfString? v; pure { st with cfg := { st.cfg with fifoPop := b } }
    | "q.ackAfterApply" => do let b ← boolOfString? v; pure { st with cfg := { st.cfg with ackAfterApply := b } }
    | "q.pathOrderStd" => do let b ← boolOfString? v; pure { st with cfg := { st.cfg with pathOrderStd := b } }
    | "q.closeOrderStd" => do let b ← boolOfString? v; pure { st with cfg := { st.cfg with closeOrderStd := b } }
    | "q.enqChecksClosed" => do let b ← boolOfString? v; pure { st with cfg := { st.cfg with enqChecksClosed := b } }
    | "q.applyStopsAtFailure" => do let b ← boolOfString? v; pure { st with cfg := { st.cfg with applyStopsAtFailure := b } }
    | "q.waitErrKeepsRef" => do let b ← boolOfString? v; pure { st with cfg := { st.cfg with waitErrKeepsRef := b } }
    | "q.vlogScratchLocal" => do let _ ← boolOfString? v; pure st   -- pinned fact, not a model parameter
    | "q.getDeletedStd" => do let b ← boolOfString? v; pure { st with cfg := { st.cfg with getDeletedStd := b } }
    | "lsm.compactReleasesReservation" => do let b ← boolOfString? v; pure { st with kcfg := { releaseOnFail := b } }
    | "q.enqFailKeepsRef" => do let b ← boolOfString? v; pure { st with cfg := { st.cfg with enqFailKeepsRef := b } }
    | "q.getClosed" =>
      if v == "notfound" then some { st with getKnown := true, cfg := { st.cfg with getClosed := .notfound } }
      else if v == "closedErr" then some { st with getKnown := true, cfg := { st.cfg with getClosed := .closedErr } }
      else none
    | "lsm.batchFitOp" => do let o ← CmpOp.ofString? v; pure { st with pcfg := { st.pcfg with fitOp := o } }
    | "lsm.rotateGuardOp" => do let o ← CmpOp.ofString? v; pure { st with pcfg := { st.pcfg with guardOp := o } }
    | "lsm.sizeDefaulted" => do let b ← boolOfString? v; pure { st with pcfg := { st.pcfg with sizeDefaulted := b } }
    | "lsm.oversizeAlone" => do let b ← boolOfString? v; pure { st with pcfg := { st.pcfg with oversizeAlone := b } }
    | "q.getGuard" => do let b ← boolOfString? v; pure { st with wcfg := { st.wcfg with getGuard := b } }
    | "q.exitCheckOrder" =>
      if v == "queueLenFirst" then some { st with hcfg := { st.hcfg with exitOrder := .queueLenFirst } }
      else if v == "inflightFirst" then some { st with hcfg := { st.hcfg with exitOrder := .inflightFirst } }
      else none
    | _ => none
  | _ => none

/-- one round: every client as far as it can go, then the worker through one whole batch -/
def round (c : QCfg) (p : Params) (poison : List Nat) (held : Bool) (s : St) : St × Bool := Id.run do
  let mut s := s
  let mut moved := false
  for t in [0:s.clients.length] do
    for _ in [0:8] do
      match step c p s (.cstep t) with
      | some s' => s := s'; moved := true
      | none => break
  if held then
    -- the worker is parked inside applyRequests (the harness holds db.Lock): it can still pop
    -- the first request of a batch when it was idle, nothing else
    match step c p s .wpop with
    | some s' => return (s', true)
    | none => return (s, moved)
  match step c p s .wpop with
  | some s' => s := s'; moved := true
  | none => pure ()
  if s.wph == .collect || s.wph == .applying || s.wph == .failing || s.wph == .acking then
    moved := true
    for _ in [0:4096] do
      match step c p s .wmore with
      | some s' => s := s'
      | none => break
    for _ in [0:4096] do
      -- a poisoned request (its LSM write is rejected) fails, and with it the rest of the batch
      let a := match s.batch with
        | t :: _ => if poison.contains t || s.wph == .failing then Act.wfail else Act.wapply
        | [] => Act.wapply
      match step c p s a with
      | some s' => s := s'
      | none => break
    for _ in [0:4096] do
      match step c p s .wack with
      | some s' => s := s'
      | none => break
  match step c p s .wexit with
  | some s' => s := s'; moved := true
  | none => pure ()
  return (s, moved)

/-- finish the batch the worker already holds (apply / fail, then acknowledge), taking no
further request into it -/
def finishBatch (c : QCfg) (p : Params) (poison : List Nat) (s : St) : St := Id.run do
  let mut s := s
  for _ in [0:4096] do
    let a := match s.batch with
      | t :: _ => if poison.contains t || s.wph == .failing then Act.wfail else Act.wapply
      | [] => Act.wapply
    match step c p s a with
    | some s' => s := s'
    | none => break
  for _ in [0:4096] do
    match step c p s .wack with
    | some s' => s := s'
    | none => break
  return s

def settle (c : QCfg) (p : Params) (poison : List Nat) (held : Bool) (s : St) : St := Id.run do
  let mut s := s
  for _ in [0:64] do
    let (s', moved) := round c p poison held s
    s := s'
    if !moved then break
  return s

/-- the last result returned to slot `t` -/
def lastRet (h : List Ev) (t : Nat) : Option Res :=
  h.reverse.findSome? fun
    | .ret t' r => if t' = t then some r else none
    | _ => none

def isIdle (s : St) (t : Nat) : Bool :=
  match s.clients[t]? with
  | some cl => cl.pc == .idle
  | none => true

/-- results of outstanding calls that have returned meanwhile: park them, and apply the
acknowledged writes to the abstract map (in completion order = slot order within one settle) -/
def harvest (st : DSt) (skip : Option Nat := none) : DSt := Id.run do
  let mut st := st
  for t in st.outstanding do
    if isIdle st.s t then
      let r0 := (lastRet st.s.hist t).getD .panic
      -- the poisoned request is sent through a hook, not setEntry: it gets the plain error
      let r := if st.poison.contains t && r0 == .panic then Res.ioerr else r0
      let op := match st.s.clients[t]? with | some cl => cl.op | none => .get []
      if r == .ok && op.isWrite then
        st := { st with spec := (applyOp st.spec op).2, dirty := true }
      let raced := st.atClose.contains t && !st.cfg.enqFailKeepsRef && (r == .blocked || r == .panic)
      let str := if raced then "closed-race" else resStr r
      st := { st with outstanding := st.outstanding.erase t, atClose := st.atClose.erase t, poison := st.poison.erase t }
      if skip != some t then
        st := { st with parked := (t, str) :: st.parked }
  return st

def specRead (st : DSt) (k : Key) : String :=
  -- concurrent (pending) writes to the same key may or may not have taken effect
  let cur := resStr (Store.read st.spec k)
  let alts := st.outstanding.filterMap fun t =>
    match st.s.clients[t]? with
    | some cl => if cl.pc != .idle && cl.op.isWrite && cl.op.key == k then
        some (resStr (Store.read (applyOp st.spec cl.op).2 k)) else none
    | none => none
  let vals := "|".intercalate (cur :: alts)
  -- the empty key is not a key: a read of it may be refused (the register spec has no such cell)
  let vals := if k == [] then "emptykey|" ++ vals else vals
  if st.s.clPc ≥ 1 then "closed|" ++ vals else vals

def specWrite (st : DSt) : String :=
  if st.s.clPc = 4 then "blocked|hot|toobig|emptykey|closed"
  else "ok|hot|toobig|blocked|emptykey|ioerr|pending"

def doCall (st : DSt) (t : Nat) (op : Op) : DSt × String :=
  -- a zero memtable budget: the first write that reaches the LSM wedges the commit worker
  if st.mtZero && effSize st.pcfg 0 == 0 && op.isWrite && op.key != [] && st.s.clPc == 0 then
    ({ st with dead := true }, "stuck\tok")
  else if !(isIdle st.s t) || st.outstanding.contains t || st.parked.any (fun e => e.1 == t) then (st, "busy\t*")
  else
    let specCol := if op.isWrite then specWrite st else specRead st op.key
    match step st.cfg st.p st.s (.call t op) with
    | none => (st, "bad-slot\t*")
    | some s1 =>
      let s2 := settle st.cfg st.p st.poison st.held s1
      let st := { st with s := s2, outstanding := st.outstanding ++ [t] }
      if isIdle s2 t then
        let r0 := (lastRet s2.hist t).getD .panic
        let r := if st.poison.contains t && r0 == .panic then Res.ioerr else r0
        let st := harvest st (skip := some t)
        -- `harvest` already applied an acknowledged write of slot t
        if !op.isWrite && !st.getKnown && s2.clPc ≥ 3 && op.key != [] then (st, "returned\treturned")
        else (st, resStr r ++ "\t" ++ specCol)
      else
        (harvest st, "pending\t" ++ specCol)

def parseNatKV (toks : List String) (k : String) (d : Nat) : Nat :=
  match kv? toks k with
  | some v => (natOf? v).getD d
  | none => d

def stepD (st : DSt) (toks : List String) : DSt × String :=
  if st.dead && toks.head? != some "cfg" && toks.head? != some "open" then (st, "skipped\t*") else
  match toks with
  | "cfg" :: kvs =>
    match kvs.foldlM setCfg st with
    | some st' => (st', "ok")
    | none => (st, "bad-cfg")
  | "open" :: kvs =>
    let p : Params := {
      cap := parseNatKV kvs "cap" 1024, maxBatchCount := parseNatKV kvs "mbc" 64,
      maxBatchSize := parseNatKV kvs "mbs" 1048576, wbCount := parseNatKV kvs "wbc" 64,
      wbSize := parseNatKV kvs "wbs" 1048576, hotLimit := parseNatKV kvs "hot" 0,
      valThreshold := parseNatKV kvs "vt" 1024 }
    ({ st with p := p, s := St.init 8, parked := [], atClose := [], outstanding := [], spec := [],
               mt := parseNatKV kvs "mt" 0, dead := false, poison := [], held := false, kst := {}, l0limit := parseNatKV kvs "l0" 0, dirty := false, mtZero := parseNatKV kvs "mtzero" 0 == 1 }, "ok\t*")
  -- `setfill t k free delta`: a write whose size estimate is (free space of the active
  -- memtable, as reported by the implementation) + delta - 2^20; the value stays inline
  | ["setfill", t, k, free, d] =>
    match natOf? t, bytesOf? k, natOf? free, natOf? d with
    | some t, some k, some free, some d =>
      if st.dead then (st, "skipped\t*")
      else if st.mt == 0 then (st, "needs-open\t*")
      else
        let est := free + d - 1048576
        let wal := st.mt - free
        if st.mt > 0 && packDone st.pcfg st.mt wal est == false then
          ({ st with dead := true }, "stuck\tok")
        else
          let (st', out) := doCall st t (.set k [0x66])
          (st', out)
    | _, _, _, _ => (st, "bad-op")
  | ["hold"] => if st.s.clPc ≥ 1 || st.held then (st, "bad-op\t*") else ({ st with held := true }, "ok\t*")
  | ["release"] =>
    let st := { st with held := false }
    let st := harvest { st with s := settle st.cfg st.p st.poison false (finishBatch st.cfg st.p st.poison st.s) }
    (st, "ok\t*")
  | ["poison", t] =>
    match natOf? t with
    | some t =>
      if !(isIdle st.s t) || st.outstanding.contains t || st.parked.any (fun e => e.1 == t) then (st, "busy\t*")
      else
        let (st', out) := doCall { st with poison := t :: st.poison } t (.set [0xde, 0xad] [0x78])
        (st', (out.splitOn "\t").head! ++ "\tioerr|blocked|toobig|pending")
    | none => (st, "bad-op")
  -- memtable rotation + flush: no effect on what any call returns
  | ["flush"] =>
    (if st.dirty then { st with dirty := false, kst := { st.kst with l0 := st.kst.l0 + 1 } } else st, "ok\tok")
  -- AdjustThrottle: L0 table count against the watermarks; the result drives the write throttle
  | ["adjust"] =>
    if st.l0limit == 0 then (st, "needs-open\t*") else
    if st.s.clPc ≥ 1 then (st, "bad-op\t*") else
    let k := adjust st.l0limit { st.kst with thr := st.s.throttle }
    let a := if k.thr then Act.thrOn else Act.thrOff
    let st := { st with kst := k }
    let specCol := if k.l0 ≤ st.l0limit then "off" else if k.l0 ≥ 2 * st.l0limit then "on" else "on|off"
    if k.thr == st.s.throttle then (st, (if k.thr then "on" else "off") ++ "\t" ++ specCol)
    else
      match step st.cfg st.p st.s a with
      | some s1 =>
        let st := harvest { st with s := settle st.cfg st.p st.poison st.held s1 }
        (st, (if k.thr then "on" else "off") ++ "\t" ++ specCol)
      | none => (st, "ignored\t*")
  -- one L0 -> ingest move during which a manifest write fails
  | ["compact", "fail"] =>
    if st.l0limit == 0 then (st, "needs-open\t*") else
    if st.s.clPc ≥ 1 then (st, "bad-op\t*") else
    match kstep st.kcfg st.l0limit st.kst .cstart with
    | none => (st, "nothing\t*")
    | some k1 =>
      match kstep st.kcfg st.l0limit k1 .cfail with
      | some k2 => ({ st with kst := k2 }, "failed\tfailed")
      | none => (st, "bad-op")
  -- healthy L0 -> ingest moves until L0 is at or below the low watermark
  | ["drainl0"] =>
    if st.l0limit == 0 then (st, "needs-open\t*") else
    if st.s.clPc ≥ 1 then (st, "bad-op\t*") else
    if st.kst.l0 ≤ st.l0limit then (st, "drained\tdrained")
    else
      match kstep st.kcfg st.l0limit st.kst .cstart with
      | none => (st, "undrained\tdrained")
      | some _ => ({ st with kst := { st.kst with l0 := st.l0limit, reserved := false, moving := false } }, "drained\tdrained")
  -- Close (if still open) and Open on the same directory: contents stay, everything else is fresh
  | ["reopen"] =>
    if st.outstanding != [] then (st, "busy\t*")
    else ({ st with s := { (St.init 8) with store := st.s.store }, parked := [], atClose := [],
                     poison := [], held := false }, "ok\tok")
  | ["set", t, k, v] =>
    match natOf? t, bytesOf? k, bytesOf? v with
    | some t, some k, some v => doCall st t (.set k v)
    | _, _, _ => (st, "bad-op")
  | ["del", t, k] =>
    match natOf? t, bytesOf? k with
    | some t, some k => doCall st t (.del k)
    | _, _ => (st, "bad-op")
  | ["get", t, k] =>
    match natOf? t, bytesOf? k with
    | some t, some k => doCall st t (.get k)
    | _, _ => (st, "bad-op")
  | ["await", t] =>
    match natOf? t with
    | some t =>
      match st.parked.find? (fun e => e.1 == t) with
      | some (_, r) =>
        ({ st with parked := st.parked.filter (fun e => e.1 != t) }, r ++ "\t" ++
          (if st.s.clPc ≥ 1 then "ok|blocked|hot|toobig|ioerr|closed" else "ok|blocked|hot|toobig|ioerr"))
      | none => (st, (if st.outstanding.contains t then "pending" else "none") ++ "\t*")
    | none => (st, "bad-op")
  | ["throttle", onoff] =>
    let a := if onoff == "on" then Act.thrOn else Act.thrOff
    match step st.cfg st.p st.s a with
    | some s1 =>
      let st := harvest { st with s := settle st.cfg st.p st.poison st.held s1 }
      (st, "ok\t*")
    | none => (st, "ignored\t*")
  | ["close"] =>
    let st := { st with atClose := st.outstanding, held := false,
                        s := if st.held then finishBatch st.cfg st.p st.poison st.s else st.s }
    -- Close runs to completion: queue closed, worker drains and exits, lsm closed, flag set;
    -- calls parked in the throttle loop finish on the way
    let s := Id.run do
      let mut s := st.s
      for _ in [0:8] do
        match step st.cfg st.p s .close with
        | some s' => s := settle st.cfg st.p st.poison st.held s'
        | none => s := settle st.cfg st.p st.poison st.held s
      return s
    let st := harvest { st with s := s }
    (st, (if s.clPc = 4 then "ok" else "stuck") ++ "\tok")
  -- free-running validation workloads: executed on the real code only
  | "conc" :: _ => (st, "lin-ok\tlin-ok")
  | "live" :: _ => (st, "all-returned\tall-returned")
  -- Get racing with Close on the Closer wait group (Queue/CloserModel.lean): the stress op
  -- repeats the race until Close panics or its rounds are used up
  | "wgrace" :: _ =>
    let acts := if st.wcfg.getGuard then [WAct.radd 0, .cstart, .cwait, .rdone 0, .cresume] else wgRace
    let out := match wrun st.wcfg (WSt.init 2) acts with
      | some w => wOutcome w
      | none => "bad-schedule"
    (st, out ++ "\tclose-returned")
  -- the fine-grained close/worker-exit protocol (Queue/HandshakeModel.lean)
  | "hs" :: sched =>
    match sched.mapM HAct.ofString? with
    | some acts =>
      let out := match hrun st.hcfg HSt.init acts with
        | some h => hOutcome h
        | none => "bad-schedule"
      (st, out ++ "\t" ++ (if out == "bad-schedule" then "*" else "worker-exited:clean|worker-running"))
    | none => (st, "bad-op")
  | _ => (st, "bad-op")

def main : IO Unit := Driver.loop ({} : DSt) stepD

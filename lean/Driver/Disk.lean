-- stub: replaced by the disk engine driver
def main : IO Unit := pure ()

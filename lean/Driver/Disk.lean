/-
Line-protocol driver for the Disk engine (C09, C10, C12).
Reply format: `<model>\t<spec>`; spec patterns: `*` anything, `a|b` alternatives, `pre*` prefix.

The model column is the prediction of `NoKVModel/Disk/Model.lean` (steps of every procedure in
the order given by the extracted configuration, crash = stop before the k-th file operation of
the named code path, recovery = `recover`).  The spec column states the property directly on
the recovered contents (acknowledged ⇒ present; prefix of accepted batches, atomic, readable;
clean reopen = everything) and never looks at the model's step lists.
-/
import Driver.Lib
import NoKVModel.Disk.Model
import NoKVModel.Disk.Sizes

open NoKV NoKV.Disk Driver

def probeKey : Nat := 999999

structure DSt where
  cfg : Cfg := Cfg.good
  prop : String := "C10"
  st : St := {}
  by_ : ByteSt := {}
  line : Nat := 0
  kill : Option (String × Nat × Nat) := none
  dead : Option String := none
  closed : Bool := false
  opened : Bool := false      -- an `open` line was seen (static well-formedness of the case)
  killSeen : Bool := false
  recSeen : Bool := false
  acked : List Nat := []          -- bids whose call returned
  started : List (Nat × Nat) := []   -- (bid, #entries) of every transaction that entered the pipeline
  rewriteEvery : Bool := false       -- ManifestRewriteThreshold = 1: every manifest edit is followed by a rewrite
  parked : Option (Nat × List Step) := none        -- `ptxn`: (line, steps left) of the commit parked before its `sync:wal`
  queued : List (Nat × List ESz) := []             -- `ptxn`: requests waiting behind the parked commit (one batch)
  deriving Repr

def setCfg (d : DSt) (kv : String) : Option DSt :=
  match kv.splitOn "=" with
  | [k, v] =>
    match k with
    | "db.commitOrder" =>
      if v == "vlog,apply,sync,ack" then some { d with cfg := { d.cfg with ackAfterSync := true } }
      else if v == "vlog,apply,ack,sync" then some { d with cfg := { d.cfg with ackAfterSync := false } }
      else none
    | "db.applyOrder" =>
      if v == "head,lsm" then some { d with cfg := { d.cfg with headFirst := true } }
      else if v == "lsm,head" then some { d with cfg := { d.cfg with headFirst := false } }
      else none
    | "lsm.batchSplit" =>
      if v == "whole" then some { d with cfg := { d.cfg with batchWhole := true } }
      else if v == "split" then some { d with cfg := { d.cfg with batchWhole := false } }
      else none
    | "wal.batchAppend" =>
      if v == "atomic" then some { d with cfg := { d.cfg with atomicAppend := true } }
      else if v == "perRecord" then some { d with cfg := { d.cfg with atomicAppend := false } }
      else none
    | "flush.order" =>
      if v == "sst,manifest,remove" then some { d with cfg := { d.cfg with flushOrder := .sstManifestRemove } }
      else if v == "sst,remove,manifest" then some { d with cfg := { d.cfg with flushOrder := .sstRemoveManifest } }
      else if v == "manifest,sst,remove" then some { d with cfg := { d.cfg with flushOrder := .manifestSstRemove } }
      else none
    | "close.order" =>
      if v == "flush,sync,close" then some { d with cfg := { d.cfg with closeFlushesWal := true } }
      else if v == "sync,close" then some { d with cfg := { d.cfg with closeFlushesWal := false } }
      else none
    | "vlog.headPersistRule" =>
      if v == "zero,fidchange,delta" then some { d with cfg := { d.cfg with headOnFidChange := true } }
      else if v == "zero,delta" then some { d with cfg := { d.cfg with headOnFidChange := false } }
      else none
    | "reconcile.rule" =>
      if v == "dropAboveMaxValid" then some { d with cfg := { d.cfg with reconcileDrops := true } }
      else if v == "keep" then some { d with cfg := { d.cfg with reconcileDrops := false } }
      else none
    -- facts without a model alternative: only the shape the model was written for is accepted
    | "db.closeOrder" => if v == "commit,lsm,vlog,wal" then some d else none
    | "db.openOrder" => if v == "verify,wal,lsm,maxver,vlog,seed,commit" then some d else none
    | "wal.switchOrder" => if v == "flush,sync,close,open" then some d else none
    | "wal.syncOrder" => if v == "flush,sync" then some d else none
    | "vlog.writeOrder" => if v == "append,sync" then some d else none
    | "recovery.logPointerOp" => if v == "le" then some d else none
    | "recovery.fidAllocator" => if v == "raise" then some d else none
    | "db.headPerRequest" => if v == "perRequest" then some d else none
    | "manifest.rewriteOrder" => if v == "current,remove" then some d else none
    | "wal.recordBound" => if v == "none" then some d else none
    | "lsm.flushWorkers" => if v == "1" then some d else none   -- the model installs flushes in segment order
    | "oracle.seedOp" =>
      if v == "ge" then some { d with cfg := { d.cfg with seedGe := true } }
      else if v == "gt" then some { d with cfg := { d.cfg with seedGe := false } }
      else none
    | "oracle.seed" =>
      -- "<sources>;<plus>"  e.g. mem,imm,tables;plus1
      match v.splitOn ";" with
      | [src, plus] =>
        let ss := src.splitOn ","
        some { d with cfg := { d.cfg with seedMem := ss.contains "mem" && ss.contains "imm",
                                          seedTables := ss.contains "tables",
                                          seedPlusOne := plus == "plus1" } }
      | _ => none
    | _ => none
  | _ => none

/-- parse `k<id>=<len>[e]:<est>:<plen>:<vlen>` / `k<id>=del:...` -/
def parseEnt? (t : String) : Option ESz :=
  match t.splitOn ":" with
  | [kv, est, plen, vlen] =>
    match kv.splitOn "=" with
    | [k, _] => do
      let id ← natOf? (k.drop 1).toString
      let est ← natOf? est
      let plen ← natOf? plen
      let vlen ← natOf? vlen
      pure { ent := ⟨id, vlen != 0, plen + 9⟩, est := est, plen := plen, vlen := vlen }
    | _ => none
  | _ => none

def joinC (l : List String) : String := ",".intercalate l

structure Walk where
  st : St
  evs : List String := []
  dead : Option String := none
  rest : List Step := []      -- steps not executed because the walk stopped at `stopAt`

/-- execute steps until the k-th file operation of `path` on this line (kill) or the end -/
def walk (path : String) (kill : Option (String × Nat × Nat)) (line : Nat) (count0 : Nat) (st : St) (steps : List Step)
    (stopAt : Option String := none) : Walk :=
  let rec go (w : Walk) (cnt : Nat) : List Step → Walk
    | [] => w
    | s :: r =>
      match s.event w.st with
      | some ev =>
        if stopAt == some ev then { w with rest := s :: r } else
        let cnt' := cnt + 1
        let hit := match kill with
          | some (p, l, k) => p == path && l == line && k == cnt'
          | none => false
        if hit then { w with dead := some (path ++ "." ++ ev) }
        else go { w with st := exec w.st s, evs := w.evs ++ [ev] } cnt' r
      | none => go { w with st := exec w.st s } cnt r
  go { st := st } count0 steps

/-- with `ManifestRewriteThreshold = 1` every manifest edit is followed by a rewrite of the manifest
(`manifest/manager.go:rewriteLocked`: snapshot file written, synced, closed; CURRENT.tmp written,
synced, renamed over CURRENT; old manifest closed, snapshot reopened, old manifest removed).  In
this order no prefix of it changes what `Open` sees, so the steps are effect-free. -/
def rewriteNops : List Step :=
  ["open:manifest", "write:manifest", "sync:manifest", "close:manifest", "open:current", "write:current",
   "sync:current", "close:current", "rename:current", "close:manifest", "open:manifest", "remove:manifest"].map Step.nop

def decorate (rw : Bool) : List Step → List Step
  | [] => []
  | s :: r => if rw && s == Step.nop "sync:manifest" then s :: (rewriteNops ++ decorate rw r) else s :: decorate rw r

/-- flush every immutable memtable (FIFO), as the flush worker does once the foreground call returned -/
def flushAll (c : Cfg) (kill : Option (String × Nat × Nat)) (line : Nat) (st : St) (rw : Bool := false) : Walk :=
  let ids := immIds st.segs
  ids.foldl (fun (w : Walk) id =>
    match w.dead with
    | some _ => w
    | none =>
      let w2 := walk "F" kill line w.evs.length w.st (decorate rw (flushSteps c id))
      { st := w2.st, evs := w.evs ++ w2.evs, dead := w2.dead }) { st := st }

/-! ### canonical dump of a recovered / reopened store and the specification verdicts -/

def insertNat (a : Nat) : List Nat → List Nat
  | [] => [a]
  | x :: r => if a < x then a :: x :: r else if a = x then x :: r else x :: insertNat a r

def totalOf (started : List (Nat × Nat)) (bid : Nat) : Option Nat :=
  (started.find? (fun p => p.1 == bid)).map (·.2)

structure Grp where
  ver : Nat
  bid : Nat
  present : Nat
  dangling : Nat
  total : Option Nat

def insertPair (a : Nat × Nat) : List (Nat × Nat) → List (Nat × Nat)
  | [] => [a]
  | x :: r =>
    if a.1 < x.1 || (a.1 == x.1 && a.2 < x.2) then a :: x :: r
    else if a == x then x :: r else x :: insertPair a r

/-- one group per (version, writing transaction) -/
def groups (c : Cfg) (st : St) (started : List (Nat × Nat)) : List Grp :=
  let recs := (written st).filter (fun r => r.key != probeKey)
  let ids := recs.foldl (fun acc r => insertPair (r.ver, r.bid) acc) []
  ids.map fun (v, b) =>
    let rs := recs.filter (fun r => r.ver == v && r.bid == b)
    { ver := v, bid := b, present := (rs.filter (readable c st)).length,
      dangling := (rs.filter (fun r => !readable c st r)).length, total := totalOf started b }

def grpStr (g : Grp) : String :=
  let t := match g.total with
    | some n => toString n
    | none => "?"
  s!"v{g.ver}:{g.present}/{t}" ++ (if g.dangling > 0 then s!"!d{g.dangling}" else "")

def grpFull (g : Grp) : Bool := g.total == some (g.present + g.dangling)

/-- `acked=`: acknowledged batches that are not completely present and readable -/
def ackedVerdict (sync : Bool) (acked : List Nat) (gs : List Grp) : String :=
  if !sync then "na" else
  let lost := acked.filter (fun b => !(gs.any (fun g => g.bid == b && g.total == some g.present)))
  if lost.isEmpty then "ok" else s!"lost:{lost.length}"

/-- `c10=`: contents are a prefix of the accepted batches, batches atomic, every value readable -/
def c10Verdict (started : List (Nat × Nat)) (gs : List Grp) : String :=
  let partial_ := gs.any (fun g => !grpFull g)
  -- started batches in order; `has b` = some entry of b is present
  let has := fun (b : Nat) => gs.any (fun g => g.bid == b)
  let rec gap : Bool → List (Nat × Nat) → Bool
    | _, [] => false
    | missingBefore, (b, _) :: r => (missingBefore && has b) || gap (missingBefore || !has b) r
  let dang := gs.any (fun g => g.dangling > 0)
  let reasons := (if partial_ then ["partial"] else []) ++ (if gap false started then ["gap"] else []) ++
    (if dang then ["dangling"] else [])
  if reasons.isEmpty then "ok" else "bad:" ++ "+".intercalate reasons

def fullVerdict (started : List (Nat × Nat)) (gs : List Grp) : String :=
  if started.all (fun (b, n) => gs.any (fun g => g.bid == b && g.present == n && g.dangling == 0)) then "ok" else "no"

def rawStr (gs : List Grp) : String :=
  if gs.isEmpty then "empty" else " ".intercalate (gs.map grpStr)

def dumpLine (prop : String) (sync : Bool) (acked : List Nat) (started : List (Nat × Nat)) (gs : List Grp) (killed : String) : String :=
  let a := "acked=" ++ ackedVerdict sync acked gs
  let c := "c10=" ++ c10Verdict started gs
  let f := "full=" ++ fullVerdict started gs
  let fields := if prop == "C09" then [a, c, f] else if prop == "C12" then [f, c, a] else [c, a, f]
  "open=ok " ++ " ".intercalate fields ++ " raw=[" ++ rawStr gs ++ "] reads=ok killed=" ++ killed

def dumpSpec (prop : String) (clean : Bool) : String :=
  if prop == "C09" then "open=ok acked=ok*|open=ok acked=na*"
  else if prop == "C12" then (if clean then "open=ok full=ok c10=ok*" else "open=ok*")
  else if clean then "open=ok c10=ok acked=ok full=ok*|open=ok c10=ok acked=na full=ok*"   -- no crash since the last open: the prefix is everything
  else "open=ok c10=ok*"

def reopen (d : DSt) (killed : String) (clean : Bool) : DSt × String :=
  let st1 := recover d.cfg d.st
  let gs := groups d.cfg st1 d.started
  let out := dumpLine d.prop d.st.sync d.acked d.started gs killed
  -- immutable memtables recovered from the WAL are flushed right after open
  let w := flushAll d.cfg none d.line st1 d.rewriteEvery
  -- after a crash the next versions may be reused by later transactions: only what survived counts as started
  let started' := d.started.filter (fun (b, _) => gs.any (fun g => g.bid == b))
  -- `walSize` of the memtable that becomes active again = bytes of the records replayed into it
  let lastWal := match st1.segs.getLast? with
    | some sg => (sg.recs.map (·.wlen)).foldl (· + ·) 0
    | none => 0
  ({ d with st := w.st, dead := none, closed := false, started := started',
            acked := d.acked.filter (fun b => gs.any (fun g => g.bid == b)),
            by_ := { d.by_ with walN := 0, memWal := lastWal,
                                vMap := d.by_.vOff } },
   out ++ "\t" ++ dumpSpec d.prop clean)

/-- the decorated steps of one single-request commit and the byte state after it -/
def commitPlan (d : DSt) (line : Nat) (es : List ESz) (ver? : Option Nat) : List Step × ByteSt :=
  let lastIsActive := d.st.lastHead == some d.st.vactive
  let (decs, delta, by1) := decide_ d.cfg d.by_ lastIsActive es
  let steps0 := commitSteps d.cfg d.st line decs delta
  let steps1 := match ver?, steps0 with
    | some v, a :: r => a :: Step.resume line v :: r
    | _, l => l
  (decorate d.rewriteEvery steps1, by1)

def byAfter (d : DSt) (by1 : ByteSt) (evs : List String) : ByteSt :=
  { by1 with walN := if d.st.sync then 0 else by1.walN,
             headOff := if evs.contains "write:manifest" then by1.vOff else by1.headOff }

/-- one commit batch of several requests (`db_write.go:commitWorker`): `vlog.write` for all of them,
then per request `updateHead` / `writeToLSM` (in the configured order), one `wal.Sync`, the acks -/
def batchWalk (d : DSt) (line : Nat) (cnt0 : Nat) (reqs : List (Nat × List ESz)) : Walk × ByteSt :=
  let c := d.cfg
  let ts0 := d.st.nextTs
  -- decisions request by request (the byte accounting of the value log and of the WAL is sequential)
  let (plans, byF) := reqs.foldl (fun (acc : List (Nat × List (Ent × Dec) × Bool) × ByteSt) (lr : Nat × List ESz) =>
      let (decs, delta, b') := decide_ c acc.2 false lr.2
      (acc.1 ++ [(lr.1, decs, delta)], b')) ([], d.by_)
  let vlogPart := plans.flatMap (fun (l, decs, _) => Step.accept l (decs.map (·.1)) :: vlogSteps decs)
  let w0 := walk "C" d.kill line cnt0 d.st vlogPart
  let idx := List.range plans.length
  let w1 := (plans.zip idx).foldl (fun (w : Walk) (pi : (Nat × List (Ent × Dec) × Bool) × Nat) =>
      match w.dead with
      | some _ => w
      | none =>
        let (l, decs, delta) := pi.1
        let head := headSteps c (decs.any (·.1.big)) w.st.lastHead w.st.vactive delta
        let lsm := lsmSteps c true decs
        let steps := decorate d.rewriteEvery (Step.resume l (ts0 + pi.2) :: (if c.headFirst then head ++ lsm else lsm ++ head))
        let w' := walk "C" d.kill line (cnt0 + w.evs.length) w.st steps
        { st := w'.st, evs := w.evs ++ w'.evs, dead := w'.dead }) w0
  let w2 := match w1.dead with
    | some _ => w1
    | none =>
      let tail := (if d.st.sync then [Step.wSync, Step.nop "sync:wal"] else []) ++ [Step.ack]
      let w' := walk "C" d.kill line (cnt0 + w1.evs.length) w1.st tail
      { st := w'.st, evs := w1.evs ++ w'.evs, dead := w'.dead }
  (w2, byF)

def step (d0 : DSt) (toks : List String) : DSt × String :=
  match toks with
  | "cfg" :: kvs =>
    match kvs.foldlM setCfg d0 with
    | some d => (d, "ok")
    | none => (d0, "bad-cfg")
  | _ =>
  let d := { d0 with line := d0.line + 1 }
  let line := d0.line
  let isDead := d.dead.isSome
  match toks with
  | ["prop", p] => ({ d with prop := p }, "ok\t*")
  | ["wait", _] => (d, (if isDead then "-" else "ok") ++ "\t*")
  | ["maint", "rotate"] =>
    -- the active memtable is sealed (WAL segment switch) and flushed: the new one is empty
    if !d.opened then (d, "malformed\t*") else
    if isDead then (d, "-\t*") else
    if d.closed then (d, "nodb\t*") else
      let st1 := execAll d.st [Step.wSync, Step.nop "sync:wal", Step.nop "close:wal", Step.mRotate]
      let wf := flushAll d.cfg none line st1 d.rewriteEvery
      ({ d with st := wf.st, by_ := { d.by_ with walN := 0, memWal := 0 } }, "done\tdone")
  | ["maint", _] =>
    -- a compaction step moves / rewrites tables; what the database holds does not change
    if !d.opened then (d, "malformed\t*") else
    if isDead then (d, "-\t*") else
    if d.closed then (d, "nodb\t*") else (d, "done\tdone")
  | "open" :: args =>
    if d.opened then (d, "malformed\t*") else
    let sync := (kv? args "sync").bind natOf? |>.getD 0
    let mt := (kv? args "mt").bind natOf? |>.getD 0
    let vf := (kv? args "vf").bind natOf? |>.getD 0
    let mr := (kv? args "mr").bind natOf? |>.getD 0
    ({ d with rewriteEvery := mr == 1, opened := true, st := { sync := sync != 0 }, by_ := { mt := mt, vf := vf, vMap := vf } }, "ok\t*")
  | ["kill", p, l, k] =>
    if d.killSeen || !d.opened then ({ d with killSeen := true }, "malformed\t*") else
    match natOf? l, natOf? k with
    | some l, some k => ({ d with killSeen := true, kill := some (p, l, k) }, (if isDead then "-" else "armed") ++ "\t*")
    | _, _ => (d, "bad-op")
  | "txn" :: ents =>
    if !d.opened then (d, "malformed\t*") else
    if isDead then (d, "- c=[] f=[]\t*") else
    if d.closed then (d, "nodb c=[] f=[]\t*") else
    match ents.mapM parseEnt? with
    | none => (d, "bad-op")
    | some es =>
      let (steps, by1) := commitPlan d line es none
      let w := walk "C" d.kill line 0 d.st steps
      let by2 := byAfter d by1 w.evs
      let started := d.started ++ [(line, es.length)]
      match w.dead with
      | some k =>
        ({ d with st := w.st, dead := some k, started := started, by_ := by2 },
         s!"- c=[{joinC w.evs}] f=[]\t*")
      | none =>
        let wf := flushAll d.cfg d.kill line w.st d.rewriteEvery
        ({ d with st := wf.st, dead := wf.dead, started := started, acked := d.acked ++ [line], by_ := by2 },
         s!"ack c=[{joinC w.evs}] f=[{joinC wf.evs}]\t*")
  | "vtxn" :: v :: ents =>
    -- a transaction whose entries carry their own (lower) version (`kv.Entry.Version` through Txn.SetEntry)
    if !d.opened then (d, "malformed\t*") else
    if isDead then (d, "- c=[] f=[]\t*") else
    if d.closed then (d, "nodb c=[] f=[]\t*") else
    match natOf? v, ents.mapM parseEnt? with
    | some v, some es =>
      let (steps, by1) := commitPlan d line es (some v)
      let w := walk "C" d.kill line 0 d.st steps
      let by2 := byAfter d by1 w.evs
      let started := d.started ++ [(line, es.length)]
      match w.dead with
      | some k =>
        ({ d with st := w.st, dead := some k, started := started, by_ := by2 },
         s!"- c=[{joinC w.evs}] f=[]\t*")
      | none =>
        let wf := flushAll d.cfg d.kill line w.st d.rewriteEvery
        ({ d with st := wf.st, dead := wf.dead, started := started, acked := d.acked ++ [line], by_ := by2 },
         s!"ack c=[{joinC w.evs}] f=[{joinC wf.evs}]\t*")
    | _, _ => (d, "bad-op")
  | "ptxn" :: ents =>
    -- asynchronous commits: the first one is parked right before its `sync:wal` (the commit worker
    -- is held there), the following ones queue up behind it and form ONE commit batch at `join`
    if !d.opened then (d, "malformed\t*") else
    if isDead then (d, "- c=[]\t*") else
    if d.closed then (d, "nodb c=[]\t*") else
    match ents.mapM parseEnt? with
    | none => (d, "bad-op")
    | some es =>
      let started := d.started ++ [(line, es.length)]
      match d.parked with
      | some _ => ({ d with queued := d.queued ++ [(line, es)], started := started }, "started c=[]\t*")
      | none =>
        let (steps, by1) := commitPlan d line es none
        let w := walk "C" d.kill line 0 d.st steps (some "sync:wal")
        let by2 := byAfter d by1 w.evs
        match w.dead with
        | some k => ({ d with st := w.st, dead := some k, started := started, by_ := by2 }, s!"- c=[{joinC w.evs}]\t*")
        | none => ({ d with st := w.st, started := started, by_ := by2, parked := some (line, w.rest) },
                   s!"started c=[{joinC w.evs}]\t*")
  | ["join"] =>
    if !d.opened then (d, "malformed\t*") else
    if isDead then (d, "- c=[] f=[]\t*") else
    if d.closed then (d, "nodb c=[] f=[]\t*") else
    match d.parked with
    | none => (d, "acks=0 c=[] f=[]\t*")
    | some (pl, rest) =>
      let w := walk "C" d.kill line 0 d.st rest
      match w.dead with
      | some k => ({ d with st := w.st, dead := some k, parked := none, queued := [] }, s!"- c=[{joinC w.evs}] f=[]\t*")
      | none =>
        let d1 := { d with st := w.st, acked := d.acked ++ [pl], parked := none }
        let (wb, byF) := if d.queued.isEmpty then (({ st := w.st } : Walk), d.by_) else batchWalk d1 line w.evs.length d.queued
        let evs := w.evs ++ wb.evs
        let byF2 := { byF with walN := if d.st.sync then 0 else byF.walN,
                               headOff := if wb.evs.contains "write:manifest" then byF.vOff else byF.headOff }
        match wb.dead with
        | some k => ({ d1 with st := wb.st, dead := some k, queued := [], by_ := byF2 }, s!"- c=[{joinC evs}] f=[]\t*")
        | none =>
          let wf := flushAll d.cfg d.kill line wb.st d.rewriteEvery
          ({ d1 with st := wf.st, dead := wf.dead, queued := [], by_ := byF2,
                     acked := d1.acked ++ d.queued.map (·.1) },
           s!"acks={1 + d.queued.length} c=[{joinC evs}] f=[{joinC wf.evs}]\t*")
  | ["close"] =>
    if !d.opened then (d, "malformed\t*") else
    if isDead then (d, "- x=[]\t*") else
    if d.closed then (d, "nodb x=[]\t*") else
      let w := walk "X" d.kill line 0 d.st (closeSteps d.cfg d.st)
      match w.dead with
      | some k => ({ d with st := w.st, dead := some k }, s!"- x=[{joinC w.evs}]\t*")
      | none => ({ d with st := w.st, closed := true, by_ := { d.by_ with walN := 0 } }, s!"ok x=[{joinC w.evs}]\t*")
  | ["recover"] =>
    if d.recSeen || !d.opened then ({ d with recSeen := true }, "malformed\t*") else
    -- the victim is dead (or dies here, between two calls); a second process opens the directory
    let killed := match d.dead with
      | some k => k
      | none => if d.closed then "none" else "N.now"
    let (d', out) := reopen { d with recSeen := true } killed (d.dead.isNone && d.closed)
    ({ d' with kill := none }, out)
  | ["reopen"] =>
    if !d.opened then (d, "malformed\t*") else
    if isDead then (d, "-\t*") else
    if d.closed then reopen d "none" true else (d, "still-open\t*")
  | ["probe", est, plen] =>
    if !d.opened then (d, "malformed\t*") else
    if isDead then (d, "-\t*") else
    if d.closed then (d, "nodb\t*") else
    match natOf? est, natOf? plen with
    | some est, some plen =>
      let mv := maxVer ((written d.st).filter (fun r => r.key != probeKey))
      let nt := d.st.nextTs
      let rel := if nt > mv then s!"gt:+{nt - mv}" else s!"le:+-{mv - nt}"
      let e : ESz := { ent := ⟨probeKey, false, plen + 9⟩, est := est, plen := plen, vlen := 0 }
      let (decs, delta, by1) := decide_ d.cfg d.by_ false [e]
      let w := walk "C" none line 0 d.st (decorate d.rewriteEvery (commitSteps d.cfg d.st line decs delta))
      let wf := flushAll d.cfg none line w.st d.rewriteEvery
      let spec := if d.prop == "C12" then "probe=gt*" else "*"
      ({ d with st := wf.st, by_ := { by1 with walN := if d.st.sync then 0 else by1.walN } }, s!"probe={rel}\t{spec}")
    | _, _ => (d, "bad-op")
  | _ => (d, "bad-op")

def main : IO Unit := Driver.loop ({} : DSt) step

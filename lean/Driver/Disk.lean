/-
Line-protocol driver for the Disk engine (C09, C10, C12).
Reply format: `<model>\t<spec>`; spec patterns: `*` anything, `a|b` alternatives, `pre*` prefix.

The model column is the prediction of `NoKVModel/Disk/Model.lean` (steps of every procedure in
the order given by the extracted configuration, crash = stop before the k-th file operation of
the named code path, recovery = `recover`).  The spec column states the property directly on
the recovered contents (acknowledged ⇒ present; prefix of accepted batches, atomic, readable;
clean reopen = everything) and never looks at the model's step lists.
-/
import Driver.Lib
import NoKVModel.Disk.Model
import NoKVModel.Disk.Sizes

open NoKV NoKV.Disk Driver

def probeKey : Nat := 999999

structure DSt where
  cfg : Cfg := Cfg.good
  prop : String := "C10"
  st : St := {}
  by_ : ByteSt := {}
  line : Nat := 0
  kill : Option (String × Nat × Nat) := none
  dead : Option String := none
  closed : Bool := false
  opened : Bool := false      -- an `open` line was seen (static well-formedness of the case)
  killSeen : Bool := false
  recSeen : Bool := false
  acked : List Nat := []          -- bids whose call returned
  started : List (Nat × Nat) := []   -- (bid, #entries) of every transaction that entered the pipeline
  deriving Repr

def setCfg (d : DSt) (kv : String) : Option DSt :=
  match kv.splitOn "=" with
  | [k, v] =>
    match k with
    | "db.commitOrder" =>
      if v == "vlog,apply,sync,ack" then some { d with cfg := { d.cfg with ackAfterSync := true } }
      else if v == "vlog,apply,ack,sync" then some { d with cfg := { d.cfg with ackAfterSync := false } }
      else none
    | "db.applyOrder" =>
      if v == "head,lsm" then some { d with cfg := { d.cfg with headFirst := true } }
      else if v == "lsm,head" then some { d with cfg := { d.cfg with headFirst := false } }
      else none
    | "lsm.batchSplit" =>
      if v == "whole" then some { d with cfg := { d.cfg with batchWhole := true } }
      else if v == "split" then some { d with cfg := { d.cfg with batchWhole := false } }
      else none
    | "wal.batchAppend" =>
      if v == "atomic" then some { d with cfg := { d.cfg with atomicAppend := true } }
      else if v == "perRecord" then some { d with cfg := { d.cfg with atomicAppend := false } }
      else none
    | "flush.order" =>
      if v == "sst,manifest,remove" then some { d with cfg := { d.cfg with flushOrder := .sstManifestRemove } }
      else if v == "sst,remove,manifest" then some { d with cfg := { d.cfg with flushOrder := .sstRemoveManifest } }
      else if v == "manifest,sst,remove" then some { d with cfg := { d.cfg with flushOrder := .manifestSstRemove } }
      else none
    | "close.order" =>
      if v == "flush,sync,close" then some { d with cfg := { d.cfg with closeFlushesWal := true } }
      else if v == "sync,close" then some { d with cfg := { d.cfg with closeFlushesWal := false } }
      else none
    | "vlog.headPersistRule" =>
      if v == "zero,fidchange,delta" then some { d with cfg := { d.cfg with headOnFidChange := true } }
      else if v == "zero,delta" then some { d with cfg := { d.cfg with headOnFidChange := false } }
      else none
    | "reconcile.rule" =>
      if v == "dropAboveMaxValid" then some { d with cfg := { d.cfg with reconcileDrops := true } }
      else if v == "keep" then some { d with cfg := { d.cfg with reconcileDrops := false } }
      else none
    -- facts without a model alternative: only the shape the model was written for is accepted
    | "db.closeOrder" => if v == "commit,lsm,vlog,wal" then some d else none
    | "db.openOrder" => if v == "verify,wal,lsm,maxver,vlog,seed,commit" then some d else none
    | "wal.switchOrder" => if v == "flush,sync,close,open" then some d else none
    | "wal.syncOrder" => if v == "flush,sync" then some d else none
    | "vlog.writeOrder" => if v == "append,sync" then some d else none
    | "recovery.logPointerOp" => if v == "le" then some d else none
    | "recovery.fidAllocator" => if v == "raise" then some d else none
    | "oracle.seedOp" =>
      if v == "ge" then some { d with cfg := { d.cfg with seedGe := true } }
      else if v == "gt" then some { d with cfg := { d.cfg with seedGe := false } }
      else none
    | "oracle.seed" =>
      -- "<sources>;<plus>"  e.g. mem,imm,tables;plus1
      match v.splitOn ";" with
      | [src, plus] =>
        let ss := src.splitOn ","
        some { d with cfg := { d.cfg with seedMem := ss.contains "mem" && ss.contains "imm",
                                          seedTables := ss.contains "tables",
                                          seedPlusOne := plus == "plus1" } }
      | _ => none
    | _ => none
  | _ => none

/-- parse `k<id>=<len>[e]:<est>:<plen>:<vlen>` / `k<id>=del:...` -/
def parseEnt? (t : String) : Option ESz :=
  match t.splitOn ":" with
  | [kv, est, plen, vlen] =>
    match kv.splitOn "=" with
    | [k, _] => do
      let id ← natOf? (k.drop 1).toString
      let est ← natOf? est
      let plen ← natOf? plen
      let vlen ← natOf? vlen
      pure { ent := ⟨id, vlen != 0, plen + 9⟩, est := est, plen := plen, vlen := vlen }
    | _ => none
  | _ => none

def joinC (l : List String) : String := ",".intercalate l

structure Walk where
  st : St
  evs : List String := []
  dead : Option String := none

/-- execute steps until the k-th file operation of `path` on this line (kill) or the end -/
def walk (path : String) (kill : Option (String × Nat × Nat)) (line : Nat) (count0 : Nat) (st : St) (steps : List Step) : Walk :=
  let rec go (w : Walk) (cnt : Nat) : List Step → Walk
    | [] => w
    | s :: r =>
      match s.event w.st with
      | some ev =>
        let cnt' := cnt + 1
        let hit := match kill with
          | some (p, l, k) => p == path && l == line && k == cnt'
          | none => false
        if hit then { w with dead := some (path ++ "." ++ ev) }
        else go { w with st := exec w.st s, evs := w.evs ++ [ev] } cnt' r
      | none => go { w with st := exec w.st s } cnt r
  go { st := st } count0 steps

/-- flush every immutable memtable (FIFO), as the flush worker does once the foreground call returned -/
def flushAll (c : Cfg) (kill : Option (String × Nat × Nat)) (line : Nat) (st : St) : Walk :=
  let ids := immIds st.segs
  ids.foldl (fun (w : Walk) id =>
    match w.dead with
    | some _ => w
    | none =>
      let w2 := walk "F" kill line w.evs.length w.st (flushSteps c id)
      { st := w2.st, evs := w.evs ++ w2.evs, dead := w2.dead }) { st := st }

/-! ### canonical dump of a recovered / reopened store and the specification verdicts -/

def insertNat (a : Nat) : List Nat → List Nat
  | [] => [a]
  | x :: r => if a < x then a :: x :: r else if a = x then x :: r else x :: insertNat a r

def totalOf (started : List (Nat × Nat)) (bid : Nat) : Option Nat :=
  (started.find? (fun p => p.1 == bid)).map (·.2)

structure Grp where
  ver : Nat
  bid : Nat
  present : Nat
  dangling : Nat
  total : Option Nat

def groups (c : Cfg) (st : St) (started : List (Nat × Nat)) : List Grp :=
  let recs := (written st).filter (fun r => r.key != probeKey)
  let vers := recs.foldl (fun acc r => insertNat r.ver acc) []
  vers.map fun v =>
    let rs := recs.filter (fun r => r.ver == v)
    let bid := match rs with
      | r :: _ => r.bid
      | [] => 0
    { ver := v, bid := bid, present := (rs.filter (readable c st)).length,
      dangling := (rs.filter (fun r => !readable c st r)).length, total := totalOf started bid }

def grpStr (g : Grp) : String :=
  let t := match g.total with
    | some n => toString n
    | none => "?"
  s!"v{g.ver}:{g.present}/{t}" ++ (if g.dangling > 0 then s!"!d{g.dangling}" else "")

def grpFull (g : Grp) : Bool := g.total == some (g.present + g.dangling)

/-- `acked=`: acknowledged batches that are not completely present and readable -/
def ackedVerdict (sync : Bool) (acked : List Nat) (gs : List Grp) : String :=
  if !sync then "na" else
  let lost := acked.filter (fun b => !(gs.any (fun g => g.bid == b && g.total == some g.present)))
  if lost.isEmpty then "ok" else s!"lost:{lost.length}"

/-- `c10=`: contents are a prefix of the accepted batches, batches atomic, every value readable -/
def c10Verdict (started : List (Nat × Nat)) (gs : List Grp) : String :=
  let partial_ := gs.any (fun g => !grpFull g)
  -- started batches in order; `has b` = some entry of b is present
  let has := fun (b : Nat) => gs.any (fun g => g.bid == b)
  let rec gap : Bool → List (Nat × Nat) → Bool
    | _, [] => false
    | missingBefore, (b, _) :: r => (missingBefore && has b) || gap (missingBefore || !has b) r
  let dang := gs.any (fun g => g.dangling > 0)
  let reasons := (if partial_ then ["partial"] else []) ++ (if gap false started then ["gap"] else []) ++
    (if dang then ["dangling"] else [])
  if reasons.isEmpty then "ok" else "bad:" ++ "+".intercalate reasons

def fullVerdict (started : List (Nat × Nat)) (gs : List Grp) : String :=
  if started.all (fun (b, n) => gs.any (fun g => g.bid == b && g.present == n && g.dangling == 0)) then "ok" else "no"

def rawStr (gs : List Grp) : String :=
  if gs.isEmpty then "empty" else " ".intercalate (gs.map grpStr)

def dumpLine (prop : String) (sync : Bool) (acked : List Nat) (started : List (Nat × Nat)) (gs : List Grp) (killed : String) : String :=
  let a := "acked=" ++ ackedVerdict sync acked gs
  let c := "c10=" ++ c10Verdict started gs
  let f := "full=" ++ fullVerdict started gs
  let fields := if prop == "C09" then [a, c, f] else if prop == "C12" then [f, c, a] else [c, a, f]
  "open=ok " ++ " ".intercalate fields ++ " raw=[" ++ rawStr gs ++ "] reads=ok killed=" ++ killed

def dumpSpec (prop : String) (clean : Bool) : String :=
  if prop == "C09" then "open=ok acked=ok*|open=ok acked=na*"
  else if prop == "C12" then (if clean then "open=ok full=ok c10=ok*" else "open=ok*")
  else if clean then "open=ok c10=ok acked=ok full=ok*|open=ok c10=ok acked=na full=ok*"   -- no crash since the last open: the prefix is everything
  else "open=ok c10=ok*"

def reopen (d : DSt) (killed : String) (clean : Bool) : DSt × String :=
  let st1 := recover d.cfg d.st
  let gs := groups d.cfg st1 d.started
  let out := dumpLine d.prop d.st.sync d.acked d.started gs killed
  -- immutable memtables recovered from the WAL are flushed right after open
  let w := flushAll d.cfg none d.line st1
  -- after a crash the next versions may be reused by later transactions: only what survived counts as started
  let started' := d.started.filter (fun (b, _) => gs.any (fun g => g.bid == b))
  -- `walSize` of the memtable that becomes active again = bytes of the records replayed into it
  let lastWal := match st1.segs.getLast? with
    | some sg => (sg.recs.map (·.wlen)).foldl (· + ·) 0
    | none => 0
  ({ d with st := w.st, dead := none, closed := false, started := started',
            acked := d.acked.filter (fun b => gs.any (fun g => g.bid == b)),
            by_ := { d.by_ with walN := 0, memWal := lastWal,
                                vMap := d.by_.vOff } },
   out ++ "\t" ++ dumpSpec d.prop clean)

def step (d0 : DSt) (toks : List String) : DSt × String :=
  match toks with
  | "cfg" :: kvs =>
    match kvs.foldlM setCfg d0 with
    | some d => (d, "ok")
    | none => (d0, "bad-cfg")
  | _ =>
  let d := { d0 with line := d0.line + 1 }
  let line := d0.line
  let isDead := d.dead.isSome
  match toks with
  | ["prop", p] => ({ d with prop := p }, "ok\t*")
  | ["wait", _] => (d, (if isDead then "-" else "ok") ++ "\t*")
  | ["maint", _] =>
    -- a compaction step moves / rewrites tables; what the database holds does not change
    if !d.opened then (d, "malformed\t*") else
    if isDead then (d, "-\t*") else
    if d.closed then (d, "nodb\t*") else (d, "done\tdone")
  | "open" :: args =>
    if d.opened then (d, "malformed\t*") else
    let sync := (kv? args "sync").bind natOf? |>.getD 0
    let mt := (kv? args "mt").bind natOf? |>.getD 0
    let vf := (kv? args "vf").bind natOf? |>.getD 0
    ({ d with opened := true, st := { sync := sync != 0 }, by_ := { mt := mt, vf := vf, vMap := vf } }, "ok\t*")
  | ["kill", p, l, k] =>
    if d.killSeen || !d.opened then ({ d with killSeen := true }, "malformed\t*") else
    match natOf? l, natOf? k with
    | some l, some k => ({ d with killSeen := true, kill := some (p, l, k) }, (if isDead then "-" else "armed") ++ "\t*")
    | _, _ => (d, "bad-op")
  | "txn" :: ents =>
    if !d.opened then (d, "malformed\t*") else
    if isDead then (d, "- c=[] f=[]\t*") else
    if d.closed then (d, "nodb c=[] f=[]\t*") else
    match ents.mapM parseEnt? with
    | none => (d, "bad-op")
    | some es =>
      let lastIsActive := d.st.lastHead == some d.st.vactive
      let (decs, delta, by1) := decide_ d.cfg d.by_ lastIsActive es
      let steps := commitSteps d.cfg d.st line decs delta
      let w := walk "C" d.kill line 0 d.st steps
      let headLogged := w.evs.contains "write:manifest"
      let by2 := { by1 with walN := if d.st.sync then 0 else by1.walN,
                            headOff := if headLogged then by1.vOff else by1.headOff }
      let started := d.started ++ [(line, es.length)]
      match w.dead with
      | some k =>
        ({ d with st := w.st, dead := some k, started := started, by_ := by2 },
         s!"- c=[{joinC w.evs}] f=[]\t*")
      | none =>
        let wf := flushAll d.cfg d.kill line w.st
        ({ d with st := wf.st, dead := wf.dead, started := started, acked := d.acked ++ [line], by_ := by2 },
         s!"ack c=[{joinC w.evs}] f=[{joinC wf.evs}]\t*")
  | ["close"] =>
    if !d.opened then (d, "malformed\t*") else
    if isDead then (d, "- x=[]\t*") else
    if d.closed then (d, "nodb x=[]\t*") else
      let w := walk "X" d.kill line 0 d.st (closeSteps d.cfg d.st)
      match w.dead with
      | some k => ({ d with st := w.st, dead := some k }, s!"- x=[{joinC w.evs}]\t*")
      | none => ({ d with st := w.st, closed := true, by_ := { d.by_ with walN := 0 } }, s!"ok x=[{joinC w.evs}]\t*")
  | ["recover"] =>
    if d.recSeen || !d.opened then ({ d with recSeen := true }, "malformed\t*") else
    -- the victim is dead (or dies here, between two calls); a second process opens the directory
    let killed := match d.dead with
      | some k => k
      | none => if d.closed then "none" else "N.now"
    let (d', out) := reopen { d with recSeen := true } killed (d.dead.isNone && d.closed)
    ({ d' with kill := none }, out)
  | ["reopen"] =>
    if !d.opened then (d, "malformed\t*") else
    if isDead then (d, "-\t*") else
    if d.closed then reopen d "none" true else (d, "still-open\t*")
  | ["probe", est, plen] =>
    if !d.opened then (d, "malformed\t*") else
    if isDead then (d, "-\t*") else
    if d.closed then (d, "nodb\t*") else
    match natOf? est, natOf? plen with
    | some est, some plen =>
      let mv := maxVer ((written d.st).filter (fun r => r.key != probeKey))
      let nt := d.st.nextTs
      let rel := if nt > mv then s!"gt:+{nt - mv}" else s!"le:+-{mv - nt}"
      let e : ESz := { ent := ⟨probeKey, false, plen + 9⟩, est := est, plen := plen, vlen := 0 }
      let (decs, delta, by1) := decide_ d.cfg d.by_ false [e]
      let w := walk "C" none line 0 d.st (commitSteps d.cfg d.st line decs delta)
      let wf := flushAll d.cfg none line w.st
      let spec := if d.prop == "C12" then "probe=gt*" else "*"
      ({ d with st := wf.st, by_ := { by1 with walN := if d.st.sync then 0 else by1.walN } }, s!"probe={rel}\t{spec}")
    | _, _ => (d, "bad-op")
  | _ => (d, "bad-op")

def main : IO Unit := Driver.loop ({} : DSt) step

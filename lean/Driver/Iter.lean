/-
Line-protocol driver for the iterator engine (C06).
Reply format: `<model>\t<spec>`.

  open …                                   (ignored: engine / value threshold of the real DB)
  commit set:K:V,del:K,exp:K:V             one committed transaction
  pset K V | pdel K                        non-transactional write (version MaxUint64)
  rotate | flush                           memtable rotation / flush of the oldest immutable
  txn.iter rev= all= pik= pfx= since= lo= hi= upd= pend=W,…   Txn.NewIterator / NewKeyIterator
  txn.begin upd= | txn.set W,… | txn.it <opts> | txn.end       ONE transaction kept open across several
                                           writes and iterators (pending list re-read at every txn.it)
  db.iter rev= lo= hi=                     DB.NewIterator
  rewind | seek K | next                   cursor ops; reply = current item `K:ver:V` or `-`
  close
-/
import Driver.Lib
import NoKVModel.Iter.Model
import NoKVModel.Iter.Spec

open NoKV NoKV.Iter Driver

inductive ItSt where
  | none
  | txn (it : TxnIt) (full cur : List Ent) (snap : List Ent)
  | dbi (it : DbIt) (full cur : List Ent)

structure St where
  cfg : IterCfg := IterCfg.good
  db : DB := {}
  it : ItSt := .none
  vt : Nat := 1048576
  /-- the transaction kept open across several iterators: (update?, pending writes so far) -/
  tx : Option (Bool × List Write) := none

def sideOf? : String → Option Side
  | "left" => some .left | "right" => some .right | _ => none

def setCfg (st : St) (kv : String) : Option St :=
  match kv.splitOn "=" with
  | [k, v] =>
    let c := st.cfg
    match k with
    | "merge.eqKeyAdvances" => do let s ← sideOf? v; pure { st with cfg := { c with eqKeyAdvances := s } }
    | "lsm.immIterOrder" =>
      if v == "oldestFirst" then some { st with cfg := { c with immOrder := .oldestFirst } }
      else if v == "newestFirst" then some { st with cfg := { c with immOrder := .newestFirst } } else none
    | "txn.pendingCmp" =>
      if v == "rawBytes" then some { st with cfg := { c with pendingCmp := .rawBytes } }
      else if v == "compareKeys" then some { st with cfg := { c with pendingCmp := .compareKeys } } else none
    | "txnit.lastKeyOnSkip" => do let b ← boolOfString? v; pure { st with cfg := { c with lastKeyOnSkip := b } }
    | "txnit.revGroup" =>
      if v == "firstSeen" then some { st with cfg := { c with revGroup := .firstSeen } }
      else if v == "newest" then some { st with cfg := { c with revGroup := .newest } } else none
    | "dbit.revSeekTs" =>
      if v == "max" then some { st with cfg := { c with dbRevSeekTs := .max } }
      else if v == "zero" then some { st with cfg := { c with dbRevSeekTs := .zero } } else none
    | "dbit.skipsDeleted" => do let b ← boolOfString? v; pure { st with cfg := { c with dbSkipsDeleted := b } }
    | "concat.fwdOp" => do let o ← CmpOp.ofString? v; pure { st with cfg := { c with concatFwdOp := o } }
    | "concat.revOp" => do let o ← CmpOp.ofString? v; pure { st with cfg := { c with concatRevOp := o } }
    | "txn.pendingFresh" => (if v == "true" then some st else none)   -- shape-only fact: no model variant
    | "sst.seekFallsThrough" => do let b ← boolOfString? v; pure { st with cfg := { c with sstSeekFallsThrough := b } }
    | "txnit.lowerOp" => do let o ← CmpOp.ofString? v; pure { st with cfg := { c with txnLowerOp := o } }
    | "txnit.upperOp" => do let o ← CmpOp.ofString? v; pure { st with cfg := { c with txnUpperOp := o } }
    | "txnit.seekLowerOp" => do let o ← CmpOp.ofString? v; pure { st with cfg := { c with txnSeekLowerOp := o } }
    | "txnit.seekUpperOp" => do let o ← CmpOp.ofString? v; pure { st with cfg := { c with txnSeekUpperOp := o } }
    | "txnit.readTsOp" => do let o ← CmpOp.ofString? v; pure { st with cfg := { c with txnReadTsOp := o } }
    | "readts.op" => do let o ← CmpOp.ofString? v; pure { st with cfg := { c with wrapReadTsOp := o } }
    | "txnit.sinceOp" => do let o ← CmpOp.ofString? v; pure { st with cfg := { c with txnSinceOp := o } }
    | "dbit.lowerOp" => do let o ← CmpOp.ofString? v; pure { st with cfg := { c with dbLowerOp := o } }
    | "dbit.upperOp" => do let o ← CmpOp.ofString? v; pure { st with cfg := { c with dbUpperOp := o } }
    | "dbit.seekLowerOp" => do let o ← CmpOp.ofString? v; pure { st with cfg := { c with dbSeekLowerOp := o } }
    | "dbit.seekUpperOp" => do let o ← CmpOp.ofString? v; pure { st with cfg := { c with dbSeekUpperOp := o } }
    | _ => none
  | _ => none

def parseWrite? (s : String) : Option Write :=
  match s.splitOn ":" with
  | ["set", k, v] => do let k ← bytesOf? k; let v ← bytesOf? v; pure ⟨k, v, false, false⟩
  | ["exp", k, v] => do let k ← bytesOf? k; let v ← bytesOf? v; pure ⟨k, v, false, true⟩
  | ["del", k] => do let k ← bytesOf? k; pure ⟨k, [], true, false⟩
  | _ => none

def parseWrites? (s : String) : Option (List Write) :=
  if s == "-" || s == "" then some [] else (s.splitOn ",").mapM parseWrite?

def verStr (v : Nat) : String := if v == maxU64 then "max" else toString v

def itemStr : Option Ent → String
  | none => "-"
  | some e => s!"{e.key.toHex}:{verStr e.ver}:{e.val.toHex}"

def flag (toks : List String) (k : String) : Bool := (kv? toks k).getD "0" == "1"
def bytesArg (toks : List String) (k : String) : Option Bytes := bytesOf? ((kv? toks k).getD "-")

def cursor (st : St) (op : CurOp) : St × String :=
  match st.it with
  | .none => (st, "no-iter\t*")
  | .txn it full cur snap =>
    let it' := it.step st.cfg op
    let cur' := specStep full it.opt.reverse true cur op
    ({ st with it := .txn it' full cur' snap }, itemStr it'.cur ++ "\t" ++ itemStr cur'.head?)
  | .dbi it full cur =>
    let it' := it.step st.cfg op
    let cur' := specStep full (!it.asc) false cur op
    ({ st with it := .dbi it' full cur' }, itemStr it'.cur ++ "\t" ++ itemStr cur'.head?)

def step (st : St) (toks : List String) : St × String :=
  match toks with
  | "cfg" :: kvs =>
    match kvs.foldlM setCfg st with
    | some st' => (st', "ok")
    | none => (st, "bad-cfg")
  | "open" :: args => ({ st with vt := (natOf? ((kv? args "vt").getD "1048576")).getD 1048576 }, "ok\t*")
  | ["commit", ws] =>
    match parseWrites? ws with
    | some ws => ({ st with db := st.db.commit ws }, "ok\tok")
    | none => (st, "bad-op")
  | ["pset", k, v] =>
    match bytesOf? k, bytesOf? v with
    | some k, some v => ({ st with db := st.db.plain ⟨k, v, false, false⟩ }, "ok\tok")
    | _, _ => (st, "bad-op")
  | ["pdel", k] =>
    match bytesOf? k with
    | some k => ({ st with db := st.db.plain ⟨k, [], true, false⟩ }, "ok\tok")
    | none => (st, "bad-op")
  | ["rotate"] => ({ st with db := st.db.rotate }, "ok\tok")
  | ["flush"] =>
    match st.db.imms with
    | [] => (st, "noop\tnoop")
    | t :: _ =>
      let db' := st.db.flush st.vt
      let r := if t.isEmpty then "ok:-" else "ok:" ++ ",".intercalate ((cutBySize st.vt t).map fun b => toString b.length)
      ({ st with db := db' }, r ++ "\t*")
  | ["sink"] =>
    match st.db.l0 with
    | [_] =>
      let db' := st.db.sink st.cfg st.vt
      let desc := db'.lvl.map fun T =>
        match T.flatten.head?, T.flatten.getLast? with
        | some a, some b => s!"{a.key.toHex}@{verStr a.ver}..{b.key.toHex}@{verStr b.ver}#{T.flatten.length}"
        | _, _ => "empty"
      ({ st with db := db' }, "ok:" ++ ";".intercalate desc ++ "\t*")
    | _ => (st, "skip\tskip")
  | "txn.iter" :: args =>
    match bytesArg args "pfx", bytesArg args "lo", bytesArg args "hi", parseWrites? ((kv? args "pend").getD "-"),
          natOf? ((kv? args "since").getD "0") with
    | some pfx, some lo, some hi, some pend, some since =>
      let pik := flag args "pik"
      let o : Opts := { reverse := flag args "rev", allVersions := flag args "all" || pik, prefixIsKey := pik,
                        pfx := pfx, sinceTs := since, lower := lo, upper := hi }
      let upd := flag args "upd"
      let it := newTxnIt st.cfg st.db upd pend o
      let full := specTxnList (txnSnapshot st.db upd pend) o st.db.readTs
      ({ st with it := .txn it full [] (txnSnapshot st.db upd pend) }, "ok\tok")
    | _, _, _, _, _ => (st, "bad-op")
  | "txn.begin" :: args => ({ st with it := .none, tx := some (flag args "upd", []) }, "ok\tok")
  | ["txn.set", ws] =>
    match st.tx, parseWrites? ws with
    | some (upd, pend), some ws => ({ st with tx := some (upd, pend ++ ws) }, "ok\tok")
    | none, _ => (st, "no-txn\t*")
    | _, none => (st, "bad-op")
  | "txn.it" :: args =>
    -- a new iterator of the open transaction: its pending writes are re-read NOW
    match st.tx, bytesArg args "pfx", bytesArg args "lo", bytesArg args "hi", natOf? ((kv? args "since").getD "0") with
    | some (upd, pend), some pfx, some lo, some hi, some since =>
      let pik := flag args "pik"
      let o : Opts := { reverse := flag args "rev", allVersions := flag args "all" || pik, prefixIsKey := pik,
                        pfx := pfx, sinceTs := since, lower := lo, upper := hi }
      let it := newTxnIt st.cfg st.db upd pend o
      let full := specTxnList (txnSnapshot st.db upd pend) o st.db.readTs
      ({ st with it := .txn it full [] (txnSnapshot st.db upd pend) }, "ok\tok")
    | none, _, _, _, _ => (st, "no-txn\t*")
    | _, _, _, _, _ => (st, "bad-op")
  | ["txn.end"] => ({ st with it := .none, tx := none }, "ok\tok")
  | "db.iter" :: args =>
    match bytesArg args "lo", bytesArg args "hi" with
    | some lo, some hi =>
      let asc := !flag args "rev"
      let it := newDbIt st.cfg st.db asc lo hi
      let full := specDbList (dbSnapshot st.db) asc lo hi
      ({ st with it := .dbi it full [] }, "ok\tok")
    | _, _ => (st, "bad-op")
  | ["rewind"] => cursor st .rewind
  | ["seek", k] =>
    match bytesOf? k with
    | some k => cursor st (.seek k)
    | none => (st, "bad-op")
  | ["next"] => cursor st .next
  | ["get", k] =>
    match bytesOf? k, st.tx, st.it with
    | some k, some (upd, pend), _ =>
      -- point read of the open transaction: its CURRENT pending writes
      let r := match specGet (txnSnapshot st.db upd pend) st.db.readTs k with
        | none => "notfound"
        | some e => if e.dead then "notfound" else e.val.toHex
      (st, r ++ "\t" ++ r)
    | some k, none, .txn it _ _ snap =>
      let r := match specGet snap it.readTs k with
        | none => "notfound"
        | some e => if e.dead then "notfound" else e.val.toHex
      (st, r ++ "\t" ++ r)
    | _, _, _ => (st, "no-iter\t*")
  | ["close"] => ({ st with it := .none }, "ok\tok")
  | _ => (st, "bad-op")

def main : IO Unit := Driver.loop ({} : St) step

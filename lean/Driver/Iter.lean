-- stub: replaced by the iter engine driver
def main : IO Unit := pure ()

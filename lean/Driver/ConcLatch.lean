/-
Driver part for C20 (latches).  Keys are symbols: `e` = the empty key, `<stripe><letter>` = a key
whose hash is `<stripe>` (the harness searches concrete keys with that MemHash residue; distinct
letters = distinct keys colliding on the stripe).  Ops:

  latch.new <n>                 NewManager(n)
  latch.acq <tid> <k1,k2,…>     start Acquire in a goroutine; run until it holds or blocks
                                → <ok|overlap>:held | ok:blocked
  latch.rel <tid>               Release(); woken waiters run until they hold or block again
                                → <ok|overlap>:released now-held=<tids|-> | ok:nothold
  latch.state                   → <tid>=<H|B|R>,…
  latch.drain                   release every holder until nobody holds → alldone | stuck:<k>
  latch.rel2probe               Acquire; Release; Release on a fresh manager → ok | crash
-/
import Driver.Lib
import NoKVModel.Base.Cfg
import NoKVModel.Conc.Latch

namespace ConcLatch
open NoKV NoKV.Conc NoKV.Conc.Latch Driver

structure DSt where
  c : LatchCfg := LatchCfg.good
  s : St := initSt 4
  queues : List (Nat × List Nat) := []   -- stripe ↦ sleeping waiters, FIFO
  tids : List Nat := []                  -- threads started, in order

def hashSym (k : Bytes) : Nat := k.headD 0

def setCfg (d : DSt) (kv : String) : Option DSt :=
  match kv.splitOn "=" with
  | [k, v] =>
    match k with
    | "latch.sorted" => do let b ← boolOfString? v; pure { d with c := { d.c with sorted := b } }
    | "latch.dedup" => do let b ← boolOfString? v; pure { d with c := { d.c with dedup := b } }
    | "latch.skipsEmptyKeys" => do let b ← boolOfString? v; pure { d with c := { d.c with skipsEmptyKeys := b } }
    | "latch.releaseClears" => do let b ← boolOfString? v; pure { d with c := { d.c with releaseClears := b } }
    | "latch.lockLoopShape" => if v == "true" then some d else none
    | _ => if k.startsWith "latch." then none else some d
  | _ => none

def parseKey? (s : String) : Option Bytes :=
  if s == "e" then some []
  else
    let ds := s.toList.takeWhile Char.isDigit
    let rest := s.toList.dropWhile Char.isDigit
    match (String.ofList ds).toNat?, rest with
    | some st, [ch] => some [st, ch.toNat]
    | _, _ => none

def parseKeys? (s : String) : Option (List Bytes) :=
  if s == "-" then some [] else (s.splitOn ",").mapM parseKey?

def getQ (q : List (Nat × List Nat)) (i : Nat) : List Nat :=
  match q.find? (·.1 == i) with
  | some (_, l) => l
  | none => []

def setQ (q : List (Nat × List Nat)) (i : Nat) (l : List Nat) : List (Nat × List Nat) :=
  (i, l) :: q.filter (·.1 != i)

def phaseOf (s : St) (tid : Nat) : Option Phase := (s.thr tid).map (·.phase)

/-- run `tid` while it is acquiring and its next Lock succeeds -/
def runAcquire (c : LatchCfg) (s : St) (tid : Nat) : Nat → St
  | 0 => s
  | fuel + 1 =>
    if phaseOf s tid = some Phase.acquiring then
      match Latch.step c hashSym s (.run tid) with
      | some s' => runAcquire c s' tid fuel
      | none => s
    else s

/-- run `tid` from `holding` until its Release has returned -/
def runRelease (c : LatchCfg) (s : St) (tid : Nat) : Nat → St
  | 0 => s
  | fuel + 1 =>
    if phaseOf s tid = some Phase.holding ∨ phaseOf s tid = some Phase.releasing then
      match Latch.step c hashSym s (.run tid) with
      | some s' => runRelease c s' tid fuel
      | none => s
    else s

def wanted (s : St) (tid : Nat) : Option Nat :=
  match s.thr tid with
  | some t => t.todo.head?
  | none => none

/-- after `tid` stopped: if it is blocked, it goes to sleep at the tail of its stripe's queue -/
def enqueueIfBlocked (d : DSt) (tid : Nat) : DSt :=
  if phaseOf d.s tid = some Phase.acquiring then
    match wanted d.s tid with
    | some i => { d with queues := setQ d.queues i (getQ d.queues i ++ [tid]) }
    | none => d
  else d

def holders (d : DSt) : List Nat := d.tids.filter (fun t => phaseOf d.s t == some Phase.holding)

def keysOf (s : St) (tid : Nat) : List Bytes :=
  match s.thr tid with
  | some t => t.keys
  | none => []

/-- specification side: does `tid` share a key with another current holder? -/
def overlapsHolder (d : DSt) (tid : Nat) : Bool :=
  (holders d).any (fun u => u != tid && (keysOf d.s tid).any (fun k => (keysOf d.s u).contains k))

/-- Release by `tid`, then wake the head sleeper of each freed stripe (unlock order) -/
def releaseCascade (d : DSt) (tid : Nat) : DSt × List Nat :=
  let freed := match d.s.thr tid with
    | some t => t.got
    | none => []
  let s1 := runRelease d.c d.s tid (freed.length + 3)
  freed.foldl (fun (acc : DSt × List Nat) i =>
    let (d, woke) := acc
    match getQ d.queues i with
    | [] => (d, woke)
    | w :: ws =>
      let d := { d with queues := setQ d.queues i ws }
      let s2 := runAcquire d.c d.s w 64
      let d := enqueueIfBlocked { d with s := s2 } w
      if phaseOf s2 w = some Phase.holding then (d, woke ++ [w]) else (d, woke)) ({ d with s := s1 }, [])

def insertSorted (x : Nat) : List Nat → List Nat
  | [] => [x]
  | y :: ys => if x ≤ y then x :: y :: ys else y :: insertSorted x ys

def listStr (l : List Nat) : String :=
  if l.isEmpty then "-" else ",".intercalate ((l.foldr insertSorted []).map toString)

def drain (d : DSt) : Nat → DSt
  | 0 => d
  | fuel + 1 =>
    match holders d with
    | [] => d
    | h :: _ => drain (releaseCascade d h).1 fuel

def step (d : DSt) (toks : List String) : DSt × String :=
  match toks with
  | ["latch.new", n] =>
    match natOf? n with
    | some n => if n = 0 then (d, "bad-op") else ({ d with s := initSt n, queues := [], tids := [] }, "ok\t*")
    | none => (d, "bad-op")
  | ["latch.acq", t, ks] =>
    match natOf? t, parseKeys? ks with
    | some tid, some keys =>
      match Latch.step d.c hashSym d.s (.spawn tid keys) with
      | none => (d, "bad-op")
      | some s1 =>
        let s2 := runAcquire d.c s1 tid 64
        let d := enqueueIfBlocked { d with s := s2, tids := d.tids ++ [tid] } tid
        if phaseOf s2 tid = some Phase.holding then
          (d, (if overlapsHolder d tid then "overlap" else "ok") ++ ":held\tok:*")
        else (d, "ok:blocked\tok:*")
    | _, _ => (d, "bad-op")
  | ["latch.rel", t] =>
    match natOf? t with
    | some tid =>
      if phaseOf d.s tid = some Phase.holding then
        let (d', woke) := releaseCascade d tid
        let bad := woke.any (overlapsHolder d')
        (d', (if bad then "overlap" else "ok") ++ s!":released now-held={listStr woke}\tok:*")
      else (d, "ok:nothold\tok:*")
    | none => (d, "bad-op")
  | ["latch.state"] =>
    let parts := d.tids.map fun t =>
      let p := match phaseOf d.s t with
        | some Phase.holding => "H"
        | some Phase.acquiring => "B"
        | _ => "R"
      s!"{t}={p}"
    (d, (if parts.isEmpty then "-" else ",".intercalate parts) ++ "\t*")
  | ["latch.drain"] =>
    let d' := drain d (d.tids.length + 1)
    let stuck := (d'.tids.filter (fun t => phaseOf d'.s t == some Phase.acquiring)).length
    (d', (if stuck = 0 then "alldone" else s!"stuck:{stuck}") ++ "\talldone")
  | ["latch.rel2probe"] =>
    -- fresh manager: Acquire([1a]); Release(); Release()
    let s0 := initSt 2
    let s1 := run (sys d.c hashSym) s0 [.spawn 0 [[1, 97]], .run 0, .run 0, .run 0, .run 0, .run 0, .run 0]
    (d, (if s1.crashed then "crash" else "ok") ++ "\tok")
  | _ => (d, "bad-op")

end ConcLatch

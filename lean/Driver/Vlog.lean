/-
Line-protocol driver for the value-log engine (C08, C11).
Reply format: `<model>\t<spec>`; spec patterns: `*` anything, `a|b` alternatives.

The spec column is an abstract versioned map fed only by the acknowledged client writes
(set/del/setv/delv); gc, reopen, crash never touch it.
-/
import Driver.Lib
import NoKVModel.Vlog.Model

open NoKV NoKV.Vlog Driver

/-- specification state: acknowledged writes, newest first: (key, version, value or tombstone) -/
abbrev Spec := List (Bytes × Nat × Option Bytes)

/-- the write visible at (k, v): greatest version ≤ v, most recent write among equals -/
def specLookup (sp : Spec) (k : Bytes) (v : Nat) : Option (Nat × Option Bytes) :=
  sp.foldr (fun e best =>
    if e.1 == k && e.2.1 ≤ v then
      match best with
      | some (w, x) => if w > e.2.1 then some (w, x) else some (e.2.1, e.2.2)
      | none => some (e.2.1, e.2.2)
    else best) none

structure DSt where
  c : VCfg := VCfg.asis
  s : St := St.init ⟨32, 400, 1⟩
  sp : Spec := []
  pending : Option (Nat × Nat × List Rec) := none

def hx (b : Bytes) : String := if b.isEmpty then "-" else b.toHex

def resStr (plain : Bool) : Res → String
  | .notfound => "notfound"
  | .tomb => if plain then "notfound" else "tomb"
  | .val v => "v:" ++ hx v
  | .err => "err"

def specStr (plain : Bool) : Option (Nat × Option Bytes) → String
  | none => "notfound"
  | some (_, none) => if plain then "notfound" else "tomb"
  | some (_, some v) => "v:" ++ hx v

def insertStr (x : String) : List String → List String
  | [] => [x]
  | y :: ys => if x ≤ y then x :: y :: ys else y :: insertStr x ys

def sortStr (l : List String) : List String := l.foldr insertStr []

def joinOr (sep : String) (l : List String) : String := if l.isEmpty then "-" else sep.intercalate l

def dedupKeys : List (Bytes × Nat) → List (Bytes × Nat)
  | [] => []
  | x :: xs => if xs.contains x then dedupKeys xs else x :: dedupKeys xs

def pad20 (n : Nat) : String :=
  let s := toString n
  "".pushn '0' (20 - s.length) ++ s

/-- every non-deleted, readable, non-empty (key, version) the iterator yields -/
def scanModel (s : St) : String :=
  let keys := dedupKeys (s.lsm.map fun e => (e.key, e.ver))
  let rows := keys.filterMap fun (k, w) =>
    match exact s.lsm k w with
    | none => none
    | some e =>
      match resolve s.files e with
      | .val v => if v.isEmpty then none else some s!"{hx k}@{pad20 w}={hx v}"
      | _ => none
  joinOr "," (sortStr rows)

def scanSpec (sp : Spec) : String :=
  let keys := dedupKeys (sp.map fun e => (e.1, e.2.1))
  let rows := keys.filterMap fun (k, w) =>
    match sp.find? (fun e => e.1 == k && e.2.1 == w) with
    | some (_, _, some v) => if v.isEmpty then none else some s!"{hx k}@{pad20 w}={hx v}"
    | _ => none
  joinOr "," (sortStr rows)

def insertNat (x : Nat) : List Nat → List Nat
  | [] => [x]
  | y :: ys => if x ≤ y then x :: y :: ys else y :: insertNat x ys

def sortNat (l : List Nat) : List Nat := l.foldr insertNat []

def filesStr (s : St) : String :=
  let bs := List.range (max s.P.buckets 1)
  ";".intercalate (bs.map fun b =>
    let fids := sortNat ((s.files.filter (·.bucket == b)).map (·.fid))
    s!"{b}:" ++ joinOr "," (fids.map toString))

def recsStr (s : St) (b f : Nat) : String :=
  match findFile s.files b f with
  | none => "nofile"
  | some fl => joinOr "," ((scan fl.recs headerSize).map fun (o, r) =>
      s!"{hx r.key}@{r.ver}:{r.val.length}:{o}:{recLen r}")

def manStr (s : St) (b : Nat) : String :=
  let fids := sortNat (((s.man.filter (·.1 == b)).map (·.2.1)).eraseDups)
  joinOr "," (fids.map fun f => s!"{f}:" ++ (match manGet s.man b f with | some true => "1" | _ => "0"))

def ptrStr (s : St) (k : Bytes) (v : Nat) : String :=
  match lookup s.lsm k v with
  | none => "none"
  | some e =>
    match e.v with
    | .inl _ del => if del then "tomb" else "inl"
    | .ptr p => s!"ptr:{p.bucket}:{p.fid}:{p.off}:{p.len}"

def gcOutStr : GcOut → String
  | .ok => "ok" | .emptykey => "emptykey" | .badfid => "badfid"

def parseCfg (toks : List String) (c : VCfg) : Option VCfg := do
  let op (k : String) (d : CmpOp) : Option CmpOp :=
    match kv? toks k with
    | none => some d
    | some v => CmpOp.ofString? v
  let bl (k : String) (d : Bool) : Option Bool :=
    match kv? toks k with
    | none => some d
    | some v => boolOfString? v
  let t ← op "vlog.thresholdOp" c.thresholdOp
  let r ← op "vlog.rotateOp" c.rotateOp
  let f ← op "vlog.gcFidOp" c.gcFidOp
  let o ← op "vlog.gcOffOp" c.gcOffOp
  let b ← bl "vlog.gcChecksBucket" c.gcChecksBucket
  let pc ← match kv? toks "vlog.postCheck" with
    | none => some c.postCheckLive
    | some "released" => some false
    | some "live" => some true
    | some _ => none
  let ml ← bl "vlog.gcMissIsLive" c.gcMissIsLive
  pure { thresholdOp := t, rotateOp := r, gcFidOp := f, gcOffOp := o, gcChecksBucket := b, postCheckLive := pc,
         gcMissIsLive := ml }

/-- crash image check: reopen, GC every sealed file of every bucket (two rounds), compare dumps -/
def gcAll (c : VCfg) (s : St) : St :=
  let bs := List.range (max s.P.buckets 1)
  bs.foldl (fun s b =>
    let fids := sortNat ((s.files.filter (·.bucket == b)).map (·.fid))
    fids.foldl (fun s f => (gc c s b f).1) s) s

def imageStr (c : VCfg) (s : St) : String :=
  let s0 := reopen s
  let s2 := gcAll c (gcAll c s0)
  if scanModel s0 == scanModel s2 then "same" else "diff"

def both (a : String) : String := a ++ "\t" ++ a

def step (d : DSt) (toks : List String) : DSt × String :=
  let bad := (d, "badop\t*")
  match toks with
  | "cfg" :: rest =>
    match parseCfg rest VCfg.asis with
    | some c => ({ d with c := c }, "ok")
    | none => (d, "badcfg")
  | ["open", t, m, b] =>
    match natOf? t, natOf? m, natOf? b with
    | some t, some m, some b => ({ d with s := St.init ⟨t, m, b⟩, sp := [], pending := none }, both "ok")
    | _, _, _ => bad
  -- `open … lsm`: same database, compactors stopped, LSM maintenance driven by `lsm <step>` lines
  | ["open", t, m, b, "lsm"] =>
    match natOf? t, natOf? m, natOf? b with
    | some t, some m, some b => ({ d with s := St.init ⟨t, m, b⟩, sp := [], pending := none }, both "ok")
    | _, _, _ => bad
  -- LSM maintenance (rotate / flush / l0move / drain / keep): the LSM is the abstract versioned map,
  -- on which every maintenance step is the identity (C11: contents change only through writes)
  | ["lsm", _] => (d, both "ok")
  | ["set", k, v, h] =>
    match bytesOf? k, bytesOf? v, natOf? h with
    | some k, some v, some h =>
      ({ d with s := put d.c d.s k maxU64 v false h, sp := (k, maxU64, some v) :: d.sp }, both "ok")
    | _, _, _ => bad
  | ["del", k, h] =>
    match bytesOf? k, natOf? h with
    | some k, some h =>
      ({ d with s := put d.c d.s k maxU64 [] true h, sp := (k, maxU64, none) :: d.sp }, both "ok")
    | _, _ => bad
  | ["setv", k, w, v, h] =>
    match bytesOf? k, natOf? w, bytesOf? v, natOf? h with
    | some k, some w, some v, some h =>
      ({ d with s := put d.c d.s k w v false h, sp := (k, w, some v) :: d.sp }, both "ok")
    | _, _, _, _ => bad
  | ["delv", k, w, h] =>
    match bytesOf? k, natOf? w, natOf? h with
    | some k, some w, some h =>
      ({ d with s := put d.c d.s k w [] true h, sp := (k, w, none) :: d.sp }, both "ok")
    | _, _, _ => bad
  | ["get", k] =>
    match bytesOf? k with
    | some k => (d, resStr true (readKV d.s k maxU64) ++ "\t" ++ specStr true (specLookup d.sp k maxU64))
    | none => bad
  | ["getv", k, w] =>
    match bytesOf? k, natOf? w with
    | some k, some w => (d, resStr false (readKV d.s k w) ++ "\t" ++ specStr false (specLookup d.sp k w))
    | _, _ => bad
  | ["scan"] => (d, scanModel d.s ++ "\t" ++ scanSpec d.sp)
  | ["gc", b, f] =>
    match natOf? b, natOf? f with
    | some b, some f =>
      let (s', o) := gc d.c d.s b f
      ({ d with s := s' }, gcOutStr o ++ "\t*")
    | _, _ => bad
  -- small-step GC for the concurrent window: liveness tests first …
  | ["gc.test", b, f] =>
    match natOf? b, natOf? f with
    | some b, some f =>
      if (findFile d.s.files b f).isNone || !(decide (f < activeFid d.s.files b)) then (d, "badfid\t*")
      else
        let wb := gcLive d.c d.s b f
        ({ d with pending := some (b, f, wb) }, s!"live={wb.length}\t*")
    | _, _ => bad
  -- … client calls may run here … then the re-insert, the post-check and the removal
  | ["gc.finish"] =>
    match d.pending with
    | none => (d, "nopending\t*")
    | some (b, f, wb) =>
      let s1 := reinsert d.c d.s b wb
      if wb != [] && !d.c.postCheckLive then ({ d with s := s1, pending := none }, "emptykey\t*")
      else ({ d with s := dropFile s1 b f, pending := none }, "ok\t*")
  | ["reopen"] => ({ d with s := reopen d.s }, both "ok")
  | ["orphan", k, w, v, h] =>
    match bytesOf? k, natOf? w, bytesOf? v, natOf? h with
    | some k, some w, some v, some h => ({ d with s := orphan d.c d.s k w v h }, both "ok")
    | _, _, _, _ => bad
  | ["crash", k, w, v, h] =>
    match bytesOf? k, natOf? w, bytesOf? v, natOf? h with
    | some k, some w, some v, some h => ({ d with s := reopen (orphan d.c d.s k w v h) }, both "ok")
    | _, _, _, _ => bad
  | ["image"] => (d, imageStr d.c d.s ++ "\tsame")
  | ["files"] => (d, filesStr d.s ++ "\t*")
  | ["recs", b, f] =>
    match natOf? b, natOf? f with
    | some b, some f => (d, recsStr d.s b f ++ "\t*")
    | _, _ => bad
  | ["man", b] =>
    match natOf? b with
    | some b => (d, manStr d.s b ++ "\t*")
    | none => bad
  | ["ptr", k, w] =>
    match bytesOf? k, natOf? w with
    | some k, some w => (d, ptrStr d.s k w ++ "\t*")
    | _, _ => bad
  | _ => bad

def main : IO Unit := loop ({} : DSt) step

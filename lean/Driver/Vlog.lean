-- stub: replaced by the vlog engine driver
def main : IO Unit := pure ()

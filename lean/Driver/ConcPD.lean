/-
Driver part for C27 (PD allocator).  Ops:

  pd.open <idStart> <tsStart>        fresh directory, allocators from ResolveAllocatorStarts
  pd.req <tid> <id|ts> <count>       start a request; run it to the checkpoint-save gate
                                     → parked=<id>,<ts> | blocked
  pd.save <tid>                      let the parked save of <tid> proceed and the request reply
                                     → <fresh|dup>:reply=<first>,<count> ckpt=<id>,<ts>[ next=<tid>:<id>,<ts>]
  pd.renamefail <n>                  the next n renames onto PD_STATE.json fail (real LocalStore on a vfs.FaultFS); reset by restart
  pd.savefail <tid>                  the parked checkpoint write fails (storage error): the request answers with an error
                                     → fresh:error ckpt=<id>,<ts> cur=<idCounter>,<tsCounter>[ next=…]
  pd.restart                         kill the process, restart from PD_STATE.json
                                     → <safe|unsafe>:starts=<id>,<ts>
  pd.ckpt                            → ckpt=<id>,<ts>
  pd.resolve <idStart> <tsStart> <ckId> <ckTs>   the pure function ResolveAllocatorStarts
-/
import Driver.Lib
import NoKVModel.Base.Cfg
import NoKVModel.Conc.PDAlloc

namespace ConcPD
open NoKV NoKV.Conc NoKV.Conc.PD Driver

structure DSt where
  c : AllocCfg := AllocCfg.good
  s : St := initSt AllocCfg.good (fun _ => 1)
  waiters : List Nat := []          -- threads blocked on the persist mutex, FIFO
  live : List Nat := []             -- thread ids in use since the last restart
  renameFail : Nat := 0             -- the next so many renames onto PD_STATE.json fail (storage fault)

def setCfg (d : DSt) (kv : String) : Option DSt :=
  match kv.splitOn "=" with
  | [k, v] =>
    match k with
    | "pd.persistSerialized" => do let b ← boolOfString? v; pure { d with c := { d.c with persistSerialized := b } }
    | "pd.persistAfterReserve" => do let b ← boolOfString? v; pure { d with c := { d.c with persistAfterReserve := b } }
    | "pd.resolveBumps" => do let b ← boolOfString? v; pure { d with c := { d.c with resolveBumps := b } }
    | "pd.releasesOnPersistError" => do let b ← boolOfString? v; pure { d with c := { d.c with releasesOnError := b } }
    | "pd.reserveTakesExactlyN" | "pd.replyFromReserve" | "pd.saveStateAtomic" | "pd.storageBeforeServe" =>
      if v == "true" then some d else none
    | "pd.allocatorMethods" => some d
    | "pd.reserveIsAtomicAdd" | "pd.saveAtomicReplace" | "pd.savesCurrentCounters" | "pd.startupResolves" =>
      -- assumptions of the model, shape-checked by the extractor; only the expected value is modelled
      if v == "true" then some d else none
    | _ => if k.startsWith "pd." then none else some d
  | _ => none

def kindOf? : String → Option Kind
  | "id" => some .id
  | "ts" => some .ts
  | _ => none

/-- run thread `tid` until it is about to execute `save`, is blocked, or has finished -/
def runToGate (c : AllocCfg) (s : St) (tid : Nat) : Nat → St
  | 0 => s
  | fuel + 1 =>
    match s.thr tid with
    | none => s
    | some t =>
      if t.pc = .save then s
      else match PD.step c s (.run tid) with
        | some s' => runToGate c s' tid fuel
        | none => s

/-- run thread `tid` from `save` to the end of the request -/
def runToEnd (c : AllocCfg) (s : St) (tid : Nat) : Nat → St
  | 0 => s
  | fuel + 1 =>
    match PD.step c s (.run tid) with
    | some s' => runToEnd c s' tid fuel
    | none => s

def pcOf (s : St) (tid : Nat) : Option PC := (s.thr tid).map (·.pc)

def parkedStr (s : St) (tid : Nat) : String :=
  match s.thr tid with
  | some t => s!"{t.rd .id},{t.rd .ts}"
  | none => "?"

/-- specification side: a replied range must not share a value with any range replied before
(over all restarts) -/
def isDup (r : Rng) (earlier : List Rng) : Bool := earlier.any (overlaps r)

/-- specification side: after a restart the first value handed out must be above every value
replied before -/
def unsafeRestart (s : St) : Bool := s.replied.any (fun r => decide (s.ctr r.kind < r.last))

def specResolve (start ck : Nat) : Nat := Nat.max start (Nat.min (ck + 1) MAXU)

def step (d : DSt) (toks : List String) : DSt × String :=
  match toks with
  | ["pd.open", a, b] =>
    match natOf? a, natOf? b with
    | some a, some b =>
      let start : Kind → Nat := fun k => match k with | .id => a | .ts => b
      let s := initSt d.c start
      ({ d with s := s, waiters := [], live := [], renameFail := 0 }, s!"starts={s.ctr .id + 1},{s.ctr .ts + 1}\t*")
    | _, _ => (d, "bad-op")
  | ["pd.req", t, k, n] =>
    match natOf? t, kindOf? k, natOf? n with
    | some tid, some k, some n =>
      let n := if n = 0 then 1 else n
      match PD.step d.c d.s (.spawn tid k n) with
      | none => (d, "bad-op")
      | some s1 =>
        let s2 := runToGate d.c s1 tid 8
        if pcOf s2 tid = some PC.save then
          ({ d with s := s2, live := tid :: d.live }, s!"parked={parkedStr s2 tid}\t*")
        else
          ({ d with s := s2, live := tid :: d.live, waiters := d.waiters ++ [tid] }, "blocked\t*")
    | _, _, _ => (d, "bad-op")
  | ["pd.renamefail", n] =>
    match natOf? n with
    | some n => ({ d with renameFail := n }, "ok\t*")
    | none => (d, "bad-op")
  | ["pd.save", t] =>
    match natOf? t with
    | some tid =>
      if pcOf d.s tid = some PC.save ∧ d.renameFail > 0 then
        -- SaveAllocatorState writes the temporary file; the rename fails: the checkpoint stays as it was
        let s0 := match PD.step d.c d.s (.failSave tid) with
          | some s' => s'
          | none => d.s
        let s1 := runToEnd d.c s0 tid 8
        let (s2, ws, nxt) := match d.waiters with
          | w :: ws =>
            let s2 := runToGate d.c s1 w 8
            if pcOf s2 w = some PC.save then (s2, ws, s!" next={w}:{parkedStr s2 w}") else (s2, w :: ws, "")
          | [] => (s1, [], "")
        ({ d with s := s2, waiters := ws, renameFail := d.renameFail - 1 },
          s!"fresh:error ckpt={s2.ck .id},{s2.ck .ts} cur={s2.ctr .id},{s2.ctr .ts}{nxt}\tfresh:*")
      else if pcOf d.s tid = some PC.save then
        let before := d.s.replied
        let s1 := runToEnd d.c d.s tid 8
        let (rep, flag) := match s1.replied with
          | r :: _ => (s!"reply={r.first},{r.last + 1 - r.first}", if isDup r before then "dup" else "fresh")
          | [] => ("reply=?", "dup")
        -- the mutex is free again: the longest-waiting request takes it and runs to the gate
        let (s2, ws, nxt) := match d.waiters with
          | w :: ws =>
            let s2 := runToGate d.c s1 w 8
            if pcOf s2 w = some PC.save then (s2, ws, s!" next={w}:{parkedStr s2 w}") else (s2, w :: ws, "")
          | [] => (s1, [], "")
        ({ d with s := s2, waiters := ws },
          s!"{flag}:{rep} ckpt={s2.ck .id},{s2.ck .ts}{nxt}\tfresh:*")
      else (d, "notparked\t*")
    | none => (d, "bad-op")
  | ["pd.savefail", t] =>
    -- the checkpoint write of the parked request fails: error reply, nothing handed out
    match natOf? t with
    | some tid =>
      if pcOf d.s tid = some PC.save then
        let s0 := match PD.step d.c d.s (.failSave tid) with
          | some s' => s'
          | none => d.s
        let s1 := runToEnd d.c s0 tid 8
        let (s2, ws, nxt) := match d.waiters with
          | w :: ws =>
            let s2 := runToGate d.c s1 w 8
            if pcOf s2 w = some PC.save then (s2, ws, s!" next={w}:{parkedStr s2 w}") else (s2, w :: ws, "")
          | [] => (s1, [], "")
        ({ d with s := s2, waiters := ws }, s!"fresh:error ckpt={s2.ck .id},{s2.ck .ts} cur={s2.ctr .id},{s2.ctr .ts}{nxt}\tfresh:*")
      else (d, "notparked\t*")
    | none => (d, "bad-op")
  | ["pd.restart"] =>
    let s1 := restartSt d.c d.s
    let flag := if unsafeRestart s1 then "unsafe" else "safe"
    ({ d with s := s1, waiters := [], live := [], renameFail := 0 }, s!"{flag}:starts={s1.ctr .id + 1},{s1.ctr .ts + 1}\tsafe:*")
  | ["pd.ckpt"] => (d, s!"ckpt={d.s.ck .id},{d.s.ck .ts}\t*")
  | ["pd.resolve", a, b, x, y] =>
    match natOf? a, natOf? b, natOf? x, natOf? y with
    | some a, some b, some x, some y =>
      (d, s!"res={resolve d.c a x},{resolve d.c b y}\tres={specResolve a x},{specResolve b y}")
    | _, _, _, _ => (d, "bad-op")
  | _ => (d, "bad-op")

end ConcPD

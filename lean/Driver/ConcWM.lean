/-
Driver part for C32 (watermark).  Ops:

  wm.new
  wm.begin <i> | wm.done <i>       a whole call, run to completion (no other thread runs)
  wm.beginmany <i,j,…> | wm.donemany <i,j,…>   BeginMany / DoneMany, whole calls
  wm.wait <i>                      WaitForMark with an already cancelled context → ok | pending
  wm.waitstart <wid> <i>           WaitForMark(ctx, i) in a goroutine → nil (returned at once) | parked
  wm.waitcancel <wid>              cancel that waiter's context → ctxerr | notparked
  wm.waiters                       → ok:parked=<ids> nil=<ids> err=<ids>   (`early:` instead of `ok:` in the
                                   implementation column if a waiter returned nil before the mark reached its index)
  wm.spawn <tid> <begin|done> <i>  a call in a scheduled goroutine, parked before its first step
  wm.step <tid>                    run <tid> up to its next yield point
                                   (wm.begin.mid, wm.advance.loop) or its return
  every reply: <ok|passed>:<what> du=<doneUntil> li=<lastIndex>
  `passed` = some index at or below doneUntil is begun and unfinished (spec column: ok:*)
-/
import Driver.Lib
import NoKVModel.Base.Cfg
import NoKVModel.Conc.Watermark
import NoKVModel.Conc.WatermarkWindow

/-
Whole calls are executed on the micro-step model (`WM.step`, run to completion) whenever a
scheduled call is parked; when none is, the window-free whole-call semantics `WMW.aCall` is used
(the gap between doneUntil and a far index is walked without building micro-step states) and, for
short gaps, compared with the micro-step run.  As long as a case has not scheduled anything, the
sliding-window model `WMW.call` (window rules from the extracted facts) runs alongside; any
difference between the three is reported in the model column as `…-diverges`.
-/
namespace ConcWM
open NoKV NoKV.Conc NoKV.Conc.WM NoKV.Conc.WMW Driver

structure DSt where
  c : WMCfg := { countsFirst := true }   -- tracksZero / holdsAtDone default to the pre-patch shape
  s : St := initSt
  touched : List Nat := []      -- indices that were ever begun (for the spec flag)
  ignored : List Nat := []      -- one entry per Begin whose index was at or below the mark when it started
  tmp : Nat := 1000000          -- thread ids for whole-call ops
  sched : List Nat := []        -- scheduled thread ids of this case
  grow : Bool := true           -- wm.growRule = slots
  copyAll : Bool := true        -- wm.copyRule = all
  baseAtDone : Bool := true     -- wm.rebuildBase = done
  win : Option WSt := some initW   -- window model, while the case is purely sequential
  diverged : String := ""
  waiters : List (Nat × Nat × Nat) := []   -- (waiter id, index, state: 0 parked, 1 returned nil, 2 returned ctx error)

def setCfg (d : DSt) (kv : String) : Option DSt :=
  match kv.splitOn "=" with
  | [k, v] =>
    match k with
    | "wm.beginOrder" =>
      if v == "publishThenCount" then some { d with c := { d.c with countsFirst := false } }
      else if v == "countThenPublish" then some { d with c := { d.c with countsFirst := true } }
      else none
    | "wm.tracksZero" => do let b ← boolOfString? v; pure { d with c := { d.c with tracksZero := b } }
    | "wm.holdsAtDone" => do let b ← boolOfString? v; pure { d with c := { d.c with holdsAtDone := b } }
    | "wm.advanceShape" | "wm.windowShape" | "wm.waitCancelShape" => if v == "true" then some d else none
    | "wm.growRule" => if v == "slots" then some { d with grow := true } else if v == "offset" then some { d with grow := false } else none
    | "wm.copyRule" => if v == "all" then some { d with copyAll := true } else if v == "uptoLast" then some { d with copyAll := false } else none
    | "wm.rebuildBase" => if v == "done" then some { d with baseAtDone := true } else if v == "donePlus1" then some { d with baseAtDone := false } else none
    | "wm.setDoneUntilCallers" => some d     -- SetDoneUntil is not part of the model; the call sites are pinned by the check
    | _ => if k.startsWith "wm." then none else some d
  | _ => none

/-- is thread `t` standing at a yield point of the real code? -/
def atYield (c : WMCfg) (t : Thr) : Option String :=
  match (progOf c t.kind)[t.stage]? with
  | none => some "return"
  | some .advance => if t.loc = .start then some "advance.loop" else none
  | some (.add _ true) => if c.countsFirst then none else some "begin.mid"
  | some (.setLast _) => if c.countsFirst then some "begin.mid" else none
  | _ => none

/-- run `tid` to its next yield point (at least one micro-step) -/
def runToYield (c : WMCfg) (s : St) (tid : Nat) : Nat → Bool → St × String
  | 0, _ => (s, "fuel")
  | fuel + 1, first =>
    match s.thr tid with
    | none => (s, "nothread")
    | some t =>
      match (if first then none else atYield c t) with
      | some p => (s, p)
      | none =>
        match WM.step c false s (.run tid) with
        | some s' => runToYield c s' tid fuel false
        | none => (s, if (atYield c t) == some "return" then "return" else "blocked")

/-- run `tid` until its call returns -/
def runToEnd (c : WMCfg) (s : St) (tid : Nat) : Nat → St
  | 0 => s
  | fuel + 1 =>
    match WM.step c false s (.run tid) with
    | some s' => runToEnd c s' tid fuel
    | none => s

/-- specification side -/
def passedFlag (d : DSt) : String :=
  if d.touched.any (fun j => decide (j ≤ d.s.doneUntil) &&
      decide (d.s.nDoneDec j < d.s.nBegun j - (d.ignored.filter (· == j)).length)) then "passed" else "ok"

def reply (d : DSt) (what : String) : String :=
  s!"{passedFlag d}:{what} du={d.s.doneUntil} li={d.s.lastIndex}\tok:*"

def fuelFor (s : St) (i : Nat) : Nat := 8 * (Nat.max s.lastIndex i - s.doneUntil) + 64

def touch (d : DSt) (i : Nat) : DSt := if d.touched.contains i then d else { d with touched := i :: d.touched }

/-- a Begin that starts at or below the mark is outside the property's domain -/
def noteBegin (d : DSt) (i : Nat) : DSt :=
  if i ≤ d.s.doneUntil then { d with ignored := i :: d.ignored } else d

def winCfg (d : DSt) : WinCfg := ⟨d.c, d.grow, d.copyAll, d.baseAtDone⟩

def liveSched (d : DSt) : Bool :=
  d.sched.any fun t => match d.s.thr t with
    | some th => atYield d.c th != some "return"
    | none => false

/-- one element of a whole call on the micro-step model -/
def microRun (c : WMCfg) (s : St) (tid : Nat) (a : Act) (gapTo : Nat) : St :=
  match WM.step c false s a with
  | some s1 => runToEnd c s1 tid (fuelFor s1 gapTo)
  | none => s

def microCall (c : WMCfg) (s : St) (tmp : Nat) : Call → St × Nat
  | .begin i =>
    (microRun c s tmp (if i = 0 ∧ c.tracksZero = false then .adv tmp else .begin tmp i) i, tmp + 1)
  | .done i => (if i = 0 ∧ c.tracksZero = false then s else microRun c s tmp (.done tmp i) i, tmp + 1)
  | .beginMany is =>
    match is.getLast? with
    | none => (s, tmp)
    | some l =>
      let counts (st : St × Nat) : St × Nat := is.foldl (fun (st : St × Nat) i =>
        (if i = 0 ∧ c.tracksZero = false then st.1 else microRun c st.1 st.2 (.count st.2 i) i, st.2 + 1)) st
      if c.countsFirst then
        let st := counts (s, tmp)
        (microRun c st.1 st.2 (.publish st.2 l) l, st.2 + 1)
      else
        -- (the publish-first order has no tryAdvance between the publish and the counts; this
        -- obsolete configuration is modelled with the one of `publish`)
        counts (microRun c s tmp (.publish tmp l) l, tmp + 1)
  | .doneMany is =>
    is.foldl (fun (st : St × Nat) i =>
      (if i = 0 ∧ c.tracksZero = false then st.1 else microRun c st.1 st.2 (.done st.2 i) i, st.2 + 1)) (s, tmp)

def toA (s : St) : ASt := { du := s.doneUntil, li := s.lastIndex, cnt := s.cnt, nBegin := s.nCounted, nDone := s.nDoneDec }

def fromA (s : St) (a : ASt) : St :=
  { s with doneUntil := a.du, lastIndex := a.li, cnt := a.cnt,
           nBegun := fun j => s.nBegun j + (a.nBegin j - s.nCounted j),
           nCounted := a.nBegin, nDoneDec := a.nDone }

def callIdx : Call → List Nat
  | .begin i => [i]
  | .done i => [i]
  | .beginMany is => is
  | .doneMany is => is

def callBegins : Call → List Nat
  | .begin i => [i]
  | .beginMany is => is
  | _ => []

def wholeCall (d : DSt) (k : Call) : DSt :=
  -- specification bookkeeping: a Begin at or below the mark is outside the property's domain
  let d := (callBegins k).foldl (fun d i => touch (noteBegin d i) i) d
  let far := (callIdx k).foldl Nat.max d.s.lastIndex
  let gap := far - d.s.doneUntil
  let d1 :=
    if liveSched d then
      let (s', tmp') := microCall d.c d.s d.tmp k
      { d with s := s', tmp := tmp' }
    else
      let a' := aCall d.c (toA d.s) k
      let s' := fromA d.s a'
      if gap < 3000 then
        let (sm, tmp') := microCall d.c d.s d.tmp k
        if sm.doneUntil = s'.doneUntil ∧ sm.lastIndex = s'.lastIndex then { d with s := sm, tmp := tmp' }
        else { d with s := sm, tmp := tmp', diverged := " microstep-vs-wholecall-diverges" }
      else { d with s := s' }
  match d1.win with
  | none => d1
  | some w =>
    let w' := call (winCfg d1) w k
    if w'.doneUntil = d1.s.doneUntil ∧ w'.lastIndex = d1.s.lastIndex then { d1 with win := some w' }
    else { d1 with win := some w', diverged := d1.diverged ++ " window-model-diverges" }

def parseList? (s : String) : Option (List Nat) :=
  if s == "-" then some [] else (s.splitOn ",").mapM natOf?

def step (d : DSt) (toks : List String) : DSt × String :=
  match toks with
  | ["wm.new"] => ({ d with s := initSt, touched := [], ignored := [], tmp := 1000000, sched := [], win := some initW, diverged := "", waiters := [] }, "ok\t*")
  | ["wm.begin", i] =>
    match natOf? i with
    | some i => let d' := wholeCall d (.begin i); (d', reply d' ("done" ++ d'.diverged))
    | none => (d, "bad-op")
  | ["wm.done", i] =>
    match natOf? i with
    | some i => let d' := wholeCall d (.done i); (d', reply d' ("done" ++ d'.diverged))
    | none => (d, "bad-op")
  | ["wm.beginmany", l] =>
    match parseList? l with
    | some is => let d' := wholeCall d (.beginMany is); (d', reply d' ("done" ++ d'.diverged))
    | none => (d, "bad-op")
  | ["wm.donemany", l] =>
    match parseList? l with
    | some is => let d' := wholeCall d (.doneMany is); (d', reply d' ("done" ++ d'.diverged))
    | none => (d, "bad-op")
  | ["wm.waitstart", wid, i] =>
    -- WaitForMark(ctx, i) in its own goroutine, with a context that can be cancelled later
    match natOf? wid, natOf? i with
    | some wid, some i =>
      if d.waiters.any (fun x => x.1 == wid) then (d, "bad-op") else
      let st := if d.s.doneUntil ≥ i then 1 else 0
      ({ d with waiters := d.waiters ++ [(wid, i, st)] }, reply d (if st == 1 then "nil" else "parked"))
    | _, _ => (d, "bad-op")
  | ["wm.waitcancel", wid] =>
    -- the context of a parked waiter is cancelled: it returns ctx.Err(); nobody else is released
    match natOf? wid with
    | some wid =>
      match d.waiters.find? (fun x => x.1 == wid) with
      | some (_, _, 0) =>
        ({ d with waiters := d.waiters.map (fun x => if x.1 == wid then (x.1, x.2.1, 2) else x) }, reply d "ctxerr")
      | some _ => (d, reply d "notparked")
      | none => (d, "bad-op")
    | none => (d, "bad-op")
  | ["wm.waiters"] =>
    -- every parked waiter whose index the mark has reached has been notified and returns nil
    let ws := d.waiters.map (fun x => if x.2.2 == 0 && decide (x.2.1 ≤ d.s.doneUntil) then (x.1, x.2.1, 1) else x)
    let ids (st : Nat) : String :=
      let l := (ws.filter (fun x => x.2.2 == st)).map (fun x => toString x.1)
      if l.isEmpty then "-" else ",".intercalate l
    ({ d with waiters := ws }, s!"ok:parked={ids 0} nil={ids 1} err={ids 2}\tok:*")
  | ["wm.wait", i] =>
    match natOf? i with
    | some i => (d, reply d (if d.s.doneUntil ≥ i then "ok" else "pending"))
    | none => (d, "bad-op")
  | ["wm.spawn", t, k, i] =>
    match natOf? t, natOf? i with
    | some tid, some i =>
      if i = 0 ∨ tid ≥ 1000000 then (d, "bad-op") else
      let a := if k == "begin" then some (Act.begin tid i) else if k == "done" then some (Act.done tid i) else none
      match a with
      | some a =>
        match WM.step d.c false d.s a with
        | some s1 =>
          let d := { d with sched := tid :: d.sched, win := none }
          (if k == "begin" then touch { d with s := s1 } i else { d with s := s1 }, "ok\t*")
        | none => (d, "bad-op")
      | none => (d, "bad-op")
    | _, _ => (d, "bad-op")
  | ["wm.step", t] =>
    match natOf? t with
    | some tid =>
      match d.s.thr tid with
      | none => (d, reply d "finished")
      | some th =>
        if atYield d.c th == some "return" then (d, reply d "finished") else
        let (s1, p) := runToYield d.c d.s tid (fuelFor d.s 0) true
        -- first segment of a scheduled Begin: that is when the index is begun
        let d := if th.stage = 0 ∧ th.loc = .start ∧ th.kind.isBegin then noteBegin d th.kind.idx else d
        let d' := { d with s := s1 }
        (d', reply d' p)
    | none => (d, "bad-op")
  | _ => (d, "bad-op")

end ConcWM

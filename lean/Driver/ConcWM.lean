/-
Driver part for C32 (watermark).  Ops:

  wm.new
  wm.begin <i> | wm.done <i>       a whole call, run to completion (no other thread runs)
  wm.wait <i>                      WaitForMark with an already cancelled context → ok | pending
  wm.spawn <tid> <begin|done> <i>  a call in a scheduled goroutine, parked before its first step
  wm.step <tid>                    run <tid> up to its next yield point
                                   (wm.begin.mid, wm.advance.loop) or its return
  every reply: <ok|passed>:<what> du=<doneUntil> li=<lastIndex>
  `passed` = some index at or below doneUntil is begun and unfinished (spec column: ok:*)
-/
import Driver.Lib
import NoKVModel.Base.Cfg
import NoKVModel.Conc.Watermark

namespace ConcWM
open NoKV NoKV.Conc NoKV.Conc.WM Driver

structure DSt where
  c : WMCfg := { countsFirst := true }   -- tracksZero / holdsAtDone default to the pre-patch shape
  s : St := initSt
  touched : List Nat := []      -- indices that were ever begun (for the spec flag)
  ignored : List Nat := []      -- one entry per Begin whose index was at or below the mark when it started
  tmp : Nat := 1000000          -- thread ids for whole-call ops

def setCfg (d : DSt) (kv : String) : Option DSt :=
  match kv.splitOn "=" with
  | [k, v] =>
    match k with
    | "wm.beginOrder" =>
      if v == "publishThenCount" then some { d with c := { d.c with countsFirst := false } }
      else if v == "countThenPublish" then some { d with c := { d.c with countsFirst := true } }
      else none
    | "wm.tracksZero" => do let b ← boolOfString? v; pure { d with c := { d.c with tracksZero := b } }
    | "wm.holdsAtDone" => do let b ← boolOfString? v; pure { d with c := { d.c with holdsAtDone := b } }
    | "wm.advanceShape" => if v == "true" then some d else none
    | "wm.setDoneUntilCallers" => some d     -- SetDoneUntil is not part of the model; the call sites are pinned by the check
    | _ => if k.startsWith "wm." then none else some d
  | _ => none

/-- is thread `t` standing at a yield point of the real code? -/
def atYield (c : WMCfg) (t : Thr) : Option String :=
  match (progOf c t.kind)[t.stage]? with
  | none => some "return"
  | some .advance => if t.loc = .start then some "advance.loop" else none
  | some (.add _ true) => if c.countsFirst then none else some "begin.mid"
  | some (.setLast _) => if c.countsFirst then some "begin.mid" else none
  | _ => none

/-- run `tid` to its next yield point (at least one micro-step) -/
def runToYield (c : WMCfg) (s : St) (tid : Nat) : Nat → Bool → St × String
  | 0, _ => (s, "fuel")
  | fuel + 1, first =>
    match s.thr tid with
    | none => (s, "nothread")
    | some t =>
      match (if first then none else atYield c t) with
      | some p => (s, p)
      | none =>
        match WM.step c false s (.run tid) with
        | some s' => runToYield c s' tid fuel false
        | none => (s, if (atYield c t) == some "return" then "return" else "blocked")

/-- run `tid` until its call returns -/
def runToEnd (c : WMCfg) (s : St) (tid : Nat) : Nat → St
  | 0 => s
  | fuel + 1 =>
    match WM.step c false s (.run tid) with
    | some s' => runToEnd c s' tid fuel
    | none => s

/-- specification side -/
def passedFlag (d : DSt) : String :=
  if d.touched.any (fun j => decide (j ≤ d.s.doneUntil) &&
      decide (d.s.nDoneDec j < d.s.nBegun j - (d.ignored.filter (· == j)).length)) then "passed" else "ok"

def reply (d : DSt) (what : String) : String :=
  s!"{passedFlag d}:{what} du={d.s.doneUntil} li={d.s.lastIndex}\tok:*"

def fuelFor (s : St) (i : Nat) : Nat := 8 * (Nat.max s.lastIndex i - s.doneUntil) + 64

def touch (d : DSt) (i : Nat) : DSt := if d.touched.contains i then d else { d with touched := i :: d.touched }

/-- a Begin that starts at or below the mark is outside the property's domain -/
def noteBegin (d : DSt) (i : Nat) : DSt :=
  if i ≤ d.s.doneUntil then { d with ignored := i :: d.ignored } else d

def step (d : DSt) (toks : List String) : DSt × String :=
  match toks with
  | ["wm.new"] => ({ d with s := initSt, touched := [], tmp := 1000000 }, "ok\t*")
  | ["wm.begin", i] =>
    match natOf? i with
    | some i =>
      -- index 0 is ignored by addIndex unless wm.tracksZero: Begin(0) is then a bare tryAdvance
      match WM.step d.c false d.s (if i = 0 ∧ d.c.tracksZero = false then .adv d.tmp else .begin d.tmp i) with
      | some s1 =>
        let d := noteBegin d i
        let d' := touch { d with s := runToEnd d.c s1 d.tmp (fuelFor s1 i), tmp := d.tmp + 1 } i
        (d', reply d' "done")
      | none => (d, "bad-op")
    | none => (d, "bad-op")
  | ["wm.done", i] =>
    match natOf? i with
    | some i =>
      -- … and Done(0) does nothing at all (addIndex returns before tryAdvance)
      if i = 0 ∧ d.c.tracksZero = false then (d, reply d "done") else
      match WM.step d.c false d.s (.done d.tmp i) with
      | some s1 =>
        let d' := { d with s := runToEnd d.c s1 d.tmp (fuelFor s1 i), tmp := d.tmp + 1 }
        (d', reply d' "done")
      | none => (d, "bad-op")
    | none => (d, "bad-op")
  | ["wm.wait", i] =>
    match natOf? i with
    | some i => (d, reply d (if d.s.doneUntil ≥ i then "ok" else "pending"))
    | none => (d, "bad-op")
  | ["wm.spawn", t, k, i] =>
    match natOf? t, natOf? i with
    | some tid, some i =>
      if i = 0 ∨ tid ≥ 1000000 then (d, "bad-op") else
      let a := if k == "begin" then some (Act.begin tid i) else if k == "done" then some (Act.done tid i) else none
      match a with
      | some a =>
        match WM.step d.c false d.s a with
        | some s1 => (if k == "begin" then touch { d with s := s1 } i else { d with s := s1 }, "ok\t*")
        | none => (d, "bad-op")
      | none => (d, "bad-op")
    | _, _ => (d, "bad-op")
  | ["wm.step", t] =>
    match natOf? t with
    | some tid =>
      match d.s.thr tid with
      | none => (d, reply d "finished")
      | some th =>
        if atYield d.c th == some "return" then (d, reply d "finished") else
        let (s1, p) := runToYield d.c d.s tid (fuelFor d.s 0) true
        -- first segment of a scheduled Begin: that is when the index is begun
        let d := if th.stage = 0 ∧ th.loc = .start ∧ th.kind.isBegin then noteBegin d th.kind.idx else d
        let d' := { d with s := s1 }
        (d', reply d' p)
    | none => (d, "bad-op")
  | _ => (d, "bad-op")

end ConcWM

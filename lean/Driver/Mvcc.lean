-- stub: replaced by the mvcc engine driver
def main : IO Unit := pure ()

/-
Line-protocol driver for the MVCC engine (C03, C04).
Reply format: `<model>\t<spec>`; spec patterns: `*` anything, `a|b` alternatives, `pre*` prefix.

The *spec* column is computed from an independent abstract state (the property's own
vocabulary): a current key→value map, the list of successful commits with the keys they wrote,
per transaction the map snapshot taken at `begin`, its own writes and the set of keys it read
from the snapshot.  It never looks at the oracle, the watermark or the versioned store of the
model.  Two choices the specification leaves open are taken from the model's (separately
compared) answer: whether a `set`/`commit` that *may* fail did fail, and which version number a
successful commit received — the spec then demands that this number exceeds every version and
read timestamp handed out before.
-/
import Driver.Lib
import NoKVModel.Mvcc.Model

open NoKV NoKV.Mvcc Driver

structure STxn where
  update : Bool
  snap : List (Key × Option Val)
  beginIdx : Nat
  writes : List (Key × Option Val) := []
  readKeys : List Key := []
  /-- one entry per scan of an update transaction: the keys its own pending writes shadowed then -/
  scans : List (List Key) := []
  done : Bool := false

structure Spec where
  cur : List (Key × Option Val) := []
  ncommits : Nat := 0
  history : List (Nat × List Key) := []        -- (commit index, keys written)
  vlog : List (Key × Nat × Val) := []          -- live versions, newest first
  lastV : Nat := 0                             -- version of the last successful commit
  maxTs : Nat := 0                             -- largest version / read timestamp handed out
  closed : Bool := false
  txns : List (Nat × STxn) := []

structure DSt where
  cfg : MvccCfg := MvccCfg.good
  /-- which property's specification the spec column prints ("C03" or "C04") -/
  prop : String := "C03"
  m : St := {}
  sp : Spec := {}

def fpOf (k : Key) : Nat := k.foldl (fun acc b => acc * 257 + b + 1) 0

def setCfg (c : MvccCfg) (kv : String) : Option MvccCfg :=
  match kv.splitOn "=" with
  | [k, v] =>
    match k with
    | "oracle.readTsOff" => do let n ← natOf? v; pure { c with readTsOff := n }
    | "txn.trackGet" => do let b ← boolOfString? v; pure { c with trackGet := b }
    | "oracle.checksConflict" => do let b ← boolOfString? v; pure { c with checksConflict := b }
    | "oracle.skipOp" => do let o ← CmpOp.ofString? v; pure { c with skipOp := o }
    | "oracle.intentOp" => do let o ← CmpOp.ofString? v; pure { c with intentOp := o }
    | "oracle.intentFinal" => do let b ← boolOfString? v; pure { c with intentFinal := b }
    | "oracle.intentDelGuard" => do let b ← boolOfString? v; pure { c with intentDelGuard := b }
    | "txnit.trackAll" => do let b ← boolOfString? v; pure { c with scanTrackAll := b }
    | "txnit.tracksRange" => do let b ← boolOfString? v; pure { c with scanTracksRange := b }
    | "oracle.beginWaits" => some c   -- pinned by the extractor; the atomic-step model has no counterpart
    | "db.failFanout" => some c       -- pinned by the extractor; modelled by the `applyfault` scenario
    | "oracle.seedOp" => do let o ← CmpOp.ofString? v; pure { c with seedOp := o }
    | "oracle.recordsCommit" => do let b ← boolOfString? v; pure { c with recordsCommit := b }
    | "oracle.pruneOp" => do let o ← CmpOp.ofString? v; pure { c with pruneOp := o }
    | "txn.countOp" => do let o ← CmpOp.ofString? v; pure { c with countOp := o }
    | "txn.sizeOp" => do let o ← CmpOp.ofString? v; pure { c with sizeOp := o }
    | "db.sendCountOp" => do let o ← CmpOp.ofString? v; pure { c with sendCountOp := o }
    | "db.sendSizeOp" => do let o ← CmpOp.ofString? v; pure { c with sendSizeOp := o }
    | "wm.tracksZero" => do let b ← boolOfString? v; pure { c with wmTracksZero := b }
    | "wm.holdsAtDone" => do let b ← boolOfString? v; pure { c with wmHoldsAtDone := b }
    | _ => none
  | _ => none

def valStr (v : Option Val) : String :=
  match v with
  | some b => "val:" ++ b.toHex
  | none => "notfound"

def versStr (l : List (Nat × Val)) : String :=
  if l.isEmpty then "-" else ",".intercalate (l.map (fun p => s!"{p.1}={p.2.toHex}"))

def outStr : Out → String
  | .ok => "ok"
  | .okTs ts => s!"ok {ts}"
  | .val v => "val:" ++ v.toHex
  | .notfound => "notfound"
  | .conflict => "conflict"
  | .toobig => "toobig"
  | .blocked => "blocked"
  | .readonly => "readonly"
  | .discarded => "discarded"
  | .closed => "closed"
  | .notxn => "notxn"
  | .iofail => "iofail"
  | .vers l => versStr l
  | .scanned l => "scan:" ++ (if l.isEmpty then "-" else ",".intercalate (l.map (fun p => s!"{p.1.toHex}={p.2.toHex}")))

def sGet (sp : Spec) (id : Nat) : Option STxn :=
  match sp.txns.find? (fun p => p.1 = id) with
  | some p => some p.2
  | none => none

def sPut (sp : Spec) (id : Nat) (t : STxn) : Spec := { sp with txns := (id, t) :: sp.txns }

def mapGet (m : List (Key × Option Val)) (k : Key) : Option Val :=
  match m.find? (fun p => p.1 = k) with
  | some p => p.2
  | none => none

def mapSet (m : List (Key × Option Val)) (k : Key) (v : Option Val) : List (Key × Option Val) :=
  (k, v) :: m.filter (fun p => p.1 ≠ k)

def insPair (p : Key × Val) : List (Key × Val) → List (Key × Val)
  | [] => [p]
  | x :: xs => if Bytes.lt p.1 x.1 then p :: x :: xs else x :: insPair p xs

/-- the specification of `Commit` / `CommitWith` (`io`: the harness injected a write-path fault,
so `ok` is not an allowed answer) -/
def specCommit (prop : String) (sp : Spec) (id : Nat) (mout : Out) (mts : Nat) (io : Bool) : Spec × String :=
    match sGet sp id with
    | none => (sp, "notxn")
    | some t =>
      if t.done then (sp, "discarded")
      else
        let spDone := sPut sp id { t with done := true }
        if t.writes.isEmpty then (spDone, "ok")
        else if prop != "C04" &&
            sp.history.any (fun h => decide (h.1 ≥ t.beginIdx) &&
              (h.2.any (fun k => t.readKeys.contains k) ||
               t.scans.any (fun own => h.2.any (fun k => !own.contains k)))) then
          -- C03: a later commit wrote a key this transaction read from its snapshot, or a key inside
          -- a range it scanned (unbounded scans: any key its own pending writes did not shadow then)
          -- (C04 runs do not judge conflict detection: only atomicity and versions)
          (spDone, "conflict")
        else
          let errs := if sp.closed then "conflict|toobig|blocked" else if io then "conflict|toobig|iofail" else "conflict|toobig"
          if mout = .ok then
            if sp.closed || io then (spDone, errs)
            else if mts ≤ sp.maxTs then (spDone, errs ++ s!"|commit-version-must-be>{sp.maxTs}")
            else
              let keys := t.writes.map (·.1)
              let sp' := { spDone with
                cur := t.writes.foldr (fun p acc => mapSet acc p.1 p.2) sp.cur
                history := (sp.ncommits, keys) :: sp.history
                ncommits := sp.ncommits + 1
                vlog := t.writes.filterMap (fun p => match p.2 with
                                                     | some v => some (p.1, mts, v)
                                                     | none => none) ++ sp.vlog
                lastV := mts, maxTs := mts }
              (sp', errs ++ "|ok")
          else (spDone, if io then errs else errs ++ "|ok")

/-- the specification's step: given the op and the model's answer, the allowed answers -/
def specStep (prop : String) (sp : Spec) (op : Op) (mout : Out) (mts : Nat) : Spec × String :=
  match op with
  | .begin id upd =>
    match mout with
    | .okTs r =>
      let t : STxn := { update := upd, snap := sp.cur, beginIdx := sp.ncommits }
      let sp' := sPut { sp with maxTs := max sp.maxTs r } id t
      (sp', if sp.lastV ≤ r then s!"ok {r}" else s!"read-ts-must-be>={sp.lastV}")
    | _ => (sp, "ok*")
  | .get id k =>
    match sGet sp id with
    | none => (sp, "notxn")
    | some t =>
      if t.done then (sp, "discarded")
      else if sp.closed then (sp, "closed|" ++ valStr (mapGet t.snap k))
      else
        match (if t.update then t.writes.find? (fun p => p.1 = k) else none) with
        | some p => (sp, valStr p.2)
        | none =>
          let t' := if t.update then { t with readKeys := k :: t.readKeys } else t
          (sPut sp id t', valStr (mapGet t.snap k))
  | .set id k v =>
    match sGet sp id with
    | none => (sp, "notxn")
    | some t =>
      if t.done then (sp, "readonly|discarded")
      else if !t.update then (sp, "readonly")
      else
        let sp' := if mout = .ok then sPut sp id { t with writes := mapSet t.writes k v } else sp
        (sp', "ok|toobig")
  | .commitIO id => specCommit prop sp id mout mts true
  | .commit id => specCommit prop sp id mout mts false
  | .scan id =>
    match sGet sp id with
    | none => (sp, "notxn")
    | some t =>
      if t.done then (sp, "discarded")
      else if sp.closed then (sp, "closed")
      else
        -- the transaction's view: its snapshot overlaid with its own writes, live keys in key order
        let view := if t.update then t.writes.foldr (fun p acc => mapSet acc p.1 p.2) t.snap else t.snap
        let live := view.filterMap (fun p => match p.2 with
                                             | some v => some (p.1, v)
                                             | none => none)
        let sorted := live.foldr insPair []
        let t' := if t.update then
            { t with readKeys := sorted.map (·.1) ++ t.readKeys, scans := t.writes.map (·.1) :: t.scans }
          else t
        (sPut sp id t', outStr (.scanned sorted))
  | .reopen =>
    -- a reopen ends every transaction; read timestamps of the old instance no longer count
    ({ sp with closed := false, txns := [], maxTs := sp.lastV }, "ok")
  | .discard id =>
    match sGet sp id with
    | none => (sp, "notxn")
    | some t => (sPut sp id { t with done := true }, "ok")
  | .close => ({ sp with closed := true }, "ok")
  | .versions k =>
    if sp.closed then (sp, "*")
    else (sp, versStr ((sp.vlog.filter (fun e => e.1 = k)).map (fun e => (e.2.1, e.2.2))))

def parseOp? (toks : List String) : Option Op :=
  match toks with
  | ["begin", id, m] => do let id ← natOf? id; pure (.begin id (m == "u"))
  | ["get", id, k] => do let id ← natOf? id; let k ← bytesOf? k; pure (.get id k)
  | ["set", id, k, v] => do let id ← natOf? id; let k ← bytesOf? k; let v ← bytesOf? v; pure (.set id k (some v))
  | ["del", id, k] => do let id ← natOf? id; let k ← bytesOf? k; pure (.set id k none)
  | ["commit", id] => do let id ← natOf? id; pure (.commit id)
  | ["commitwith", id] => do let id ← natOf? id; pure (.commit id)
  | ["commitio", id] => do let id ← natOf? id; pure (.commitIO id)
  | ["scan", id] => do let id ← natOf? id; pure (.scan id)
  | ["reopen"] => some .reopen
  | ["discard", id] => do let id ← natOf? id; pure (.discard id)
  | ["close"] => some .close
  | ["versions", k] => do let k ← bytesOf? k; pure (.versions k)
  | _ => none

/-- one model step + the specification's step: (new state, (model answer, spec pattern)) -/
def one (st : DSt) (op : Op) : DSt × (String × String) :=
  let (m', out) := step st.cfg fpOf st.m op
  let mts := match m'.log with
    | cm :: _ => cm.ts
    | [] => 0
  let (sp', spec) := specStep st.prop st.sp op out mts
  ({ st with m := m', sp := sp' }, (outStr out, spec))

/-- the spec pattern language of hlib, for composite scenario lines -/
def SpecOk (r : String × String) : Bool :=
  r.2 == "*" || (r.2.splitOn "|").any (fun alt =>
    if alt.endsWith "*" then r.1.startsWith (alt.dropRight 1) else alt == r.1)

def dstep (st : DSt) (toks : List String) : DSt × String :=
  match toks with
  | "cfg" :: kvs =>
    let prop := (kv? kvs "prop").getD st.prop
    match (kvs.filter (fun t => !t.startsWith "prop=")).foldlM setCfg st.cfg with
    | some c => ({ st with cfg := c, prop := prop }, "ok")
    | none => (st, "bad-cfg")
  | ["open", a, b, t] =>
    match natOf? a, natOf? b, natOf? t with
    | some a, some b, some t => ({ st with m := init a b t, sp := {} }, "ok\t*")
    | _, _, _ => (st, "bad-op")
  | ["applyfault", tag] =>
    -- directed scenario: with the worker parked on transaction 94, the queue receives 95, a poisoned
    -- raw request the LSM refuses, and 96 — one batch.  95 is applied; the request that fails and
    -- every request behind it in the batch get the error and are not applied, so 96 answers with
    -- the error and leaves nothing.  (No parking when 94's write was refused or the DB is closed.)
    match bytesOf? tag with
    | some tag =>
      let stallVal := List.replicate (st.m.thr + 8) (tag.headD 115)
      let (sa, r94) := one (one st (.begin 94 true)).1 (.set 94 [115, 97] (some stallVal))
      let pre : List Op := [.begin 95 true, .set 95 [97, 49] (some [65]), .begin 96 true, .set 96 [98, 49] (some [66])]
      let st1 := pre.foldl (fun acc op => (one acc op).1) sa
      let parkable := r94.1 == "ok" && !st1.m.closed
      let (st2, o94) := one st1 (.commit 94)
      let (st3, o95) := one st2 (.commit 95)
      let (st4, o96) := one st3 (if parkable then .commitIO 96 else .commit 96)
      let model := ",".intercalate [o94.1, o95.1, o96.1]
      let okAll := SpecOk o94 && SpecOk o95 && SpecOk o96
      (st4, model ++ "\t" ++ (if okAll then model else "spec-rejects:" ++ o94.2 ++ "," ++ o95.2 ++ "," ++ o96.2))
    | none => (st, "bad-op")
  | ["tornread", tag] =>
    -- directed scenario: transaction 93 writes p1 and p2 and is committed with the worker parked
    -- between timestamp and apply; a read-only (91) and an update (92) transaction begun meanwhile
    -- read p1 at once and p2 after the commit was acknowledged.  NewTransaction waits for the commit,
    -- so as atomic steps: commit 93, then each reader begins and reads both keys.
    match bytesOf? tag with
    | some tag =>
      let stallVal := List.replicate (st.m.thr + 8) (tag.headD 115)
      let pre : List Op := [.begin 93 true, .set 93 [112, 49] (some stallVal), .set 93 [112, 50] (some [81])]
      let st1 := pre.foldl (fun acc op => (one acc op).1) st
      let (st2, o93) := one st1 (.commit 93)
      let first1 := fun (r : String × String) => (if r.1.startsWith "val:" then (r.1.take 6).toString else r.1,
                                                   if r.2.startsWith "val:" then (r.2.take 6).toString else r.2)
      let (st3, _) := one st2 (.begin 91 false)
      let (st4, a1) := one st3 (.get 91 [112, 49])
      let (st5, a2) := one st4 (.get 91 [112, 50])
      let (st6, _) := one st5 (.begin 92 true)
      let (st7, b1) := one st6 (.get 92 [112, 49])
      let (st8, b2) := one st7 (.get 92 [112, 50])
      let a1 := first1 a1; let a2 := first1 a2; let b1 := first1 b1; let b2 := first1 b2
      let model := o93.1 ++ ";" ++ a1.1 ++ "," ++ a2.1 ++ ";" ++ b1.1 ++ "," ++ b2.1
      let spec := o93.2.replace "|" "/" ++ ";" ++ a1.2 ++ "," ++ a2.2 ++ ";" ++ b1.2 ++ "," ++ b2.2
      (st8, model ++ "\t" ++ (if SpecOk o93 then (o93.1 ++ ";" ++ a1.2 ++ "," ++ a2.2 ++ ";" ++ b1.2 ++ "," ++ b2.2) else "spec-rejects:" ++ spec))
    | none => (st, "bad-op")
  | ["vlogfault", n2, tag] =>
    -- directed scenario (harness: FaultFS): three fresh transactions 97 (inline value), 98 (100-byte
    -- value), 99 (n2-byte value that needs a new value-log segment whose creation fails); 97 is
    -- applied alone, 98 and 99 travel in one batch.  If 99's request reaches the write pipeline the
    -- whole batch fails (`vlog.write` error ⇒ every request of the batch gets the error).
    match natOf? n2, bytesOf? tag with
    | some n2, some tag =>
      let stallVal := List.replicate (st.m.thr + 8) (tag.headD 115)
      let pre : List Op := [.begin 97 true, .set 97 [115, 116] (some stallVal), .begin 98 true,
        .set 98 [116, 49] (some (List.replicate 100 99)), .begin 99 true, .set 99 [116, 50] (some (List.replicate n2 100))]
      let st1 := pre.foldl (fun acc op => (one acc op).1) st
      let (st2, o97) := one st1 (.commit 97)
      let probe := one (one st2 (.commitIO 98)).1 (.commit 99)
      let reaches := probe.1.m.log.length > (one st2 (.commitIO 98)).1.m.log.length
      let (st3, o98) := one st2 (if reaches then .commitIO 98 else .commit 98)
      let (st4, o99) := one st3 (if reaches then .commitIO 99 else .commit 99)
      let model := ",".intercalate [o97.1, o98.1, o99.1]
      let okAll := SpecOk o97 && SpecOk o98 && SpecOk o99
      (st4, model ++ "\t" ++ (if okAll then model else "spec-rejects:" ++ o97.2 ++ "," ++ o98.2 ++ "," ++ o99.2))
    | _, _ => (st, "bad-op")
  | _ =>
    match parseOp? toks with
    | none => (st, "bad-op")
    | some op =>
      let (st', r) := one st op
      (st', r.1 ++ "\t" ++ r.2)

def main : IO Unit := Driver.loop ({} : DSt) dstep

/-
Line-protocol driver loop shared by all engines (core Lean only).

One request line in, exactly one reply line out (flushed), so the Go harness can talk to
the driver synchronously.  `reset` re-initialises the engine state; every other line is
handed to the engine's `step` as a list of space-separated tokens.
-/
import NoKVModel.Base.Bytes

namespace Driver

def tokens (line : String) : List String :=
  ((line.trimAscii.toString.splitOn " ").filter (· ≠ ""))

def natOf? (s : String) : Option Nat := s.toNat?

def bytesOf? (s : String) : Option NoKV.Bytes := NoKV.Bytes.ofHex? s

/-- key=value token lookup -/
def kv? (toks : List String) (k : String) : Option String :=
  toks.findSome? fun t =>
    match t.splitOn "=" with
    | [a, b] => if a == k then some b else none
    | _ => none

partial def loop {σ : Type} (init : σ) (step : σ → List String → σ × String) : IO Unit := do
  let stdin ← IO.getStdin
  let stdout ← IO.getStdout
  let rec go (s : σ) : IO Unit := do
    let line ← stdin.getLine
    if line.isEmpty then return ()
    let toks := tokens line
    match toks with
    | ["reset"] =>
      stdout.putStrLn "ok"
      stdout.flush
      go init
    | _ =>
      let (s', out) := step s toks
      stdout.putStrLn out
      stdout.flush
      go s'
  go init

end Driver
